/-
C19 — Relative resource paths resolve like POSIX path normalisation.
-/
import LiquerModel.Paths

namespace Liquer.C19
open Liquer

/-! helper facts (small enough to live here) -/

theorem toAbsGo_started (path : List Str) (processed rest : List Str) :
    toAbsGo path true processed rest = normGo processed rest := by
  induction rest generalizing processed with
  | nil => simp [toAbsGo, normGo]
  | cons r rest ih =>
    simp only [toAbsGo, normGo]
    split
    · simp [ih]
    · split
      · simp only [Bool.not_true, Bool.false_eq_true, ↓reduceIte]
        split
        · rfl
        · exact ih _
      · exact ih _

theorem normGo_append_plain (acc d p : List Str) (hd : plainPath d = true) :
    normGo acc (d ++ p) = normGo (acc ++ d) p := by
  induction d generalizing acc with
  | nil => simp
  | cons x d ih =>
    have hx : x ≠ dot ∧ x ≠ dotdot := by
      simp [plainPath] at hd; exact ⟨hd.1.1, hd.1.2⟩
    have hd' : plainPath d = true := by
      simp [plainPath] at hd ⊢; exact hd.2
    simp only [List.cons_append, normGo, hx.1, hx.2, ↓reduceIte]
    rw [ih _ hd']
    simp

/-- **C19 main theorem.** For every directory of plain names and every resource path (any length):
resolving is POSIX normalisation of `dir ++ p` when `p` starts with `.` or `..`, of `p` alone
otherwise; `none` (rejected) exactly when normalisation climbs above the root. -/
theorem toAbsolute_eq_posix (dir p : List Str) (hd : plainPath dir = true) :
    toAbs dir p = if startsRelative p then posixNorm (dir ++ p) else posixNorm p := by
  unfold toAbs posixNorm
  cases p with
  | nil => simp [toAbsGo, startsRelative, normGo]
  | cons r rest =>
    rw [normGo_append_plain [] dir _ hd]
    simp only [List.nil_append]
    by_cases h1 : r = dot
    · subst h1
      simp [toAbsGo, startsRelative, normGo, toAbsGo_started]
    · by_cases h2 : r = dotdot
      · subst h2
        have : dotdot ≠ dot := by decide
        simp [toAbsGo, startsRelative, normGo, toAbsGo_started, this]
      · simp [toAbsGo, startsRelative, normGo, toAbsGo_started, h1, h2]

/-- normalisation never returns `.` or `..` components -/
theorem normGo_plain (acc p r : List Str) (ha : plainPath acc = true) (h : normGo acc p = some r) :
    plainPath r = true := by
  induction p generalizing acc with
  | nil => simp [normGo] at h; subst h; exact ha
  | cons x p ih =>
    simp only [normGo] at h
    split at h
    · exact ih _ ha h
    · split at h
      · split at h
        · cases h
        · refine ih _ ?_ h
          simp [plainPath] at ha ⊢
          intro n hn; exact ha n (List.dropLast_subset _ hn)
      · refine ih _ ?_ h
        simp [plainPath] at ha ⊢
        rename_i h1 h2
        exact ⟨ha, h1, h2⟩

theorem normGo_of_plain (acc p : List Str) (hp : plainPath p = true) : normGo acc p = some (acc ++ p) := by
  have := normGo_append_plain acc p [] hp
  simpa [normGo] using this

/-- **Idempotence**: resolving an already resolved path again changes nothing. -/
theorem toAbsolute_idem (dir p r : List Str) (hd : plainPath dir = true) (h : toAbs dir p = some r) :
    toAbs dir r = some r := by
  have hr : plainPath r = true := by
    rw [toAbsolute_eq_posix dir p hd] at h
    split at h
    · unfold posixNorm at h
      exact normGo_plain [] _ r (by simp [plainPath]) h
    · exact normGo_plain [] _ r (by simp [plainPath]) h
  rw [toAbsolute_eq_posix dir r hd]
  have hns : startsRelative r = false := by
    cases r with
    | nil => rfl
    | cons x xs =>
      simp [plainPath] at hr
      simp [startsRelative, hr.1.1, hr.1.2]
  simp [hns, posixNorm, normGo_of_plain [] r hr]

/-- a rejected path is exactly one whose normalisation climbs above the root (never re-anchored) -/
theorem toAbsolute_rejects_iff (dir p : List Str) (hd : plainPath dir = true) :
    toAbs dir p = none ↔ (if startsRelative p then posixNorm (dir ++ p) else posixNorm p) = none := by
  rw [toAbsolute_eq_posix dir p hd]

/-! ### query level: everything except the selected resource segments is untouched -/

theorem seg_frame_transform (dir : List Str) (sel : Option Str) (h : Option Header) (a : List Action) (f : Option Str) :
    (Seg.transform h a f).toAbsolute dir sel = some (.transform h a f) := rfl

theorem seg_frame_other_name (dir : List Str) (n : Str) (h : Option Header) (names : List Str)
    (hne : (n == (Seg.resource h names).segmentName) = false) :
    (Seg.resource h names).toAbsolute dir (some n) = some (.resource h names) := by
  simp [Seg.toAbsolute, segSelected, hne]

/-- a selected resource segment keeps its header; only its path is normalised -/
theorem seg_selected (dir : List Str) (sel : Option Str) (h : Option Header) (names : List Str) (s' : Seg)
    (hs : (Seg.resource h names).toAbsolute dir sel = some s') :
    ∃ r, s' = .resource h r ∧ (r = names ∨ toAbs dir names = some r) := by
  simp only [Seg.toAbsolute] at hs
  by_cases hc : (segSelected sel (Seg.resource h names).segmentName && !names.isEmpty) = true
  · rw [if_pos hc] at hs
    cases hn : toAbs dir names with
    | none => simp [hn] at hs
    | some r =>
      simp only [hn, Option.map_some, Option.some.injEq] at hs
      exact ⟨r, hs.symm, Or.inr rfl⟩
  · rw [if_neg hc] at hs
    simp only [Option.some.injEq] at hs
    exact ⟨names, hs.symm, Or.inl rfl⟩

theorem mapOpt_length {α β} (f : α → Option β) (l : List α) (r : List β) (h : mapOpt f l = some r) :
    r.length = l.length := by
  induction l generalizing r with
  | nil => simp [mapOpt] at h; subst h; rfl
  | cons a as ih =>
    simp only [mapOpt] at h
    split at h
    · cases h; simp [ih _ ‹_›]
    · cases h

/-- `Query.to_absolute` preserves absoluteness and the number of segments -/
theorem query_frame (dir : List Str) (sel : Option Str) (segs : List Seg) (abs : Bool) (q' : Query)
    (h : (Query.mk segs abs).toAbsolute dir sel = some q') :
    q'.absolute = abs ∧ q'.segments.length = segs.length := by
  simp only [Query.toAbsolute] at h
  cases hm : mapOpt (Seg.toAbsolute dir sel) segs with
  | none => simp [hm] at h
  | some s =>
    simp [hm] at h; subst h
    exact ⟨rfl, mapOpt_length _ _ _ hm⟩

/-! ### composition, independence, shape of the result (added later) -/

/-- normalisation is compositional: normalising `a ++ b` is normalising `a`, then continuing with `b` -/
theorem normGo_append (acc a b : List Str) :
    normGo acc (a ++ b) = (normGo acc a).bind (fun r => normGo r b) := by
  induction a generalizing acc with
  | nil => simp [normGo]
  | cons x a ih =>
    simp only [List.cons_append, normGo]
    split
    · exact ih _
    · split
      · split
        · rfl
        · exact ih _
      · exact ih _

/-- the resolved path never contains `.` or `..` (so it can be used as a store key as it is) -/
theorem toAbsolute_result_plain (dir p r : List Str) (hd : plainPath dir = true) (h : toAbs dir p = some r) :
    plainPath r = true := by
  rw [toAbsolute_eq_posix dir p hd] at h
  split at h
  · exact normGo_plain [] _ r (by simp [plainPath]) h
  · exact normGo_plain [] _ r (by simp [plainPath]) h

/-- a path that does not start with `.` / `..` resolves the same from every directory -/
theorem toAbsolute_ignores_dir (dir dir' p : List Str) (hd : plainPath dir = true) (hd' : plainPath dir' = true)
    (hp : startsRelative p = false) : toAbs dir p = toAbs dir' p := by
  rw [toAbsolute_eq_posix dir p hd, toAbsolute_eq_posix dir' p hd']
  simp [hp]

/-- **Two resolutions compose like `cd`**: resolving the relative path `q` from `dir0` and then the
relative path `p` from the result is resolving against the concatenated path `dir0 ++ q ++ p` at once;
if the first resolution is rejected, so is the combined one. -/
theorem toAbsolute_compose (dir0 q p : List Str) (hd : plainPath dir0 = true)
    (hq : startsRelative q = true) (hp : startsRelative p = true) :
    posixNorm (dir0 ++ (q ++ p)) = (toAbs dir0 q).bind (fun d => toAbs d p) := by
  rw [toAbsolute_eq_posix dir0 q hd]
  simp only [hq, if_true]
  unfold posixNorm
  rw [← List.append_assoc, normGo_append [] (dir0 ++ q) p]
  cases hn : normGo [] (dir0 ++ q) with
  | none => rfl
  | some d =>
    have hpl : plainPath d = true := normGo_plain [] _ d (by simp [plainPath]) hn
    simp only [Option.bind_some]
    rw [toAbsolute_eq_posix d p hpl]
    simp only [hp, if_true]
    unfold posixNorm
    rw [normGo_append_plain [] d p hpl]
    simp

/-- the result is never longer than directory plus path -/
theorem normGo_length (acc p r : List Str) (h : normGo acc p = some r) : r.length ≤ acc.length + p.length := by
  induction p generalizing acc with
  | nil => simp [normGo] at h; subst h; simp
  | cons x p ih =>
    simp only [normGo] at h
    split at h
    · have := ih _ h; simp; omega
    · split at h
      · split at h
        · cases h
        · have := ih _ h; simp at this ⊢; omega
      · have := ih _ h; simp at this ⊢; omega

theorem toAbsolute_length (dir p r : List Str) (hd : plainPath dir = true) (h : toAbs dir p = some r) :
    r.length ≤ dir.length + p.length := by
  rw [toAbsolute_eq_posix dir p hd] at h
  split at h
  · have := normGo_length [] _ r h; simp at this; omega
  · have := normGo_length [] _ r h; simp at this; omega

/-! ### idempotence at segment and query level -/

theorem seg_idem (dir : List Str) (sel : Option Str) (hd : plainPath dir = true) (s s' : Seg)
    (h : s.toAbsolute dir sel = some s') : s'.toAbsolute dir sel = some s' := by
  cases s with
  | transform hh a f =>
    simp only [Seg.toAbsolute, Option.some.injEq] at h; subst h; rfl
  | resource hh names =>
    obtain ⟨r, rfl, hr⟩ := seg_selected dir sel hh names s' h
    rcases hr with rfl | hr
    · exact h
    · simp only [Seg.toAbsolute]
      split
      · rw [toAbsolute_idem dir names r hd hr]; rfl
      · rfl

theorem mapOpt_idem {α} (f : α → Option α) (hf : ∀ a b, f a = some b → f b = some b) (l r : List α)
    (h : mapOpt f l = some r) : mapOpt f r = some r := by
  induction l generalizing r with
  | nil => simp [mapOpt] at h; subst h; rfl
  | cons a as ih =>
    simp only [mapOpt] at h
    split at h
    · rename_i b bs hb hbs
      cases h
      simp [mapOpt, hf a b hb, ih bs hbs]
    · cases h

/-- **`Query.to_absolute` is idempotent**: resolving a resolved query again (same directory, same
segment selection) returns it unchanged -/
theorem query_idem (dir : List Str) (sel : Option Str) (hd : plainPath dir = true) (q q' : Query)
    (h : q.toAbsolute dir sel = some q') : q'.toAbsolute dir sel = some q' := by
  cases q with
  | mk segs abs =>
    simp only [Query.toAbsolute] at h
    cases hm : mapOpt (Seg.toAbsolute dir sel) segs with
    | none => simp [hm] at h
    | some r =>
      simp [hm] at h; subst h
      simp [Query.toAbsolute, mapOpt_idem _ (fun a b => seg_idem dir sel hd a b) segs r hm]

/-! non-vacuity / concrete behaviour -/
example : toAbs [['d']] [['a'], dotdot, dot, ['b']] = some [['b']] := by decide
example : toAbs [['d']] [dot, dotdot, dotdot] = none := by decide
example : toAbs [['x'], ['y']] [dot, dotdot, ['c']] = some [['x'], ['c']] := by decide
example : plainPath [['x'], ['y']] = true := by decide
-- a query the idempotence theorem applies to (one selected resource segment, one transform segment)
example : (Query.mk [.resource none [dot, dotdot, ['c']], .transform none [] none] false).toAbsolute [['x'], ['y']] none
    = some (Query.mk [.resource none [['x'], ['c']], .transform none [] none] false) := by
  simp [Query.toAbsolute, mapOpt, Seg.toAbsolute, segSelected, toAbs, toAbsGo, dot, dotdot]
-- the hypotheses of `toAbsolute_compose` are satisfiable, and both sides are a non-trivial path
example : startsRelative [dotdot, ['c']] = true ∧ startsRelative [dot, ['e'], dotdot, ['f']] = true := by decide
example : (toAbs [['x'], ['y']] [dotdot, ['c']]).bind (fun d => toAbs d [dot, ['e'], dotdot, ['f']])
    = some [['x'], ['c'], ['f']] := by decide
example : (toAbs [['x']] [dotdot, dotdot]).bind (fun d => toAbs d [dot, ['e']]) = none := by decide
example : startsRelative [['a'], dotdot, ['b']] = false := by decide

end Liquer.C19

-- OBLIGATIONS: Liquer.C19.toAbsolute_eq_posix Liquer.C19.toAbsolute_idem Liquer.C19.toAbsolute_rejects_iff Liquer.C19.seg_frame_transform Liquer.C19.seg_frame_other_name Liquer.C19.seg_selected Liquer.C19.query_frame Liquer.C19.toAbsolute_result_plain Liquer.C19.toAbsolute_ignores_dir Liquer.C19.toAbsolute_compose Liquer.C19.toAbsolute_length Liquer.C19.seg_idem Liquer.C19.query_idem
