/-
C17 — Access boundaries.

(a) `readOnlyOps S` (the model of `ReadOnlyStore`) refuses every operation of a history with the
    read-only error, for *any* underlying store model `S`, so the underlying state never changes, and
    every read is the read of the underlying store.  The generated obligations of
    `LiquerProofs/Inst/ReadOnly.lean` tie the set of refused methods to the classes of the current tree.
(b) `FileStore` (with the D4 fix): for every root and every key string, an accepted key denotes a path
    inside the root, an accepted metadata key a metadata path inside the root, and a key that is not
    accepted makes every operation fail with `KeyNotSupported` before anything is touched.
-/
import LiquerModel.StoreProxy
import LiquerProofs.Lemmas.StoreFile
import LiquerProofs.Lemmas.StoreSpec
import LiquerProofs.Lemmas.StoreFileFrame
import LiquerProofs.Inst.ReadOnly

namespace Liquer.C17
open Liquer

/-! ### (a) the read-only view -/

/-- every mutating operation through the view is refused with the read-only error -/
theorem ro_refuses {σ : Type} (S : StoreOps σ) (s : σ) (op : StoreOp) :
    (readOnlyOps S).apply s op = .error .readOnly := by
  cases op <;> rfl

/-- … and leaves the (shared) state of the underlying store as it was -/
theorem ro_step_unchanged {σ : Type} (S : StoreOps σ) (s : σ) (op : StoreOp) : (readOnlyOps S).step s op = s := by
  simp [StoreOps.step, ro_refuses]

/-- lifted to histories of any length -/
theorem ro_run_unchanged {σ : Type} (S : StoreOps σ) (s : σ) (h : List StoreOp) : (readOnlyOps S).run s h = s := by
  induction h with
  | nil => rfl
  | cons op rest ih =>
    simp only [StoreOps.run, List.foldl_cons, ro_step_unchanged] at ih ⊢
    exact ih

/-- every read through the view returns exactly what the underlying store returns -/
theorem ro_reads {σ : Type} (S : StoreOps σ) (s : σ) (k : Key) :
    (readOnlyOps S).obs s k = S.obs s k ∧ (readOnlyOps S).keys s = S.keys s := ⟨rfl, rfl⟩

/-- after any history through the view, the view and the underlying store still show what the underlying store
showed before -/
theorem ro_hist_reads {σ : Type} (S : StoreOps σ) (s : σ) (h : List StoreOp) (k : Key) :
    (readOnlyOps S).obs ((readOnlyOps S).run s h) k = S.obs s k ∧
    S.obs ((readOnlyOps S).run s h) k = S.obs s k ∧
    S.keys ((readOnlyOps S).run s h) = S.keys s := by
  rw [ro_run_unchanged]
  exact ⟨rfl, rfl, rfl⟩

/-- a read-only view of a read-only view behaves like the view -/
theorem ro_idem {σ : Type} (S : StoreOps σ) (s : σ) (op : StoreOp) (k : Key) :
    (readOnlyOps (readOnlyOps S)).apply s op = (readOnlyOps S).apply s op ∧
    (readOnlyOps (readOnlyOps S)).obs s k = (readOnlyOps S).obs s k := by
  refine ⟨?_, rfl⟩
  rw [ro_refuses, ro_refuses]

-- non-vacuity: a store that does accept the operation, refused through the view
example : (readOnlyOps specOps).apply [] (.makedir [['a']]) = .error .readOnly ∧
          specOps.apply [] (.makedir [['a']]) = .ok [([['a']], .dir)] := ⟨rfl, rfl⟩

/-! ### (b) containment -/

/-- an accepted key (component form) denotes a path at or below the root -/
theorem contained_comps (root : Path) (cs : List Str) (h : compsOK cs = true) : within root (pathOfC root cs) = true := by
  obtain ⟨ha, hd⟩ := (compsOK_iff cs).mp h
  unfold pathOfC lexBase
  simp only [ha, Bool.false_eq_true, ↓reduceIte]
  rw [osResolve_plain _ _ hd]
  exact within_append root _

/-- an accepted metadata key (component form) denotes a metadata path below the root -/
theorem meta_contained_comps (root : Path) (cs : List Str) (h : compsMetaOK cs = true) :
    within root (metaPathOfC root cs) = true := by
  unfold compsMetaOK at h
  rw [Bool.and_eq_true] at h
  obtain ⟨ha, hd⟩ := (compsOK_iff cs).mp h.1
  have hne : compsParts cs ≠ [] := by
    intro e; rw [e] at h; simp at h
  unfold metaPathOfC lexBase
  simp only [ha, Bool.false_eq_true, ↓reduceIte]
  rw [List.getLast?_eq_some_getLast hne]
  simp only
  rw [osResolve_plain]
  · exact within_append root _
  · intro hm
    rcases List.mem_append.mp hm with h1 | h1
    · exact hd (List.dropLast_subset _ h1)
    · simp only [List.mem_cons, List.not_mem_nil, or_false] at h1
      rcases h1 with h1 | h1
      · exact absurd h1 (by decide)
      · exact jsonExt_ne_dotdot _ h1.symm

/-- **containment**, for every root directory and every key string (any length, any characters):
a key `check_key` accepts stays inside the root … -/
theorem contained (root : Path) (key : List Char) (h : keyOK key = true) : within root (pathOf root key) = true :=
  contained_comps root _ h

/-- … and so does its metadata file (for which the key must also not denote the root itself) -/
theorem meta_contained (root : Path) (key : List Char) (h : metaKeyOK key = true) :
    within root (metaPathOf root key) = true :=
  meta_contained_comps root _ h

-- non-vacuity
example : keyOK "a/./b//c.txt".toList = true ∧ metaKeyOK "a/./b//c.txt".toList = true := by decide
example : pathOf [['r']] "a/./b//c.txt".toList = [['r'], ['a'], ['b'], "c.txt".toList] := by decide
example : metaPathOf [['r']] "a/b.txt".toList = [['r'], ['a'], "__metadata__".toList, "b.txt.json".toList] := by decide
-- the guards are not redundant: what they exclude does leave the root
example : within [['r']] (pathOf [['r']] "../x".toList) = false ∧ keyOK "../x".toList = false := by decide
example : within [['r']] (pathOf [['r']] "/x".toList) = false ∧ keyOK "/x".toList = false := by decide
example : within [['s'], ['r']] (metaPathOf [['s'], ['r']] []) = false ∧ keyOK [] = true ∧ metaKeyOK [] = false := by decide
example : within [['s'], ['r']] (metaPathOf [['s'], ['r']] ['.']) = false ∧ metaKeyOK ['.'] = false := by decide

/-- a key that is not accepted: every operation of the `FileStore` model fails with `KeyNotSupported`
(and, failing, changes nothing: `StoreOps.step` keeps the state) -/
theorem rejects (root : Path) (fs : PFS) (k : Key) (h : compsOK k = false) :
    (fileOps root).getBytes fs k = .error .keyNotSupported ∧
    (fileOps root).getMeta fs k = .error .keyNotSupported ∧
    (fileOps root).contains fs k = .error .keyNotSupported ∧
    (fileOps root).isDir fs k = .error .keyNotSupported ∧
    (fileOps root).listdir fs k = .error .keyNotSupported ∧
    (∀ op : StoreOp, op.key = k → (fileOps root).apply fs op = .error .keyNotSupported) := by
  have hke := compsOK_false_ne_nil h
  have hp : File.path root k = .error .keyNotSupported := by simp [File.path, h]
  have hm : File.metaPath root k = .error .keyNotSupported := by simp [File.metaPath, compsMetaOK, h]
  have hd : File.isDir root fs k = .error .keyNotSupported := by
    simp [File.isDir, hke, hp, bind, Except.bind]
  have hl : File.listdir root fs k = .error .keyNotSupported := by
    simp [File.listdir, hd, bind, Except.bind]
  refine ⟨?_, ?_, ?_, hd, hl, ?_⟩
  · simp [fileOps, File.getBytes, hp, bind, Except.bind]
  · simp [fileOps, File.getMeta, hp, bind, Except.bind]
  · simp [fileOps, File.contains, hke, hp, bind, Except.bind]
  · intro op hop
    cases op with
    | store k' d m =>
      simp only [StoreOp.key] at hop; subst hop
      simp [StoreOps.apply, fileOps, File.store, hp, bind, Except.bind]
    | storeMeta k' m =>
      simp only [StoreOp.key] at hop; subst hop
      simp [StoreOps.apply, fileOps, File.storeMeta, hm, bind, Except.bind]
    | remove k' =>
      simp only [StoreOp.key] at hop; subst hop
      simp [StoreOps.apply, fileOps, File.remove, hp, bind, Except.bind]
    | removedir k' r =>
      simp only [StoreOp.key] at hop; subst hop
      cases r <;>
        simp [StoreOps.apply, fileOps, File.removedir, File.removedirFuel, hke, hl, hm, bind, Except.bind, pure, Except.pure]
    | makedir k' =>
      simp only [StoreOp.key] at hop; subst hop
      simp [StoreOps.apply, fileOps, File.makedir, hp, bind, Except.bind]

/-- the same at the level of key strings -/
theorem rejects_string (root : Path) (fs : PFS) (key : List Char) (h : keyOK key = false) :
    (fileOps root).getBytes fs (keyOfString key) = .error .keyNotSupported ∧
    (fileOps root).getMeta fs (keyOfString key) = .error .keyNotSupported ∧
    (fileOps root).contains fs (keyOfString key) = .error .keyNotSupported ∧
    (fileOps root).isDir fs (keyOfString key) = .error .keyNotSupported ∧
    (fileOps root).listdir fs (keyOfString key) = .error .keyNotSupported ∧
    (∀ op : StoreOp, op.key = keyOfString key → (fileOps root).apply fs op = .error .keyNotSupported) :=
  rejects root fs _ (by rw [keyOK_keyOfString]; exact h)

/-- a key that denotes the root itself has no metadata file: writing its metadata is refused -/
theorem meta_rejects (root : Path) (fs : PFS) (k : Key) (m : UMeta) (h : compsMetaOK k = false) :
    (fileOps root).storeMeta fs k m = .error .keyNotSupported := by
  simp [fileOps, File.storeMeta, File.metaPath, h, bind, Except.bind]

-- non-vacuity: rejected keys exist, and accepted keys are served
example : compsOK (keyOfString "a/../../x".toList) = false := by decide
example : compsMetaOK (keyOfString ".".toList) = false ∧ compsOK (keyOfString ".".toList) = true := by decide
example : (fileOps [['r']]).contains (fileInit [['r']]) (keyOfString "a".toList) = .ok false := by rfl

/-- an accepted key: the path the model's operations use is the contained one -/
theorem path_contained (root : Path) (k : Key) (p : Path) (h : File.path root k = .ok p) : within root p = true := by
  unfold File.path at h
  by_cases hok : compsOK k = true
  · simp only [hok, Bool.not_true, Bool.false_eq_true, ↓reduceIte] at h
    split at h
    · cases h; exact within_append root []  |> (by simpa using ·)
    · split at h
      · cases h
      · cases h; exact contained_comps root k hok
  · simp [hok] at h

theorem metaPath_contained (root : Path) (k : Key) (p : Path) (h : File.metaPath root k = .ok p) : within root p = true := by
  unfold File.metaPath at h
  by_cases hok : compsMetaOK k = true
  · simp only [hok, Bool.not_true, Bool.false_eq_true, ↓reduceIte] at h
    split at h
    · cases h
    · cases h; exact meta_contained_comps root k hok
  · simp [hok] at h

/-! ### (b') containment at the level of the file system state -/

/-- **nothing outside the root is written or deleted**: after any history of operations (well-formed or not, any
keys) on a `FileStore` whose root directory exists, every path that is not at or below the root holds what it held -/
theorem contained_state (root : Path) (fs : PFS) (h : List StoreOp) (hr : rootReady root fs) (p : Path)
    (hp : within root p = false) : ((fileOps root).run fs h).get p = fs.get p :=
  (frame_run fs h hr).outside p hp

/-- … and the root directory (with its ancestors) is still there -/
theorem root_kept (root : Path) (fs : PFS) (h : List StoreOp) (hr : rootReady root fs) :
    rootReady root ((fileOps root).run fs h) :=
  (frame_run fs h hr).ready hr

-- non-vacuity: the initial state of a store at `/s/r` is ready, and a sentinel beside the root survives a history
example : rootReady [['s'], ['r']] (fileInit [['s'], ['r']]) := by
  intro a ha
  have hl := ha.length_le
  obtain ⟨t, ht⟩ := ha
  match a, t, ht, hl with
  | [], _, _, _ => rfl
  | [x], _, ht, _ => simp at ht; rw [ht.1]; rfl
  | [x, y], _, ht, _ => simp at ht; rw [ht.1, ht.2.1]; rfl
  | _ :: _ :: _ :: _, _, _, hl => simp at hl
example : ((fileOps [['s'], ['r']]).run ((fileInit [['s'], ['r']]).set [['s'], ['x']] (.dfile [9]))
    [.store [dotdot, ['x']] [1] { user := [] }, .store [['a']] [1] { user := [] }, .removedir [dot] true]).get [['s'], ['x']]
    = some (.dfile [9]) := by rfl

end Liquer.C17

-- OBLIGATIONS: Liquer.C17.ro_refuses Liquer.C17.ro_step_unchanged Liquer.C17.ro_run_unchanged Liquer.C17.ro_reads Liquer.C17.ro_hist_reads Liquer.C17.ro_idem
-- OBLIGATIONS: Liquer.C17.contained Liquer.C17.meta_contained Liquer.C17.contained_comps Liquer.C17.meta_contained_comps Liquer.C17.rejects Liquer.C17.rejects_string Liquer.C17.meta_rejects Liquer.C17.path_contained Liquer.C17.metaPath_contained
-- OBLIGATIONS: Liquer.C17.contained_state Liquer.C17.root_kept
-- OBLIGATIONS: Liquer.Inst.memory_mutators_refused Liquer.Inst.file_mutators_refused Liquer.Inst.mutators_modelled Liquer.Inst.modelled_refused Liquer.Inst.method_modelled
