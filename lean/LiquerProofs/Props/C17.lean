/-
C17 — Access boundaries.

(a) `readOnlyOps S` (the model of `ReadOnlyStore`) refuses every operation of a history with the
    read-only error, for *any* underlying store model `S`, so the underlying state never changes, and
    every read is the read of the underlying store.  The generated obligations of
    `LiquerProofs/Inst/ReadOnly.lean` tie the set of refused methods to the classes of the current tree.
(a') `store.read_only().mount(key, other)` (C14's mount model over tagged parts, `LiquerModel/StoreMountRO.lean`): the
    default store of the composite is the VIEW, so after any history the store under the view is unchanged, writes
    outside the mounts are refused and touch nothing, reads outside are the underlying reads, writes below a mount
    change the mounted store only; `bypass_mount_writes_through` = the composite over the underlying store itself.
(b) `FileStore` (with the D4 fix): for every root and every key string, an accepted key denotes a path
    inside the root, an accepted metadata key a metadata path inside the root, and a key that is not
    accepted makes every operation fail with `KeyNotSupported` before anything is touched.
-/
import LiquerModel.StoreProxy
import LiquerProofs.Lemmas.StoreFile
import LiquerProofs.Lemmas.StoreSpec
import LiquerProofs.Lemmas.StoreFileFrame
import LiquerProofs.Inst.ReadOnly
import LiquerProofs.Lemmas.StoreMountRO

namespace Liquer.C17
open Liquer

/-! ### (a) the read-only view -/

/-- every mutating operation through the view is refused with the read-only error -/
theorem ro_refuses {σ : Type} (S : StoreOps σ) (s : σ) (op : StoreOp) :
    (readOnlyOps S).apply s op = .error .readOnly := by
  cases op <;> rfl

/-- … and leaves the (shared) state of the underlying store as it was -/
theorem ro_step_unchanged {σ : Type} (S : StoreOps σ) (s : σ) (op : StoreOp) : (readOnlyOps S).step s op = s := by
  simp [StoreOps.step, ro_refuses]

/-- lifted to histories of any length -/
theorem ro_run_unchanged {σ : Type} (S : StoreOps σ) (s : σ) (h : List StoreOp) : (readOnlyOps S).run s h = s := by
  induction h with
  | nil => rfl
  | cons op rest ih =>
    simp only [StoreOps.run, List.foldl_cons, ro_step_unchanged] at ih ⊢
    exact ih

/-- every read through the view returns exactly what the underlying store returns -/
theorem ro_reads {σ : Type} (S : StoreOps σ) (s : σ) (k : Key) :
    (readOnlyOps S).obs s k = S.obs s k ∧ (readOnlyOps S).keys s = S.keys s := ⟨rfl, rfl⟩

/-- after any history through the view, the view and the underlying store still show what the underlying store
showed before -/
theorem ro_hist_reads {σ : Type} (S : StoreOps σ) (s : σ) (h : List StoreOp) (k : Key) :
    (readOnlyOps S).obs ((readOnlyOps S).run s h) k = S.obs s k ∧
    S.obs ((readOnlyOps S).run s h) k = S.obs s k ∧
    S.keys ((readOnlyOps S).run s h) = S.keys s := by
  rw [ro_run_unchanged]
  exact ⟨rfl, rfl, rfl⟩

/-- a read-only view of a read-only view behaves like the view -/
theorem ro_idem {σ : Type} (S : StoreOps σ) (s : σ) (op : StoreOp) (k : Key) :
    (readOnlyOps (readOnlyOps S)).apply s op = (readOnlyOps S).apply s op ∧
    (readOnlyOps (readOnlyOps S)).obs s k = (readOnlyOps S).obs s k := by
  refine ⟨?_, rfl⟩
  rw [ro_refuses, ro_refuses]

-- non-vacuity: a store that does accept the operation, refused through the view
example : (readOnlyOps specOps).apply [] (.makedir [['a']]) = .error .readOnly ∧
          specOps.apply [] (.makedir [['a']]) = .ok [([['a']], .dir)] := ⟨rfl, rfl⟩

/-! ### (b) containment -/

/-- an accepted key (component form) denotes a path at or below the root -/
theorem contained_comps (root : Path) (cs : List Str) (h : compsOK cs = true) : within root (pathOfC root cs) = true := by
  obtain ⟨ha, hd⟩ := (compsOK_iff cs).mp h
  unfold pathOfC lexBase
  simp only [ha, Bool.false_eq_true, ↓reduceIte]
  rw [osResolve_plain _ _ hd]
  exact within_append root _

/-- an accepted metadata key (component form) denotes a metadata path below the root -/
theorem meta_contained_comps (root : Path) (cs : List Str) (h : compsMetaOK cs = true) :
    within root (metaPathOfC root cs) = true := by
  unfold compsMetaOK at h
  rw [Bool.and_eq_true] at h
  obtain ⟨ha, hd⟩ := (compsOK_iff cs).mp h.1
  have hne : compsParts cs ≠ [] := by
    intro e; rw [e] at h; simp at h
  unfold metaPathOfC lexBase
  simp only [ha, Bool.false_eq_true, ↓reduceIte]
  rw [List.getLast?_eq_some_getLast hne]
  simp only
  rw [osResolve_plain]
  · exact within_append root _
  · intro hm
    rcases List.mem_append.mp hm with h1 | h1
    · exact hd (List.dropLast_subset _ h1)
    · simp only [List.mem_cons, List.not_mem_nil, or_false] at h1
      rcases h1 with h1 | h1
      · exact absurd h1 (by decide)
      · exact jsonExt_ne_dotdot _ h1.symm

/-- **containment**, for every root directory and every key string (any length, any characters):
a key `check_key` accepts stays inside the root … -/
theorem contained (root : Path) (key : List Char) (h : keyOK key = true) : within root (pathOf root key) = true :=
  contained_comps root _ h

/-- … and so does its metadata file (for which the key must also not denote the root itself) -/
theorem meta_contained (root : Path) (key : List Char) (h : metaKeyOK key = true) :
    within root (metaPathOf root key) = true :=
  meta_contained_comps root _ h

-- non-vacuity
example : keyOK "a/./b//c.txt".toList = true ∧ metaKeyOK "a/./b//c.txt".toList = true := by decide
example : pathOf [['r']] "a/./b//c.txt".toList = [['r'], ['a'], ['b'], "c.txt".toList] := by decide
example : metaPathOf [['r']] "a/b.txt".toList = [['r'], ['a'], "__metadata__".toList, "b.txt.json".toList] := by decide
-- the guards are not redundant: what they exclude does leave the root
example : within [['r']] (pathOf [['r']] "../x".toList) = false ∧ keyOK "../x".toList = false := by decide
example : within [['r']] (pathOf [['r']] "/x".toList) = false ∧ keyOK "/x".toList = false := by decide
example : within [['s'], ['r']] (metaPathOf [['s'], ['r']] []) = false ∧ keyOK [] = true ∧ metaKeyOK [] = false := by decide
example : within [['s'], ['r']] (metaPathOf [['s'], ['r']] ['.']) = false ∧ metaKeyOK ['.'] = false := by decide

/-- a key that is not accepted: every operation of the `FileStore` model fails with `KeyNotSupported`
(and, failing, changes nothing: `StoreOps.step` keeps the state) -/
theorem rejects (root : Path) (fs : PFS) (k : Key) (h : compsOK k = false) :
    (fileOps root).getBytes fs k = .error .keyNotSupported ∧
    (fileOps root).getMeta fs k = .error .keyNotSupported ∧
    (fileOps root).contains fs k = .error .keyNotSupported ∧
    (fileOps root).isDir fs k = .error .keyNotSupported ∧
    (fileOps root).listdir fs k = .error .keyNotSupported ∧
    (∀ op : StoreOp, op.key = k → (fileOps root).apply fs op = .error .keyNotSupported) := by
  have hke := compsOK_false_ne_nil h
  have hp : File.path root k = .error .keyNotSupported := by simp [File.path, h]
  have hm : File.metaPath root k = .error .keyNotSupported := by simp [File.metaPath, compsMetaOK, h]
  have hd : File.isDir root fs k = .error .keyNotSupported := by
    simp [File.isDir, hke, hp, bind, Except.bind]
  have hl : File.listdir root fs k = .error .keyNotSupported := by
    simp [File.listdir, hd, bind, Except.bind]
  refine ⟨?_, ?_, ?_, hd, hl, ?_⟩
  · simp [fileOps, File.getBytes, hp, bind, Except.bind]
  · simp [fileOps, File.getMeta, hp, bind, Except.bind]
  · simp [fileOps, File.contains, hke, hp, bind, Except.bind]
  · intro op hop
    cases op with
    | store k' d m =>
      simp only [StoreOp.key] at hop; subst hop
      simp [StoreOps.apply, fileOps, File.store, hp, bind, Except.bind]
    | storeMeta k' m =>
      simp only [StoreOp.key] at hop; subst hop
      simp [StoreOps.apply, fileOps, File.storeMeta, hm, bind, Except.bind]
    | remove k' =>
      simp only [StoreOp.key] at hop; subst hop
      simp [StoreOps.apply, fileOps, File.remove, hp, bind, Except.bind]
    | removedir k' r =>
      simp only [StoreOp.key] at hop; subst hop
      cases r <;>
        simp [StoreOps.apply, fileOps, File.removedir, File.removedirFuel, hke, hl, hm, bind, Except.bind, pure, Except.pure]
    | makedir k' =>
      simp only [StoreOp.key] at hop; subst hop
      simp [StoreOps.apply, fileOps, File.makedir, hp, bind, Except.bind]

/-- the same at the level of key strings -/
theorem rejects_string (root : Path) (fs : PFS) (key : List Char) (h : keyOK key = false) :
    (fileOps root).getBytes fs (keyOfString key) = .error .keyNotSupported ∧
    (fileOps root).getMeta fs (keyOfString key) = .error .keyNotSupported ∧
    (fileOps root).contains fs (keyOfString key) = .error .keyNotSupported ∧
    (fileOps root).isDir fs (keyOfString key) = .error .keyNotSupported ∧
    (fileOps root).listdir fs (keyOfString key) = .error .keyNotSupported ∧
    (∀ op : StoreOp, op.key = keyOfString key → (fileOps root).apply fs op = .error .keyNotSupported) :=
  rejects root fs _ (by rw [keyOK_keyOfString]; exact h)

/-- a key that denotes the root itself has no metadata file: writing its metadata is refused -/
theorem meta_rejects (root : Path) (fs : PFS) (k : Key) (m : UMeta) (h : compsMetaOK k = false) :
    (fileOps root).storeMeta fs k m = .error .keyNotSupported := by
  simp [fileOps, File.storeMeta, File.metaPath, h, bind, Except.bind]

-- non-vacuity: rejected keys exist, and accepted keys are served
example : compsOK (keyOfString "a/../../x".toList) = false := by decide
example : compsMetaOK (keyOfString ".".toList) = false ∧ compsOK (keyOfString ".".toList) = true := by decide
example : (fileOps [['r']]).contains (fileInit [['r']]) (keyOfString "a".toList) = .ok false := by rfl

/-- an accepted key: the path the model's operations use is the contained one -/
theorem path_contained (root : Path) (k : Key) (p : Path) (h : File.path root k = .ok p) : within root p = true := by
  unfold File.path at h
  by_cases hok : compsOK k = true
  · simp only [hok, Bool.not_true, Bool.false_eq_true, ↓reduceIte] at h
    split at h
    · cases h; exact within_append root []  |> (by simpa using ·)
    · split at h
      · cases h
      · cases h; exact contained_comps root k hok
  · simp [hok] at h

theorem metaPath_contained (root : Path) (k : Key) (p : Path) (h : File.metaPath root k = .ok p) : within root p = true := by
  unfold File.metaPath at h
  by_cases hok : compsMetaOK k = true
  · simp only [hok, Bool.not_true, Bool.false_eq_true, ↓reduceIte] at h
    split at h
    · cases h
    · cases h; exact meta_contained_comps root k hok
  · simp [hok] at h

/-! ### (b') containment at the level of the file system state -/

/-- **nothing outside the root is written or deleted**: after any history of operations (well-formed or not, any
keys) on a `FileStore` whose root directory exists, every path that is not at or below the root holds what it held -/
theorem contained_state (root : Path) (fs : PFS) (h : List StoreOp) (hr : rootReady root fs) (p : Path)
    (hp : within root p = false) : ((fileOps root).run fs h).get p = fs.get p :=
  (frame_run fs h hr).outside p hp

/-- … and the root directory (with its ancestors) is still there -/
theorem root_kept (root : Path) (fs : PFS) (h : List StoreOp) (hr : rootReady root fs) :
    rootReady root ((fileOps root).run fs h) :=
  (frame_run fs h hr).ready hr

-- non-vacuity: the initial state of a store at `/s/r` is ready, and a sentinel beside the root survives a history
example : rootReady [['s'], ['r']] (fileInit [['s'], ['r']]) := by
  intro a ha
  have hl := ha.length_le
  obtain ⟨t, ht⟩ := ha
  match a, t, ht, hl with
  | [], _, _, _ => rfl
  | [x], _, ht, _ => simp at ht; rw [ht.1]; rfl
  | [x, y], _, ht, _ => simp at ht; rw [ht.1, ht.2.1]; rfl
  | _ :: _ :: _ :: _, _, _, hl => simp at hl
example : ((fileOps [['s'], ['r']]).run ((fileInit [['s'], ['r']]).set [['s'], ['x']] (.dfile [9]))
    [.store [dotdot, ['x']] [1] { user := [] }, .store [['a']] [1] { user := [] }, .removedir [dot] true]).get [['s'], ['x']]
    = some (.dfile [9]) := by rfl

/-! ### (a') a mount on top of the view: `store.read_only().mount(key, other)`

`Store.mount` builds `MountPointStore(self)`: on a read-only view the DEFAULT store of the composite is the view.
Model: `mountOps (partOps S) supp` on states `(some (.ro s), tbl)` (`LiquerModel/StoreMountRO.lean`); `.ro s` = the view
of a store in state `s`, `.rw st` = a plain store.  `M P = mountOps P T` (`T` = `MemoryStore` / `FileStore` support every key). -/

section ViewMount
open Liquer.SV Liquer.MtL Liquer.MtRO

variable {σ : Type}

/-- **the store under the view never changes**: after ANY history (store, store_metadata, remove, removedir — recursive
or not —, makedir, on any keys, in or out of the mounts, succeeding or raising) on a composite whose default store is a
read-only view of a store in state `s`, the default store is still the view of `s` — for every routing table, every part
model `S` and every `is_supported`; both for the states the harness observes (`Mt.runX`: a raising recursive `removedir`
keeps what it had deleted) and for the model's own `run`. -/
theorem view_mount_default_unchanged (S : StoreOps σ) (supp : Part σ → Key → Bool) (s : σ) (tbl : List (Key × Part σ))
    (h : List StoreOp) :
    (Mt.runX (partOps S) supp (some (.ro s), tbl) h).1 = some (.ro s) ∧
    ((mountOps (partOps S) supp).run (some (.ro s), tbl) h).1 = some (.ro s) :=
  ⟨runX_inv (partOps S) supp _ (kept_fst (partOps S) supp (.ro s) (frozen_ro S s)) _ h rfl,
   run_inv (partOps S) supp _ (kept_fst (partOps S) supp (.ro s) (frozen_ro S s)) _ h rfl⟩

/-- … and the table keeps its prefixes and the kind (view / plain store) of every mounted part, so the theorems below
apply again after every operation -/
theorem view_mount_shape_kept (S : StoreOps σ) (supp : Part σ → Key → Bool) (s0 : MtState (Part σ)) (h : List StoreOp) :
    (Mt.runX (partOps S) supp s0 h).2.map (fun e => (e.1, e.2.isRO)) = s0.2.map (fun e => (e.1, e.2.isRO)) ∧
    ((mountOps (partOps S) supp).run s0 h).2.map (fun e => (e.1, e.2.isRO)) = s0.2.map (fun e => (e.1, e.2.isRO)) :=
  ⟨runX_inv (partOps S) supp _ (kept_shape S supp _) _ h rfl, run_inv (partOps S) supp _ (kept_shape S supp _) _ h rfl⟩

/-- **writes outside the mounts are refused**: a mutating operation whose key has no mount on its path (it is routed to
the default store, `route_exclusive_default`) — other than a recursive `removedir` (next theorem) and a `removedir` of the
root key (a no-op that succeeds, `view_mount_removedir_root`) — raises the read-only error and leaves the WHOLE composite
as it was. -/
theorem view_mount_refuses_outside (S : StoreOps σ) (s : σ) (tbl : List (Key × Part σ)) (op : StoreOp)
    (hrec : ∀ k, op ≠ .removedir k true) (hroot : isRemovedir op = true → opKey op ≠ [])
    (hn : NoMount tbl (opKey op)) :
    (M (partOps S)).apply (some (.ro s), tbl) op = .error .readOnly ∧
    Mt.stepX (partOps S) T (some (.ro s), tbl) op = (some (.ro s), tbl) ∧
    (M (partOps S)).step (some (.ro s), tbl) op = (some (.ro s), tbl) := by
  have hwrite : ∀ op', isRemovedir op' = false → NoMount tbl (opKey op') →
      (M (partOps S)).apply (some (.ro s), tbl) op' = .error .readOnly := by
    intro op' hop' hn'
    rw [mount_write_default (partOps S) _ op' hop' hn']
    simp [part_apply_ro, Except.map]
  have hstep : ∀ op', (M (partOps S)).apply (some (.ro s), tbl) op' = .error .readOnly →
      (M (partOps S)).step (some (.ro s), tbl) op' = (some (.ro s), tbl) := by
    intro op' h'
    simp [StoreOps.step, h']
  cases op with
  | removedir k r =>
    cases r with
    | true => exact absurd rfl (hrec k)
    | false =>
      have hk : k ≠ [] := hroot rfl
      have hx : Mt.removedirFull (partOps S) T (some (.ro s), tbl) k false = ((some (.ro s), tbl), some .readOnly) :=
        removedirX_outside_nonrec S (some (.ro s), tbl) s rfl k hk hn _
      have ha : (M (partOps S)).apply (some (.ro s), tbl) (.removedir k false) = .error .readOnly := by
        show Mt.removedir (partOps S) T _ k false = _
        unfold Mt.removedir
        rw [hx]
      exact ⟨ha, by show (Mt.removedirFull (partOps S) T _ k false).1 = _; rw [hx], hstep _ ha⟩
  | store k d m => exact ⟨hwrite _ rfl hn, hstep _ (hwrite _ rfl hn), hstep _ (hwrite _ rfl hn)⟩
  | storeMeta k m => exact ⟨hwrite _ rfl hn, hstep _ (hwrite _ rfl hn), hstep _ (hwrite _ rfl hn)⟩
  | remove k => exact ⟨hwrite _ rfl hn, hstep _ (hwrite _ rfl hn), hstep _ (hwrite _ rfl hn)⟩
  | makedir k => exact ⟨hwrite _ rfl hn, hstep _ (hwrite _ rfl hn), hstep _ (hwrite _ rfl hn)⟩

/-- a recursive `removedir` of a non-root key with no mount on, at or below its path is refused as well and touches
nothing (not even transiently: the state the harness observes is the old one).  The error is the read-only error unless
the underlying store's own `listdir` / `is_dir` raises first (or the model's fuel runs out: `other`). -/
theorem view_mount_refuses_outside_recursive (S : StoreOps σ) (s : σ) (tbl : List (Key × Part σ)) (k : Key)
    (hk : k ≠ []) (hn : NoMount tbl k) (ha : ¬ Above tbl k) :
    ∃ e, (M (partOps S)).apply (some (.ro s), tbl) (.removedir k true) = .error e ∧ RefusedWith S s e ∧
      Mt.stepX (partOps S) T (some (.ro s), tbl) (.removedir k true) = (some (.ro s), tbl) ∧
      (M (partOps S)).step (some (.ro s), tbl) (.removedir k true) = (some (.ro s), tbl) := by
  obtain ⟨e, he, hr⟩ := removedirX_outside_rec S s (Mt.depthBound (partOps S) (some (.ro s), tbl) + 2)
    (some (.ro s), tbl) k rfl hk hn ha
  have hx : Mt.removedirFull (partOps S) T (some (.ro s), tbl) k true = ((some (.ro s), tbl), some e) := he
  have hap : (M (partOps S)).apply (some (.ro s), tbl) (.removedir k true) = .error e := by
    show Mt.removedir (partOps S) T _ k true = _
    unfold Mt.removedir
    rw [hx]
  refine ⟨e, hap, hr, ?_, ?_⟩
  · show (Mt.removedirFull (partOps S) T _ k true).1 = _
    rw [hx]
  · simp [StoreOps.step, hap]

/-- `removedir` of the root key does nothing and succeeds (on every composite) — the reason for the side condition above -/
theorem view_mount_removedir_root (S : StoreOps σ) (supp : Part σ → Key → Bool) (s0 : MtState (Part σ)) (r : Bool) :
    (mountOps (partOps S) supp).apply s0 (.removedir [] r) = .ok s0 := by
  show Mt.removedir (partOps S) supp s0 [] r = _
  simp [Mt.removedir, Mt.removedirFull, Mt.removedirX]

/-- **reads outside the mounts are the reads of the store under the view**: for a key with no mount on, at or below its
path, `get_bytes` and `is_dir` return exactly what the underlying store returns; `contains` is the composite's
"directory or contained" of the underlying answers and `get_metadata` the underlying answer with the key field set to
the key asked for (not-found falling back to the directory test) — `mount_union_default` composed with `ro_reads`. -/
theorem view_mount_reads_default (S : StoreOps σ) (s : σ) (tbl : List (Key × Part σ)) (k : Key)
    (hn : NoMount tbl k) (ha : ¬ Above tbl k) :
    (M (partOps S)).getBytes (some (.ro s), tbl) k = S.getBytes s k ∧
    (M (partOps S)).isDir (some (.ro s), tbl) k = S.isDir s k ∧
    (M (partOps S)).contains (some (.ro s), tbl) k = (match S.isDir s k with
      | .error e => .error e
      | .ok true => .ok true
      | .ok false => S.contains s k) ∧
    (M (partOps S)).getMeta (some (.ro s), tbl) k = (match S.getMeta s k with
      | .ok m => .ok { m with key := k }
      | .error e =>
        if e = .keyNotFound ∨ e = .routeNotFound then
          match S.isDir s k with
          | .error e => .error e
          | .ok true => .ok (Mt.dirMeta k)
          | .ok false => .error .keyNotFound
        else .error e) := by
  refine ⟨?_, ?_, ?_, ?_⟩
  · rw [mount_getBytes_default (partOps S) _ k hn]; rfl
  · rw [mount_isDir_default (partOps S) _ k ha hn]; rfl
  · rw [mount_contains_default (partOps S) _ k ha hn]; rfl
  · rw [mount_getMeta_default (partOps S) _ k ha hn (.ro s) rfl]; rfl

/-- … hence EXACTLY the underlying answers when the underlying store is consistent on `k`: a directory is contained,
reported metadata carry the key asked for, "no metadata" implies "not a directory" -/
theorem view_mount_reads_default_exact (S : StoreOps σ) (s : σ) (tbl : List (Key × Part σ)) (k : Key)
    (hn : NoMount tbl k) (ha : ¬ Above tbl k)
    (hc : S.isDir s k = .ok false ∨ (S.isDir s k = .ok true ∧ S.contains s k = .ok true))
    (hm1 : ∀ m, S.getMeta s k = .ok m → m.key = k)
    (hm2 : S.getMeta s k = .error .keyNotFound → S.isDir s k = .ok false)
    (hm3 : S.getMeta s k ≠ .error .routeNotFound) :
    (M (partOps S)).getBytes (some (.ro s), tbl) k = S.getBytes s k ∧
    (M (partOps S)).isDir (some (.ro s), tbl) k = S.isDir s k ∧
    (M (partOps S)).contains (some (.ro s), tbl) k = S.contains s k ∧
    (M (partOps S)).getMeta (some (.ro s), tbl) k = S.getMeta s k := by
  obtain ⟨h1, h2, h3, h4⟩ := view_mount_reads_default S s tbl k hn ha
  refine ⟨h1, h2, ?_, ?_⟩
  · rw [h3]
    rcases hc with hc | ⟨hc, hc'⟩
    · rw [hc]
    · rw [hc, hc']
  · rw [h4]
    cases hm : S.getMeta s k with
    | ok m =>
      have := hm1 m hm
      cases m
      cases this
      rfl
    | error e =>
      cases e with
      | keyNotFound => simp [hm2 hm]
      | routeNotFound => exact absurd hm hm3
      | keyNotSupported => simp
      | readOnly => simp
      | other => simp

/-- `MemoryStore` is consistent on every key: through `store.read_only().mount(..)` the four point reads of a key
outside the mounts are exactly the reads of the `MemoryStore` under the view -/
theorem view_mount_reads_default_mem (s : MemState) (tbl : List (Key × Part MemState)) (k : Key)
    (hn : NoMount tbl k) (ha : ¬ Above tbl k) :
    (M (partOps memOps)).getBytes (some (.ro s), tbl) k = memOps.getBytes s k ∧
    (M (partOps memOps)).isDir (some (.ro s), tbl) k = memOps.isDir s k ∧
    (M (partOps memOps)).contains (some (.ro s), tbl) k = memOps.contains s k ∧
    (M (partOps memOps)).getMeta (some (.ro s), tbl) k = memOps.getMeta s k := by
  apply view_mount_reads_default_exact memOps s tbl k hn ha
  · show (Except.ok (Mem.isDir s k) : Except StoreErr Bool) = .ok false ∨
      ((Except.ok (Mem.isDir s k) : Except StoreErr Bool) = .ok true ∧
       (Except.ok (Mem.contains s k) : Except StoreErr Bool) = .ok true)
    cases hd : Mem.isDir s k with
    | false => exact Or.inl rfl
    | true =>
      refine Or.inr ⟨rfl, ?_⟩
      have : Mem.contains s k = true := by
        simp only [Mem.isDir, Bool.or_eq_true] at hd
        simp only [Mem.contains, Bool.or_eq_true]
        exact Or.inl (Or.inl hd)
      rw [this]
  · intro m hm
    change Mem.getMeta s k = .ok m at hm
    unfold Mem.getMeta at hm
    split at hm
    · cases hm; rfl
    · split at hm
      · cases hm; rfl
      · cases hm
  · intro hm
    change Mem.getMeta s k = _ at hm
    show (Except.ok (Mem.isDir s k) : Except StoreErr Bool) = .ok false
    unfold Mem.getMeta at hm
    split at hm
    · cases hm
    · split at hm
      · cases hm
      · rename_i hd
        simp only [Bool.not_eq_true] at hd
        rw [hd]
  · intro hm
    change Mem.getMeta s k = _ at hm
    unfold Mem.getMeta at hm
    split at hm
    · cases hm
    · split at hm <;> cases hm

/-- **writes below a mount go to the mounted store only**: a store / store_metadata / remove / makedir whose key is owned
by the plain store mounted at entry `i` (innermost mount on the path, `route_innermost`) is that store's own operation on
the key with the prefix stripped; it replaces that entry's state and nothing else — the default stays the view of `s`. -/
theorem view_mount_writes_inside (S : StoreOps σ) (s : σ) (tbl : List (Key × Part σ))
    (hwf : tableWF (tbl.map (·.1)) = true) (op : StoreOp) (hop : isRemovedir op = false)
    (i : Nat) (p : Key) (st : σ) (hi : tbl[i]? = some (p, .rw st)) (ho : Owns tbl i (opKey op)) :
    (M (partOps S)).apply (some (.ro s), tbl) op =
      (S.apply st (stripOp p op)).map (fun st' => (some (.ro s), tbl.set i (p, .rw st'))) := by
  rw [mount_write_part (partOps S) (some (.ro s), tbl) hwf op hop i p (.rw st) hi ho, part_apply_rw]
  cases S.apply st (stripOp p op) <;> rfl

/-- the composite `store.read_only().mount(key, other)` itself: an operation at or below `key` is `other`'s own -/
theorem view_mount_writes_inside_single (S : StoreOps σ) (s : σ) (key : Key) (other : σ) (hkey : key ≠ [])
    (op : StoreOp) (hop : isRemovedir op = false) (hk : key <+: opKey op) :
    (M (partOps S)).apply (viewMount s key other) op =
      (S.apply other (stripOp key op)).map (fun o' => viewMount s key o') := by
  have hwf : tableWF ((viewMount s key other).2.map (·.1)) = true := by
    simp [viewMount, tableWF, hkey]
  have ho : Owns (viewMount s key other).2 0 (opKey op) := by
    refine ⟨key, .rw other, rfl, hk, ?_⟩
    intro j q st' hj _
    cases j with
    | zero => simp [viewMount] at hj; rw [hj.1]; exact Nat.le_refl _
    | succ j => simp [viewMount] at hj
  exact view_mount_writes_inside S s _ hwf op hop 0 key other rfl ho

/-! witnesses over the `MemoryStore` model -/

def vkM : Key := [['m']]
def vkIn : Key := [['m'], ['x']]
def vkOut : Key := [['z']]
def vum (c : Char) : UMeta := { user := [c] }
/-- the store under the view holds `z` and `d/y` -/
def vUnder : MemState := memOps.run memInit [.store vkOut [7] (vum 'u'), .store [['d'], ['y']] [8] (vum 'v')]
/-- `under.read_only().mount("m", MemoryStore())` -/
def vView : MtState (Part MemState) := viewMount vUnder vkM memInit
/-- what the seeded change builds instead: the default is `under` itself -/
def vBypass : MtState (Part MemState) := bypassMount vUnder vkM memInit
/-- a history mixing writes inside and outside the mount -/
def vHist : List StoreOp :=
  [.store vkIn [1] (vum 'a'), .store vkOut [2] (vum 'b'), .remove vkOut, .makedir [['n']], .storeMeta vkOut (vum 'c'),
   .removedir [['d']] true, .removedir [['d']] false, .store [['m'], ['w']] [3] (vum 'd'), .remove [['m'], ['w']]]

/-- **the seeded mutation**: if the composite's default is the underlying store itself (`.rw`) instead of the view, a
`store` of a key outside the mount goes through and CHANGES the underlying store -/
theorem bypass_mount_writes_through :
    ((M (partOps memOps)).run vBypass [.store vkOut [2] (vum 'b')]).1 ≠ vBypass.1 ∧
    (M (partOps memOps)).getBytes vBypass vkOut = .ok [7] ∧
    (M (partOps memOps)).getBytes ((M (partOps memOps)).run vBypass [.store vkOut [2] (vum 'b')]) vkOut = .ok [2] ∧
    (M (partOps memOps)).apply vView (.store vkOut [2] (vum 'b')) = .error .readOnly := by
  decide

-- non-vacuity: the hypotheses of the theorems hold on the witnesses
example : tableWF (vView.2.map (·.1)) = true := by decide
example : NoMount vView.2 vkOut := (route_none_iff vView.2 _).mp (by decide)
example : ¬ Above vView.2 vkOut := by
  rintro (e | ⟨p, st, hm, hp⟩)
  · cases e
  · simp [vView, viewMount] at hm
    rw [hm.1] at hp
    exact absurd hp (by decide)
example : Owns vView.2 0 vkIn := (route_some_iff vView.2 (by decide) _ 0).mp (by decide)
example : (M (partOps memOps)).apply vView (.store vkIn [1] (vum 'a')) =
    (memOps.apply memInit (.store [['x']] [1] (vum 'a'))).map (fun o' => viewMount vUnder vkM o') :=
  view_mount_writes_inside_single memOps vUnder vkM memInit (by decide) (.store vkIn [1] (vum 'a')) rfl (by decide)
-- the mixed history: every write outside is refused, the store under the view is what it was …
example : (Mt.runX (partOps memOps) T vView vHist).1 = some (.ro vUnder) := by decide
example : (Mt.runX (partOps memOps) T vView vHist).1 = some (.ro vUnder) :=
  (view_mount_default_unchanged memOps T vUnder _ vHist).1
-- … the write inside is visible (and the one removed again is gone), the outside key still reads the old data
example : (M (partOps memOps)).getBytes (Mt.runX (partOps memOps) T vView vHist) vkIn = .ok [1] ∧
          (M (partOps memOps)).getBytes (Mt.runX (partOps memOps) T vView vHist) [['m'], ['w']] = .error .keyNotFound ∧
          (M (partOps memOps)).getBytes (Mt.runX (partOps memOps) T vView vHist) vkOut = .ok [7] ∧
          (M (partOps memOps)).getBytes (Mt.runX (partOps memOps) T vView vHist) [['d'], ['y']] = .ok [8] ∧
          (M (partOps memOps)).contains (Mt.runX (partOps memOps) T vView vHist) [['n']] = .ok false := by decide
-- the same history on the mutated composite destroys the underlying store's entries
example : (M (partOps memOps)).getBytes (Mt.runX (partOps memOps) T vBypass vHist) vkOut = .error .keyNotFound ∧
          (M (partOps memOps)).getBytes (Mt.runX (partOps memOps) T vBypass vHist) [['d'], ['y']] = .error .keyNotFound := by
  decide
example : (M (partOps memOps)).apply vView (.removedir [['d']] true) = .error .readOnly := by decide
example : (M (partOps memOps)).apply vView (.removedir [['d']] false) = .error .readOnly := by decide
-- why `Above` is excluded: a recursive `removedir` of the mount point (or the root's child above it) first deletes what
-- is below IN THE MOUNTED STORE and then raises at the mount point (`mount_removedir_refuses`); the view's store is untouched
example : (M (partOps memOps)).apply (Mt.runX (partOps memOps) T vView [.store vkIn [1] (vum 'a')]) (.removedir vkM true)
            = .error .other ∧
          (M (partOps memOps)).getBytes (Mt.stepX (partOps memOps) T
            (Mt.runX (partOps memOps) T vView [.store vkIn [1] (vum 'a')]) (.removedir vkM true)) vkIn = .error .keyNotFound ∧
          (Mt.stepX (partOps memOps) T
            (Mt.runX (partOps memOps) T vView [.store vkIn [1] (vum 'a')]) (.removedir vkM true)).1 = some (.ro vUnder) := by
  decide

end ViewMount

end Liquer.C17

-- OBLIGATIONS: Liquer.C17.ro_refuses Liquer.C17.ro_step_unchanged Liquer.C17.ro_run_unchanged Liquer.C17.ro_reads Liquer.C17.ro_hist_reads Liquer.C17.ro_idem
-- OBLIGATIONS: Liquer.C17.contained Liquer.C17.meta_contained Liquer.C17.contained_comps Liquer.C17.meta_contained_comps Liquer.C17.rejects Liquer.C17.rejects_string Liquer.C17.meta_rejects Liquer.C17.path_contained Liquer.C17.metaPath_contained
-- OBLIGATIONS: Liquer.C17.contained_state Liquer.C17.root_kept
-- OBLIGATIONS: Liquer.Inst.memory_mutators_refused Liquer.Inst.file_mutators_refused Liquer.Inst.mutators_modelled Liquer.Inst.modelled_refused Liquer.Inst.method_modelled
-- OBLIGATIONS: Liquer.C17.view_mount_default_unchanged Liquer.C17.view_mount_shape_kept Liquer.C17.view_mount_refuses_outside Liquer.C17.view_mount_refuses_outside_recursive Liquer.C17.view_mount_removedir_root Liquer.C17.view_mount_reads_default Liquer.C17.view_mount_reads_default_exact Liquer.C17.view_mount_reads_default_mem Liquer.C17.view_mount_writes_inside Liquer.C17.view_mount_writes_inside_single Liquer.C17.bypass_mount_writes_through
