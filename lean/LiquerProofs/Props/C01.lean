/-
C01 — evaluator property; theorems over LiquerModel/Eval.lean and LiquerModel/Ref.lean.
-/
import LiquerModel.Ref
import LiquerProofs.Inst.Vocab

namespace Liquer.C01

/-- the regenerated command signature table satisfies the side conditions the evaluator theorems assume -/
theorem inst_registry : Inst.registryOK Gen.registry = true := Inst.registry_ok

end Liquer.C01

-- OBLIGATIONS: Liquer.C01.inst_registry
