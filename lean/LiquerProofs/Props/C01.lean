/-
C01 — Pipeline semantics: evaluation = the reference interpretation.
Theorems over LiquerModel/Eval.lean (`evalQ`, `evalText`) and LiquerModel/Ref.lean (`refQ`, `refText`);
helper lemmas in LiquerProofs/Lemmas/Eval*.lean.  All statements are for every query, world, fuel.

Hypotheses that appear below:
  * `Sound env w`     — every data-bearing cache entry (visible or hidden) is, up to `status`, the successful,
                        non-volatile, caching-enabled reference value of its key text (Lemmas/EvalDefs.lean);
  * `Closed env C T`  — `C` (queries) and `T` (texts) are closed under what an evaluation descends into;
  * `CanonOK env q`   — "`q` means what its canonical text means" (C02's print-parse round trip), used only at
                        cache hits (`CanonHit`) and at `store` (`CanonStore`).
-/
import LiquerModel.Ref
import LiquerProofs.Inst.Vocab
import LiquerProofs.Lemmas.EvalExact
import LiquerProofs.Lemmas.EvalExample
import LiquerProofs.Lemmas.EvalCanon

namespace Liquer.C01

/-- the regenerated command signature table satisfies the side conditions the evaluator theorems assume -/
theorem inst_registry : Inst.registryOK Gen.registry = true := Inst.registry_ok

/-! ### no cache: evaluator = reference interpretation, exactly -/

/-- With the global cache disabled (`NoCache()`), `evaluate(query)` returns exactly the outcome of the reference
interpretation (same fuel), executes exactly its calls in its order, and the cache stays `NoCache` — with or
without an input value, extra parameters, nested links and sub-evaluations. -/
theorem eval_is_ref_nocache (env : Env) (n : Nat) (w : World) (q : Query) (raw : Str) (extra : Extra)
    (input : Option Val) (uc : Bool) (hN : w.NoCache) :
    (evalQ env n w q raw extra input uc).2 = (refQ env n q raw extra input).1 ∧
    (evalQ env n w q raw extra input uc).1.calls = w.calls ++ (refQ env n q raw extra input).2 ∧
    (evalQ env n w q raw extra input uc).1.NoCache :=
  let h := (exact env n).q w q raw extra input uc hN
  ⟨h.2.1, h.2.2, h.1⟩

theorem evalText_is_ref_nocache (env : Env) (n : Nat) (w : World) (t : Str) (ug : Bool) (hN : w.NoCache) :
    (evalText env n w t ug).2 = (refText env n t).1 ∧
    (evalText env n w t ug).1.calls = w.calls ++ (refText env n t).2 ∧
    (evalText env n w t ug).1.NoCache :=
  let h := (exact env n).text w t ug hN
  ⟨h.2.1, h.2.2, h.1⟩

/-- the world that models `set_cache(NoCache())` -/
theorem nocache_world : ({ enabled := false } : World).NoCache :=
  ⟨rfl, fun k => by simp [World.dataAt, World.entry]⟩

-- non-vacuity: `one/add-~X~/one~E` under NoCache runs `one`, `one` (the link), `add`, and returns 2
open Ex in
example : ({ enabled := false } : World).NoCache ∧
    (evalQ env0 9 { enabled := false } qLink (s "one/add-~X~/one~E") .none none true).1.calls =
      [s "root.one(N;)", s "root.one(N;)", s "root.add(I1;I1)"] ∧
    (refQ env0 9 qLink (s "one/add-~X~/one~E") .none none).2 =
      [s "root.one(N;)", s "root.one(N;)", s "root.add(I1;I1)"] ∧
    (evalQ env0 9 { enabled := false } qLink (s "one/add-~X~/one~E") .none none true).2.obs.map (·.value) =
      some (some (.int 2)) :=
  ⟨nocache_world, by decide +kernel, by decide +kernel, by decide +kernel⟩

/-! ### any sound cache (in particular the empty one): same outcome up to `status`, calls a subsequence -/

/-- R-eval for `evaluate(query)`: in a sound world the outcome is (up to `status`) the reference outcome for
some fuel, the world stays sound, and the executed calls are a subsequence of the reference calls.
(`uc = false` models the `NoCache` an injected input value / `evaluate_on` selects.) -/
theorem eval_is_ref {env : Env} {C : Query → Prop} {T : Str → Prop} (hC : Closed env C T)
    (hcanon : ∀ q, C q → CanonOK env q) (n : Nat) (w : World) (q : Query) (raw : Str) (extra : Extra)
    (input : Option Val) (uc : Bool) (hS : Sound env w) (hCq : C q) (huc : uc = true → input = none) :
    Sound env (evalQ env n w q raw extra input uc).1 ∧
    ((evalQ env n w q raw extra input uc).2 ≠ .unmodelled →
      ∃ m c', (evalQ env n w q raw extra input uc).1.calls = w.calls ++ c' ∧
        c'.Sublist (refQ env m q raw extra input).2 ∧
        Outcome.sim (evalQ env n w q raw extra input uc).2 (refQ env m q raw extra input).1) :=
  evalQ_refines hC hcanon n w q raw extra input uc hS hCq huc

theorem evalText_is_ref {env : Env} {C : Query → Prop} {T : Str → Prop} (hC : Closed env C T)
    (hcanon : ∀ q, C q → CanonOK env q) (n : Nat) (w : World) (t : Str) (ug : Bool) (hS : Sound env w) (hT : T t) :
    Sound env (evalText env n w t ug).1 ∧
    ((evalText env n w t ug).2 ≠ .unmodelled →
      ∃ m c', (evalText env n w t ug).1.calls = w.calls ++ c' ∧ c'.Sublist (refText env m t).2 ∧
        Outcome.sim (evalText env n w t ug).2 (refText env m t).1) :=
  evalText_refines hC hcanon n w t ug hS hT

/-- the empty cache is sound -/
theorem empty_sound (env : Env) : Sound env {} := Sound.empty env

/-- with an empty real cache -/
theorem eval_is_ref_empty {env : Env} {C : Query → Prop} {T : Str → Prop} (hC : Closed env C T)
    (hcanon : ∀ q, C q → CanonOK env q) (n : Nat) (q : Query) (raw : Str) (extra : Extra)
    (input : Option Val) (uc : Bool) (hCq : C q) (huc : uc = true → input = none)
    (hne : (evalQ env n {} q raw extra input uc).2 ≠ .unmodelled) :
    ∃ m c', (evalQ env n {} q raw extra input uc).1.calls = c' ∧
      c'.Sublist (refQ env m q raw extra input).2 ∧
      Outcome.sim (evalQ env n {} q raw extra input uc).2 (refQ env m q raw extra input).1 := by
  obtain ⟨m, c', h1, h2, h3⟩ := (eval_is_ref hC hcanon n {} q raw extra input uc (Sound.empty env) hCq huc).2 hne
  exact ⟨m, c', by simpa using h1, h2, h3⟩

/-- for EVERY query at once, given the canonical-text hypothesis for every query -/
theorem eval_is_ref_all {env : Env} (hcanon : ∀ q, CanonOK env q) (n : Nat) (w : World) (q : Query) (raw : Str)
    (extra : Extra) (input : Option Val) (uc : Bool) (hS : Sound env w) (huc : uc = true → input = none) :
    Sound env (evalQ env n w q raw extra input uc).1 ∧
    ((evalQ env n w q raw extra input uc).2 ≠ .unmodelled →
      ∃ m c', (evalQ env n w q raw extra input uc).1.calls = w.calls ++ c' ∧
        c'.Sublist (refQ env m q raw extra input).2 ∧
        Outcome.sim (evalQ env n w q raw extra input uc).2 (refQ env m q raw extra input).1) :=
  eval_is_ref (Closed.univ env) (fun q _ => hcanon q) n w q raw extra input uc hS trivial huc

/-- value-or-failure, final variables, last command, volatility, file name and extension of the returned
state are those of *every* modelled run of the reference interpretation -/
theorem eval_obs_is_ref {env : Env} {C : Query → Prop} {T : Str → Prop} (hC : Closed env C T)
    (hcanon : ∀ q, C q → CanonOK env q) (n m : Nat) (w : World) (q : Query) (raw : Str) (extra : Extra)
    (input : Option Val) (uc : Bool) (hS : Sound env w) (hCq : C q) (huc : uc = true → input = none)
    (he : (evalQ env n w q raw extra input uc).2 ≠ .unmodelled)
    (hr : (refQ env m q raw extra input).1 ≠ .unmodelled) :
    (evalQ env n w q raw extra input uc).2.obs = (refQ env m q raw extra input).1.obs :=
  evalQ_obs hC hcanon n m w q raw extra input uc hS hCq huc he hr

/-- the reference meaning does not depend on the fuel: two modelled runs agree (outcome and calls) -/
theorem ref_fuel_irrelevant (env : Env) {m m' : Nat} (q : Query) (raw : Str) (extra : Extra) (input : Option Val)
    (h : (refQ env m q raw extra input).1 ≠ .unmodelled) (h' : (refQ env m' q raw extra input).1 ≠ .unmodelled) :
    refQ env m q raw extra input = refQ env m' q raw extra input :=
  refQ_det env q raw extra input h h'

/-- a successful reference result does not depend on the text the query was typed as, nor on empty extra
parameters (and non-empty extra parameters make a successful result volatile) -/
theorem ref_spelling_irrelevant (env : Env) (raw' : Str) (n : Nat) (q : Query) (raw : Str) (extra : Extra)
    (input : Option Val) (st : EState) (h : (refQ env n q raw extra input).1 = .st st) (hs : st.isError = false)
    (hx : extra.isEmpty = true ∨ st.volatile = false) :
    refQ env n q raw' .none input = refQ env n q raw extra input :=
  refQ_good_indep env raw' n q raw extra input st h hs hx

-- non-vacuity of the hypotheses (the family of Lemmas/EvalExample.lean, which contains a link argument),
-- and the conclusion exercised: from the empty cache, `one/add-~X~/one~E` runs the three reference calls;
-- afterwards `one/add-2` hits the cached `one` and runs `add` only (a strict subsequence of the reference calls)
open Ex in
example : Closed env0 C0 T0 ∧ (∀ q, C0 q → CanonOK env0 q) ∧ Sound env0 {} ∧ C0 qLink ∧ C0 qOneAdd :=
  ⟨closed0, canon0, Sound.empty _, Or.inl rfl, Or.inr (Or.inl rfl)⟩
open Ex in
example :
    let w1 := (evalQ env0 9 {} qLink (s "one/add-~X~/one~E") .none none true).1
    w1.calls = [s "root.one(N;)", s "root.one(N;)", s "root.add(I1;I1)"] ∧
    (evalQ env0 9 { w1 with calls := [] } qOneAdd (s "one/add-2") .none none true).1.calls = [s "root.add(I1;I2)"] ∧
    (refQ env0 9 qOneAdd (s "one/add-2") .none none).2 = [s "root.one(N;)", s "root.add(I1;I2)"] := by
  decide +kernel

/-! ### the canonical-text hypothesis, discharged for well-formed queries (C02 + position-irrelevance) -/

/-- the hypothesis C02 is to discharge for the queries of interest: every parsed query means what its
canonical text means, fuel by fuel (`CanonOK.of_same` turns it into `CanonOK`).
STATEMENT-ONLY, and FALSE as stated: for the two known grammar findings (`C02.finding_rtq_capture`,
`C02.finding_res_header_empty_param`) the parsed AST is not `wfTop` and its canonical text parses to a different
query.  The proved part is `canon_wf` / `canon_same_wf` below: every `wfTop` AST (the image of the parser but for
those two findings), every fuel. -/
def canon_all_statement (env : Env) : Prop := ∀ t q, parse env.dec t = some q → CanonSame env q

/-- positions are irrelevant on successful runs: two queries equal up to source positions (`erase` =
`clean_position`) have the same reference result — outcome and call log — at every fuel, for every as-typed
text, extra parameters and input, as soon as one of the two results is successful -/
theorem ref_position_irrelevant (env : Env) (n : Nat) (q q' : Query) (raw : Str) (extra : Extra)
    (input : Option Val) (h : q'.erase = q.erase)
    (hg : (refQ env n q' raw extra input).1.good ∨ (refQ env n q raw extra input).1.good) :
    refQ env n q' raw extra input = refQ env n q raw extra input :=
  Canon.refQ_erase_eq env n raw extra input h hg

/-- every well-formed query means what its canonical text means, fuel by fuel: the same-fuel form … -/
theorem canon_same_wf (env : Env) (hd : DecOK env.dec) (q : Query) (hwf : wfTop Gen.escapeTable q = true) :
    CanonSame env q :=
  Canon.canonSame_of_wf env hd q hwf

/-- … and the form the evaluator theorems take as hypothesis -/
theorem canon_wf (env : Env) (hd : DecOK env.dec) (q : Query) (hwf : wfTop Gen.escapeTable q = true) :
    CanonOK env q :=
  CanonOK.of_same (Canon.canonSame_of_wf env hd q hwf)

/-- `canon_all_statement` restricted to the texts whose AST is well-formed -/
theorem canon_all_wf (env : Env) (hd : DecOK env.dec) (t : Str) (q : Query) (_ : parse env.dec t = some q)
    (hwf : wfTop Gen.escapeTable q = true) : CanonSame env q :=
  canon_same_wf env hd q hwf

/-- R-eval without the canonical-text hypothesis: for a closed class of well-formed queries, in a sound world the
outcome is (up to `status`) the reference outcome, the world stays sound, the calls are a subsequence of the
reference calls -/
theorem eval_is_ref_wf {env : Env} (hd : DecOK env.dec) {C : Query → Prop} {T : Str → Prop} (hC : Closed env C T)
    (hwf : ∀ q, C q → wfTop Gen.escapeTable q = true) (n : Nat) (w : World) (q : Query) (raw : Str) (extra : Extra)
    (input : Option Val) (uc : Bool) (hS : Sound env w) (hCq : C q) (huc : uc = true → input = none) :
    Sound env (evalQ env n w q raw extra input uc).1 ∧
    ((evalQ env n w q raw extra input uc).2 ≠ .unmodelled →
      ∃ m c', (evalQ env n w q raw extra input uc).1.calls = w.calls ++ c' ∧
        c'.Sublist (refQ env m q raw extra input).2 ∧
        Outcome.sim (evalQ env n w q raw extra input uc).2 (refQ env m q raw extra input).1) :=
  eval_is_ref hC (fun q hq => canon_wf env hd q (hwf q hq)) n w q raw extra input uc hS hCq huc

/-- … and the observables of the returned state are those of every modelled run of the reference interpretation -/
theorem eval_obs_is_ref_wf {env : Env} (hd : DecOK env.dec) {C : Query → Prop} {T : Str → Prop}
    (hC : Closed env C T) (hwf : ∀ q, C q → wfTop Gen.escapeTable q = true) (n m : Nat) (w : World) (q : Query)
    (raw : Str) (extra : Extra) (input : Option Val) (uc : Bool) (hS : Sound env w) (hCq : C q)
    (huc : uc = true → input = none) (he : (evalQ env n w q raw extra input uc).2 ≠ .unmodelled)
    (hr : (refQ env m q raw extra input).1 ≠ .unmodelled) :
    (evalQ env n w q raw extra input uc).2.obs = (refQ env m q raw extra input).1.obs :=
  eval_obs_is_ref hC (fun q hq => canon_wf env hd q (hwf q hq)) n m w q raw extra input uc hS hCq huc he hr

-- non-vacuity: the decoder of the example environment is a decoder, the family of Lemmas/EvalExample.lean
-- (closed, contains a link argument) consists of well-formed queries; a successful run to which
-- `ref_position_irrelevant` applies: `one/add-~X~/one~E` with all positions forgotten
open Ex in
example : DecOK env0.dec ∧ Closed env0 C0 T0 ∧ (∀ q, C0 q → wfTop Gen.escapeTable q = true) ∧ C0 qLink ∧
    wfTop Gen.escapeTable qLink = true :=
  ⟨decUtf8_ok, closed0, by intro q hq; rcases hq with rfl | rfl | rfl | rfl <;> decide +kernel, Or.inl rfl,
    by decide +kernel⟩
open Ex in
example : qLink.erase.erase = qLink.erase ∧ qLink.erase ≠ qLink ∧
    (refQ env0 9 qLink (s "one/add-~X~/one~E") .none none).1.good := by
  refine ⟨rfl, fun h => ?_, ?_⟩
  · have := congrArg (fun q : Query => q.segments.map (fun sg => match sg with
      | .transform _ as _ => as.map Action.pos
      | _ => [])) h
    revert this
    decide
  have h : (refQ env0 9 qLink (s "one/add-~X~/one~E") .none none).1.obs.map (·.value) = some (some (.int 2)) := by
    decide +kernel
  cases ho : (refQ env0 9 qLink (s "one/add-~X~/one~E") .none none).1 with
  | st e =>
    rw [ho] at h
    cases he : e.isError
    · exact he
    · simp [Outcome.obs, he] at h
  | _ => rw [ho] at h; simp [Outcome.obs] at h

end Liquer.C01

-- OBLIGATIONS: Liquer.C01.inst_registry Liquer.C01.eval_is_ref_nocache Liquer.C01.evalText_is_ref_nocache Liquer.C01.nocache_world Liquer.C01.eval_is_ref Liquer.C01.evalText_is_ref Liquer.C01.empty_sound Liquer.C01.eval_is_ref_empty Liquer.C01.eval_is_ref_all Liquer.C01.eval_obs_is_ref Liquer.C01.ref_fuel_irrelevant Liquer.C01.ref_spelling_irrelevant Liquer.C01.ref_position_irrelevant Liquer.C01.canon_same_wf Liquer.C01.canon_wf Liquer.C01.canon_all_wf Liquer.C01.eval_is_ref_wf Liquer.C01.eval_obs_is_ref_wf
-- STATEMENT-ONLY: Liquer.C01.canon_all_statement
