/-
C13 — Every cache back-end is a faithful key-value map of states.

(i)   spec lemmas on the key-value specification `kvOpsC cfg` (every configuration — `kvOps` of `CacheCore`
      is `kvOpsC kvCfgDrop` —, every state, every key string);
(ii)  refinement: for every history (any length) the outputs of the back-end model equal those of the
      specification, `keys` up to order (`outsEq`): memory, file (any injective digest, any codec with
      decode ∘ encode = id — XOR, Fernet), SQL (`delete_before_insert`), store-backed (`storec_refines`: all eight operations, `keys()` and
      `clean()` included, any cache path — the constructor drops leading slashes; kept as given the statement is false with a
      leading `/` — `storec_unnormalised_false`: `to_path` strips the slash, `keys()`/`clean()` do not),
      and congruence for `+`, the conditional wrappers and the proxy;
(iii) XOR: involution and byte-wise hiding.
Models: the code **as fixed by D2, D6a, D8, D9, D9b, D17, D18** and by b0a69e7 / 39a373f (cache path).
-/
import LiquerProofs.Lemmas.CacheMemRef
import LiquerProofs.Lemmas.CacheCombRef
import LiquerProofs.Lemmas.CacheFileRef
import LiquerProofs.Lemmas.CacheSqlRef
import LiquerProofs.Lemmas.CacheStoreRef
import LiquerProofs.Lemmas.CacheStoreRef2
import LiquerProofs.Lemmas.CachePaths
import LiquerProofs.Lemmas.CacheXor
import LiquerProofs.Lemmas.CacheWitness

namespace Liquer.C13
open Liquer

/-! ## (i) the specification -/

/-- after a successful store: present, listed exactly once, `get` = the value stored, status `ready`, that query -/
theorem kv_store_get (c : KVCfg) (kv : KV) (st : CState) (he : st.metadata.isError = false) (d : Str) (hd : st.data = some d) :
    ((kvOpsC c).store kv st).2 = .true ∧
    kvView c ((kvOpsC c).store kv st).1 st.metadata.query =
      { entry := some ({ st.metadata with status := ready }, some d),
        served := some { metadata := { st.metadata with status := ready }, data := some d },
        meta? := some { st.metadata with status := ready }, present := true, listed := 1 } :=
  Liquer.kv_store_get c kv st he d hd

theorem kv_remove (c : KVCfg) (kv : KV) (k : Str) :
    kvView c ((kvOpsC c).remove kv k).1 k = { entry := none, served := none, meta? := none, present := false, listed := 0 } :=
  Liquer.kv_remove c kv k

theorem kv_clean (c : KVCfg) (kv : KV) (k : Str) :
    kvView c ((kvOpsC c).clean kv) k = { entry := none, served := none, meta? := none, present := false, listed := 0 } :=
  Liquer.kv_clean c kv k

/-- metadata-only writes never make data retrievable -/
theorem kv_meta_only_no_data (c : KVCfg) (kv : KV) (m : CMeta) (h : (kv.get m.query).bind (·.2) = none) :
    ((kvOpsC c).get ((kvOpsC c).storeMeta kv m).1 m.query).2 = none :=
  Liquer.kv_meta_only_no_data c kv m h

/-- … and never change the data an entry holds, except for dropping it -/
theorem kv_meta_data (c : KVCfg) (kv : KV) (m : CMeta) :
    ((((kvOpsC c).storeMeta kv m).1.get m.query).bind (·.2)) = none ∨
    ((((kvOpsC c).storeMeta kv m).1.get m.query).bind (·.2)) = (kv.get m.query).bind (·.2) :=
  Liquer.kv_meta_data c kv m

/-- operations on one key never affect another key, whatever characters the keys contain -/
theorem kv_frame (c : KVCfg) (kv : KV) (op : CacheOp) (k k' : Str) (hk : op.key? = some k) (hne : k' ≠ k) :
    kvView c ((kvOpsC c).step kv op).1 k' = kvView c kv k' :=
  Liquer.kv_frame c kv op k k' hk hne

theorem kvOps_is_instance : kvOpsC kvCfgDrop = kvOps := kvOps_eq

example : ("a/".toList : Str) ≠ "a".toList ∧ (CacheOp.store { metadata := { query := "a".toList, status := [], typeId := [] }, data := some [] }).key? = some "a".toList := by decide
example : (KV.get ([] : KV) "a".toList).bind (·.2) = none := rfl

/-! ## (ii) refinement -/

theorem histOK_of_all {τ : Type} (S : CacheOps τ) (p : CacheOp → Prop) (h : List CacheOp) (hall : ∀ op ∈ h, p op) :
    ∀ t, HistOK S (fun _ => p) t h := by
  induction h with
  | nil => intro t; trivial
  | cons op rest ih =>
    intro t
    exact ⟨hall op (List.mem_cons_self ..), ih (fun o ho => hall o (List.mem_cons_of_mem _ ho)) _⟩

/-- the executable well-formedness check of the model file implies the one the theorems use -/
theorem histOK_bool (S : CacheOps KV) (h : List CacheOp) : ∀ kv,
    histOK (fun kv op => op.hasData && op.typeStable kv) S kv h = true → HistOK S okF kv h := by
  induction h with
  | nil => intro kv _; trivial
  | cons op rest ih =>
    intro kv hb
    simp only [histOK, Bool.and_eq_true] at hb
    exact ⟨⟨hb.1.1, hb.1.2⟩, ih _ hb.2⟩

/-- **`MemoryCache`**: every history of states that carry a value -/
theorem memc_refines (h : List CacheOp) (hall : ∀ op ∈ h, op.hasData = true) :
    outsEq (memCOps.run [] h).2 ((kvOpsC kvCfgKeep).run [] h).2 :=
  (mem_sim.run h [] [] RM_init (histOK_of_all _ _ h hall [])).2

/-- **`FileCache`, `XORFileCache`, `FernetFileCache`**: injective digest, codec with decode ∘ encode = id,
metadata-only writes on entries with data keep the type identifier -/
theorem filec_refines (c : FileCfg) (ok : Crash.CodecOK c) (hinj : ∀ a b, c.h a = c.h b → a = b) (h : List CacheOp)
    (hok : HistOK (kvOpsC kvCfgKeep) okF [] h) :
    outsEq ((fileCOps c).run [] h).2 ((kvOpsC kvCfgKeep).run [] h).2 :=
  ((file_sim c ok hinj).run h [] [] (RF_init c) hok).2

/-- **`SQLCache` / `SQLStringCache`** with `delete_before_insert`: against the given specification `kvOps` -/
theorem sqlc_refines (c : SqlCfg) (ok : SqlOK c) (h : List CacheOp) (hall : ∀ op ∈ h, op.hasData = true) :
    outsEq ((sqlCOps c).run {} h).2 (kvOps.run [] h).2 := by
  rw [← kvOps_eq]
  exact ((sql_sim c ok).run h {} [] (RS_init c) (histOK_of_all _ _ h hall [])).2

/-- **`StoreCache`** over the reference store, point operations (`get`, `get_metadata`, `store`, `store_metadata`, `remove`,
`contains`) on keys whose paths are distinct and not directories of one another -/
theorem storec_refines_partial (c : StoreCCfg) (U : Str → Prop) (ok : CodecS c) (paths : PathsOK c U) (fs : FS)
    (hinit : RSt c U fs []) (h : List CacheOp) (hok : HistOK (kvOpsC kvCfgStore) (okSt U) [] h) :
    outsEq ((storeCOps c specOps).run fs h).2 ((kvOpsC kvCfgStore).run [] h).2 :=
  ((storec_sim c U ok paths).run h fs [] hinit hok).2

/-- the statement for a `StoreCache` whose constructor kept the path as given: also `keys()` and `clean()`.  **False**
(`storec_unnormalised_false`): it allows cache paths that start with `/`; proved with that one extra hypothesis
(`storec_refines_keys_partial`).  The constructor therefore drops leading slashes (`StoreCCfg.norm`, fixes b0a69e7 and 39a373f)
and the full statement for the constructed cache is `storec_refines`. -/
def storec_unnormalised_statement : Prop :=
  ∀ (c : StoreCCfg) (U : Str → Prop), CodecS c → PathsOK c U → ∀ (h : List CacheOp),
    HistOK (kvOpsC kvCfgStore) (fun kv op => op.hasData = true ∧ op.typeStable kv = true ∧ ∀ k, op.key? = some k → U k) [] h →
    outsEq ((storeCOps c specOps).run (storeCInit c specOps []) h).2 ((kvOpsC kvCfgStore).run [] h).2

/-- **`StoreCache`** over the reference store, **all eight operations** (`keys()` and `clean()` included), every history from
the freshly constructed cache, flat and nested scheme, keys whose paths are distinct and not directories of one another —
the conclusion of `storec_unnormalised_statement` under one extra hypothesis: **the cache path does not start with `/`**
(the empty path is covered).

Excluded region: `c.path = '/' :: r`.  There the statement is false (`storec_unnormalised_false`, `storec_slash_keys`,
`storec_slash_clean`): `to_path` strips one leading `/` from `f"{self.path}/…"`, so the entries are stored under `r/…`,
while `keys()` and `clean()` test the store keys against the unstripped `self.path + "/"`; `keys()` is then empty and
`clean()` removes nothing.  The point operations are unaffected (`storec_refines_partial` has no such hypothesis).
Directories never disturb the listing: `keys()` skips them, `clean()` removes files first and may leave directories
behind, which no operation of the cache observes. -/
theorem storec_refines_keys_partial (c : StoreCCfg) (U : Str → Prop) (ok : CodecS c) (paths : PathsOK c U)
    (hpath : ∀ r, c.path ≠ '/' :: r) (h : List CacheOp)
    (hok : HistOK (kvOpsC kvCfgStore) (fun kv op => op.hasData = true ∧ op.typeStable kv = true ∧ ∀ k, op.key? = some k → U k) [] h) :
    outsEq ((storeCOps c specOps).run (storeCInit c specOps []) h).2 ((kvOpsC kvCfgStore).run [] h).2 :=
  storec_run2 c U ok paths hpath h hok

/-- the same from any related pair of states (e.g. a store that already holds directories, or a reopened cache) -/
theorem storec_refines_keys_from (c : StoreCCfg) (U : Str → Prop) (ok : CodecS c) (paths : PathsOK c U)
    (hpath : ∀ r, c.path ≠ '/' :: r) (fs : FS) (kv : KV) (hinit : RSt2 c U fs kv) (h : List CacheOp)
    (hok : HistOK (kvOpsC kvCfgStore) (okSt2 U) kv h) :
    outsEq ((storeCOps c specOps).run fs h).2 ((kvOpsC kvCfgStore).run kv h).2 :=
  ((storec_sim2 c U ok paths hpath).run h fs kv hinit hok).2

/-! the statement fails for a cache path kept with a leading `/` -/

def demoState (q : String) : CState := { metadata := { query := q.toList, status := [], typeId := [] }, data := some [] }

/-- a cache at `/c` with an honest codec -/
def slashCfg (flat : Bool) : StoreCCfg := { Witness.storeCfg flat with path := "/c".toList }

theorem slashCfg_ok (flat : Bool) : CodecS (slashCfg flat) := ⟨(Witness.storeCfg_ok flat).1, (Witness.storeCfg_ok flat).2⟩

/-- `StoreCache(store, "/c")`: after `store(a)`, `keys()` is empty (the specification lists `a`) -/
theorem storec_slash_keys :
    ((storeCOps (slashCfg false) specOps).run (storeCInit (slashCfg false) specOps []) [.store (demoState "a"), .keys]).2 =
      [.res .true, .keys []] ∧
    ((kvOpsC kvCfgStore).run [] [.store (demoState "a"), .keys]).2 = [.res .true, .keys ["a".toList]] := by decide

/-- … and `clean()` removes nothing: the entry is still there -/
theorem storec_slash_clean :
    ((storeCOps (slashCfg false) specOps).run (storeCInit (slashCfg false) specOps []) [.store (demoState "a"), .clean, .contains "a".toList]).2 =
      [.res .true, .unit, .bool true] ∧
    ((kvOpsC kvCfgStore).run [] [.store (demoState "a"), .clean, .contains "a".toList]).2 = [.res .true, .unit, .bool false] := by decide

/-- the negation of `storec_unnormalised_statement`: why the constructor has to normalise the path -/
theorem storec_unnormalised_false : ¬ storec_unnormalised_statement := by
  intro hs
  have paths : PathsOK (slashCfg false) (fun k => k = "a".toList) :=
    ⟨fun a b ha hb _ => ha.trans hb.symm, fun a b ha hb => by
      rw [ha, hb]; exact StoreC.not_mem_ancestors_of_length _ _ (Nat.le_refl _)⟩
  have h := hs (slashCfg false) (fun k => k = "a".toList) (slashCfg_ok false) paths [.store (demoState "a"), .keys]
    ⟨⟨rfl, rfl, fun k hk => (Option.some.inj hk).symm⟩, ⟨rfl, rfl, fun k hk => by cases hk⟩, trivial⟩
  rw [storec_slash_keys.1, storec_slash_keys.2] at h
  exact absurd h.2.1.length_eq (by decide)

theorem normPath_no_slash (p r : Str) : StoreC.normPath p ≠ '/' :: r := by
  induction p with
  | nil => simp [StoreC.normPath]
  | cons a t ih =>
    by_cases ha : a = '/'
    · subst ha; simpa [StoreC.normPath] using ih
    · rw [StoreC.normPath.eq_2 _ (by intro r' h; cases h; exact ha rfl)]
      intro h; cases h; exact ha rfl

/-- **`StoreCache(store, path, flat)` as constructed** (`storeCacheOps` / `storeCacheNew`: the constructor keeps
`path.lstrip("/")`) over the reference store, **all eight operations** (`keys()` and `clean()` included), every history from
the freshly constructed cache, flat and nested scheme, **any cache path** (empty, with any number of leading slashes), keys
whose paths are distinct and not directories of one another: the outputs are those of the key-value specification. -/
theorem storec_refines (c : StoreCCfg) (U : Str → Prop) (ok : CodecS c.norm) (paths : PathsOK c.norm U) (h : List CacheOp)
    (hok : HistOK (kvOpsC kvCfgStore) (fun kv op => op.hasData = true ∧ op.typeStable kv = true ∧ ∀ k, op.key? = some k → U k) [] h) :
    outsEq ((storeCacheOps c specOps).run (storeCacheNew c specOps []) h).2 ((kvOpsC kvCfgStore).run [] h).2 :=
  storec_refines_keys_partial c.norm U ok paths (fun r => normPath_no_slash c.path r) h hok

/-- the codec laws do not depend on the path; a path without a leading slash is kept as it is -/
theorem codecS_norm (c : StoreCCfg) (ok : CodecS c) : CodecS c.norm := ⟨ok.1, ok.2⟩

theorem norm_of_no_slash (c : StoreCCfg) (h : ∀ r, c.path ≠ '/' :: r) : c.norm = c := by
  cases c with
  | mk path flat hh encM decM serD deD =>
    simp only [StoreCCfg.norm, StoreCCfg.mk.injEq, and_true]
    cases path with
    | nil => rfl
    | cons a t =>
      by_cases ha : a = '/'
      · subst ha; exact absurd rfl (h t)
      · exact StoreC.normPath.eq_2 _ (by intro r' h'; cases h'; exact ha rfl)

/-- the constructed cache at `/c` and at `//c` is the cache at `c` -/
theorem storec_slash_same (flat : Bool) :
    (slashCfg flat).norm = { Witness.storeCfg flat with path := "c".toList } ∧
    ({ Witness.storeCfg flat with path := "//c".toList } : StoreCCfg).norm = { Witness.storeCfg flat with path := "c".toList } := by
  constructor <;> simp [slashCfg, StoreCCfg.norm, StoreC.normPath]

/-- `StoreCache(store, "/c")` as constructed: after `store(a)`, `clean()` removes the entry (compare `storec_slash_clean`) -/
theorem storec_slash_fixed :
    ((storeCacheOps (slashCfg false) specOps).run (storeCacheNew (slashCfg false) specOps []) [.store (demoState "a"), .contains "a".toList, .clean, .contains "a".toList]).2 =
      [.res .true, .bool true, .unit, .bool false] := by
  rw [storeCacheOps, storeCacheNew, (storec_slash_same false).1]
  decide

/-- both path schemes are injective on all key strings -/
theorem storec_paths_injective (c : StoreCCfg) (c0 : Char) (r : Str) (hp : c.path = c0 :: r) (hc : c0 ≠ '/')
    (hinj : c.flat = true → ∀ a b, c.h a = c.h b → a = b) (a b : Str) (h : StoreC.toPath c a = StoreC.toPath c b) : a = b := by
  cases hf : c.flat with
  | true => exact StoreC.toPath_flat_injective c hf c0 r hp hc (hinj hf) a b h
  | false => exact StoreC.toPath_nested_injective c hf c0 r hp hc a b h

/-- the flat scheme satisfies the path hypotheses for **all** keys (slash-free injective digest) -/
theorem storec_flat_pathsOK (c : StoreCCfg) (hf : c.flat = true) (c0 : Char) (r : Str) (hp : c.path = c0 :: r) (hc : c0 ≠ '/')
    (hinj : ∀ a b, c.h a = c.h b → a = b) (hslash : ∀ k, '/' ∉ c.h k) : PathsOK c (fun _ => True) :=
  ⟨fun a b _ _ h => StoreC.toPath_flat_injective c hf c0 r hp hc hinj a b h,
   fun a b _ _ => StoreC.toPath_flat_prefixFree c hf c0 r hp hc hslash a b⟩

/-! the nested scheme is *not* prefix-free on all strings: a key one of whose components is `0state_.data` turns the data
file of a shorter key into a directory — and (on a store that normalises paths, like `FileStore`) it is not injective:
`a/` and `a` meet.  Concrete witnesses: -/

def demoNested : StoreCCfg :=
  { path := "c".toList, flat := false, h := id, encM := fun m => m.query, decM := fun s => some { query := s, status := ready, typeId := [] },
    serD := fun _ _ => [], deD := fun _ _ => some (some []) }

example : StoreC.toPath demoNested "a".toList ∈ ancestors (StoreC.toPath demoNested "a/0state_.data/b".toList) := by decide

/-- negation of the refinement statement outside `PathsOK`: after storing only `a/0state_.data/b`, `contains("a")` is `True` -/
theorem storec_nested_confusion :
    ((storeCOps demoNested specOps).run (storeCInit demoNested specOps []) [.store (demoState "a/0state_.data/b"), .contains "a".toList]).2 ≠
    ((kvOpsC kvCfgStore).run [] [.store (demoState "a/0state_.data/b"), .contains "a".toList]).2 := by decide

/-- what a path-normalising store (pathlib: empty and `.` components vanish) makes of a path -/
def normComps (p : Key) : Key := p.filter (fun c => c != [] && c != ['.'])

theorem storec_nested_normalised_not_injective :
    normComps (StoreC.toPath demoNested "a/".toList) = normComps (StoreC.toPath demoNested "a".toList) ∧
    normComps (StoreC.toPath demoNested "a//b".toList) = normComps (StoreC.toPath demoNested "a/b".toList) ∧
    ("a/".toList : Str) ≠ "a".toList := by decide

/-! combinators: if the parts refine their specifications, the combination refines the combination of the specifications -/

theorem combine_refines {α β α' β' : Type} {A : CacheOps α} {B : CacheOps β} {SA : CacheOps α'} {SB : CacheOps β'}
    {RA : α → α' → Prop} {RB : β → β' → Prop} {p : CacheOp → Prop}
    (simA : CSim A SA RA (fun _ => p)) (simB : CSim B SB RB (fun _ => p)) (hrem : ∀ k, p (.remove k))
    (h : List CacheOp) (hall : ∀ op ∈ h, p op) (a : α) (b : β) (a' : α') (b' : β') (ha : RA a a') (hb : RB b b') :
    outsEq ((combineOps A B).run (a, b) h).2 ((combineOps SA SB).run (a', b') h).2 :=
  ((combine_sim simA simB hrem).run h (a, b) (a', b') ⟨ha, hb⟩ (histOK_of_all _ _ h hall _)).2

theorem cond_refines {α α' : Type} {A : CacheOps α} {SA : CacheOps α'} {RA : α → α' → Prop} {p : CacheOp → Prop} (g : CMeta → Bool)
    (simA : CSim A SA RA (fun _ => p)) (hrem : ∀ k, p (.remove k))
    (h : List CacheOp) (hall : ∀ op ∈ h, p op) (a : α) (a' : α') (ha : RA a a') :
    outsEq ((guardOps g A).run a h).2 ((guardOps g SA).run a' h).2 :=
  ((guard_sim g simA hrem).run h a a' ha (histOK_of_all _ _ h hall _)).2

theorem proxy_refines {α α' : Type} {A : CacheOps α} {SA : CacheOps α'} {RA : α → α' → Prop} {ok : α' → CacheOp → Prop}
    (simA : CSim A SA RA ok) (h : List CacheOp) (a : α) (a' : α') (ha : RA a a') (hok : HistOK (proxyCOps SA) ok a' h) :
    outsEq ((proxyCOps A).run a h).2 ((proxyCOps SA).run a' h).2 :=
  ((proxy_sim simA).run h a a' ha hok).2

/-- `NoCache() + MemoryCache()` and `MemoryCache().if_contains(…)` etc. against the composed specification -/
theorem no_plus_mem_refines (h : List CacheOp) (hall : ∀ op ∈ h, op.hasData = true) :
    outsEq ((combineOps noCOps memCOps).run ((), []) h).2 ((combineOps noCOps (kvOpsC kvCfgKeep)).run ((), []) h).2 :=
  combine_refines (p := fun op => op.hasData = true) (RA := fun _ _ => True) (fun s t op _ _ => no_sim s t op trivial trivial) mem_sim (fun _ => rfl)
    h hall () [] () [] trivial RM_init

theorem mem_if_refines (g : CMeta → Bool) (h : List CacheOp) (hall : ∀ op ∈ h, op.hasData = true) :
    outsEq ((guardOps g memCOps).run [] h).2 ((guardOps g (kvOpsC kvCfgKeep)).run [] h).2 :=
  cond_refines (p := fun op => op.hasData = true) g mem_sim (fun _ => rfl) h hall [] [] RM_init

/-- `MemoryCache().if_contains(…) + MemoryCache()` (a conditional member in front of an unconditional one; any guard): the two
congruences compose -/
theorem if_plus_mem_refines (g : CMeta → Bool) (h : List CacheOp) (hall : ∀ op ∈ h, op.hasData = true) :
    outsEq ((combineOps (guardOps g memCOps) memCOps).run ([], []) h).2
      ((combineOps (guardOps g (kvOpsC kvCfgKeep)) (kvOpsC kvCfgKeep)).run ([], []) h).2 :=
  combine_refines (p := fun op => op.hasData = true) (guard_sim g mem_sim (fun _ => rfl)) mem_sim (fun _ => rfl)
    h hall [] [] [] [] RM_init RM_init

/-! non-vacuity of the hypotheses -/
example : Crash.CodecOK Witness.fileCfg ∧ (∀ a b, Witness.fileCfg.h a = Witness.fileCfg.h b → a = b) := ⟨Witness.fileCfg_ok, fun _ _ h => h⟩
example : SqlOK Witness.sqlCfg := Witness.sqlCfg_ok
example : CodecS (Witness.storeCfg true) ∧ PathsOK (Witness.storeCfg true) (fun _ => True) :=
  ⟨Witness.storeCfg_ok true, storec_flat_pathsOK _ rfl 'c' "ache".toList rfl (by decide) (Witness.storeCfg_hinj true) (Witness.storeCfg_noslash true)⟩

def demoHist : List CacheOp :=
  [.store (demoState "a"), .storeMeta { query := "a".toList, status := ready, typeId := [] }, .get "a".toList, .store (demoState "a/"),
   .remove "a".toList, .get "a/".toList, .keys, .clean]
example : ∀ op ∈ demoHist, op.hasData = true := by decide
example : histOK (fun kv op => op.hasData && op.typeStable kv) (kvOpsC kvCfgKeep) [] demoHist = true := by decide
example : (memCOps.run [] demoHist).2 = ((kvOpsC kvCfgKeep).run [] demoHist).2 := by decide
example : HistOK (kvOpsC kvCfgKeep) okF [] demoHist := histOK_bool _ _ _ (by decide)
example (c : StoreCCfg) (U : Str → Prop) : RSt c U [] [] :=
  { fileOK := fun _ _ => rfl, noDir := fun _ _ h => by simp [FS.get] at h, hasData := fun _ _ _ h => by simp [KV.get] at h }
example : HistOK (kvOpsC kvCfgStore) (okSt (fun _ => True)) [] [.store (demoState "a"), .get "a".toList] :=
  ⟨⟨rfl, rfl, _, rfl, trivial⟩, ⟨rfl, rfl, _, rfl, trivial⟩, trivial⟩
/-- the hypotheses of `storec_refines_keys_partial` are satisfiable: codec, paths (all keys), cache path `cache`, and a history
with `keys` and `clean` -/
example : CodecS (Witness.storeCfg true) ∧ PathsOK (Witness.storeCfg true) (fun _ => True) ∧ (∀ r, (Witness.storeCfg true).path ≠ '/' :: r) ∧
    HistOK (kvOpsC kvCfgStore) (fun kv op => op.hasData = true ∧ op.typeStable kv = true ∧ ∀ k, op.key? = some k → (fun _ => True) k) [] demoHist :=
  ⟨Witness.storeCfg_ok true, storec_flat_pathsOK _ rfl 'c' "ache".toList rfl (by decide) (Witness.storeCfg_hinj true) (Witness.storeCfg_noslash true),
   fun r h => (by cases h),
   ⟨rfl, rfl, fun _ _ => trivial⟩, ⟨rfl, by decide, fun _ _ => trivial⟩, ⟨rfl, rfl, fun _ _ => trivial⟩, ⟨rfl, rfl, fun _ _ => trivial⟩,
   ⟨rfl, rfl, fun _ _ => trivial⟩, ⟨rfl, rfl, fun _ _ => trivial⟩, ⟨rfl, rfl, fun _ _ => trivial⟩, ⟨rfl, rfl, fun _ _ => trivial⟩, trivial⟩
example (c : StoreCCfg) (hpath : ∀ r, c.path ≠ '/' :: r) : RSt2 c (fun _ => True) (storeCInit c specOps []) [] := RSt2_init c _ hpath
/-- on a concrete cache (flat and nested, path `c` and the empty path) the whole demonstration history, `keys` and `clean`
included, runs to the outputs of the specification -/
example : ((storeCOps demoNested specOps).run (storeCInit demoNested specOps []) demoHist).2 = ((kvOpsC kvCfgStore).run [] demoHist).2 := by decide
example : ((storeCOps { demoNested with path := [], flat := true } specOps).run (storeCInit { demoNested with path := [], flat := true } specOps []) demoHist).2 =
    ((kvOpsC kvCfgStore).run [] demoHist).2 := by decide

/-! ## (iii) XOR -/

theorem xor_involutive (code b : Data) (hne : code ≠ []) : xorEnc code (xorEnc code b) = b := Liquer.xor_involutive code b hne

theorem xor_hides (code b : Data) (hne : code ≠ []) (h0 : ∀ x ∈ code, x ≠ 0) (i : Nat) (hi : i < b.length) :
    (xorEnc code b)[i]? ≠ b[i]? := Liquer.xor_hides code b hne h0 i hi

/-- the XOR file layer never merges two values: different stored bytes give different files -/
theorem xor_injective (code a b : Data) (hne : code ≠ []) (h : xorEnc code a = xorEnc code b) : a = b := by
  have := congrArg (xorEnc code) h
  rwa [xor_involutive code a hne, xor_involutive code b hne] at this

/-- and it keeps the length (a reader sizing the value by the file is right) -/
theorem xor_length (code b : Data) (hne : code ≠ []) : (xorEnc code b).length = b.length := by
  simp [xorEnc, Liquer.codeOfLength_length code hne]

example : ([0x5A, 0x13, 0xC7] : Data) ≠ [] ∧ ∀ x ∈ ([0x5A, 0x13, 0xC7] : Data), x ≠ 0 := by decide

end Liquer.C13

-- OBLIGATIONS: Liquer.C13.kv_store_get Liquer.C13.kv_remove Liquer.C13.kv_clean Liquer.C13.kv_meta_only_no_data Liquer.C13.kv_meta_data Liquer.C13.kv_frame Liquer.C13.kvOps_is_instance
-- OBLIGATIONS: Liquer.C13.memc_refines Liquer.C13.filec_refines Liquer.C13.sqlc_refines Liquer.C13.storec_refines_partial Liquer.C13.storec_paths_injective Liquer.C13.storec_flat_pathsOK Liquer.C13.storec_nested_confusion Liquer.C13.storec_nested_normalised_not_injective
-- OBLIGATIONS: Liquer.C13.storec_refines_keys_partial Liquer.C13.storec_refines_keys_from Liquer.C13.storec_slash_keys Liquer.C13.storec_slash_clean Liquer.C13.storec_unnormalised_false Liquer.C13.storec_refines Liquer.C13.storec_slash_same Liquer.C13.storec_slash_fixed Liquer.C13.norm_of_no_slash
-- OBLIGATIONS: Liquer.C13.combine_refines Liquer.C13.cond_refines Liquer.C13.proxy_refines Liquer.C13.no_plus_mem_refines Liquer.C13.mem_if_refines Liquer.C13.if_plus_mem_refines Liquer.C13.xor_involutive Liquer.C13.xor_hides Liquer.C13.xor_injective Liquer.C13.xor_length
