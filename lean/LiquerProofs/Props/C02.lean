/-
C02 — Canonical query text is a fixed point of parsing and encoding.

Every query AST in the image of the parser (`wfTop`, see `LiquerModel/WF.lean`) — any number of
segments, actions and parameters, links nested to any depth — is read back by `parse` from its
canonical text up to positions (`erase` = `clean_position`), and encoding the result reproduces the
canonical text. The two known findings of the implementation are exactly the accepted strings whose
AST is not `wfTop`; they are documented by the negative witnesses at the end.
Helper lemmas: `LiquerProofs/Lemmas/Parse*.lean`; regenerated-table side conditions:
`LiquerProofs/Inst/Grammar.lean`.
-/
import LiquerModel.Parse
import LiquerProofs.Inst.Terminals
import LiquerProofs.Inst.EscapeTable
import LiquerProofs.Lemmas.ParseTop

namespace Liquer.C02

theorem inst_terminals :
    reDeterministic Gen.identifierRe = true ∧ reDeterministic Gen.filenameRe = true ∧
    reDeterministic Gen.resourceNameRe = true ∧ reDeterministic Gen.parameterTextRe = true ∧
    reDeterministic Gen.percentEncodingRe = true ∧ reDeterministic Gen.resourceIdentifierRe = true ∧
    reDeterministic Gen.segmentIdentifierNamedRe = true ∧ reDeterministic Gen.segmentIdentifierBareRe = true :=
  Inst.terminals_deterministic
theorem inst_grammar_shape : Gen.grammarShapeOK = true := Inst.grammar_shape

/-- the side conditions on the regenerated terminals, entity table and escape table that the round-trip
proof uses (all closed by `decide` in `Inst/Grammar.lean`) -/
theorem inst_grammar :
    Gen.escapeTable.all (fun pe =>
      Gen.entityTable.find? (fun e => isPrefix e.1 pe.2) == some (pe.2, pe.1) &&
      pe.2.length == 2 && !isPrefix pe.2 Gen.linkOpen) = true ∧
    Gen.entityTable.all (fun e => !isPrefix e.1 Gen.linkClose) = true ∧
    Inst.delims.all (Inst.excl Gen.identifierRe) = true ∧
    ['/', '~'].all (Inst.excl Gen.filenameRe) = true ∧
    ['/', '~'].all (Inst.excl Gen.resourceNameRe) = true :=
  ⟨Inst.entity_inverts_escape, Inst.linkClose_not_entity, Inst.identifier_stops, Inst.filename_stops,
    Inst.resourceName_stops⟩

/-! ### a non-trivial well-formed query (used as the non-vacuity witness of the implications below) -/

/-- (canonical text: see the `example` below) absolute, a resource segment with a
header parameter, a transform segment with a header parameter, an action with a link argument (itself
absolute, with an escaped `/` and a file name) followed by an empty argument, and a file name -/
def sample : Query :=
  .mk [ .resource (some (.mk [] 1 [.str ['m','e','t','a'] 0] true)) [['a'], ['b','.','t','x','t']],
        .transform (some (.mk ['n','s'] 1 [.str ['x',' ','y'] 0] false))
          [.mk ['a','c','t']
            [.link (.mk [.transform none [.mk ['i','n','n','e','r'] [.str ['1','/','2'] 0] 0]
                (some ['f','.','c','s','v'])] true) 0,
             .str [] 0] 0]
          (some ['o','u','t','.','j','s','o','n']) ] true

/-- a resource path followed by one headed transform segment: the `[resource, transform]` reading -/
def sampleRtq : Query :=
  .mk [ .resource none [['d','a','t','a'], ['x','.','c','s','v']],
        .transform (some (.mk [] 1 [] false)) [.mk ['f','i','l','t','e','r'] [.str ['a'] 0] 0] none ] false

theorem sample_wf : wfTop Gen.escapeTable sample = true := by decide +kernel
theorem sampleRtq_wf : wfTop Gen.escapeTable sampleRtq = true := by decide +kernel

example : sample.encode Gen.escapeTable =
    "/-R-meta/a/b.txt/-ns-x~.y/act-~X~/inner-1~I2/f.csv~E-/out.json".toList := by decide +kernel
example : sampleRtq.encode Gen.escapeTable = "data/x.csv/-/filter-a".toList := by decide +kernel

/-! ### S0: encoding ignores positions; canonical text has no white space -/

theorem encode_erase (tbl : EscTable) (q : Query) : q.erase.encode tbl = q.encode tbl :=
  Query.encode_erase tbl q

/-- the canonical text of a well-formed query contains no white-space character (in particular no TAB),
so `expandtabs` and every white-space skip of the parser are the identity on it -/
theorem encode_no_ws (q : Query) (hwf : wfTop Gen.escapeTable q = true) :
    (∀ c ∈ q.encode Gen.escapeTable, PS.isWhite c = false) ∧
      expandTabs 0 (q.encode Gen.escapeTable) = q.encode Gen.escapeTable :=
  ⟨noWs_of_wfTop hwf, expandTabs_noWs _ _ (noWs_of_wfTop hwf)⟩

example : wfTop Gen.escapeTable sample = true := sample_wf

/-! ### S1–S5: the parser reads canonical text back -/

/-- S5 (links nested to any depth): `parse_query` reads back the canonical text of every well-formed
link query, whatever follows the closing `~E` -/
theorem parseQuery_encode (dec : List UInt8 → List Char) (hd : DecOK dec) (q : Query)
    (hwf : wfInner q = true) (rest : Str) (p n : Nat)
    (hrest : rest = [] ∨ ∃ t, rest = '~' :: 'E' :: t)
    (hws : ∀ c ∈ rest, PS.isWhite c = false)
    (hn : 8 * (q.encode Gen.escapeTable).length + 9 ≤ n) :
    ∃ q' p', parseQuery dec n ⟨q.encode Gen.escapeTable ++ rest, p⟩ = some (q', ⟨rest, p'⟩) ∧
      q'.erase = q.erase := by
  apply Liquer.parseQuery_encode hd q hwf rest p n ((Query.noWs q hwf).append hws) _ hn
  rcases hrest with rfl | ⟨t, rfl⟩
  · rfl
  · exact qStop_linkClose t

-- non-vacuity: the link argument of `sample` is a well-formed link query
example : wfInner (.mk [.transform none [.mk ['i','n','n','e','r'] [.str ['1','/','2'] 0] 0]
    (some ['f','.','c','s','v'])] true) = true := by decide +kernel

/-- MAIN THEOREM: every well-formed query is read back from its canonical text, up to positions -/
theorem print_parse (dec : List UInt8 → List Char) (hd : DecOK dec) (q : Query)
    (hwf : wfTop Gen.escapeTable q = true) :
    ∃ q', parse dec (q.encode Gen.escapeTable) = some q' ∧ q'.erase = q.erase :=
  print_parse_main hd q hwf

/-- the canonical text is a fixed point: parsing it and encoding the result reproduces it -/
theorem canonical_fixed_point (dec : List UInt8 → List Char) (hd : DecOK dec) (q : Query)
    (hwf : wfTop Gen.escapeTable q = true) :
    ∃ q', parse dec (q.encode Gen.escapeTable) = some q' ∧ q'.erase = q.erase ∧
      q'.encode Gen.escapeTable = q.encode Gen.escapeTable := by
  obtain ⟨q', h1, h2⟩ := print_parse dec hd q hwf
  refine ⟨q', h1, h2, ?_⟩
  rw [← encode_erase, h2, encode_erase]

/-- **the canonical text determines the query**: two well-formed queries with the same canonical text are the
same query up to source positions — so the canonical text is a sound cache key (no two different
well-formed queries collide) -/
theorem encode_injective (dec : List UInt8 → List Char) (hd : DecOK dec) (q₁ q₂ : Query)
    (h₁ : wfTop Gen.escapeTable q₁ = true) (h₂ : wfTop Gen.escapeTable q₂ = true)
    (he : q₁.encode Gen.escapeTable = q₂.encode Gen.escapeTable) : q₁.erase = q₂.erase := by
  obtain ⟨a, ha, ea⟩ := print_parse dec hd q₁ h₁
  obtain ⟨b, hb, eb⟩ := print_parse dec hd q₂ h₂
  rw [he, hb] at ha
  cases ha
  rw [← ea, eb]

-- non-vacuity: the hypotheses hold for the driver's decoder and for both sample queries
example : DecOK decUtf8 ∧ wfTop Gen.escapeTable sample = true ∧ wfTop Gen.escapeTable sampleRtq = true :=
  ⟨Liquer.decUtf8_ok, sample_wf, sampleRtq_wf⟩

theorem real_fixed_point (q : Query) (hwf : wfTop Gen.escapeTable q = true) :
    ∃ q', parse decUtf8 (q.encode Gen.escapeTable) = some q' ∧ q'.erase = q.erase ∧
      q'.encode Gen.escapeTable = q.encode Gen.escapeTable :=
  canonical_fixed_point decUtf8 Liquer.decUtf8_ok q hwf

example : wfTop Gen.escapeTable sample = true := sample_wf

/-! ### the two known findings: accepted strings whose AST is not `wfTop` do not round-trip -/

/-- a simple total byte decoder (Latin-1), enough for the ASCII witnesses below -/
def decL1 (bs : List UInt8) : List Char := bs.map (fun b => Char.ofNat b.toNat)

/-- the string `ns-%41` `/b/` `-x/c` (written in pieces: a slash followed by a dash would open a comment) -/
def strA : Str := ['n','s','-','%','4','1','/','b','/','-','x','/','c']
def astA : Query :=
  .mk [.transform none [.mk ['n','s'] [.str ['A'] 3] 0, .mk ['b'] [] 7] none,
       .transform (some (.mk ['x'] 1 [] false)) [.mk ['c'] [] 12] none] false
def astA' : Query :=
  .mk [.resource none [['n','s','-','A'], ['b']],
       .transform (some (.mk ['x'] 1 [] false)) [.mk ['c'] [] 10] none] false

/-- finding `rtq-capture`: the parser accepts `strA` as two transform segments; the AST is not
`wfTop`; its canonical text (the same with `%41` replaced by `A`) re-parses as `[resource, transform]`,
a different query -/
theorem finding_rtq_capture :
    parse decL1 strA = some astA ∧ wfTop Gen.escapeTable astA = false ∧
    parse decL1 (astA.encode Gen.escapeTable) = some astA' ∧ astA'.erase ≠ astA.erase := by
  refine ⟨by rfl, by decide +kernel, by rfl, ?_⟩
  intro h
  have := congrArg (fun q : Query => q.segments.map Seg.isTransform) h
  revert this
  decide

/-- `-R- -1/x` -/
def strB : Str := ['-','R','-',' ','-','1','/','x']
def astB : Query := .mk [.resource (some (.mk [] 1 [.str [] 3, .str ['1'] 5] true)) [['x']]] false
def astB' : Query := .mk [.resource (some (.mk [] 1 [.str ['1'] 4] true)) [['x']]] false

/-- finding `res-header-empty-param`: `-R- -1/x` has an empty parameter followed by another one in a
resource header; the AST is not `wfTop`; its canonical text `-R--1/x` loses the empty parameter -/
theorem finding_res_header_empty_param :
    parse decL1 strB = some astB ∧ wfTop Gen.escapeTable astB = false ∧
    parse decL1 (astB.encode Gen.escapeTable) = some astB' ∧ astB'.erase ≠ astB.erase := by
  refine ⟨by rfl, by decide +kernel, by rfl, ?_⟩
  intro h
  have := congrArg (fun q : Query => q.segments.map (fun s => s.header.map (fun h => h.params.length))) h
  revert this
  decide

end Liquer.C02

-- OBLIGATIONS: Liquer.C02.inst_terminals Liquer.C02.inst_grammar_shape Liquer.C02.inst_grammar Liquer.C02.sample_wf Liquer.C02.sampleRtq_wf Liquer.C02.encode_erase Liquer.C02.encode_no_ws Liquer.C02.parseQuery_encode Liquer.C02.print_parse Liquer.C02.canonical_fixed_point Liquer.C02.real_fixed_point Liquer.C02.finding_rtq_capture Liquer.C02.finding_res_header_empty_param Liquer.C02.encode_injective
