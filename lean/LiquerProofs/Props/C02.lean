/-
C02 — Canonical query text is a fixed point of parsing and encoding.
-/
import LiquerModel.Parse
import LiquerProofs.Inst.Terminals
import LiquerProofs.Inst.EscapeTable

namespace Liquer.C02

theorem inst_terminals :
    reDeterministic Gen.identifierRe = true ∧ reDeterministic Gen.filenameRe = true ∧
    reDeterministic Gen.resourceNameRe = true ∧ reDeterministic Gen.parameterTextRe = true ∧
    reDeterministic Gen.percentEncodingRe = true ∧ reDeterministic Gen.resourceIdentifierRe = true ∧
    reDeterministic Gen.segmentIdentifierNamedRe = true ∧ reDeterministic Gen.segmentIdentifierBareRe = true :=
  Inst.terminals_deterministic
theorem inst_grammar_shape : Gen.grammarShapeOK = true := Inst.grammar_shape

end Liquer.C02

-- OBLIGATIONS: Liquer.C02.inst_terminals Liquer.C02.inst_grammar_shape
