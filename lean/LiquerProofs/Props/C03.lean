/-
C03 — Any text can be passed as an argument; encoded arguments are URL-path safe.
Property theorems only; helper lemmas live in LiquerProofs/Lemmas/Token*.lean.
-/
import LiquerProofs.Inst.EscapeTable

namespace Liquer.C03

theorem inst_tableOK : tableOK Gen.escapeTable = true := Inst.escapeTable_ok

theorem inst_quoteSafe : ∀ n : Fin 128, quoteSafe (Char.ofNat n.val) = Gen.quoteSafeProbe.contains (Char.ofNat n.val) :=
  Inst.quoteSafe_probe

end Liquer.C03

-- OBLIGATIONS: Liquer.C03.inst_tableOK Liquer.C03.inst_quoteSafe
