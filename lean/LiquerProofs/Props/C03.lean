/-
C03 — Any text can be passed as an argument; encoded arguments are URL-path safe.
Property theorems only; helper lemmas live in LiquerProofs/Lemmas/{Text,Quote,Token,TokenSafe}.lean.
-/
import LiquerProofs.Inst.EscapeTable
import LiquerProofs.Lemmas.TokenSafe

namespace Liquer.C03

theorem inst_tableOK : tableOK Gen.escapeTable = true := Inst.escapeTable_ok

theorem inst_sepCovered : sepCovered Gen.escapeTable = true := Inst.escapeTable_sepCovered

theorem inst_quoteSafe : ∀ n : Fin 128, quoteSafe (Char.ofNat n.val) = Gen.quoteSafeProbe.contains (Char.ofNat n.val) :=
  Inst.quoteSafe_probe

/-! ### the byte decoder of the driver is admissible -/

/-- core's UTF-8 decoder inverts UTF-8 encoding (the only thing the theorems need of `dec`). -/
theorem decUtf8_ok : DecOK decUtf8 := Liquer.decUtf8_ok

/-! ### round trip of a single token: `decode_token(encode_token(s)) == s` for every string -/

theorem decodeToken_encodeToken (tbl : EscTable) (dec : List UInt8 → List Char)
    (h : tableOK tbl = true) (hd : DecOK dec) (s : List Char) :
    decodeToken tbl dec (encodeToken tbl s) = s :=
  Liquer.decodeToken_encodeToken tbl dec h hd s

-- non-vacuity: the hypotheses hold for the real table and decoder, and the round trip is exercised
-- on a string with `~`, `https://`, `%7E`, separators and non-ASCII characters.
example : tableOK Gen.escapeTable = true ∧ DecOK decUtf8 := ⟨inst_tableOK, decUtf8_ok⟩
/-- info: ("~~~Hx.org~Ia~_b~.c%257E%C3%A9%E2%82%AC", "~https://x.org/a-b c%7Eé€") -/
#guard_msgs in
#eval
  let e := encodeToken Gen.escapeTable "~https://x.org/a-b c%7Eé€".toList
  (String.ofList e, String.ofList (decodeToken Gen.escapeTable decUtf8 e))

theorem real_roundtrip (s : List Char) :
    decodeToken Gen.escapeTable decUtf8 (encodeToken Gen.escapeTable s) = s :=
  decodeToken_encodeToken _ _ inst_tableOK decUtf8_ok s

/-! ### URL-path safety of the encoded token -/

/-- every character of an encoded token is an ASCII letter, digit, `_`, `.`, `~` or `%`;
in particular there is no bare `/`, `-` or space. (`tableOK` is not needed for this part.) -/
theorem encodeToken_safe (tbl : EscTable) (_h : tableOK tbl = true) (hs : sepCovered tbl = true)
    (s : List Char) : ∀ c ∈ encodeToken tbl s, tokSafe c = true :=
  encodeToken_safe' tbl hs s

theorem encodeToken_no_separator (tbl : EscTable) (h : tableOK tbl = true)
    (hs : sepCovered tbl = true) (s : List Char) :
    '/' ∉ encodeToken tbl s ∧ '-' ∉ encodeToken tbl s ∧ ' ' ∉ encodeToken tbl s := by
  refine ⟨fun hm => ?_, fun hm => ?_, fun hm => ?_⟩ <;>
    (have := encodeToken_safe tbl h hs s _ hm; revert this; decide)

/-- every `%` of an encoded token starts a `%XY` escape with two upper-case hexadecimal digits:
the token is a concatenation of blocks, each a bare safe character other than `%` or such an
escape. -/
theorem encodeToken_blocks (tbl : EscTable) (_h : tableOK tbl = true) (hs : sepCovered tbl = true)
    (s : List Char) :
    ∃ blocks : List (List Char), encodeToken tbl s = blocks.flatMap id ∧
      ∀ b ∈ blocks, (∃ c, b = [c] ∧ tokSafe c = true ∧ c ≠ '%') ∨
        (∃ x y, x < 16 ∧ y < 16 ∧ b = ['%', hexDigitUpper x, hexDigitUpper y]) :=
  encodeToken_blocks' tbl hs s

-- non-vacuity: hypotheses hold for the real table; a string full of separators is encoded safely
example : tableOK Gen.escapeTable = true ∧ sepCovered Gen.escapeTable = true :=
  ⟨inst_tableOK, inst_sepCovered⟩
/-- info: ("a~Ib~_c~.d%25%C3%A9", true) -/
#guard_msgs in
#eval
  let e := encodeToken Gen.escapeTable "a/b-c d%é".toList
  (String.ofList e, e.all tokSafe)
-- and `tokSafe` is a real restriction
example : tokSafe '/' = false ∧ tokSafe '-' = false ∧ tokSafe ' ' = false ∧ tokSafe '?' = false ∧
    tokSafe '#' = false ∧ tokSafe '&' = false := by decide

theorem real_safe (s : List Char) : ∀ c ∈ encodeToken Gen.escapeTable s, tokSafe c = true :=
  encodeToken_safe _ inst_tableOK inst_sepCovered s

theorem real_no_separator (s : List Char) :
    '/' ∉ encodeToken Gen.escapeTable s ∧ '-' ∉ encodeToken Gen.escapeTable s ∧
      ' ' ∉ encodeToken Gen.escapeTable s :=
  encodeToken_no_separator _ inst_tableOK inst_sepCovered s

theorem real_blocks (s : List Char) :
    ∃ blocks : List (List Char), encodeToken Gen.escapeTable s = blocks.flatMap id ∧
      ∀ b ∈ blocks, (∃ c, b = [c] ∧ tokSafe c = true ∧ c ≠ '%') ∨
        (∃ x y, x < 16 ∧ y < 16 ∧ b = ['%', hexDigitUpper x, hexDigitUpper y]) :=
  encodeToken_blocks _ inst_tableOK inst_sepCovered s

/-! ### list-of-lists form: `decode(encode(ql)) == ql` -/

/-- The round trip of a whole query, for every list of commands each of which is non-empty and
starts with a non-empty token (`decode` drops the other commands, see the examples below). -/
theorem decodeLL_encodeLL (tbl : EscTable) (dec : List UInt8 → List Char)
    (h : tableOK tbl = true) (hs : sepCovered tbl = true) (hd : DecOK dec)
    (ql : List (List (List Char)))
    (hne : ∀ cmd ∈ ql, ∃ t ts, cmd = t :: ts ∧ t ≠ []) :
    decodeLL tbl dec (encodeLL tbl ql) = ql :=
  decodeLL_encodeLL' tbl dec h hs hd ql hne

-- non-vacuity: a query satisfying `hne` with empty non-first tokens, separators and non-ASCII text
example : ∀ cmd ∈ [["a~b".toList, [], "https://x/y-z w".toList, "é%7E".toList], ["c".toList, []]],
    ∃ t ts, cmd = t :: ts ∧ t ≠ [] := by
  intro cmd hcmd
  simp only [List.mem_cons, List.not_mem_nil, or_false] at hcmd
  rcases hcmd with rfl | rfl
  · exact ⟨_, _, rfl, by decide⟩
  · exact ⟨_, _, rfl, by decide⟩
/-- info: ("a~~b--~Hx~Iy~_z~.w-%C3%A9%257E/c-", true) -/
#guard_msgs in
#eval
  let ql := [["a~b".toList, [], "https://x/y-z w".toList, "é%7E".toList], ["c".toList, []]]
  let e := encodeLL Gen.escapeTable ql
  (String.ofList e, decodeLL Gen.escapeTable decUtf8 e == ql)
-- the precondition is needed: an empty command or a command starting with "" is dropped
/-- info: (false, false, true) -/
#guard_msgs in
#eval
  let rt := fun ql => decodeLL Gen.escapeTable decUtf8 (encodeLL Gen.escapeTable ql) == ql
  (rt [["a".toList], [], ["b".toList]], rt [[[], "x".toList]], rt [])

theorem real_roundtripLL (ql : List (List (List Char)))
    (hne : ∀ cmd ∈ ql, ∃ t ts, cmd = t :: ts ∧ t ≠ []) :
    decodeLL Gen.escapeTable decUtf8 (encodeLL Gen.escapeTable ql) = ql :=
  decodeLL_encodeLL _ _ inst_tableOK inst_sepCovered decUtf8_ok ql hne

/-! ### injectivity: two different arguments never share an encoding (so no two different queries share a cache key
through their arguments) -/

/-- `encode_token` is injective on all texts -/
theorem real_injective (s t : List Char)
    (h : encodeToken Gen.escapeTable s = encodeToken Gen.escapeTable t) : s = t := by
  have := congrArg (decodeToken Gen.escapeTable decUtf8) h
  simpa [real_roundtrip] using this

/-- the query-level encoder is injective on the queries it can carry -/
theorem real_injectiveLL (ql ql' : List (List (List Char)))
    (hne : ∀ cmd ∈ ql, ∃ t ts, cmd = t :: ts ∧ t ≠ [])
    (hne' : ∀ cmd ∈ ql', ∃ t ts, cmd = t :: ts ∧ t ≠ [])
    (h : encodeLL Gen.escapeTable ql = encodeLL Gen.escapeTable ql') : ql = ql' := by
  have := congrArg (decodeLL Gen.escapeTable decUtf8) h
  rwa [real_roundtripLL ql hne, real_roundtripLL ql' hne'] at this

-- the precondition of `real_injectiveLL` matters: a dropped command makes two queries collide
/-- info: true -/
#guard_msgs in
#eval encodeLL Gen.escapeTable [["a".toList], []] == encodeLL Gen.escapeTable [["a".toList], [[]]]

end Liquer.C03

-- OBLIGATIONS: Liquer.C03.inst_tableOK Liquer.C03.inst_sepCovered Liquer.C03.inst_quoteSafe Liquer.C03.decUtf8_ok Liquer.C03.decodeToken_encodeToken Liquer.C03.real_roundtrip Liquer.C03.encodeToken_safe Liquer.C03.encodeToken_no_separator Liquer.C03.encodeToken_blocks Liquer.C03.real_safe Liquer.C03.real_no_separator Liquer.C03.real_blocks Liquer.C03.decodeLL_encodeLL Liquer.C03.real_roundtripLL Liquer.C03.real_injective Liquer.C03.real_injectiveLL
