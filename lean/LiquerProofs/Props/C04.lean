/-
C04 — Cache transparency: a cache never changes what an evaluation returns, for any history.
Theorems over LiquerModel/Eval.lean and LiquerModel/Ref.lean; helper lemmas in LiquerProofs/Lemmas/Eval*.lean.
`Sound`, `Closed`, `CanonOK`: see the header of Props/C01.lean.  The world `World` is the KV specification
of a cache instantiated at evaluator states (that every provided cache refines it is C13).
The text hypothesis `CanonOK` is discharged by C02's round trip for every class of `wfTop` queries: the `_wf`
corollaries.
Section "evaluation through a cache back-end" (last) makes the bridge to C13 a theorem: `evalVia C codec …`
(LiquerModel/EvalVia.lean) runs the evaluation against a cache back-end MODEL `C : CacheOps σ` (the single-thread replay of
Conc.lean over `C` instead of `World`; evaluator states travel through a `StateCodec`); `worldOf cfg codec kv` is the `World` a
state of the specification `kvOpsC cfg` stands for.  `eval_via_backend`: for every `C` that simulates `kvOpsC cfg` (`CSim`, the
relation behind C13's refinement theorems) `evalVia` returns what `evalQ` returns on that world and ends related to the
specification state of `evalQ`'s final world; `transparent_via_backend` (+ `_memory`, `_file`, `_sql`, `_proxy`, `_hist`):
from the empty cache of that kind, and after any history of evaluations on it, the observation is that of the reference
interpretation.  Lemmas: LiquerProofs/Lemmas/EvalVia.lean.
-/
import LiquerModel.Ref
import LiquerProofs.Inst.Vocab
import LiquerProofs.Lemmas.EvalExact
import LiquerProofs.Lemmas.EvalExample
import LiquerProofs.Lemmas.EvalFrame
import LiquerProofs.Lemmas.EvalCanon
import LiquerProofs.Lemmas.EvalVia
import LiquerProofs.Lemmas.CacheMemRef
import LiquerProofs.Lemmas.CacheCombRef
import LiquerProofs.Lemmas.CacheFileRef
import LiquerProofs.Lemmas.CacheSqlRef
import LiquerProofs.Lemmas.CacheWitness

namespace Liquer.C04

/-- the regenerated command signature table satisfies the side conditions the evaluator theorems assume -/
theorem inst_registry : Inst.registryOK Gen.registry = true := Inst.registry_ok

/-- similar outcomes are observationally equal (value or failure, variables, last command, volatility, file
name, extension) -/
theorem sim_obs {a b : Outcome} (h : Outcome.sim a b) : a.obs = b.obs := Outcome.sim_obs h

/-- In any sound world the observation of `evaluate(query)` is that of the reference interpretation. -/
theorem transparent {env : Env} {C : Query → Prop} {T : Str → Prop} (hC : Closed env C T)
    (hcanon : ∀ q, C q → CanonOK env q) (n : Nat) (w : World) (q : Query) (raw : Str) (extra : Extra)
    (input : Option Val) (uc : Bool) (hS : Sound env w) (hCq : C q) (huc : uc = true → input = none)
    (he : (evalQ env n w q raw extra input uc).2 ≠ .unmodelled) :
    ∃ m, (refQ env m q raw extra input).1 ≠ .unmodelled ∧
      (evalQ env n w q raw extra input uc).2.obs = (refQ env m q raw extra input).1.obs := by
  obtain ⟨m, c', _, _, hsim⟩ := (evalQ_refines hC hcanon n w q raw extra input uc hS hCq huc).2 he
  exact ⟨m, Outcome.sim_ne_unmodelled hsim he, Outcome.sim_obs hsim⟩

/-- Two sound caches — e.g. an empty one and one warmed by any history — give the same observation. -/
theorem transparent_two_worlds {env : Env} {C : Query → Prop} {T : Str → Prop} (hC : Closed env C T)
    (hcanon : ∀ q, C q → CanonOK env q) (n n' : Nat) (w w' : World) (q : Query) (raw : Str) (extra : Extra)
    (input : Option Val) (uc : Bool) (hS : Sound env w) (hS' : Sound env w') (hCq : C q)
    (huc : uc = true → input = none)
    (he : (evalQ env n w q raw extra input uc).2 ≠ .unmodelled)
    (he' : (evalQ env n' w' q raw extra input uc).2 ≠ .unmodelled) :
    (evalQ env n w q raw extra input uc).2.obs = (evalQ env n' w' q raw extra input uc).2.obs := by
  obtain ⟨m, hm, h1⟩ := transparent hC hcanon n w q raw extra input uc hS hCq huc he
  rw [h1, ← evalQ_obs hC hcanon n' m w' q raw extra input uc hS' hCq huc he' hm]

/-- A sound cache against no cache at all (`NoCache()`): same observation. -/
theorem cache_vs_nocache {env : Env} {C : Query → Prop} {T : Str → Prop} (hC : Closed env C T)
    (hcanon : ∀ q, C q → CanonOK env q) (n n' : Nat) (w w0 : World) (q : Query) (raw : Str) (extra : Extra)
    (input : Option Val) (uc : Bool) (hS : Sound env w) (hN : w0.NoCache) (hCq : C q)
    (huc : uc = true → input = none)
    (he : (evalQ env n w q raw extra input uc).2 ≠ .unmodelled)
    (he' : (evalQ env n' w0 q raw extra input uc).2 ≠ .unmodelled) :
    (evalQ env n w q raw extra input uc).2.obs = (evalQ env n' w0 q raw extra input uc).2.obs := by
  have hx := ((exact env n').q w0 q raw extra input uc hN).2.1
  rw [hx] at he' ⊢
  exact evalQ_obs hC hcanon n n' w q raw extra input uc hS hCq huc he he'

/-! ### histories -/

/-- the empty cache is sound, and so is a cleaned one -/
theorem empty_sound (env : Env) : Sound env {} := Sound.empty env
theorem clean_sound (env : Env) (w : World) : Sound env { w with cache := [] } := Sound.clean w
theorem remove_sound {env : Env} {w : World} (h : Sound env w) (k : Str) : Sound env (w.remove k) := h.remove k
theorem nocache_sound {env : Env} {w : World} (h : w.NoCache) : Sound env w := Sound.of_NoData h.2

/-- `Sound` is an invariant of every history of plain evaluations, evaluations of texts, evaluations with an
injected input value (`evaluate_on`: `NoCache` for the chain of predecessors), evaluations with extra parameters,
removals and cleans — any length, any fuel per step, any as-typed spelling. -/
theorem histories {env : Env} {C : Query → Prop} {T : Str → Prop} (hC : Closed env C T)
    (hcanon : ∀ q, C q → CanonOK env q) (fuel : Nat) (h : List HistOp) (w : World) (hS : Sound env w)
    (hok : ∀ op ∈ h, op.ok C T) : Sound env (runHist env fuel w h) :=
  runHist_sound hC hcanon fuel h w hS hok

/-- … hence after any history the observation of an evaluation is that of the reference interpretation -/
theorem transparent_after_history {env : Env} {C : Query → Prop} {T : Str → Prop} (hC : Closed env C T)
    (hcanon : ∀ q, C q → CanonOK env q) (fuel n m : Nat) (h : List HistOp) (hok : ∀ op ∈ h, op.ok C T)
    (q : Query) (raw : Str) (hCq : C q)
    (he : (evalQ env n (runHist env fuel {} h) q raw .none none true).2 ≠ .unmodelled)
    (hr : (refQ env m q raw .none none).1 ≠ .unmodelled) :
    (evalQ env n (runHist env fuel {} h) q raw .none none true).2.obs = (refQ env m q raw .none none).1.obs :=
  evalQ_obs hC hcanon n m _ q raw .none none true (histories hC hcanon fuel h {} (Sound.empty env) hok) hCq
    (fun _ => rfl) he hr

/-! ### frame: what an evaluation never touches -/

/-- an evaluation never changes the flags of the cache (`enabled`, `metaKeepsData`) and only appends to the call log -/
theorem frame_evalQ (env : Env) (n : Nat) (w : World) (q : Query) (raw : Str) (extra : Extra) (input : Option Val)
    (uc : Bool) :
    (evalQ env n w q raw extra input uc).1.enabled = w.enabled ∧
    (evalQ env n w q raw extra input uc).1.metaKeepsData = w.metaKeepsData ∧
    ∃ c, (evalQ env n w q raw extra input uc).1.calls = w.calls ++ c :=
  (frame env n).q w q raw extra input uc

-- non-vacuity: the hypotheses hold for the example family; a history with a plain evaluation, an evaluation with an
-- injected input, one with extra parameters, a removal of a prefix key and a clean satisfies `ok`; and the
-- conclusion is exercised: `one/add-2` evaluated in the world warmed by `one/add-~X~/one~E` returns 3, as the
-- reference interpretation does, executing `add` only.
open Ex in
def hist0 : List HistOp :=
  [.eval qLink (s "one/add-~X~/one~E"), .evalOn qOneAdd (s "one/add-2") (some (.int 5)),
   .evalExtra qOneAdd (s "one/add-2") (.list [.int 7]), .remove (s "one"), .eval qOneAdd (s "one/add-2"), .clean,
   .eval qOne (s "one")]
open Ex in
example : Closed env0 C0 T0 ∧ (∀ q, C0 q → CanonOK env0 q) ∧ (∀ op ∈ hist0, op.ok C0 T0) ∧
    Sound env0 (runHist env0 9 {} hist0) := by
  have hok : ∀ op ∈ hist0, op.ok C0 T0 := by
    intro op hm
    simp only [hist0, List.mem_cons, List.not_mem_nil, or_false] at hm
    rcases hm with rfl | rfl | rfl | rfl | rfl | rfl | rfl <;> simp [HistOp.ok, C0]
  exact ⟨closed0, canon0, hok, histories closed0 canon0 9 hist0 {} (Sound.empty _) hok⟩
open Ex in
example :
    let w1 := (evalQ env0 9 {} qLink (s "one/add-~X~/one~E") .none none true).1
    (evalQ env0 9 w1 qOneAdd (s "one/add-2") .none none true).2.obs.map (·.value) = some (some (.int 3)) ∧
    (refQ env0 9 qOneAdd (s "one/add-2") .none none).1.obs.map (·.value) = some (some (.int 3)) ∧
    w1.get (s "one") ≠ none := by
  decide +kernel

/-! ### the canonical-text hypothesis discharged: closed classes of well-formed queries (C02's round trip) -/

/-- every well-formed query of the class means what its canonical text means (Lemmas/EvalCanon.lean) -/
theorem canon_of_wf {env : Env} (hd : DecOK env.dec) {C : Query → Prop}
    (hwf : ∀ q, C q → wfTop Gen.escapeTable q = true) : ∀ q, C q → CanonOK env q :=
  fun q hq => CanonOK.of_same (Canon.canonSame_of_wf env hd q (hwf q hq))

/-- `transparent` for a closed class of well-formed queries -/
theorem transparent_wf {env : Env} (hd : DecOK env.dec) {C : Query → Prop} {T : Str → Prop} (hC : Closed env C T)
    (hwf : ∀ q, C q → wfTop Gen.escapeTable q = true) (n : Nat) (w : World) (q : Query) (raw : Str) (extra : Extra)
    (input : Option Val) (uc : Bool) (hS : Sound env w) (hCq : C q) (huc : uc = true → input = none)
    (he : (evalQ env n w q raw extra input uc).2 ≠ .unmodelled) :
    ∃ m, (refQ env m q raw extra input).1 ≠ .unmodelled ∧
      (evalQ env n w q raw extra input uc).2.obs = (refQ env m q raw extra input).1.obs :=
  transparent hC (canon_of_wf hd hwf) n w q raw extra input uc hS hCq huc he

/-- `transparent_two_worlds` for a closed class of well-formed queries -/
theorem transparent_two_worlds_wf {env : Env} (hd : DecOK env.dec) {C : Query → Prop} {T : Str → Prop}
    (hC : Closed env C T) (hwf : ∀ q, C q → wfTop Gen.escapeTable q = true) (n n' : Nat) (w w' : World) (q : Query)
    (raw : Str) (extra : Extra) (input : Option Val) (uc : Bool) (hS : Sound env w) (hS' : Sound env w') (hCq : C q)
    (huc : uc = true → input = none)
    (he : (evalQ env n w q raw extra input uc).2 ≠ .unmodelled)
    (he' : (evalQ env n' w' q raw extra input uc).2 ≠ .unmodelled) :
    (evalQ env n w q raw extra input uc).2.obs = (evalQ env n' w' q raw extra input uc).2.obs :=
  transparent_two_worlds hC (canon_of_wf hd hwf) n n' w w' q raw extra input uc hS hS' hCq huc he he'

/-- `cache_vs_nocache` for a closed class of well-formed queries -/
theorem cache_vs_nocache_wf {env : Env} (hd : DecOK env.dec) {C : Query → Prop} {T : Str → Prop}
    (hC : Closed env C T) (hwf : ∀ q, C q → wfTop Gen.escapeTable q = true) (n n' : Nat) (w w0 : World) (q : Query)
    (raw : Str) (extra : Extra) (input : Option Val) (uc : Bool) (hS : Sound env w) (hN : w0.NoCache) (hCq : C q)
    (huc : uc = true → input = none)
    (he : (evalQ env n w q raw extra input uc).2 ≠ .unmodelled)
    (he' : (evalQ env n' w0 q raw extra input uc).2 ≠ .unmodelled) :
    (evalQ env n w q raw extra input uc).2.obs = (evalQ env n' w0 q raw extra input uc).2.obs :=
  cache_vs_nocache hC (canon_of_wf hd hwf) n n' w w0 q raw extra input uc hS hN hCq huc he he'

/-- `histories` for a closed class of well-formed queries -/
theorem histories_wf {env : Env} (hd : DecOK env.dec) {C : Query → Prop} {T : Str → Prop} (hC : Closed env C T)
    (hwf : ∀ q, C q → wfTop Gen.escapeTable q = true) (fuel : Nat) (h : List HistOp) (w : World) (hS : Sound env w)
    (hok : ∀ op ∈ h, op.ok C T) : Sound env (runHist env fuel w h) :=
  histories hC (canon_of_wf hd hwf) fuel h w hS hok

/-- `transparent_after_history` for a closed class of well-formed queries -/
theorem transparent_after_history_wf {env : Env} (hd : DecOK env.dec) {C : Query → Prop} {T : Str → Prop}
    (hC : Closed env C T) (hwf : ∀ q, C q → wfTop Gen.escapeTable q = true) (fuel n m : Nat) (h : List HistOp)
    (hok : ∀ op ∈ h, op.ok C T) (q : Query) (raw : Str) (hCq : C q)
    (he : (evalQ env n (runHist env fuel {} h) q raw .none none true).2 ≠ .unmodelled)
    (hr : (refQ env m q raw .none none).1 ≠ .unmodelled) :
    (evalQ env n (runHist env fuel {} h) q raw .none none true).2.obs = (refQ env m q raw .none none).1.obs :=
  transparent_after_history hC (canon_of_wf hd hwf) fuel n m h hok q raw hCq he hr

-- non-vacuity of the `_wf` hypotheses: the decoder of the example environment is a decoder and the example family
-- (closed, contains a link argument) consists of well-formed queries; with them `histories_wf` applies to `hist0`
open Ex in
example : DecOK env0.dec ∧ Closed env0 C0 T0 ∧ (∀ q, C0 q → wfTop Gen.escapeTable q = true) ∧
    Sound env0 (runHist env0 9 {} hist0) := by
  have hwf : ∀ q, C0 q → wfTop Gen.escapeTable q = true := by
    intro q hq; rcases hq with rfl | rfl | rfl | rfl <;> decide +kernel
  have hok : ∀ op ∈ hist0, op.ok C0 T0 := by
    intro op hm
    simp only [hist0, List.mem_cons, List.not_mem_nil, or_false] at hm
    rcases hm with rfl | rfl | rfl | rfl | rfl | rfl | rfl <;> simp [HistOp.ok, C0]
  exact ⟨decUtf8_ok, closed0, hwf, histories_wf decUtf8_ok closed0 hwf 9 hist0 {} (Sound.empty _) hok⟩

/-! ### evaluation through a cache back-end -/

open Via in
/-- **The bridge between C04 and C13.**  Let the back-end model `C` simulate the key-value specification `kvOpsC cfg`
(`CSim C (kvOpsC cfg) R ok` — the statement behind `C13.memc_refines`, `filec_refines`, `sqlc_refines`, …) for a configuration
that records progress writes of absent keys (`metaFresh`: `kvCfgKeep`, `kvCfgDrop`), let the codec satisfy its laws, and let
`ok` admit the cache operations of an evaluation (`hok`; `TypeInv`: data-bearing bindings carry the codec's type identifier).
Then for every specification state `kv` there are `N` and `kv'` such that `worldOf cfg c kv'` is exactly the final world of
`evalQ` on `worldOf cfg c kv` (call log aside), and from every back-end state `s` related to `kv`, with at least `N` cache
operations allowed, `evalVia` returns the outcome and the calls of that `evalQ` and ends related to `kv'`. -/
theorem eval_via_backend {σ : Type} {C : CacheOps σ} {cfg : KVCfg} {R : σ → KV → Prop} {ok : KV → CacheOp → Prop}
    {c : StateCodec} (sim : CSim C (kvOpsC cfg) R ok) (hf : cfg.metaFresh = true) (hc : CodecOK c)
    (hok : ∀ kv op, TypeInv c kv → ok kv (COp.toCache c op))
    (env : Env) (n : Nat) (kv : KV) (hT : TypeInv c kv) (q : Query) (raw : Str) :
    ∃ (N : Nat) (kv' : KV),
      TypeInv c kv' ∧
      worldOf cfg c kv' = { (evalQ env n (worldOf cfg c kv) q raw .none none true).1 with calls := [] } ∧
      ∀ (s : σ), R s kv → ∀ steps, N ≤ steps →
        (evalVia C c env n steps s q raw).2.1 = (evalQ env n (worldOf cfg c kv) q raw .none none true).2 ∧
        (evalVia C c env n steps s q raw).2.2 = (evalQ env n (worldOf cfg c kv) q raw .none none true).1.calls ∧
        R (evalVia C c env n steps s q raw).1 kv' :=
  Via.eval_via_backend sim hf hc hok env n kv hT q raw

/-- the empty specification state stands for an empty (hence sound) world and satisfies the type invariant -/
theorem empty_via (env : Env) (cfg : KVCfg) (c : StateCodec) : Sound env (worldOf cfg c []) ∧ Via.TypeInv c [] :=
  ⟨Via.sound_worldOf_empty env cfg c, Via.TypeInv.empty c⟩

/-- no evaluation ever hands an error state to `store` (so the `store` of the back-end never refuses) -/
theorem never_stores_error (env : Env) (n : Nat) (A : List (Option EState)) (q : Query) (raw : Str) (st : EState)
    (h : COp.store st ∈ (evalQO env n { answers := A } q raw .none none true).1.trace) : st.isError = false :=
  Via.noErrStore env n A q raw .none none true st h

open Via in
/-- **A cache of any provided kind never changes what an evaluation returns** — with the back-end model in the statement.
From a back-end state related to a specification state whose world is `Sound` (the empty one is), the observation of an
evaluation of a query of a `Closed` class through the back-end is that of the reference interpretation, and the back-end ends
related to a specification state whose world is `Sound` again (so the statement applies to the next evaluation). -/
theorem transparent_via_backend {σ : Type} {C : CacheOps σ} {cfg : KVCfg} {R : σ → KV → Prop} {ok : KV → CacheOp → Prop}
    {c : StateCodec} (sim : CSim C (kvOpsC cfg) R ok) (hf : cfg.metaFresh = true) (hc : CodecOK c)
    (hok : ∀ kv op, TypeInv c kv → ok kv (COp.toCache c op))
    {env : Env} {Cl : Query → Prop} {T : Str → Prop} (hC : Closed env Cl T) (hcanon : ∀ q, Cl q → CanonOK env q)
    (n : Nat) (kv : KV) (hT : TypeInv c kv) (hS : Sound env (worldOf cfg c kv)) (q : Query) (raw : Str) (hCq : Cl q) :
    ∃ (N : Nat) (kv' : KV), TypeInv c kv' ∧ Sound env (worldOf cfg c kv') ∧
      ∀ (s : σ), R s kv → ∀ steps, N ≤ steps →
        R (evalVia C c env n steps s q raw).1 kv' ∧
        ((evalVia C c env n steps s q raw).2.1 ≠ .unmodelled →
          ∃ m, (refQ env m q raw .none none).1 ≠ .unmodelled ∧
            (evalVia C c env n steps s q raw).2.1.obs = (refQ env m q raw .none none).1.obs) := by
  obtain ⟨N, kv', h1, h2, h3⟩ := Via.eval_via_backend sim hf hc hok env n kv hT q raw
  refine ⟨N, kv', h1, ?_, fun s hR steps hN => ?_⟩
  · rw [h2]
    exact sound_setCalls (evalQ_refines hC hcanon n _ q raw .none none true hS hCq (fun _ => rfl)).1 []
  · obtain ⟨e1, _, e3⟩ := h3 s hR steps hN
    refine ⟨e3, fun hne => ?_⟩
    rw [e1] at hne ⊢
    exact transparent hC hcanon n _ q raw .none none true hS hCq (fun _ => rfl) hne

/-- the property of one result of a history: modelled outcomes have the observation of the reference interpretation -/
def ObsRef (env : Env) (qr : Query × Str) (o : Outcome × List Str) : Prop :=
  o.1 ≠ .unmodelled → ∃ m, (refQ env m qr.1 qr.2 .none none).1 ≠ .unmodelled ∧ o.1.obs = (refQ env m qr.1 qr.2 .none none).1.obs

open Via in
/-- … for every history of evaluations on the same back-end (any length): every result has the observation of the reference
interpretation, whatever the earlier evaluations left in the cache -/
theorem transparent_via_backend_hist {σ : Type} {C : CacheOps σ} {cfg : KVCfg} {R : σ → KV → Prop}
    {ok : KV → CacheOp → Prop} {c : StateCodec} (sim : CSim C (kvOpsC cfg) R ok) (hf : cfg.metaFresh = true)
    (hc : CodecOK c) (hok : ∀ kv op, TypeInv c kv → ok kv (COp.toCache c op))
    {env : Env} {Cl : Query → Prop} {T : Str → Prop} (hC : Closed env Cl T) (hcanon : ∀ q, Cl q → CanonOK env q)
    (n : Nat) (h : List (Query × Str)) (hh : ∀ qr ∈ h, Cl qr.1) (kv : KV) (hT : TypeInv c kv)
    (hS : Sound env (worldOf cfg c kv)) :
    ∃ N, ∀ (s : σ), R s kv → ∀ steps, N ≤ steps →
      List.Forall₂ (ObsRef env) h (evalViaHist C c env n steps s h).2 := by
  induction h generalizing kv with
  | nil => exact ⟨0, fun s _ steps _ => List.Forall₂.nil⟩
  | cons qr rest ih =>
    obtain ⟨q, raw⟩ := qr
    obtain ⟨N1, kv', t1, s1, f1⟩ := transparent_via_backend sim hf hc hok hC hcanon n kv hT hS q raw
      (hh (q, raw) (List.mem_cons_self ..))
    obtain ⟨N2, f2⟩ := ih (fun qr hm => hh qr (List.mem_cons_of_mem _ hm)) kv' t1 s1
    refine ⟨max N1 N2, fun s hR steps hN => ?_⟩
    obtain ⟨r1, o1⟩ := f1 s hR steps (by omega)
    exact List.Forall₂.cons o1 (f2 _ r1 steps (by omega))

/-! the provided kinds, from the empty cache of that kind (with the `CSim` instances behind `C13.memc_refines`,
`filec_refines`, `sqlc_refines`, `proxy_refines`) -/

open Via in
/-- `MemoryCache` -/
theorem transparent_via_memory {c : StateCodec} (hc : CodecOK c) {env : Env} {Cl : Query → Prop} {T : Str → Prop}
    (hC : Closed env Cl T) (hcanon : ∀ q, Cl q → CanonOK env q) (n : Nat) (h : List (Query × Str))
    (hh : ∀ qr ∈ h, Cl qr.1) :
    ∃ N, ∀ steps, N ≤ steps → List.Forall₂ (ObsRef env) h (evalViaHist memCOps c env n steps [] h).2 := by
  obtain ⟨N, f⟩ := transparent_via_backend_hist mem_sim rfl hc (fun _ op _ => toCache_hasData hc op) hC hcanon n h hh []
    (TypeInv.empty c) (sound_worldOf_empty env _ c)
  exact ⟨N, f [] RM_init⟩

open Via in
/-- `FileCache`, `XORFileCache`, `FernetFileCache`: injective digest, codec of the file cache with decode ∘ encode = id -/
theorem transparent_via_file (fc : FileCfg) (okc : Crash.CodecOK fc) (hinj : ∀ a b, fc.h a = fc.h b → a = b)
    {c : StateCodec} (hc : CodecOK c) {env : Env} {Cl : Query → Prop} {T : Str → Prop}
    (hC : Closed env Cl T) (hcanon : ∀ q, Cl q → CanonOK env q) (n : Nat) (h : List (Query × Str))
    (hh : ∀ qr ∈ h, Cl qr.1) :
    ∃ N, ∀ steps, N ≤ steps → List.Forall₂ (ObsRef env) h (evalViaHist (fileCOps fc) c env n steps [] h).2 := by
  obtain ⟨N, f⟩ := transparent_via_backend_hist (file_sim fc okc hinj) rfl hc
    (fun _ op hT => ⟨toCache_hasData hc op, toCache_typeStable hT op⟩) hC hcanon n h hh []
    (TypeInv.empty c) (sound_worldOf_empty env _ c)
  exact ⟨N, f [] (RF_init fc)⟩

open Via in
/-- `SQLCache` / `SQLStringCache` with `delete_before_insert` (a progress write drops the data: `kvCfgDrop`) -/
theorem transparent_via_sql (sc : SqlCfg) (oks : SqlOK sc)
    {c : StateCodec} (hc : CodecOK c) {env : Env} {Cl : Query → Prop} {T : Str → Prop}
    (hC : Closed env Cl T) (hcanon : ∀ q, Cl q → CanonOK env q) (n : Nat) (h : List (Query × Str))
    (hh : ∀ qr ∈ h, Cl qr.1) :
    ∃ N, ∀ steps, N ≤ steps → List.Forall₂ (ObsRef env) h (evalViaHist (sqlCOps sc) c env n steps {} h).2 := by
  obtain ⟨N, f⟩ := transparent_via_backend_hist (sql_sim sc oks) rfl hc (fun _ op _ => toCache_hasData hc op) hC hcanon
    n h hh [] (TypeInv.empty c) (sound_worldOf_empty env _ c)
  exact ⟨N, f {} (RS_init sc)⟩

open Via in
/-- a combinator: `CacheProxy` over any back-end that simulates the specification (here stated for every such back-end) -/
theorem transparent_via_proxy {σ : Type} {C : CacheOps σ} {cfg : KVCfg} {R : σ → KV → Prop} {ok : KV → CacheOp → Prop}
    {c : StateCodec} (sim : CSim C (kvOpsC cfg) R ok) (hf : cfg.metaFresh = true) (hc : CodecOK c)
    (hok : ∀ kv op, TypeInv c kv → ok kv (COp.toCache c op))
    {env : Env} {Cl : Query → Prop} {T : Str → Prop} (hC : Closed env Cl T) (hcanon : ∀ q, Cl q → CanonOK env q)
    (n : Nat) (h : List (Query × Str)) (hh : ∀ qr ∈ h, Cl qr.1) (s0 : σ) (h0 : R s0 []) :
    ∃ N, ∀ steps, N ≤ steps → List.Forall₂ (ObsRef env) h (evalViaHist (proxyCOps C) c env n steps s0 h).2 := by
  have simP : CSim (proxyCOps C) (kvOpsC cfg) R ok := proxy_sim sim
  obtain ⟨N, f⟩ := transparent_via_backend_hist simP hf hc hok hC hcanon n h hh [] (TypeInv.empty c)
    (sound_worldOf_empty env _ c)
  exact ⟨N, f s0 h0⟩

-- non-vacuity.  The hypotheses of `eval_via_backend` / `transparent_via_*` hold for: the memory cache (simulation `mem_sim`,
-- related initial states), the rendering codec `codecT` (laws proved: `Via.codecT_ok`), the example family (closed, with a link
-- argument), a two-step history; the file and SQL configurations of C13's witnesses satisfy `Crash.CodecOK` / `SqlOK`.
open Ex in
example : CSim memCOps (kvOpsC kvCfgKeep) RM (fun _ op => op.hasData = true) ∧ kvCfgKeep.metaFresh = true ∧
    Via.CodecOK codecT ∧ (∀ kv op, Via.TypeInv codecT kv → (COp.toCache codecT op).hasData = true) ∧ RM [] [] ∧
    Via.TypeInv codecT [] ∧ Sound env0 (worldOf kvCfgKeep codecT []) ∧ Closed env0 C0 T0 ∧ (∀ q, C0 q → CanonOK env0 q) ∧
    (∀ qr ∈ [(qLink, s "one/add-~X~/one~E"), (qOneAdd, s "one/add-2")], C0 qr.1) :=
  ⟨mem_sim, rfl, Via.codecT_ok, fun _ op _ => Via.toCache_hasData Via.codecT_ok op, RM_init, Via.TypeInv.empty _,
   Via.sound_worldOf_empty _ _ _, closed0, canon0, by
    intro qr hm
    simp only [List.mem_cons, List.not_mem_nil, or_false] at hm
    rcases hm with rfl | rfl <;> simp [C0]⟩
example : Crash.CodecOK Witness.fileCfg ∧ (∀ a b, Witness.fileCfg.h a = Witness.fileCfg.h b → a = b) ∧ SqlOK Witness.sqlCfg :=
  ⟨Witness.fileCfg_ok, fun _ _ h => h, Witness.sqlCfg_ok⟩
-- the conclusion exercised on the model of `MemoryCache` itself: `one/add-2` on the empty memory cache returns 3, executes
-- `one` and `add`, and leaves ready entries for `one/add-2` and `one`; evaluated again on the cache it left, it returns 3
-- and executes no command.  A history through the proxied memory model: `one/add-~X~/one~E` executes three commands, then
-- `one/add-2` only `add` (its prefix `one` is served), then nothing.  (The file/SQL witnesses of C13 are unary Gödel
-- numberings: lawful, not runnable.)
open Ex in
example :
    let r1 := evalVia memCOps codecT env0 9 40 [] qOneAdd (s "one/add-2")
    let r2 := evalVia memCOps codecT env0 9 40 r1.1 qOneAdd (s "one/add-2")
    r1.2.1.obs.map (·.value) = some (some (.int 3)) ∧ r1.2.2.length = 2 ∧
    (memCOps.contains r1.1 (s "one/add-2")).2 = true ∧ (memCOps.contains r1.1 (s "one")).2 = true ∧
    ((memCOps.get r1.1 (s "one/add-2")).2.map (·.metadata.status)) = some ready ∧
    r2.2.1.obs.map (·.value) = some (some (.int 3)) ∧ r2.2.2 = [] ∧
    (refQ env0 9 qOneAdd (s "one/add-2") .none none).1.obs.map (·.value) = some (some (.int 3)) := by
  decide +kernel
open Ex in
example :
    let h := [(qLink, s "one/add-~X~/one~E"), (qOneAdd, s "one/add-2"), (qOneAdd, s "one/add-2")]
    ((evalViaHist (proxyCOps memCOps) codecT env0 9 60 [] h).2.map (fun o => (o.1.obs.map (·.value), o.2.length))) =
      [(some (some (.int 2)), 3), (some (some (.int 3)), 1), (some (some (.int 3)), 0)] := by
  decide +kernel

end Liquer.C04

-- OBLIGATIONS: Liquer.C04.inst_registry Liquer.C04.sim_obs Liquer.C04.transparent Liquer.C04.transparent_two_worlds Liquer.C04.cache_vs_nocache Liquer.C04.empty_sound Liquer.C04.clean_sound Liquer.C04.remove_sound Liquer.C04.nocache_sound Liquer.C04.histories Liquer.C04.transparent_after_history Liquer.C04.frame_evalQ Liquer.C04.canon_of_wf Liquer.C04.transparent_wf Liquer.C04.transparent_two_worlds_wf Liquer.C04.cache_vs_nocache_wf Liquer.C04.histories_wf Liquer.C04.transparent_after_history_wf
-- OBLIGATIONS: Liquer.C04.eval_via_backend Liquer.C04.empty_via Liquer.C04.never_stores_error Liquer.C04.transparent_via_backend Liquer.C04.transparent_via_backend_hist Liquer.C04.transparent_via_memory Liquer.C04.transparent_via_file Liquer.C04.transparent_via_sql Liquer.C04.transparent_via_proxy
