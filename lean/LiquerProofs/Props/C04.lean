/-
C04 — Cache transparency: a cache never changes what an evaluation returns, for any history.
Theorems over LiquerModel/Eval.lean and LiquerModel/Ref.lean; helper lemmas in LiquerProofs/Lemmas/Eval*.lean.
`Sound`, `Closed`, `CanonOK`: see the header of Props/C01.lean.  The world `World` is the KV specification
of a cache instantiated at evaluator states (that every provided cache refines it is C13).
The text hypothesis `CanonOK` is discharged by C02's round trip for every class of `wfTop` queries: the `_wf`
corollaries (last section).
-/
import LiquerModel.Ref
import LiquerProofs.Inst.Vocab
import LiquerProofs.Lemmas.EvalExact
import LiquerProofs.Lemmas.EvalExample
import LiquerProofs.Lemmas.EvalFrame
import LiquerProofs.Lemmas.EvalCanon

namespace Liquer.C04

/-- the regenerated command signature table satisfies the side conditions the evaluator theorems assume -/
theorem inst_registry : Inst.registryOK Gen.registry = true := Inst.registry_ok

/-- similar outcomes are observationally equal (value or failure, variables, last command, volatility, file
name, extension) -/
theorem sim_obs {a b : Outcome} (h : Outcome.sim a b) : a.obs = b.obs := Outcome.sim_obs h

/-- In any sound world the observation of `evaluate(query)` is that of the reference interpretation. -/
theorem transparent {env : Env} {C : Query → Prop} {T : Str → Prop} (hC : Closed env C T)
    (hcanon : ∀ q, C q → CanonOK env q) (n : Nat) (w : World) (q : Query) (raw : Str) (extra : Extra)
    (input : Option Val) (uc : Bool) (hS : Sound env w) (hCq : C q) (huc : uc = true → input = none)
    (he : (evalQ env n w q raw extra input uc).2 ≠ .unmodelled) :
    ∃ m, (refQ env m q raw extra input).1 ≠ .unmodelled ∧
      (evalQ env n w q raw extra input uc).2.obs = (refQ env m q raw extra input).1.obs := by
  obtain ⟨m, c', _, _, hsim⟩ := (evalQ_refines hC hcanon n w q raw extra input uc hS hCq huc).2 he
  exact ⟨m, Outcome.sim_ne_unmodelled hsim he, Outcome.sim_obs hsim⟩

/-- Two sound caches — e.g. an empty one and one warmed by any history — give the same observation. -/
theorem transparent_two_worlds {env : Env} {C : Query → Prop} {T : Str → Prop} (hC : Closed env C T)
    (hcanon : ∀ q, C q → CanonOK env q) (n n' : Nat) (w w' : World) (q : Query) (raw : Str) (extra : Extra)
    (input : Option Val) (uc : Bool) (hS : Sound env w) (hS' : Sound env w') (hCq : C q)
    (huc : uc = true → input = none)
    (he : (evalQ env n w q raw extra input uc).2 ≠ .unmodelled)
    (he' : (evalQ env n' w' q raw extra input uc).2 ≠ .unmodelled) :
    (evalQ env n w q raw extra input uc).2.obs = (evalQ env n' w' q raw extra input uc).2.obs := by
  obtain ⟨m, hm, h1⟩ := transparent hC hcanon n w q raw extra input uc hS hCq huc he
  rw [h1, ← evalQ_obs hC hcanon n' m w' q raw extra input uc hS' hCq huc he' hm]

/-- A sound cache against no cache at all (`NoCache()`): same observation. -/
theorem cache_vs_nocache {env : Env} {C : Query → Prop} {T : Str → Prop} (hC : Closed env C T)
    (hcanon : ∀ q, C q → CanonOK env q) (n n' : Nat) (w w0 : World) (q : Query) (raw : Str) (extra : Extra)
    (input : Option Val) (uc : Bool) (hS : Sound env w) (hN : w0.NoCache) (hCq : C q)
    (huc : uc = true → input = none)
    (he : (evalQ env n w q raw extra input uc).2 ≠ .unmodelled)
    (he' : (evalQ env n' w0 q raw extra input uc).2 ≠ .unmodelled) :
    (evalQ env n w q raw extra input uc).2.obs = (evalQ env n' w0 q raw extra input uc).2.obs := by
  have hx := ((exact env n').q w0 q raw extra input uc hN).2.1
  rw [hx] at he' ⊢
  exact evalQ_obs hC hcanon n n' w q raw extra input uc hS hCq huc he he'

/-! ### histories -/

/-- the empty cache is sound, and so is a cleaned one -/
theorem empty_sound (env : Env) : Sound env {} := Sound.empty env
theorem clean_sound (env : Env) (w : World) : Sound env { w with cache := [] } := Sound.clean w
theorem remove_sound {env : Env} {w : World} (h : Sound env w) (k : Str) : Sound env (w.remove k) := h.remove k
theorem nocache_sound {env : Env} {w : World} (h : w.NoCache) : Sound env w := Sound.of_NoData h.2

/-- `Sound` is an invariant of every history of plain evaluations, evaluations of texts, evaluations with an
injected input value (`evaluate_on`: `NoCache` for the chain of predecessors), evaluations with extra parameters,
removals and cleans — any length, any fuel per step, any as-typed spelling. -/
theorem histories {env : Env} {C : Query → Prop} {T : Str → Prop} (hC : Closed env C T)
    (hcanon : ∀ q, C q → CanonOK env q) (fuel : Nat) (h : List HistOp) (w : World) (hS : Sound env w)
    (hok : ∀ op ∈ h, op.ok C T) : Sound env (runHist env fuel w h) :=
  runHist_sound hC hcanon fuel h w hS hok

/-- … hence after any history the observation of an evaluation is that of the reference interpretation -/
theorem transparent_after_history {env : Env} {C : Query → Prop} {T : Str → Prop} (hC : Closed env C T)
    (hcanon : ∀ q, C q → CanonOK env q) (fuel n m : Nat) (h : List HistOp) (hok : ∀ op ∈ h, op.ok C T)
    (q : Query) (raw : Str) (hCq : C q)
    (he : (evalQ env n (runHist env fuel {} h) q raw .none none true).2 ≠ .unmodelled)
    (hr : (refQ env m q raw .none none).1 ≠ .unmodelled) :
    (evalQ env n (runHist env fuel {} h) q raw .none none true).2.obs = (refQ env m q raw .none none).1.obs :=
  evalQ_obs hC hcanon n m _ q raw .none none true (histories hC hcanon fuel h {} (Sound.empty env) hok) hCq
    (fun _ => rfl) he hr

/-! ### frame: what an evaluation never touches -/

/-- an evaluation never changes the flags of the cache (`enabled`, `metaKeepsData`) and only appends to the call log -/
theorem frame_evalQ (env : Env) (n : Nat) (w : World) (q : Query) (raw : Str) (extra : Extra) (input : Option Val)
    (uc : Bool) :
    (evalQ env n w q raw extra input uc).1.enabled = w.enabled ∧
    (evalQ env n w q raw extra input uc).1.metaKeepsData = w.metaKeepsData ∧
    ∃ c, (evalQ env n w q raw extra input uc).1.calls = w.calls ++ c :=
  (frame env n).q w q raw extra input uc

-- non-vacuity: the hypotheses hold for the example family; a history with a plain evaluation, an evaluation with an
-- injected input, one with extra parameters, a removal of a prefix key and a clean satisfies `ok`; and the
-- conclusion is exercised: `one/add-2` evaluated in the world warmed by `one/add-~X~/one~E` returns 3, as the
-- reference interpretation does, executing `add` only.
open Ex in
def hist0 : List HistOp :=
  [.eval qLink (s "one/add-~X~/one~E"), .evalOn qOneAdd (s "one/add-2") (some (.int 5)),
   .evalExtra qOneAdd (s "one/add-2") (.list [.int 7]), .remove (s "one"), .eval qOneAdd (s "one/add-2"), .clean,
   .eval qOne (s "one")]
open Ex in
example : Closed env0 C0 T0 ∧ (∀ q, C0 q → CanonOK env0 q) ∧ (∀ op ∈ hist0, op.ok C0 T0) ∧
    Sound env0 (runHist env0 9 {} hist0) := by
  have hok : ∀ op ∈ hist0, op.ok C0 T0 := by
    intro op hm
    simp only [hist0, List.mem_cons, List.not_mem_nil, or_false] at hm
    rcases hm with rfl | rfl | rfl | rfl | rfl | rfl | rfl <;> simp [HistOp.ok, C0]
  exact ⟨closed0, canon0, hok, histories closed0 canon0 9 hist0 {} (Sound.empty _) hok⟩
open Ex in
example :
    let w1 := (evalQ env0 9 {} qLink (s "one/add-~X~/one~E") .none none true).1
    (evalQ env0 9 w1 qOneAdd (s "one/add-2") .none none true).2.obs.map (·.value) = some (some (.int 3)) ∧
    (refQ env0 9 qOneAdd (s "one/add-2") .none none).1.obs.map (·.value) = some (some (.int 3)) ∧
    w1.get (s "one") ≠ none := by
  decide +kernel

/-! ### the canonical-text hypothesis discharged: closed classes of well-formed queries (C02's round trip) -/

/-- every well-formed query of the class means what its canonical text means (Lemmas/EvalCanon.lean) -/
theorem canon_of_wf {env : Env} (hd : DecOK env.dec) {C : Query → Prop}
    (hwf : ∀ q, C q → wfTop Gen.escapeTable q = true) : ∀ q, C q → CanonOK env q :=
  fun q hq => CanonOK.of_same (Canon.canonSame_of_wf env hd q (hwf q hq))

/-- `transparent` for a closed class of well-formed queries -/
theorem transparent_wf {env : Env} (hd : DecOK env.dec) {C : Query → Prop} {T : Str → Prop} (hC : Closed env C T)
    (hwf : ∀ q, C q → wfTop Gen.escapeTable q = true) (n : Nat) (w : World) (q : Query) (raw : Str) (extra : Extra)
    (input : Option Val) (uc : Bool) (hS : Sound env w) (hCq : C q) (huc : uc = true → input = none)
    (he : (evalQ env n w q raw extra input uc).2 ≠ .unmodelled) :
    ∃ m, (refQ env m q raw extra input).1 ≠ .unmodelled ∧
      (evalQ env n w q raw extra input uc).2.obs = (refQ env m q raw extra input).1.obs :=
  transparent hC (canon_of_wf hd hwf) n w q raw extra input uc hS hCq huc he

/-- `transparent_two_worlds` for a closed class of well-formed queries -/
theorem transparent_two_worlds_wf {env : Env} (hd : DecOK env.dec) {C : Query → Prop} {T : Str → Prop}
    (hC : Closed env C T) (hwf : ∀ q, C q → wfTop Gen.escapeTable q = true) (n n' : Nat) (w w' : World) (q : Query)
    (raw : Str) (extra : Extra) (input : Option Val) (uc : Bool) (hS : Sound env w) (hS' : Sound env w') (hCq : C q)
    (huc : uc = true → input = none)
    (he : (evalQ env n w q raw extra input uc).2 ≠ .unmodelled)
    (he' : (evalQ env n' w' q raw extra input uc).2 ≠ .unmodelled) :
    (evalQ env n w q raw extra input uc).2.obs = (evalQ env n' w' q raw extra input uc).2.obs :=
  transparent_two_worlds hC (canon_of_wf hd hwf) n n' w w' q raw extra input uc hS hS' hCq huc he he'

/-- `cache_vs_nocache` for a closed class of well-formed queries -/
theorem cache_vs_nocache_wf {env : Env} (hd : DecOK env.dec) {C : Query → Prop} {T : Str → Prop}
    (hC : Closed env C T) (hwf : ∀ q, C q → wfTop Gen.escapeTable q = true) (n n' : Nat) (w w0 : World) (q : Query)
    (raw : Str) (extra : Extra) (input : Option Val) (uc : Bool) (hS : Sound env w) (hN : w0.NoCache) (hCq : C q)
    (huc : uc = true → input = none)
    (he : (evalQ env n w q raw extra input uc).2 ≠ .unmodelled)
    (he' : (evalQ env n' w0 q raw extra input uc).2 ≠ .unmodelled) :
    (evalQ env n w q raw extra input uc).2.obs = (evalQ env n' w0 q raw extra input uc).2.obs :=
  cache_vs_nocache hC (canon_of_wf hd hwf) n n' w w0 q raw extra input uc hS hN hCq huc he he'

/-- `histories` for a closed class of well-formed queries -/
theorem histories_wf {env : Env} (hd : DecOK env.dec) {C : Query → Prop} {T : Str → Prop} (hC : Closed env C T)
    (hwf : ∀ q, C q → wfTop Gen.escapeTable q = true) (fuel : Nat) (h : List HistOp) (w : World) (hS : Sound env w)
    (hok : ∀ op ∈ h, op.ok C T) : Sound env (runHist env fuel w h) :=
  histories hC (canon_of_wf hd hwf) fuel h w hS hok

/-- `transparent_after_history` for a closed class of well-formed queries -/
theorem transparent_after_history_wf {env : Env} (hd : DecOK env.dec) {C : Query → Prop} {T : Str → Prop}
    (hC : Closed env C T) (hwf : ∀ q, C q → wfTop Gen.escapeTable q = true) (fuel n m : Nat) (h : List HistOp)
    (hok : ∀ op ∈ h, op.ok C T) (q : Query) (raw : Str) (hCq : C q)
    (he : (evalQ env n (runHist env fuel {} h) q raw .none none true).2 ≠ .unmodelled)
    (hr : (refQ env m q raw .none none).1 ≠ .unmodelled) :
    (evalQ env n (runHist env fuel {} h) q raw .none none true).2.obs = (refQ env m q raw .none none).1.obs :=
  transparent_after_history hC (canon_of_wf hd hwf) fuel n m h hok q raw hCq he hr

-- non-vacuity of the `_wf` hypotheses: the decoder of the example environment is a decoder and the example family
-- (closed, contains a link argument) consists of well-formed queries; with them `histories_wf` applies to `hist0`
open Ex in
example : DecOK env0.dec ∧ Closed env0 C0 T0 ∧ (∀ q, C0 q → wfTop Gen.escapeTable q = true) ∧
    Sound env0 (runHist env0 9 {} hist0) := by
  have hwf : ∀ q, C0 q → wfTop Gen.escapeTable q = true := by
    intro q hq; rcases hq with rfl | rfl | rfl | rfl <;> decide +kernel
  have hok : ∀ op ∈ hist0, op.ok C0 T0 := by
    intro op hm
    simp only [hist0, List.mem_cons, List.not_mem_nil, or_false] at hm
    rcases hm with rfl | rfl | rfl | rfl | rfl | rfl | rfl <;> simp [HistOp.ok, C0]
  exact ⟨decUtf8_ok, closed0, hwf, histories_wf decUtf8_ok closed0 hwf 9 hist0 {} (Sound.empty _) hok⟩

end Liquer.C04

-- OBLIGATIONS: Liquer.C04.inst_registry Liquer.C04.sim_obs Liquer.C04.transparent Liquer.C04.transparent_two_worlds Liquer.C04.cache_vs_nocache Liquer.C04.empty_sound Liquer.C04.clean_sound Liquer.C04.remove_sound Liquer.C04.nocache_sound Liquer.C04.histories Liquer.C04.transparent_after_history Liquer.C04.frame_evalQ Liquer.C04.canon_of_wf Liquer.C04.transparent_wf Liquer.C04.transparent_two_worlds_wf Liquer.C04.cache_vs_nocache_wf Liquer.C04.histories_wf Liquer.C04.transparent_after_history_wf
