/-
C14 — Mounted stores: routing, key translation and union views are exact.

Model: `mountOps P supp` / `prefixOps P p` (LiquerModel/StoreMount.lean) = `MountPointStore` /
`PrefixStore` with the proposed fixes D7a-D7f; all parts are models of one type `P : StoreOps σ`;
state `(default?, routing table in mount order)`.  `T` = the constantly-true `is_supported` of
`MemoryStore` / `FileStore`.

* `route_exclusive` (EVERY table, any `supp`): `route_to(k)` is the last mounted entry that matches `k`;
  no entry matches iff the default store (or `KeyRouteNotFound`) is used.  `route_innermost`: under
  `tableWF` (distinct non-empty prefixes, outer mounted before inner) that entry is the innermost mount
  on the path to `k`.  `prefix_strips`: the routed `PrefixStore` serves the key with the prefix stripped.
* `mount_union_*` (any number of mounts, `tableWF`): directory flag, containment, bytes, reported metadata
  key, directory listing and `keys()` of the composite are the re-prefixed union of the parts, mount
  points and their parents being directories (and listed); `keys()` lists every key exactly once.
* `mount_write_exclusive`: store / store_metadata / remove / makedir change exactly the owning part, as
  the operation on the stripped key does; every other part and the default store are unchanged.
* `to_root_key_reaches_partial`: `sub.to_root_key(k)` read through the root reaches entry `k` of `sub`
  provided no inner mount shadows it; the unrestricted statement is false (witness below).
* `mount_keys_complete` / `mount_keys_exact` (fix D7f, the former finding "parents of mount points are contained
  but not listed" is repaired): `keys()` appends the parents of mount points that no store listed, so every
  non-root key the composite contains is listed — and nothing else, each once (`mount_keys_once` for tree-shaped parts).
* nesting (`nestedOps`, LiquerModel/StoreMountNested.lean): mount-point stores mounted in a mount-point store, asked by their REAL
  `is_supported` (`Mt.supports`, repair a6dff51). `supports_dirs`: root, mount points and their parents are supported with or
  without a default store; `nested_dir_lifts` / `nested_at_mount_point` / `nested_depth3`: the outer composite has the inner
  mount points and their parents as directories, contains them and lists them, through any number of levels;
  `nested_old_loses_mount_point`: the code before the repair lost them.  `nested_exclusive_partial`: a key below an outer mount
  is served by the composite mounted there IF that composite supports it — the unrestricted statement is false (witness `fRoot`).
-/
import LiquerProofs.Lemmas.StoreMount
import LiquerProofs.Lemmas.StoreSpec
import LiquerProofs.Lemmas.StoreMountNested
import LiquerModel.StoreMem

namespace Liquer.C14
open Liquer Liquer.SV Liquer.MtL

variable {σ : Type}

/-! ### routing -/

/-- **`route_to` picks the last mounted matching store** — every table, every `is_supported`. -/
theorem route_exclusive (supp : σ → Key → Bool) (tbl : List (Key × σ)) (k : Key) (i : Nat) :
    Mt.routeIdx supp tbl k = some i ↔
      ∃ p st, tbl[i]? = some (p, st) ∧ Mt.hit supp p st k = true ∧
        ∀ j q st', i < j → tbl[j]? = some (q, st') → Mt.hit supp q st' k = false :=
  routeIdx_some supp tbl k i

/-- **every other key goes to the default store** (or raises `KeyRouteNotFound` without one) -/
theorem route_exclusive_default (supp : σ → Key → Bool) (s : MtState σ) (k : Key) :
    (∀ p st, (p, st) ∈ s.2 → Mt.hit supp p st k = false) ↔
      Mt.route supp s k = (if s.1.isSome then .ok .dflt else .error .routeNotFound) := by
  rw [← routeIdx_none]
  unfold Mt.route
  constructor
  · intro h; rw [h]
  · intro h
    cases hr : Mt.routeIdx supp s.2 k with
    | none => rfl
    | some i =>
      rw [hr] at h
      by_cases hs : s.1.isSome = true <;> simp [hs] at h

/-- for `MemoryStore` / `FileStore` parts an entry matches iff its prefix is at or above the key -/
theorem hit_iff_prefix (p : Key) (st : σ) (k : Key) : Mt.hit T p st k = true ↔ p <+: k := hit_T p st k

/-- under `tableWF`, the routed entry is the innermost mount on the path to the key -/
theorem route_innermost (tbl : List (Key × σ)) (hwf : tableWF (tbl.map (·.1)) = true) (k : Key) (i : Nat) :
    Mt.routeIdx T tbl k = some i ↔ Owns tbl i k :=
  route_some_iff tbl hwf k i

/-- **addressed by the key with the prefix stripped** (all five write operations and the point reads) -/
theorem prefix_strips (P : StoreOps σ) (p : Key) (st : σ) (op : StoreOp) (h : p <+: opKey op) :
    (prefixOps P p).apply st op = P.apply st (stripOp p op) :=
  prefix_apply' P op h st

theorem prefix_strips_reads (P : StoreOps σ) (p k : Key) (st : σ) (h : p <+: k) :
    (prefixOps P p).getBytes st k = P.getBytes st (k.drop p.length) ∧
    (prefixOps P p).listdir st k = P.listdir st (k.drop p.length) ∧
    (prefixOps P p).getMeta st k = (P.getMeta st (k.drop p.length)).map (fun m => { m with key := k, name := keyName k }) ∧
    (k ≠ p → (prefixOps P p).contains st k = P.contains st (k.drop p.length) ∧
             (prefixOps P p).isDir st k = P.isDir st (k.drop p.length)) :=
  ⟨prefix_getBytes P h st, prefix_listdir P h st, prefix_getMeta P h st,
   fun hne => ⟨prefix_contains P h hne st, prefix_isDir P h hne st⟩⟩

/-! ### the union view -/

variable (P : StoreOps σ)

/-- mount points and their parents are directories of the composite -/
theorem mount_union_above (s : MtState σ) (k : Key) (h : Above s.2 k) :
    (M P).isDir s k = .ok true ∧ (M P).contains s k = .ok true :=
  ⟨mount_isDir_above P s k h, mount_contains_above P s k h⟩

/-- a key whose innermost mount is entry `i` reads as the stripped key in that store -/
theorem mount_union_part (s : MtState σ) (hwf : tableWF (s.2.map (·.1)) = true) (k : Key)
    (i : Nat) (p : Key) (st : σ) (hi : s.2[i]? = some (p, st)) (ho : Owns s.2 i k) :
    (M P).getBytes s k = P.getBytes st (k.drop p.length) ∧
    (¬ Above s.2 k → (M P).isDir s k = P.isDir st (k.drop p.length)) ∧
    (¬ Above s.2 k → (M P).contains s k = match P.isDir st (k.drop p.length) with
      | .error e => .error e
      | .ok true => .ok true
      | .ok false => P.contains st (k.drop p.length)) :=
  ⟨mount_getBytes_part P s hwf k i p st hi ho,
   fun h => mount_isDir_part P s hwf k h i p st hi ho,
   fun h => mount_contains_part P s hwf k h i p st hi ho⟩

/-- a key with no mount on its path reads as in the default store (absent without one) -/
theorem mount_union_default (s : MtState σ) (k : Key) (hn : NoMount s.2 k) :
    (M P).getBytes s k = (match s.1 with | some d => P.getBytes d k | none => .error .routeNotFound) ∧
    (¬ Above s.2 k → (M P).isDir s k = match s.1 with | some d => P.isDir d k | none => .ok false) ∧
    (¬ Above s.2 k → (M P).contains s k = match s.1 with
      | none => .ok false
      | some d => match P.isDir d k with
        | .error e => .error e
        | .ok true => .ok true
        | .ok false => P.contains d k) :=
  ⟨mount_getBytes_default P s k hn, fun h => mount_isDir_default P s k h hn, fun h => mount_contains_default P s k h hn⟩

/-- the reported metadata key is the key asked for (every table, every `is_supported`) -/
theorem mount_union_meta_key (supp : σ → Key → Bool) (s : MtState σ) (k : Key) (m : MetaObs)
    (h : (mountOps P supp).getMeta s k = .ok m) : m.key = k :=
  mount_meta_key P supp s k m h

/-- directory listing = the owner's listing of the stripped key ∪ the mount points directly below, no repetition -/
theorem mount_union_listdir_part (s : MtState σ) (hwf : tableWF (s.2.map (·.1)) = true) (k : Key)
    (i : Nat) (p : Key) (st : σ) (hi : s.2[i]? = some (p, st)) (ho : Owns s.2 i k) (o : Option (List Str))
    (hl : P.listdir st (k.drop p.length) = .ok o) :
    ∃ l, (M P).listdir s k = .ok (some l) ∧ l.Nodup ∧
      ∀ nm, nm ∈ l ↔ nm ∈ o.getD [] ∨ ∃ q st', (q, st') ∈ s.2 ∧ (k ++ [nm]) <+: q :=
  mount_listdir_part P s hwf k i p st hi ho o hl

theorem mount_union_listdir_default (s : MtState σ) (hwf : tableWF (s.2.map (·.1)) = true) (k : Key)
    (hn : NoMount s.2 k) (d : σ) (hd : s.1 = some d) (o : Option (List Str)) (hl : P.listdir d k = .ok o) :
    ∃ l, (M P).listdir s k = .ok (some l) ∧ l.Nodup ∧
      ∀ nm, nm ∈ l ↔ nm ∈ o.getD [] ∨ ∃ q st', (q, st') ∈ s.2 ∧ (k ++ [nm]) <+: q :=
  mount_listdir_default P s hwf k hn d hd o hl

theorem mount_union_listdir_noroute (s : MtState σ) (hwf : tableWF (s.2.map (·.1)) = true) (k : Key)
    (hn : NoMount s.2 k) (hd : s.1 = none) :
    ∃ l, (M P).listdir s k = .ok (some l) ∧ l.Nodup ∧
      ∀ nm, nm ∈ l ↔ ∃ q st', (q, st') ∈ s.2 ∧ (k ++ [nm]) <+: q :=
  mount_listdir_noroute P s hwf k hn hd

/-- **`keys()`**: exactly the mount points and their parents, the re-prefixed keys of every mounted store that the
store owns (innermost mount on the path), and the default store's keys with no mount on the path — each once. -/
theorem mount_union_keys (K : σ → List Key) (hK : ∀ st, P.keys st = .ok (K st)) (s : MtState σ)
    (hwf : tableWF (s.2.map (·.1)) = true) :
    ∃ ks, (M P).keys s = .ok ks ∧
      (∀ x, x ∈ ks ↔
        ((x ≠ [] ∧ ∃ p st, (p, st) ∈ s.2 ∧ x <+: p) ∨
         (∃ i p st kk, s.2[i]? = some (p, st) ∧ kk ∈ K st ∧ kk ≠ [] ∧ x = p ++ kk ∧ Owns s.2 i x) ∨
         (∃ d, s.1 = some d ∧ x ∈ K d ∧ NoMount s.2 x))) ∧
      ((∀ e, e ∈ s.2 → (K e.2).Nodup) → (∀ d, s.1 = some d → (K d).Nodup) → ks.Nodup) := by
  obtain ⟨ks, h1, h2⟩ := mount_keys_mem P K hK s hwf
  exact ⟨ks, h1, h2, fun a b => mount_keys_nodup P K hK s a b hwf ks h1⟩

/-! ### writes -/

/-- **a write below a mount point changes exactly the store mounted there, by the stripped operation** -/
theorem mount_write_exclusive (s : MtState σ) (hwf : tableWF (s.2.map (·.1)) = true) (op : StoreOp)
    (hop : isRemovedir op = false) (i : Nat) (p : Key) (st : σ) (hi : s.2[i]? = some (p, st))
    (ho : Owns s.2 i (opKey op)) :
    (M P).apply s op = (P.apply st (stripOp p op)).map (fun st' => (s.1, s.2.set i (p, st'))) :=
  mount_write_part P s hwf op hop i p st hi ho

/-- … so the default store and every other mounted store keep their state, and the prefixes stay -/
theorem mount_write_frame (s s' : MtState σ) (hwf : tableWF (s.2.map (·.1)) = true) (op : StoreOp)
    (hop : isRemovedir op = false) (i : Nat) (p : Key) (st : σ) (hi : s.2[i]? = some (p, st))
    (ho : Owns s.2 i (opKey op)) (h : (M P).apply s op = .ok s') :
    s'.1 = s.1 ∧ (∀ j, j ≠ i → s'.2[j]? = s.2[j]?) ∧ s'.2.map (·.1) = s.2.map (·.1) ∧
      ∃ st', P.apply st (stripOp p op) = .ok st' ∧ s'.2[i]? = some (p, st') := by
  rw [mount_write_part P s hwf op hop i p st hi ho] at h
  cases hp : P.apply st (stripOp p op) with
  | error e => rw [hp] at h; cases h
  | ok st' =>
    rw [hp] at h
    cases h
    have hlt : i < s.2.length := by
      rcases Nat.lt_or_ge i s.2.length with h | h
      · exact h
      · rw [List.getElem?_eq_none h] at hi; cases hi
    have hge : s.2[i] = (p, st) := by
      rw [List.getElem?_eq_getElem hlt] at hi
      exact Option.some.inj hi
    refine ⟨rfl, ?_, ?_, st', rfl, ?_⟩
    · intro j hj
      simp [Ne.symm hj]
    · apply List.ext_getElem?
      intro j
      simp only [List.getElem?_map, List.getElem?_set]
      by_cases hj : i = j
      · subst hj; simp [hlt, hge]
      · simp [hj]
    · simp [hlt]

/-- a write with no mount on the path goes to the default store only -/
theorem mount_write_default_only (s : MtState σ) (op : StoreOp) (hop : isRemovedir op = false)
    (hn : NoMount s.2 (opKey op)) :
    (M P).apply s op = match s.1 with
      | some d => (P.apply d op).map (fun d' => (some d', s.2))
      | none => .error .routeNotFound :=
  mount_write_default P s op hop hn

/-- a non-recursive `removedir` of a mount point is refused -/
theorem mount_removedir_refuses (s : MtState σ) (k : Key) (hk : k ≠ []) (hm : ∃ st, (k, st) ∈ s.2) :
    (M P).removedir s k false = .error .other := by
  show Mt.removedir P T s k false = _
  unfold Mt.removedir Mt.removedirFull
  have hke : k.isEmpty = false := by simpa using hk
  have hany : s.2.any (fun e => e.1 == k) = true := by
    obtain ⟨st, h⟩ := hm
    exact List.any_eq_true.mpr ⟨(k, st), h, by simp⟩
  simp [Mt.removedirX, hke, hany]

/-! ### to_root_key -/

/-- the full statement: the root key of *every* key of a mounted store reads the same through the root -/
def to_root_key_reaches_statement : Prop :=
  ∀ (s : MtState FS) (i : Nat) (p : Key) (st : FS) (kk : Key), tableWF (s.2.map (·.1)) = true →
    s.2[i]? = some (p, st) →
    (M specOps).getBytes s (Mt.toRootKey s.2 (some i) kk) = specOps.getBytes st kk

/-- **`to_root_key` reaches the same entry** unless an inner mount shadows the root key -/
theorem to_root_key_reaches_partial (s : MtState σ) (hwf : tableWF (s.2.map (·.1)) = true)
    (i : Nat) (p : Key) (st : σ) (kk : Key) (hi : s.2[i]? = some (p, st))
    (hns : Owns s.2 i (Mt.toRootKey s.2 (some i) kk)) :
    Mt.toRootKey s.2 (some i) kk = p ++ kk ∧
    (M P).getBytes s (Mt.toRootKey s.2 (some i) kk) = P.getBytes st kk ∧
    (∀ m, (M P).getMeta s (Mt.toRootKey s.2 (some i) kk) = .ok m → m.key = p ++ kk) := by
  have hr : Mt.toRootKey s.2 (some i) kk = p ++ kk := by simp [Mt.toRootKey, hi, Pfx.inverse]
  refine ⟨hr, ?_, ?_⟩
  · rw [mount_getBytes_part P s hwf _ i p st hi hns, hr]
    simp
  · intro m hm
    rw [← hr]
    exact mount_meta_key P T s _ m hm

/-- the default store's keys are root keys already -/
theorem to_root_key_default (tbl : List (Key × σ)) (k : Key) : Mt.toRootKey tbl none k = k := rfl

/-! ### `keys()` is complete: every non-root key the composite contains is listed (fix D7f) -/

/-- the full statement (false before D7f: the parents of mount points were contained but not listed) -/
def mount_keys_complete_statement : Prop :=
  ∀ (s : MtState FS) (x : Key) (ks : List Key), tableWF (s.2.map (·.1)) = true → x ≠ [] →
    (M specOps).contains s x = .ok true → (M specOps).keys s = .ok ks → x ∈ ks

/-- every key is either owned by a mounted store or has no mount on its path -/
theorem owns_or_nomount (tbl : List (Key × σ)) (hwf : tableWF (tbl.map (·.1)) = true) (k : Key) :
    (∃ i, Owns tbl i k) ∨ NoMount tbl k := by
  cases h : Mt.routeIdx T tbl k with
  | none => exact Or.inr ((route_none_iff tbl k).mp h)
  | some i => exact Or.inl ⟨i, (route_innermost tbl hwf k i).mp h⟩

/-- every mount point and every parent of a mount point is listed -/
theorem mount_keys_complete_partial (K : σ → List Key) (hK : ∀ st, P.keys st = .ok (K st)) (s : MtState σ)
    (hwf : tableWF (s.2.map (·.1)) = true) (x p : Key) (st : σ) (hm : (p, st) ∈ s.2) (hx : x ≠ []) (hp : x <+: p)
    (ks : List Key) (h : (M P).keys s = .ok ks) : x ∈ ks := by
  obtain ⟨ks', h1, h2, _⟩ := mount_union_keys P K hK s hwf
  rw [h1] at h
  cases h
  exact (h2 x).mpr (Or.inl ⟨hx, p, st, hm, hp⟩)

/-- **completeness of `keys()`**, any part model whose own listing covers what it contains: every non-root key
the composite contains is listed -/
theorem mount_keys_complete_gen (K : σ → List Key) (hK : ∀ st, P.keys st = .ok (K st))
    (hC : ∀ st k, k ≠ [] → (P.isDir st k = .ok true ∨ P.contains st k = .ok true) → k ∈ K st)
    (s : MtState σ) (hwf : tableWF (s.2.map (·.1)) = true) (x : Key) (hx : x ≠ [])
    (hc : (M P).contains s x = .ok true) (ks : List Key) (h : (M P).keys s = .ok ks) : x ∈ ks := by
  obtain ⟨ks', h1, h2, _⟩ := mount_union_keys P K hK s hwf
  rw [h1] at h
  cases h
  rw [h2]
  by_cases ha : Above s.2 x
  · rcases ha with e | ⟨p, st, hm, hp⟩
    · exact absurd e hx
    · exact Or.inl ⟨hx, p, st, hm, hp⟩
  · have key : ∀ (st : σ) (k : Key), k ≠ [] → (match P.isDir st k with
        | .error e => .error e
        | .ok true => .ok true
        | .ok false => P.contains st k : Except StoreErr Bool) = .ok true → k ∈ K st := by
      intro st k hk hmatch
      apply hC st k hk
      split at hmatch
      · cases hmatch
      · rename_i hd; exact Or.inl hd
      · exact Or.inr hmatch
    rcases owns_or_nomount s.2 hwf x with ⟨i, ho⟩ | hn
    · obtain ⟨p, st, hi, hpx, _⟩ := id ho
      rw [mount_contains_part P s hwf x ha i p st hi ho] at hc
      have hne : x.drop p.length ≠ [] := by
        intro e
        obtain ⟨t, rfl⟩ := hpx
        simp at e
        subst e
        exact not_above_ne ha hi (by simp)
      refine Or.inr (Or.inl ⟨i, p, st, x.drop p.length, hi, key st _ hne hc, hne, ?_, ho⟩)
      exact (inverse_drop hpx).symm
    · rw [mount_contains_default P s x ha hn] at hc
      cases hd : s.1 with
      | none => rw [hd] at hc; cases hc
      | some d =>
        rw [hd] at hc
        exact Or.inr (Or.inr ⟨d, rfl, key d x hx hc, hn⟩)

theorem spec_keys (fs : FS) : specOps.keys fs = .ok (fs.map (·.1)) := rfl

/-- the reference store lists what it contains (files and directories) -/
theorem spec_contains_listed (fs : FS) (k : Key) (hk : k ≠ [])
    (h : specOps.isDir fs k = .ok true ∨ specOps.contains fs k = .ok true) : k ∈ fs.map (·.1) := by
  rw [FS.mem_keys_iff]
  have hke : k.isEmpty = false := by simpa using hk
  rcases h with h | h
  · have : fs.isDirB k = true := by injection h
    simp only [FS.isDirB, hke, Bool.false_or, beq_iff_eq] at this
    rw [this]; rfl
  · have : fs.containsB k = true := by injection h
    simpa only [FS.containsB, hke, Bool.false_or] using this

/-- … and conversely contains what it lists -/
theorem spec_listed_contains (fs : FS) (k : Key) (h : k ∈ fs.map (·.1)) :
    (match specOps.isDir fs k with
      | .error e => .error e
      | .ok true => .ok true
      | .ok false => specOps.contains fs k : Except StoreErr Bool) = .ok true := by
  rw [FS.mem_keys_iff] at h
  show (match (Except.ok (fs.isDirB k) : Except StoreErr Bool) with
      | .error e => .error e
      | .ok true => .ok true
      | .ok false => (Except.ok (fs.containsB k) : Except StoreErr Bool) : Except StoreErr Bool) = .ok true
  cases hd : fs.isDirB k with
  | true => rfl
  | false => simp [FS.containsB, h]

/-- **`keys()` is complete** (the statement that was false before fix D7f) -/
theorem mount_keys_complete : mount_keys_complete_statement := by
  intro s x ks hwf hx hc h
  exact mount_keys_complete_gen specOps (fun fs => fs.map (·.1)) spec_keys spec_contains_listed s hwf x hx hc ks h

/-- **`keys()` is exact**: a non-root key is listed iff the composite contains it -/
theorem mount_keys_exact (s : MtState FS) (hwf : tableWF (s.2.map (·.1)) = true) (ks : List Key)
    (h : (M specOps).keys s = .ok ks) (x : Key) (hx : x ≠ []) :
    x ∈ ks ↔ (M specOps).contains s x = .ok true := by
  refine ⟨?_, fun hc => mount_keys_complete s x ks hwf hx hc h⟩
  intro hm
  by_cases ha : Above s.2 x
  · exact mount_contains_above specOps s x ha
  · obtain ⟨ks', h1, h2, _⟩ := mount_union_keys specOps (fun fs => fs.map (·.1)) spec_keys s hwf
    rw [h1] at h
    cases h
    rcases (h2 x).mp hm with ⟨_, p, st, hp, hpx⟩ | ⟨i, p, st, kk, hi, hkk, _, rfl, ho⟩ | ⟨d, hd, hxd, hn⟩
    · exact absurd (Or.inr ⟨p, st, hp, hpx⟩) ha
    · rw [mount_contains_part specOps s hwf _ ha i p st hi ho]
      have hdrop : (p ++ kk).drop p.length = kk := by simp
      rw [hdrop]
      exact spec_listed_contains st kk hkk
    · rw [mount_contains_default specOps s x ha hn, hd]
      exact spec_listed_contains d x hxd

/-- **every contained key exactly once**: with tree-shaped parts, `keys()` succeeds, has no repetition and lists
exactly the non-root keys the composite contains -/
theorem mount_keys_once (s : MtState FS) (hwf : tableWF (s.2.map (·.1)) = true)
    (hparts : ∀ e, e ∈ s.2 → e.2.tree = true) (hdflt : ∀ d, s.1 = some d → d.tree = true) :
    ∃ ks, (M specOps).keys s = .ok ks ∧ ks.Nodup ∧ [] ∉ ks ∧
      ∀ x, x ≠ [] → (x ∈ ks ↔ (M specOps).contains s x = .ok true) := by
  obtain ⟨ks, h1, h2, h3⟩ := mount_union_keys specOps (fun fs => fs.map (·.1)) spec_keys s hwf
  refine ⟨ks, h1, h3 (fun e he => ((FS.tree_iff e.2).mp (hparts e he)).nodup)
    (fun d hd => ((FS.tree_iff d).mp (hdflt d hd)).nodup), ?_, fun x hx => mount_keys_exact s hwf ks h1 x hx⟩
  intro hnil
  rcases (h2 []).mp hnil with ⟨hne, _⟩ | ⟨i, p, st, kk, hi, _, hkk, e, _⟩ | ⟨d, hd, hxd, _⟩
  · exact hne rfl
  · have := congrArg List.length e
    simp at this
    exact hkk (List.eq_nil_of_length_eq_zero (by omega))
  · exact ((FS.tree_iff d).mp (hdflt d hd)).nonroot [] ((FS.mem_keys_iff d []).mp hxd) rfl

/-! ### witnesses, non-vacuity -/

def ka : Key := [['a']]
def kab : Key := [['a'], ['b']]
def um (c : Char) : UMeta := { user := [c] }
/-- part mounted at `a` holds `b/y` and `x`; part mounted at `a/b` holds `y`; default holds `a/hidden`, `z` -/
def partA : FS := specOps.run [] [.store [['b'], ['y']] [1] (um 'p'), .store [['x']] [2] (um 'q')]
def partAB : FS := specOps.run [] [.store [['y']] [3] (um 'r')]
def dflt : FS := specOps.run [] [.store [['a'], ['h']] [4] (um 's'), .store [['z']] [5] (um 't')]
def s1 : MtState FS := (some dflt, [(ka, partA), (kab, partAB)])
def s2 : MtState FS := (none, [(kab, partAB)])

example : tableWF (s1.2.map (·.1)) = true := by decide
example : tableWF (s2.2.map (·.1)) = true := by decide
-- an inner prefix mounted before the outer one is not well-formed
example : tableWF [kab, ka] = false := by decide
example : Owns s1.2 1 [['a'], ['b'], ['y']] := (route_innermost s1.2 (by decide) _ 1).mp (by decide)
example : Owns s1.2 0 [['a'], ['x']] := (route_innermost s1.2 (by decide) _ 0).mp (by decide)
example : NoMount s1.2 [['z']] := (route_none_iff s1.2 _).mp (by decide)
example : Above s1.2 ka := Or.inr ⟨kab, partAB, by simp [s1], by decide⟩
-- D7 (on the model of the fixed code): no duplicate, no leaked default entry, contains without a route
example : (M specOps).keys s1 = .ok [kab, [['a'], ['b'], ['y']], ka, [['a'], ['x']], [['z']]] := by decide
example : (M specOps).listdir s1 ka = .ok (some [['b'], ['x']]) := by decide
example : (M specOps).contains s1 [['a'], ['h']] = .ok false := by decide
example : (M specOps).contains s2 [['z'], ['z']] = .ok false := by decide
example : ((M specOps).getMeta s1 ka).toOption.map (·.name) = some ['a'] := by decide
-- routing is exclusive: the outer store's own `b/y` is shadowed by the inner mount
example : (M specOps).getBytes s1 [['a'], ['b'], ['y']] = .ok [3] := by decide
example : isRemovedir (.store [['a'], ['b'], ['n']] [9] (um 'u')) = false := rfl
example : (M specOps).removedir s1 kab false = .error .other :=
  mount_removedir_refuses specOps s1 kab (by decide) ⟨partAB, by simp [s1]⟩

/-- the unrestricted `to_root_key` statement is false: `b/y` of the store mounted at `a` has root key `a/b/y`,
which the store mounted at `a/b` serves -/
example : ¬ to_root_key_reaches_statement := by
  intro h
  have := h s1 0 ka partA [['b'], ['y']] (by decide) (by decide)
  revert this
  decide

/-- the parent of a mount point is contained and (since fix D7f) listed: mount `a/b`, no default store -/
example : (M specOps).contains s2 ka = .ok true := by decide
example : (M specOps).keys s2 = .ok [kab, [['a'], ['b'], ['y']], ka] := by decide
example : ka ∈ [kab, [['a'], ['b'], ['y']], ka] :=
  mount_keys_complete s2 ka _ (by decide) (by decide) (by decide) (by decide)
-- `mount_keys_once` applies to the witnesses: the parts are trees
example : (∀ e, e ∈ s1.2 → e.2.tree = true) ∧ (∀ d, s1.1 = some d → d.tree = true) := by decide

/-! ### to_root_key through nested mount-point stores -/

/-- the root key of `k` behind the layers `ps` (innermost first) is `k` prefixed by every layer, outermost first -/
theorem to_root_key_chain (ps : List Key) (k : Key) :
    Mt.toRootKeyChain ps k = ps.reverse.flatten ++ k := by
  unfold Mt.toRootKeyChain
  induction ps generalizing k with
  | nil => simp
  | cons p ps ih => simp [List.foldl_cons, ih, Pfx.inverse, List.append_assoc]

/-- … and reading that root key through the layers (outermost first) reaches entry `k` of the innermost store:
`sub.to_root_key(k)` accessed through the root store is `k` of `sub`, for ANY depth of nesting -/
theorem to_root_key_nested_reaches (P : StoreOps σ) (ps : List Key) (st : σ) (k : Key) :
    (prefixChain P ps).getBytes st (Mt.toRootKeyChain ps.reverse k) = P.getBytes st k := by
  rw [to_root_key_chain, List.reverse_reverse]
  induction ps with
  | nil => simp [prefixChain]
  | cons p ps ih =>
    have h : p <+: (p :: ps).flatten ++ k := by simp [List.flatten_cons, List.append_assoc]
    rw [prefixChain, prefix_getBytes _ h st]
    simpa [List.flatten_cons, List.append_assoc] using ih

-- non-vacuity: `gui` mounted inside `web`: `index.html` of the innermost store is `web/gui/index.html` of the root
example : Mt.toRootKeyChain [["gui".toList], ["web".toList]] [["index.html".toList]].head! =
    [["web".toList], ["gui".toList], ["index.html".toList]].flatten := by decide

/-! ### nested mount-point stores with the real `is_supported` (repair a6dff51 of `/repo`)

`nestedOps P supp = mountOps (mountOps P supp) (Mt.supports P supp)`: the parts of the outer composite are mount-point
stores themselves and are asked by their real `is_supported` (`Mt.supports`), not by the idealised `T`. -/

section nested
open Liquer.MtN
variable (supp : σ → Key → Bool)

/-- **the directories of a mount-point store are supported**: the root, every mount point and every parent of a mount
point, with or without a default store (before a6dff51 `is_supported` RAISED there without a default store) -/
theorem supports_dirs (s : MtState σ) (k : Key) (h : Above s.2 k) : Mt.supports P supp s k = true :=
  supports_above P supp s k h

/-- … and more generally whatever the composite calls a directory -/
theorem supports_isDir (s : MtState σ) (k : Key) (h : (mountOps P supp).isDir s k = .ok true) :
    Mt.supports P supp s k = true :=
  supports_of_isDir P supp s k h

/-- **one level of nesting lifts directories**: what the inner composite mounted at `p` calls a directory at `q` is a
directory (and contained) at `p ++ q` of the outer composite, provided `p` is the innermost OUTER mount on the path.
Applies again at every further level (`P := mountOps P supp`, `supp := Mt.supports P supp`). -/
theorem nested_dir_lifts (o : MtState (MtState σ)) (hwf : tableWF (o.2.map (·.1)) = true)
    (i : Nat) (p : Key) (m : MtState σ) (hi : o.2[i]? = some (p, m)) (q : Key) (ho : Owns o.2 i (p ++ q))
    (hd : (mountOps P supp).isDir m q = .ok true) :
    (nestedOps P supp).isDir o (p ++ q) = .ok true ∧ (nestedOps P supp).contains o (p ++ q) = .ok true :=
  ⟨nested_isDir_lift hwf hi ho hd, nested_contains_lift hwf hi ho hd⟩

/-- **at the mount points of a mounted mount-point store**: `q` the root, a mount point or a parent of a mount point of the
composite `m` mounted at `p` — the outer composite has the directory `p ++ q`, contains it, lists under it the next
component of every mount point of `m` below `q`, and its listing is the inner listing united with the outer mount points -/
theorem nested_at_mount_point (o : MtState (MtState σ)) (hwf : tableWF (o.2.map (·.1)) = true)
    (i : Nat) (p : Key) (m : MtState σ) (hi : o.2[i]? = some (p, m)) (q : Key) (ho : Owns o.2 i (p ++ q))
    (hq : Above m.2 q) :
    (nestedOps P supp).isDir o (p ++ q) = .ok true ∧
    (nestedOps P supp).contains o (p ++ q) = .ok true ∧
    (∀ c rest st, (q ++ [c] ++ rest, st) ∈ m.2 →
      ∀ r, (nestedOps P supp).listdir o (p ++ q) = .ok r → ∃ l, r = some l ∧ c ∈ l) ∧
    (∀ ol, (mountOps P supp).listdir m q = .ok ol →
      ∃ l, (nestedOps P supp).listdir o (p ++ q) = .ok (some l) ∧ l.Nodup ∧
        ∀ nm, nm ∈ l ↔ nm ∈ ol.getD [] ∨ ∃ q' m', (q', m') ∈ o.2 ∧ (p ++ q ++ [nm]) <+: q') := by
  have hd := isDir_above P supp m q hq
  have hs : q = [] ∨ Mt.supports P supp m q = true := Or.inr (supports_above P supp m q hq)
  refine ⟨nested_isDir_lift hwf hi ho hd, nested_contains_lift hwf hi ho hd, ?_, ?_⟩
  · intro c rest st hm r hr
    obtain ⟨ol, l, hl, rfl, hsub⟩ := nested_listdir_sub hwf hi ho hs r hr
    obtain ⟨l0, rfl, hc⟩ := listdir_mount_child P supp m q c rest st hm ol hl
    exact ⟨l, rfl, hsub c hc⟩
  · intro ol hl
    exact nested_listdir_union hwf hi ho hs ol hl

/-- the three-level composite: parts of the root are two-level composites -/
abbrev nestedOps3 : StoreOps (MtState (MtState (MtState σ))) :=
  nestedOps (mountOps P supp) (Mt.supports P supp)

/-- **the shape of the defect, three levels, every leaf store / part model / `is_supported`**:
root —`w`→ `M1` —`x`→ `M2` (NO default store) —`g`→ leaf.  `w ++ x` (where `M2` is mounted) and `w ++ x ++ g` (where the leaf is
mounted) are directories of the root and contained, `w ++ x` lists the first component of `g` -/
theorem nested_depth3 (w x g : Key) (hw : w ≠ []) (hx : x ≠ [])
    (d0 : Option (MtState (MtState σ))) (d1 : Option (MtState σ)) (leaf : σ) :
    let M2 : MtState σ := (none, [(g, leaf)])
    let M1 : MtState (MtState σ) := (d1, [(x, M2)])
    let root : MtState (MtState (MtState σ)) := (d0, [(w, M1)])
    (nestedOps3 P supp).isDir root (w ++ x) = .ok true ∧
    (nestedOps3 P supp).contains root (w ++ x) = .ok true ∧
    (nestedOps3 P supp).isDir root (w ++ (x ++ g)) = .ok true ∧
    (nestedOps3 P supp).contains root (w ++ (x ++ g)) = .ok true ∧
    (∀ c rest, g = c :: rest → ∀ r, (nestedOps3 P supp).listdir root (w ++ x) = .ok r → ∃ l, r = some l ∧ c ∈ l) := by
  intro M2 M1 root
  have wf1 : ∀ (τ : Type) (k : Key) (e : τ), k ≠ [] → tableWF (([(k, e)] : List (Key × τ)).map (·.1)) = true := by
    intro τ k e hk
    simp [tableWF, hk]
  have own1 : ∀ (τ : Type) (k t : Key) (e : τ), Owns ([(k, e)] : List (Key × τ)) 0 (k ++ t) := by
    intro τ k t e
    refine ⟨k, e, rfl, ⟨t, rfl⟩, ?_⟩
    intro j q st' hj _
    cases j with
    | zero => simp at hj; rw [hj.1]; exact Nat.le_refl _
    | succ j => simp at hj
  have hrootwf : tableWF (root.2.map (·.1)) = true := wf1 _ w M1 hw
  have hM1wf : tableWF (M1.2.map (·.1)) = true := wf1 _ x M2 hx
  have aboveX : Above M1.2 x := Or.inr ⟨x, M2, by simp [M1], List.prefix_refl _⟩
  have aboveG : Above M2.2 g := Or.inr ⟨g, leaf, by simp [M2], List.prefix_refl _⟩
  have aboveNil : Above M2.2 [] := Or.inl rfl
  -- level 2: `M1` at `x ++ g`
  have h1 := nested_dir_lifts P supp M1 hM1wf 0 x M2 rfl g (own1 _ x g M2) (isDir_above P supp M2 g aboveG)
  -- level 3: the root at `w ++ x` and at `w ++ (x ++ g)`
  have h2 := nested_at_mount_point (mountOps P supp) (Mt.supports P supp) root hrootwf 0 w M1 rfl x (own1 _ w x M1) aboveX
  have h3 := nested_dir_lifts (mountOps P supp) (Mt.supports P supp) root hrootwf 0 w M1 rfl (x ++ g) (own1 _ w (x ++ g) M1) h1.1
  refine ⟨h2.1, h2.2.1, h3.1, h3.2, ?_⟩
  intro c rest hg r hr
  have hsX : x = [] ∨ Mt.supports (mountOps P supp) (Mt.supports P supp) M1 x = true :=
    Or.inr (supports_above _ _ M1 x aboveX)
  obtain ⟨ol, l, hl, rfl, hsub⟩ :=
    nested_listdir_sub (P := mountOps P supp) (supp := Mt.supports P supp) hrootwf (i := 0) rfl (own1 _ w x M1) hsX r hr
  -- `M1` at `x = x ++ []` lists what `M2` lists at its root
  have hl' : (nestedOps P supp).listdir M1 (x ++ []) = .ok ol := by
    rw [List.append_nil]
    exact hl
  obtain ⟨ol2, l2, hl2, rfl, hsub2⟩ :=
    nested_listdir_sub (P := P) (supp := supp) hM1wf (i := 0) rfl (own1 _ x [] M2) (Or.inl rfl) ol hl'
  obtain ⟨l3, rfl, hc⟩ := listdir_mount_child P supp M2 [] c rest leaf (by simp [M2, hg]) ol2 hl2
  exact ⟨l, rfl, hsub c (hsub2 c hc)⟩

/-! #### witnesses on `MemoryStore` leaves: root —`web`→ `nM1` —`x/y/z`→ `nM2` (no default) —`gui`→ leaf holding `f` -/

def kweb : Key := [['w', 'e', 'b']]
def kxyz : Key := [['x'], ['y'], ['z']]
def kgui : Key := [['g', 'u', 'i']]
def kf : Key := [['f']]
def nLeaf : MemState := Mem.store memInit kf [7] (um 'l')
def nDflt : MemState := Mem.store memInit [['z']] [5] (um 't')
def nM2 : MtState MemState := (none, [(kgui, nLeaf)])
def nM1 : MtState (MtState MemState) := (none, [(kxyz, nM2)])
def nRoot : MtState (MtState (MtState MemState)) := (some (Mt.leaf (Mt.leaf nDflt)), [(kweb, nM1)])
abbrev R3 := nestedOps3 memOps (T (σ := MemState))

example : R3.isDir nRoot kweb = .ok true := by decide
example : R3.isDir nRoot (kweb ++ [['x']]) = .ok true := by decide
example : R3.isDir nRoot (kweb ++ kxyz) = .ok true := by decide
example : R3.isDir nRoot (kweb ++ kxyz ++ kgui) = .ok true := by decide
example : R3.contains nRoot kweb = .ok true := by decide
example : R3.contains nRoot (kweb ++ [['x']]) = .ok true := by decide
example : R3.contains nRoot (kweb ++ kxyz) = .ok true := by decide
example : R3.listdir nRoot kweb = .ok (some [['x']]) := by decide
example : R3.listdir nRoot (kweb ++ [['x']]) = .ok (some [['y']]) := by decide
example : R3.listdir nRoot (kweb ++ kxyz) = .ok (some [['g', 'u', 'i']]) := by decide
example : R3.listdir nRoot (kweb ++ kxyz ++ kgui) = .ok (some [['f']]) := by decide
example : R3.listdir nRoot [] = .ok (some [['w', 'e', 'b'], ['z']]) := by decide
-- a leaf key read through all three levels
example : R3.getBytes nRoot (kweb ++ kxyz ++ kgui ++ kf) = .ok [7] := by decide
example : R3.contains nRoot (kweb ++ kxyz ++ kgui ++ kf) = .ok true := by decide
example : R3.isDir nRoot (kweb ++ kxyz ++ kgui ++ kf) = .ok false := by decide
example : R3.getBytes nRoot [['z']] = .ok [5] := by decide

/-- **negative witness**: with the `is_supported` of before a6dff51 (which lets `KeyRouteNotFound` escape) the root loses
the inner mount point; the repaired one keeps it -/
theorem nested_old_loses_mount_point :
    oldNestedIsDir3 memOps T nRoot (kweb ++ kxyz) = .ok false ∧ R3.isDir nRoot (kweb ++ kxyz) = .ok true := by
  decide

-- where the old `is_supported` raised: `nM2` has no default store, `''` has no route
example : Mt.supportsOld (Mt.liftSupp (T (σ := MemState))) nM2 [] = none := by decide
example : Mt.supportsOld (Mt.supportsOld (Mt.liftSupp (T (σ := MemState)))) nM1 kxyz = none := by decide
example : Mt.supports memOps T nM2 [] = true := by decide
example : Mt.supports (mountOps memOps T) (Mt.supports memOps T) nM1 kxyz = true := by decide
-- the old code did find what lies strictly below the inner mount point (that is why the defect went unnoticed) …
example : oldNestedIsDir3 memOps T nRoot (kweb ++ kxyz ++ kgui) = .ok true := by decide
-- … and already two levels lose the parent of an inner mount point: root —`web`→ (no default) —`x/y/z`→ leaf
def nRoot2 : MtState (MtState MemState) := (none, [(kweb, (none, [(kxyz, nLeaf)]))])
example : oldNestedIsDir memOps T nRoot2 (kweb ++ [['x']]) = .ok false ∧
    (nestedOps memOps T).isDir nRoot2 (kweb ++ [['x']]) = .ok true := by decide

/-! #### why a missing route must not be answered with `False`

If a mounted mount-point store WITHOUT a default store answered `is_supported = False` for a key it has no route for, the outer
`route_to` would walk on — to a shallower mount or to the OUTER default store: a key below the mount prefix would be served by the
outer default store (reads and writes), while `keys()` and `listdir` of the outer composite — which hide the default store's entries
below a mount prefix — would not show it.  The first version of the repair (`a6dff51`) did exactly that; the model (`Mt.supports`
answers `false` there) refutes exclusivity and completeness for it below (`nested_exclusive_false_if_unsupported`,
`nested_keys_incomplete_if_unsupported`), the behaviour was reproduced on the code, and the repair was corrected (`2edf0fa`): the
code raises `KeyRouteNotFound` for such keys, as it always did.  For the code as it is, `nested_exclusive_partial` is the statement:
exclusive wherever the mounted composite supports the key; elsewhere the operation raises (outside this Boolean model). -/

/-- exclusivity for the MODEL's support function (missing route = `false`): a key whose innermost outer mount is entry `i` is read
from the composite mounted there.  False — see above; not a statement about the code, which raises instead. -/
def nested_exclusive_statement : Prop :=
  ∀ (o : MtState (MtState MemState)) (i : Nat) (p : Key) (m : MtState MemState) (q : Key),
    tableWF (o.2.map (·.1)) = true → o.2[i]? = some (p, m) → Owns o.2 i (p ++ q) →
    (nestedOps memOps T).getBytes o (p ++ q) = (mountOps memOps T).getBytes m q

/-- … and `keys()` of the nested composite lists every non-root key it contains -/
def nested_keys_complete_statement : Prop :=
  ∀ (o : MtState (MtState MemState)) (x : Key) (ks : List Key), tableWF (o.2.map (·.1)) = true →
    (∀ e, e ∈ o.2 → tableWF (e.2.2.map (·.1)) = true) → x ≠ [] →
    (nestedOps memOps T).contains o x = .ok true → (nestedOps memOps T).keys o = .ok ks → x ∈ ks

/-- **exclusive as far as the mounted composite supports the key** (`q = []`: the mount point itself) -/
theorem nested_exclusive_partial (o : MtState (MtState σ)) (hwf : tableWF (o.2.map (·.1)) = true)
    (i : Nat) (p : Key) (m : MtState σ) (hi : o.2[i]? = some (p, m)) (q : Key) (ho : Owns o.2 i (p ++ q))
    (hs : q = [] ∨ Mt.supports P supp m q = true) :
    (nestedOps P supp).getBytes o (p ++ q) = (mountOps P supp).getBytes m q :=
  nested_getBytes hwf hi ho hs

/-- default store holding `web/foo`; at `web` a composite without default store, a leaf mounted at `x` -/
def fD : MemState := Mem.store memInit (kweb ++ [['f', 'o', 'o']]) [9] (um 'd')
def fIn : MtState MemState := (none, [([['x']], nLeaf)])
def fRoot : MtState (MtState MemState) := (some (Mt.leaf fD), [(kweb, fIn)])

example : Mt.supports memOps T fIn [['f', 'o', 'o']] = false := by decide
-- served by the outer default store although `web` is on its path; contained but neither in `keys()` nor listed
example : (nestedOps memOps T).getBytes fRoot (kweb ++ [['f', 'o', 'o']]) = .ok [9] := by decide
example : (nestedOps memOps T).contains fRoot (kweb ++ [['f', 'o', 'o']]) = .ok true := by decide
example : (nestedOps memOps T).keys fRoot = .ok [kweb, kweb ++ [['x']], kweb ++ [['x'], ['f']]] := by decide
example : (nestedOps memOps T).listdir fRoot kweb = .ok (some [['x']]) := by decide

theorem nested_exclusive_false_if_unsupported : ¬ nested_exclusive_statement := by
  intro h
  have := h fRoot 0 kweb fIn [['f', 'o', 'o']] (by decide) rfl
    ((route_innermost fRoot.2 (by decide) _ 0).mp (by decide))
  revert this
  decide

theorem nested_keys_incomplete_if_unsupported : ¬ nested_keys_complete_statement := by
  intro h
  have := h fRoot (kweb ++ [['f', 'o', 'o']]) [kweb, kweb ++ [['x']], kweb ++ [['x'], ['f']]]
    (by decide) (by decide) (by decide) (by decide) (by decide)
  revert this
  decide

-- the hypotheses of the nested theorems are satisfiable
example : (nestedOps memOps T).isDir nRoot2 (kweb ++ [['x']]) = .ok true :=
  (nested_at_mount_point memOps T nRoot2 (by decide) 0 kweb _ rfl [['x']]
    ((route_innermost nRoot2.2 (by decide) _ 0).mp (by decide))
    (Or.inr ⟨kxyz, nLeaf, by simp, by decide⟩)).1
example : ∃ l, some [['y']] = some l ∧ ['y'] ∈ l :=
  (nested_at_mount_point memOps T nRoot2 (by decide) 0 kweb _ rfl [['x']]
    ((route_innermost nRoot2.2 (by decide) _ 0).mp (by decide))
    (Or.inr ⟨kxyz, nLeaf, by simp, by decide⟩)).2.2.1 ['y'] [['z']] nLeaf (by simp [kxyz]) (some [['y']]) (by decide)
example : R3.isDir nRoot (kweb ++ kxyz) = .ok true :=
  (nested_depth3 memOps T kweb kxyz kgui (by decide) (by decide) _ none nLeaf).1
example : (nestedOps memOps T).getBytes nM1 (kxyz ++ (kgui ++ kf)) = (mountOps memOps T).getBytes nM2 (kgui ++ kf) :=
  nested_exclusive_partial memOps T nM1 (by decide) 0 kxyz nM2 rfl (kgui ++ kf)
    ((route_innermost nM1.2 (by decide) _ 0).mp (by decide)) (Or.inr (by decide))

end nested

end Liquer.C14

-- OBLIGATIONS: Liquer.C14.route_exclusive Liquer.C14.route_exclusive_default Liquer.C14.hit_iff_prefix Liquer.C14.route_innermost Liquer.C14.prefix_strips Liquer.C14.prefix_strips_reads Liquer.C14.mount_union_above Liquer.C14.mount_union_part Liquer.C14.mount_union_default Liquer.C14.mount_union_meta_key Liquer.C14.mount_union_listdir_part Liquer.C14.mount_union_listdir_default Liquer.C14.mount_union_listdir_noroute Liquer.C14.mount_union_keys Liquer.C14.mount_write_exclusive Liquer.C14.mount_write_frame Liquer.C14.mount_write_default_only Liquer.C14.mount_removedir_refuses Liquer.C14.to_root_key_reaches_partial Liquer.C14.to_root_key_default Liquer.C14.mount_keys_complete_partial Liquer.C14.mount_keys_complete_gen Liquer.C14.mount_keys_complete Liquer.C14.mount_keys_exact Liquer.C14.mount_keys_once Liquer.C14.to_root_key_chain Liquer.C14.to_root_key_nested_reaches
-- OBLIGATIONS: Liquer.C14.supports_dirs Liquer.C14.supports_isDir Liquer.C14.nested_dir_lifts Liquer.C14.nested_at_mount_point Liquer.C14.nested_depth3 Liquer.C14.nested_old_loses_mount_point Liquer.C14.nested_exclusive_partial
-- STATEMENT-ONLY: Liquer.C14.to_root_key_reaches_statement
-- OBLIGATIONS: Liquer.C14.nested_exclusive_false_if_unsupported Liquer.C14.nested_keys_incomplete_if_unsupported
