/-
C14 — Mounted stores: routing, key translation and union views are exact.

Model: `mountOps P supp` / `prefixOps P p` (LiquerModel/StoreMount.lean) = `MountPointStore` /
`PrefixStore` with the proposed fixes D7a-D7f; all parts are models of one type `P : StoreOps σ`;
state `(default?, routing table in mount order)`.  `T` = the constantly-true `is_supported` of
`MemoryStore` / `FileStore`.

* `route_exclusive` (EVERY table, any `supp`): `route_to(k)` is the last mounted entry that matches `k`;
  no entry matches iff the default store (or `KeyRouteNotFound`) is used.  `route_innermost`: under
  `tableWF` (distinct non-empty prefixes, outer mounted before inner) that entry is the innermost mount
  on the path to `k`.  `prefix_strips`: the routed `PrefixStore` serves the key with the prefix stripped.
* `mount_union_*` (any number of mounts, `tableWF`): directory flag, containment, bytes, reported metadata
  key, directory listing and `keys()` of the composite are the re-prefixed union of the parts, mount
  points and their parents being directories (and listed); `keys()` lists every key exactly once.
* `mount_write_exclusive`: store / store_metadata / remove / makedir change exactly the owning part, as
  the operation on the stripped key does; every other part and the default store are unchanged.
* `to_root_key_reaches_partial`: `sub.to_root_key(k)` read through the root reaches entry `k` of `sub`
  provided no inner mount shadows it; the unrestricted statement is false (witness below).
* `mount_keys_complete` / `mount_keys_exact` (fix D7f, the former finding "parents of mount points are contained
  but not listed" is repaired): `keys()` appends the parents of mount points that no store listed, so every
  non-root key the composite contains is listed — and nothing else, each once (`mount_keys_once` for tree-shaped parts).
-/
import LiquerProofs.Lemmas.StoreMount
import LiquerProofs.Lemmas.StoreSpec

namespace Liquer.C14
open Liquer Liquer.SV Liquer.MtL

variable {σ : Type}

/-! ### routing -/

/-- **`route_to` picks the last mounted matching store** — every table, every `is_supported`. -/
theorem route_exclusive (supp : σ → Key → Bool) (tbl : List (Key × σ)) (k : Key) (i : Nat) :
    Mt.routeIdx supp tbl k = some i ↔
      ∃ p st, tbl[i]? = some (p, st) ∧ Mt.hit supp p st k = true ∧
        ∀ j q st', i < j → tbl[j]? = some (q, st') → Mt.hit supp q st' k = false :=
  routeIdx_some supp tbl k i

/-- **every other key goes to the default store** (or raises `KeyRouteNotFound` without one) -/
theorem route_exclusive_default (supp : σ → Key → Bool) (s : MtState σ) (k : Key) :
    (∀ p st, (p, st) ∈ s.2 → Mt.hit supp p st k = false) ↔
      Mt.route supp s k = (if s.1.isSome then .ok .dflt else .error .routeNotFound) := by
  rw [← routeIdx_none]
  unfold Mt.route
  constructor
  · intro h; rw [h]
  · intro h
    cases hr : Mt.routeIdx supp s.2 k with
    | none => rfl
    | some i =>
      rw [hr] at h
      by_cases hs : s.1.isSome = true <;> simp [hs] at h

/-- for `MemoryStore` / `FileStore` parts an entry matches iff its prefix is at or above the key -/
theorem hit_iff_prefix (p : Key) (st : σ) (k : Key) : Mt.hit T p st k = true ↔ p <+: k := hit_T p st k

/-- under `tableWF`, the routed entry is the innermost mount on the path to the key -/
theorem route_innermost (tbl : List (Key × σ)) (hwf : tableWF (tbl.map (·.1)) = true) (k : Key) (i : Nat) :
    Mt.routeIdx T tbl k = some i ↔ Owns tbl i k :=
  route_some_iff tbl hwf k i

/-- **addressed by the key with the prefix stripped** (all five write operations and the point reads) -/
theorem prefix_strips (P : StoreOps σ) (p : Key) (st : σ) (op : StoreOp) (h : p <+: opKey op) :
    (prefixOps P p).apply st op = P.apply st (stripOp p op) :=
  prefix_apply' P op h st

theorem prefix_strips_reads (P : StoreOps σ) (p k : Key) (st : σ) (h : p <+: k) :
    (prefixOps P p).getBytes st k = P.getBytes st (k.drop p.length) ∧
    (prefixOps P p).listdir st k = P.listdir st (k.drop p.length) ∧
    (prefixOps P p).getMeta st k = (P.getMeta st (k.drop p.length)).map (fun m => { m with key := k, name := keyName k }) ∧
    (k ≠ p → (prefixOps P p).contains st k = P.contains st (k.drop p.length) ∧
             (prefixOps P p).isDir st k = P.isDir st (k.drop p.length)) :=
  ⟨prefix_getBytes P h st, prefix_listdir P h st, prefix_getMeta P h st,
   fun hne => ⟨prefix_contains P h hne st, prefix_isDir P h hne st⟩⟩

/-! ### the union view -/

variable (P : StoreOps σ)

/-- mount points and their parents are directories of the composite -/
theorem mount_union_above (s : MtState σ) (k : Key) (h : Above s.2 k) :
    (M P).isDir s k = .ok true ∧ (M P).contains s k = .ok true :=
  ⟨mount_isDir_above P s k h, mount_contains_above P s k h⟩

/-- a key whose innermost mount is entry `i` reads as the stripped key in that store -/
theorem mount_union_part (s : MtState σ) (hwf : tableWF (s.2.map (·.1)) = true) (k : Key)
    (i : Nat) (p : Key) (st : σ) (hi : s.2[i]? = some (p, st)) (ho : Owns s.2 i k) :
    (M P).getBytes s k = P.getBytes st (k.drop p.length) ∧
    (¬ Above s.2 k → (M P).isDir s k = P.isDir st (k.drop p.length)) ∧
    (¬ Above s.2 k → (M P).contains s k = match P.isDir st (k.drop p.length) with
      | .error e => .error e
      | .ok true => .ok true
      | .ok false => P.contains st (k.drop p.length)) :=
  ⟨mount_getBytes_part P s hwf k i p st hi ho,
   fun h => mount_isDir_part P s hwf k h i p st hi ho,
   fun h => mount_contains_part P s hwf k h i p st hi ho⟩

/-- a key with no mount on its path reads as in the default store (absent without one) -/
theorem mount_union_default (s : MtState σ) (k : Key) (hn : NoMount s.2 k) :
    (M P).getBytes s k = (match s.1 with | some d => P.getBytes d k | none => .error .routeNotFound) ∧
    (¬ Above s.2 k → (M P).isDir s k = match s.1 with | some d => P.isDir d k | none => .ok false) ∧
    (¬ Above s.2 k → (M P).contains s k = match s.1 with
      | none => .ok false
      | some d => match P.isDir d k with
        | .error e => .error e
        | .ok true => .ok true
        | .ok false => P.contains d k) :=
  ⟨mount_getBytes_default P s k hn, fun h => mount_isDir_default P s k h hn, fun h => mount_contains_default P s k h hn⟩

/-- the reported metadata key is the key asked for (every table, every `is_supported`) -/
theorem mount_union_meta_key (supp : σ → Key → Bool) (s : MtState σ) (k : Key) (m : MetaObs)
    (h : (mountOps P supp).getMeta s k = .ok m) : m.key = k :=
  mount_meta_key P supp s k m h

/-- directory listing = the owner's listing of the stripped key ∪ the mount points directly below, no repetition -/
theorem mount_union_listdir_part (s : MtState σ) (hwf : tableWF (s.2.map (·.1)) = true) (k : Key)
    (i : Nat) (p : Key) (st : σ) (hi : s.2[i]? = some (p, st)) (ho : Owns s.2 i k) (o : Option (List Str))
    (hl : P.listdir st (k.drop p.length) = .ok o) :
    ∃ l, (M P).listdir s k = .ok (some l) ∧ l.Nodup ∧
      ∀ nm, nm ∈ l ↔ nm ∈ o.getD [] ∨ ∃ q st', (q, st') ∈ s.2 ∧ (k ++ [nm]) <+: q :=
  mount_listdir_part P s hwf k i p st hi ho o hl

theorem mount_union_listdir_default (s : MtState σ) (hwf : tableWF (s.2.map (·.1)) = true) (k : Key)
    (hn : NoMount s.2 k) (d : σ) (hd : s.1 = some d) (o : Option (List Str)) (hl : P.listdir d k = .ok o) :
    ∃ l, (M P).listdir s k = .ok (some l) ∧ l.Nodup ∧
      ∀ nm, nm ∈ l ↔ nm ∈ o.getD [] ∨ ∃ q st', (q, st') ∈ s.2 ∧ (k ++ [nm]) <+: q :=
  mount_listdir_default P s hwf k hn d hd o hl

theorem mount_union_listdir_noroute (s : MtState σ) (hwf : tableWF (s.2.map (·.1)) = true) (k : Key)
    (hn : NoMount s.2 k) (hd : s.1 = none) :
    ∃ l, (M P).listdir s k = .ok (some l) ∧ l.Nodup ∧
      ∀ nm, nm ∈ l ↔ ∃ q st', (q, st') ∈ s.2 ∧ (k ++ [nm]) <+: q :=
  mount_listdir_noroute P s hwf k hn hd

/-- **`keys()`**: exactly the mount points and their parents, the re-prefixed keys of every mounted store that the
store owns (innermost mount on the path), and the default store's keys with no mount on the path — each once. -/
theorem mount_union_keys (K : σ → List Key) (hK : ∀ st, P.keys st = .ok (K st)) (s : MtState σ)
    (hwf : tableWF (s.2.map (·.1)) = true) :
    ∃ ks, (M P).keys s = .ok ks ∧
      (∀ x, x ∈ ks ↔
        ((x ≠ [] ∧ ∃ p st, (p, st) ∈ s.2 ∧ x <+: p) ∨
         (∃ i p st kk, s.2[i]? = some (p, st) ∧ kk ∈ K st ∧ kk ≠ [] ∧ x = p ++ kk ∧ Owns s.2 i x) ∨
         (∃ d, s.1 = some d ∧ x ∈ K d ∧ NoMount s.2 x))) ∧
      ((∀ e, e ∈ s.2 → (K e.2).Nodup) → (∀ d, s.1 = some d → (K d).Nodup) → ks.Nodup) := by
  obtain ⟨ks, h1, h2⟩ := mount_keys_mem P K hK s hwf
  exact ⟨ks, h1, h2, fun a b => mount_keys_nodup P K hK s a b hwf ks h1⟩

/-! ### writes -/

/-- **a write below a mount point changes exactly the store mounted there, by the stripped operation** -/
theorem mount_write_exclusive (s : MtState σ) (hwf : tableWF (s.2.map (·.1)) = true) (op : StoreOp)
    (hop : isRemovedir op = false) (i : Nat) (p : Key) (st : σ) (hi : s.2[i]? = some (p, st))
    (ho : Owns s.2 i (opKey op)) :
    (M P).apply s op = (P.apply st (stripOp p op)).map (fun st' => (s.1, s.2.set i (p, st'))) :=
  mount_write_part P s hwf op hop i p st hi ho

/-- … so the default store and every other mounted store keep their state, and the prefixes stay -/
theorem mount_write_frame (s s' : MtState σ) (hwf : tableWF (s.2.map (·.1)) = true) (op : StoreOp)
    (hop : isRemovedir op = false) (i : Nat) (p : Key) (st : σ) (hi : s.2[i]? = some (p, st))
    (ho : Owns s.2 i (opKey op)) (h : (M P).apply s op = .ok s') :
    s'.1 = s.1 ∧ (∀ j, j ≠ i → s'.2[j]? = s.2[j]?) ∧ s'.2.map (·.1) = s.2.map (·.1) ∧
      ∃ st', P.apply st (stripOp p op) = .ok st' ∧ s'.2[i]? = some (p, st') := by
  rw [mount_write_part P s hwf op hop i p st hi ho] at h
  cases hp : P.apply st (stripOp p op) with
  | error e => rw [hp] at h; cases h
  | ok st' =>
    rw [hp] at h
    cases h
    have hlt : i < s.2.length := by
      rcases Nat.lt_or_ge i s.2.length with h | h
      · exact h
      · rw [List.getElem?_eq_none h] at hi; cases hi
    have hge : s.2[i] = (p, st) := by
      rw [List.getElem?_eq_getElem hlt] at hi
      exact Option.some.inj hi
    refine ⟨rfl, ?_, ?_, st', rfl, ?_⟩
    · intro j hj
      simp [Ne.symm hj]
    · apply List.ext_getElem?
      intro j
      simp only [List.getElem?_map, List.getElem?_set]
      by_cases hj : i = j
      · subst hj; simp [hlt, hge]
      · simp [hj]
    · simp [hlt]

/-- a write with no mount on the path goes to the default store only -/
theorem mount_write_default_only (s : MtState σ) (op : StoreOp) (hop : isRemovedir op = false)
    (hn : NoMount s.2 (opKey op)) :
    (M P).apply s op = match s.1 with
      | some d => (P.apply d op).map (fun d' => (some d', s.2))
      | none => .error .routeNotFound :=
  mount_write_default P s op hop hn

/-- a non-recursive `removedir` of a mount point is refused -/
theorem mount_removedir_refuses (s : MtState σ) (k : Key) (hk : k ≠ []) (hm : ∃ st, (k, st) ∈ s.2) :
    (M P).removedir s k false = .error .other := by
  show Mt.removedir P T s k false = _
  unfold Mt.removedir Mt.removedirFull
  have hke : k.isEmpty = false := by simpa using hk
  have hany : s.2.any (fun e => e.1 == k) = true := by
    obtain ⟨st, h⟩ := hm
    exact List.any_eq_true.mpr ⟨(k, st), h, by simp⟩
  simp [Mt.removedirX, hke, hany]

/-! ### to_root_key -/

/-- the full statement: the root key of *every* key of a mounted store reads the same through the root -/
def to_root_key_reaches_statement : Prop :=
  ∀ (s : MtState FS) (i : Nat) (p : Key) (st : FS) (kk : Key), tableWF (s.2.map (·.1)) = true →
    s.2[i]? = some (p, st) →
    (M specOps).getBytes s (Mt.toRootKey s.2 (some i) kk) = specOps.getBytes st kk

/-- **`to_root_key` reaches the same entry** unless an inner mount shadows the root key -/
theorem to_root_key_reaches_partial (s : MtState σ) (hwf : tableWF (s.2.map (·.1)) = true)
    (i : Nat) (p : Key) (st : σ) (kk : Key) (hi : s.2[i]? = some (p, st))
    (hns : Owns s.2 i (Mt.toRootKey s.2 (some i) kk)) :
    Mt.toRootKey s.2 (some i) kk = p ++ kk ∧
    (M P).getBytes s (Mt.toRootKey s.2 (some i) kk) = P.getBytes st kk ∧
    (∀ m, (M P).getMeta s (Mt.toRootKey s.2 (some i) kk) = .ok m → m.key = p ++ kk) := by
  have hr : Mt.toRootKey s.2 (some i) kk = p ++ kk := by simp [Mt.toRootKey, hi, Pfx.inverse]
  refine ⟨hr, ?_, ?_⟩
  · rw [mount_getBytes_part P s hwf _ i p st hi hns, hr]
    simp
  · intro m hm
    rw [← hr]
    exact mount_meta_key P T s _ m hm

/-- the default store's keys are root keys already -/
theorem to_root_key_default (tbl : List (Key × σ)) (k : Key) : Mt.toRootKey tbl none k = k := rfl

/-! ### `keys()` is complete: every non-root key the composite contains is listed (fix D7f) -/

/-- the full statement (false before D7f: the parents of mount points were contained but not listed) -/
def mount_keys_complete_statement : Prop :=
  ∀ (s : MtState FS) (x : Key) (ks : List Key), tableWF (s.2.map (·.1)) = true → x ≠ [] →
    (M specOps).contains s x = .ok true → (M specOps).keys s = .ok ks → x ∈ ks

/-- every key is either owned by a mounted store or has no mount on its path -/
theorem owns_or_nomount (tbl : List (Key × σ)) (hwf : tableWF (tbl.map (·.1)) = true) (k : Key) :
    (∃ i, Owns tbl i k) ∨ NoMount tbl k := by
  cases h : Mt.routeIdx T tbl k with
  | none => exact Or.inr ((route_none_iff tbl k).mp h)
  | some i => exact Or.inl ⟨i, (route_innermost tbl hwf k i).mp h⟩

/-- every mount point and every parent of a mount point is listed -/
theorem mount_keys_complete_partial (K : σ → List Key) (hK : ∀ st, P.keys st = .ok (K st)) (s : MtState σ)
    (hwf : tableWF (s.2.map (·.1)) = true) (x p : Key) (st : σ) (hm : (p, st) ∈ s.2) (hx : x ≠ []) (hp : x <+: p)
    (ks : List Key) (h : (M P).keys s = .ok ks) : x ∈ ks := by
  obtain ⟨ks', h1, h2, _⟩ := mount_union_keys P K hK s hwf
  rw [h1] at h
  cases h
  exact (h2 x).mpr (Or.inl ⟨hx, p, st, hm, hp⟩)

/-- **completeness of `keys()`**, any part model whose own listing covers what it contains: every non-root key
the composite contains is listed -/
theorem mount_keys_complete_gen (K : σ → List Key) (hK : ∀ st, P.keys st = .ok (K st))
    (hC : ∀ st k, k ≠ [] → (P.isDir st k = .ok true ∨ P.contains st k = .ok true) → k ∈ K st)
    (s : MtState σ) (hwf : tableWF (s.2.map (·.1)) = true) (x : Key) (hx : x ≠ [])
    (hc : (M P).contains s x = .ok true) (ks : List Key) (h : (M P).keys s = .ok ks) : x ∈ ks := by
  obtain ⟨ks', h1, h2, _⟩ := mount_union_keys P K hK s hwf
  rw [h1] at h
  cases h
  rw [h2]
  by_cases ha : Above s.2 x
  · rcases ha with e | ⟨p, st, hm, hp⟩
    · exact absurd e hx
    · exact Or.inl ⟨hx, p, st, hm, hp⟩
  · have key : ∀ (st : σ) (k : Key), k ≠ [] → (match P.isDir st k with
        | .error e => .error e
        | .ok true => .ok true
        | .ok false => P.contains st k : Except StoreErr Bool) = .ok true → k ∈ K st := by
      intro st k hk hmatch
      apply hC st k hk
      split at hmatch
      · cases hmatch
      · rename_i hd; exact Or.inl hd
      · exact Or.inr hmatch
    rcases owns_or_nomount s.2 hwf x with ⟨i, ho⟩ | hn
    · obtain ⟨p, st, hi, hpx, _⟩ := id ho
      rw [mount_contains_part P s hwf x ha i p st hi ho] at hc
      have hne : x.drop p.length ≠ [] := by
        intro e
        obtain ⟨t, rfl⟩ := hpx
        simp at e
        subst e
        exact not_above_ne ha hi (by simp)
      refine Or.inr (Or.inl ⟨i, p, st, x.drop p.length, hi, key st _ hne hc, hne, ?_, ho⟩)
      exact (inverse_drop hpx).symm
    · rw [mount_contains_default P s x ha hn] at hc
      cases hd : s.1 with
      | none => rw [hd] at hc; cases hc
      | some d =>
        rw [hd] at hc
        exact Or.inr (Or.inr ⟨d, rfl, key d x hx hc, hn⟩)

theorem spec_keys (fs : FS) : specOps.keys fs = .ok (fs.map (·.1)) := rfl

/-- the reference store lists what it contains (files and directories) -/
theorem spec_contains_listed (fs : FS) (k : Key) (hk : k ≠ [])
    (h : specOps.isDir fs k = .ok true ∨ specOps.contains fs k = .ok true) : k ∈ fs.map (·.1) := by
  rw [FS.mem_keys_iff]
  have hke : k.isEmpty = false := by simpa using hk
  rcases h with h | h
  · have : fs.isDirB k = true := by injection h
    simp only [FS.isDirB, hke, Bool.false_or, beq_iff_eq] at this
    rw [this]; rfl
  · have : fs.containsB k = true := by injection h
    simpa only [FS.containsB, hke, Bool.false_or] using this

/-- … and conversely contains what it lists -/
theorem spec_listed_contains (fs : FS) (k : Key) (h : k ∈ fs.map (·.1)) :
    (match specOps.isDir fs k with
      | .error e => .error e
      | .ok true => .ok true
      | .ok false => specOps.contains fs k : Except StoreErr Bool) = .ok true := by
  rw [FS.mem_keys_iff] at h
  show (match (Except.ok (fs.isDirB k) : Except StoreErr Bool) with
      | .error e => .error e
      | .ok true => .ok true
      | .ok false => (Except.ok (fs.containsB k) : Except StoreErr Bool) : Except StoreErr Bool) = .ok true
  cases hd : fs.isDirB k with
  | true => rfl
  | false => simp [FS.containsB, h]

/-- **`keys()` is complete** (the statement that was false before fix D7f) -/
theorem mount_keys_complete : mount_keys_complete_statement := by
  intro s x ks hwf hx hc h
  exact mount_keys_complete_gen specOps (fun fs => fs.map (·.1)) spec_keys spec_contains_listed s hwf x hx hc ks h

/-- **`keys()` is exact**: a non-root key is listed iff the composite contains it -/
theorem mount_keys_exact (s : MtState FS) (hwf : tableWF (s.2.map (·.1)) = true) (ks : List Key)
    (h : (M specOps).keys s = .ok ks) (x : Key) (hx : x ≠ []) :
    x ∈ ks ↔ (M specOps).contains s x = .ok true := by
  refine ⟨?_, fun hc => mount_keys_complete s x ks hwf hx hc h⟩
  intro hm
  by_cases ha : Above s.2 x
  · exact mount_contains_above specOps s x ha
  · obtain ⟨ks', h1, h2, _⟩ := mount_union_keys specOps (fun fs => fs.map (·.1)) spec_keys s hwf
    rw [h1] at h
    cases h
    rcases (h2 x).mp hm with ⟨_, p, st, hp, hpx⟩ | ⟨i, p, st, kk, hi, hkk, _, rfl, ho⟩ | ⟨d, hd, hxd, hn⟩
    · exact absurd (Or.inr ⟨p, st, hp, hpx⟩) ha
    · rw [mount_contains_part specOps s hwf _ ha i p st hi ho]
      have hdrop : (p ++ kk).drop p.length = kk := by simp
      rw [hdrop]
      exact spec_listed_contains st kk hkk
    · rw [mount_contains_default specOps s x ha hn, hd]
      exact spec_listed_contains d x hxd

/-- **every contained key exactly once**: with tree-shaped parts, `keys()` succeeds, has no repetition and lists
exactly the non-root keys the composite contains -/
theorem mount_keys_once (s : MtState FS) (hwf : tableWF (s.2.map (·.1)) = true)
    (hparts : ∀ e, e ∈ s.2 → e.2.tree = true) (hdflt : ∀ d, s.1 = some d → d.tree = true) :
    ∃ ks, (M specOps).keys s = .ok ks ∧ ks.Nodup ∧ [] ∉ ks ∧
      ∀ x, x ≠ [] → (x ∈ ks ↔ (M specOps).contains s x = .ok true) := by
  obtain ⟨ks, h1, h2, h3⟩ := mount_union_keys specOps (fun fs => fs.map (·.1)) spec_keys s hwf
  refine ⟨ks, h1, h3 (fun e he => ((FS.tree_iff e.2).mp (hparts e he)).nodup)
    (fun d hd => ((FS.tree_iff d).mp (hdflt d hd)).nodup), ?_, fun x hx => mount_keys_exact s hwf ks h1 x hx⟩
  intro hnil
  rcases (h2 []).mp hnil with ⟨hne, _⟩ | ⟨i, p, st, kk, hi, _, hkk, e, _⟩ | ⟨d, hd, hxd, _⟩
  · exact hne rfl
  · have := congrArg List.length e
    simp at this
    exact hkk (List.eq_nil_of_length_eq_zero (by omega))
  · exact ((FS.tree_iff d).mp (hdflt d hd)).nonroot [] ((FS.mem_keys_iff d []).mp hxd) rfl

/-! ### witnesses, non-vacuity -/

def ka : Key := [['a']]
def kab : Key := [['a'], ['b']]
def um (c : Char) : UMeta := { user := [c] }
/-- part mounted at `a` holds `b/y` and `x`; part mounted at `a/b` holds `y`; default holds `a/hidden`, `z` -/
def partA : FS := specOps.run [] [.store [['b'], ['y']] [1] (um 'p'), .store [['x']] [2] (um 'q')]
def partAB : FS := specOps.run [] [.store [['y']] [3] (um 'r')]
def dflt : FS := specOps.run [] [.store [['a'], ['h']] [4] (um 's'), .store [['z']] [5] (um 't')]
def s1 : MtState FS := (some dflt, [(ka, partA), (kab, partAB)])
def s2 : MtState FS := (none, [(kab, partAB)])

example : tableWF (s1.2.map (·.1)) = true := by decide
example : tableWF (s2.2.map (·.1)) = true := by decide
-- an inner prefix mounted before the outer one is not well-formed
example : tableWF [kab, ka] = false := by decide
example : Owns s1.2 1 [['a'], ['b'], ['y']] := (route_innermost s1.2 (by decide) _ 1).mp (by decide)
example : Owns s1.2 0 [['a'], ['x']] := (route_innermost s1.2 (by decide) _ 0).mp (by decide)
example : NoMount s1.2 [['z']] := (route_none_iff s1.2 _).mp (by decide)
example : Above s1.2 ka := Or.inr ⟨kab, partAB, by simp [s1], by decide⟩
-- D7 (on the model of the fixed code): no duplicate, no leaked default entry, contains without a route
example : (M specOps).keys s1 = .ok [kab, [['a'], ['b'], ['y']], ka, [['a'], ['x']], [['z']]] := by decide
example : (M specOps).listdir s1 ka = .ok (some [['b'], ['x']]) := by decide
example : (M specOps).contains s1 [['a'], ['h']] = .ok false := by decide
example : (M specOps).contains s2 [['z'], ['z']] = .ok false := by decide
example : ((M specOps).getMeta s1 ka).toOption.map (·.name) = some ['a'] := by decide
-- routing is exclusive: the outer store's own `b/y` is shadowed by the inner mount
example : (M specOps).getBytes s1 [['a'], ['b'], ['y']] = .ok [3] := by decide
example : isRemovedir (.store [['a'], ['b'], ['n']] [9] (um 'u')) = false := rfl
example : (M specOps).removedir s1 kab false = .error .other :=
  mount_removedir_refuses specOps s1 kab (by decide) ⟨partAB, by simp [s1]⟩

/-- the unrestricted `to_root_key` statement is false: `b/y` of the store mounted at `a` has root key `a/b/y`,
which the store mounted at `a/b` serves -/
example : ¬ to_root_key_reaches_statement := by
  intro h
  have := h s1 0 ka partA [['b'], ['y']] (by decide) (by decide)
  revert this
  decide

/-- the parent of a mount point is contained and (since fix D7f) listed: mount `a/b`, no default store -/
example : (M specOps).contains s2 ka = .ok true := by decide
example : (M specOps).keys s2 = .ok [kab, [['a'], ['b'], ['y']], ka] := by decide
example : ka ∈ [kab, [['a'], ['b'], ['y']], ka] :=
  mount_keys_complete s2 ka _ (by decide) (by decide) (by decide) (by decide)
-- `mount_keys_once` applies to the witnesses: the parts are trees
example : (∀ e, e ∈ s1.2 → e.2.tree = true) ∧ (∀ d, s1.1 = some d → d.tree = true) := by decide

/-! ### to_root_key through nested mount-point stores -/

/-- the root key of `k` behind the layers `ps` (innermost first) is `k` prefixed by every layer, outermost first -/
theorem to_root_key_chain (ps : List Key) (k : Key) :
    Mt.toRootKeyChain ps k = ps.reverse.flatten ++ k := by
  unfold Mt.toRootKeyChain
  induction ps generalizing k with
  | nil => simp
  | cons p ps ih => simp [List.foldl_cons, ih, Pfx.inverse, List.append_assoc]

/-- … and reading that root key through the layers (outermost first) reaches entry `k` of the innermost store:
`sub.to_root_key(k)` accessed through the root store is `k` of `sub`, for ANY depth of nesting -/
theorem to_root_key_nested_reaches (P : StoreOps σ) (ps : List Key) (st : σ) (k : Key) :
    (prefixChain P ps).getBytes st (Mt.toRootKeyChain ps.reverse k) = P.getBytes st k := by
  rw [to_root_key_chain, List.reverse_reverse]
  induction ps with
  | nil => simp [prefixChain]
  | cons p ps ih =>
    have h : p <+: (p :: ps).flatten ++ k := by simp [List.flatten_cons, List.append_assoc]
    rw [prefixChain, prefix_getBytes _ h st]
    simpa [List.flatten_cons, List.append_assoc] using ih

-- non-vacuity: `gui` mounted inside `web`: `index.html` of the innermost store is `web/gui/index.html` of the root
example : Mt.toRootKeyChain [["gui".toList], ["web".toList]] [["index.html".toList]].head! =
    [["web".toList], ["gui".toList], ["index.html".toList]].flatten := by decide

end Liquer.C14

-- OBLIGATIONS: Liquer.C14.route_exclusive Liquer.C14.route_exclusive_default Liquer.C14.hit_iff_prefix Liquer.C14.route_innermost Liquer.C14.prefix_strips Liquer.C14.prefix_strips_reads Liquer.C14.mount_union_above Liquer.C14.mount_union_part Liquer.C14.mount_union_default Liquer.C14.mount_union_meta_key Liquer.C14.mount_union_listdir_part Liquer.C14.mount_union_listdir_default Liquer.C14.mount_union_listdir_noroute Liquer.C14.mount_union_keys Liquer.C14.mount_write_exclusive Liquer.C14.mount_write_frame Liquer.C14.mount_write_default_only Liquer.C14.mount_removedir_refuses Liquer.C14.to_root_key_reaches_partial Liquer.C14.to_root_key_default Liquer.C14.mount_keys_complete_partial Liquer.C14.mount_keys_complete_gen Liquer.C14.mount_keys_complete Liquer.C14.mount_keys_exact Liquer.C14.mount_keys_once Liquer.C14.to_root_key_chain Liquer.C14.to_root_key_nested_reaches
-- STATEMENT-ONLY: Liquer.C14.to_root_key_reaches_statement
