/-
C02 helper lemmas, part 11 (S4): the top-level `parse`: `resource_transform_query` first, then
`parse_query`.
-/
import LiquerProofs.Lemmas.ParseRtq

namespace Liquer
open PS

variable {dec : List UInt8 → List Char}

/-! ### auxiliary facts about segment lists -/

theorem slashSegs_append (a b : List Seg) : slashSegs (a ++ b) = slashSegs a ++ slashSegs b := by
  induction a with
  | nil => rfl
  | cons s a ih => simp [slashSegs_cons, ih]

theorem wfSegs_append (a b : List Seg) : wfSegs (a ++ b) = (wfSegs a && wfSegs b) := by
  induction a with
  | nil => simp [wfSegs]
  | cons s a ih => simp [wfSegs, ih, Bool.and_assoc]

theorem kindsOf_append (a b : List Seg) : kindsOf (a ++ b) = kindsOf a ++ kindsOf b := by
  induction a with
  | nil => simp [kindsOf]
  | cons s a ih => simp [kindsOf, ih]

theorem adjacencyOK_suffix : ∀ (a b : List SegKind), b ≠ [] → adjacencyOK (a ++ b) = true →
    adjacencyOK b = true := by
  intro a
  induction a with
  | nil => intro b _ h; exact h
  | cons k a ih =>
    intro b hb h
    apply ih b hb
    cases hab : a ++ b with
    | nil => simp at hab; exact absurd hab.2 hb
    | cons k2 ks =>
      rw [List.cons_append, hab] at h
      exact (adjacencyOK_cons2 h).2.2.1

theorem scanName_suffix : ∀ (n : Nat) (W : Str), W.length ≤ n → ∃ u, W = u ++ scanName W := by
  intro n
  induction n with
  | zero =>
    intro W h
    have : W = [] := List.eq_nil_of_length_eq_zero (by omega)
    subst this; exact ⟨[], rfl⟩
  | succ n ih =>
    intro W h
    cases W with
    | nil => exact ⟨[], rfl⟩
    | cons c cs =>
      rw [scanName_cons]
      split
      · obtain ⟨u, hu⟩ := ih cs (by simp only [List.length_cons] at h; omega)
        exact ⟨c :: u, by rw [List.cons_append, ← hu]⟩
      · cases cs with
        | nil => exact ⟨[], by simp [afterName]⟩
        | cons d ds =>
          simp only [afterName]
          split
          · obtain ⟨u, hu⟩ := ih ds (by simp only [List.length_cons] at h; omega)
            exact ⟨c :: d :: u, by rw [List.cons_append, List.cons_append, ← hu]⟩
          · exact ⟨[], rfl⟩

theorem noWs_scanName {W : Str} (h : NoWs W) : NoWs (scanName W) := by
  obtain ⟨u, hu⟩ := scanName_suffix W.length W (Nat.le_refl _)
  rw [hu] at h
  exact h.right

/-! ### `rtqCaptured` -/

theorem rtqCaptured_snoc (P : List Seg) (hP : P ≠ []) (hpl : ∀ x ∈ P, isPlain x = true) (h : Header)
    (as : List Action) (f : Option Str) :
    rtqCaptured T (P ++ [.transform (some h) as f]) = P.all (fun s => noTildePercent (s.encode T)) := by
  unfold rtqCaptured
  simp only [List.reverse_append, List.reverse_cons, List.reverse_nil, List.nil_append,
    List.singleton_append]
  cases hr : P.reverse with
  | nil => simp at hr; exact absurd hr hP
  | cons x xs =>
    simp only
    rw [← hr, List.all_reverse]
    have : ∀ l : List Seg, (∀ x ∈ l, isPlain x = true) →
        l.all (fun s => match s with
          | .transform none _ _ => noTildePercent (s.encode T)
          | _ => false) = l.all (fun s => noTildePercent (s.encode T)) := by
      intro l
      induction l with
      | nil => intro _; rfl
      | cons y ys ih =>
        intro hl
        simp only [List.all_cons]
        rw [ih (fun x hx => hl x (List.mem_cons_of_mem _ hx))]
        have := hl y List.mem_cons_self
        match y, this with
        | .transform none _ _, _ => rfl
    exact this P hpl

theorem plain_split : ∀ ss : List Seg, ∃ P R, ss = P ++ R ∧ (∀ x ∈ P, isPlain x = true) ∧
    (∀ r1 R', R = r1 :: R' → isPlain r1 = false) := by
  intro ss
  induction ss with
  | nil => exact ⟨[], [], rfl, by simp, by simp⟩
  | cons s ss ih =>
    cases hs : isPlain s with
    | true =>
      obtain ⟨P, R, h1, h2, h3⟩ := ih
      refine ⟨s :: P, R, by rw [h1]; rfl, ?_, h3⟩
      intro x hx
      rcases List.mem_cons.mp hx with rfl | hx
      · exact hs
      · exact h2 x hx
    | false =>
      refine ⟨[], s :: ss, rfl, by simp, ?_⟩
      intro r1 R' h
      simp only [List.cons.injEq] at h
      rw [← h.1]; exact hs

theorem header_of_not_plain {s : Seg} (hp : isPlain s = false) (hk : s.kind ≠ .rPlain) :
    s.header.isSome = true := by
  match s, hp, hk with
  | .transform (some _) _ _, _, _ => rfl
  | .resource (some _) _, _, _ => rfl
  | .transform none _ _, hp, _ => simp [isPlain] at hp
  | .resource none _, _, hk => exact absurd rfl hk

theorem lit_slash_tp {c : Char} {v : Str} {p : Nat} (hws : NoWs (c :: v)) (hc : notTP c = false) :
    lit ['/'] ⟨c :: v, p⟩ = none := by
  apply lit_ne_head hws
  rcases notTP_false hc with rfl | rfl | rfl <;> decide

/-- S4: on the canonical text of a well-formed segment list that is not `rtqCaptured`, the
`resource_transform_query` alternative fails or stops before the end -/
theorem rtq_core (hd : DecOK dec) (s : Seg) (ss : List Seg) (hwf : wfSegs (s :: ss) = true)
    (hadj : adjacencyOK (kindsOf (s :: ss)) = true) (hcap : rtqCaptured T (s :: ss) = false)
    (p0 n : Nat) (hws : NoWs (s.encode T ++ slashSegs ss))
    (hn : 8 * (s.encode T ++ slashSegs ss).length + 6 ≤ n) :
    parseResPath ⟨s.encode T ++ slashSegs ss, p0⟩ = none ∨
    ∃ names s2, parseResPath ⟨s.encode T ++ slashSegs ss, p0⟩ = some (names, s2) ∧
      (lit ['/'] s2 = none ∨ ∃ s3, lit ['/'] s2 = some s3 ∧
        (parseSegWithHeader dec n s3 = none ∨
          ∃ t s4, parseSegWithHeader dec n s3 = some (t, s4) ∧ atEnd s4 = false)) := by
  have hwf' := hwf
  simp only [wfSegs, Bool.and_eq_true] at hwf'
  rw [kindsOf_cons] at hadj
  have hk := adjacencyOK_head hadj
  cases hpl : isPlain s with
  | false =>
    left
    obtain ⟨c, t, he, _, h1, _⟩ := seg_head s hwf'.1 hk
    rw [he, h1 (header_of_not_plain hpl hk)] at hws ⊢
    exact parseResPath_dash hws
  | true =>
    right
    obtain ⟨P, R, hsplit, hPpl', hRhead⟩ := plain_split ss
    have hPpl : ∀ x ∈ s :: P, isPlain x = true := by
      intro x hx
      rcases List.mem_cons.mp hx with rfl | hx
      · exact hpl
      · exact hPpl' x hx
    subst hsplit
    rw [wfSegs_append] at hwf'
    simp only [Bool.and_eq_true] at hwf'
    have hwfP : wfSegs (s :: P) = true := by simp [wfSegs, hwf'.1, hwf'.2.1]
    rw [slashSegs_append, ← List.append_assoc] at hws hn ⊢
    obtain ⟨d, W, heq, hd1, hcases⟩ := scan_plain s P hPpl hwfP (slashSegs R)
    rw [heq] at hws hn ⊢
    obtain ⟨names, p', hrp⟩ := resPath_scan (p := p0) hws hd1
    refine ⟨names, _, hrp, ?_⟩
    have hwsS : NoWs (scanName W) := noWs_scanName hws.tail
    rcases hcases with ⟨hclean, hscan⟩ | ⟨_, c, v, hscan, hc⟩
    · cases R with
      | nil =>
        left
        rw [hscan]
        simp only [slashSegs_nil, scanName]
        exact lit_nil_input (by simp)
      | cons r1 R' =>
        right
        have hr1 := hRhead r1 R' rfl
        have hadjR : adjacencyOK (kindsOf (r1 :: R')) = true := by
          have : adjacencyOK (kindsOf (s :: P) ++ kindsOf (r1 :: R')) = true := by
            have h0 : adjacencyOK (kindsOf ((s :: P) ++ (r1 :: R'))) = true := by
              simpa [kindsOf_cons] using hadj
            rwa [kindsOf_append] at h0
          exact adjacencyOK_suffix _ _ (by simp [kindsOf_cons]) this
        rw [kindsOf_cons] at hadjR
        have hk1 := adjacencyOK_head hadjR
        have hwfR := hwf'.2.2
        simp only [wfSegs, Bool.and_eq_true] at hwfR
        have hh1 := header_of_not_plain hr1 hk1
        obtain ⟨c1, t1, he1, _, hdash, _⟩ := seg_head r1 hwfR.1 hk1
        have hc1 := hdash hh1
        subst hc1
        have hZ : slashSegs (r1 :: R') = '/' :: '-' :: (t1 ++ slashSegs R') := by
          rw [slashSegs_cons, he1]; rfl
        rw [hscan, hZ, scan_slash_dash] at hwsS ⊢
        refine ⟨_, lit_cons hwsS, ?_⟩
        have hwsR : NoWs (r1.encode T ++ slashSegs R') := by
          rw [he1]; exact hwsS.tail
        have hlenR : (r1.encode T ++ slashSegs R').length ≤ (d :: W).length := by
          have := congrArg List.length heq
          simp only [List.length_append, List.length_cons, hZ, he1] at this ⊢
          omega
        rw [show '-' :: (t1 ++ slashSegs R') = r1.encode T ++ slashSegs R' by rw [he1]; rfl]
        match r1, hh1, hwfR.1, hadjR, hwsR, hlenR, hclean with
        | .resource (some (.mk name lvl ps res)) ns, _, hw1, _, hwsR, _, _ =>
          left
          have hw1' := hw1
          simp only [wfSeg, Bool.and_eq_true, decide_eq_true_eq] at hw1'
          obtain ⟨⟨⟨⟨⟨hres, hl⟩, _⟩, _⟩, _⟩, hns⟩ := hw1'
          subst hres
          rw [encode_resHeaded_eq name lvl ps ns hl hns] at hwsR ⊢
          simp only [List.append_assoc, List.cons_append] at hwsR ⊢
          exact segWithHeader_none_of_resource hl hwsR n
        | .transform (some (.mk name lvl ps res)) as f, _, hw1, hadjR, hwsR, hlenR, hclean =>
          right
          have hfol := follow_of_adj _ R' [] (by rfl) hadjR hwfR.2 (by simpa using hwsR.right)
          rw [kind_headed, adjacencyOK_tHeaded] at hfol
          simp only [plainMayFollow, List.append_nil] at hfol
          obtain ⟨t, p4, h4, _⟩ := segWithHeader_spec hd (linkIH_all hd _) name lvl ps res as f
            (Nat.le_refl _) hw1 (slashSegs R') hfol (p' + 1) n hwsR
            (by simp only [List.length_append, List.length_cons] at hlenR hn ⊢; omega)
          refine ⟨t, _, h4, ?_⟩
          cases R' with
          | nil =>
            exfalso
            have hc' := rtqCaptured_snoc (s :: P) (by simp) hPpl (.mk name lvl ps res) as f
            rw [List.cons_append] at hc'
            rw [hc', hclean] at hcap
            cases hcap
          | cons x R'' =>
            rw [slashSegs_cons] at hwsR ⊢
            exact atEnd_cons hwsR.right
    · left
      rw [hscan] at hwsS ⊢
      exact lit_slash_tp hwsS hc


/-- the `resource_transform_query` alternative on the canonical text of a link-style query that is
not `rtqCaptured`: it fails, or stops before the end -/
theorem rtq_fails (hd : DecOK dec) (q : Query) (hwf : wfInner q = true)
    (hcap : rtqCaptured T q.segments = false) (n : Nat) (hn : 8 * (q.encode T).length + 6 ≤ n) :
    parseRTQ dec n ⟨q.encode T, 0⟩ = none ∨
      ∃ q0 s1, parseRTQ dec n ⟨q.encode T, 0⟩ = some (q0, s1) ∧ atEnd s1 = false := by
  obtain ⟨segs, a⟩ := q
  cases segs with
  | nil => simp [wfInner] at hwf
  | cons s ss =>
    have hws := Query.noWs _ hwf
    rw [encode_inner s ss a hwf] at hws hn ⊢
    simp only [wfInner, Bool.and_eq_true] at hwf
    obtain ⟨⟨_, hwfs⟩, hadj⟩ := hwf
    simp only [Query.segments] at hcap
    have hwfs' := hwfs
    simp only [wfSegs, Bool.and_eq_true] at hwfs'
    have hk : s.kind ≠ .rPlain := adjacencyOK_head (by simpa [kindsOf_cons] using hadj)
    have hcore : ∀ p0, NoWs (s.encode T ++ slashSegs ss) → 8 * (s.encode T ++ slashSegs ss).length + 6 ≤ n →
        _ := fun p0 hw hn' => rtq_core hd s ss hwfs hadj hcap p0 n hw hn'
    cases a with
    | true =>
      simp only [↓reduceIte, List.cons_append, List.nil_append, List.length_cons] at hws hn ⊢
      rcases hcore 1 hws.tail (by omega) with h | ⟨names, s2, h, h2⟩
      · left; simp only [parseRTQ, lit_cons hws, Nat.zero_add, h]
      · rcases h2 with h2 | ⟨s3, h2, h3⟩
        · left; simp only [parseRTQ, lit_cons hws, Nat.zero_add, h, h2]
        · rcases h3 with h3 | ⟨t, s4, h3, h4⟩
          · left; simp only [parseRTQ, lit_cons hws, Nat.zero_add, h, h2, h3]
          · right
            exact ⟨.mk [.resource none names, t] true, s4,
              by simp only [parseRTQ, lit_cons hws, Nat.zero_add, h, h2, h3], h4⟩
    | false =>
      simp only [Bool.false_eq_true, ↓reduceIte, List.nil_append] at hws hn ⊢
      obtain ⟨c, t, he, hc, _⟩ := seg_head s hwfs'.1 hk
      have hlit : lit ['/'] ⟨s.encode T ++ slashSegs ss, 0⟩ = none := by
        rw [he] at hws ⊢
        exact lit_ne_head hws (Ne.symm hc)
      rcases hcore 0 hws hn with h | ⟨names, s2, h, h2⟩
      · left; simp only [parseRTQ, hlit, h]
      · rcases h2 with h2 | ⟨s3, h2, h3⟩
        · left; simp only [parseRTQ, hlit, h, h2]
        · rcases h3 with h3 | ⟨t, s4, h3, h4⟩
          · left; simp only [parseRTQ, hlit, h, h2, h3]
          · right
            exact ⟨.mk [.resource none names, t] false, s4, by simp only [parseRTQ, hlit, h, h2, h3], h4⟩

/-! ### `parse` -/

theorem expandTabs_noWs : ∀ (t : Str) (col : Nat), NoWs t → expandTabs col t = t := by
  intro t
  induction t with
  | nil => intro _ _; rfl
  | cons c cs ih =>
    intro col h
    have hc : c ≠ '\t' := by
      rintro rfl
      have := h.head
      have h2 := Inst.tab_white
      simp only [isWhite] at this
      rw [h2] at this; cases this
    simp only [expandTabs, beq_iff_eq, hc, ↓reduceIte]
    split <;> rw [ih _ h.tail]

theorem wfTop_cases {q : Query} (h : wfTop T q = true) :
    (∃ names t a, q = .mk [.resource none names, t] a ∧ wfSeg (.resource none names) = true ∧
        wfSeg t = true ∧ (∃ hdr as f, t = .transform (some hdr) as f) ∧ adjacencyOK [t.kind] = true) ∨
    (wfInner q = true ∧ rtqCaptured T q.segments = false) := by
  unfold wfTop at h
  split at h
  next names t a =>
    left
    simp only [Bool.and_eq_true] at h
    obtain ⟨⟨⟨⟨h1, h2⟩, h3⟩, h4⟩, _⟩ := h
    refine ⟨names, t, a, rfl, h1, h2, ?_, h4⟩
    match t, h3 with
    | .transform (some hdr) as f, _ => exact ⟨hdr, as, f, rfl⟩
  next segs a _ =>
    right
    simp only [Bool.and_eq_true, Bool.not_eq_true'] at h
    exact ⟨h.1, by simpa [Query.segments] using h.2⟩


/-- the `[resource, headed transform]` shape is read back by `resource_transform_query` -/
theorem parse_rtq_shape (hd : DecOK dec) (names : List Str) (hdr : Header) (as : List Action)
    (f : Option Str) (a : Bool) (hwfr : wfSeg (.resource none names) = true)
    (hwft : wfSeg (.transform (some hdr) as f) = true)
    (hadj : adjacencyOK [(Seg.transform (some hdr) as f).kind] = true) :
    ∃ q', parse dec ((Query.mk [.resource none names, .transform (some hdr) as f] a).encode T) = some q' ∧
      q'.erase = (Query.mk [.resource none names, .transform (some hdr) as f] a).erase := by
  obtain ⟨name, lvl, ps, res⟩ := hdr
  have hwfr' := hwfr
  simp only [wfSeg, Bool.and_eq_true, Bool.not_eq_true'] at hwfr'
  obtain ⟨hne, hall⟩ := hwfr'
  cases names with
  | nil => simp at hne
  | cons x ns =>
    have htext : (Query.mk [.resource none (x :: ns), .transform (some (.mk name lvl ps res)) as f] a).encode T =
        (if a then ['/'] else []) ++ (joinStr ['/'] (x :: ns) ++
          '/' :: (Seg.transform (some (.mk name lvl ps res)) as f).encode T) := by
      rw [Query.encode_eq]
      simp [isSingleRes, encodeSegs, Seg.encode_resPlain, joinStr_cons, slashed]
    have hws1 : NoWs (joinStr ['/'] (x :: ns)) := by
      have := Seg.noWs _ hwfr
      rwa [Seg.encode_resPlain] at this
    have hws2 := Seg.noWs _ hwft
    have hwsT : NoWs (joinStr ['/'] (x :: ns) ++
        '/' :: (Seg.transform (some (.mk name lvl ps res)) as f).encode T) :=
      hws1.append (NoWs.cons isWhite_slash hws2)
    have hhs : HeaderStart ((Seg.transform (some (.mk name lvl ps res)) as f).encode T) := by
      have := headerStart_seg (.transform (some (.mk name lvl ps res)) as f) hwft rfl []
        (by intro h; rw [hadj] at h; cases h) (by rfl) (by simpa using hws2)
      simpa using this
    have hfol : Follow false true ('/' :: (Seg.transform (some (.mk name lvl ps res)) as f).encode T) :=
      Or.inr ⟨_, rfl, Or.inr hhs⟩
    have hfol2 : Follow (!(as.isEmpty && f.isNone) && f.isSome)
        (!(name.isEmpty && (as.isEmpty && f.isNone))) [] := by
      rw [kind_headed, adjacencyOK_tHeaded] at hadj
      exact Or.inl ⟨hadj, rfl⟩
    have hmain : ∀ p0 n, 8 * ((Seg.transform (some (.mk name lvl ps res)) as f).encode T).length + 6 ≤ n →
        ∃ t' p2 p3 p4, parseResPath ⟨joinStr ['/'] (x :: ns) ++
              '/' :: (Seg.transform (some (.mk name lvl ps res)) as f).encode T, p0⟩ =
            some (x :: ns, ⟨'/' :: (Seg.transform (some (.mk name lvl ps res)) as f).encode T, p2⟩) ∧
          parseSegWithHeader dec n ⟨(Seg.transform (some (.mk name lvl ps res)) as f).encode T, p3⟩ =
            some (t', ⟨[], p4⟩) ∧ p3 = p2 + 1 ∧
          t'.erase = (Seg.transform (some (.mk name lvl ps res)) as f).erase := by
      intro p0 n hn
      obtain ⟨p2, h2⟩ := resPath_spec x ns hall _ true hfol p0 hwsT
      obtain ⟨t', p4, h4, h5⟩ := segWithHeader_spec hd (linkIH_all hd _) name lvl ps res as f (Nat.le_refl _)
        hwft [] hfol2 (p2 + 1) n (by simpa using hws2) hn
      simp only [List.append_nil] at h4
      exact ⟨t', p2, p2 + 1, p4, h2, h4, rfl, h5⟩
    rw [htext]
    cases a with
    | true =>
      simp only [↓reduceIte, List.cons_append, List.nil_append]
      have hws : NoWs ('/' :: (joinStr ['/'] (x :: ns) ++
          '/' :: (Seg.transform (some (.mk name lvl ps res)) as f).encode T)) := NoWs.cons isWhite_slash hwsT
      obtain ⟨t', p2, p3, p4, h2, h4, rfl, h5⟩ := hmain 1 (parseFuel ('/' :: (joinStr ['/'] (x :: ns) ++
          '/' :: (Seg.transform (some (.mk name lvl ps res)) as f).encode T)))
        (by simp only [parseFuel, List.length_cons, List.length_append]; omega)
      refine ⟨.mk [.resource none (x :: ns), t'] true, ?_, by simp [Query.erase, eraseSegs, Seg.erase, h5]⟩
      simp only [parse, expandTabs_noWs _ _ hws, parseRTQ, lit_cons hws, Nat.zero_add, h2,
        lit_cons hws.tail.right, h4, atEnd_nil, ↓reduceIte]
    | false =>
      simp only [Bool.false_eq_true, ↓reduceIte, List.nil_append]
      have hx : fullMatch Gen.resourceNameRe x = true := by
        simp only [List.all_cons, Bool.and_eq_true] at hall; exact hall.1
      rw [Inst.resourceName_shape] at hx
      obtain ⟨c, t, rfl, hc⟩ := fullMatch_first hx
      have hc' : c ≠ '/' := by
        rintro rfl
        rw [(rn_excl (Or.inr (Or.inr (Or.inr rfl)))).2] at hc; cases hc
      have hlit : lit ['/'] ⟨joinStr ['/'] ((c :: t) :: ns) ++
          '/' :: (Seg.transform (some (.mk name lvl ps res)) as f).encode T, 0⟩ = none := by
        rw [joinStr_cons] at hwsT ⊢
        exact lit_ne_head hwsT (Ne.symm hc')
      obtain ⟨t', p2, p3, p4, h2, h4, rfl, h5⟩ := hmain 0 (parseFuel (joinStr ['/'] ((c :: t) :: ns) ++
          '/' :: (Seg.transform (some (.mk name lvl ps res)) as f).encode T))
        (by simp only [parseFuel, List.length_cons, List.length_append]; omega)
      refine ⟨.mk [.resource none ((c :: t) :: ns), t'] false, ?_,
        by simp [Query.erase, eraseSegs, Seg.erase, h5]⟩
      simp only [parse, expandTabs_noWs _ _ hwsT, parseRTQ, hlit, h2,
        lit_cons hwsT.right, h4, atEnd_nil, ↓reduceIte]

/-- canonical text of a well-formed query contains no white space -/
theorem noWs_of_wfTop {q : Query} (hwf : wfTop T q = true) : NoWs (q.encode T) := by
  have key : ∀ segs a, wfSegs segs = true → NoWs ((Query.mk segs a).encode T) := by
    intro segs a h
    rw [Query.encode_eq]
    refine (NoWs.append ?_ ?_).append (noWs_joinStr _ (segs_noWs segs h))
    · split
      · exact NoWs.cons isWhite_slash NoWs.nil
      · exact NoWs.nil
    · split
      · exact NoWs.cons isWhite_dash (NoWs.cons (noWs_R.head) (NoWs.cons isWhite_slash NoWs.nil))
      · exact NoWs.nil
  rcases wfTop_cases hwf with ⟨names, t, a, rfl, h1, h2, _, _⟩ | ⟨hwi, _⟩
  · exact key _ _ (by simp [wfSegs, h1, h2])
  · exact Query.noWs q hwi

/-- MAIN: `parse` reads back the canonical text of every well-formed query -/
theorem print_parse_main (hd : DecOK dec) (q : Query) (hwf : wfTop T q = true) :
    ∃ q', parse dec (q.encode T) = some q' ∧ q'.erase = q.erase := by
  rcases wfTop_cases hwf with ⟨names, t, a, rfl, h1, h2, ⟨hdr, as, f, rfl⟩, h4⟩ | ⟨hwi, hcap⟩
  · exact parse_rtq_shape hd names hdr as f a h1 h2 h4
  · have hws := Query.noWs q hwi
    obtain ⟨q', p', hq, he⟩ := parseQuery_encode hd q hwi [] 0 (parseFuel (q.encode T))
      (by simpa using hws) rfl (by simp only [parseFuel]; omega)
    simp only [List.append_nil] at hq
    refine ⟨q', ?_, he⟩
    rcases rtq_fails hd q hwi hcap (parseFuel (q.encode T)) (by simp only [parseFuel]; omega)
      with h | ⟨q0, s1, h, hat⟩
    · simp only [parse, expandTabs_noWs _ _ hws, h, hq, atEnd_nil, ↓reduceIte]
    · simp only [parse, expandTabs_noWs _ _ hws, h, hat, hq, atEnd_nil, ↓reduceIte, Bool.false_eq_true]

end Liquer
