/-
`XORFileCache`: the byte-wise XOR with the tiled key is an involution, and no encoded byte equals the
plain byte at its offset when the key has no zero byte.
-/
import LiquerModel.CacheFile

namespace Liquer

theorem tile_length (code : Data) (n : Nat) : (tile code n).length = n * code.length := by
  induction n with
  | zero => simp [tile]
  | succ n ih => simp [tile, ih, Nat.succ_mul, Nat.add_comm]

theorem mem_tile (code : Data) (n : Nat) (x : UInt8) (h : x ∈ tile code n) : x ∈ code := by
  induction n with
  | zero => simp [tile] at h
  | succ n ih =>
    simp only [tile, List.mem_append] at h
    exact h.elim id ih

theorem codeOfLength_length (code : Data) (hne : code ≠ []) (n : Nat) : (codeOfLength code n).length = n := by
  have hpos : 0 < code.length := List.length_pos_iff.2 hne
  unfold codeOfLength
  split
  · simp [List.length_take]; omega
  · rw [List.length_take, tile_length]
    have := Nat.lt_mul_div_succ n hpos
    rw [Nat.mul_comm] at this
    omega

theorem mem_codeOfLength (code : Data) (n : Nat) (x : UInt8) (h : x ∈ codeOfLength code n) : x ∈ code := by
  unfold codeOfLength at h
  split at h
  · exact List.mem_of_mem_take h
  · exact mem_tile code _ x (List.mem_of_mem_take h)

theorem zipWith_xor_involutive : ∀ (b c : Data), b.length = c.length →
    List.zipWith (· ^^^ ·) (List.zipWith (· ^^^ ·) b c) c = b
  | [], [], _ => rfl
  | x :: b, y :: c, h => by
    simp only [List.zipWith_cons_cons, List.cons.injEq]
    refine ⟨?_, zipWith_xor_involutive b c (by simpa using h)⟩
    rw [UInt8.xor_assoc, UInt8.xor_self, UInt8.xor_zero]
  | [], _ :: _, h => by simp at h
  | _ :: _, [], h => by simp at h

/-- **decoding (= encoding again) restores the payload**, for every non-empty key and every payload -/
theorem xor_involutive (code b : Data) (hne : code ≠ []) : xorEnc code (xorEnc code b) = b := by
  have hl : (xorEnc code b).length = b.length := by
    simp [xorEnc, codeOfLength_length code hne]
  unfold xorEnc at hl ⊢
  rw [hl]
  exact zipWith_xor_involutive b _ (codeOfLength_length code hne _).symm

theorem xor_ne_self (x c : UInt8) (hc : c ≠ 0) : x ^^^ c ≠ x := by
  intro h
  apply hc
  have : x ^^^ (x ^^^ c) = x ^^^ x := by rw [h]
  rwa [← UInt8.xor_assoc, UInt8.xor_self, UInt8.zero_xor] at this

theorem zipWith_xor_hides : ∀ (b c : Data), (∀ x ∈ c, x ≠ 0) → ∀ (i : Nat) (x : UInt8), b[i]? = some x → c[i]? ≠ none →
    (List.zipWith (· ^^^ ·) b c)[i]? ≠ some x
  | [], _, _, i, x, h, _ => by simp at h
  | _ :: _, [], _, i, _, _, h => by simp at h
  | y :: b, z :: c, hz, 0, x, h, _ => by
    simp only [List.getElem?_cons_zero, Option.some.injEq] at h
    subst h
    simpa using xor_ne_self y z (hz z (by simp))
  | y :: b, z :: c, hz, i + 1, x, h, hc => by
    simp only [List.getElem?_cons_succ, List.zipWith_cons_cons] at h hc ⊢
    exact zipWith_xor_hides b c (fun w hw => hz w (by simp [hw])) i x h hc

/-- **no encoded byte equals the plain byte at its offset** when the key is non-empty and has no zero byte -/
theorem xor_hides (code b : Data) (hne : code ≠ []) (h0 : ∀ x ∈ code, x ≠ 0) (i : Nat) (hi : i < b.length) :
    (xorEnc code b)[i]? ≠ b[i]? := by
  have hb : b[i]? = some b[i] := List.getElem?_eq_getElem hi
  rw [hb]
  unfold xorEnc
  apply zipWith_xor_hides b _ (fun x hx => h0 x (mem_codeOfLength code _ x hx)) i _ hb
  have : i < (codeOfLength code b.length).length := by rw [codeOfLength_length code hne]; exact hi
  simp [List.getElem?_eq_getElem this]

example : xorEnc [0x5A, 0x13] [1, 2, 3] = [0x5B, 0x11, 0x59] := by decide
example : xorEnc [0x5A, 0x13] (xorEnc [0x5A, 0x13] [1, 2, 3]) = [1, 2, 3] := by decide

end Liquer
