/-
Helper lemmas about the path arithmetic of the `FileStore` model (`LiquerModel/StoreFile.lean`).
-/
import LiquerModel.StoreFile

namespace Liquer

theorem osResolve_plain (base : Path) (parts : List Str) (h : dotdot ∉ parts) :
    osResolve base parts = base ++ parts := by
  unfold osResolve
  induction parts generalizing base with
  | nil => simp
  | cons c parts ih =>
    have hc : (c == dotdot) = false := by
      rw [beq_eq_false_iff_ne]; intro e; exact h (e ▸ List.mem_cons_self)
    rw [List.foldl_cons]
    simp only [hc, Bool.false_eq_true, ↓reduceIte]
    rw [ih _ (fun hm => h (List.mem_cons_of_mem _ hm))]
    simp

theorem compsOK_iff (cs : List Str) :
    compsOK cs = true ↔ compsAbsolute cs = false ∧ dotdot ∉ compsParts cs := by
  unfold compsOK
  simp

theorem within_append (root : Path) (t : List Str) : within root (root ++ t) = true := by
  unfold within
  rw [List.isPrefixOf_iff_prefix]
  exact List.prefix_append _ _

theorem jsonExt_ne_dotdot (nm : Str) : nm ++ jsonExt ≠ dotdot := by
  intro e
  have := congrArg List.length e
  simp [jsonExt, dotdot] at this

theorem keyOK_keyOfString (key : List Char) : compsOK (keyOfString key) = keyOK key := by
  unfold keyOfString keyOK
  cases key with
  | nil => decide
  | cons c cs => rfl

theorem metaKeyOK_keyOfString (key : List Char) : compsMetaOK (keyOfString key) = metaKeyOK key := by
  unfold keyOfString metaKeyOK
  cases key with
  | nil => decide
  | cons c cs => rfl

theorem compsOK_false_ne_nil {k : Key} (h : compsOK k = false) : k.isEmpty = false := by
  cases k with
  | nil => simp [compsOK, compsAbsolute, compsParts] at h
  | cons _ _ => rfl

end Liquer
