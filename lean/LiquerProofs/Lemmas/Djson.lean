/-
Helper lemmas for C11: JSON string escaping round trip, `djson` framing.
-/
import LiquerModel.StateTypes

namespace Liquer.StateTypes
open Liquer

/-! ### hex digits -/

theorem hexVal_hexLower {n : Nat} (h : n < 16) : hexVal? (hexLower n) = some n :=
  (by decide : ∀ n : Fin 16, hexVal? (hexLower n.val) = some n.val) ⟨n, h⟩

theorem hex4Val_hex4 {n : Nat} (h : n < 65536) (t : List Char) :
    ∃ a b c d, hex4 n ++ t = a :: b :: c :: d :: t ∧ hex4Val a b c d = some n := by
  refine ⟨_, _, _, _, rfl, ?_⟩
  have h1 : n / 4096 % 16 < 16 := Nat.mod_lt _ (by decide)
  have h2 : n / 256 % 16 < 16 := Nat.mod_lt _ (by decide)
  have h3 : n / 16 % 16 < 16 := Nat.mod_lt _ (by decide)
  have h4 : n % 16 < 16 := Nat.mod_lt _ (by decide)
  simp only [hex4Val, hexVal_hexLower h1, hexVal_hexLower h2, hexVal_hexLower h3, hexVal_hexLower h4]
  congr 1
  omega

/-! ### code units of a scalar-value string -/

/-- UTF-16 code units of a character the way `json.dumps` escapes it -/
def cu (c : Char) : List Nat :=
  if c.toNat < 65536 then [c.toNat]
  else [55296 + (c.toNat - 65536) / 1024, 56320 + (c.toNat - 65536) % 1024]

theorem char_toNat_lt (c : Char) : c.toNat < 1114112 := by
  have := c.valid
  simp only [Char.toNat, UInt32.isValidChar, Nat.isValidChar] at *
  omega

theorem char_not_surrogate (c : Char) : ¬ (55296 ≤ c.toNat ∧ c.toNat < 57344) := by
  have := c.valid
  simp only [Char.toNat, UInt32.isValidChar, Nat.isValidChar] at *
  omega

theorem units_cons (c : Char) (rest : List Char) :
    units (c :: rest) =
      if c = '"' then some ([], rest)
      else if c = '\\' then
        match rest with
        | [] => none
        | e :: rest1 =>
          if e = 'u' then
            match rest1 with
            | a :: b :: c' :: d :: rest2 =>
              match hex4Val a b c' d with
              | some n => (units rest2).map (fun p => (n :: p.1, p.2))
              | none => none
            | _ => none
          else
            match simpleEsc e with
            | some ch => (units rest1).map (fun p => (ch.toNat :: p.1, p.2))
            | none => none
      else if c.toNat < 32 then none
      else (units rest).map (fun p => (c.toNat :: p.1, p.2)) := by
  rw [units.eq_def]; rfl

theorem units_uEsc {n : Nat} (h : n < 65536) (t : List Char) :
    units (uEsc n ++ t) = (units t).map (fun p => (n :: p.1, p.2)) := by
  obtain ⟨a, b, c, d, he, hv⟩ := hex4Val_hex4 h t
  simp only [uEsc, List.cons_append, he]
  rw [units_cons]
  simp [hv]

theorem units_escChar (c : Char) (t : List Char) :
    units (escChar c ++ t) = (units t).map (fun p => (cu c ++ p.1, p.2)) := by
  unfold escChar
  split
  · next h => subst h; simp [units_cons, simpleEsc, cu]
  split
  · next h => subst h; simp [units_cons, simpleEsc, cu]
  split
  · next h => subst h; simp [units_cons, simpleEsc, cu]
  split
  · next h => subst h; simp [units_cons, simpleEsc, cu]
  split
  · next h => subst h; simp [units_cons, simpleEsc, cu]
  split
  · next h => subst h; simp [units_cons, simpleEsc, cu]
  split
  · next h => subst h; simp [units_cons, simpleEsc, cu]
  split
  · next h1 h2 _ _ _ _ _ h =>
    have hlt : c.toNat < 65536 := by omega
    have hn : ¬ c.toNat < 32 := by omega
    simp [units_cons, h1, h2, hn, cu, hlt]
  split
  · next h =>
    rw [units_uEsc h]
    simp [cu, h]
  · next h =>
    have hc := char_toNat_lt c
    have ha : 55296 + (c.toNat - 65536) / 1024 < 65536 := by omega
    have hb : 56320 + (c.toNat - 65536) % 1024 < 65536 := by omega
    rw [List.append_assoc, units_uEsc ha, units_uEsc hb]
    simp only [cu, h, ↓reduceIte, Option.map_map]
    congr 1

theorem units_jsonEscape (s : Str) (rest : List Char) :
    units (jsonEscape s ++ '"' :: rest) = some (s.flatMap cu, rest) := by
  induction s with
  | nil => simp [jsonEscape, units_cons]
  | cons c s ih =>
    have : jsonEscape (c :: s) = escChar c ++ jsonEscape s := by simp [jsonEscape]
    rw [this, List.append_assoc, units_escChar, ih]
    simp

theorem joinSurr_cons (n : Nat) (rest : List Nat) :
    joinSurr (n :: rest) =
      if 55296 ≤ n ∧ n < 56320 then
        match rest with
        | m :: rest' =>
          if 56320 ≤ m ∧ m < 57344 then
            (joinSurr rest').map (fun s => Char.ofNat (65536 + (n - 55296) * 1024 + (m - 56320)) :: s)
          else none
        | [] => none
      else if 56320 ≤ n ∧ n < 57344 then none
      else (joinSurr rest).map (fun s => Char.ofNat n :: s) := by
  rw [joinSurr.eq_def]; rfl

theorem joinSurr_cu (c : Char) (us : List Nat) :
    joinSurr (cu c ++ us) = (joinSurr us).map (fun s => c :: s) := by
  have hns := char_not_surrogate c
  have hlt := char_toNat_lt c
  unfold cu
  split
  · next h =>
    simp only [List.cons_append, List.nil_append]
    rw [joinSurr_cons]
    have h1 : ¬ (55296 ≤ c.toNat ∧ c.toNat < 56320) := by omega
    have h2 : ¬ (56320 ≤ c.toNat ∧ c.toNat < 57344) := by omega
    simp only [h1, h2, ↓reduceIte, Char.ofNat_toNat]
  · next h =>
    simp only [List.cons_append, List.nil_append]
    rw [joinSurr_cons]
    have h1 : 55296 ≤ 55296 + (c.toNat - 65536) / 1024 ∧ 55296 + (c.toNat - 65536) / 1024 < 56320 := by omega
    have h2 : 56320 ≤ 56320 + (c.toNat - 65536) % 1024 ∧ 56320 + (c.toNat - 65536) % 1024 < 57344 := by omega
    simp only [h1, h2, and_self, ↓reduceIte]
    have h3 : 65536 + (55296 + (c.toNat - 65536) / 1024 - 55296) * 1024 + (56320 + (c.toNat - 65536) % 1024 - 56320) = c.toNat := by
      omega
    rw [h3, Char.ofNat_toNat]

theorem joinSurr_flatMap_cu (s : Str) : joinSurr (s.flatMap cu) = some s := by
  induction s with
  | nil => simp [joinSurr]
  | cons c s ih => simp only [List.flatMap_cons, joinSurr_cu, ih, Option.map_some]

/-- **key round trip**: the JSON string scanner inverts `json.dumps` escaping on every scalar-value string,
whatever follows the closing quote -/
theorem parseJStr_jsonEscape (s : Str) (rest : List Char) :
    parseJStr (jsonEscape s ++ '"' :: rest) = some (s, rest) := by
  simp [parseJStr, units_jsonEscape, joinSurr_flatMap_cu]

/-- strings that `json.dumps` leaves alone: printable ASCII without `"` and `\` -/
def plainStr (s : Str) : Bool := s.all (fun c => 32 ≤ c.toNat && c.toNat ≤ 126 && c != '"' && c != '\\')

theorem escChar_plain {c : Char} (h1 : 32 ≤ c.toNat) (h2 : c.toNat ≤ 126) (h3 : c ≠ '"') (h4 : c ≠ '\\') :
    escChar c = [c] := by
  have e1 : c ≠ '\n' := by intro h; subst h; revert h1; decide
  have e2 : c ≠ '\r' := by intro h; subst h; revert h1; decide
  have e3 : c ≠ '\t' := by intro h; subst h; revert h1; decide
  have e4 : c ≠ Char.ofNat 8 := by intro h; subst h; revert h1; decide
  have e5 : c ≠ Char.ofNat 12 := by intro h; subst h; revert h1; decide
  simp [escChar, h3, h4, e1, e2, e3, e4, e5, h1, h2]

theorem jsonEscape_plain (s : Str) (h : plainStr s = true) : jsonEscape s = s := by
  induction s with
  | nil => rfl
  | cons c s ih =>
    simp only [plainStr, List.all_cons, Bool.and_eq_true, decide_eq_true_eq, bne_iff_ne, ne_eq] at h
    have hs : plainStr s = true := by simpa [plainStr] using h.2
    have : jsonEscape (c :: s) = escChar c ++ jsonEscape s := by simp [jsonEscape]
    rw [this, ih hs, escChar_plain h.1.1.1.1 h.1.1.1.2 h.1.1.2 h.1.2]
    rfl

theorem parseJStr_plain (s : Str) (h : plainStr s = true) (rest : List Char) :
    parseJStr (s ++ '"' :: rest) = some (s, rest) := by
  have := parseJStr_jsonEscape s rest
  rwa [jsonEscape_plain s h] at this

/-! ### white space, padding -/

theorem skipWs_replicate (n : Nat) (t : List Char) : skipWs (List.replicate n ' ' ++ t) = skipWs t := by
  induction n with
  | zero => rfl
  | succ n ih => simp [List.replicate_succ, skipWs, isWs, ih]

theorem skipWs_cons_of_not_ws {c : Char} (h : isWs c = false) (t : List Char) : skipWs (c :: t) = c :: t := by
  simp [skipWs, h]

theorem skipWs_nl (t : List Char) : skipWs ('\n' :: t) = skipWs t := by
  simp [skipWs, isWs]

/-! ### insertion-ordered dictionaries -/

def keysNodup {E} : List (Str × E) → Bool
  | [] => true
  | kv :: rest => rest.all (fun x => x.1 != kv.1) && keysNodup rest

theorem dictSet_append_fresh {E} (d : List (Str × E)) (kv : Str × E) (h : d.all (fun x => x.1 != kv.1) = true) :
    dictSet d kv = d ++ [kv] := by
  induction d with
  | nil => rfl
  | cons a d ih =>
    obtain ⟨k, v⟩ := a
    simp only [List.all_cons, Bool.and_eq_true, bne_iff_ne, ne_eq] at h
    simp [dictSet, h.1, ih h.2]

theorem dictOfPairs_go {E} (d acc : List (Str × E))
    (hd : keysNodup d = true) (ha : ∀ x ∈ acc, ∀ y ∈ d, x.1 ≠ y.1) :
    d.foldl dictSet acc = acc ++ d := by
  induction d generalizing acc with
  | nil => simp
  | cons kv d ih =>
    simp only [keysNodup, Bool.and_eq_true] at hd
    have hfresh : acc.all (fun x => x.1 != kv.1) = true := by
      simp only [List.all_eq_true, bne_iff_ne, ne_eq]
      intro x hx
      exact ha x hx kv List.mem_cons_self
    simp only [List.foldl_cons, dictSet_append_fresh acc kv hfresh]
    rw [ih (acc ++ [kv]) hd.2]
    · simp
    · intro x hx y hy
      rcases List.mem_append.mp hx with hx | hx
      · exact ha x hx y (List.mem_cons_of_mem _ hy)
      · simp only [List.mem_singleton] at hx
        subst hx
        have := hd.1
        simp only [List.all_eq_true, bne_iff_ne, ne_eq] at this
        exact fun e => this y hy e.symm

/-- a dictionary (distinct keys) survives being rebuilt pair by pair -/
theorem dictOfPairs_nodup {E} (d : List (Str × E)) (hd : keysNodup d = true) : dictOfPairs d = d := by
  simpa [dictOfPairs] using dictOfPairs_go d [] hd (by simp)

/-! ### framing: `"key":   element` lines -/

/-- what may follow an element in `djson` text: `,` (more members) or the newline before `}` -/
def Delim (rest : List Char) : Prop := ∃ r, rest = ',' :: r ∨ rest = '\n' :: r

/-- the law an element codec has to satisfy (for `encode_element`/`decode_element` it is derived from the
scalar / base64 / third-party codec laws in `Props/C11.lean`) -/
structure ElemLaw {E} (encE : E → List Char) (parseE : List Char → Option (E × List Char)) : Prop where
  /-- an encoded element is non-empty and does not start with white space -/
  noLeadWs : ∀ v, ∃ c cs, encE v = c :: cs ∧ isWs c = false
  /-- the element parser reads back exactly the element and stops at the delimiter -/
  parse : ∀ v rest, Delim rest → parseE (encE v ++ rest) = some (v, rest)

theorem fmtKey_shape (k : Str) (t : List Char) :
    ∃ n, fmtKey k ++ t = '"' :: (jsonEscape k ++ '"' :: ':' :: (List.replicate n ' ' ++ t)) := by
  refine ⟨20 - (jsonString k ++ [':']).length, ?_⟩
  simp [fmtKey, padRight, jsonString]

theorem memberLine_head {E} (encE : E → List Char) (kv : Str × E) (t : List Char) :
    ∃ r, memberLine encE kv ++ t = '"' :: r := by
  obtain ⟨n, hn⟩ := fmtKey_shape kv.1 (encE kv.2 ++ t)
  exact ⟨_, by rw [memberLine, List.append_assoc, hn]⟩

theorem membersText_single {E} (encE : E → List Char) (kv : Str × E) :
    membersText encE [kv] = memberLine encE kv := by
  simp [membersText, joinStr]

theorem membersText_cons_cons {E} (encE : E → List Char) (kv kv2 : Str × E) (d : List (Str × E)) :
    membersText encE (kv :: kv2 :: d) = memberLine encE kv ++ (',' :: '\n' :: membersText encE (kv2 :: d)) := by
  simp [membersText, joinStr]

theorem membersText_head {E} (encE : E → List Char) (kv : Str × E) (d : List (Str × E)) (t : List Char) :
    ∃ r, membersText encE (kv :: d) ++ t = '"' :: r := by
  cases d with
  | nil => rw [membersText_single]; exact memberLine_head encE kv t
  | cons kv2 d =>
    rw [membersText_cons_cons, List.append_assoc]
    exact memberLine_head encE kv _

theorem membersText_length {E} (encE : E → List Char) (d : List (Str × E)) :
    d.length ≤ (membersText encE d).length := by
  induction d with
  | nil => simp
  | cons kv d ih =>
    cases d with
    | nil =>
      obtain ⟨r, hr⟩ := memberLine_head encE kv []
      rw [membersText_single]
      simp only [List.append_nil] at hr
      simp [hr]
    | cons kv2 d =>
      obtain ⟨r, hr⟩ := memberLine_head encE kv []
      simp only [List.append_nil] at hr
      rw [membersText_cons_cons, hr]
      simp only [List.length_cons, List.cons_append, List.length_append] at ih ⊢
      omega

theorem parseMembers_succ {E} (parseE : List Char → Option (E × List Char)) (fuel : Nat) (t : List Char)
    (acc : List (Str × E)) :
    parseMembers parseE (fuel + 1) t acc =
      match t with
      | '"' :: t1 =>
        match parseJStr t1 with
        | some (k, t2) =>
          match skipWs t2 with
          | ':' :: t3 =>
            match parseE (skipWs t3) with
            | some (v, t4) =>
              match skipWs t4 with
              | ',' :: t5 => parseMembers parseE fuel (skipWs t5) (acc ++ [(k, v)])
              | '}' :: t5 => some (acc ++ [(k, v)], t5)
              | _ => none
            | none => none
          | _ => none
        | none => none
      | _ => none := rfl

/-- one member line followed by a delimiter is consumed by one round of `parseMembers` -/
theorem parseMembers_line {E} {encE : E → List Char} {parseE : List Char → Option (E × List Char)}
    (law : ElemLaw encE parseE) (fuel : Nat) (kv : Str × E) (rest : List Char) (hrest : Delim rest)
    (acc : List (Str × E)) :
    parseMembers parseE (fuel + 1) (memberLine encE kv ++ rest) acc =
      match skipWs rest with
      | ',' :: t5 => parseMembers parseE fuel (skipWs t5) (acc ++ [kv])
      | '}' :: t5 => some (acc ++ [kv], t5)
      | _ => none := by
  obtain ⟨k, v⟩ := kv
  obtain ⟨n, hn⟩ := fmtKey_shape k (encE v ++ rest)
  obtain ⟨c, cs, hc, hws⟩ := law.noLeadWs v
  rw [memberLine, List.append_assoc, hn, parseMembers_succ]
  simp only [parseJStr_jsonEscape]
  have h1 : skipWs (':' :: (List.replicate n ' ' ++ (encE v ++ rest))) = ':' :: (List.replicate n ' ' ++ (encE v ++ rest)) :=
    skipWs_cons_of_not_ws (by decide) _
  have h2 : skipWs (List.replicate n ' ' ++ (encE v ++ rest)) = encE v ++ rest := by
    rw [skipWs_replicate, hc, List.cons_append, skipWs_cons_of_not_ws hws]
  simp only [h1, h2, law.parse v rest hrest]

theorem parseMembers_members {E} {encE : E → List Char} {parseE : List Char → Option (E × List Char)}
    (law : ElemLaw encE parseE) (d : List (Str × E)) (kv : Str × E) (acc : List (Str × E)) (fuel : Nat)
    (post : List Char) (hf : (kv :: d).length ≤ fuel) :
    parseMembers parseE fuel (membersText encE (kv :: d) ++ '\n' :: '}' :: post) acc = some (acc ++ kv :: d, post) := by
  induction d generalizing kv acc fuel with
  | nil =>
    obtain ⟨f, rfl⟩ : ∃ f, fuel = f + 1 := ⟨fuel - 1, by simp at hf; omega⟩
    rw [membersText_single, parseMembers_line law f kv _ ⟨_, Or.inr rfl⟩]
    simp [skipWs, isWs]
  | cons kv2 d ih =>
    obtain ⟨f, rfl⟩ : ∃ f, fuel = f + 1 := ⟨fuel - 1, by simp at hf; omega⟩
    rw [membersText_cons_cons, List.append_assoc, List.cons_append, List.cons_append,
      parseMembers_line law f kv _ ⟨_, Or.inl rfl⟩]
    rw [skipWs_cons_of_not_ws (by decide)]
    simp only
    obtain ⟨r, hr⟩ := membersText_head encE kv2 d ('\n' :: '}' :: post)
    have h3 : skipWs ('\n' :: (membersText encE (kv2 :: d) ++ '\n' :: '}' :: post)) =
        membersText encE (kv2 :: d) ++ '\n' :: '}' :: post := by
      rw [skipWs_nl, hr, skipWs_cons_of_not_ws (by decide)]
    rw [h3, ih kv2 (acc ++ [kv]) f (by simp at hf ⊢; omega)]
    simp

/-- **framing**: `json.loads` (restricted to the member parser `parseE`) reads back the pairs written by
`as_bytes(…, "djson")`, in order, for any number of entries and arbitrary keys -/
theorem parseObject_toDjson {E} {encE : E → List Char} {parseE : List Char → Option (E × List Char)}
    (law : ElemLaw encE parseE) (d : List (Str × E)) :
    parseObject parseE (toDjson encE d) = some d := by
  cases d with
  | nil =>
    simp [parseObject, toDjson, membersText, joinStr, skipWs, isWs]
  | cons kv d =>
    obtain ⟨r, hr⟩ := membersText_head encE kv d ['\n', '}']
    have hlen : (kv :: d).length ≤ (toDjson encE (kv :: d)).length := by
      have := membersText_length encE (kv :: d)
      simp only [toDjson, List.length_append, List.length_cons, List.length_nil] at this ⊢
      omega
    have hp := parseMembers_members law d kv [] (toDjson encE (kv :: d)).length [] hlen
    rw [hr] at hp
    have h0 : skipWs (toDjson encE (kv :: d)) = '{' :: '\n' :: '"' :: r := by
      rw [toDjson, List.append_assoc, hr]
      exact skipWs_cons_of_not_ws (by decide) _
    have h1 : skipWs ('\n' :: '"' :: r) = '"' :: r := by
      rw [skipWs_nl, skipWs_cons_of_not_ws (by decide)]
    rw [parseObject, h0]
    simp only [h1]
    split
    · next t2 heq => exact absurd (List.cons.inj heq).1 (by decide)
    · rw [hp]; simp [skipWs]

end Liquer.StateTypes
