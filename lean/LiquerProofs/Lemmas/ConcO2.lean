/-
Frame facts of the oracle evaluator: the trace only grows; the `get`s of the trace are accounted for by the answers consumed
(`WFO`: against the full answer list `A0`, a world that is not starved has consumed exactly as many answers as it asked, a
starved one has asked more than there are); and once a `get` starves, the evaluation returns `unmodelled` without emitting.
-/
import LiquerProofs.Lemmas.ConcO1

namespace Liquer

/-! ### the keys asked in a trace -/

def COp.key? : COp → Option Str
  | .get k => some k
  | _ => none

/-- the keys of the `get`s of a trace, in order -/
def gets (tr : List COp) : List Str := tr.filterMap COp.key?

@[simp] theorem gets_nil : gets [] = [] := rfl
@[simp] theorem gets_append (a b : List COp) : gets (a ++ b) = gets a ++ gets b := by simp [gets]
@[simp] theorem gets_get (k : Str) : gets [.get k] = [k] := rfl
@[simp] theorem gets_storeMeta (k x : Str) : gets [.storeMeta k x] = [] := rfl
@[simp] theorem gets_store (st : EState) : gets [.store st] = [] := rfl
@[simp] theorem gets_remove (k : Str) : gets [.remove k] = [] := rfl

theorem gets_prefix {a b : List COp} (h : a <+: b) : gets a <+: gets b := by
  obtain ⟨c, rfl⟩ := h; simp

/-! ### accounting -/

/-- against the full answer list `A0`: a world that is not starved has consumed one answer per `get`, a starved one has asked
more often than there are answers -/
def WFO (A0 : List (Option EState)) (w : OW) : Prop :=
  (w.starved = true → A0.length < (gets w.trace).length) ∧
  (w.starved = false → ∃ pre, A0 = pre ++ w.answers ∧ pre.length = (gets w.trace).length)

theorem WFO.init (A : List (Option EState)) : WFO A { answers := A } :=
  ⟨fun h => by simp at h, fun _ => ⟨[], by simp, by simp⟩⟩

/-! ### the primitive operations -/

@[simp] theorem OW.ask_trace (w : OW) (k : Str) : (w.ask k).1.trace = w.trace ++ [.get k] := by
  unfold OW.ask; split <;> rfl

theorem OW.ask_wfo {A0 : List (Option EState)} {w : OW} (h : WFO A0 w) (k : Str) : WFO A0 (w.ask k).1 := by
  unfold OW.ask
  split
  · next a rest ha =>
    refine ⟨fun hs => ?_, fun hs => ?_⟩
    · have := h.1 hs; simp at this ⊢; omega
    · obtain ⟨pre, h1, h2⟩ := h.2 hs
      exact ⟨pre ++ [a], by simp [h1, ha], by simp [h2]⟩
  · next ha =>
    refine ⟨fun _ => ?_, fun hs => by simp at hs⟩
    cases hs : w.starved
    · obtain ⟨pre, h1, h2⟩ := h.2 hs
      simp [h1, ha, h2]
    · have := h.1 hs; simp; omega

/-- an operation that asks nothing: the trace grows by non-`get`s (or not at all), answers and starvation are untouched -/
def Quiet (w w' : OW) : Prop :=
  (∃ d, w'.trace = w.trace ++ d ∧ gets d = []) ∧ w'.starved = w.starved ∧ w'.answers = w.answers

theorem Quiet.refl (w : OW) : Quiet w w := ⟨⟨[], by simp, rfl⟩, rfl, rfl⟩

theorem Quiet.trans {a b c : OW} (h1 : Quiet a b) (h2 : Quiet b c) : Quiet a c := by
  obtain ⟨⟨d1, e1, g1⟩, s1, a1⟩ := h1
  obtain ⟨⟨d2, e2, g2⟩, s2, a2⟩ := h2
  exact ⟨⟨d1 ++ d2, by rw [e2, e1, List.append_assoc], by simp [g1, g2]⟩, s2.trans s1, a2.trans a1⟩

theorem Quiet.prefix {w w' : OW} (h : Quiet w w') : w.trace <+: w'.trace := by
  obtain ⟨⟨d, e, _⟩, _, _⟩ := h; exact ⟨d, e.symm⟩

theorem Quiet.wfo {w w' : OW} (h : Quiet w w') {A0 : List (Option EState)} (hw : WFO A0 w) : WFO A0 w' := by
  obtain ⟨⟨d, e, g⟩, s, a⟩ := h
  unfold WFO at hw ⊢
  rw [s, a, e]
  simpa [g] using hw

theorem Quiet.emit (w : OW) (op : COp) (hop : op.key? = none) : Quiet w (w.emit op) := by
  unfold OW.emit
  split
  · exact Quiet.refl w
  · exact ⟨⟨[op], rfl, by simp [gets, hop]⟩, rfl, rfl⟩

theorem Quiet.storeMeta (w : OW) (k x : Str) : Quiet w (w.storeMeta k x) := Quiet.emit w _ rfl
theorem Quiet.store (w : OW) (st : EState) : Quiet w (w.store st) := Quiet.emit w _ rfl
theorem Quiet.remove (w : OW) (k : Str) : Quiet w (w.remove k) := Quiet.emit w _ rfl
theorem Quiet.log (w : OW) (c : Str) : Quiet w (w.log c) := by
  unfold OW.log; split
  · exact Quiet.refl w
  · exact ⟨⟨[], by simp, rfl⟩, rfl, rfl⟩
theorem Quiet.metaIf (w : OW) (uc : Bool) (k x : Str) : Quiet w (w.metaIf uc k x) := by
  cases uc
  · exact Quiet.refl w
  · exact Quiet.storeMeta w k x

theorem Quiet.logCall (w : OW) (st sig args) : Quiet w (w.logCall st sig args) := by
  unfold OW.logCall; split
  · exact Quiet.refl w
  · exact Quiet.log w _

theorem Quiet.subWO (uc raw o) (w : OW) : Quiet w (subWO uc raw o w) := by
  unfold Liquer.subWO; split
  · exact Quiet.metaIf _ _ _ _
  · exact Quiet.metaIf _ _ _ _
  · exact Quiet.refl w

theorem Quiet.admitWO (uc key st3) (w : OW) : Quiet w (admitWO uc key st3 w) := by
  unfold Liquer.admitWO; split
  · exact Quiet.refl w
  · split
    · exact Quiet.store _ _
    · split
      · exact Quiet.storeMeta _ _ _
      · exact Quiet.remove _ _

theorem Quiet.fileWO (uc key st2) (w : OW) : Quiet w (fileWO uc key st2 w) := by
  unfold Liquer.fileWO; split
  · exact Quiet.refl w
  · split
    · exact Quiet.store _ _
    · exact Quiet.remove _ _

/-! ### results of evaluations -/

/-- the frame of one evaluation with result `r` (`u` is the `unmodelled` result of its type): the trace grows, the accounting
is kept, and an evaluation that starves returns `u` -/
def OkO {α : Type} (u : α) (w : OW) (r : OW × α) : Prop :=
  w.trace <+: r.1.trace ∧ (∀ A0, WFO A0 w → WFO A0 r.1) ∧ (w.starved = false → r.1.starved = true → r.2 = u)

theorem OkO.ret {α : Type} (u : α) (w : OW) (o : α) : OkO u w (w, o) :=
  ⟨List.prefix_refl _, fun _ h => h, fun h1 h2 => by simp_all⟩

theorem Quiet.ok {α : Type} {u : α} {w w' : OW} (h : Quiet w w') (o : α) : OkO u w (w', o) :=
  ⟨h.prefix, fun _ hw => h.wfo hw, fun h1 h2 => by have := h.2.1; simp_all⟩

theorem OkO.after_quiet {α : Type} {u : α} {w w1 : OW} {r : OW × α} (h : Quiet w w1) (h2 : OkO u w1 r) : OkO u w r :=
  ⟨h.prefix.trans h2.1, fun A0 hw => h2.2.1 A0 (h.wfo hw), fun h1 hs => h2.2.2 (by rw [h.2.1]; exact h1) hs⟩

/-- sequential composition: the second evaluation runs only when the first did not return `u` -/
theorem OkO.seq {α β : Type} {u : α} {u' : β} {w w1 : OW} {o1 : α} {r2 : OW × β} (h1 : OkO u w (w1, o1)) (ho : o1 ≠ u)
    (h2 : OkO u' w1 r2) : OkO u' w r2 := by
  refine ⟨h1.1.trans h2.1, fun A0 hw => h2.2.1 A0 (h1.2.1 A0 hw), fun hs hs2 => h2.2.2 ?_ hs2⟩
  cases h : w1.starved
  · rfl
  · exact absurd (h1.2.2 hs h) ho

/-- quiet post-processing of a result -/
theorem OkO.post {α β : Type} {u : α} {u' : β} {w w1 w2 : OW} {o1 : α} {o2 : β} (h1 : OkO u w (w1, o1))
    (hq : Quiet w1 w2) (ho : o1 = u → o2 = u') : OkO u' w (w2, o2) :=
  ⟨h1.1.trans hq.prefix, fun A0 hw => hq.wfo (h1.2.1 A0 hw),
    fun hs hs2 => ho (h1.2.2 hs (by rw [← hq.2.1]; exact hs2))⟩

theorem OkO.mapOut {α β : Type} {u : α} {u' : β} {w w1 : OW} {o1 : α} {o2 : β} (h1 : OkO u w (w1, o1))
    (ho : o1 = u → o2 = u') : OkO u' w (w1, o2) := h1.post (Quiet.refl _) ho

/-! ### the four functions -/

structure FrameAtO (env : Env) (n : Nat) : Prop where
  text : ∀ w t ug, OkO .unmodelled w (evalTextO env n w t ug)
  q : ∀ w q raw extra input uc, OkO .unmodelled w (evalQO env n w q raw extra input uc)
  act : ∀ w st a raw parent extra uc, OkO .unmodelled w (evalActionO env n w st a raw parent extra uc)
  params : ∀ w ps raw parent, OkO (.inr .unmodelled) w (evalParamsO env n w ps raw parent)

theorem call_frameO {env : Env} {n : Nat} (ih : FrameAtO env n) (w1 : OW) (st act raw sig x uc) :
    OkO .unmodelled w1 (evalCallO env n w1 st act raw sig x uc) := by
  unfold evalCallO
  split
  · exact OkO.ret _ _ _
  · exact (Quiet.metaIf _ _ _ _).ok _
  · split
    · exact (Quiet.logCall _ _ _ _).ok _
    · exact ((Quiet.logCall _ _ _ _).trans (Quiet.metaIf _ _ _ _)).ok _
    · exact ((Quiet.logCall _ _ _ _).trans (Quiet.metaIf _ _ _ _)).ok _
    · exact ((Quiet.logCall _ _ _ _).trans (Quiet.metaIf _ _ _ _)).ok _
    · exact ((Quiet.logCall _ _ _ _).trans (Quiet.metaIf _ _ _ _)).ok _
    · next y qtext hc =>
      have h := OkO.after_quiet (Quiet.logCall w1 st sig _) (ih.text (w1.logCall st sig ‹_›) qtext true)
      exact h.post (Quiet.subWO _ _ _ _) (fun hu => by rw [hu]; rfl)

theorem link_frameO {env : Env} {n : Nat} (ih : FrameAtO env n) (w : OW) (lq : Query) (parent : Str) :
    OkO .unmodelled w (evalLinkO env n w lq parent) := by
  unfold evalLinkO
  split
  · exact ih.q _ _ _ _ _ _
  · split
    · split
      · exact OkO.ret _ _ _
      · exact ih.text _ _ _
    · exact OkO.ret _ _ _

theorem params_frameO_step {env : Env} {n : Nat} (ih : FrameAtO env n) (w : OW) (ps : List Param) (raw parent : Str) :
    OkO (.inr .unmodelled) w (evalParamsO env (n+1) w ps raw parent) := by
  cases ps with
  | nil => rw [evalParamsO_nil]; exact OkO.ret _ _ _
  | cons p ps =>
    cases p with
    | str t pos =>
      rw [evalParamsO_str]
      have := ih.params w ps raw parent
      generalize evalParamsO env n w ps raw parent = x at this ⊢
      rcases x with ⟨w1, r⟩
      cases r with
      | inl rest => exact this.mapOut (fun hu => by simp at hu)
      | inr o => exact this
    | link lq pos =>
      rw [evalParamsO_link]
      have h1 := link_frameO ih w lq parent
      generalize evalLinkO env n w lq parent = x at h1 ⊢
      rcases x with ⟨w1, o⟩
      cases o with
      | st v =>
        simp only
        split
        · exact h1.mapOut (fun hu => by simp at hu)
        · have h2 := ih.params w1 ps raw parent
          generalize evalParamsO env n w1 ps raw parent = x at h2 ⊢
          rcases x with ⟨w2, r⟩
          cases r with
          | inl rest => exact (h1.seq (by simp) h2).mapOut (fun hu => by simp at hu)
          | inr o => exact h1.seq (by simp) h2
      | raised a b => exact h1.mapOut (fun hu => by simp at hu)
      | parseError => exact h1.mapOut (fun hu => by simp at hu)
      | unmodelled => exact h1.mapOut (fun _ => rfl)

theorem act_frameO_step {env : Env} {n : Nat} (ih : FrameAtO env n) (w : OW) (st : EState) (a : Action)
    (raw parent : Str) (extra : Extra) (uc : Bool) :
    OkO .unmodelled w (evalActionO env (n+1) w st a raw parent extra uc) := by
  rw [evalActionO_succ]
  have h0 := Quiet.metaIf w uc raw (s "evaluation")
  split
  · exact h0.ok _
  · split
    · exact h0.ok _
    · split
      · exact (h0.trans (Quiet.metaIf _ _ _ _)).ok _
      · have h1 := OkO.after_quiet h0 (ih.params (w.metaIf uc raw (s "evaluation")) a.params raw parent)
        generalize evalParamsO env n (w.metaIf uc raw (s "evaluation")) a.params raw parent = x at h1 ⊢
        rcases x with ⟨w1, r⟩
        cases r with
        | inr o => exact h1.mapOut (fun hu => by simpa using hu)
        | inl given => exact h1.seq (by simp) (call_frameO ih _ _ _ _ _ _ _)

theorem text_frameO_step {env : Env} {n : Nat} (ih : FrameAtO env n) (w : OW) (t : Str) (ug : Bool) :
    OkO .unmodelled w (evalTextO env (n+1) w t ug) := by
  rw [evalTextO_succ]
  split
  · exact OkO.ret _ _ _
  · exact ih.q _ _ _ _ _ _

theorem post_frameO {env : Env} {n : Nat} (ih : FrameAtO env n) (w1 : OW) (st parent r key raw extra uc) :
    OkO .unmodelled w1 (evalPostO env n w1 st parent r key raw extra uc) := by
  unfold evalPostO
  split
  · exact OkO.ret _ _ _
  · exact ((Quiet.metaIf _ _ _ _).trans (Quiet.fileWO _ _ _ _)).ok _
  · next hd a =>
    have h1 := ih.act w1 st a raw parent extra uc
    generalize evalActionO env n w1 st a raw parent extra uc = x at h1 ⊢
    rcases x with ⟨w2, o2⟩
    cases o2 with
    | st st2 => exact h1.post (Quiet.admitWO _ _ _ _) (fun hu => by simp at hu)
    | _ => exact h1
  · exact OkO.ret _ _ _

theorem after_frameO {env : Env} {n : Nat} (ih : FrameAtO env n) (w1 : OW) (o parent r key raw extra uc) :
    OkO .unmodelled w1 (evalAfterO env n w1 o parent r key raw extra uc) := by
  unfold evalAfterO
  split
  · exact OkO.ret _ _ _
  · exact OkO.ret _ _ _
  · exact OkO.ret _ _ _
  · split
    · exact (Quiet.metaIf _ _ _ _).ok _
    · exact post_frameO ih _ _ _ _ _ _ _ _

theorem pre_frameO {env : Env} {n : Nat} (ih : FrameAtO env n) (w : OW) (q raw input uc) :
    OkO .unmodelled w (evalPreO env n w q raw input uc) := by
  unfold evalPreO
  split
  · exact OkO.ret _ _ _
  · exact OkO.after_quiet (Quiet.metaIf _ _ _ _) (ih.q _ _ _ _ _ _)

theorem miss_frameO {env : Env} {n : Nat} (ih : FrameAtO env n) (w : OW) (q : Query) (raw : Str) (extra : Extra)
    (input : Option Val) (uc : Bool) : OkO .unmodelled w (evalMissO env n w q raw extra input uc) := by
  unfold evalMissO
  split
  · exact OkO.ret _ _ _
  · have h1 := pre_frameO ih w q raw input uc
    generalize evalPreO env n w q raw input uc = x at h1 ⊢
    rcases x with ⟨w1, o⟩
    by_cases ho : o = .unmodelled
    · subst ho; exact h1
    · exact h1.seq ho (after_frameO ih _ _ _ _ _ _ _ _)

theorem OW.askIf_prefix (w : OW) (c : Bool) (k : Str) : w.trace <+: (w.askIf c k).1.trace := by
  unfold OW.askIf; split
  · simp
  · exact List.prefix_refl _

theorem OW.askIf_wfo {A0 : List (Option EState)} {w : OW} (h : WFO A0 w) (c : Bool) (k : Str) : WFO A0 (w.askIf c k).1 := by
  unfold OW.askIf; split
  · exact OW.ask_wfo h k
  · exact h

theorem q_frameO_step {env : Env} {n : Nat} (ih : FrameAtO env n) (w : OW) (q : Query) (raw : Str) (extra : Extra)
    (input : Option Val) (uc : Bool) :
    OkO .unmodelled w (evalQO env (n+1) w q raw extra input uc) := by
  rw [evalQO_succ']
  have hp := OW.askIf_prefix w (extra.isEmpty && input.isNone && uc) (q.encode Gen.escapeTable)
  have hw := fun A0 (h : WFO A0 w) => OW.askIf_wfo h (extra.isEmpty && input.isNone && uc) (q.encode Gen.escapeTable)
  generalize w.askIf (extra.isEmpty && input.isNone && uc) (q.encode Gen.escapeTable) = a at hp hw ⊢
  split
  · exact ⟨hp, hw, fun _ _ => rfl⟩
  · next hs =>
    have hs : a.1.starved = false := by simpa using hs
    split
    · exact ⟨hp, hw, fun _ h => by simp [hs] at h⟩
    · have h2 := miss_frameO ih a.1 q raw extra input uc
      exact ⟨hp.trans h2.1, fun A0 h => h2.2.1 A0 (hw A0 h), fun _ h => h2.2.2 hs h⟩

theorem frameAtO_zero (env : Env) : FrameAtO env 0 where
  text := fun w t ug => by rw [evalTextO_zero]; exact OkO.ret _ _ _
  q := fun w q raw extra input uc => by rw [evalQO_zero]; exact OkO.ret _ _ _
  act := fun w st a raw parent extra uc => by rw [evalActionO_zero]; exact OkO.ret _ _ _
  params := fun w ps raw parent => by rw [evalParamsO_zero]; exact OkO.ret _ _ _

/-- every oracle evaluation only extends the trace, keeps the accounting, and returns `unmodelled` when it starves -/
theorem frameO (env : Env) : ∀ n, FrameAtO env n
  | 0 => frameAtO_zero env
  | n + 1 =>
    have ih := frameO env n
    { text := text_frameO_step ih, q := q_frameO_step ih, act := act_frameO_step ih, params := params_frameO_step ih }

end Liquer
