/-
Lemmas about the codec of the two own state types (`LiquerModel/StateTypesCodec.lean`), used by `Props/C11.lean`.
-/
import LiquerModel.StateTypesCodec

namespace Liquer.StateTypes
open Liquer

/-- strict UTF-8 decoding inverts UTF-8 encoding on every string of Unicode scalar values
(core: `List.utf8Decode?_utf8Encode`) -/
theorem utf8Strict_utf8Bytes (s : Str) : utf8Strict (utf8Bytes s) = some s := by
  have h := @List.utf8Decode?_utf8Encode s
  unfold List.utf8Encode at h
  simp [utf8Strict, utf8Bytes, decUtf8?, h]

/-- the strict decoder accepts nothing but encodings: what it returns encodes to the bytes it was given
(so two different byte strings never decode to the same text) -/
theorem utf8Bytes_of_utf8Strict (b : List UInt8) (s : Str) (h : utf8Strict b = some s) : utf8Bytes s = b := by
  simp only [utf8Strict, decUtf8?, Option.map_eq_some_iff] at h
  obtain ⟨a, ha, rfl⟩ := h
  have hs : (b.toByteArray.utf8Decode?).isSome = true := by simp [ha]
  have := @ByteArray.utf8Encode_get_utf8Decode? b.toByteArray hs
  simp only [ha, Option.get_some] at this
  unfold List.utf8Encode at this
  exact List.toByteArray_inj.mp this

/-- an extension a row writes has a media type -/
theorem mimeOf_of_writesExt (r : Row) (e : Str) (h : r.writesExt e = true) : ∃ m, r.mimeOf e = some m := by
  unfold Row.writesExt at h
  unfold Row.mimeOf
  generalize r.writes = ws at h
  induction ws with
  | nil => simp at h
  | cons w ws ih =>
    obtain ⟨a, m⟩ := w
    simp only [lookup]
    split
    · exact ⟨m, rfl⟩
    · next hne =>
      apply ih
      simpa [hne] using h

end Liquer.StateTypes
