/-
Properties of the reference interpretation alone: fuel monotonicity (a modelled result is stable under more
fuel), independence of successful results from the as-typed text and from empty extra parameters.
-/
import LiquerProofs.Lemmas.EvalStep

namespace Liquer

/-! ### stage lemmas: what `unmodelled` inputs produce -/

@[simp] theorem subOutcome_unmodelled (st act raw sig xv x) : subOutcome st act raw sig xv x .unmodelled = .unmodelled := rfl

@[simp] theorem refAfter_unmodelled (env n parent r key raw extra) :
    refAfter env n .unmodelled parent r key raw extra = (.unmodelled, []) := rfl

/-! ### monotonicity in the fuel -/

/-- the four statements at one fuel level -/
def MonoAt (env : Env) (n : Nat) : Prop :=
  (∀ q raw extra input, (refQ env n q raw extra input).1 ≠ .unmodelled →
      refQ env (n+1) q raw extra input = refQ env n q raw extra input) ∧
  (∀ st a raw parent extra, (refAction env n st a raw parent extra).1 ≠ .unmodelled →
      refAction env (n+1) st a raw parent extra = refAction env n st a raw parent extra) ∧
  (∀ ps raw parent, (refParams env n ps raw parent).1 ≠ .inr .unmodelled →
      refParams env (n+1) ps raw parent = refParams env n ps raw parent) ∧
  (∀ t, (refText env n t).1 ≠ .unmodelled → refText env (n+1) t = refText env n t)

theorem refCall_mono {env : Env} {n : Nat} (ih : MonoAt env n) (st act raw sig x)
    (h : (refCall env n st act raw sig x).1 ≠ .unmodelled) :
    refCall env (n+1) st act raw sig x = refCall env n st act raw sig x := by
  unfold refCall at h ⊢
  split
  · rfl
  · rfl
  · next args hpa =>
    simp only [hpa] at h
    split
    all_goals try rfl
    next y qtext hc =>
      simp only [hc] at h
      have : (refText env n qtext).1 ≠ .unmodelled := by
        intro hu; rw [hu] at h; simp at h
      rw [ih.2.2.2 qtext this]

theorem refPost_mono {env : Env} {n : Nat} (ih : MonoAt env n) (st parent r key raw extra)
    (h : (refPost env n st parent r key raw extra).1 ≠ .unmodelled) :
    refPost env (n+1) st parent r key raw extra = refPost env n st parent r key raw extra := by
  unfold refPost at h ⊢
  split
  · rfl
  · rfl
  · next a =>
    simp only at h
    have : (refAction env n st a raw parent extra).1 ≠ .unmodelled := by
      intro hu; rw [hu] at h; simp at h
    rw [ih.2.1 _ _ _ _ _ this]
  · rfl

theorem refAfter_mono {env : Env} {n : Nat} (ih : MonoAt env n) (o parent r key raw extra)
    (h : (refAfter env n o parent r key raw extra).1 ≠ .unmodelled) :
    refAfter env (n+1) o parent r key raw extra = refAfter env n o parent r key raw extra := by
  unfold refAfter at h ⊢
  split
  · rfl
  · rfl
  · rfl
  · split
    · rfl
    · next hne => simp only [hne] at h; exact refPost_mono ih _ _ _ _ _ _ h

theorem refLink_mono {env : Env} {n : Nat} (ih : MonoAt env n) (lq parent)
    (h : (refLink env n lq parent).1 ≠ .unmodelled) :
    refLink env (n+1) lq parent = refLink env n lq parent := by
  unfold refLink at h ⊢
  split
  · next hc => simp only [hc, if_true] at h; exact ih.1 _ _ _ _ h
  · next hc =>
    simp only [hc] at h
    split
    · split
      · rfl
      · next pq hpq => simp only [hpq] at h; exact ih.2.2.2 _ h
    · rfl

theorem mono_zero (env : Env) : MonoAt env 0 := by
  refine ⟨?_, ?_, ?_, ?_⟩
  · intro q raw extra input h; simp [refQ_zero] at h
  · intro st a raw parent extra h; simp [refAction_zero] at h
  · intro ps raw parent h; simp [refParams_zero] at h
  · intro t h; simp [refText_zero] at h

theorem mono_succ_Q {env : Env} {n : Nat} (ih : MonoAt env n) (q raw extra input)
    (h : (refQ env (n+1) q raw extra input).1 ≠ .unmodelled) :
    refQ env (n+2) q raw extra input = refQ env (n+1) q raw extra input := by
  rw [refQ_succ] at h ⊢
  rw [refQ_succ env n]
  split
  · rfl
  · next hres =>
    simp only [hres] at h
    split
    · next hp => simp only [hp] at h; exact refAfter_mono ih _ _ _ _ _ _ h
    · next p r hp =>
      simp only [hp] at h
      split
      · next hpe => simp only [hpe, if_true] at h; exact refAfter_mono ih _ _ _ _ _ _ h
      · next hpe =>
        simp only [hpe] at h
        have h1 : (refQ env n p (p.encode Gen.escapeTable) .none input).1 ≠ .unmodelled := by
          intro hu; rw [hu] at h; simp at h
        rw [ih.1 _ _ _ _ h1, refAfter_mono ih _ _ _ _ _ _ h]

theorem mono_succ_A {env : Env} {n : Nat} (ih : MonoAt env n) (st a raw parent extra)
    (h : (refAction env (n+1) st a raw parent extra).1 ≠ .unmodelled) :
    refAction env (n+2) st a raw parent extra = refAction env (n+1) st a raw parent extra := by
  rw [refAction_succ] at h ⊢
  rw [refAction_succ env n]
  split
  · rfl
  · next nss hns =>
    simp only [hns] at h
    split
    · rfl
    · next hl =>
      simp only [hl] at h
      split
      · rfl
      · next sig hr =>
        simp only [hr] at h
        rcases hp : refParams env n a.params raw parent with ⟨r, c1⟩
        rw [hp] at h
        have hpm : refParams env (n+1) a.params raw parent = (r, c1) := by
          rw [← hp]; apply ih.2.2.1
          rw [hp]; cases r with
          | inl g => simp
          | inr o => simp only [ne_eq, Sum.inr.injEq]; exact h
        rw [hpm]
        cases r with
        | inr o => rfl
        | inl g =>
          simp only at h ⊢
          rw [refCall_mono ih _ _ _ _ _ h]

theorem mono_succ_P {env : Env} {n : Nat} (ih : MonoAt env n) (ps raw parent)
    (h : (refParams env (n+1) ps raw parent).1 ≠ .inr .unmodelled) :
    refParams env (n+2) ps raw parent = refParams env (n+1) ps raw parent := by
  cases ps with
  | nil => simp [refParams_nil]
  | cons p ps =>
    cases p with
    | str t pos =>
      rw [refParams_str] at h ⊢
      rw [refParams_str env n]
      rcases hp : refParams env n ps raw parent with ⟨r, c⟩
      rw [hp] at h
      have hpm : refParams env (n+1) ps raw parent = (r, c) := by
        rw [← hp]; apply ih.2.2.1
        rw [hp]; cases r with
        | inl g => simp
        | inr o => exact h
      rw [hpm]
    | link lq pos =>
      rw [refParams_link] at h ⊢
      rw [refParams_link env n]
      rcases hl : refLink env n lq parent with ⟨o, c1⟩
      rw [hl] at h
      have hlm : refLink env (n+1) lq parent = (o, c1) := by
        rw [← hl]; apply refLink_mono ih
        rw [hl]; intro hu; simp only at hu; subst hu; simp at h
      rw [hlm]
      cases o with
      | st v =>
        simp only at h ⊢
        cases hv : v.isError
        · simp only [hv, Bool.false_eq_true, if_false] at h ⊢
          rcases hp : refParams env n ps raw parent with ⟨r, c⟩
          rw [hp] at h
          have hpm : refParams env (n+1) ps raw parent = (r, c) := by
            rw [← hp]; apply ih.2.2.1
            rw [hp]; cases r with
            | inl g => simp
            | inr o => exact h
          rw [hpm]
        · simp
      | _ => rfl

theorem mono_succ_T {env : Env} {n : Nat} (ih : MonoAt env n) (t)
    (h : (refText env (n+1) t).1 ≠ .unmodelled) :
    refText env (n+2) t = refText env (n+1) t := by
  rw [refText_succ] at h ⊢
  rw [refText_succ env n]
  split
  · rfl
  · next q hq => simp only [hq] at h; exact ih.1 _ _ _ _ h

theorem ref_mono (env : Env) : ∀ n, MonoAt env n
  | 0 => mono_zero env
  | n + 1 => ⟨mono_succ_Q (ref_mono env n), mono_succ_A (ref_mono env n), mono_succ_P (ref_mono env n),
      mono_succ_T (ref_mono env n)⟩

theorem refQ_mono_le (env : Env) {m m' : Nat} (hle : m ≤ m') (q raw extra input)
    (h : (refQ env m q raw extra input).1 ≠ .unmodelled) :
    refQ env m' q raw extra input = refQ env m q raw extra input := by
  induction hle with
  | refl => rfl
  | step _ ih => rw [(ref_mono env _).1 _ _ _ _ (by rw [ih]; exact h), ih]

theorem refAction_mono_le (env : Env) {m m' : Nat} (hle : m ≤ m') (st a raw parent extra)
    (h : (refAction env m st a raw parent extra).1 ≠ .unmodelled) :
    refAction env m' st a raw parent extra = refAction env m st a raw parent extra := by
  induction hle with
  | refl => rfl
  | step _ ih => rw [(ref_mono env _).2.1 _ _ _ _ _ (by rw [ih]; exact h), ih]

theorem refParams_mono_le (env : Env) {m m' : Nat} (hle : m ≤ m') (ps raw parent)
    (h : (refParams env m ps raw parent).1 ≠ .inr .unmodelled) :
    refParams env m' ps raw parent = refParams env m ps raw parent := by
  induction hle with
  | refl => rfl
  | step _ ih => rw [(ref_mono env _).2.2.1 _ _ _ (by rw [ih]; exact h), ih]

theorem refText_mono_le (env : Env) {m m' : Nat} (hle : m ≤ m') (t)
    (h : (refText env m t).1 ≠ .unmodelled) :
    refText env m' t = refText env m t := by
  induction hle with
  | refl => rfl
  | step _ ih => rw [(ref_mono env _).2.2.2 _ (by rw [ih]; exact h), ih]

theorem refLink_mono_le (env : Env) {m m' : Nat} (hle : m ≤ m') (lq parent)
    (h : (refLink env m lq parent).1 ≠ .unmodelled) :
    refLink env m' lq parent = refLink env m lq parent := by
  induction hle with
  | refl => rfl
  | step _ ih => rw [refLink_mono (ref_mono env _) _ _ (by rw [ih]; exact h), ih]

/-- the reference interpretation is deterministic modulo fuel: two modelled results agree -/
theorem refText_det (env : Env) {m m' : Nat} (t)
    (h : (refText env m t).1 ≠ .unmodelled) (h' : (refText env m' t).1 ≠ .unmodelled) :
    refText env m t = refText env m' t := by
  rw [← refText_mono_le env (Nat.le_max_left m m') t h, ← refText_mono_le env (Nat.le_max_right m m') t h']

theorem refQ_det (env : Env) {m m' : Nat} (q raw extra input)
    (h : (refQ env m q raw extra input).1 ≠ .unmodelled) (h' : (refQ env m' q raw extra input).1 ≠ .unmodelled) :
    refQ env m q raw extra input = refQ env m' q raw extra input := by
  rw [← refQ_mono_le env (Nat.le_max_left m m') _ _ _ _ h, ← refQ_mono_le env (Nat.le_max_right m m') _ _ _ _ h']

/-! ### parameters: the aborting outcome is never a state; converted parameters do not depend on the as-typed text -/

theorem refParams_inr_not_st (env : Env) : ∀ n ps raw parent e, (refParams env n ps raw parent).1 ≠ .inr (.st e)
  | 0, ps, raw, parent, e => by simp [refParams_zero]
  | n + 1, [], raw, parent, e => by simp [refParams_nil]
  | n + 1, .str t pos :: ps, raw, parent, e => by
    rw [refParams_str]
    have ih := refParams_inr_not_st env n ps raw parent e
    rcases hp : refParams env n ps raw parent with ⟨r, c⟩
    rw [hp] at ih
    cases r with
    | inl g => simp
    | inr o => exact ih
  | n + 1, .link lq pos :: ps, raw, parent, e => by
    rw [refParams_link]
    have ih := refParams_inr_not_st env n ps raw parent e
    rcases refLink env n lq parent with ⟨o, c1⟩
    cases o with
    | st v =>
      simp only
      split
      · simp
      · rcases hp : refParams env n ps raw parent with ⟨r, c⟩
        rw [hp] at ih
        cases r with
        | inl g => simp
        | inr o => exact ih
    | _ => simp

theorem refParams_raw_indep (env : Env) (raw' : Str) : ∀ n ps raw parent g, (refParams env n ps raw parent).1 = .inl g →
    refParams env n ps raw' parent = refParams env n ps raw parent
  | 0, ps, raw, parent, g, h => by simp [refParams_zero] at h
  | n + 1, [], raw, parent, g, h => by simp [refParams_nil]
  | n + 1, .str t pos :: ps, raw, parent, g, h => by
    rw [refParams_str] at h ⊢
    rw [refParams_str]
    have ih := refParams_raw_indep env raw' n ps raw parent
    rcases hp : refParams env n ps raw parent with ⟨r, c⟩
    rw [hp] at h ih
    cases r with
    | inl g' => rw [ih g' rfl]
    | inr o => simp at h
  | n + 1, .link lq pos :: ps, raw, parent, g, h => by
    rw [refParams_link] at h ⊢
    rw [refParams_link]
    have ih := refParams_raw_indep env raw' n ps raw parent
    generalize refLink env n lq parent = x at h ⊢
    rcases x with ⟨o, c1⟩
    cases o with
    | st v =>
      simp only at h ⊢
      cases hv : v.isError
      · simp only [hv, Bool.false_eq_true, if_false] at h ⊢
        rcases hp : refParams env n ps raw parent with ⟨r, c⟩
        rw [hp] at h ih
        cases r with
        | inl g' => rw [ih g' rfl]
        | inr o => simp at h
      · simp [hv] at h
    | _ => simp at h

/-! ### successful results do not depend on the as-typed text nor on empty extra parameters -/

theorem applyExtra_of_isEmpty {extra : Extra} (h : extra.isEmpty = true) (given : List PVal) :
    applyExtra extra given = (given, [], false) := by
  cases extra with
  | none => rfl
  | list vs => simp [Extra.isEmpty] at h; simp [applyExtra, h]
  | dict kv => simp [Extra.isEmpty] at h; simp [applyExtra, h]

theorem applyExtra_of_not_isEmpty {extra : Extra} (h : extra.isEmpty = false) (given : List PVal) :
    (applyExtra extra given).2.2 = true := by
  cases extra with
  | none => simp [Extra.isEmpty] at h
  | list vs => simp [Extra.isEmpty] at h; simp [applyExtra, h]
  | dict kv => simp [Extra.isEmpty] at h; simp [applyExtra, h]

theorem refCall_raw_indep (env : Env) (n : Nat) (st act raw raw' sig x s)
    (h : (refCall env n st act raw sig x).1 = .st s) (hs : s.isError = false) :
    refCall env n st act raw' sig x = refCall env n st act raw sig x := by
  unfold refCall at h ⊢
  split
  · rfl
  · next hpa => simp only [hpa, Outcome.st.injEq] at h; subst h; simp [failSt] at hs
  · next args hpa =>
    simp only [hpa] at h
    split
    all_goals try rfl
    · next hc => simp only [hc, Outcome.st.injEq] at h; subst h; simp [failSt] at hs
    · next y qtext hc =>
      simp only [hc] at h
      cases ho : (refText env n qtext).1 with
      | parseError => rw [ho] at h; simp only [subOutcome, Outcome.st.injEq] at h; subst h; simp [failSt] at hs
      | _ => simp [subOutcome]

theorem refCall_xv_volatile (env : Env) (n : Nat) (st act raw sig x s)
    (h : (refCall env n st act raw sig x).1 = .st s) (hs : s.isError = false) (hx : x.2.2 = true) :
    s.volatile = true := by
  unfold refCall at h
  split at h
  · simp at h
  · simp only [Outcome.st.injEq] at h; subst h; simp [failSt] at hs
  · split at h
    · simp at h
    · simp only [Outcome.st.injEq] at h; subst h; simp [failSt] at hs
    · simp only [Outcome.st.injEq] at h; subst h; simp [doneSt, hx]
    · simp only [Outcome.st.injEq] at h; subst h; simp [doneSt, hx]
    · simp only [Outcome.st.injEq] at h; subst h; simp [doneSt, hx]
    · simp only at h
      unfold subOutcome at h
      split at h
      · split at h
        · simp only [Outcome.st.injEq] at h; subst h; simp [failSt] at hs
        · simp only [Outcome.st.injEq] at h; subst h; simp [doneSt, hx]
      · simp only [Outcome.st.injEq] at h; subst h; simp [failSt] at hs
      · simp at h
      · simp at h

theorem refAction_good_indep (env : Env) (raw' : Str) (n : Nat) (st a raw parent extra s)
    (h : (refAction env n st a raw parent extra).1 = .st s) (hs : s.isError = false)
    (hx : extra.isEmpty = true ∨ s.volatile = false) :
    refAction env n st a raw' parent .none = refAction env n st a raw parent extra := by
  cases n with
  | zero => simp [refAction_zero] at h
  | succ n =>
    rw [refAction_succ] at h ⊢
    rw [refAction_succ]
    split
    · rfl
    · next nss hns =>
      simp only [hns] at h
      split
      · rfl
      · next hl =>
        simp only [hl, Bool.false_eq_true, if_false] at h
        split
        · next hr => simp only [hr, Outcome.st.injEq] at h; subst h; simp [failSt] at hs
        · next sig hr =>
          simp only [hr] at h
          have hni := refParams_inr_not_st env n a.params raw parent s
          rcases hp : refParams env n a.params raw parent with ⟨r, c1⟩
          rw [hp] at h hni
          cases r with
          | inr o => simp only at h; subst h; simp at hni
          | inl g =>
            rw [refParams_raw_indep env raw' n a.params raw parent g (by rw [hp]), hp]
            simp only at h ⊢
            have he : extra.isEmpty = true := by
              rcases hx with hx | hx
              · exact hx
              · cases he : extra.isEmpty with
                | true => rfl
                | false =>
                  have := refCall_xv_volatile env n st a raw sig _ s h hs (applyExtra_of_not_isEmpty he g)
                  rw [this] at hx; simp at hx
            rw [applyExtra_of_isEmpty he] at h ⊢
            rw [applyExtra_of_isEmpty (by rfl : Extra.none.isEmpty = true)]
            rw [refCall_raw_indep env n st a raw raw' sig _ s h hs]

theorem refPost_good_indep (env : Env) (raw' : Str) (n : Nat) (st parent r key raw extra s)
    (h : (refPost env n st parent r key raw extra).1 = .st s) (hs : s.isError = false)
    (hx : extra.isEmpty = true ∨ s.volatile = false) :
    refPost env n st parent r key raw' .none = refPost env n st parent r key raw extra := by
  unfold refPost at h ⊢
  split
  · rfl
  · rfl
  · next a =>
    simp only at h
    cases ho : (refAction env n st a raw parent extra).1 with
    | st st2 =>
      rw [ho] at h
      simp only [Outcome.st.injEq] at h; subst h
      rw [refAction_good_indep env raw' n st a raw parent extra st2 ho hs hx, ho]
    | _ => rw [ho] at h; simp at h
  · rfl

theorem refAfter_good_indep (env : Env) (raw' : Str) (n : Nat) (o parent r key raw extra s)
    (h : (refAfter env n o parent r key raw extra).1 = .st s) (hs : s.isError = false)
    (hx : extra.isEmpty = true ∨ s.volatile = false) :
    refAfter env n o parent r key raw' .none = refAfter env n o parent r key raw extra := by
  unfold refAfter at h ⊢
  split
  · rfl
  · rfl
  · rfl
  · split
    · rfl
    · next hne => simp only [hne] at h; exact refPost_good_indep env raw' n _ _ _ _ _ _ s h hs hx

/-- a successful reference result does not depend on the text the query was typed as, nor on empty extra
parameters; non-empty extra parameters make the result volatile -/
theorem refQ_good_indep (env : Env) (raw' : Str) (n : Nat) (q raw extra input s)
    (h : (refQ env n q raw extra input).1 = .st s) (hs : s.isError = false)
    (hx : extra.isEmpty = true ∨ s.volatile = false) :
    refQ env n q raw' .none input = refQ env n q raw extra input := by
  cases n with
  | zero => simp [refQ_zero] at h
  | succ n =>
    rw [refQ_succ] at h ⊢
    rw [refQ_succ]
    split
    · rfl
    · next hres =>
      simp only [hres] at h
      split
      · next hp => simp only [hp] at h; exact refAfter_good_indep env raw' n _ _ _ _ _ _ s h hs hx
      · next p r hp =>
        simp only [hp] at h
        split
        · next hpe => simp only [hpe, if_true] at h; exact refAfter_good_indep env raw' n _ _ _ _ _ _ s h hs hx
        · next hpe =>
          simp only [hpe] at h
          rw [refAfter_good_indep env raw' n _ _ _ _ _ _ s h hs hx]

theorem refAction_extra_empty (env : Env) (n : Nat) (st a raw parent) {extra : Extra} (hx : extra.isEmpty = true) :
    refAction env n st a raw parent extra = refAction env n st a raw parent .none := by
  cases n with
  | zero => simp [refAction_zero]
  | succ n =>
    rw [refAction_succ, refAction_succ]
    simp only [applyExtra_of_isEmpty hx, applyExtra_of_isEmpty (rfl : Extra.none.isEmpty = true)]

theorem refQ_extra_empty (env : Env) (n : Nat) (q raw input) {extra : Extra} (hx : extra.isEmpty = true) :
    refQ env n q raw extra input = refQ env n q raw .none input := by
  cases n with
  | zero => simp [refQ_zero]
  | succ n =>
    rw [refQ_succ, refQ_succ]
    simp only [refAfter, refPost, refAction_extra_empty env n _ _ _ _ hx]

/-- the other direction of the same fact, from any spelling without extra parameters -/
theorem refQ_good_indep' (env : Env) (raw' : Str) (n : Nat) (q raw extra input s)
    (h : (refQ env n q raw .none input).1 = .st s) (hs : s.isError = false) (hx : extra.isEmpty = true) :
    refQ env n q raw' extra input = refQ env n q raw .none input := by
  rw [refQ_extra_empty env n q raw' input hx]
  exact refQ_good_indep env raw' n q raw .none input s h hs (Or.inl rfl)

end Liquer

namespace Liquer

/-! ### the `status` of the input state is never read and always overwritten by an action -/

theorem refCall_status (env : Env) (n : Nat) (st : EState) (x0 : Str) (act raw sig x) :
    refCall env n { st with status := x0 } act raw sig x = refCall env n st act raw sig x := rfl

theorem refAction_status (env : Env) (n : Nat) (st : EState) (x0 : Str) (a raw parent extra) :
    refAction env n { st with status := x0 } a raw parent extra = refAction env n st a raw parent extra := by
  cases n with
  | zero => simp [refAction_zero]
  | succ n => rw [refAction_succ, refAction_succ]; rfl

theorem evalCall_status (env : Env) (n : Nat) (w : World) (st : EState) (x0 : Str) (act raw sig x uc) :
    evalCall env n w { st with status := x0 } act raw sig x uc = evalCall env n w st act raw sig x uc := rfl

theorem evalAction_status (env : Env) (n : Nat) (w : World) (st : EState) (x0 : Str) (a raw parent extra uc) :
    evalAction env n w { st with status := x0 } a raw parent extra uc = evalAction env n w st a raw parent extra uc := by
  cases n with
  | zero => simp [evalAction_zero]
  | succ n => rw [evalAction_succ, evalAction_succ]; rfl

/-- states equal up to status are treated alike by an action -/
theorem refAction_core (env : Env) (n : Nat) {st st' : EState} (h : st.core = st'.core) (a raw parent extra) :
    refAction env n st a raw parent extra = refAction env n st' a raw parent extra := by
  rw [EState.core_eq_withStatus h, refAction_status]

theorem evalAction_core (env : Env) (n : Nat) (w : World) {st st' : EState} (h : st.core = st'.core) (a raw parent extra uc) :
    evalAction env n w st a raw parent extra uc = evalAction env n w st' a raw parent extra uc := by
  rw [EState.core_eq_withStatus h, evalAction_status]

end Liquer

namespace Liquer

theorem refCall_mono_le (env : Env) {m m' : Nat} (hle : m ≤ m') (st act raw sig x)
    (h : (refCall env m st act raw sig x).1 ≠ .unmodelled) :
    refCall env m' st act raw sig x = refCall env m st act raw sig x := by
  induction hle with
  | refl => rfl
  | step _ ih => rw [refCall_mono (ref_mono env _) _ _ _ _ _ (by rw [ih]; exact h), ih]

theorem refPre_mono_le (env : Env) {m m' : Nat} (hle : m ≤ m') (q input)
    (h : (refPre env m q input).1 ≠ .unmodelled) :
    refPre env m' q input = refPre env m q input := by
  unfold refPre at h ⊢
  split
  · rfl
  · next p hp => simp only [hp] at h; exact refQ_mono_le env hle _ _ _ _ h

end Liquer

namespace Liquer

/-- non-empty extra parameters make a successful result of an action volatile -/
theorem refAction_extra_volatile (env : Env) (n : Nat) (st : EState) (a : Action) (raw parent : Str) (extra : Extra)
    (s : EState) (h : (refAction env n st a raw parent extra).1 = .st s) (hs : s.isError = false)
    (hx : extra.isEmpty = false) : s.volatile = true := by
  cases n with
  | zero => simp [refAction_zero] at h
  | succ n =>
    rw [refAction_succ] at h
    split at h
    · simp at h
    · split at h
      · simp at h
      · split at h
        · simp only [Outcome.st.injEq] at h; subst h; simp [failSt] at hs
        · next sig hr =>
          have hni := refParams_inr_not_st env n a.params raw parent s
          generalize refParams env n a.params raw parent = x at h hni
          rcases x with ⟨r, c1⟩
          cases r with
          | inr o => simp only at h; subst h; simp at hni
          | inl g => exact refCall_xv_volatile env n st a raw sig _ s h hs (applyExtra_of_not_isEmpty hx g)

end Liquer
