/-
C10 helpers, part 3: the stages of one evaluation step — cache look-up, initial state, preparation of the input state,
the command (`cmdH` writes only cells of the state in hand, of the argument values and of the context's variables — the
variable objects of the predecessor state), admission to the cache.
-/
import LiquerProofs.Lemmas.Iso2

namespace Liquer.Iso

/-! ### small facts about the command helpers -/

theorem listAt_some {h : Heap} {v : HV} {a : Addr} {l : List Val} (e : listAt h v = some (a, l)) :
    v = .ref a ∧ h.valAt a = .list l ∧ ∃ x, h.cells a = some (.val x) := by
  cases v with
  | imm v => simp [listAt] at e
  | ref b =>
    simp only [listAt] at e
    split at e
    · rename_i l' hv
      simp only [Option.some.injEq, Prod.mk.injEq] at e
      obtain ⟨rfl, rfl⟩ := e
      refine ⟨rfl, hv, ?_⟩
      rw [Heap.valAt_eq] at hv
      split at hv
      · rename_i v hc; exact ⟨v, hc⟩
      · cases hv
    · cases e

/-- overwriting a value cell by a value cell changes no metadata dictionary -/
theorem metaAt_write_val {h : Heap} {a : Addr} (hv : ∃ x, h.cells a = some (.val x)) (y : Val) (b : Addr) :
    (h.write a (.val y)).metaAt b = h.metaAt b := by
  obtain ⟨x, hx⟩ := hv
  by_cases e : b = a
  · subst e; simp [Heap.metaAt_eq, hx]
  · exact Heap.metaAt_write_ne h _ e

theorem cellsState_write_val {h : Heap} {a : Addr} (hv : ∃ x, h.cells a = some (.val x)) (y : Val) (st : HState) :
    cellsState (h.write a (.val y)) st = cellsState h st := by
  simp [cellsState, cellsMeta, metaAt_write_val hv]

theorem isVal_write_val {h : Heap} {a b : Addr} (hv : ∃ x, h.cells b = some (.val x)) (y : Val) :
    ∃ x, (h.write a (.val y)).cells b = some (.val x) := by
  by_cases e : b = a
  · exact ⟨y, by simp [e]⟩
  · simpa [e] using hv

theorem mem_cellsVars_setVar {vars : List (Str × HV)} {k : Str} {v : HV} {a : Addr}
    (ha : a ∈ cellsVars (setVar vars k v)) : a ∈ cellsVars vars ∨ a ∈ cellsHV v := by
  unfold setVar at ha
  split at ha
  · rw [mem_cellsVars] at ha
    obtain ⟨k', hk⟩ := ha
    rw [List.mem_map] at hk
    obtain ⟨e, he, heq⟩ := hk
    split at heq
    · simp only [Prod.mk.injEq] at heq
      right; rw [heq.2]; simp [cellsHV]
    · left; rw [mem_cellsVars]; exact ⟨k', heq ▸ he⟩
  · rw [cellsVars_append, List.mem_append] at ha
    rcases ha with ha | ha
    · exact Or.inl ha
    · right; simpa [cellsVars] using ha

theorem getVar_mem {vars : List (Str × HV)} {k : Str} {v : HV} (e : getVar vars k = some v) : (k, v) ∈ vars := by
  unfold getVar at e
  rw [Option.map_eq_some_iff] at e
  obtain ⟨x, hx, rfl⟩ := e
  have h1 := List.mem_of_find?_eq_some hx
  have h2 := List.find?_some hx
  have : x.1 = k := by simpa using h2
  rw [← this]
  exact h1

theorem mem_cellsHV_getVar {vars : List (Str × HV)} {k : Str} {a : Addr}
    (ha : a ∈ cellsHV ((getVar vars k).getD (.imm .none))) : a ∈ cellsVars vars := by
  cases e : getVar vars k with
  | none => simp [e, cellsHV] at ha
  | some v =>
    simp only [e, Option.getD_some] at ha
    cases v with
    | imm v => simp [cellsHV] at ha
    | ref b =>
      simp only [cellsHV, List.mem_singleton] at ha
      subst ha
      exact mem_cellsVars.2 ⟨k, getVar_mem e⟩

theorem getVar_listAt {h : Heap} {vars : List (Str × HV)} {k : Str} {a : Addr} {l : List Val}
    (e : (getVar vars k).bind (listAt h) = some (a, l)) :
    getVar vars k = some (.ref a) ∧ a ∈ cellsVars vars ∧ h.valAt a = .list l ∧ ∃ x, h.cells a = some (.val x) := by
  rw [Option.bind_eq_some_iff] at e
  obtain ⟨v, hv, hl⟩ := e
  obtain ⟨rfl, h2, h3⟩ := listAt_some hl
  exact ⟨hv, mem_cellsVars.2 ⟨k, getVar_mem hv⟩, h2, h3⟩

/-! ### the command writes only what it was handed -/

/-- the footprint of a command: the cells of its input state, of its argument values and of the context's variables -/
def cmdFoot (h : Heap) (old : HState) (ctx : List (Str × HV)) (args : List HV) : List Addr :=
  cellsState h old ++ args.flatMap cellsHV ++ cellsVars ctx

theorem mem_cmdFoot {h : Heap} {old : HState} {ctx : List (Str × HV)} {args : List HV} {a : Addr} :
    a ∈ cmdFoot h old ctx args ↔ a ∈ cellsState h old ∨ (∃ v ∈ args, a ∈ cellsHV v) ∨ a ∈ cellsVars ctx := by
  simp [cmdFoot]

theorem cmdH_frame {h : Heap} {old : HState} {ctx : List (Str × HV)} {name : String} {args : List HV} {h4 : Heap} {data : HV}
    {vol caching : Bool}
    (hc : cmdH h old ctx name args = .ok h4 data vol caching) (lt : ∀ a ∈ cmdFoot h old ctx args, a < h.next) :
    HMod (cmdFoot h old ctx args) h h4 ∧
      ∀ a ∈ cellsState h4 ⟨data, old.md⟩, a ∈ cmdFoot h old ctx args ∨ (h.next ≤ a ∧ a < h4.next) := by
  have mdlt : old.md < h.next := lt _ (mem_cmdFoot.2 (Or.inl (md_mem_cellsState _ _)))
  have mdin : old.md ∈ cmdFoot h old ctx args := mem_cmdFoot.2 (Or.inl (md_mem_cellsState _ _))
  -- allocation keeps the dictionary of `old`
  have alloc_case : ∀ c : Cell, HMod (cmdFoot h old ctx args) h (h.alloc c).1 ∧
      ∀ a ∈ cellsState (h.alloc c).1 ⟨.ref h.next, old.md⟩,
        a ∈ cmdFoot h old ctx args ∨ (h.next ≤ a ∧ a < (h.alloc c).1.next) := by
    intro c
    refine ⟨(HExt.alloc h c).toHMod _, fun a ha => ?_⟩
    rw [mem_cellsState, (HExt.alloc h c).metaAt mdlt] at ha
    simp only [cellsHV, List.mem_singleton] at ha
    rcases ha with ha | ha | ha
    · right; subst ha; simp
    · left; subst ha; exact mdin
    · left; exact mem_cmdFoot.2 (Or.inl (by simp [mem_cellsState, ha]))
  -- results that keep the heap
  have same_case : ∀ d : HV, (∀ a ∈ cellsHV d, a ∈ cellsState h old) → HMod (cmdFoot h old ctx args) h h ∧
      ∀ a ∈ cellsState h ⟨d, old.md⟩, a ∈ cmdFoot h old ctx args ∨ (h.next ≤ a ∧ a < h.next) := by
    intro d hd
    refine ⟨HMod.refl _ _, fun a ha => Or.inl (mem_cmdFoot.2 (Or.inl ?_))⟩
    rw [mem_cellsState] at ha
    rcases ha with ha | ha | ha
    · exact hd a ha
    · subst ha; exact md_mem_cellsState _ _
    · simp [mem_cellsState, ha]
  have dataIn : ∀ a ∈ cellsHV old.data, a ∈ cellsState h old := fun a ha => by simp [mem_cellsState, ha]
  unfold cmdH at hc
  split at hc
  · -- one
    simp only [CmdOut.ok.injEq] at hc
    obtain ⟨rfl, rfl, -, -⟩ := hc
    exact same_case _ (fun a ha => by simp [cellsHV] at ha)
  · -- mk
    simp only [CmdOut.ok.injEq] at hc
    obtain ⟨rfl, rfl, -, -⟩ := hc
    exact alloc_case _
  · -- app
    simp only at hc
    split at hc
    · rename_i v _ a l hl
      simp only [CmdOut.ok.injEq] at hc
      obtain ⟨rfl, rfl, -, -⟩ := hc
      obtain ⟨hd, -, hv⟩ := listAt_some hl
      have ain : a ∈ cmdFoot h old ctx [v] := mem_cmdFoot.2 (Or.inl (dataIn a (by simp [hd, cellsHV])))
      refine ⟨HMod.write ain (lt a ain) _, fun x hx => Or.inl (mem_cmdFoot.2 (Or.inl ?_))⟩
      rwa [cellsState_write_val hv] at hx
    · cases hc
  · -- ident
    simp only [CmdOut.ok.injEq] at hc
    obtain ⟨rfl, rfl, -, -⟩ := hc
    exact same_case _ dataIn
  · -- copyl
    simp only at hc
    split at hc
    · simp only [CmdOut.ok.injEq] at hc
      obtain ⟨rfl, rfl, -, -⟩ := hc
      exact alloc_case _
    · cases hc
  · -- ext
    simp only at hc
    split at hc
    · rename_i o _ _ a l b lo hl hlo
      simp only [CmdOut.ok.injEq] at hc
      obtain ⟨rfl, rfl, -, -⟩ := hc
      obtain ⟨hd, -, hv⟩ := listAt_some hl
      obtain ⟨ho, -, hvo⟩ := listAt_some hlo
      have ain : a ∈ cmdFoot h old ctx [o] := mem_cmdFoot.2 (Or.inl (dataIn a (by simp [hd, cellsHV])))
      have bin : b ∈ cmdFoot h old ctx [o] := mem_cmdFoot.2 (Or.inr (Or.inl ⟨o, by simp, by simp [ho, cellsHV]⟩))
      refine ⟨(HMod.write ain (lt a ain) _).trans (HMod.write (h := h.write a _) bin (lt b bin) _) (fun x hx _ => hx),
        fun x hx => Or.inl (mem_cmdFoot.2 (Or.inl ?_))⟩
      rwa [cellsState_write_val (isVal_write_val hvo _), cellsState_write_val hv] at hx
    · cases hc
  · -- pair
    simp only [CmdOut.ok.injEq] at hc
    obtain ⟨rfl, rfl, -, -⟩ := hc
    exact alloc_case _
  · -- let
    simp only at hc
    split at hc
    · rename_i k v _ k' hk
      simp only [CmdOut.ok.injEq] at hc
      obtain ⟨rfl, rfl, -, -⟩ := hc
      refine ⟨HMod.write mdin mdlt _, fun x hx => Or.inl ?_⟩
      rw [mem_cellsState] at hx
      simp only [Heap.metaAt_write_same] at hx
      rcases hx with hx | hx | hx
      · exact mem_cmdFoot.2 (Or.inl (dataIn x hx))
      · subst hx; exact mdin
      · rcases mem_cellsVars_setVar hx with h1 | h1
        · exact mem_cmdFoot.2 (Or.inl (by simp [mem_cellsState, h1]))
        · exact mem_cmdFoot.2 (Or.inr (Or.inl ⟨v, by simp, h1⟩))
    · cases hc
  · -- getvar
    simp only at hc
    split at hc
    · simp only [CmdOut.ok.injEq] at hc
      obtain ⟨rfl, rfl, -, -⟩ := hc
      exact same_case _ (fun a ha => by simp [mem_cellsState, mem_cellsHV_getVar ha])
    · cases hc
  · -- vapp
    simp only at hc
    split at hc
    · split at hc
      · rename_i k v _ k' hk _ a l hl
        simp only [CmdOut.ok.injEq] at hc
        obtain ⟨rfl, rfl, -, -⟩ := hc
        obtain ⟨-, hin, -, hv⟩ := getVar_listAt hl
        have ain : a ∈ cmdFoot h old ctx [k, v] := mem_cmdFoot.2 (Or.inl (by simp [mem_cellsState, hin]))
        refine ⟨HMod.write ain (lt a ain) _, fun x hx => Or.inl (mem_cmdFoot.2 (Or.inl ?_))⟩
        rwa [cellsState_write_val hv] at hx
      · cases hc
    · cases hc
  · -- cvapp
    simp only at hc
    split at hc
    · split at hc
      · rename_i k v _ k' hk _ a l hl
        simp only [CmdOut.ok.injEq] at hc
        obtain ⟨rfl, rfl, -, -⟩ := hc
        obtain ⟨-, hin, -, hv⟩ := getVar_listAt hl
        have ain : a ∈ cmdFoot h old ctx [k, v] := mem_cmdFoot.2 (Or.inr (Or.inr hin))
        refine ⟨HMod.write ain (lt a ain) _, fun x hx => Or.inl (mem_cmdFoot.2 (Or.inl ?_))⟩
        rwa [cellsState_write_val hv] at hx
      · cases hc
    · cases hc
  · -- vol
    simp only [CmdOut.ok.injEq] at hc
    obtain ⟨rfl, rfl, -, -⟩ := hc
    exact same_case _ dataIn
  · -- nocache
    simp only [CmdOut.ok.injEq] at hc
    obtain ⟨rfl, rfl, -, -⟩ := hc
    exact same_case _ dataIn
  · cases hc

end Liquer.Iso
