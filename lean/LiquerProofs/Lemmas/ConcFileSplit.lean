/-
C12, file-operation granularity (4): the SPLIT reader of `FileCache` — the metadata file is read after `n1` file operations of the
interleaving, the data file after `n2 ≥ n1` of them (`FileC.getSplit`, `LiquerModel/ConcFileSplit.lean`).

* `prefix_inv3_mono`, `prefix_inv3_two`: the positions of the threads only grow along an interleaving; an invariant indexed by the
  positions holds after two prefixes `n1 ≤ n2` at componentwise ordered positions (generic over `exec`);
* `DataOK`: at every moment the data file of the new type holds what it held initially, or is absent, or holds the complete new
  bytes (`G` of `ConcFile2.lean` says nothing about the data file between the first `unlink` of the metadata file and the first
  publication of the data file);
* `split_read`: what the split reader obtains, from the invariant at the two moments;
* `split_core`, `split_writers2`, `split_writers3`, `split_writer_and_progress`: every interleaving, every `n1 ≤ n2`.
-/
import LiquerModel.ConcFileSplit
import LiquerProofs.Lemmas.ConcFile3

namespace Liquer
namespace Crash

variable {α : Type}

/-! ### two prefixes of one interleaving -/

/-- `prefix_inv3` with the information that the positions only grow -/
theorem prefix_inv3_mono {φ : Type} (exec : φ → α → φ) (la lb lp : List α) (I : Nat → Nat → Nat → φ → Prop)
    (hA : ∀ i j p d s, la[i]? = some s → I i j p d → I (i + 1) j p (exec d s))
    (hB : ∀ i j p d s, lb[j]? = some s → I i j p d → I i (j + 1) p (exec d s))
    (hP : ∀ i j p d s, lp[p]? = some s → I i j p d → I i j (p + 1) (exec d s))
    (l : List α) (i j p : Nat) (d : φ) (hl : Interleave3 (la.drop i) (lb.drop j) (lp.drop p) l) (hI : I i j p d) (n : Nat) :
    ∃ i' j' p', i ≤ i' ∧ j ≤ j' ∧ p ≤ p' ∧ I i' j' p' ((l.take n).foldl exec d) :=
  prefix_inv3 exec la lb lp (fun i' j' p' d' => i ≤ i' ∧ j ≤ j' ∧ p ≤ p' ∧ I i' j' p' d')
    (fun i' j' p' d' s hs h => ⟨by omega, h.2.1, h.2.2.1, hA i' j' p' d' s hs h.2.2.2⟩)
    (fun i' j' p' d' s hs h => ⟨h.1, by omega, h.2.2.1, hB i' j' p' d' s hs h.2.2.2⟩)
    (fun i' j' p' d' s hs h => ⟨h.1, h.2.1, by omega, hP i' j' p' d' s hs h.2.2.2⟩)
    l i j p d hl ⟨Nat.le_refl _, Nat.le_refl _, Nat.le_refl _, hI⟩ n

/-- **two prefixes**: after `n1 ≤ n2` steps of an interleaving the invariant holds at positions `(i1, j1, p1)` and
`(i2, j2, p2)` with `i1 ≤ i2`, `j1 ≤ j2`, `p1 ≤ p2` -/
theorem prefix_inv3_two {φ : Type} (exec : φ → α → φ) (la lb lp : List α) (I : Nat → Nat → Nat → φ → Prop)
    (hA : ∀ i j p d s, la[i]? = some s → I i j p d → I (i + 1) j p (exec d s))
    (hB : ∀ i j p d s, lb[j]? = some s → I i j p d → I i (j + 1) p (exec d s))
    (hP : ∀ i j p d s, lp[p]? = some s → I i j p d → I i j (p + 1) (exec d s))
    (l : List α) : ∀ (i j p : Nat) (d : φ), Interleave3 (la.drop i) (lb.drop j) (lp.drop p) l → I i j p d →
      ∀ n1 n2, n1 ≤ n2 → ∃ i1 j1 p1 i2 j2 p2, i1 ≤ i2 ∧ j1 ≤ j2 ∧ p1 ≤ p2 ∧
        I i1 j1 p1 ((l.take n1).foldl exec d) ∧ I i2 j2 p2 ((l.take n2).foldl exec d) := by
  induction l with
  | nil =>
    intro i j p d _ hI n1 n2 _
    exact ⟨i, j, p, i, j, p, Nat.le_refl _, Nat.le_refl _, Nat.le_refl _, by simpa using hI, by simpa using hI⟩
  | cons s l ih =>
    intro i j p d h hI n1 n2 hn
    cases n1 with
    | zero =>
      obtain ⟨i', j', p', h1, h2, h3, h4⟩ := prefix_inv3_mono exec la lb lp I hA hB hP (s :: l) i j p d h hI n2
      exact ⟨i, j, p, i', j', p', h1, h2, h3, by simpa using hI, h4⟩
    | succ n1 =>
      obtain ⟨n2, rfl⟩ : ∃ m, n2 = m + 1 := ⟨n2 - 1, by omega⟩
      simp only [List.take_succ_cons, List.foldl_cons]
      rcases h.cons_inv with ⟨x', hx, h'⟩ | ⟨y', hy, h'⟩ | ⟨z', hz, h'⟩
      · obtain ⟨hs, rfl⟩ := drop_eq_cons hx
        exact ih (i + 1) j p _ h' (hA i j p d s hs hI) n1 n2 (by omega)
      · obtain ⟨hs, rfl⟩ := drop_eq_cons hy
        exact ih i (j + 1) p _ h' (hB i j p d s hs hI) n1 n2 (by omega)
      · obtain ⟨hs, rfl⟩ := drop_eq_cons hz
        exact ih i j (p + 1) _ h' (hP i j p d s hs hI) n1 n2 (by omega)

/-! ### the data file at every moment -/

/-- the data file of the new type holds what it held in the initial directory, or is absent, or holds the complete new bytes -/
def DataOK (hk e : Str) (X : Data) (d0 d : CDir) : Prop :=
  AL.get d (.data hk e) = AL.get d0 (.data hk e) ∨ AL.get d (.data hk e) = none ∨ AL.get d (.data hk e) = some X

theorem DataOK.keep {hk e X d0 d} (h : DataOK hk e X d0 d) (d' : CDir) (h' : AL.get d' (.data hk e) = AL.get d (.data hk e)) :
    DataOK hk e X d0 d' := by
  unfold DataOK; rw [h']; exact h

theorem DataOK.frame {hk e X d0 d} (h : DataOK hk e X d0 d) (s : Step FName) (hs : FName.data hk e ∉ s.names) :
    DataOK hk e X d0 (execC d s) :=
  h.keep _ (get_execC_untouched d s _ hs)

/-- one step of a store writer standing at position `p` keeps `DataOK`: the only steps that touch the data file are the `unlink`
(absent afterwards) and the `rename` of the writer's own complete temporary -/
theorem DataOK.storeStep {hk e : Str} {X : Data} {d0 : CDir} (n1 n2 : Nat) (M : Data)
    (p : Nat) (s : Step FName) (hs : (stepsS hk e n1 n2 X M)[p]? = some s) (d : CDir)
    (hL : LocalS n1 n2 X M p d) (hD : DataOK hk e X d0 d) : DataOK hk e X d0 (execC d s) := by
  obtain ⟨-, l45, -, -⟩ := hL
  obtain _ | _ | _ | _ | _ | _ | _ | _ | _ | _ | p := p
  · simp [stepsS, writeFileN] at hs; subst hs
    exact hD.frame _ (by simp [Step.names])
  · simp [stepsS, writeFileN] at hs; subst hs
    exact Or.inr (Or.inl (by simp [execC, AL.get_erase]))
  · simp [stepsS, writeFileN] at hs; subst hs
    exact hD.frame _ (by simp [Step.names])
  · simp [stepsS, writeFileN] at hs; subst hs
    exact hD.frame _ (by simp [Step.names])
  · simp [stepsS, writeFileN] at hs; subst hs
    exact hD.frame _ (by simp [Step.names])
  · simp [stepsS, writeFileN] at hs; subst hs
    have h5 := l45 (Or.inr rfl)
    exact Or.inr (Or.inr (by simp [execC, h5, AL.get_set]))
  · simp [stepsS, writeFileN] at hs; subst hs
    exact hD.frame _ (by simp [Step.names])
  · simp [stepsS, writeFileN] at hs; subst hs
    exact hD.frame _ (by simp [Step.names])
  · simp [stepsS, writeFileN] at hs; subst hs
    exact hD.frame _ (by simp [Step.names])
  · simp [stepsS, writeFileN] at hs; subst hs
    exact hD.frame _ (by simp [Step.names])
  · simp [stepsS, writeFileN] at hs

/-- `Inv3` of `ConcFile2.lean` together with `DataOK` -/
def Inv3D (hk e : Str) (X : Data) (d0 : CDir) (PN : Data → Prop) (a1 a2 b1 b2 tp : Nat) (MA MB MP : Data)
    (i j p : Nat) (d : CDir) : Prop :=
  Inv3 hk e X d0 PN a1 a2 b1 b2 tp MA MB MP i j p d ∧ DataOK hk e X d0 d

/-- the invariant holds after two prefixes `n1 ≤ n2` of every three-way interleaving, at componentwise ordered positions -/
theorem inv3D_prefix_two (hk e : Str) (X : Data) (d0 : CDir) (PN : Data → Prop) (a1 a2 b1 b2 tp : Nat) (MA MB MP : Data)
    (hdist : [a1, a2, b1, b2, tp].Nodup)
    (lb : List (Step FName)) (hlb : ∀ (j : Nat) (s : Step FName), lb[j]? = some s → (stepsS hk e b1 b2 X MB)[j]? = some s)
    (lp : List (Step FName)) (hMP : lp ≠ [] → PN MP) (hlp : ∀ (p : Nat) (s : Step FName), lp[p]? = some s → (stepsM hk tp MP)[p]? = some s)
    (l : List (Step FName)) (hl : Interleave3 (stepsS hk e a1 a2 X MA) lb lp l) (n1 n2 : Nat) (hn : n1 ≤ n2) :
    ∃ i1 j1 p1 i2 j2 p2, i1 ≤ i2 ∧ j1 ≤ j2 ∧ p1 ≤ p2 ∧
      Inv3D hk e X d0 PN a1 a2 b1 b2 tp MA MB MP i1 j1 p1 ((l.take n1).foldl execC d0) ∧
      Inv3D hk e X d0 PN a1 a2 b1 b2 tp MA MB MP i2 j2 p2 ((l.take n2).foldl execC d0) := by
  simp only [List.nodup_cons, List.mem_cons, List.not_mem_nil, or_false, not_or, List.nodup_nil, and_true, not_false_eq_true] at hdist
  obtain ⟨⟨h1, h2, h3, h4⟩, ⟨h5, h6, h7⟩, ⟨h8, h9⟩, h10⟩ := hdist
  refine prefix_inv3_two execC (stepsS hk e a1 a2 X MA) lb lp
    (Inv3D hk e X d0 PN a1 a2 b1 b2 tp MA MB MP) ?_ ?_ ?_ l 0 0 0 d0 (by simpa using hl) ⟨Inv3.init .., Or.inl rfl⟩ n1 n2 hn
  · intro i j p d s hs ⟨⟨hA, hB, hP, hG⟩, hD⟩
    have hnames := stepsS_names (List.mem_of_getElem? hs)
    obtain ⟨hA', hG'⟩ := storeStep a1 a2 MA h1 (Or.inl rfl) i s hs d _ _ hA hG (fun h => Or.inl h) (fun h => Or.inl h)
    refine ⟨⟨hA', LocalS_frame s ?_ ?_ hB, LocalM_frame s ?_ hP, hG'.flags ?_ ?_⟩, DataOK.storeStep a1 a2 MA i s hs d hA hD⟩
    · intro hm; rcases hnames _ hm with h | h | h | h <;> simp_all
    · intro hm; rcases hnames _ hm with h | h | h | h <;> simp_all
    · intro hm; rcases hnames _ hm with h | h | h | h <;> simp_all
    · simp
    · constructor <;> intro h <;> omega
  · intro i j p d s hs0 ⟨⟨hA, hB, hP, hG⟩, hD⟩
    have hs := hlb j s hs0
    have hnames := stepsS_names (List.mem_of_getElem? hs)
    obtain ⟨hB', hG'⟩ := storeStep b1 b2 MB h8 (Or.inr rfl) j s hs d _ _ hB hG (fun h => Or.inr (Or.inl h)) (fun h => Or.inr h)
    refine ⟨⟨LocalS_frame s ?_ ?_ hA, hB', LocalM_frame s ?_ hP, hG'.flags ?_ ?_⟩, DataOK.storeStep b1 b2 MB j s hs d hB hD⟩
    · intro hm; rcases hnames _ hm with h | h | h | h <;> simp_all
    · intro hm; rcases hnames _ hm with h | h | h | h <;> simp_all
    · intro hm; rcases hnames _ hm with h | h | h | h <;> simp_all
    · simp
    · constructor <;> intro h <;> omega
  · intro i j p d s hs ⟨⟨hA, hB, hP, hG⟩, hD⟩
    have hs' := hlp p s hs
    have hnames := stepsM_names (List.mem_of_getElem? hs')
    obtain ⟨hP', hG'⟩ := metaStep tp MP (hMP (by intro h; simp [h] at hs)) p s hs' d _ _ hP hG
    refine ⟨⟨LocalS_frame s ?_ ?_ hA, LocalS_frame s ?_ ?_ hB, hP', hG'.flags ?_ Iff.rfl⟩, hD.frame s ?_⟩
    · intro hm; rcases hnames _ hm with h | h <;> simp_all
    · intro hm; rcases hnames _ hm with h | h <;> simp_all
    · intro hm; rcases hnames _ hm with h | h <;> simp_all
    · intro hm; rcases hnames _ hm with h | h <;> simp_all
    · constructor <;> intro h <;> omega
    · intro hm; rcases hnames _ hm with h | h <;> simp_all

/-! ### what the split reader sees -/

/-- the second half of `get`: decode the bytes found at the place of the data file under the type the metadata names -/
def dataPart (c : FileCfg) (m : CMeta) : Option Data → Option CState
  | none => none
  | some b => match (c.dec b).bind (c.deD m.typeId) with
    | some v => some { metadata := m, data := v }
    | none => none

theorem getSplit_no_meta (c : FileCfg) (dM dD : CDir) (k : Str) (h : FileC.loadMeta c dM (.state (c.h k)) = none) :
    FileC.getSplit c dM dD k = none := by
  simp [FileC.getSplit, h]

theorem getSplit_not_ready (c : FileCfg) (dM dD : CDir) (k : Str) (m : CMeta) (h : FileC.loadMeta c dM (.state (c.h k)) = some m)
    (hr : m.status ≠ ready) : FileC.getSplit c dM dD k = none := by
  simp [FileC.getSplit, h, hr]

theorem getSplit_ready (c : FileCfg) (dM dD : CDir) (k : Str) (m : CMeta) (h : FileC.loadMeta c dM (.state (c.h k)) = some m)
    (hr : m.status = ready) : FileC.getSplit c dM dD k = dataPart c m (AL.get dD (.data (c.h k) (c.ext m.typeId))) := by
  simp only [FileC.getSplit, h, hr, bne_self_eq_false, Bool.false_eq_true, ↓reduceIte, dataPart]
  cases AL.get dD (.data (c.h k) (c.ext m.typeId)) <;> rfl

theorem loadMeta_congr (c : FileCfg) (d1 d2 : CDir) (n : FName) (h : AL.get d1 n = AL.get d2 n) :
    FileC.loadMeta c d1 n = FileC.loadMeta c d2 n := by
  simp only [FileC.loadMeta, h]

theorem getSplit_congr (c : FileCfg) (dM dD d0 : CDir) (k : Str)
    (hs : AL.get dM (.state (c.h k)) = AL.get d0 (.state (c.h k)))
    (hd : ∀ e, AL.get dD (.data (c.h k) e) = AL.get d0 (.data (c.h k) e)) : FileC.getSplit c dM dD k = FileC.get c d0 k := by
  rw [← FileC.getSplit_same]
  simp only [FileC.getSplit, FileC.loadMeta, hs, hd]

/-- the split reader: the invariant at the moment of the metadata read (`dM`), the invariant and `DataOK` at the moment of the
data read (`dD`), "the data file has been published" is monotone (`dd1 → dd2`), and the data files of OTHER types are those of the
initial directory.  The reader obtains a miss, the complete new entry (A's or B's metadata), what the atomic reader obtains from the
initial directory, or — the fifth case — the READY metadata `m0` of the initial directory (of a type with the extension of the new
type) together with the NEW bytes decoded under the type `m0` names. -/
theorem split_read {c : FileCfg} {k tid : Str} {X MA MB : Data} {d0 dM dD : CDir} {PN : Data → Prop} {t1 dd1 t2 dd2 : Prop}
    (hG1 : G (c.h k) (c.ext tid) X d0 (fun b => b = MA ∨ b = MB) PN t1 dd1 dM)
    (hG2 : G (c.h k) (c.ext tid) X d0 (fun b => b = MA ∨ b = MB) PN t2 dd2 dD)
    (hD2 : DataOK (c.h k) (c.ext tid) X d0 dD) (hdd : dd1 → dd2)
    (hother : ∀ e', e' ≠ c.ext tid → AL.get dD (.data (c.h k) e') = AL.get d0 (.data (c.h k) e'))
    (mA mB : CMeta) (v : Option Str)
    (hMA : (c.dec MA).bind c.deM = some mA) (hAr : mA.status = ready) (hAt : mA.typeId = tid)
    (hMB : (c.dec MB).bind c.deM = some mB) (hBr : mB.status = ready) (hBt : mB.typeId = tid)
    (hX : (c.dec X).bind (c.deD tid) = some v)
    (hPN : ∀ b, PN b → ∀ m, (c.dec b).bind c.deM = some m → m.status ≠ ready) :
    FileC.getSplit c dM dD k = none ∨
    FileC.getSplit c dM dD k = some { metadata := mA, data := v } ∨
    FileC.getSplit c dM dD k = some { metadata := mB, data := v } ∨
    FileC.getSplit c dM dD k = FileC.get c d0 k ∨
    ∃ m0 w, FileC.loadMeta c d0 (.state (c.h k)) = some m0 ∧ m0.status = ready ∧ c.ext m0.typeId = c.ext tid ∧
      (c.dec X).bind (c.deD m0.typeId) = some w ∧ FileC.getSplit c dM dD k = some { metadata := m0, data := w } := by
  by_cases ht : t1
  · rcases hG1.st ht with h | ⟨b, hb, hp⟩ | ⟨b, hb, hp, hd1⟩
    · left; exact getSplit_no_meta c dM dD k (by simp [FileC.loadMeta, h])
    · left
      cases hm : (c.dec b).bind c.deM with
      | none => exact getSplit_no_meta c dM dD k (by simp [FileC.loadMeta, hb, hm])
      | some m => exact getSplit_not_ready c dM dD k m (by simp [FileC.loadMeta, hb, hm]) (hPN b hp m hm)
    · have key : ∀ (Mx : Data) (mx : CMeta), b = Mx → (c.dec Mx).bind c.deM = some mx → mx.status = ready → mx.typeId = tid →
          FileC.getSplit c dM dD k = none ∨ FileC.getSplit c dM dD k = some { metadata := mx, data := v } := by
        intro Mx mx hbx hdec hr hty
        subst hbx
        rw [getSplit_ready c dM dD k mx (by simp [FileC.loadMeta, hb, hdec]) hr, hty]
        rcases hG2.dat (hdd hd1) with h | h
        · left; rw [h]; rfl
        · right; rw [h]; simp [dataPart, hty, hX]
      rcases hp with hp | hp
      · rcases key MA mA hp hMA hAr hAt with h | h
        · exact Or.inl h
        · exact Or.inr (Or.inl h)
      · rcases key MB mB hp hMB hBr hBt with h | h
        · exact Or.inl h
        · exact Or.inr (Or.inr (Or.inl h))
  · -- nobody has touched the metadata file: the reader holds the metadata of the initial directory
    have hlm : FileC.loadMeta c dM (.state (c.h k)) = FileC.loadMeta c d0 (.state (c.h k)) :=
      loadMeta_congr c dM d0 _ (hG1.same ht).1
    cases hm : FileC.loadMeta c d0 (.state (c.h k)) with
    | none => left; exact getSplit_no_meta c dM dD k (by rw [hlm, hm])
    | some m0 =>
      by_cases hr : m0.status = ready
      · have hget0 : FileC.get c d0 k = dataPart c m0 (AL.get d0 (.data (c.h k) (c.ext m0.typeId))) := by
          rw [← FileC.getSplit_same]; exact getSplit_ready c d0 d0 k m0 hm hr
        rw [getSplit_ready c dM dD k m0 (by rw [hlm, hm]) hr]
        by_cases hext : c.ext m0.typeId = c.ext tid
        · rw [hext]
          rcases hD2 with h | h | h
          · right; right; right; left; rw [h, hget0, hext]
          · left; rw [h]; rfl
          · rw [h]
            cases hw : (c.dec X).bind (c.deD m0.typeId) with
            | none => left; simp [dataPart, hw]
            | some w => right; right; right; right; exact ⟨m0, w, rfl, hr, hext, hw, by simp [dataPart, hw]⟩
        · right; right; right; left; rw [hother _ hext, hget0]
      · left; exact getSplit_not_ready c dM dD k m0 (by rw [hlm, hm]) hr

/-! ### two store writers and (possibly) one progress writer, a split reader -/

/-- the core: two store writers and a third list `lp` that is the step list of a progress writer, or empty -/
theorem split_core (c : FileCfg) (d0 : CDir) (stA stB : CState) (okA : CodecAt c stA) (okB : CodecAt c stB)
    (hq : stB.metadata.query = stA.metadata.query) (hty : stB.metadata.typeId = stA.metadata.typeId)
    (hdata : c.enc (c.serD stB.metadata.typeId stB.data) = c.enc (c.serD stA.metadata.typeId stA.data))
    (a1 a2 b1 b2 tp : Nat) (hdist : [a1, a2, b1, b2, tp].Nodup)
    (mP : CMeta) (hPq : c.h mP.query = c.h stA.metadata.query)
    (lb : List (Step FName)) (hlb : lb = [] ∨ lb = storeStepsN c (.tmp b1) (.tmp b2) stB)
    (lp : List (Step FName)) (hlp : lp = [] ∨ lp = storeMetaStepsN c (.tmp tp) mP)
    (hP : lp ≠ [] → ∀ m, (c.dec (c.enc (c.serM mP))).bind c.deM = some m → m.status ≠ ready)
    (l : List (Step FName))
    (hl : Interleave3 (storeStepsN c (.tmp a1) (.tmp a2) stA) lb lp l) (n1 n2 : Nat) (hn : n1 ≤ n2) :
    (FileC.getSplit c (runPrefix n1 l d0) (runPrefix n2 l d0) stA.metadata.query = none ∨
     FileC.getSplit c (runPrefix n1 l d0) (runPrefix n2 l d0) stA.metadata.query =
       some { metadata := { stA.metadata with status := ready }, data := stA.data } ∨
     FileC.getSplit c (runPrefix n1 l d0) (runPrefix n2 l d0) stA.metadata.query =
       some { metadata := { stB.metadata with status := ready }, data := stA.data } ∨
     FileC.getSplit c (runPrefix n1 l d0) (runPrefix n2 l d0) stA.metadata.query = FileC.get c d0 stA.metadata.query ∨
     ∃ m0 w, FileC.loadMeta c d0 (.state (c.h stA.metadata.query)) = some m0 ∧ m0.status = ready ∧
       c.ext m0.typeId = c.ext stA.metadata.typeId ∧
       (c.dec (c.enc (c.serD stA.metadata.typeId stA.data))).bind (c.deD m0.typeId) = some w ∧
       FileC.getSplit c (runPrefix n1 l d0) (runPrefix n2 l d0) stA.metadata.query = some { metadata := m0, data := w }) ∧
    ∀ k', c.h k' ≠ c.h stA.metadata.query →
      FileC.getSplit c (runPrefix n1 l d0) (runPrefix n2 l d0) k' = FileC.get c d0 k' := by
  -- the names every step of the interleaving may mention
  have hnames : ∀ s ∈ l, ∀ nm ∈ s.names, nm = .state (c.h stA.metadata.query) ∨
      nm = .data (c.h stA.metadata.query) (c.ext stA.metadata.typeId) ∨ ∃ x, nm = .tmp x := by
    intro s hs nm hnm
    rcases hl.mem s hs with h | h | h
    · rw [storeStepsN_eq_stepsS] at h
      rcases stepsS_names h nm hnm with e | e | e | e
      · exact Or.inl e
      · exact Or.inr (Or.inl e)
      · exact Or.inr (Or.inr ⟨_, e⟩)
      · exact Or.inr (Or.inr ⟨_, e⟩)
    · rcases hlb with rfl | rfl
      · cases h
      · rw [stepsB_eq c stA stB b1 b2 hq hty hdata] at h
        rcases stepsS_names h nm hnm with e | e | e | e
        · exact Or.inl e
        · exact Or.inr (Or.inl e)
        · exact Or.inr (Or.inr ⟨_, e⟩)
        · exact Or.inr (Or.inr ⟨_, e⟩)
    · rcases hlp with rfl | rfl
      · cases h
      · rw [storeMetaStepsN_eq_stepsM, hPq] at h
        rcases stepsM_names h nm hnm with e | e
        · exact Or.inl e
        · exact Or.inr (Or.inr ⟨_, e⟩)
  constructor
  · have hl' := hl
    rw [storeStepsN_eq_stepsS] at hl'
    obtain ⟨i1, j1, p1, i2, j2, p2, hi, hj, -, ⟨⟨-, -, -, hG1⟩, -⟩, ⟨⟨-, -, -, hG2⟩, hD2⟩⟩ :=
      inv3D_prefix_two (c.h stA.metadata.query) (c.ext stA.metadata.typeId)
      (c.enc (c.serD stA.metadata.typeId stA.data)) d0 (fun b => lp ≠ [] ∧ b = c.enc (c.serM mP)) a1 a2 b1 b2 tp
      (c.enc (c.serM { stA.metadata with status := ready })) (c.enc (c.serM { stB.metadata with status := ready }))
      (c.enc (c.serM mP)) hdist lb
      (by
        intro j s hs
        rcases hlb with rfl | rfl
        · simp at hs
        · rw [stepsB_eq c stA stB b1 b2 hq hty hdata] at hs; exact hs)
      lp (fun h => ⟨h, rfl⟩)
      (by
        intro p s hs
        rcases hlp with rfl | rfl
        · simp at hs
        · rw [storeMetaStepsN_eq_stepsM, hPq] at hs; exact hs)
      l hl' n1 n2 hn
    refine split_read hG1 hG2 hD2 (by omega) ?_ { stA.metadata with status := ready } { stB.metadata with status := ready } stA.data
      okA.metaOK rfl rfl okB.metaOK rfl hty okA.dataOK ?_
    · intro e' he'
      apply get_foldl_untouched
      intro s hs hm
      rcases hnames s (List.mem_of_mem_take hs) _ hm with e | e | ⟨x, e⟩
      · cases e
      · injection e with _ e; exact he' e
      · cases e
    · rintro b ⟨hne, rfl⟩ m hm
      exact hP hne m hm
  · intro k' hne
    apply getSplit_congr
    · apply get_foldl_untouched
      intro s hs hm
      rcases hnames s (List.mem_of_mem_take hs) _ hm with e | e | ⟨x, e⟩
      · injection e with e; exact hne e
      · cases e
      · cases e
    · intro e'
      apply get_foldl_untouched
      intro s hs hm
      rcases hnames s (List.mem_of_mem_take hs) _ hm with e | e | ⟨x, e⟩
      · cases e
      · injection e with e _; exact hne e
      · cases e

/-- the five possible answers of the split reader `R` -/
def SplitAns (c : FileCfg) (d0 : CDir) (k tid : Str) (X : Data) (newA newB : CState) (R : Option CState) : Prop :=
  R = none ∨ R = some newA ∨ R = some newB ∨ R = FileC.get c d0 k ∨
  ∃ m0 w, FileC.loadMeta c d0 (.state (c.h k)) = some m0 ∧ m0.status = ready ∧ c.ext m0.typeId = c.ext tid ∧
    (c.dec X).bind (c.deD m0.typeId) = some w ∧ R = some { metadata := m0, data := w }

/-- two store writers, a split reader -/
theorem split_writers2 (c : FileCfg) (d0 : CDir) (stA stB : CState) (okA : CodecAt c stA) (okB : CodecAt c stB)
    (hq : stB.metadata.query = stA.metadata.query) (hty : stB.metadata.typeId = stA.metadata.typeId)
    (hdata : c.enc (c.serD stB.metadata.typeId stB.data) = c.enc (c.serD stA.metadata.typeId stA.data))
    (a1 a2 b1 b2 : Nat) (hdist : [a1, a2, b1, b2].Nodup) (l : List (Step FName))
    (hl : Interleave (storeStepsN c (.tmp a1) (.tmp a2) stA) (storeStepsN c (.tmp b1) (.tmp b2) stB) l)
    (n1 n2 : Nat) (hn : n1 ≤ n2) :
    SplitAns c d0 stA.metadata.query stA.metadata.typeId (c.enc (c.serD stA.metadata.typeId stA.data))
      { metadata := { stA.metadata with status := ready }, data := stA.data }
      { metadata := { stB.metadata with status := ready }, data := stA.data }
      (FileC.getSplit c (runPrefix n1 l d0) (runPrefix n2 l d0) stA.metadata.query) ∧
    ∀ k', c.h k' ≠ c.h stA.metadata.query →
      FileC.getSplit c (runPrefix n1 l d0) (runPrefix n2 l d0) k' = FileC.get c d0 k' := by
  refine split_core c d0 stA stB okA okB hq hty hdata a1 a2 b1 b2 (a1 + a2 + b1 + b2 + 1) ?_ stA.metadata rfl _ (Or.inr rfl) []
    (Or.inl rfl) (fun h => absurd rfl h) l hl.to3 n1 n2 hn
  simp only [List.nodup_cons, List.mem_cons, List.not_mem_nil, or_false, not_or, List.nodup_nil, and_true, not_false_eq_true] at hdist ⊢
  omega

/-- two store writers and a progress writer, a split reader -/
theorem split_writers3 (c : FileCfg) (d0 : CDir) (stA stB : CState) (okA : CodecAt c stA) (okB : CodecAt c stB)
    (hq : stB.metadata.query = stA.metadata.query) (hty : stB.metadata.typeId = stA.metadata.typeId)
    (hdata : c.enc (c.serD stB.metadata.typeId stB.data) = c.enc (c.serD stA.metadata.typeId stA.data))
    (mP : CMeta) (hPq : mP.query = stA.metadata.query) (hPdec : (c.dec (c.enc (c.serM mP))).bind c.deM = some mP)
    (hPs : mP.status ≠ ready)
    (a1 a2 b1 b2 tp : Nat) (hdist : [a1, a2, b1, b2, tp].Nodup) (l : List (Step FName))
    (hl : Interleave3 (storeStepsN c (.tmp a1) (.tmp a2) stA) (storeStepsN c (.tmp b1) (.tmp b2) stB)
      (storeMetaStepsN c (.tmp tp) mP) l) (n1 n2 : Nat) (hn : n1 ≤ n2) :
    SplitAns c d0 stA.metadata.query stA.metadata.typeId (c.enc (c.serD stA.metadata.typeId stA.data))
      { metadata := { stA.metadata with status := ready }, data := stA.data }
      { metadata := { stB.metadata with status := ready }, data := stA.data }
      (FileC.getSplit c (runPrefix n1 l d0) (runPrefix n2 l d0) stA.metadata.query) ∧
    ∀ k', c.h k' ≠ c.h stA.metadata.query →
      FileC.getSplit c (runPrefix n1 l d0) (runPrefix n2 l d0) k' = FileC.get c d0 k' :=
  split_core c d0 stA stB okA okB hq hty hdata a1 a2 b1 b2 tp hdist mP (by rw [hPq]) _ (Or.inr rfl) _ (Or.inr rfl)
    (fun _ m hm => by rw [hPdec] at hm; cases hm; exact hPs) l hl n1 n2 hn

/-! ### the corollary for an initial directory whose entry, if any, is complete and already holds the value -/

theorem dataPart_meta {c : FileCfg} {m : CMeta} {ob : Option Data} {st : CState} (h : dataPart c m ob = some st) :
    st.metadata = m := by
  cases ob with
  | none => cases h
  | some b =>
    simp only [dataPart] at h
    cases hv : (c.dec b).bind (c.deD m.typeId) with
    | none => rw [hv] at h; cases h
    | some v => rw [hv] at h; cases h; rfl

theorem get_ready (c : FileCfg) (d : CDir) (k : Str) (m : CMeta) (h : FileC.loadMeta c d (.state (c.h k)) = some m)
    (hr : m.status = ready) : FileC.get c d k = dataPart c m (AL.get d (.data (c.h k) (c.ext m.typeId))) := by
  rw [← FileC.getSplit_same]; exact getSplit_ready c d d k m h hr

/-- if (1) a ready record of the key in the initial directory is backed by a readable data file (what C16 guarantees for every
directory the writers leave, crash or not), (2) the old entry holds the value the writers store (C05: one key, one value) and
(3) its type is the writers' type whenever its extension is, then the fifth answer is the old entry: the split reader obtains a
miss, the old entry, or the complete new entry -/
theorem SplitAns.sound {c : FileCfg} {d0 : CDir} {k tid : Str} {X : Data} {newA newB : CState} {R : Option CState} {v : Option Str}
    (h : SplitAns c d0 k tid X newA newB R) (hX : (c.dec X).bind (c.deD tid) = some v)
    (hcomplete : ∀ m0, FileC.loadMeta c d0 (.state (c.h k)) = some m0 → m0.status = ready → ∃ old, FileC.get c d0 k = some old)
    (hsound : ∀ old, FileC.get c d0 k = some old → old.data = v)
    (htype : ∀ old, FileC.get c d0 k = some old → c.ext old.metadata.typeId = c.ext tid → old.metadata.typeId = tid) :
    R = none ∨ R = FileC.get c d0 k ∨ R = some newA ∨ R = some newB := by
  rcases h with h | h | h | h | ⟨m0, w, hm, hr, hext, hw, h⟩
  · exact Or.inl h
  · exact Or.inr (Or.inr (Or.inl h))
  · exact Or.inr (Or.inr (Or.inr h))
  · exact Or.inr (Or.inl h)
  · obtain ⟨old, hold⟩ := hcomplete m0 hm hr
    have hmeta : old.metadata = m0 := by
      rw [get_ready c d0 k m0 hm hr] at hold; exact dataPart_meta hold
    have hty : m0.typeId = tid := by rw [← hmeta]; exact htype old hold (by rw [hmeta]; exact hext)
    have hwv : w = v := by rw [hty, hX] at hw; exact (Option.some.inj hw).symm
    have hdat := hsound old hold
    refine Or.inr (Or.inl ?_)
    rw [h, hold, hwv]
    cases old
    simp_all

end Crash
end Liquer
