/-
C12, file-operation granularity, directory tree (1):
* the link between the static step lists of a `FileStore` writer with its own temporary names (`storeStepsTN`,
  `storeMetaStepsTN`) and the lists `storeStepsT` / `storeMetaStepsT` of the crash model (C16) — no hypothesis on the tree;
* the split of the lists into the `mkdir` prefix and the fixed core, the names the steps mention;
* the frame for every OTHER path: the steps of writers of `p` change, outside the two files of `p` and the temporaries, nothing
  but "absent → directory" at nodes, which no read of another path can tell from "absent".
-/
import LiquerModel.ConcFileT
import LiquerProofs.Lemmas.ConcFile1
import LiquerProofs.Lemmas.CrashTree

namespace Liquer
namespace Crash

/-! ### single steps -/

theorem eraseT_absent (t : Tree) (n : SName) (h : AL.get t n = none) : AL.erase t n = t := by
  unfold AL.erase
  apply List.filter_eq_self.mpr
  intro e he
  apply Decidable.byContradiction
  intro hc
  have heq : e.1 = n := by simpa using hc
  have hsome : (t.find? (fun e => e.1 == n)).isSome = true := by
    rw [List.find?_isSome]; exact ⟨e, he, by simp [heq]⟩
  unfold AL.get at h
  rw [Option.map_eq_none_iff] at h
  rw [h] at hsome
  cases hsome

theorem execT_mkdir_present (t : Tree) (n : SName) (h : (AL.get t n).isSome = true) : execT t (.mkdir n) = t := by
  simp only [execT]
  cases hg : AL.get t n with
  | none => rw [hg] at h; cases h
  | some x => rfl

theorem get_execT_mkdir_isSome (t : Tree) (n m : SName) (h : (AL.get t m).isSome = true) :
    (AL.get (execT t (.mkdir n)) m).isSome = true := by
  simp only [execT]
  cases hg : AL.get t n with
  | none =>
    simp only [AL.get_set]
    split
    · rfl
    · exact h
  | some x => exact h

theorem get_foldlT_untouched (l : List (Step SName)) (nm : SName) (h : ∀ s ∈ l, nm ∉ s.names) (t : Tree) :
    AL.get (l.foldl execT t) nm = AL.get t nm := by
  induction l generalizing t with
  | nil => rfl
  | cons s l ih =>
    rw [List.foldl_cons, ih (fun s' hs' => h s' (List.mem_cons_of_mem _ hs')), get_execT_untouched t s nm (h s (List.mem_cons_self ..))]

/-! ### link to the crash model's step lists -/

/-- creating only the directories that are missing in `t` (the crash model's list) and issuing `mkdir` for every name
(`exist_ok=True`) lead to the same tree, from every tree `t'` that has at least the names of `t` -/
theorem mkdirs_run (t : Tree) (ns : List SName) : ∀ t' : Tree,
    (∀ n ∈ ns, (AL.get t n).isSome = true → (AL.get t' n).isSome = true) →
    (mkdirsT t ns).foldl execT t' = (ns.map Step.mkdir).foldl execT t' := by
  induction ns with
  | nil => intro t' _; rfl
  | cons n ns ih =>
    intro t' h
    simp only [mkdirsT] at ih ⊢
    rw [List.filter_cons]
    cases hn : AL.get t n with
    | none =>
      simp only [Option.isNone_none, ↓reduceIte, List.map_cons, List.foldl_cons]
      apply ih
      intro m hm hs
      exact get_execT_mkdir_isSome t' n m (h m (List.mem_cons_of_mem _ hm) hs)
    | some x =>
      simp only [Option.isNone_some, Bool.false_eq_true, ↓reduceIte, List.map_cons, List.foldl_cons]
      rw [execT_mkdir_present t' n (h n (List.mem_cons_self ..) (by rw [hn]; rfl))]
      exact ih t' (fun m hm => h m (List.mem_cons_of_mem _ hm))

theorem writeFileTN_tmp (dk : Key) (target : SName) (b : Data) : writeFileTN (.tmp dk) target b = writeFileT dk target b := rfl

theorem mkdir_map_names (ns : List SName) (nm : SName) (h : nm ∉ ns) : ∀ s ∈ ns.map Step.mkdir, nm ∉ s.names := by
  intro s hs
  simp only [List.mem_map] at hs
  obtain ⟨n, hn, rfl⟩ := hs
  simp only [Step.names, List.mem_singleton]
  intro e; subst e; exact h hn

/-- **link (effect), `FileStore.store`**: with the crash model's temporary name, from EVERY tree the static list and the list of
the crash model lead to the same tree (the crash model omits the `mkdir` of existing names and the `unlink` of a missing
metadata file, which are no-ops of `execT`) -/
theorem storeStepsTN_run_eq_storeStepsT (t : Tree) (k : Key) (b mb : Data) :
    (storeStepsTN (.tmp (parentKey k)) (.tmp (parentKey k)) k b mb).foldl execT t = (storeStepsT t k b mb).foldl execT t := by
  simp only [storeStepsTN, storeStepsT, List.foldl_append, writeFileTN_tmp]
  rw [mkdirs_run t (parentNodes k) t (fun _ _ h => h)]
  have h1 : AL.get (((parentNodes k).map Step.mkdir).foldl execT t) (.mfile k) = AL.get t (.mfile k) :=
    get_foldlT_untouched _ _ (mkdir_map_names _ _ (mfile_not_parentNodes k k)) t
  have hmd : SName.metaDir (parentKey k) ∉ parentNodes k := by simp [parentNodes]
  have h2 : AL.get (((parentNodes k).map Step.mkdir).foldl execT t) (.metaDir (parentKey k)) = AL.get t (.metaDir (parentKey k)) :=
    get_foldlT_untouched _ _ (mkdir_map_names _ _ hmd) t
  generalize ((parentNodes k).map Step.mkdir).foldl execT t = t1 at h1 h2
  have e1 : (unlinkIfPresent t (.mfile k)).foldl execT t1 = execT t1 (.unlink (.mfile k)) := by
    unfold unlinkIfPresent
    cases h : AL.get t (.mfile k) with
    | none =>
      simp only [Option.isSome_none, Bool.false_eq_true, ↓reduceIte, List.foldl_nil, execT]
      exact (eraseT_absent t1 _ (h1.trans h)).symm
    | some x => simp
  have h3 : AL.get (execT t1 (.unlink (.mfile k))) (.metaDir (parentKey k)) = AL.get t (.metaDir (parentKey k)) := by
    rw [get_execT_untouched _ _ _ (by simp [Step.names]), h2]
  rw [e1, mkdirs_run t [.metaDir (parentKey k)] _ (by
    intro n hn hs
    simp only [List.mem_singleton] at hn; subst hn
    rw [h3]; exact hs)]
  rfl

/-- **link (effect), `FileStore.store_metadata`** -/
theorem storeMetaStepsTN_run_eq_storeMetaStepsT (t : Tree) (k : Key) (mb : Data) :
    (storeMetaStepsTN (.tmp (parentKey k)) k mb).foldl execT t = (storeMetaStepsT t k mb).foldl execT t := by
  simp only [storeMetaStepsTN, storeMetaStepsT, List.foldl_append, writeFileTN_tmp]
  rw [mkdirs_run t (parentNodes k ++ [SName.metaDir (parentKey k)]) t (fun _ _ h => h)]
  simp only [List.map_append, List.foldl_append, List.map_cons, List.map_nil]

/-! ### prefix (the directories) and core of the lists -/

/-- the `mkdir`s of the directories above the data file -/
def preS (p : Key) : List (Step SName) := (parentNodes p).map Step.mkdir

/-- the fixed part of a store writer: unlink, hidden folder, data, metadata -/
def coreS (p n1 n2 : Key) (X M : Data) : List (Step SName) :=
  [.unlink (.mfile p), .mkdir (.metaDir (parentKey p))] ++ writeFileTN (.tmp n1) (.node p) X ++ writeFileTN (.tmp n2) (.mfile p) M

def preM (p : Key) : List (Step SName) := preS p ++ [.mkdir (.metaDir (parentKey p))]

def coreM (p n : Key) (M : Data) : List (Step SName) := writeFileTN (.tmp n) (.mfile p) M

theorem storeStepsTN_split (p n1 n2 : Key) (X M : Data) : storeStepsTN (.tmp n1) (.tmp n2) p X M = preS p ++ coreS p n1 n2 X M := by
  simp only [storeStepsTN, preS, coreS, List.append_assoc]

theorem storeMetaStepsTN_split (p n : Key) (M : Data) : storeMetaStepsTN (.tmp n) p M = preM p ++ coreM p n M := by
  simp only [storeMetaStepsTN, preM, preS, coreM]

theorem getElem?_append_cases {α : Type} (l1 l2 : List α) (i : Nat) (s : α) (h : (l1 ++ l2)[i]? = some s) :
    (i < l1.length ∧ l1[i]? = some s) ∨ (l1.length ≤ i ∧ l2[i - l1.length]? = some s) := by
  by_cases hi : i < l1.length
  · left; rw [List.getElem?_append_left hi] at h; exact ⟨hi, h⟩
  · right; rw [List.getElem?_append_right (Nat.le_of_not_lt hi)] at h; exact ⟨Nat.le_of_not_lt hi, h⟩

theorem preS_mem {p : Key} {s : Step SName} (h : s ∈ preS p) : ∃ a ∈ ancestors p, s = .mkdir (.node a) := by
  simp only [preS, parentNodes, List.map_map, List.mem_map, Function.comp] at h
  obtain ⟨a, ha, rfl⟩ := h
  exact ⟨a, ha, rfl⟩

theorem preM_mem {p : Key} {s : Step SName} (h : s ∈ preM p) :
    (∃ a ∈ ancestors p, s = .mkdir (.node a)) ∨ s = .mkdir (.metaDir (parentKey p)) := by
  simp only [preM, List.mem_append, List.mem_singleton] at h
  rcases h with h | h
  · exact Or.inl (preS_mem h)
  · exact Or.inr h

theorem coreS_names {p n1 n2 : Key} {X M : Data} {s : Step SName} (hs : s ∈ coreS p n1 n2 X M) :
    ∀ n ∈ s.names, n = .mfile p ∨ n = .node p ∨ n = .metaDir (parentKey p) ∨ n = .tmp n1 ∨ n = .tmp n2 := by
  intro n hn
  simp only [coreS, writeFileTN, List.cons_append, List.nil_append, List.mem_cons, List.not_mem_nil, or_false] at hs
  rcases hs with rfl | rfl | rfl | rfl | rfl | rfl | rfl | rfl | rfl | rfl <;>
    simp only [Step.names, List.mem_cons, List.not_mem_nil, or_false] at hn <;> (try rcases hn with rfl | rfl) <;>
    (try subst hn) <;> simp

theorem coreM_names {p n : Key} {M : Data} {s : Step SName} (hs : s ∈ coreM p n M) : ∀ nm ∈ s.names, nm = .mfile p ∨ nm = .tmp n := by
  intro nm hn
  simp only [coreM, writeFileTN, List.mem_cons, List.not_mem_nil, or_false] at hs
  rcases hs with rfl | rfl | rfl | rfl <;>
    simp only [Step.names, List.mem_cons, List.not_mem_nil, or_false] at hn <;> (try rcases hn with rfl | rfl) <;>
    (try subst hn) <;> simp

/-! ### every other path -/

/-- a step of a writer of `p`: the `mkdir` of a node, or a step that mentions only the two files of `p`, hidden folders and
temporaries -/
def Benign (p : Key) (s : Step SName) : Prop :=
  (∃ a, s = .mkdir (.node a)) ∨
  (∀ n ∈ s.names, n = .node p ∨ n = .mfile p ∨ (∃ a, n = .metaDir a) ∨ ∃ a, n = .tmp a)

theorem storeStepsTN_benign (p n1 n2 : Key) (X M : Data) : ∀ s ∈ storeStepsTN (.tmp n1) (.tmp n2) p X M, Benign p s := by
  intro s hs
  rw [storeStepsTN_split, List.mem_append] at hs
  rcases hs with hs | hs
  · obtain ⟨a, _, rfl⟩ := preS_mem hs
    exact Or.inl ⟨a, rfl⟩
  · right
    intro n hn
    rcases coreS_names hs n hn with h | h | h | h | h
    · exact Or.inr (Or.inl h)
    · exact Or.inl h
    · exact Or.inr (Or.inr (Or.inl ⟨_, h⟩))
    · exact Or.inr (Or.inr (Or.inr ⟨_, h⟩))
    · exact Or.inr (Or.inr (Or.inr ⟨_, h⟩))

theorem storeMetaStepsTN_benign (p n : Key) (M : Data) : ∀ s ∈ storeMetaStepsTN (.tmp n) p M, Benign p s := by
  intro s hs
  rw [storeMetaStepsTN_split, List.mem_append] at hs
  rcases hs with hs | hs
  · rcases preM_mem hs with ⟨a, _, rfl⟩ | rfl
    · exact Or.inl ⟨a, rfl⟩
    · right
      intro n hn
      simp only [Step.names, List.mem_singleton] at hn
      exact Or.inr (Or.inr (Or.inl ⟨_, hn⟩))
  · right
    intro nm hn
    rcases coreM_names hs nm hn with h | h
    · exact Or.inr (Or.inl h)
    · exact Or.inr (Or.inr (Or.inr ⟨_, h⟩))

/-- what the steps of writers of `p` may do to the two files of another path `p'`: nothing to the metadata file; the node keeps its
content, or an absent node has become a directory -/
def Other (t0 : Tree) (p' : Key) (t : Tree) : Prop :=
  (AL.get t (.node p') = AL.get t0 (.node p') ∨ (AL.get t0 (.node p') = none ∧ AL.get t (.node p') = some .dir)) ∧
  AL.get t (.mfile p') = AL.get t0 (.mfile p')

theorem Other.step {t0 t : Tree} {p p' : Key} (hne : p' ≠ p) {s : Step SName} (hs : Benign p s) (h : Other t0 p' t) :
    Other t0 p' (execT t s) := by
  obtain ⟨hn, hm⟩ := h
  rcases hs with ⟨a, rfl⟩ | hs
  · refine ⟨?_, by rw [get_execT_untouched _ _ _ (by simp [Step.names])]; exact hm⟩
    by_cases ha : a = p'
    · subst ha
      simp only [execT]
      cases hg : AL.get t (.node a) with
      | none =>
        right
        refine ⟨?_, by simp [AL.get_set]⟩
        rcases hn with hn | hn
        · rw [← hn, hg]
        · exact hn.1
      | some x => simp only [hg] at hn ⊢; exact hn
    · rw [get_execT_untouched _ _ _ (by simp [Step.names]; exact fun e => ha e.symm)]
      exact hn
  · have h1 : SName.node p' ∉ s.names := by
      intro hmem
      rcases hs _ hmem with h | h | ⟨a, h⟩ | ⟨a, h⟩
      · exact hne (SName.node.inj h)
      · cases h
      · cases h
      · cases h
    have h2 : SName.mfile p' ∉ s.names := by
      intro hmem
      rcases hs _ hmem with h | h | ⟨a, h⟩ | ⟨a, h⟩
      · cases h
      · exact hne (SName.mfile.inj h)
      · cases h
      · cases h
    rw [Other, get_execT_untouched _ _ _ h1, get_execT_untouched _ _ _ h2]
    exact ⟨hn, hm⟩

/-- a read of `p'` cannot tell -/
theorem Other.read {t0 t : Tree} {p' : Key} (h : Other t0 p' t) (deM : Data → Option CMeta) (deD : Str → Data → Option (Option Str)) :
    readSC deM deD t p' = readSC deM deD t0 p' := by
  obtain ⟨hn, hm⟩ := h
  simp only [readSC_eq, pairT, hm]
  rcases hn with hn | ⟨h0, h1⟩
  · rw [hn]
  · rw [h0, h1]; rfl

/-- **frame**: after any number of benign steps every other path reads as before -/
theorem readSC_frame (deM : Data → Option CMeta) (deD : Str → Data → Option (Option Str)) (p p' : Key) (hne : p' ≠ p)
    (l : List (Step SName)) (hl : ∀ s ∈ l, Benign p s) (t0 : Tree) :
    readSC deM deD (l.foldl execT t0) p' = readSC deM deD t0 p' := by
  have : Other t0 p' (l.foldl execT t0) :=
    foldl_inv execT (Other t0 p') l (fun s hs fs hI => hI.step hne (hl s hs)) t0 ⟨Or.inl rfl, rfl⟩
  exact this.read deM deD

end Crash
end Liquer
