/-
C10 helpers, part 7: isolation — what an operation of a history cannot change.
-/
import LiquerProofs.Lemmas.Iso6

namespace Liquer.Iso

variable {s : Hist}

/-! ### caller operations -/

theorem caller_keeps (op : Op) (i : Nat) (ht : op.target = some i) :
    (step s op).returned = s.returned ∧ (step s op).w.cache = s.w.cache ∧ (step s op).w.defaults = s.w.defaults ∧
      (step s op).w.cacheOn = s.w.cacheOn ∧ (step s op).w.heap.next = s.w.heap.next := by
  rcases caller_cases s op i ht with h | ⟨st, a, c, -, -, -, h⟩ <;> rw [h] <;> exact ⟨rfl, rfl, rfl, rfl, rfl⟩

theorem caller_nth (op : Op) (i : Nat) (ht : op.target = some i) (j : Nat) : (step s op).nth j = s.nth j := by
  simp only [Hist.nth, (caller_keeps (s := s) op i ht).1]

/-- a caller operation on the returned state `i` changes no other returned state, no cache entry, not the defaults -/
theorem caller_isolation (sp : Sep s) (op : Op) (i : Nat) (ht : op.target = some i) :
    (∀ j st, j ≠ i → s.nth j = some st → absState (step s op).w.heap st = absState s.w.heap st) ∧
    (∀ e ∈ s.w.cache, absState (step s op).w.heap e.2 = absState s.w.heap e.2) ∧
    absVars (step s op).w.heap s.w.defaults = absVars s.w.heap s.w.defaults := by
  rcases caller_cases s op i ht with h | ⟨st, a, c, hn, ha, -, h⟩
  · rw [h]; exact ⟨fun _ _ _ _ => rfl, fun _ _ => rfl, rfl⟩
  · rw [h]
    exact ⟨fun j st' hj hn' => write_abs_other sp hn ha hj hn', fun e he => write_abs_cache sp hn ha he,
      write_abs_dflt sp hn ha⟩

/-! ### evaluations -/

/-- an evaluation writes no cell that existed before it started -/
theorem eval_frame_cells (sp : Sep s) (q : List Act) :
    ∀ a, a < s.w.heap.next → (step s (.eval q)).w.heap.cells a = s.w.heap.cells a :=
  (sp.eval_good q).post.frame

theorem eval_keeps (sp : Sep s) (q : List Act) :
    (step s (.eval q)).w.defaults = s.w.defaults ∧ (step s (.eval q)).w.cacheOn = s.w.cacheOn ∧
      s.w.heap.next ≤ (step s (.eval q)).w.heap.next :=
  ⟨(sp.eval_good q).post.dflt, (sp.eval_good q).post.on, (sp.eval_good q).post.mono⟩

theorem eval_nth (q : List Act) {j : Nat} {st : HState} (hn : s.nth j = some st) : (step s (.eval q)).nth j = some st := by
  rw [step_eval]
  simp only [Hist.nth] at hn ⊢
  rw [List.getElem?_append_left (nth_lt hn)]
  exact hn

/-- an evaluation changes no previously returned state, no entry the cache had, not the defaults; the entries of the cache
afterwards are old entries or made of new cells -/
theorem eval_isolation (sp : Sep s) (q : List Act) :
    (∀ j st, s.nth j = some st → absState (step s (.eval q)).w.heap st = absState s.w.heap st) ∧
    (∀ e ∈ s.w.cache, absState (step s (.eval q)).w.heap e.2 = absState s.w.heap e.2) ∧
    (∀ e ∈ (step s (.eval q)).w.cache,
      e ∈ s.w.cache ∨ ∀ a ∈ cellsState (step s (.eval q)).w.heap e.2, s.w.heap.next ≤ a) ∧
    absVars (step s (.eval q)).w.heap s.w.defaults = absVars s.w.heap s.w.defaults := by
  have fr := eval_frame_cells sp q
  refine ⟨fun j st hn => absState_congr (fun a ha => fr a (sp.retLt j st hn a ha)),
    fun e he => absState_congr (fun a ha => fr a (sp.inv.cacheLt e he a ha)), fun e he => ?_,
    absVars_congr (fun a ha => fr a (sp.inv.dfltLt a ha))⟩
  rcases (sp.eval_good q).post.cache e he with ⟨h, -⟩ | h
  · exact Or.inl h
  · exact Or.inr h

/-! ### over histories -/

theorem step_dflt (sp : Sep s) (op : Op) :
    (step s op).w.defaults = s.w.defaults ∧ absVars (step s op).w.heap s.w.defaults = absVars s.w.heap s.w.defaults := by
  cases ht : op.target with
  | none =>
    cases op with
    | eval q => exact ⟨(eval_keeps sp q).1, (eval_isolation sp q).2.2.2⟩
    | _ => cases ht
  | some i => exact ⟨(caller_keeps op i ht).2.2.1, (caller_isolation sp op i ht).2.2⟩

/-- the configured defaults never change, whatever commands and callers do -/
theorem run_dflt (sp : Sep s) (ops : List Op) :
    (run s ops).w.defaults = s.w.defaults ∧
      absVars (run s ops).w.heap (run s ops).w.defaults = absVars s.w.heap s.w.defaults := by
  induction ops generalizing s with
  | nil => exact ⟨rfl, rfl⟩
  | cons op ops ih =>
    rw [run_cons]
    obtain ⟨h1, h2⟩ := ih (sp.step op)
    obtain ⟨h3, h4⟩ := step_dflt sp op
    exact ⟨h1.trans h3, by rw [h2, h3, h4]⟩

theorem step_returned (sp : Sep s) (op : Op) {j : Nat} {st : HState} (hn : s.nth j = some st) (ht : op.target ≠ some j) :
    (step s op).nth j = some st ∧ absState (step s op).w.heap st = absState s.w.heap st := by
  cases h : op.target with
  | none =>
    cases op with
    | eval q => exact ⟨eval_nth q hn, (eval_isolation sp q).1 j st hn⟩
    | _ => cases h
  | some i =>
    have hji : j ≠ i := fun e => ht (e ▸ h)
    exact ⟨by rw [caller_nth op i h]; exact hn, (caller_isolation sp op i h).1 j st hji hn⟩

/-- a returned state changes only by operations of the caller on that very state -/
theorem run_returned (sp : Sep s) (ops : List Op) {j : Nat} {st : HState} (hn : s.nth j = some st)
    (ht : ∀ op ∈ ops, op.target ≠ some j) :
    (run s ops).nth j = some st ∧ absState (run s ops).w.heap st = absState s.w.heap st := by
  induction ops generalizing s with
  | nil => exact ⟨hn, rfl⟩
  | cons op ops ih =>
    rw [run_cons]
    obtain ⟨h1, h2⟩ := step_returned sp op hn (ht op (by simp))
    obtain ⟨h3, h4⟩ := ih (sp.step op) h1 (fun o ho => ht o (by simp [ho]))
    exact ⟨h3, h4.trans h2⟩

end Liquer.Iso
