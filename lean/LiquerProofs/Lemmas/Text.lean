/-
Helper lemmas about the text model (`replaceAll`, `quote`, `unquote`, `decUtf8`).
-/
import LiquerModel.Text

namespace Liquer

/-! ### `isPrefix` -/

theorem isPrefix_cons_cons (p : Char) (ps : List Char) (c : Char) (cs : List Char) :
    isPrefix (p :: ps) (c :: cs) = (p == c && isPrefix ps cs) := rfl

theorem isPrefix_iff (p s : List Char) : isPrefix p s = true ↔ ∃ t, s = p ++ t := by
  induction p generalizing s with
  | nil => simp [isPrefix]
  | cons a p ih =>
    cases s with
    | nil => simp [isPrefix]
    | cons c cs =>
      simp only [isPrefix_cons_cons, Bool.and_eq_true, beq_iff_eq, ih, List.cons_append,
        List.cons.injEq]
      constructor
      · rintro ⟨rfl, t, rfl⟩; exact ⟨t, rfl, rfl⟩
      · rintro ⟨t, rfl, rfl⟩; exact ⟨rfl, t, rfl⟩

/-! ### `replaceAll`: fuel independence and unfolding -/

theorem patLen_pos_of_guard {pat s : List Char}
    (h : (decide (pat ≠ []) && isPrefix pat s) = true) : 0 < pat.length := by
  cases pat with
  | nil => simp at h
  | cons a p => simp

theorem replaceAllF_fuel (pat rep : List Char) :
    ∀ (n m : Nat) (s : List Char), s.length ≤ n → s.length ≤ m →
      replaceAllF pat rep n s = replaceAllF pat rep m s := by
  intro n
  induction n with
  | zero =>
    intro m s hn _
    have : s = [] := List.eq_nil_of_length_eq_zero (by omega)
    subst this
    cases m <;> simp [replaceAllF]
  | succ n ih =>
    intro m s hn hm
    cases s with
    | nil => cases m <;> simp [replaceAllF]
    | cons c cs =>
      cases m with
      | zero => simp at hm
      | succ m =>
        simp only [replaceAllF]
        split
        next h =>
          have hp := patLen_pos_of_guard h
          congr 1
          apply ih
          · simp only [List.length_drop, List.length_cons] at *; omega
          · simp only [List.length_drop, List.length_cons] at *; omega
        · congr 1
          apply ih <;> simp only [List.length_cons] at * <;> omega

theorem replaceAll_nil (pat rep : List Char) : replaceAll pat rep [] = [] := by
  simp [replaceAll, replaceAllF]

theorem replaceAll_cons (pat rep : List Char) (c : Char) (cs : List Char) :
    replaceAll pat rep (c :: cs) =
      if pat ≠ [] && isPrefix pat (c :: cs) then
        rep ++ replaceAll pat rep ((c :: cs).drop pat.length)
      else c :: replaceAll pat rep cs := by
  unfold replaceAll
  simp only [List.length_cons, replaceAllF]
  split
  next h =>
    have hp := patLen_pos_of_guard h
    congr 1
    apply replaceAllF_fuel
    · simp only [List.length_drop, List.length_cons]; omega
    · exact Nat.le_refl _
  · rfl

/-- the scan steps over a character that is not the first character of the pattern -/
theorem replaceAll_cons_ne (a : Char) (p rep : List Char) (c : Char) (cs : List Char)
    (h : a ≠ c) : replaceAll (a :: p) rep (c :: cs) = c :: replaceAll (a :: p) rep cs := by
  rw [replaceAll_cons]
  simp [isPrefix_cons_cons, h]

theorem replaceAll_cons_noPrefix (pat rep : List Char) (c : Char) (cs : List Char)
    (h : isPrefix pat (c :: cs) = false) :
    replaceAll pat rep (c :: cs) = c :: replaceAll pat rep cs := by
  rw [replaceAll_cons]
  simp [h]

/-- a match: the pattern is replaced and the scan continues behind it -/
theorem replaceAll_append_match (pat rep t : List Char) (h : pat ≠ []) :
    replaceAll pat rep (pat ++ t) = rep ++ replaceAll pat rep t := by
  cases pat with
  | nil => exact absurd rfl h
  | cons a p =>
    rw [List.cons_append, replaceAll_cons]
    have : isPrefix (a :: p) (a :: (p ++ t)) = true := by
      rw [isPrefix_iff]; exact ⟨t, rfl⟩
    simp [this]

/-- every character of the result comes from the subject or from the replacement -/
theorem mem_replaceAll (pat rep : List Char) (x : Char) :
    ∀ (n : Nat) (s : List Char), s.length ≤ n → x ∈ replaceAll pat rep s → x ∈ s ∨ x ∈ rep := by
  intro n
  induction n with
  | zero =>
    intro s hs
    have : s = [] := List.eq_nil_of_length_eq_zero (by omega)
    subst this; simp [replaceAll_nil]
  | succ n ih =>
    intro s hs
    cases s with
    | nil => simp [replaceAll_nil]
    | cons c cs =>
      rw [replaceAll_cons]
      split
      next h =>
        have hp := patLen_pos_of_guard h
        intro hx
        rw [List.mem_append] at hx
        rcases hx with hx | hx
        · exact Or.inr hx
        · have := ih _ (by simp only [List.length_drop, List.length_cons] at *; omega) hx
          rcases this with h | h
          · exact Or.inl (List.mem_of_mem_drop h)
          · exact Or.inr h
      · intro hx
        rw [List.mem_cons] at hx
        rcases hx with hx | hx
        · exact Or.inl (by simp [hx])
        · rcases ih cs (by simp only [List.length_cons] at hs; omega) hx with h | h
          · exact Or.inl (List.mem_cons_of_mem _ h)
          · exact Or.inr h

/-- replacing a one-character pattern removes that character (unless the replacement has it) -/
theorem mem_replaceAll_single (a : Char) (rep : List Char) (x : Char) (s : List Char) :
    x ∈ replaceAll [a] rep s → (x ∈ s ∧ x ≠ a) ∨ x ∈ rep := by
  induction s with
  | nil => simp [replaceAll_nil]
  | cons c cs ih =>
    rw [replaceAll_cons]
    by_cases hc : a = c
    · subst hc
      simp only [ne_eq, List.cons_ne_self, not_false_eq_true, decide_true,
        beq_self_eq_true, isPrefix, Bool.and_self, ↓reduceIte, List.length_cons, List.length_nil,
        Nat.zero_add, List.drop_succ_cons, List.drop_zero, List.mem_append, List.mem_cons]
      rintro (h | h)
      · exact Or.inr h
      · rcases ih h with ⟨h1, h2⟩ | h
        · exact Or.inl ⟨Or.inr h1, h2⟩
        · exact Or.inr h
    · simp only [ne_eq, reduceCtorEq, not_false_eq_true, decide_true,
        beq_iff_eq, hc, isPrefix, Bool.and_true, Bool.true_and,
        ↓reduceIte, List.mem_cons]
      rintro (h | h)
      · subst h; exact Or.inl ⟨Or.inl rfl, fun h => hc h.symm⟩
      · rcases ih h with ⟨h1, h2⟩ | h
        · exact Or.inl ⟨Or.inr h1, h2⟩
        · exact Or.inr h

/-! ### the byte decoder -/

theorem decUtf8_ok : DecOK decUtf8 := by
  intro cs
  have h := @List.utf8Decode?_utf8Encode cs
  unfold List.utf8Encode at h
  simp [decUtf8, decUtf8?, h]

theorem DecOK.nil {dec : List UInt8 → List Char} (hd : DecOK dec) : dec [] = [] := hd []

end Liquer
