/-
C06 at the reference level: every failing branch of an action yields an error state that names the failing
action (or the failing sub-query) and has no data; a failing link argument raises with the position of that
parameter and nothing to its right is evaluated; a failure propagates unchanged through every later step and no
further call is made.
-/
import LiquerProofs.Lemmas.EvalRef

namespace Liquer

/-- what an error state produced by `failSt` looks like -/
theorem failSt_spec (st : EState) (act : Action) (attrs vol pos q) :
    (failSt st act attrs vol pos q).isError = true ∧ (failSt st act attrs vol pos q).data = .none ∧
      (failSt st act attrs vol pos q).errPos = pos ∧ (failSt st act attrs vol pos q).errQuery = q :=
  ⟨rfl, rfl, rfl, rfl⟩

/-! ### failing branches of an action -/

theorem ref_unknown_command (env : Env) (n : Nat) (st : EState) (act : Action) (raw parent : Str) (extra : Extra)
    (nss : List Str) (hns : namespacesOf st.vars = some nss)
    (hl : (nss.getLast?.map env.reg.hasNs).getD false = true)
    (hr : resolve env.reg nss act.name = none) :
    refAction env (n+1) st act raw parent extra =
      (.st (failSt st act (mergeAttrs st.attrs []) false (some act.pos) (some raw)), []) := by
  rw [refAction_succ]; simp [hns, hl, hr]

/-- the action up to the call, once the command is resolved and the parameters are converted -/
theorem refAction_resolved (env : Env) (n : Nat) (st : EState) (act : Action) (raw parent : Str) (extra : Extra)
    (nss : List Str) (sig : CmdSig) (hns : namespacesOf st.vars = some nss)
    (hl : (nss.getLast?.map env.reg.hasNs).getD false = true)
    (hr : resolve env.reg nss act.name = some sig) :
    refAction env (n+1) st act raw parent extra =
      match refParams env n act.params raw parent with
      | (.inr o, c1) => (o, c1)
      | (.inl given, c1) =>
        ((refCall env n st act raw sig (applyExtra extra given)).1,
          c1 ++ (refCall env n st act raw sig (applyExtra extra given)).2) := by
  rw [refAction_succ]; simp only [hns, hl, hr, Bool.not_true, Bool.false_eq_true, if_false]
  generalize refParams env n act.params raw parent = x
  rcases x with ⟨r, c1⟩
  cases r <;> rfl

theorem ref_bad_arguments (env : Env) (n : Nat) (st : EState) (act : Action) (raw parent : Str) (extra : Extra)
    (nss : List Str) (sig : CmdSig) (given : List PVal) (c1 : List Str)
    (hns : namespacesOf st.vars = some nss) (hl : (nss.getLast?.map env.reg.hasNs).getD false = true)
    (hr : resolve env.reg nss act.name = some sig)
    (hp : refParams env n act.params raw parent = (.inl given, c1))
    (ha : parseArgv sig.args (applyExtra extra given).1 (applyExtra extra given).2.1 = .fail) :
    refAction env (n+1) st act raw parent extra =
      (.st (failSt st act (mergeAttrs st.attrs sig.attrs) ((applyExtra extra given).2.2 || cmdVolatile sig.attrs)
        (some act.pos) (some raw)), c1) := by
  rw [refAction_resolved env n st act raw parent extra nss sig hns hl hr, hp]
  simp [refCall, ha]

theorem ref_command_raises (env : Env) (n : Nat) (st : EState) (act : Action) (raw parent : Str) (extra : Extra)
    (nss : List Str) (sig : CmdSig) (given : List PVal) (c1 : List Str) (args : List Val)
    (hns : namespacesOf st.vars = some nss) (hl : (nss.getLast?.map env.reg.hasNs).getD false = true)
    (hr : resolve env.reg nss act.name = some sig)
    (hp : refParams env n act.params raw parent = (.inl given, c1))
    (ha : parseArgv sig.args (applyExtra extra given).1 (applyExtra extra given).2.1 = .ok args)
    (hc : cmdSem sig.ns sig.name st.data st.vars args = .raises) :
    refAction env (n+1) st act raw parent extra =
      (.st (failSt st act (mergeAttrs st.attrs sig.attrs) ((applyExtra extra given).2.2 || cmdVolatile sig.attrs)
        (some act.pos) (some raw)), c1 ++ callOf st sig args) := by
  rw [refAction_resolved env n st act raw parent extra nss sig hns hl hr, hp]
  simp [refCall, ha, hc]

/-- a failing sub-evaluation is reported with the position and query of *its* failing action -/
theorem ref_sub_fails (env : Env) (n : Nat) (st : EState) (act : Action) (raw parent : Str) (extra : Extra)
    (nss : List Str) (sig : CmdSig) (given : List PVal) (c1 c3 : List Str) (args : List Val) (x : Val) (qtext : Str)
    (sub : EState)
    (hns : namespacesOf st.vars = some nss) (hl : (nss.getLast?.map env.reg.hasNs).getD false = true)
    (hr : resolve env.reg nss act.name = some sig)
    (hp : refParams env n act.params raw parent = (.inl given, c1))
    (ha : parseArgv sig.args (applyExtra extra given).1 (applyExtra extra given).2.1 = .ok args)
    (hc : cmdSem sig.ns sig.name st.data st.vars args = .subeval x qtext)
    (hs : refText env n qtext = (.st sub, c3)) (he : sub.isError = true) :
    refAction env (n+1) st act raw parent extra =
      (.st (failSt st act (mergeAttrs st.attrs sig.attrs) (applyExtra extra given).2.2 sub.errPos sub.errQuery),
        c1 ++ (callOf st sig args ++ c3)) := by
  rw [refAction_resolved env n st act raw parent extra nss sig hns hl hr, hp]
  simp [refCall, ha, hc, hs, subOutcome, he]

theorem ref_sub_unparsable (env : Env) (n : Nat) (st : EState) (act : Action) (raw parent : Str) (extra : Extra)
    (nss : List Str) (sig : CmdSig) (given : List PVal) (c1 c3 : List Str) (args : List Val) (x : Val) (qtext : Str)
    (hns : namespacesOf st.vars = some nss) (hl : (nss.getLast?.map env.reg.hasNs).getD false = true)
    (hr : resolve env.reg nss act.name = some sig)
    (hp : refParams env n act.params raw parent = (.inl given, c1))
    (ha : parseArgv sig.args (applyExtra extra given).1 (applyExtra extra given).2.1 = .ok args)
    (hc : cmdSem sig.ns sig.name st.data st.vars args = .subeval x qtext)
    (hs : refText env n qtext = (.parseError, c3)) :
    refAction env (n+1) st act raw parent extra =
      (.st (failSt st act (mergeAttrs st.attrs sig.attrs) (applyExtra extra given).2.2 (some act.pos) (some raw)),
        c1 ++ (callOf st sig args ++ c3)) := by
  rw [refAction_resolved env n st act raw parent extra nss sig hns hl hr, hp]
  simp [refCall, ha, hc, hs, subOutcome]

/-- inversion, all branches at once: an error state produced by the call of a command on a successful input has no data -/
theorem refCall_error_no_data (env : Env) (n : Nat) (st : EState) (act : Action) (raw : Str) (sig : CmdSig) (x)
    (e : EState) (hst : st.isError = false)
    (h : (refCall env n st act raw sig x).1 = .st e) (he : e.isError = true) : e.data = .none := by
  unfold refCall at h
  split at h
  · simp at h
  · simp only [Outcome.st.injEq] at h; subst h; rfl
  · split at h
    · simp at h
    · simp only [Outcome.st.injEq] at h; subst h; rfl
    · simp only [Outcome.st.injEq] at h; subst h; simp [doneSt, hst] at he
    · simp only [Outcome.st.injEq] at h; subst h; simp [doneSt, hst] at he
    · simp only [Outcome.st.injEq] at h; subst h; simp [doneSt, hst] at he
    · simp only at h
      unfold subOutcome at h
      split at h
      · split at h
        · simp only [Outcome.st.injEq] at h; subst h; rfl
        · simp only [Outcome.st.injEq] at h; subst h; simp [doneSt, hst] at he
      · simp only [Outcome.st.injEq] at h; subst h; rfl
      · simp at h
      · simp at h

/-- … and so has every error state produced by an action on a successful input: a failing step never yields a
normal-looking value -/
theorem refAction_error_no_data (env : Env) (n : Nat) (st : EState) (act : Action) (raw parent : Str) (extra : Extra)
    (e : EState) (hst : st.isError = false)
    (h : (refAction env n st act raw parent extra).1 = .st e) (he : e.isError = true) : e.data = .none := by
  cases n with
  | zero => simp [refAction_zero] at h
  | succ n =>
    rw [refAction_succ] at h
    split at h
    · simp at h
    · split at h
      · simp at h
      · split at h
        · simp only [Outcome.st.injEq] at h; subst h; rfl
        · next sig hr =>
          have hni := refParams_inr_not_st env n act.params raw parent e
          generalize refParams env n act.params raw parent = x at h hni
          rcases x with ⟨r, c1⟩
          cases r with
          | inr o => simp only at h; subst h; simp at hni
          | inl g => exact refCall_error_no_data env n st act raw sig _ e hst h he

/-! ### link arguments -/

/-- a failing link argument raises with the position of that parameter; the parameters to its right are not
evaluated (the result, calls included, does not depend on them) -/
theorem ref_link_fails (env : Env) (n : Nat) (lq : Query) (pos : Nat) (ps : List Param) (raw parent : Str)
    (v : EState) (c1 : List Str) (hl : refLink env n lq parent = (.st v, c1)) (he : v.isError = true) :
    refParams env (n+1) (.link lq pos :: ps) raw parent = (.inr (.raised (some pos) (some raw)), c1) := by
  rw [refParams_link, hl]; simp [he]

theorem ref_abort_after_str (env : Env) (n : Nat) (t : Str) (pos : Nat) (ps : List Param) (raw parent : Str)
    (o : Outcome) (c : List Str) (h : refParams env n ps raw parent = (.inr o, c)) :
    refParams env (n+1) (.str t pos :: ps) raw parent = (.inr o, c) := by
  rw [refParams_str, h]

theorem ref_abort_after_link (env : Env) (n : Nat) (lq : Query) (pos : Nat) (ps : List Param) (raw parent : Str)
    (v : EState) (c1 c2 : List Str) (o : Outcome)
    (hl : refLink env n lq parent = (.st v, c1)) (he : v.isError = false)
    (h : refParams env n ps raw parent = (.inr o, c2)) :
    refParams env (n+1) (.link lq pos :: ps) raw parent = (.inr o, c1 ++ c2) := by
  rw [refParams_link, hl, h]; simp [he]

/-- a failing link after any number of plain arguments -/
theorem ref_link_fails_after (env : Env) (n : Nat) (pre : List (Str × Nat)) (lq : Query) (pos : Nat) (post : List Param)
    (raw parent : Str) (v : EState) (c1 : List Str) (hl : refLink env n lq parent = (.st v, c1))
    (he : v.isError = true) :
    refParams env (n + 1 + pre.length) (pre.map (fun tp => Param.str tp.1 tp.2) ++ .link lq pos :: post) raw parent =
      (.inr (.raised (some pos) (some raw)), c1) := by
  induction pre with
  | nil => exact ref_link_fails env n lq pos post raw parent v c1 hl he
  | cons tp pre ih =>
    simp only [List.map_cons, List.cons_append, List.length_cons]
    exact ref_abort_after_str env _ _ _ _ raw parent _ _ ih

/-- the action aborts with what aborted its parameters (no call of the command itself) -/
theorem ref_params_abort (env : Env) (n : Nat) (st : EState) (act : Action) (raw parent : Str) (extra : Extra)
    (nss : List Str) (sig : CmdSig) (o : Outcome) (c1 : List Str)
    (hns : namespacesOf st.vars = some nss) (hl : (nss.getLast?.map env.reg.hasNs).getD false = true)
    (hr : resolve env.reg nss act.name = some sig)
    (hp : refParams env n act.params raw parent = (.inr o, c1)) :
    refAction env (n+1) st act raw parent extra = (o, c1) := by
  rw [refAction_resolved env n st act raw parent extra nss sig hns hl hr, hp]

/-! ### propagation -/

/-- the failure of the predecessor propagates unchanged (same position, same query) and no further call is made -/
theorem ref_error_stops (env : Env) (n : Nat) (p q : Query) (r : Option Seg) (raw : Str) (extra : Extra)
    (input : Option Val) (e : EState) (c : List Str)
    (h : refQ env n p (p.encode Gen.escapeTable) .none input = (.st e, c)) (he : e.isError = true)
    (hp : q.predecessor = some (p, r)) (hpe : p.segments.isEmpty = false) :
    refQ env (n+1) q raw extra input = (.st { e with data := .none, query := q.encode Gen.escapeTable }, c) := by
  rw [refQ_succ, Query.predecessor_not_isRes hp]
  simp [hp, hpe, h, refAfter, he]

/-- an exception raised by the predecessor (failed link argument) propagates likewise -/
theorem ref_raised_stops (env : Env) (n : Nat) (p q : Query) (r : Option Seg) (raw : Str) (extra : Extra)
    (input : Option Val) (a : Option Nat) (b : Option Str) (c : List Str)
    (h : refQ env n p (p.encode Gen.escapeTable) .none input = (.raised a b, c))
    (hp : q.predecessor = some (p, r)) (hpe : p.segments.isEmpty = false) :
    refQ env (n+1) q raw extra input = (.raised a b, c) := by
  rw [refQ_succ, Query.predecessor_not_isRes hp]
  simp [hp, hpe, h, refAfter]

/-- … through any number of further steps -/
theorem ref_error_stops_chain (env : Env) (n : Nat) (p : Query) (input : Option Val) (e : EState) (c : List Str)
    (h : refQ env n p (p.encode Gen.escapeTable) .none input = (.st e, c)) (he : e.isError = true)
    {q : Query} {k : Nat} (hch : Chain p q k) (raw : Str) (extra : Extra) :
    refQ env (n+k) q raw extra input = (.st { e with data := .none, query := q.encode Gen.escapeTable }, c) := by
  induction hch generalizing raw extra with
  | one q r hp hpe => exact ref_error_stops env n p q r raw extra input e c h he hp hpe
  | step q' q r k _ hp hpe ih =>
    have := ref_error_stops env (n+k) q' q r raw extra input _ c (ih _ _) he hp hpe
    exact this

theorem ref_raised_stops_chain (env : Env) (n : Nat) (p : Query) (input : Option Val) (a : Option Nat) (b : Option Str)
    (c : List Str) (h : refQ env n p (p.encode Gen.escapeTable) .none input = (.raised a b, c))
    {q : Query} {k : Nat} (hch : Chain p q k) (raw : Str) (extra : Extra) :
    refQ env (n+k) q raw extra input = (.raised a b, c) := by
  induction hch generalizing raw extra with
  | one q r hp hpe => exact ref_raised_stops env n p q r raw extra input a b c h hp hpe
  | step q' q r k _ hp hpe ih => exact ref_raised_stops env (n+k) q' q r raw extra input a b c (ih _ _) hp hpe

end Liquer
