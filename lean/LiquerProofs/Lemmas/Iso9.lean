/-
C10 helpers, part 9: the value-level meaning (`refChain`): unfolding, monotonicity in the fuel; the agreement relation
between a heap state and a value-level state; one command on the heap simulates the command on values when the input state
owns distinct cells that the arguments do not share (and, for `cvapp`, that the context's variables do not share).
-/
import LiquerProofs.Lemmas.Iso8

namespace Liquer.Iso

/-! ### unfolding the reference -/

def predRef (dflt : List (Str × Val)) (n : Nat) (acts : List Act) : Option RState :=
  if acts.dropLast.isEmpty then some { vars := dflt } else refChain dflt n acts.dropLast

theorem refChain_zero (d : List (Str × Val)) (acts : List Act) : refChain d 0 acts = none := by rw [refChain]

theorem refChain_nil {d : List (Str × Val)} {n : Nat} {acts : List Act} (hl : acts.getLast? = none) :
    refChain d (n + 1) acts = some { vars := d } := by
  rw [refChain]; simp only [hl]

theorem refChain_succ {d : List (Str × Val)} {n : Nat} {acts : List Act} {act : Act} (hl : acts.getLast? = some act) :
    refChain d (n + 1) acts =
      (predRef d n acts).bind (fun pred =>
        (refArgs d n act.args).bind (fun args => cmdV pred (String.ofList act.name) args)) := by
  rw [refChain]; simp only [hl, predRef]
  cases (if acts.dropLast.isEmpty = true then some ({ vars := d } : RState) else refChain d n acts.dropLast) with
  | none => rfl
  | some pred =>
    simp only [Option.bind_some]
    cases refArgs d n act.args <;> rfl

theorem refArgs_zero (d : List (Str × Val)) (args : List Arg) : refArgs d 0 args = none := by rw [refArgs]

theorem refArgs_nil (d : List (Str × Val)) (n : Nat) : refArgs d (n + 1) [] = some [] := by rw [refArgs]

theorem refArgs_text (d : List (Str × Val)) (n : Nat) (t : Str) (rest : List Arg) :
    refArgs d (n + 1) (.text t :: rest) = (refArgs d n rest).map (fun vs => .str t :: vs) := by rw [refArgs]

theorem refArgs_link (d : List (Str × Val)) (n : Nat) (q : List Act) (rest : List Arg) :
    refArgs d (n + 1) (.link q :: rest) =
      (refChain d n q).bind (fun v => (refArgs d n rest).map (fun vs => v.data :: vs)) := by
  rw [refArgs]; cases refChain d n q <;> rfl

theorem ref_mono (d : List (Str × Val)) (n : Nat) :
    (∀ acts r, refChain d n acts = some r → ∀ m, n ≤ m → refChain d m acts = some r) ∧
    (∀ args vs, refArgs d n args = some vs → ∀ m, n ≤ m → refArgs d m args = some vs) := by
  induction n with
  | zero =>
    refine ⟨fun acts r h => ?_, fun args vs h => ?_⟩
    · rw [refChain_zero] at h; cases h
    · rw [refArgs_zero] at h; cases h
  | succ n ih =>
    obtain ⟨ihC, ihA⟩ := ih
    refine ⟨fun acts r h m hm => ?_, fun args vs h m hm => ?_⟩
    · obtain ⟨m, rfl⟩ : ∃ m', m = m' + 1 := ⟨m - 1, by omega⟩
      have hm' : n ≤ m := by omega
      cases hl : acts.getLast? with
      | none => rw [refChain_nil hl] at h ⊢; exact h
      | some act =>
        rw [refChain_succ hl] at h ⊢
        rw [Option.bind_eq_some_iff] at h
        obtain ⟨pred, hp, h⟩ := h
        rw [Option.bind_eq_some_iff] at h
        obtain ⟨args, ha, h⟩ := h
        have hp' : predRef d m acts = some pred := by
          unfold predRef at hp ⊢
          split
          · rename_i he; simpa [he] using hp
          · rename_i he; simp only [he] at hp; exact ihC _ _ hp m hm'
        rw [hp', Option.bind_some, ihA _ _ ha m hm', Option.bind_some]
        exact h
    · obtain ⟨m, rfl⟩ : ∃ m', m = m' + 1 := ⟨m - 1, by omega⟩
      have hm' : n ≤ m := by omega
      cases args with
      | nil => rw [refArgs_nil] at h ⊢; exact h
      | cons arg rest =>
        cases arg with
        | text t =>
          rw [refArgs_text] at h ⊢
          rw [Option.map_eq_some_iff] at h
          obtain ⟨vs', h1, h2⟩ := h
          rw [ihA _ _ h1 m hm']; exact congrArg some h2
        | link q =>
          rw [refArgs_link] at h ⊢
          rw [Option.bind_eq_some_iff] at h
          obtain ⟨v, h0, h⟩ := h
          rw [Option.map_eq_some_iff] at h
          obtain ⟨vs', h1, h2⟩ := h
          rw [ihC _ _ h0 m hm', Option.bind_some, ihA _ _ h1 m hm']; exact congrArg some h2

theorem refChain_mono {d : List (Str × Val)} {n m : Nat} {acts : List Act} {r : RState} (h : refChain d n acts = some r)
    (le : n ≤ m) : refChain d m acts = some r := (ref_mono d n).1 acts r h m le

theorem refArgs_mono {d : List (Str × Val)} {n m : Nat} {args : List Arg} {vs : List Val}
    (h : refArgs d n args = some vs) (le : n ≤ m) : refArgs d m args = some vs := (ref_mono d n).2 args vs h m le

/-! ### agreement of a heap state with a value-level state -/

structure Agrees (h : Heap) (st : HState) (r : RState) : Prop where
  data : absHV h st.data = r.data
  vars : absVars h (h.metaAt st.md).vars = r.vars
  volatile : (h.metaAt st.md).volatile = r.volatile
  caching : (h.metaAt st.md).caching = r.caching
  keys : ((h.metaAt st.md).vars.map Prod.fst).Nodup

theorem Agrees.congr {h h' : Heap} {st : HState} {r : RState} (a : Agrees h st r)
    (e : ∀ x ∈ cellsState h st, h'.cells x = h.cells x) : Agrees h' st r := by
  have emd : h'.metaAt st.md = h.metaAt st.md := Heap.metaAt_congr (e _ (md_mem_cellsState h st))
  refine ⟨?_, ?_, by rw [emd]; exact a.volatile, by rw [emd]; exact a.caching, by rw [emd]; exact a.keys⟩
  · rw [absHV_congr (fun x hx => e x (by simp [mem_cellsState, hx]))]; exact a.data
  · rw [emd, absVars_congr (fun x hx => e x (by simp [mem_cellsState, hx]))]; exact a.vars

/-! ### one command -/

theorem strOf_some {h : Heap} {k : HV} {s : Str} (e : strOf h k = some s) : k = .imm (.str s) := by
  cases k with
  | ref a => simp [strOf] at e
  | imm v => cases v <;> simp_all [strOf]

theorem nodup_cellsState {h : Heap} {st : HState} (nd : (cellsState h st).Nodup) :
    st.md ∉ cellsHV st.data ∧ st.md ∉ cellsVars (h.metaAt st.md).vars ∧ (cellsVars (h.metaAt st.md).vars).Nodup ∧
      ∀ a ∈ cellsHV st.data, a ∉ cellsVars (h.metaAt st.md).vars := by
  simp only [cellsState, cellsMeta, List.nodup_append, List.nodup_cons] at nd
  obtain ⟨-, ⟨h1, h2⟩, h3⟩ := nd
  exact ⟨fun hx => h3 _ hx _ (by simp) rfl, h1, h2, fun a ha hx => h3 a ha a (by simp [hx]) rfl⟩

theorem cellsState_nodup_of {h : Heap} {d : HV} {md : Addr} (h1 : md ∉ cellsHV d)
    (h2 : md ∉ cellsVars (h.metaAt md).vars) (h3 : (cellsVars (h.metaAt md).vars).Nodup)
    (h4 : ∀ a ∈ cellsHV d, a ∉ cellsVars (h.metaAt md).vars) : (cellsState h ⟨d, md⟩).Nodup := by
  simp only [cellsState, cellsMeta, List.nodup_append, List.nodup_cons]
  refine ⟨by cases d <;> simp [cellsHV], ⟨h2, h3⟩, fun a ha b hb e => ?_⟩
  subst e
  rcases List.mem_cons.1 hb with hb | hb
  · exact h1 (hb ▸ ha)
  · exact h4 a ha hb

/-- the outcome of a command on the heap, in terms of the command on values -/
structure CmdSim (h : Heap) (old : HState) (name : String) (rp : RState) (h4 : Heap) (data : HV) (vol caching : Bool)
    (r' : RState) : Prop where
  hdata : absHV h4 data = r'.data
  hvars : absVars h4 (h4.metaAt old.md).vars = r'.vars
  hvol : r'.volatile = (rp.volatile || vol)
  hcach : r'.caching = (rp.caching && caching)
  mvol : (h4.metaAt old.md).volatile = (h.metaAt old.md).volatile
  mcach : (h4.metaAt old.md).caching = (h.metaAt old.md).caching
  keys : ((h4.metaAt old.md).vars.map Prod.fst).Nodup
  nodup : name ≠ "getvar" → (cellsState h4 ⟨data, old.md⟩).Nodup
  mdfree : old.md ∉ cellsHV data ∧ old.md ∉ cellsVars (h4.metaAt old.md).vars

theorem cmdH_sim {h : Heap} {old : HState} {ctx : List (Str × HV)} {name : String} {args : List HV} {h4 : Heap} {data : HV}
    {vol caching : Bool} {rp : RState} (hc : cmdH h old ctx name args = .ok h4 data vol caching)
    (lt : ∀ a ∈ cmdFoot h old ctx args, a < h.next)
    (nd : (cellsState h old).Nodup) (dj : ∀ a ∈ cellsState h old, ∀ v ∈ args, a ∉ cellsHV v)
    (hd : absHV h old.data = rp.data) (hv : absVars h (h.metaAt old.md).vars = rp.vars)
    (kn : ((h.metaAt old.md).vars.map Prod.fst).Nodup)
    (hctx : absVars h ctx = rp.vars) (cj : name = "cvapp" → ∀ a ∈ cellsVars ctx, a ∉ cellsState h old) :
    ∃ r', cmdV rp name (args.map (absHV h)) = some r' ∧ CmdSim h old name rp h4 data vol caching r' := by
  obtain ⟨n1, n2, n3, n4⟩ := nodup_cellsState nd
  have mdlt : old.md < h.next := lt _ (mem_cmdFoot.2 (Or.inl (md_mem_cellsState _ _)))
  have vlt : ∀ a ∈ cellsVars (h.metaAt old.md).vars, a < h.next :=
    fun a ha => lt _ (mem_cmdFoot.2 (Or.inl (by simp [mem_cellsState, ha])))
  have dlt : ∀ a ∈ cellsHV old.data, a < h.next :=
    fun a ha => lt _ (mem_cmdFoot.2 (Or.inl (by simp [mem_cellsState, ha])))
  -- results that keep the heap and the dictionary
  have same_case : ∀ (d : HV) (r' : RState), absHV h d = r'.data → r'.vars = rp.vars →
      r'.volatile = (rp.volatile || vol) → r'.caching = (rp.caching && caching) →
      (name ≠ "getvar" → (cellsState h ⟨d, old.md⟩).Nodup) → old.md ∉ cellsHV d →
      CmdSim h old name rp h d vol caching r' :=
    fun d r' e1 e2 e3 e4 e5 e6 => ⟨e1, by rw [hv, e2], e3, e4, rfl, rfl, kn, e5, e6, n2⟩
  -- results in a new cell
  have alloc_case : ∀ (x : Val) (r' : RState), x = r'.data → r'.vars = rp.vars →
      r'.volatile = (rp.volatile || vol) → r'.caching = (rp.caching && caching) →
      CmdSim h old name rp (h.alloc (.val x)).1 (.ref h.next) vol caching r' := by
    intro x r' e1 e2 e3 e4
    have hm : (h.alloc (.val x)).1.metaAt old.md = h.metaAt old.md := (HExt.alloc h _).metaAt mdlt
    refine ⟨by simp [absHV, e1], ?_, e3, e4, by rw [hm], by rw [hm], by rw [hm]; exact kn, fun _ => ?_,
      by simp only [cellsHV, List.mem_singleton]; exact Nat.ne_of_lt mdlt, by rw [hm]; exact n2⟩
    · rw [hm, e2, ← hv]
      exact absVars_congr (fun a ha => (HExt.alloc h _).frame a (vlt a ha))
    · refine cellsState_nodup_of (h := (h.alloc (.val x)).1) (d := .ref h.next) ?_ (by rw [hm]; exact n2)
        (by rw [hm]; exact n3) ?_
      · simp only [cellsHV, List.mem_singleton]; exact Nat.ne_of_lt mdlt
      · intro a ha hx
        simp only [cellsHV, List.mem_singleton] at ha
        rw [hm] at hx
        have := vlt a hx
        aomega
  -- in-place update of a value cell that is not the dictionary
  have hnd_same : (cellsState h ⟨old.data, old.md⟩).Nodup := nd
  unfold cmdH at hc
  split at hc
  · -- one
    simp only [CmdOut.ok.injEq] at hc
    obtain ⟨rfl, rfl, rfl, rfl⟩ := hc
    exact ⟨{ rp with data := .int 1 }, by simp [cmdV], same_case _ _ rfl rfl (by simp) (by simp)
      (fun _ => cellsState_nodup_of (by simp [cellsHV]) n2 n3 (by simp [cellsHV])) (by simp [cellsHV])⟩
  · -- mk
    simp only [CmdOut.ok.injEq] at hc
    obtain ⟨rfl, rfl, rfl, rfl⟩ := hc
    exact ⟨{ rp with data := .list (args.map (absHV h)) }, by simp [cmdV], alloc_case _ _ rfl rfl (by simp) (by simp)⟩
  · -- app
    simp only at hc
    split at hc
    · rename_i v _ a l hl
      simp only [CmdOut.ok.injEq] at hc
      obtain ⟨rfl, rfl, rfl, rfl⟩ := hc
      obtain ⟨hda, hva, hcell⟩ := listAt_some hl
      have hrd : rp.data = .list l := by rw [← hd, hda]; exact hva
      have amd : a ≠ old.md := fun e => n1 (by rw [hda]; simp [cellsHV, e])
      have aV : a ∉ cellsVars (h.metaAt old.md).vars := n4 a (by rw [hda]; simp [cellsHV])
      have hm := metaAt_write_val hcell (.list (l ++ [absHV h v])) old.md
      refine ⟨{ rp with data := .list (l ++ [absHV h v]) }, by simp [cmdV, hrd], ?_⟩
      refine ⟨by rw [hda]; simp [absHV], by rw [hm, absVars_write_notin aV]; exact hv, by simp, by simp, by rw [hm],
        by rw [hm], by rw [hm]; exact kn, fun _ => ?_, n1, by rw [hm]; exact n2⟩
      rw [cellsState_write_val hcell]; exact nd
    · cases hc
  · -- ident
    simp only [CmdOut.ok.injEq] at hc
    obtain ⟨rfl, rfl, rfl, rfl⟩ := hc
    exact ⟨rp, by simp [cmdV], same_case _ _ hd rfl (by simp) (by simp) (fun _ => nd) n1⟩
  · -- copyl
    simp only at hc
    split at hc
    · rename_i _ a l hl
      simp only [CmdOut.ok.injEq] at hc
      obtain ⟨rfl, rfl, rfl, rfl⟩ := hc
      obtain ⟨hda, hva, -⟩ := listAt_some hl
      have hrd : rp.data = .list l := by rw [← hd, hda]; exact hva
      exact ⟨rp, by simp [cmdV, hrd], alloc_case _ _ hrd.symm rfl (by simp) (by simp)⟩
    · cases hc
  · -- ext
    simp only at hc
    split at hc
    · rename_i o _ _ a l b lo hl hlo
      simp only [CmdOut.ok.injEq] at hc
      obtain ⟨rfl, rfl, rfl, rfl⟩ := hc
      obtain ⟨hda, hva, hcell⟩ := listAt_some hl
      obtain ⟨hob, hvb, hcellb⟩ := listAt_some hlo
      have hrd : rp.data = .list l := by rw [← hd, hda]; exact hva
      have hro : absHV h o = .list lo := by rw [hob]; exact hvb
      have aV : a ∉ cellsVars (h.metaAt old.md).vars := n4 a (by rw [hda]; simp [cellsHV])
      have bold : b ∉ cellsState h old := fun hx => dj b hx o (by simp) (by rw [hob]; simp [cellsHV])
      have bV : b ∉ cellsVars (h.metaAt old.md).vars := fun hx => bold (by simp [mem_cellsState, hx])
      have ba : b ≠ a := fun e => bold (by rw [e]; simp [mem_cellsState, hda, cellsHV])
      have hcellb1 := isVal_write_val (a := a) hcellb (.list (l ++ lo))
      have hm : ∀ y z, ((h.write a (.val y)).write b (.val z)).metaAt old.md = h.metaAt old.md := fun y z => by
        rw [metaAt_write_val (isVal_write_val hcellb y), metaAt_write_val hcell]
      refine ⟨{ rp with data := .list (l ++ lo) }, by simp [cmdV, hrd, hro], ?_⟩
      refine ⟨?_, ?_, by simp, by simp, by rw [hm], by rw [hm], by rw [hm]; exact kn, fun _ => ?_, n1,
        by rw [hm]; exact n2⟩
      · rw [hda]
        simp only [absHV]
        rw [Heap.valAt_write_ne _ _ (Ne.symm ba)]
        simp
      · rw [hm, absVars_write_notin bV, absVars_write_notin aV]; exact hv
      · rw [cellsState_write_val hcellb1, cellsState_write_val hcell]; exact nd
    · cases hc
  · -- pair
    simp only [CmdOut.ok.injEq] at hc
    obtain ⟨rfl, rfl, rfl, rfl⟩ := hc
    rename_i o
    exact ⟨{ rp with data := .list [rp.data, absHV h o] }, by simp [cmdV], alloc_case _ _ (by simp [hd]) rfl (by simp) (by simp)⟩
  · -- let
    simp only at hc
    split at hc
    · rename_i k v _ k' hk
      simp only [CmdOut.ok.injEq] at hc
      obtain ⟨rfl, rfl, rfl, rfl⟩ := hc
      have hk' := strOf_some hk
      subst hk'
      have vold : ∀ a ∈ cellsHV v, a ∉ cellsState h old := fun a ha hx => dj a hx v (by simp) ha
      have mdv : old.md ∉ cellsHV v := fun hx => vold _ hx (md_mem_cellsState _ _)
      have mdsv : old.md ∉ cellsVars (setVar (h.metaAt old.md).vars k' v) := fun hx => by
        rcases mem_cellsVars_setVar hx with h1 | h1
        · exact n2 h1
        · exact mdv h1
      refine ⟨{ rp with vars := setVarV rp.vars k' (absHV h v) }, by simp [cmdV, absHV], ?_⟩
      refine ⟨?_, ?_, by simp, by simp, by simp, by simp, ?_, fun _ => ?_, n1,
        by rw [Heap.metaAt_write_same]; exact mdsv⟩
      · rw [absHV_write_notin n1]; exact hd
      · rw [Heap.metaAt_write_same]
        simp only
        rw [absVars_write_notin mdsv, setVarV_abs, hv]
      · rw [Heap.metaAt_write_same]
        simp only
        rw [setVar_eq]; exact setKV_keys_nodup kn _ _
      · refine cellsState_nodup_of (h := h.write old.md _) (d := old.data) n1 ?_ ?_ ?_
        · rw [Heap.metaAt_write_same]; exact mdsv
        · rw [Heap.metaAt_write_same]
          exact cellsVars_setVar_nodup kn n3 (fun a ha hx => vold a ha (by simp [mem_cellsState, hx]))
        · intro a ha hx
          rw [Heap.metaAt_write_same] at hx
          rcases mem_cellsVars_setVar hx with h1 | h1
          · exact n4 a ha h1
          · exact vold a h1 (by simp [mem_cellsState, ha])
    · cases hc
  · -- getvar
    simp only at hc
    split at hc
    · rename_i k _ k' hk
      simp only [CmdOut.ok.injEq] at hc
      obtain ⟨rfl, rfl, rfl, rfl⟩ := hc
      have hk' := strOf_some hk
      subst hk'
      refine ⟨{ rp with data := (getVarV rp.vars k').getD .none }, by simp [cmdV, absHV], ?_⟩
      refine same_case _ _ ?_ rfl (by simp) (by simp) (fun hne => absurd rfl hne)
        (fun hx => n2 (mem_cellsHV_getVar hx))
      simp only
      rw [← hv, getVarV_abs]
      cases getVar (h.metaAt old.md).vars k' <;> simp [absHV]
    · cases hc
  · -- vapp
    simp only at hc
    split at hc
    · split at hc
      · rename_i k v _ k' hk _ a l hl
        simp only [CmdOut.ok.injEq] at hc
        obtain ⟨rfl, rfl, rfl, rfl⟩ := hc
        have hk' := strOf_some hk
        subst hk'
        obtain ⟨hg, hin, hva, hcell⟩ := getVar_listAt hl
        have hgv : getVarV rp.vars k' = some (.list l) := by
          rw [← hv, getVarV_abs, hg]; simp [absHV, hva]
        have ad : a ∉ cellsHV old.data := fun hx => n4 a hx hin
        have hm := metaAt_write_val hcell (.list (l ++ [absHV h v])) old.md
        refine ⟨{ rp with vars := setVarV rp.vars k' (.list (l ++ [absHV h v])) }, by simp [cmdV, absHV, hgv], ?_⟩
        refine ⟨by rw [absHV_write_notin ad]; exact hd, ?_, by simp, by simp, by rw [hm], by rw [hm],
          by rw [hm]; exact kn, fun _ => ?_, n1, by rw [hm]; exact n2⟩
        · rw [hm, absVars_write_var _ kn n3 hg, hv]
        · rw [cellsState_write_val hcell]; exact nd
      · cases hc
    · cases hc
  · -- cvapp: the write hits an object of the context, not of the state in hand
    simp only at hc
    split at hc
    · split at hc
      · rename_i k v _ k' hk _ a l hl
        simp only [CmdOut.ok.injEq] at hc
        obtain ⟨rfl, rfl, rfl, rfl⟩ := hc
        have hk' := strOf_some hk
        subst hk'
        obtain ⟨hg, hin, hva, hcell⟩ := getVar_listAt hl
        have hgv : getVarV rp.vars k' = some (.list l) := by
          rw [← hctx, getVarV_abs, hg]; simp [absHV, hva]
        have aold : a ∉ cellsState h old := cj rfl a hin
        have ad : a ∉ cellsHV old.data := fun hx => aold (by simp [mem_cellsState, hx])
        have aV : a ∉ cellsVars (h.metaAt old.md).vars := fun hx => aold (by simp [mem_cellsState, hx])
        have hm := metaAt_write_val hcell (.list (l ++ [absHV h v])) old.md
        refine ⟨rp, by simp [cmdV, absHV, hgv], ?_⟩
        refine ⟨by rw [absHV_write_notin ad]; exact hd, by rw [hm, absVars_write_notin aV]; exact hv, by simp, by simp,
          by rw [hm], by rw [hm], by rw [hm]; exact kn, fun _ => ?_, n1, by rw [hm]; exact n2⟩
        rw [cellsState_write_val hcell]; exact nd
      · cases hc
    · cases hc
  · -- vol
    simp only [CmdOut.ok.injEq] at hc
    obtain ⟨rfl, rfl, rfl, rfl⟩ := hc
    exact ⟨{ rp with volatile := true }, by simp [cmdV], same_case _ _ hd rfl (by simp) (by simp) (fun _ => nd) n1⟩
  · -- nocache
    simp only [CmdOut.ok.injEq] at hc
    obtain ⟨rfl, rfl, rfl, rfl⟩ := hc
    exact ⟨{ rp with caching := false }, by simp [cmdV], same_case _ _ hd rfl (by simp) (by simp) (fun _ => nd) n1⟩
  · cases hc

/-- only `vol` makes a state volatile -/
theorem cmdV_volatile {st r' : RState} {name : String} {args : List Val} (h : cmdV st name args = some r')
    (hn : name ≠ "vol") : r'.volatile = st.volatile := by
  unfold cmdV at h
  split at h
  all_goals first
    | (simp only [Option.some.injEq] at h; subst h; rfl)
    | (split at h <;> first | (simp only [Option.some.injEq] at h; subst h; rfl) | cases h)
    | exact absurd rfl hn
    | cases h

end Liquer.Iso
