/-
Frame lemmas for a whole evaluation: the flags of the world never change and the call log only grows.
-/
import LiquerProofs.Lemmas.EvalStep

namespace Liquer

/-- what every evaluation leaves alone -/
def Frame (w w' : World) : Prop :=
  w'.enabled = w.enabled ∧ w'.metaKeepsData = w.metaKeepsData ∧ ∃ c, w'.calls = w.calls ++ c

theorem Frame.refl (w : World) : Frame w w := ⟨rfl, rfl, [], by simp⟩

theorem Frame.trans {a b c : World} (h1 : Frame a b) (h2 : Frame b c) : Frame a c := by
  obtain ⟨e1, m1, c1, k1⟩ := h1
  obtain ⟨e2, m2, c2, k2⟩ := h2
  exact ⟨e2.trans e1, m2.trans m1, c1 ++ c2, by rw [k2, k1, List.append_assoc]⟩

theorem Frame.storeMeta (w : World) (k st : Str) : Frame w (w.storeMeta k st) := ⟨by simp, by simp, [], by simp⟩
theorem Frame.metaIf (w : World) (uc : Bool) (k st : Str) : Frame w (w.metaIf uc k st) := ⟨by simp, by simp, [], by simp⟩
theorem Frame.store (w : World) (st : EState) : Frame w (w.store st) := ⟨by simp, by simp, [], by simp⟩
theorem Frame.remove (w : World) (k : Str) : Frame w (w.remove k) := ⟨by simp, by simp, [], by simp⟩
theorem Frame.log (w : World) (c : Str) : Frame w (w.log c) := ⟨by simp, by simp, [c], by simp⟩

theorem Frame.logCall (w : World) (st sig args) : Frame w (w.logCall st sig args) := by
  unfold World.logCall; split
  · exact Frame.refl w
  · exact Frame.log w _

theorem Frame.subW (uc raw o) (w : World) : Frame w (subW uc raw o w) := by
  unfold Liquer.subW; split
  · exact Frame.metaIf _ _ _ _
  · exact Frame.metaIf _ _ _ _
  · exact Frame.refl w

theorem Frame.admitW (uc key st3) (w : World) : Frame w (admitW uc key st3 w) := by
  unfold Liquer.admitW; split
  · exact Frame.refl w
  · split
    · exact Frame.store _ _
    · split
      · exact Frame.storeMeta _ _ _
      · exact Frame.remove _ _

theorem Frame.fileW (uc key st2) (w : World) : Frame w (fileW uc key st2 w) := by
  unfold Liquer.fileW; split
  · exact Frame.refl w
  · split
    · exact Frame.store _ _
    · exact Frame.remove _ _

structure FrameAt (env : Env) (n : Nat) : Prop where
  text : ∀ w t ug, Frame w (evalText env n w t ug).1
  q : ∀ w q raw extra input uc, Frame w (evalQ env n w q raw extra input uc).1
  act : ∀ w st a raw parent extra uc, Frame w (evalAction env n w st a raw parent extra uc).1
  params : ∀ w ps raw parent, Frame w (evalParams env n w ps raw parent).1

theorem call_frame {env : Env} {n : Nat} (ih : FrameAt env n) (w1 : World) (st act raw sig x uc) :
    Frame w1 (evalCall env n w1 st act raw sig x uc).1 := by
  unfold evalCall
  split
  · exact Frame.refl _
  · exact Frame.metaIf _ _ _ _
  · split
    · exact Frame.logCall _ _ _ _
    · exact (Frame.logCall _ _ _ _).trans (Frame.metaIf _ _ _ _)
    · exact (Frame.logCall _ _ _ _).trans (Frame.metaIf _ _ _ _)
    · exact (Frame.logCall _ _ _ _).trans (Frame.metaIf _ _ _ _)
    · exact (Frame.logCall _ _ _ _).trans (Frame.metaIf _ _ _ _)
    · exact ((Frame.logCall _ _ _ _).trans (ih.text _ _ _)).trans (Frame.subW _ _ _ _)

theorem link_frame {env : Env} {n : Nat} (ih : FrameAt env n) (w : World) (lq : Query) (parent : Str) :
    Frame w (evalLink env n w lq parent).1 := by
  unfold evalLink
  split
  · exact ih.q _ _ _ _ _ _
  · split
    · split
      · exact Frame.refl _
      · exact ih.text _ _ _
    · exact Frame.refl _

theorem params_frame_step {env : Env} {n : Nat} (ih : FrameAt env n) (w : World) (ps : List Param) (raw parent : Str) :
    Frame w (evalParams env (n+1) w ps raw parent).1 := by
  cases ps with
  | nil => rw [evalParams_nil]; exact Frame.refl _
  | cons p ps =>
    cases p with
    | str t pos =>
      rw [evalParams_str]
      have := ih.params w ps raw parent
      generalize evalParams env n w ps raw parent = x at this ⊢
      rcases x with ⟨w1, r⟩
      cases r <;> exact this
    | link lq pos =>
      rw [evalParams_link]
      have h1 := link_frame ih w lq parent
      generalize evalLink env n w lq parent = x at h1 ⊢
      rcases x with ⟨w1, o⟩
      cases o with
      | st v =>
        simp only
        split
        · exact h1
        · have h2 := ih.params w1 ps raw parent
          generalize evalParams env n w1 ps raw parent = x at h2 ⊢
          rcases x with ⟨w2, r⟩
          cases r <;> exact h1.trans h2
      | _ => exact h1

theorem act_frame_step {env : Env} {n : Nat} (ih : FrameAt env n) (w : World) (st : EState) (a : Action)
    (raw parent : Str) (extra : Extra) (uc : Bool) :
    Frame w (evalAction env (n+1) w st a raw parent extra uc).1 := by
  rw [evalAction_succ]
  have h0 := Frame.metaIf w uc raw (s "evaluation")
  split
  · exact h0
  · split
    · exact h0
    · split
      · exact h0.trans (Frame.metaIf _ _ _ _)
      · have h1 := ih.params (w.metaIf uc raw (s "evaluation")) a.params raw parent
        generalize evalParams env n (w.metaIf uc raw (s "evaluation")) a.params raw parent = x at h1 ⊢
        rcases x with ⟨w1, r⟩
        cases r with
        | inr o => exact h0.trans h1
        | inl given => exact (h0.trans h1).trans (call_frame ih _ _ _ _ _ _ _)

theorem text_frame_step {env : Env} {n : Nat} (ih : FrameAt env n) (w : World) (t : Str) (ug : Bool) :
    Frame w (evalText env (n+1) w t ug).1 := by
  rw [evalText_succ]
  split
  · exact Frame.refl _
  · exact ih.q _ _ _ _ _ _

theorem post_frame {env : Env} {n : Nat} (ih : FrameAt env n) (w1 : World) (st parent r key raw extra uc) :
    Frame w1 (evalPost env n w1 st parent r key raw extra uc).1 := by
  unfold evalPost
  split
  · exact Frame.refl _
  · exact (Frame.metaIf _ _ _ _).trans (Frame.fileW _ _ _ _)
  · next hd a =>
    have h1 := ih.act w1 st a raw parent extra uc
    cases (evalAction env n w1 st a raw parent extra uc).2 with
    | st st2 => exact h1.trans (Frame.admitW _ _ _ _)
    | _ => exact h1
  · exact Frame.refl _

theorem after_frame {env : Env} {n : Nat} (ih : FrameAt env n) (w1 : World) (o parent r key raw extra uc) :
    Frame w1 (evalAfter env n w1 o parent r key raw extra uc).1 := by
  unfold evalAfter
  split
  · exact Frame.refl _
  · exact Frame.refl _
  · exact Frame.refl _
  · split
    · exact Frame.metaIf _ _ _ _
    · exact post_frame ih _ _ _ _ _ _ _ _

theorem pre_frame {env : Env} {n : Nat} (ih : FrameAt env n) (w : World) (q raw input uc) :
    Frame w (evalPre env n w q raw input uc).1 := by
  unfold evalPre
  split
  · exact Frame.refl _
  · exact (Frame.metaIf _ _ _ _).trans (ih.q _ _ _ _ _ _)

theorem q_frame_step {env : Env} {n : Nat} (ih : FrameAt env n) (w : World) (q : Query) (raw : Str) (extra : Extra)
    (input : Option Val) (uc : Bool) :
    Frame w (evalQ env (n+1) w q raw extra input uc).1 := by
  rw [evalQ_succ']
  split
  · exact Frame.refl _
  · split
    · exact Frame.refl _
    · exact (pre_frame ih w q raw input uc).trans (after_frame ih _ _ _ _ _ _ _ _)

theorem frameAt_zero (env : Env) : FrameAt env 0 where
  text := fun w t ug => by rw [evalText_zero]; exact Frame.refl _
  q := fun w q raw extra input uc => by rw [evalQ_zero]; exact Frame.refl _
  act := fun w st a raw parent extra uc => by rw [evalAction_zero]; exact Frame.refl _
  params := fun w ps raw parent => by rw [evalParams_zero]; exact Frame.refl _

/-- an evaluation never changes the flags of the world and only appends to the call log -/
theorem frame (env : Env) : ∀ n, FrameAt env n
  | 0 => frameAt_zero env
  | n + 1 =>
    have ih := frame env n
    { text := text_frame_step ih, q := q_frame_step ih, act := act_frame_step ih, params := params_frame_step ih }

end Liquer
