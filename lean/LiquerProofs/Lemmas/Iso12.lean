/-
C10 helpers, part 12: soundness over histories.  Separation and soundness of the cache are preserved by every operation
(evaluations of chains of the class `P`, any mutation by the caller), so the result of every evaluation is the value-level
meaning of its chain under the defaults configured at the start.
-/
import LiquerProofs.Lemmas.Iso11

namespace Liquer.Iso

variable {d : List (Str × Val)} {P : List Act → Prop}

/-- separation and cache soundness together -/
structure HSound (d : List (Str × Val)) (P : List Act → Prop) (s : Hist) : Prop where
  sep : Sep s
  sound : SoundW d P s.w

theorem HSound.init {h0 : Heap} {dd : List (Str × HV)} (b : Bool) (wf : h0.WF) (hd : ∀ a ∈ cellsVars dd, a < h0.next)
    (hk : (dd.map Prod.fst).Nodup) : HSound (absVars h0 dd) P { w := { heap := h0, defaults := dd, cacheOn := b } } :=
  ⟨Sep.init b wf hd, ⟨fun _ h => (nomatch h), rfl, hk⟩⟩

/-- the result of the evaluation step, in terms of `eval_sound` -/
theorem HSound.eval {s : Hist} (hC : Closed P) (hK : KeyOK d P) (hS : Safe d P) (hs : HSound d P s) {q : List Act}
    (hq : P q) :
    HSound d P (step s (.eval q)) ∧
      ∀ st, (evalChain (evalFuel q) { s.w with calls := [] } false q).2 = .st st →
        ∃ m r, refChain d m q = some r ∧ Agrees (step s (.eval q)).w.heap st r := by
  have h := (eval_sound hC hK hS (evalFuel q)).1 { s.w with calls := [] } false q (hs.sep.inv.calls []) (hs.sound.calls [])
    hq (evalChain (evalFuel q) { s.w with calls := [] } false q).1 (evalChain (evalFuel q) { s.w with calls := [] } false q).2 rfl
  refine ⟨⟨hs.sep.eval q, by rw [step_eval]; exact h.1⟩, fun st hst => ?_⟩
  have h2 := h.2
  rw [hst] at h2
  obtain ⟨m, r, h3, h4, -⟩ := h2
  rw [step_eval]
  exact ⟨m, r, h3, h4⟩

theorem HSound.caller {s : Hist} (hs : HSound d P s) (op : Op) (i : Nat) (ht : op.target = some i) :
    HSound d P (step s op) := by
  refine ⟨hs.sep.step op, ?_⟩
  rcases caller_cases s op i ht with h | ⟨st, a, c, hn, ha, -, h⟩
  · rw [h]; exact hs.sound
  · rw [h]
    refine ⟨fun e he => ?_, ?_, hs.sound.dkeys⟩
    · exact (hs.sound.entries e he).congr
        (cells_write_other (fun hx => hs.sep.retCache i st hn e he a ha hx))
    · exact (write_abs_dflt hs.sep hn ha).trans hs.sound.dflt

theorem HSound.step {s : Hist} (hC : Closed P) (hK : KeyOK d P) (hS : Safe d P) (hs : HSound d P s) (op : Op)
    (hP : ∀ q, op = .eval q → P q) : HSound d P (Liquer.Iso.step s op) := by
  cases ht : op.target with
  | none =>
    cases op with
    | eval q => exact (hs.eval hC hK hS (hP q rfl)).1
    | _ => cases ht
  | some i => exact hs.caller op i ht

theorem HSound.run {s : Hist} (hC : Closed P) (hK : KeyOK d P) (hS : Safe d P) (hs : HSound d P s) (ops : List Op)
    (hP : ∀ q, Op.eval q ∈ ops → P q) : HSound d P (run s ops) := by
  induction ops generalizing s with
  | nil => exact hs
  | cons op ops ih =>
    rw [run_cons]
    exact ih (hs.step hC hK hS op (fun q e => hP q (by simp [e]))) (fun q hq => hP q (List.mem_cons_of_mem _ hq))

/-- the last returned state of a history that ends with an evaluation -/
theorem last_returned (s : Hist) (q : List Act) :
    (step s (.eval q)).returned.getLast? = some (resOpt (evalChain (evalFuel q) { s.w with calls := [] } false q).2) := by
  rw [step_eval]; simp

theorem Agrees.abs {h : Heap} {st : HState} {r : RState} (a : Agrees h st r) :
    (absState h st).data = r.data ∧ (absState h st).vars = r.vars ∧ (absState h st).volatile = r.volatile ∧
      (absState h st).caching = r.caching := ⟨a.data, a.vars, a.volatile, a.caching⟩

/-! ### a syntactic condition that implies `Safe` -/

theorem dropLast_getLast? {α : Type} {l : List α} {a : α} (h : l.getLast? = some a) : l.dropLast ++ [a] = l := by
  have hne : l ≠ [] := fun e => by rw [e] at h; cases h
  rw [List.getLast?_eq_some_getLast hne] at h
  have := List.dropLast_concat_getLast hne
  rw [Option.some.inj h] at this
  exact this

theorem refChain_nonvolatile (m : Nat) : ∀ (acts : List Act) (r : RState), refChain d m acts = some r →
    (∀ b ∈ acts, String.ofList b.name ≠ "vol") → r.volatile = false := by
  induction m with
  | zero => intro acts r h; rw [refChain_zero] at h; cases h
  | succ m ih =>
    intro acts r h hv
    cases hl : acts.getLast? with
    | none => rw [refChain_nil hl] at h; cases h; rfl
    | some act =>
      rw [refChain_succ hl, Option.bind_eq_some_iff] at h
      obtain ⟨pred, hp, h⟩ := h
      rw [Option.bind_eq_some_iff] at h
      obtain ⟨args, -, h⟩ := h
      have hacts : acts.dropLast ++ [act] = acts := dropLast_getLast? hl
      have hpv : pred.volatile = false := by
        unfold predRef at hp
        split at hp
        · cases hp; rfl
        · exact ih _ _ hp (fun b hb => hv b (by rw [← hacts]; exact List.mem_append_left _ hb))
      rw [cmdV_volatile h (hv act (by rw [← hacts]; simp))]
      exact hpv

/-- no `vol` to the left of a `getvar` or a `cvapp` in any chain of the class -/
theorem safe_of_syntactic
    (hsyn : ∀ acts act, P acts → acts.getLast? = some act →
      (String.ofList act.name = "getvar" ∨ String.ofList act.name = "cvapp") →
      ∀ b ∈ acts.dropLast, String.ofList b.name ≠ "vol") : Safe d P := by
  intro acts act hP hl hn m r hp
  unfold predRef at hp
  split at hp
  · cases hp; rfl
  · exact refChain_nonvolatile m _ _ hp (hsyn acts act hP hl hn)

/-- injective keys give `KeyOK` -/
theorem keyOK_of_injective (hinj : ∀ a b acts acts', P acts → P acts' → keyOf a acts = keyOf b acts' → acts = acts') :
    KeyOK d P := by
  intro a b acts acts' h1 h2 hk m
  rw [hinj a b acts acts' h1 h2 hk]

end Liquer.Iso
