/-
Helper lemmas for C08 (LiquerModel/Recipes.lean), part 1: the metadata codec and everything that holds for an
ARBITRARY sub-store model `S`: the evaluation log is touched by nothing but `evalPhase`.
-/
import LiquerModel.Recipes

namespace Liquer.Rcp

/-! ### the metadata token round-trips -/

theorem splitLen_replicate (n : Nat) (rest : Str) : splitLen (List.replicate n 'x' ++ '|' :: rest) = (n, rest) := by
  induction n with
  | zero => simp [splitLen]
  | succ n ih => simp [List.replicate_succ, splitLen, ih]

theorem decField_encField (s rest : Str) : decField (encField s ++ rest) = (s, rest) := by
  unfold decField encField
  rw [List.append_assoc, List.cons_append, splitLen_replicate]
  simp

theorem decOpt_encOpt (o : Option Str) (rest : Str) : decOpt (encOpt o ++ rest) = (o, rest) := by
  cases o with
  | none => simp [encOpt, decOpt]
  | some s => simp [encOpt, decOpt, decField_encField]

theorem decStatus_encStatus (s : RStatus) : decStatus (encStatus s) = s := by
  cases s <;> simp [encStatus, decStatus]

theorem decRM_encRM (m : RMeta) : decRM (encRM m) = m := by
  obtain ⟨st, ti, de, hr, dn, dv⟩ := m
  have h4 : decOpt (encOpt dv) = (dv, []) := by simpa using decOpt_encOpt dv []
  cases hr <;>
    simp [encRM, decRM, decStatus_encStatus, decOpt_encOpt, h4]

theorem decRM_nil : decRM [] = {} := rfl

/-! ### the log under the store operations (any sub-store) -/

variable {σ : Type} (S : StoreOps σ) (cfg : Cfg) (E : Env)

theorem createStatus_log (st : RState σ) (k : Key) : (createStatus S cfg st k).log = st.log := by
  unfold createStatus
  split
  · rfl
  · split
    · rfl
    · split <;> rfl

theorem store_log {st st' : RState σ} {k : Key} {d : Data} {m : RMeta} (h : store S cfg st k d m = .ok st') :
    st'.log = st.log := by
  unfold store at h
  split at h
  · cases h
  · cases h
    simp [createStatus_log]

theorem storeMeta_log {st st' : RState σ} {k : Key} {m : RMeta} {z : Option Nat} {h5 : Option Data}
    (h : storeMeta S cfg st k m z h5 = .ok st') : st'.log = st.log := by
  unfold storeMeta at h
  split at h
  · cases h
  · cases h
    simp [createStatus_log]

theorem remove_log {st st' : RState σ} {k : Key} (h : remove S cfg st k = .ok st') : st'.log = st.log := by
  unfold remove at h
  split at h
  · cases h
  · cases h
    simp [createStatus_log]

theorem writeBack_log (st : RState σ) (k : Key) (out : EvalOut) : (writeBack S cfg st k out).1.log = st.log := by
  cases out with
  | ok d =>
    simp only [writeBack]
    cases hs : store S cfg st k d (evMeta .ready) with
    | ok s => exact store_log S cfg hs
    | error e => rfl
  | failed bare =>
    simp only [writeBack]
    cases hs : storeMeta S cfg st k (if bare then evMetaBare else evMeta .error) none none with
    | ok s => exact storeMeta_log S cfg hs
    | error e => rfl
  | raised => rfl

theorem finishTail_log (st : RState σ) (k : Key) (r : Recipe) (b : Bool) : (finishTail S cfg st k r b).1.log = st.log := by
  unfold finishTail
  split
  · rfl
  · split
    · rfl
    · simp [createStatus_log]

theorem finish_log (st : RState σ) (k : Key) (r : Recipe) (out : EvalOut) :
    (finish S cfg st k r out).1.log = st.log := by
  unfold finish
  rw [finishTail_log, writeBack_log]

theorem cleanOne_log (acc : RState σ × List Key) (k : Key) : (cleanOne S cfg acc k).1.log = acc.1.log := by
  unfold cleanOne
  split
  · split
    · split
      · split
        · rename_i s hs
          exact remove_log S cfg hs
        · rfl
      · rfl
    · rfl
  · rfl

theorem foldl_cleanOne_log (l : List Key) (acc : RState σ × List Key) :
    (l.foldl (cleanOne S cfg) acc).1.log = acc.1.log := by
  induction l generalizing acc with
  | nil => rfl
  | cons k l ih => rw [List.foldl_cons, ih, cleanOne_log]

theorem clean_log (st : RState σ) (dir : Key) (r : Bool) : (clean S cfg st dir r).1.log = st.log := by
  unfold clean
  split
  · split
    · rfl
    · exact foldl_cleanOne_log S cfg _ _
  · rfl

/-! ### `evalPhase` and `get_bytes`: the log only grows, and only by evaluations -/

/-- what `evalPhase` does to the log, given what the reader `rd` does -/
theorem evalPhase_log (rd : RState σ → Key → RState σ × Except StoreErr Data) (st : RState σ) (r : Recipe) (k : Key)
    (hrd : ∀ s q, s.log <:+ (rd s q).1.log) : st.log <:+ (evalPhase S cfg E rd st r k).1.log := by
  unfold evalPhase
  split
  · exact List.suffix_refl _
  · split
    · split
      · exact List.suffix_refl _
      · have hb : st.log <:+ (bytesRoot cfg rd st ‹_›).1.log := by
          unfold bytesRoot
          split
          · exact hrd _ _
          · exact List.suffix_refl _
        split
        · exact hb
        · exact hb.trans (List.suffix_cons _ _)
    · exact List.suffix_cons _ _

theorem getBytesF_log (n : Nat) (st : RState σ) (k : Key) : st.log <:+ (getBytesF S cfg E n st k).1.log := by
  induction n generalizing st k with
  | zero => exact List.suffix_refl _
  | succ n ih =>
    unfold getBytesF
    split
    · exact List.suffix_refl _
    · exact List.suffix_refl _
    · have hm : st.log <:+ (makeWith S cfg E (getBytesF S cfg E n) st k).1.log := by
        unfold makeWith
        split
        · exact List.suffix_refl _
        · rw [finish_log]
          exact evalPhase_log S cfg E _ st _ k (fun s q => ih s q)
      unfold afterMake
      split <;> exact hm

/-- a read of a key the sub-store has is served from it and changes nothing -/
theorem getBytesF_present (n : Nat) (st : RState σ) (k : Key) (h : S.contains st.sub k = .ok true) :
    getBytesF S cfg E (n + 1) st k = (st, S.getBytes st.sub k) := by
  simp [getBytesF, h]

theorem getBytesF_contains_error (n : Nat) (st : RState σ) (k : Key) (e : StoreErr) (h : S.contains st.sub k = .error e) :
    getBytesF S cfg E (n + 1) st k = (st, .error e) := by
  simp [getBytesF, h]

/-- a read of a key that is neither in the sub-store nor declared fails and changes nothing -/
theorem getBytesF_undeclared (n : Nat) (st : RState σ) (k : Key) (h : S.contains st.sub k = .ok false)
    (hl : cfg.lookup k = none) : getBytesF S cfg E (n + 1) st k = (st, .error .keyNotFound) := by
  simp [getBytesF, h, makeWith, hl, afterMake]

/-- **one step**: unless it is a `get_bytes` of a declared key the sub-store does not contain, the log is unchanged -/
theorem step_quiet (st : RState σ) (op : ROp) (h : triggers S cfg st op = false) : (step S cfg E st op).log = st.log := by
  cases op with
  | getBytes k =>
    simp only [step, getBytes, fuelOf]
    simp only [triggers] at h
    cases hc : S.contains st.sub k with
    | error e => rw [getBytesF_contains_error S cfg E _ st k e hc]
    | ok b =>
      cases b with
      | true => rw [getBytesF_present S cfg E _ st k hc]
      | false =>
        rw [hc] at h
        have hl : cfg.lookup k = none := by
          cases hk : cfg.lookup k with
          | none => rfl
          | some r => simp [hk] at h
        rw [getBytesF_undeclared S cfg E _ st k hc hl]
  | remove k =>
    simp only [step]
    cases hr : remove S cfg st k with
    | ok s => exact remove_log S cfg hr
    | error e => rfl
  | clean d r => simp only [step]; exact clean_log S cfg st d r
  | getMeta k => rfl
  | contains k => rfl
  | isDir k => rfl
  | keys => rfl
  | listdir k => rfl

theorem step_log_suffix (st : RState σ) (op : ROp) : st.log <:+ (step S cfg E st op).log := by
  cases op with
  | getBytes k => exact getBytesF_log S cfg E _ st k
  | remove k =>
    simp only [step]
    cases hr : remove S cfg st k with
    | ok s => rw [remove_log S cfg hr]; exact List.suffix_refl _
    | error e => exact List.suffix_refl _
  | clean d r => simp only [step]; rw [clean_log]; exact List.suffix_refl _
  | getMeta k => exact List.suffix_refl _
  | contains k => exact List.suffix_refl _
  | isDir k => exact List.suffix_refl _
  | keys => exact List.suffix_refl _
  | listdir k => exact List.suffix_refl _

/-- no step of the history triggers an evaluation -/
def quiet (st : RState σ) : List ROp → Prop
  | [] => True
  | op :: h => triggers S cfg st op = false ∧ quiet (step S cfg E st op) h

theorem run_quiet (h : List ROp) (st : RState σ) (hq : quiet S cfg E st h) : (run S cfg E st h).log = st.log := by
  induction h generalizing st with
  | nil => rfl
  | cons op h ih =>
    obtain ⟨h1, h2⟩ := hq
    show (run S cfg E (step S cfg E st op) h).log = st.log
    rw [ih _ h2, step_quiet S cfg E st op h1]

theorem run_log_suffix (h : List ROp) (st : RState σ) : st.log <:+ (run S cfg E st h).log := by
  induction h generalizing st with
  | nil => exact List.suffix_refl _
  | cons op h ih => exact (step_log_suffix S cfg E st op).trans (ih _)

/-- if the log grew over a history, some step of it triggered: a `get_bytes` of a declared key absent at that moment -/
theorem run_grew (h : List ROp) (st : RState σ) (hg : (run S cfg E st h).log ≠ st.log) :
    ∃ pre op post, h = pre ++ op :: post ∧ triggers S cfg (run S cfg E st pre) op = true := by
  induction h generalizing st with
  | nil => exact absurd rfl hg
  | cons op h ih =>
    by_cases ht : triggers S cfg st op = true
    · exact ⟨[], op, h, rfl, ht⟩
    · have hq := step_quiet S cfg E st op (by simpa using ht)
      have hg' : (run S cfg E (step S cfg E st op) h).log ≠ (step S cfg E st op).log := by
        rw [hq]; exact hg
      obtain ⟨pre, o, post, e, t⟩ := ih _ hg'
      exact ⟨op :: pre, o, post, by rw [e]; rfl, t⟩

end Liquer.Rcp
