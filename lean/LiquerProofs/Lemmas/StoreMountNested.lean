/-
Lemmas about nested mount-point stores (C14): the real `is_supported` of a mounted composite (`Mt.supports`),
routing of the outer composite for ANY `supp`, lifting of directory flags / listings / reads through a level,
and the link between the "before the repair" model and `Mt.isDir`.
-/
import LiquerModel.StoreMountNested
import LiquerProofs.Lemmas.StoreMount

namespace Liquer.MtN
open Liquer Liquer.SV Liquer.MtL

variable {σ : Type}

/-! ### any `is_supported` -/

theorem hit_prefix {supp : σ → Key → Bool} {p : Key} {st : σ} {k : Key} (h : Mt.hit supp p st k = true) : p <+: k := by
  unfold Mt.hit at h
  simp only [Bool.or_eq_true, beq_iff_eq, Bool.and_eq_true, List.isPrefixOf_iff_prefix] at h
  rcases h with h | h
  · exact h ▸ List.prefix_refl _
  · exact h.1

theorem hit_append (supp : σ → Key → Bool) (p : Key) (st : σ) (q : Key) (h : q = [] ∨ supp st q = true) :
    Mt.hit supp p st (p ++ q) = true := by
  unfold Mt.hit
  rcases h with h | h
  · subst h; simp
  · have : p.isPrefixOf (p ++ q) = true := List.isPrefixOf_iff_prefix.mpr ⟨q, rfl⟩
    simp [this, h]

/-- under `tableWF` the innermost mount on the path to `k` is the routed one as soon as it accepts the key — whatever
the other stores' `is_supported` says -/
theorem routeIdx_owned (supp : σ → Key → Bool) (tbl : List (Key × σ)) (hwf : tableWF (tbl.map (·.1)) = true)
    (k : Key) (i : Nat) (p : Key) (st : σ) (hi : tbl[i]? = some (p, st)) (ho : Owns tbl i k)
    (hh : Mt.hit supp p st k = true) : Mt.routeIdx supp tbl k = some i := by
  rw [routeIdx_some]
  refine ⟨p, st, hi, hh, ?_⟩
  intro j q st' hj hq
  cases hc : Mt.hit supp q st' k with
  | false => rfl
  | true =>
    exfalso
    have hqk := hit_prefix hc
    obtain ⟨p', st'', h1, hpk, hmax⟩ := ho
    rw [hi] at h1; cases h1
    have h1 := wf_later_deeper hwf hj (map_get hi) (map_get hq) hpk hqk
    have h2 := hmax j q st' hq hqk
    omega

theorem route_owned (supp : σ → Key → Bool) (s : MtState σ) (hwf : tableWF (s.2.map (·.1)) = true)
    (k : Key) (i : Nat) (p : Key) (st : σ) (hi : s.2[i]? = some (p, st)) (ho : Owns s.2 i k)
    (hh : Mt.hit supp p st k = true) : Mt.route supp s k = .ok (.part i) := by
  unfold Mt.route
  rw [routeIdx_owned supp s.2 hwf k i p st hi ho hh]

/-- the fall-through: when the entry mounted last refuses the key, `route_to` goes on with the entries mounted before it
(and finally the default store) -/
theorem routeIdx_refused_last (supp : σ → Key → Bool) (tbl : List (Key × σ)) (p : Key) (st : σ) (k : Key)
    (hh : Mt.hit supp p st k = false) : Mt.routeIdx supp (tbl ++ [(p, st)]) k = Mt.routeIdx supp tbl k := by
  induction tbl with
  | nil => simp [Mt.routeIdx, hh]
  | cons e rest ih =>
    obtain ⟨q, st'⟩ := e
    simp only [List.cons_append, Mt.routeIdx, ih]

variable (P : StoreOps σ) (supp : σ → Key → Bool)

/-! ### directories of a composite, any `supp` -/

theorem isDir_above (s : MtState σ) (k : Key) (h : Above s.2 k) : Mt.isDir P supp s k = .ok true := by
  unfold Mt.isDir
  rw [if_pos ((above_cond s.2 k).mpr h)]

theorem contains_of_isDir (s : MtState σ) (k : Key) (h : Mt.isDir P supp s k = .ok true) :
    Mt.contains P supp s k = .ok true := by
  unfold Mt.contains
  rw [h]

theorem supports_of_isDir (s : MtState σ) (k : Key) (h : Mt.isDir P supp s k = .ok true) :
    Mt.supports P supp s k = true := by
  unfold Mt.supports
  rw [h]
  rfl

/-- the root, the mount points and their parents are supported, with or without a default store -/
theorem supports_above (s : MtState σ) (k : Key) (h : Above s.2 k) : Mt.supports P supp s k = true :=
  supports_of_isDir P supp s k (isDir_above P supp s k h)

/-- a leaf seen as a composite supports what the leaf supports (and its directories) -/
theorem supports_leaf (st : σ) (k : Key) (h : supp st k = true) : Mt.supports P supp (Mt.leaf st) k = true := by
  unfold Mt.supports
  have : Mt.route supp (Mt.leaf st) k = .ok .dflt := by simp [Mt.route, Mt.leaf, Mt.routeIdx]
  rw [this]
  simp [Mt.routedSupports, Mt.leaf, h]

theorem leaf_getBytes (st : σ) (k : Key) : (mountOps P supp).getBytes (Mt.leaf st) k = P.getBytes st k := by
  simp [mountOps, Mt.routedRead, Mt.route, Mt.leaf, Mt.routeIdx, Mt.readAt, Except.bind]

theorem leaf_isDir (st : σ) (k : Key) (hk : k ≠ []) : (mountOps P supp).isDir (Mt.leaf st) k = P.isDir st k := by
  show Mt.isDir P supp (Mt.leaf st) k = _
  have hke : k.isEmpty = false := by simpa using hk
  simp [Mt.isDir, Mt.route, Mt.leaf, Mt.routeIdx, Mt.readAt, Mt.aboveMount, hke]

/-! ### one level of nesting: the outer composite at `p ++ q` = the inner composite at `q` -/

section lift
variable {P supp}
variable {o : MtState (MtState σ)} (hwf : tableWF (o.2.map (·.1)) = true)
  {i : Nat} {p : Key} {m : MtState σ} (hi : o.2[i]? = some (p, m)) {q : Key} (ho : Owns o.2 i (p ++ q))
include hwf hi ho

theorem nested_route (hs : q = [] ∨ Mt.supports P supp m q = true) :
    Mt.route (Mt.supports P supp) o (p ++ q) = .ok (.part i) :=
  route_owned _ o hwf (p ++ q) i p m hi ho (hit_append _ p m q hs)

/-- a directory of the inner composite is a directory of the outer one -/
theorem nested_isDir_lift (hd : (mountOps P supp).isDir m q = .ok true) :
    (nestedOps P supp).isDir o (p ++ q) = .ok true := by
  show Mt.isDir (mountOps P supp) (Mt.supports P supp) o (p ++ q) = _
  by_cases ha : Above o.2 (p ++ q)
  · exact isDir_above _ _ o _ ha
  · unfold Mt.isDir
    rw [if_neg (fun e => ha ((above_cond o.2 _).mp e)),
      nested_route hwf hi ho (Or.inr (supports_of_isDir P supp m q hd))]
    simp only [Mt.readAt, hi]
    rw [prefix_isDir (mountOps P supp) ⟨q, rfl⟩ (not_above_ne ha hi) m]
    simpa using hd

theorem nested_contains_lift (hd : (mountOps P supp).isDir m q = .ok true) :
    (nestedOps P supp).contains o (p ++ q) = .ok true :=
  contains_of_isDir _ _ o _ (nested_isDir_lift hwf hi ho hd)

/-- a key the inner composite supports is read from the inner composite, with the prefix stripped -/
theorem nested_getBytes (hs : q = [] ∨ Mt.supports P supp m q = true) :
    (nestedOps P supp).getBytes o (p ++ q) = (mountOps P supp).getBytes m q := by
  show Mt.routedRead (mountOps P supp) (Mt.supports P supp) o (p ++ q) _ = _
  unfold Mt.routedRead
  rw [nested_route hwf hi ho hs]
  simp only [Except.bind, Mt.readAt, hi]
  rw [prefix_getBytes (mountOps P supp) ⟨q, rfl⟩ m]
  simp

theorem nested_listBase (hs : q = [] ∨ Mt.supports P supp m q = true) :
    Mt.listBase (mountOps P supp) (Mt.supports P supp) o (p ++ q) =
      ((mountOps P supp).listdir m q).map (fun x => x.getD []) := by
  unfold Mt.listBase
  rw [nested_route hwf hi ho hs]
  simp only [Mt.readAt, hi]
  rw [prefix_listdir (mountOps P supp) ⟨q, rfl⟩ m]
  simp

end lift

/-! ### listings, any `supp` -/

/-- the listing of `k`: the routed listing united with the mount points directly below, no repetition -/
theorem listdir_gen (s : MtState σ) (hwf : tableWF (s.2.map (·.1)) = true) (k : Key) (base : List Str)
    (hb : Mt.listBase P supp s k = .ok base) :
    ∃ l, (mountOps P supp).listdir s k = .ok (some l) ∧ l.Nodup ∧
      ∀ nm, nm ∈ l ↔ nm ∈ base ∨ ∃ p st, (p, st) ∈ s.2 ∧ (k ++ [nm]) <+: p := by
  obtain ⟨h1, h2⟩ := sortNames_spec (base ++ s.2.filterMap (fun e => Mt.mountChild k e.1))
  refine ⟨_, ?_, h1, ?_⟩
  · show (Mt.listdirL P supp s k).map some = _
    unfold Mt.listdirL
    rw [hb]
    rfl
  · intro nm
    rw [h2, List.mem_append, mem_mountChildren s.2 hwf]

/-- a listing that answers is never `None`, and it names the next component of every mount point below `k` -/
theorem listdir_mount_child (s : MtState σ) (k : Key) (c : Str) (rest : Key) (st : σ)
    (hm : (k ++ [c] ++ rest, st) ∈ s.2) (r : Option (List Str)) (h : (mountOps P supp).listdir s k = .ok r) :
    ∃ l, r = some l ∧ c ∈ l := by
  change (Mt.listdirL P supp s k).map some = _ at h
  unfold Mt.listdirL at h
  cases hb : Mt.listBase P supp s k with
  | error e => rw [hb] at h; cases h
  | ok d =>
    rw [hb] at h
    cases h
    refine ⟨_, rfl, ?_⟩
    rw [(sortNames_spec _).2, List.mem_append]
    right
    rw [List.mem_filterMap]
    refine ⟨(k ++ [c] ++ rest, st), hm, ?_⟩
    rw [mountChild_iff k _ (by simp) c]
    exact ⟨rest, rfl⟩

theorem listdir_ok_iff (s : MtState σ) (k : Key) :
    (∃ r, (mountOps P supp).listdir s k = .ok r) ↔ ∃ b, Mt.listBase P supp s k = .ok b := by
  show (∃ r, (Mt.listdirL P supp s k).map some = .ok r) ↔ _
  unfold Mt.listdirL
  cases hb : Mt.listBase P supp s k with
  | error e =>
    constructor
    · rintro ⟨r, h⟩; cases h
    · rintro ⟨b, h⟩; cases h
  | ok d => exact ⟨fun _ => ⟨d, rfl⟩, fun _ => ⟨_, rfl⟩⟩

/-! ### one level of nesting: listings -/

section liftList
variable {P supp}
variable {o : MtState (MtState σ)} (hwf : tableWF (o.2.map (·.1)) = true)
  {i : Nat} {p : Key} {m : MtState σ} (hi : o.2[i]? = some (p, m)) {q : Key} (ho : Owns o.2 i (p ++ q))
  (hs : q = [] ∨ Mt.supports P supp m q = true)
include hwf hi ho hs

/-- the outer listing at `p ++ q` = the inner composite's listing at `q` united with the outer mount points directly below -/
theorem nested_listdir_union (ol : Option (List Str)) (hl : (mountOps P supp).listdir m q = .ok ol) :
    ∃ l, (nestedOps P supp).listdir o (p ++ q) = .ok (some l) ∧ l.Nodup ∧
      ∀ nm, nm ∈ l ↔ nm ∈ ol.getD [] ∨ ∃ q' m', (q', m') ∈ o.2 ∧ (p ++ q ++ [nm]) <+: q' := by
  refine listdir_gen (mountOps P supp) (Mt.supports P supp) o hwf (p ++ q) (ol.getD []) ?_
  rw [nested_listBase hwf hi ho hs, hl]
  rfl

/-- the outer listing answers only if the inner one does -/
theorem nested_listdir_inner (r : Option (List Str)) (h : (nestedOps P supp).listdir o (p ++ q) = .ok r) :
    ∃ ol, (mountOps P supp).listdir m q = .ok ol := by
  obtain ⟨b, hb⟩ := (listdir_ok_iff (mountOps P supp) (Mt.supports P supp) o (p ++ q)).mp ⟨r, h⟩
  rw [nested_listBase hwf hi ho hs] at hb
  cases hl : (mountOps P supp).listdir m q with
  | error e => rw [hl] at hb; cases hb
  | ok ol => exact ⟨ol, rfl⟩

/-- whatever the inner composite lists at `q` the outer one lists at `p ++ q` -/
theorem nested_listdir_sub (r : Option (List Str)) (h : (nestedOps P supp).listdir o (p ++ q) = .ok r) :
    ∃ ol l, (mountOps P supp).listdir m q = .ok ol ∧ r = some l ∧ ∀ nm, nm ∈ ol.getD [] → nm ∈ l := by
  obtain ⟨ol, hl⟩ := nested_listdir_inner hwf hi ho hs r h
  obtain ⟨l, h1, _, h3⟩ := nested_listdir_union hwf hi ho hs ol hl
  rw [h1] at h
  cases h
  exact ⟨ol, l, hl, rfl, fun nm hnm => (h3 nm).mpr (Or.inl hnm)⟩

end liftList

/-! ### the model of the code before the repair coincides with `Mt.isDir` as long as no `is_supported` raises -/

theorem routeIdxOld_lift (tbl : List (Key × σ)) (k : Key) :
    Mt.routeIdxOld (Mt.liftSupp supp) tbl k = some (Mt.routeIdx supp tbl k) := by
  induction tbl with
  | nil => rfl
  | cons e rest ih =>
    obtain ⟨p, st⟩ := e
    simp only [Mt.routeIdxOld, Mt.routeIdx, ih]
    cases hr : Mt.routeIdx supp rest k with
    | some i => rfl
    | none =>
      simp only [Mt.hit, Mt.liftSupp]
      by_cases h1 : k = p
      · subst h1; simp
      · have h1' : (k == p) = false := by simpa using h1
        simp only [h1', Bool.false_eq_true, ↓reduceIte, Bool.false_or]
        cases h2 : p.isPrefixOf k with
        | false => simp
        | true =>
          cases h3 : supp st (k.drop p.length) <;> simp

theorem isDirOld_lift (s : MtState σ) (k : Key) :
    Mt.isDirOld P.isDir (Mt.liftSupp supp) s k = Mt.isDir P supp s k := by
  unfold Mt.isDirOld Mt.isDir Mt.route
  rw [routeIdxOld_lift]
  split
  · rfl
  · cases hr : Mt.routeIdx supp s.2 k with
    | some i =>
      simp only [Mt.readAt]
      cases hi : s.2[i]? with
      | none => rfl
      | some e => obtain ⟨p, st⟩ := e; rfl
    | none =>
      cases hd : s.1 with
      | none => rfl
      | some d => simp [Mt.readAt, hd]

end Liquer.MtN
