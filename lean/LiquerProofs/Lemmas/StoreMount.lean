/-
Lemmas about `mountOps` / `prefixOps` (C14): routing, ownership under `tableWF`, union reads, frame.
-/
import LiquerModel.StoreMount
import LiquerProofs.Lemmas.StoreView

namespace Liquer.MtL
open Liquer Liquer.SV

variable {σ : Type}

/-- the parts' `is_supported` for `MemoryStore` / `FileStore` -/
abbrev T : σ → Key → Bool := fun _ _ => true

/-! ### `route_to` = the last mounted entry that matches -/

theorem routeIdx_none (supp : σ → Key → Bool) (tbl : List (Key × σ)) (k : Key) :
    Mt.routeIdx supp tbl k = none ↔ ∀ p st, (p, st) ∈ tbl → Mt.hit supp p st k = false := by
  induction tbl with
  | nil => simp [Mt.routeIdx]
  | cons e rest ih =>
    obtain ⟨p, st⟩ := e
    simp only [Mt.routeIdx]
    cases hr : Mt.routeIdx supp rest k with
    | some i =>
      simp only [reduceCtorEq, false_iff]
      intro h
      have := (ih.mpr (fun q st' hm => h q st' (List.mem_cons_of_mem _ hm)))
      rw [hr] at this; cases this
    | none =>
      have ih' := ih.mp hr
      by_cases hh : Mt.hit supp p st k = true
      · simp only [hh, ↓reduceIte, reduceCtorEq, false_iff]
        intro h
        have := h p st List.mem_cons_self
        rw [hh] at this; cases this
      · have hh' : Mt.hit supp p st k = false := by simpa using hh
        simp only [hh', Bool.false_eq_true, ↓reduceIte, true_iff]
        intro q st' hm
        rcases List.mem_cons.mp hm with e | e
        · cases e; exact hh'
        · exact ih' q st' e

theorem routeIdx_some (supp : σ → Key → Bool) (tbl : List (Key × σ)) (k : Key) (i : Nat) :
    Mt.routeIdx supp tbl k = some i ↔
      ∃ p st, tbl[i]? = some (p, st) ∧ Mt.hit supp p st k = true ∧
        ∀ j q st', i < j → tbl[j]? = some (q, st') → Mt.hit supp q st' k = false := by
  induction tbl generalizing i with
  | nil => simp [Mt.routeIdx]
  | cons e rest ih =>
    obtain ⟨p, st⟩ := e
    simp only [Mt.routeIdx]
    cases hr : Mt.routeIdx supp rest k with
    | some i0 =>
      obtain ⟨p0, st0, h1, h2, h3⟩ := (ih i0).mp hr
      constructor
      · intro h
        cases h
        refine ⟨p0, st0, by simpa using h1, h2, ?_⟩
        intro j q st' hj hq
        cases j with
        | zero => omega
        | succ j => exact h3 j q st' (by omega) (by simpa using hq)
      · rintro ⟨p1, st1, g1, g2, g3⟩
        cases i with
        | zero =>
          have := g3 (i0 + 1) p0 st0 (by omega) (by simpa using h1)
          rw [h2] at this; cases this
        | succ i =>
          have : Mt.routeIdx supp rest k = some i := (ih i).mpr ⟨p1, st1, by simpa using g1, g2, fun j q st' hj hq =>
            g3 (j + 1) q st' (by omega) (by simpa using hq)⟩
          rw [hr] at this
          cases this; rfl
    | none =>
      have hn := (routeIdx_none supp rest k).mp hr
      by_cases hh : Mt.hit supp p st k = true
      · simp only [hh, ↓reduceIte, Option.some.injEq]
        constructor
        · intro h; subst h
          refine ⟨p, st, rfl, hh, ?_⟩
          intro j q st' hj hq
          cases j with
          | zero => omega
          | succ j =>
            have : (q, st') ∈ rest := List.mem_of_getElem? (by simpa using hq)
            exact hn q st' this
        · rintro ⟨p1, st1, g1, g2, _⟩
          cases i with
          | zero => rfl
          | succ i =>
            have : (p1, st1) ∈ rest := List.mem_of_getElem? (by simpa using g1)
            have := hn p1 st1 this
            rw [g2] at this; cases this
      · have hh' : Mt.hit supp p st k = false := by simpa using hh
        simp only [hh', Bool.false_eq_true, ↓reduceIte, reduceCtorEq, false_iff]
        rintro ⟨p1, st1, g1, g2, _⟩
        cases i with
        | zero =>
          simp at g1
          obtain ⟨rfl, rfl⟩ := g1
          rw [hh'] at g2; cases g2
        | succ i =>
          have : (p1, st1) ∈ rest := List.mem_of_getElem? (by simpa using g1)
          have := hn p1 st1 this
          rw [g2] at this; cases this

theorem hit_T (p : Key) (st : σ) (k : Key) : Mt.hit T p st k = true ↔ p <+: k := by
  unfold Mt.hit
  simp only [Bool.and_true, Bool.or_eq_true, beq_iff_eq, List.isPrefixOf_iff_prefix]
  constructor
  · rintro (h | h)
    · exact h ▸ List.prefix_refl _
    · exact h
  · exact Or.inr

theorem hit_T_false (p : Key) (st : σ) (k : Key) : Mt.hit T p st k = false ↔ ¬ p <+: k := by
  rw [← hit_T p st k]; simp

/-! ### well-formed tables: distinct non-empty prefixes, an outer prefix is mounted before an inner one -/

/-- no prefix is empty; no entry is a prefix of (or equal to) an entry mounted *before* it -/
def tableWF : List Key → Bool
  | [] => true
  | p :: rest => !p.isEmpty && rest.all (fun q => !(q.isPrefixOf p)) && tableWF rest

theorem wf_nonempty {ps : List Key} (h : tableWF ps = true) {p : Key} (hp : p ∈ ps) : p ≠ [] := by
  induction ps with
  | nil => cases hp
  | cons a rest ih =>
    simp only [tableWF, Bool.and_eq_true, Bool.not_eq_true', List.isEmpty_eq_false_iff] at h
    rcases List.mem_cons.mp hp with e | e
    · subst e; exact h.1.1
    · exact ih h.2 e

theorem wf_get {ps : List Key} (h : tableWF ps = true) {i j : Nat} {p q : Key} (hij : i < j)
    (hp : ps[i]? = some p) (hq : ps[j]? = some q) : ¬ q <+: p := by
  induction ps generalizing i j with
  | nil => simp at hp
  | cons a rest ih =>
    simp only [tableWF, Bool.and_eq_true, Bool.not_eq_true', List.all_eq_true] at h
    cases j with
    | zero => omega
    | succ j =>
      have hq' : rest[j]? = some q := by simpa using hq
      cases i with
      | zero =>
        have : a = p := by simpa using hp
        subst this
        have := h.1.2 q (List.mem_of_getElem? hq')
        intro hpre
        rw [List.isPrefixOf_iff_prefix.mpr hpre] at this
        cases this
      | succ i => exact ih h.2 (i := i) (j := j) (by omega) (by simpa using hp) hq'

/-- of two mounts that both lie on the path to `k`, the later one is strictly deeper -/
theorem wf_later_deeper {ps : List Key} (h : tableWF ps = true) {i j : Nat} {p q k : Key} (hij : i < j)
    (hp : ps[i]? = some p) (hq : ps[j]? = some q) (hpk : p <+: k) (hqk : q <+: k) : p.length < q.length := by
  have hn := wf_get h hij hp hq
  rcases prefix_cases hpk hqk with h1 | h1
  · have hle := h1.length_le
    have : p.length ≠ q.length := by
      intro e
      have := h1.eq_of_length e
      exact hn (this ▸ List.prefix_refl _)
    omega
  · exact absurd h1 hn

/-- entry `i` is the innermost mount on the path to `k` -/
def Owns (tbl : List (Key × σ)) (i : Nat) (k : Key) : Prop :=
  ∃ (p : Key) (st : σ), tbl[i]? = some (p, st) ∧ p <+: k ∧
    ∀ (j : Nat) (q : Key) (st' : σ), tbl[j]? = some (q, st') → q <+: k → q.length ≤ p.length

/-- no mount on the path to `k` -/
def NoMount (tbl : List (Key × σ)) (k : Key) : Prop := ∀ p st, (p, st) ∈ tbl → ¬ p <+: k

theorem map_get {tbl : List (Key × σ)} {j : Nat} {q : Key} {st : σ} (h : tbl[j]? = some (q, st)) :
    (tbl.map (·.1))[j]? = some q := by
  simp [h]

theorem route_none_iff (tbl : List (Key × σ)) (k : Key) : Mt.routeIdx T tbl k = none ↔ NoMount tbl k := by
  rw [routeIdx_none]
  unfold NoMount
  constructor
  · intro h p st hm; exact (hit_T_false p st k).mp (h p st hm)
  · intro h p st hm; exact (hit_T_false p st k).mpr (h p st hm)

/-- under `tableWF` the last mounted match is the innermost one, and conversely -/
theorem route_some_iff (tbl : List (Key × σ)) (hwf : tableWF (tbl.map (·.1)) = true) (k : Key) (i : Nat) :
    Mt.routeIdx T tbl k = some i ↔ Owns tbl i k := by
  rw [routeIdx_some]
  constructor
  · rintro ⟨p, st, h1, h2, h3⟩
    have hpk := (hit_T p st k).mp h2
    refine ⟨p, st, h1, hpk, ?_⟩
    intro j q st' hq hqk
    rcases Nat.lt_trichotomy j i with hlt | heq | hgt
    · exact Nat.le_of_lt (wf_later_deeper hwf hlt (map_get hq) (map_get h1) hqk hpk)
    · subst heq
      rw [h1] at hq; cases hq; exact Nat.le_refl _
    · have := h3 j q st' hgt hq
      exact absurd hqk ((hit_T_false q st' k).mp this)
  · rintro ⟨p, st, h1, hpk, hmax⟩
    refine ⟨p, st, h1, (hit_T p st k).mpr hpk, ?_⟩
    intro j q st' hj hq
    rw [hit_T_false]
    intro hqk
    have := wf_later_deeper hwf hj (map_get h1) (map_get hq) hpk hqk
    have := hmax j q st' hq hqk
    omega

/-! ### `PrefixStore`: the key with the prefix stripped -/

theorem translate_of_prefix {p k : Key} (h : p <+: k) : Pfx.translate p k = .ok (k.drop p.length) := by
  unfold Pfx.translate
  by_cases e : k = p
  · subst e; simp
  · have : (k == p) = false := by simpa using e
    simp [this, List.isPrefixOf_iff_prefix.mpr h]

theorem inverse_drop {p k : Key} (h : p <+: k) : Pfx.inverse p (k.drop p.length) = k := by
  obtain ⟨t, rfl⟩ := h
  simp [Pfx.inverse]

variable (P : StoreOps σ)

theorem prefix_getBytes {p k : Key} (h : p <+: k) (st : σ) :
    (prefixOps P p).getBytes st k = P.getBytes st (k.drop p.length) := by
  simp [prefixOps, translate_of_prefix h, Except.bind]

theorem prefix_getMeta {p k : Key} (h : p <+: k) (st : σ) :
    (prefixOps P p).getMeta st k =
      (P.getMeta st (k.drop p.length)).map (fun m => { m with key := k, name := keyName k }) := by
  simp [prefixOps, translate_of_prefix h, Except.bind]

theorem prefix_listdir {p k : Key} (h : p <+: k) (st : σ) :
    (prefixOps P p).listdir st k = P.listdir st (k.drop p.length) := by
  simp [prefixOps, translate_of_prefix h, Except.bind]

theorem prefix_contains {p k : Key} (h : p <+: k) (hne : k ≠ p) (st : σ) :
    (prefixOps P p).contains st k = P.contains st (k.drop p.length) := by
  simp [prefixOps, translate_of_prefix h, Except.bind, hne]

theorem prefix_isDir {p k : Key} (h : p <+: k) (hne : k ≠ p) (st : σ) :
    (prefixOps P p).isDir st k = P.isDir st (k.drop p.length) := by
  simp [prefixOps, translate_of_prefix h, Except.bind, hne]

theorem prefix_apply {p : Key} (op : StoreOp) (h : p <+: opKey op) (st : σ) :
    (prefixOps P p).apply st op = P.apply st (match op with
      | .store k d m => .store (k.drop p.length) d m
      | .storeMeta k m => .storeMeta (k.drop p.length) m
      | .remove k => .remove (k.drop p.length)
      | .removedir k r => .removedir (k.drop p.length) r
      | .makedir k => .makedir (k.drop p.length)) := by
  cases op <;> simp [StoreOps.apply, prefixOps, translate_of_prefix (by simpa [opKey] using h), Except.bind]

/-! ### routing in a composite state -/

abbrev M (P : StoreOps σ) := mountOps P (T (σ := σ))

theorem route_part (s : MtState σ) (hwf : tableWF (s.2.map (·.1)) = true) {k : Key} {i : Nat} (h : Owns s.2 i k) :
    Mt.route T s k = .ok (.part i) := by
  unfold Mt.route
  rw [(route_some_iff s.2 hwf k i).mpr h]

theorem route_default (s : MtState σ) {k : Key} (h : NoMount s.2 k) :
    Mt.route T s k = if s.1.isSome then .ok .dflt else .error .routeNotFound := by
  unfold Mt.route
  rw [(route_none_iff s.2 k).mpr h]

theorem aboveMount_iff (tbl : List (Key × σ)) (k : Key) :
    Mt.aboveMount tbl k = true ↔ ∃ p st, (p, st) ∈ tbl ∧ k <+: p := by
  unfold Mt.aboveMount
  simp only [List.any_eq_true, List.isPrefixOf_iff_prefix]
  constructor
  · rintro ⟨⟨p, st⟩, hm, hp⟩; exact ⟨p, st, hm, hp⟩
  · rintro ⟨p, st, hm, hp⟩; exact ⟨(p, st), hm, hp⟩

/-- `k` is the root, a mount point or a parent of a mount point -/
def Above (tbl : List (Key × σ)) (k : Key) : Prop := k = [] ∨ ∃ p st, (p, st) ∈ tbl ∧ k <+: p

theorem above_cond (tbl : List (Key × σ)) (k : Key) : (k.isEmpty || Mt.aboveMount tbl k) = true ↔ Above tbl k := by
  unfold Above
  rw [Bool.or_eq_true, aboveMount_iff, List.isEmpty_iff]

theorem not_above_ne {tbl : List (Key × σ)} {k : Key} (h : ¬ Above tbl k) {i : Nat} {p : Key} {st : σ}
    (hi : tbl[i]? = some (p, st)) : k ≠ p := by
  intro e
  exact h (Or.inr ⟨p, st, List.mem_of_getElem? hi, e ▸ List.prefix_refl _⟩)

/-! ### union reads -/

theorem mount_isDir_above (s : MtState σ) (k : Key) (h : Above s.2 k) : (M P).isDir s k = .ok true := by
  show Mt.isDir P T s k = _
  unfold Mt.isDir
  rw [if_pos ((above_cond s.2 k).mpr h)]

theorem mount_isDir_part (s : MtState σ) (hwf : tableWF (s.2.map (·.1)) = true) (k : Key) (h : ¬ Above s.2 k)
    (i : Nat) (p : Key) (st : σ) (hi : s.2[i]? = some (p, st)) (ho : Owns s.2 i k) :
    (M P).isDir s k = P.isDir st (k.drop p.length) := by
  show Mt.isDir P T s k = _
  unfold Mt.isDir
  rw [if_neg (fun e => h ((above_cond s.2 k).mp e)), route_part s hwf ho]
  obtain ⟨p', st', h1, h2, _⟩ := ho
  rw [hi] at h1; cases h1
  simp only [Mt.readAt, hi]
  exact prefix_isDir P h2 (not_above_ne h hi) st

theorem mount_isDir_default (s : MtState σ) (k : Key) (h : ¬ Above s.2 k) (hn : NoMount s.2 k) :
    (M P).isDir s k = match s.1 with | some d => P.isDir d k | none => .ok false := by
  show Mt.isDir P T s k = _
  unfold Mt.isDir
  rw [if_neg (fun e => h ((above_cond s.2 k).mp e)), route_default s hn]
  cases hd : s.1 with
  | none => simp
  | some d => simp [Mt.readAt, hd]

theorem mount_contains_above (s : MtState σ) (k : Key) (h : Above s.2 k) : (M P).contains s k = .ok true := by
  show Mt.contains P T s k = _
  unfold Mt.contains
  have := mount_isDir_above P s k h
  change Mt.isDir P T s k = _ at this
  rw [this]

/-- containment of a key owned by a mounted store: the directory flag or the containment of the stripped key -/
theorem mount_contains_part (s : MtState σ) (hwf : tableWF (s.2.map (·.1)) = true) (k : Key) (h : ¬ Above s.2 k)
    (i : Nat) (p : Key) (st : σ) (hi : s.2[i]? = some (p, st)) (ho : Owns s.2 i k) :
    (M P).contains s k = match P.isDir st (k.drop p.length) with
      | .error e => .error e
      | .ok true => .ok true
      | .ok false => P.contains st (k.drop p.length) := by
  show Mt.contains P T s k = _
  unfold Mt.contains
  have := mount_isDir_part P s hwf k h i p st hi ho
  change Mt.isDir P T s k = _ at this
  rw [this, route_part s hwf ho]
  obtain ⟨p', st', h1, h2, _⟩ := ho
  rw [hi] at h1; cases h1
  simp only [Mt.readAt, hi]
  rw [prefix_contains P h2 (not_above_ne h hi) st]
  rfl

theorem mount_contains_default (s : MtState σ) (k : Key) (h : ¬ Above s.2 k) (hn : NoMount s.2 k) :
    (M P).contains s k = match s.1 with
      | none => .ok false
      | some d => match P.isDir d k with
        | .error e => .error e
        | .ok true => .ok true
        | .ok false => P.contains d k := by
  show Mt.contains P T s k = _
  unfold Mt.contains
  have := mount_isDir_default P s k h hn
  change Mt.isDir P T s k = _ at this
  rw [this, route_default s hn]
  cases hd : s.1 with
  | none => simp
  | some d =>
    simp only [Option.isSome_some, ↓reduceIte, Mt.readAt, hd]
    rfl

theorem mount_getBytes_part (s : MtState σ) (hwf : tableWF (s.2.map (·.1)) = true) (k : Key)
    (i : Nat) (p : Key) (st : σ) (hi : s.2[i]? = some (p, st)) (ho : Owns s.2 i k) :
    (M P).getBytes s k = P.getBytes st (k.drop p.length) := by
  show Mt.routedRead P T s k _ = _
  unfold Mt.routedRead
  rw [route_part s hwf ho]
  obtain ⟨p', st', h1, h2, _⟩ := ho
  rw [hi] at h1; cases h1
  simp only [Except.bind, Mt.readAt, hi]
  exact prefix_getBytes P h2 st

theorem mount_getBytes_default (s : MtState σ) (k : Key) (hn : NoMount s.2 k) :
    (M P).getBytes s k = match s.1 with | some d => P.getBytes d k | none => .error .routeNotFound := by
  show Mt.routedRead P T s k _ = _
  unfold Mt.routedRead
  rw [route_default s hn]
  cases hd : s.1 with
  | none => simp [Except.bind]
  | some d => simp [Except.bind, Mt.readAt, hd]

/-- the reported key is the key asked for -/
theorem mount_meta_key (supp : σ → Key → Bool) (s : MtState σ) (k : Key) (m : MetaObs)
    (h : (mountOps P supp).getMeta s k = .ok m) : m.key = k := by
  change Mt.getMeta P supp s k = _ at h
  unfold Mt.getMeta at h
  have hfb : ∀ m', (match Mt.isDir P supp s k with
      | .error e => .error e
      | .ok true => .ok (Mt.dirMeta k)
      | .ok false => .error .keyNotFound : Except StoreErr MetaObs) = .ok m' → m'.key = k := by
    intro m' hm
    split at hm
    · cases hm
    · cases hm; rfl
    · cases hm
  dsimp only at h
  cases hr : Mt.routedRead P supp s k (fun S st => S.getMeta st k) with
  | ok m0 =>
    rw [hr] at h
    cases h; rfl
  | error e =>
    rw [hr] at h
    cases e with
    | routeNotFound => exact hfb m h
    | keyNotFound => exact hfb m h
    | keyNotSupported => cases h
    | readOnly => cases h
    | other => cases h

/-! ### writes go to the owning part only -/

/-- the operation with the mount prefix stripped from its key -/
def stripOp (p : Key) : StoreOp → StoreOp
  | .store k d m => .store (k.drop p.length) d m
  | .storeMeta k m => .storeMeta (k.drop p.length) m
  | .remove k => .remove (k.drop p.length)
  | .removedir k r => .removedir (k.drop p.length) r
  | .makedir k => .makedir (k.drop p.length)

def isRemovedir : StoreOp → Bool
  | .removedir _ _ => true
  | _ => false

theorem prefix_apply' {p : Key} (op : StoreOp) (h : p <+: opKey op) (st : σ) :
    (prefixOps P p).apply st op = P.apply st (stripOp p op) := by
  rw [prefix_apply P op h st]
  cases op <;> rfl

theorem mount_apply_routed (s : MtState σ) (op : StoreOp) (hop : isRemovedir op = false) :
    (M P).apply s op = Mt.routedWrite P T s (opKey op) (fun S st => S.apply st op) := by
  cases op with
  | removedir k r => simp [isRemovedir] at hop
  | store k d m => rfl
  | storeMeta k m => rfl
  | remove k => rfl
  | makedir k => rfl

theorem mount_write_part (s : MtState σ) (hwf : tableWF (s.2.map (·.1)) = true) (op : StoreOp)
    (hop : isRemovedir op = false) (i : Nat) (p : Key) (st : σ) (hi : s.2[i]? = some (p, st))
    (ho : Owns s.2 i (opKey op)) :
    (M P).apply s op = (P.apply st (stripOp p op)).map (fun st' => (s.1, s.2.set i (p, st'))) := by
  rw [mount_apply_routed P s op hop]
  unfold Mt.routedWrite
  rw [route_part s hwf ho]
  obtain ⟨p', st', h1, h2, _⟩ := ho
  rw [hi] at h1; cases h1
  simp only [Except.bind, Mt.writeAt, hi]
  rw [prefix_apply' P op h2 st]

theorem mount_write_default (s : MtState σ) (op : StoreOp) (hop : isRemovedir op = false)
    (hn : NoMount s.2 (opKey op)) :
    (M P).apply s op = match s.1 with
      | some d => (P.apply d op).map (fun d' => (some d', s.2))
      | none => .error .routeNotFound := by
  rw [mount_apply_routed P s op hop]
  unfold Mt.routedWrite
  rw [route_default s hn]
  cases hd : s.1 with
  | none => simp [Except.bind]
  | some d => simp [Except.bind, Mt.writeAt, hd]

/-! ### listings -/

theorem mountChild_iff (k p : Key) (hp : p ≠ []) (nm : Str) :
    Mt.mountChild k p = some nm ↔ (k ++ [nm]) <+: p := by
  unfold Mt.mountChild
  by_cases hk : k = []
  · subst hk
    cases p with
    | nil => exact absurd rfl hp
    | cons a rest =>
      simp only [List.isEmpty_nil, ↓reduceIte, List.head?_cons, Option.getD_some, Option.some.injEq, List.nil_append]
      constructor
      · rintro rfl; exact ⟨rest, rfl⟩
      · rintro ⟨t, ht⟩; simp at ht; exact ht.1.symm
  · have hke : k.isEmpty = false := by simpa using hk
    simp only [hke, Bool.false_eq_true, ↓reduceIte]
    constructor
    · intro h
      split at h
      · rename_i hc
        simp only [Bool.and_eq_true, List.isPrefixOf_iff_prefix, bne_iff_ne, ne_eq] at hc
        obtain ⟨⟨t, rfl⟩, hne⟩ := hc
        cases t with
        | nil => simp at hne
        | cons a rest =>
          simp at h
          subst h
          exact ⟨rest, by simp⟩
      · cases h
    · rintro ⟨t, rfl⟩
      have h1 : k.isPrefixOf (k ++ [nm] ++ t) = true := by
        rw [List.isPrefixOf_iff_prefix]; exact ⟨[nm] ++ t, by simp⟩
      have h2 : (k ++ [nm] ++ t != k) = true := by
        simp only [bne_iff_ne, ne_eq]
        intro e
        have := congrArg List.length e
        simp at this
      simp [h1, h2]

theorem mem_mountChildren (tbl : List (Key × σ)) (hwf : tableWF (tbl.map (·.1)) = true) (k : Key) (nm : Str) :
    nm ∈ tbl.filterMap (fun e => Mt.mountChild k e.1) ↔ ∃ p st, (p, st) ∈ tbl ∧ (k ++ [nm]) <+: p := by
  simp only [List.mem_filterMap]
  constructor
  · rintro ⟨⟨p, st⟩, hm, h⟩
    have hp : p ≠ [] := wf_nonempty hwf (List.mem_map.mpr ⟨(p, st), hm, rfl⟩)
    exact ⟨p, st, hm, (mountChild_iff k p hp nm).mp h⟩
  · rintro ⟨p, st, hm, h⟩
    have hp : p ≠ [] := wf_nonempty hwf (List.mem_map.mpr ⟨(p, st), hm, rfl⟩)
    exact ⟨(p, st), hm, (mountChild_iff k p hp nm).mpr h⟩

theorem nodup_eraseDups' {α : Type} [BEq α] [LawfulBEq α] (l : List α) : l.eraseDups.Nodup := by
  generalize hn : l.length = n
  induction n using Nat.strongRecOn generalizing l with
  | _ n ih =>
    cases l with
    | nil => simp
    | cons a as =>
      rw [List.eraseDups_cons]
      refine List.nodup_cons.mpr ⟨?_, ?_⟩
      · intro h
        have := List.mem_eraseDups.mp h
        simp at this
      · refine ih _ ?_ _ rfl
        subst hn
        exact Nat.lt_succ_of_le (List.length_filter_le _ _)

theorem mem_insertName (a x : Str) (l : List Str) : x ∈ Mt.insertName a l ↔ x = a ∨ x ∈ l := by
  induction l with
  | nil => simp [Mt.insertName]
  | cons b l ih =>
    unfold Mt.insertName
    split
    · simp
    · simp only [List.mem_cons, ih]
      constructor
      · rintro (h | h | h)
        · exact Or.inr (Or.inl h)
        · exact Or.inl h
        · exact Or.inr (Or.inr h)
      · rintro (h | h | h)
        · exact Or.inr (Or.inl h)
        · exact Or.inl h
        · exact Or.inr (Or.inr h)

theorem nodup_insertName (a : Str) (l : List Str) (ha : a ∉ l) (hl : l.Nodup) : (Mt.insertName a l).Nodup := by
  induction l with
  | nil => simp [Mt.insertName]
  | cons b l ih =>
    unfold Mt.insertName
    obtain ⟨hb, hl'⟩ := List.nodup_cons.mp hl
    split
    · exact List.nodup_cons.mpr ⟨ha, hl⟩
    · refine List.nodup_cons.mpr ⟨?_, ih (fun h => ha (List.mem_cons_of_mem _ h)) hl'⟩
      rw [mem_insertName]
      rintro (e | e)
      · exact ha (e ▸ List.mem_cons_self)
      · exact hb e

theorem sortNames_mem_nodup (l : List Str) (hl : l.Nodup) :
    (Mt.sortNames l).Nodup ∧ ∀ nm, nm ∈ Mt.sortNames l ↔ nm ∈ l := by
  unfold Mt.sortNames
  induction l with
  | nil => simp
  | cons a l ih =>
    obtain ⟨ha, hl'⟩ := List.nodup_cons.mp hl
    obtain ⟨h1, h2⟩ := ih hl'
    rw [List.foldr_cons]
    refine ⟨nodup_insertName a _ (fun h => ha ((h2 a).mp h)) h1, ?_⟩
    intro nm
    rw [mem_insertName, h2, List.mem_cons]

theorem sortNames_spec (l : List Str) : (Mt.sortNames l.eraseDups).Nodup ∧ ∀ nm, nm ∈ Mt.sortNames l.eraseDups ↔ nm ∈ l := by
  obtain ⟨h1, h2⟩ := sortNames_mem_nodup l.eraseDups (nodup_eraseDups' l)
  refine ⟨h1, ?_⟩
  intro nm
  rw [h2, List.mem_eraseDups]

/-- the listing of `k`: the owner's listing of the stripped key united with the mount points directly below -/
theorem mount_listdir (s : MtState σ) (hwf : tableWF (s.2.map (·.1)) = true) (k : Key) (base : List Str)
    (hb : Mt.listBase P T s k = .ok base) :
    ∃ l, (M P).listdir s k = .ok (some l) ∧ l.Nodup ∧
      ∀ nm, nm ∈ l ↔ nm ∈ base ∨ ∃ p st, (p, st) ∈ s.2 ∧ (k ++ [nm]) <+: p := by
  obtain ⟨h1, h2⟩ := sortNames_spec (base ++ s.2.filterMap (fun e => Mt.mountChild k e.1))
  refine ⟨_, ?_, h1, ?_⟩
  · show (Mt.listdirL P T s k).map some = _
    unfold Mt.listdirL
    rw [hb]
    rfl
  · intro nm
    rw [h2, List.mem_append, mem_mountChildren s.2 hwf]

theorem mount_listdir_part (s : MtState σ) (hwf : tableWF (s.2.map (·.1)) = true) (k : Key)
    (i : Nat) (p : Key) (st : σ) (hi : s.2[i]? = some (p, st)) (ho : Owns s.2 i k) (o : Option (List Str))
    (hl : P.listdir st (k.drop p.length) = .ok o) :
    ∃ l, (M P).listdir s k = .ok (some l) ∧ l.Nodup ∧
      ∀ nm, nm ∈ l ↔ nm ∈ o.getD [] ∨ ∃ q st', (q, st') ∈ s.2 ∧ (k ++ [nm]) <+: q := by
  refine mount_listdir P s hwf k (o.getD []) ?_
  unfold Mt.listBase
  rw [route_part s hwf ho]
  obtain ⟨p', st', h1, h2, _⟩ := ho
  rw [hi] at h1; cases h1
  simp only [Mt.readAt, hi]
  rw [prefix_listdir P h2 st, hl]
  rfl

theorem mount_listdir_default (s : MtState σ) (hwf : tableWF (s.2.map (·.1)) = true) (k : Key)
    (hn : NoMount s.2 k) (d : σ) (hd : s.1 = some d) (o : Option (List Str)) (hl : P.listdir d k = .ok o) :
    ∃ l, (M P).listdir s k = .ok (some l) ∧ l.Nodup ∧
      ∀ nm, nm ∈ l ↔ nm ∈ o.getD [] ∨ ∃ q st', (q, st') ∈ s.2 ∧ (k ++ [nm]) <+: q := by
  refine mount_listdir P s hwf k (o.getD []) ?_
  unfold Mt.listBase
  rw [route_default s hn]
  simp only [hd, Option.isSome_some, ↓reduceIte, Mt.readAt, hl]
  rfl

theorem mount_listdir_noroute (s : MtState σ) (hwf : tableWF (s.2.map (·.1)) = true) (k : Key)
    (hn : NoMount s.2 k) (hd : s.1 = none) :
    ∃ l, (M P).listdir s k = .ok (some l) ∧ l.Nodup ∧
      ∀ nm, nm ∈ l ↔ ∃ q st', (q, st') ∈ s.2 ∧ (k ++ [nm]) <+: q := by
  obtain ⟨l, h1, h2, h3⟩ := mount_listdir P s hwf k [] (by
    unfold Mt.listBase
    rw [route_default s hn]
    simp [hd])
  refine ⟨l, h1, h2, ?_⟩
  intro nm
  rw [h3]
  simp

/-! ### `keys()` -/

section keys
variable (K : σ → List Key)

/-- the mounted part of `keys()` when every part lists its keys as `K st` -/
def outK : List (Key × σ) → List Key → List Key
  | [], _ => []
  | (p, st) :: rest, seen =>
    p :: ((K st).map (Pfx.inverse p)).filter
        (fun k => !(seen.any (fun q => q.isPrefixOf k)) && (p.isPrefixOf k && k != p)) ++
      outK rest (seen ++ [p])

theorem keysMounts_eq (hK : ∀ st, P.keys st = .ok (K st)) (l : List (Key × σ)) (seen : List Key) :
    Mt.keysMounts P l seen = .ok (outK K l seen) := by
  induction l generalizing seen with
  | nil => rfl
  | cons e rest ih =>
    obtain ⟨p, st⟩ := e
    simp only [Mt.keysMounts, prefixOps, hK, Except.map, ih, outK]

theorem mem_here (p : Key) (ks seen : List Key) (x : Key) :
    x ∈ (ks.map (Pfx.inverse p)).filter (fun k => !(seen.any (fun q => q.isPrefixOf k)) && (p.isPrefixOf k && k != p)) ↔
      ∃ kk, kk ∈ ks ∧ x = p ++ kk ∧ kk ≠ [] ∧ ∀ q, q ∈ seen → ¬ q <+: x := by
  simp only [List.mem_filter, List.mem_map, Bool.and_eq_true, Bool.not_eq_true', List.any_eq_false,
    List.isPrefixOf_iff_prefix, bne_iff_ne, ne_eq]
  constructor
  · rintro ⟨⟨kk, hkk, rfl⟩, hseen, _, hne⟩
    refine ⟨kk, hkk, rfl, ?_, ?_⟩
    · intro e; apply hne; simp [Pfx.inverse, e]
    · intro q hq hp
      exact hseen q hq hp
  · rintro ⟨kk, h1, h2, h3, h4⟩
    refine ⟨⟨kk, h1, by rw [h2]; rfl⟩, ?_, ?_, ?_⟩
    · intro q hq; exact h4 q hq
    · rw [h2]; exact List.prefix_append _ _
    · intro e
      rw [h2] at e
      have := congrArg List.length e
      simp at this
      exact h3 this

theorem mem_outK (l : List (Key × σ)) (seen : List Key) (x : Key) :
    x ∈ outK K l seen ↔ ∃ A p st B, l = A ++ (p, st) :: B ∧
      (x = p ∨ ∃ kk, kk ∈ K st ∧ x = p ++ kk ∧ kk ≠ [] ∧ ∀ q, (q ∈ seen ∨ q ∈ A.map (·.1)) → ¬ q <+: x) := by
  induction l generalizing seen with
  | nil => simp [outK]
  | cons e rest ih =>
    obtain ⟨p0, st0⟩ := e
    rw [outK, List.mem_append, List.mem_cons, mem_here, or_assoc]
    constructor
    · rintro (h | h | h)
      · exact ⟨[], p0, st0, rest, rfl, Or.inl h⟩
      · obtain ⟨kk, h1, h2, h3, h4⟩ := h
        refine ⟨[], p0, st0, rest, rfl, Or.inr ⟨kk, h1, h2, h3, ?_⟩⟩
        intro q hq
        rcases hq with hq | hq
        · exact h4 q hq
        · simp at hq
      · obtain ⟨A, p, st, B, hl, hx⟩ := (ih (seen ++ [p0])).mp h
        refine ⟨(p0, st0) :: A, p, st, B, by rw [hl]; rfl, ?_⟩
        rcases hx with hx | ⟨kk, h1, h2, h3, h4⟩
        · exact Or.inl hx
        · refine Or.inr ⟨kk, h1, h2, h3, ?_⟩
          intro q hq
          apply h4
          rcases hq with hq | hq
          · exact Or.inl (List.mem_append_left _ hq)
          · rcases List.mem_cons.mp hq with e | e
            · exact Or.inl (List.mem_append_right _ (by simp [e]))
            · exact Or.inr e
    · rintro ⟨A, p, st, B, hl, hx⟩
      cases A with
      | nil =>
        simp only [List.nil_append, List.cons.injEq, Prod.mk.injEq] at hl
        obtain ⟨⟨rfl, rfl⟩, rfl⟩ := hl
        rcases hx with hx | ⟨kk, h1, h2, h3, h4⟩
        · exact Or.inl hx
        · exact Or.inr (Or.inl ⟨kk, h1, h2, h3, fun q hq => h4 q (Or.inl hq)⟩)
      | cons a A' =>
        simp only [List.cons_append, List.cons.injEq] at hl
        obtain ⟨rfl, rfl⟩ := hl
        refine Or.inr (Or.inr ((ih (seen ++ [p0])).mpr ⟨A', p, st, B, rfl, ?_⟩))
        rcases hx with hx | ⟨kk, h1, h2, h3, h4⟩
        · exact Or.inl hx
        · refine Or.inr ⟨kk, h1, h2, h3, ?_⟩
          intro q hq
          apply h4
          rcases hq with hq | hq
          · rcases List.mem_append.mp hq with e | e
            · exact Or.inl e
            · right
              have : q = p0 := by simpa using e
              simp [this]
          · right; exact List.mem_cons_of_mem _ hq

theorem split_at {α : Type} {l : List α} {i : Nat} {e : α} (h : l[i]? = some e) :
    l = l.take i ++ e :: l.drop (i + 1) := by
  induction l generalizing i with
  | nil => simp at h
  | cons a rest ih =>
    cases i with
    | zero => simp at h; subst h; simp
    | succ i =>
      simp only [List.getElem?_cons_succ] at h
      simp only [List.take_succ_cons, List.drop_succ_cons, List.cons_append, List.cons.injEq, true_and]
      exact ih h

theorem owns_split (E Lt : List (Key × σ)) (p : Key) (st : σ)
    (hwf : tableWF ((E ++ (p, st) :: Lt).map (·.1)) = true) (x : Key) :
    Owns (E ++ (p, st) :: Lt) E.length x ↔ p <+: x ∧ ∀ q, q ∈ Lt.map (·.1) → ¬ q <+: x := by
  rw [← route_some_iff _ hwf, routeIdx_some]
  have hget : (E ++ (p, st) :: Lt)[E.length]? = some (p, st) := by simp
  constructor
  · rintro ⟨p', st', h1, h2, h3⟩
    rw [hget] at h1; cases h1
    refine ⟨(hit_T p st x).mp h2, ?_⟩
    intro q hq hqx
    obtain ⟨⟨q', st'⟩, hm, rfl⟩ := List.mem_map.mp hq
    obtain ⟨j, hj⟩ := List.getElem?_of_mem hm
    have := h3 (E.length + 1 + j) q' st' (by omega) (by
      rw [List.getElem?_append_right (by omega)]
      have : E.length + 1 + j - E.length = j + 1 := by omega
      rw [this]; simpa using hj)
    exact (hit_T_false q' st' x).mp this hqx
  · rintro ⟨h1, h2⟩
    refine ⟨p, st, hget, (hit_T p st x).mpr h1, ?_⟩
    intro j q st' hj hq
    rw [hit_T_false]
    apply h2
    rw [List.getElem?_append_right (by omega)] at hq
    have hpos : j - E.length = (j - E.length - 1) + 1 := by omega
    rw [hpos] at hq
    simp only [List.getElem?_cons_succ] at hq
    exact List.mem_map.mpr ⟨(q, st'), List.mem_of_getElem? hq, rfl⟩

/-- **what `keys()` lists from the stores** (membership): the mount points, the keys of every mounted store re-prefixed
where that store is the innermost mount on the path, and the default store's keys with no mount on the path -/
theorem mount_listed_mem (hK : ∀ st, P.keys st = .ok (K st)) (s : MtState σ)
    (hwf : tableWF (s.2.map (·.1)) = true) :
    ∃ ks, Mt.keysListed P s = .ok ks ∧ ∀ x, x ∈ ks ↔
      ((∃ p st, (p, st) ∈ s.2 ∧ x = p) ∨
       (∃ i p st kk, s.2[i]? = some (p, st) ∧ kk ∈ K st ∧ kk ≠ [] ∧ x = p ++ kk ∧ Owns s.2 i x) ∨
       (∃ d, s.1 = some d ∧ x ∈ K d ∧ NoMount s.2 x)) := by
  have hm : ∀ x, x ∈ outK K s.2.reverse [] ↔
      ((∃ p st, (p, st) ∈ s.2 ∧ x = p) ∨
       (∃ i p st kk, s.2[i]? = some (p, st) ∧ kk ∈ K st ∧ kk ≠ [] ∧ x = p ++ kk ∧ Owns s.2 i x)) := by
    intro x
    rw [mem_outK]
    constructor
    · rintro ⟨A, p, st, B, hl, hx⟩
      have htbl : s.2 = B.reverse ++ (p, st) :: A.reverse := by
        have := congrArg List.reverse hl
        simpa using this
      rcases hx with hx | ⟨kk, h1, h2, h3, h4⟩
      · left
        exact ⟨p, st, by rw [htbl]; simp, hx⟩
      · right
        refine ⟨B.reverse.length, p, st, kk, by rw [htbl]; simp, h1, h3, h2, ?_⟩
        have hwf' := hwf
        rw [htbl] at hwf' ⊢
        rw [owns_split _ _ p st hwf']
        refine ⟨by rw [h2]; exact List.prefix_append _ _, ?_⟩
        intro q hq
        apply h4
        right
        simpa using hq
    · rintro (⟨p, st, hm, hx⟩ | ⟨i, p, st, kk, hi, h1, h3, h2, ho⟩)
      · obtain ⟨A, B, hAB⟩ := List.append_of_mem (List.mem_reverse.mpr hm)
        exact ⟨A, p, st, B, hAB, Or.inl hx⟩
      · have hsplit := split_at hi
        have hwf' := hwf
        rw [hsplit] at hwf'
        have hlen : (s.2.take i).length = i := by
          have hlt : i < s.2.length := by
            rcases Nat.lt_or_ge i s.2.length with h | h
            · exact h
            · rw [List.getElem?_eq_none h] at hi; cases hi
          simp; omega
        have ho' : Owns (s.2.take i ++ (p, st) :: s.2.drop (i + 1)) (s.2.take i).length x := by
          rw [hlen, ← hsplit]; exact ho
        have hsp := (owns_split _ _ p st hwf' x).mp ho'
        refine ⟨(s.2.drop (i + 1)).reverse, p, st, (s.2.take i).reverse, ?_, Or.inr ⟨kk, h1, h2, h3, ?_⟩⟩
        · have := congrArg List.reverse hsplit
          simpa using this
        · intro q hq
          rcases hq with hq | hq
          · cases hq
          · apply hsp.2
            simpa using hq
  have hnm : ∀ (d : σ) (x : Key), (x ∈ K d ∧ ∀ e, e ∈ s.2 → e.1.isPrefixOf x = false) ↔ (x ∈ K d ∧ NoMount s.2 x) := by
    intro d x
    unfold NoMount
    constructor
    · rintro ⟨h1, h2⟩
      refine ⟨h1, ?_⟩
      intro p st hm hp
      have := h2 (p, st) hm
      rw [List.isPrefixOf_iff_prefix.mpr hp] at this
      cases this
    · rintro ⟨h1, h2⟩
      refine ⟨h1, ?_⟩
      intro e he
      cases hh : e.1.isPrefixOf x with
      | false => rfl
      | true => exact absurd (List.isPrefixOf_iff_prefix.mp hh) (h2 e.1 e.2 he)
  cases hd : s.1 with
  | none =>
    refine ⟨outK K s.2.reverse [], ?_, ?_⟩
    · unfold Mt.keysListed
      rw [keysMounts_eq P K hK]
      simp only [hd]
    · intro x
      rw [hm x]
      simp
  | some d =>
    refine ⟨outK K s.2.reverse [] ++ (K d).filter (fun k => !(s.2.any (fun e => e.1.isPrefixOf k))), ?_, ?_⟩
    · unfold Mt.keysListed
      rw [keysMounts_eq P K hK]
      simp only [hd, hK]
    · intro x
      rw [List.mem_append, hm x, or_assoc]
      have : x ∈ (K d).filter (fun k => !(s.2.any (fun e => e.1.isPrefixOf k))) ↔ ∃ d', some d = some d' ∧ x ∈ K d' ∧ NoMount s.2 x := by
        simp only [List.mem_filter, Bool.not_eq_true', List.any_eq_false, Option.some.injEq, exists_eq_left']
        simp only [Bool.not_eq_true]
        exact hnm d x
      rw [this]

theorem tableWF_pairwise (tbl : List (Key × σ)) (h : tableWF (tbl.map (·.1)) = true) :
    tbl.Pairwise (fun e1 e2 => ¬ e2.1 <+: e1.1) := by
  induction tbl with
  | nil => exact List.Pairwise.nil
  | cons e rest ih =>
    simp only [List.map_cons, tableWF, Bool.and_eq_true, Bool.not_eq_true', List.all_eq_true, List.mem_map] at h
    refine List.Pairwise.cons ?_ (ih h.2)
    intro e2 he2 hp
    have := h.1.2 e2.1 ⟨e2, he2, rfl⟩
    rw [List.isPrefixOf_iff_prefix.mpr hp] at this
    cases this

theorem inverse_injective (p : Key) : Function.Injective (Pfx.inverse p) := by
  intro a b h
  exact List.append_cancel_left h

theorem nodup_outK (l : List (Key × σ)) (hKn : ∀ e, e ∈ l → (K e.2).Nodup) (seen : List Key)
    (hp : l.Pairwise (fun e1 e2 => ¬ e1.1 <+: e2.1)) : (outK K l seen).Nodup := by
  induction l generalizing seen with
  | nil => exact List.Pairwise.nil
  | cons e rest ih =>
    obtain ⟨p, st⟩ := e
    obtain ⟨hhead, htail⟩ := List.pairwise_cons.mp hp
    rw [outK]
    refine List.nodup_append.mpr ⟨?_, ih (fun e he => hKn e (List.mem_cons_of_mem _ he)) _ htail, ?_⟩
    · refine List.nodup_cons.mpr ⟨?_, ?_⟩
      · intro hm
        obtain ⟨kk, _, h2, h3, _⟩ := (mem_here p (K st) seen p).mp hm
        have := congrArg List.length h2
        simp at this
        exact h3 this
      · exact List.Pairwise.filter _ (List.Pairwise.map (Pfx.inverse p) (fun a b hab e => hab (inverse_injective p e)) (hKn (p, st) List.mem_cons_self))
    · intro x hx y hy e
      subst e
      have hpx : p <+: x := by
        rcases List.mem_cons.mp hx with e | e
        · exact e ▸ List.prefix_refl _
        · obtain ⟨kk, _, h2, _, _⟩ := (mem_here p (K st) seen x).mp e
          rw [h2]; exact List.prefix_append _ _
      obtain ⟨A, p', st', B, hl, hcase⟩ := (mem_outK K rest (seen ++ [p]) x).mp hy
      rcases hcase with h | ⟨kk, _, _, _, h4⟩
      · have : (p', st') ∈ rest := by rw [hl]; simp
        exact hhead (p', st') this (h ▸ hpx)
      · exact h4 p (Or.inl (by simp)) hpx

/-- the stores' part of `keys()` lists every key once -/
theorem mount_listed_nodup (hK : ∀ st, P.keys st = .ok (K st)) (s : MtState σ)
    (hKn : ∀ e, e ∈ s.2 → (K e.2).Nodup) (hKd : ∀ d, s.1 = some d → (K d).Nodup)
    (hwf : tableWF (s.2.map (·.1)) = true) (ks : List Key) (h : Mt.keysListed P s = .ok ks) : ks.Nodup := by
  have hpw : s.2.reverse.Pairwise (fun e1 e2 => ¬ e1.1 <+: e2.1) :=
    List.pairwise_reverse.mpr (tableWF_pairwise s.2 hwf)
  have hno := nodup_outK K s.2.reverse (fun e he => hKn e (List.mem_reverse.mp he)) [] hpw
  unfold Mt.keysListed at h
  rw [keysMounts_eq P K hK] at h
  cases hd : s.1 with
  | none =>
    simp only [hd] at h
    cases h; exact hno
  | some d =>
    simp only [hd, hK] at h
    cases h
    refine List.nodup_append.mpr ⟨hno, List.Pairwise.filter _ (hKd d hd), ?_⟩
    intro x hx y hy e
    subst e
    obtain ⟨A, p, st, B, hl, hcase⟩ := (mem_outK K s.2.reverse [] x).mp hx
    have hm : (p, st) ∈ s.2 := by
      have : (p, st) ∈ s.2.reverse := by rw [hl]; simp
      exact List.mem_reverse.mp this
    have hpx : p <+: x := by
      rcases hcase with h | ⟨kk, _, h2, _, _⟩
      · exact h ▸ List.prefix_refl _
      · rw [h2]; exact List.prefix_append _ _
    simp only [List.mem_filter, Bool.not_eq_true', List.any_eq_false] at hy
    have := hy.2 (p, st) hm
    simp only [Bool.not_eq_true] at this
    rw [List.isPrefixOf_iff_prefix.mpr hpx] at this
    cases this

/-! ### `keys()` = the listed keys, then the parents of mount points that no store listed (fix D7f) -/

theorem mountParents_eq (tbl : List (Key × σ)) :
    Mt.mountParents tbl = (tbl.flatMap (fun e => ancestors e.1)).eraseDups := by
  unfold Mt.mountParents ancestors
  congr 2
  funext e
  congr 1
  funext i
  by_cases h : i = 0 <;> simp [h]

/-- the appended candidates: the proper non-root prefixes of the mount prefixes -/
theorem mem_mountParents (tbl : List (Key × σ)) (a : Key) :
    a ∈ Mt.mountParents tbl ↔ a ≠ [] ∧ ∃ p st, (p, st) ∈ tbl ∧ a <+: p ∧ a ≠ p := by
  rw [mountParents_eq, List.mem_eraseDups, List.mem_flatMap]
  constructor
  · rintro ⟨⟨p, st⟩, hm, ha⟩
    obtain ⟨h1, h2, h3⟩ := (mem_ancestors a p).mp ha
    exact ⟨h1, p, st, hm, h2, h3⟩
  · rintro ⟨h1, p, st, hm, h2, h3⟩
    exact ⟨(p, st), hm, (mem_ancestors a p).mpr ⟨h1, h2, h3⟩⟩

theorem nodup_mountParents (tbl : List (Key × σ)) : (Mt.mountParents tbl).Nodup := by
  unfold Mt.mountParents
  exact nodup_eraseDups' _

theorem mount_keys_eq (s : MtState σ) (l : List Key) (h : Mt.keysListed P s = .ok l) :
    (M P).keys s = .ok (l ++ (Mt.mountParents s.2).filter (fun a => !(l.contains a))) := by
  show Mt.keys P s = _
  unfold Mt.keys
  rw [h]

/-- **`keys()` of the composite** (membership): the mount points and their parents, the keys of every mounted store
re-prefixed where that store is the innermost mount on the path, and the default store's keys with no mount on the path -/
theorem mount_keys_mem (hK : ∀ st, P.keys st = .ok (K st)) (s : MtState σ)
    (hwf : tableWF (s.2.map (·.1)) = true) :
    ∃ ks, (M P).keys s = .ok ks ∧ ∀ x, x ∈ ks ↔
      ((x ≠ [] ∧ ∃ p st, (p, st) ∈ s.2 ∧ x <+: p) ∨
       (∃ i p st kk, s.2[i]? = some (p, st) ∧ kk ∈ K st ∧ kk ≠ [] ∧ x = p ++ kk ∧ Owns s.2 i x) ∨
       (∃ d, s.1 = some d ∧ x ∈ K d ∧ NoMount s.2 x)) := by
  obtain ⟨l, h1, h2⟩ := mount_listed_mem P K hK s hwf
  refine ⟨_, mount_keys_eq P s l h1, ?_⟩
  intro x
  rw [List.mem_append, List.mem_filter, mem_mountParents]
  constructor
  · rintro (hx | ⟨⟨hne, p, st, hm, hp, _⟩, _⟩)
    · rcases (h2 x).mp hx with ⟨p, st, hm, rfl⟩ | h | h
      · exact Or.inl ⟨wf_nonempty hwf (List.mem_map.mpr ⟨(x, st), hm, rfl⟩), x, st, hm, List.prefix_refl _⟩
      · exact Or.inr (Or.inl h)
      · exact Or.inr (Or.inr h)
    · exact Or.inl ⟨hne, p, st, hm, hp⟩
  · rintro (⟨hne, p, st, hm, hp⟩ | h | h)
    · by_cases hx : x ∈ l
      · exact Or.inl hx
      · by_cases he : x = p
        · exact Or.inl ((h2 x).mpr (Or.inl ⟨p, st, hm, he⟩))
        · exact Or.inr ⟨⟨hne, p, st, hm, hp, he⟩, by simp [hx]⟩
    · exact Or.inl ((h2 x).mpr (Or.inr (Or.inl h)))
    · exact Or.inl ((h2 x).mpr (Or.inr (Or.inr h)))

/-- **`keys()` lists every key once** -/
theorem mount_keys_nodup (hK : ∀ st, P.keys st = .ok (K st)) (s : MtState σ)
    (hKn : ∀ e, e ∈ s.2 → (K e.2).Nodup) (hKd : ∀ d, s.1 = some d → (K d).Nodup)
    (hwf : tableWF (s.2.map (·.1)) = true) (ks : List Key) (h : (M P).keys s = .ok ks) : ks.Nodup := by
  obtain ⟨l, h1, _⟩ := mount_listed_mem P K hK s hwf
  rw [mount_keys_eq P s l h1] at h
  cases h
  refine List.nodup_append.mpr ⟨mount_listed_nodup P K hK s hKn hKd hwf l h1,
    List.Pairwise.filter _ (nodup_mountParents s.2), ?_⟩
  intro x hx y hy e
  subst e
  simp only [List.mem_filter, Bool.not_eq_true', List.contains_eq_mem, decide_eq_false_iff_not] at hy
  exact hy.2 hx

end keys

end Liquer.MtL
