/-
Lemmas about `mountOps` / `prefixOps` (C14): routing, ownership under `tableWF`, union reads, frame.
-/
import LiquerModel.StoreMount
import LiquerProofs.Lemmas.StoreView

namespace Liquer.MtL
open Liquer Liquer.SV

variable {σ : Type}

/-- the parts' `is_supported` for `MemoryStore` / `FileStore` -/
abbrev T : σ → Key → Bool := fun _ _ => true

/-! ### `route_to` = the last mounted entry that matches -/

theorem routeIdx_none (supp : σ → Key → Bool) (tbl : List (Key × σ)) (k : Key) :
    Mt.routeIdx supp tbl k = none ↔ ∀ p st, (p, st) ∈ tbl → Mt.hit supp p st k = false := by
  induction tbl with
  | nil => simp [Mt.routeIdx]
  | cons e rest ih =>
    obtain ⟨p, st⟩ := e
    simp only [Mt.routeIdx]
    cases hr : Mt.routeIdx supp rest k with
    | some i =>
      simp only [reduceCtorEq, false_iff]
      intro h
      have := (ih.mpr (fun q st' hm => h q st' (List.mem_cons_of_mem _ hm)))
      rw [hr] at this; cases this
    | none =>
      have ih' := ih.mp hr
      by_cases hh : Mt.hit supp p st k = true
      · simp only [hh, ↓reduceIte, reduceCtorEq, false_iff]
        intro h
        have := h p st List.mem_cons_self
        rw [hh] at this; cases this
      · have hh' : Mt.hit supp p st k = false := by simpa using hh
        simp only [hh', Bool.false_eq_true, ↓reduceIte, true_iff]
        intro q st' hm
        rcases List.mem_cons.mp hm with e | e
        · cases e; exact hh'
        · exact ih' q st' e

theorem routeIdx_some (supp : σ → Key → Bool) (tbl : List (Key × σ)) (k : Key) (i : Nat) :
    Mt.routeIdx supp tbl k = some i ↔
      ∃ p st, tbl[i]? = some (p, st) ∧ Mt.hit supp p st k = true ∧
        ∀ j q st', i < j → tbl[j]? = some (q, st') → Mt.hit supp q st' k = false := by
  induction tbl generalizing i with
  | nil => simp [Mt.routeIdx]
  | cons e rest ih =>
    obtain ⟨p, st⟩ := e
    simp only [Mt.routeIdx]
    cases hr : Mt.routeIdx supp rest k with
    | some i0 =>
      obtain ⟨p0, st0, h1, h2, h3⟩ := (ih i0).mp hr
      constructor
      · intro h
        cases h
        refine ⟨p0, st0, by simpa using h1, h2, ?_⟩
        intro j q st' hj hq
        cases j with
        | zero => omega
        | succ j => exact h3 j q st' (by omega) (by simpa using hq)
      · rintro ⟨p1, st1, g1, g2, g3⟩
        cases i with
        | zero =>
          have := g3 (i0 + 1) p0 st0 (by omega) (by simpa using h1)
          rw [h2] at this; cases this
        | succ i =>
          have : Mt.routeIdx supp rest k = some i := (ih i).mpr ⟨p1, st1, by simpa using g1, g2, fun j q st' hj hq =>
            g3 (j + 1) q st' (by omega) (by simpa using hq)⟩
          rw [hr] at this
          cases this; rfl
    | none =>
      have hn := (routeIdx_none supp rest k).mp hr
      by_cases hh : Mt.hit supp p st k = true
      · simp only [hh, ↓reduceIte, Option.some.injEq]
        constructor
        · intro h; subst h
          refine ⟨p, st, rfl, hh, ?_⟩
          intro j q st' hj hq
          cases j with
          | zero => omega
          | succ j =>
            have : (q, st') ∈ rest := List.mem_of_getElem? (by simpa using hq)
            exact hn q st' this
        · rintro ⟨p1, st1, g1, g2, _⟩
          cases i with
          | zero => rfl
          | succ i =>
            have : (p1, st1) ∈ rest := List.mem_of_getElem? (by simpa using g1)
            have := hn p1 st1 this
            rw [g2] at this; cases this
      · have hh' : Mt.hit supp p st k = false := by simpa using hh
        simp only [hh', Bool.false_eq_true, ↓reduceIte, reduceCtorEq, false_iff]
        rintro ⟨p1, st1, g1, g2, _⟩
        cases i with
        | zero =>
          simp at g1
          obtain ⟨rfl, rfl⟩ := g1
          rw [hh'] at g2; cases g2
        | succ i =>
          have : (p1, st1) ∈ rest := List.mem_of_getElem? (by simpa using g1)
          have := hn p1 st1 this
          rw [g2] at this; cases this

theorem hit_T (p : Key) (st : σ) (k : Key) : Mt.hit T p st k = true ↔ p <+: k := by
  unfold Mt.hit
  simp only [Bool.and_true, Bool.or_eq_true, beq_iff_eq, List.isPrefixOf_iff_prefix]
  constructor
  · rintro (h | h)
    · exact h ▸ List.prefix_refl _
    · exact h
  · exact Or.inr

theorem hit_T_false (p : Key) (st : σ) (k : Key) : Mt.hit T p st k = false ↔ ¬ p <+: k := by
  rw [← hit_T p st k]; simp

/-! ### well-formed tables: distinct non-empty prefixes, an outer prefix is mounted before an inner one -/

/-- no prefix is empty; no entry is a prefix of (or equal to) an entry mounted *before* it -/
def tableWF : List Key → Bool
  | [] => true
  | p :: rest => !p.isEmpty && rest.all (fun q => !(q.isPrefixOf p)) && tableWF rest

theorem wf_nonempty {ps : List Key} (h : tableWF ps = true) {p : Key} (hp : p ∈ ps) : p ≠ [] := by
  induction ps with
  | nil => cases hp
  | cons a rest ih =>
    simp only [tableWF, Bool.and_eq_true, Bool.not_eq_true', List.isEmpty_eq_false_iff] at h
    rcases List.mem_cons.mp hp with e | e
    · subst e; exact h.1.1
    · exact ih h.2 e

theorem wf_get {ps : List Key} (h : tableWF ps = true) {i j : Nat} {p q : Key} (hij : i < j)
    (hp : ps[i]? = some p) (hq : ps[j]? = some q) : ¬ q <+: p := by
  induction ps generalizing i j with
  | nil => simp at hp
  | cons a rest ih =>
    simp only [tableWF, Bool.and_eq_true, Bool.not_eq_true', List.all_eq_true] at h
    cases j with
    | zero => omega
    | succ j =>
      have hq' : rest[j]? = some q := by simpa using hq
      cases i with
      | zero =>
        have : a = p := by simpa using hp
        subst this
        have := h.1.2 q (List.mem_of_getElem? hq')
        intro hpre
        rw [List.isPrefixOf_iff_prefix.mpr hpre] at this
        cases this
      | succ i => exact ih h.2 (by omega) (by simpa using hp) hq'

/-- of two mounts that both lie on the path to `k`, the later one is strictly deeper -/
theorem wf_later_deeper {ps : List Key} (h : tableWF ps = true) {i j : Nat} {p q k : Key} (hij : i < j)
    (hp : ps[i]? = some p) (hq : ps[j]? = some q) (hpk : p <+: k) (hqk : q <+: k) : p.length < q.length := by
  have hn := wf_get h hij hp hq
  rcases prefix_cases hpk hqk with h1 | h1
  · have hle := h1.length_le
    have : p.length ≠ q.length := by
      intro e
      have := h1.eq_of_length e
      exact hn (this ▸ List.prefix_refl _)
    omega
  · exact absurd h1 hn

/-- entry `i` is the innermost mount on the path to `k` -/
def Owns (tbl : List (Key × σ)) (i : Nat) (k : Key) : Prop :=
  ∃ p st, tbl[i]? = some (p, st) ∧ p <+: k ∧ ∀ j q st', tbl[j]? = some (q, st') → q <+: k → q.length ≤ p.length

/-- no mount on the path to `k` -/
def NoMount (tbl : List (Key × σ)) (k : Key) : Prop := ∀ p st, (p, st) ∈ tbl → ¬ p <+: k

theorem map_get {tbl : List (Key × σ)} {j : Nat} {q : Key} {st : σ} (h : tbl[j]? = some (q, st)) :
    (tbl.map (·.1))[j]? = some q := by
  simp [h]

theorem route_none_iff (tbl : List (Key × σ)) (k : Key) : Mt.routeIdx T tbl k = none ↔ NoMount tbl k := by
  rw [routeIdx_none]
  unfold NoMount
  constructor
  · intro h p st hm; exact (hit_T_false p st k).mp (h p st hm)
  · intro h p st hm; exact (hit_T_false p st k).mpr (h p st hm)

/-- under `tableWF` the last mounted match is the innermost one, and conversely -/
theorem route_some_iff (tbl : List (Key × σ)) (hwf : tableWF (tbl.map (·.1)) = true) (k : Key) (i : Nat) :
    Mt.routeIdx T tbl k = some i ↔ Owns tbl i k := by
  rw [routeIdx_some]
  constructor
  · rintro ⟨p, st, h1, h2, h3⟩
    have hpk := (hit_T p st k).mp h2
    refine ⟨p, st, h1, hpk, ?_⟩
    intro j q st' hq hqk
    rcases Nat.lt_trichotomy j i with hlt | heq | hgt
    · exact Nat.le_of_lt (wf_later_deeper hwf hlt (map_get hq) (map_get h1) hqk hpk)
    · subst heq
      rw [h1] at hq; cases hq; exact Nat.le_refl _
    · have := h3 j q st' hgt hq
      exact absurd hqk ((hit_T_false q st' k).mp this)
  · rintro ⟨p, st, h1, hpk, hmax⟩
    refine ⟨p, st, h1, (hit_T p st k).mpr hpk, ?_⟩
    intro j q st' hj hq
    rw [hit_T_false]
    intro hqk
    have := wf_later_deeper hwf hj (map_get h1) (map_get hq) hpk hqk
    have := hmax j q st' hq hqk
    omega

/-! ### `PrefixStore`: the key with the prefix stripped -/

theorem translate_of_prefix {p k : Key} (h : p <+: k) : Pfx.translate p k = .ok (k.drop p.length) := by
  unfold Pfx.translate
  by_cases e : k = p
  · subst e; simp
  · have : (k == p) = false := by simpa using e
    simp [this, List.isPrefixOf_iff_prefix.mpr h]

theorem inverse_drop {p k : Key} (h : p <+: k) : Pfx.inverse p (k.drop p.length) = k := by
  obtain ⟨t, rfl⟩ := h
  simp [Pfx.inverse]

variable (P : StoreOps σ)

theorem prefix_getBytes {p k : Key} (h : p <+: k) (st : σ) :
    (prefixOps P p).getBytes st k = P.getBytes st (k.drop p.length) := by
  simp [prefixOps, translate_of_prefix h, Except.bind]

theorem prefix_getMeta {p k : Key} (h : p <+: k) (st : σ) :
    (prefixOps P p).getMeta st k =
      (P.getMeta st (k.drop p.length)).map (fun m => { m with key := k, name := keyName k }) := by
  simp [prefixOps, translate_of_prefix h, Except.bind]

theorem prefix_listdir {p k : Key} (h : p <+: k) (st : σ) :
    (prefixOps P p).listdir st k = P.listdir st (k.drop p.length) := by
  simp [prefixOps, translate_of_prefix h, Except.bind]

theorem prefix_contains {p k : Key} (h : p <+: k) (hne : k ≠ p) (st : σ) :
    (prefixOps P p).contains st k = P.contains st (k.drop p.length) := by
  have : (k == p) = false := by simpa using hne
  simp [prefixOps, translate_of_prefix h, Except.bind, this]

theorem prefix_isDir {p k : Key} (h : p <+: k) (hne : k ≠ p) (st : σ) :
    (prefixOps P p).isDir st k = P.isDir st (k.drop p.length) := by
  have : (k == p) = false := by simpa using hne
  simp [prefixOps, translate_of_prefix h, Except.bind, this]

theorem prefix_apply {p : Key} (op : StoreOp) (h : p <+: opKey op) (st : σ) :
    (prefixOps P p).apply st op = P.apply st (match op with
      | .store k d m => .store (k.drop p.length) d m
      | .storeMeta k m => .storeMeta (k.drop p.length) m
      | .remove k => .remove (k.drop p.length)
      | .removedir k r => .removedir (k.drop p.length) r
      | .makedir k => .makedir (k.drop p.length)) := by
  cases op <;> simp [StoreOps.apply, prefixOps, translate_of_prefix (by simpa [opKey] using h), Except.bind]

end Liquer.MtL
