/-
One-step equations for the evaluator and the reference interpretation.  The bodies of the two mutual
blocks are cut into named pieces shared by both sides (`applyExtra`, `failSt`, `doneSt`, `callOf`,
`subOutcome`) and side-specific stages (`refCall`/`evalCall`, `refPost`/`evalPost`, `refAfter`/`evalAfter`,
`refLink`/`evalLink`); the `_succ` theorems state that the model functions are these compositions.
Nothing here changes the models: the pieces live on the proof side only.
-/
import LiquerProofs.Lemmas.EvalBasic

namespace Liquer

/-! ### shared pieces -/

/-- `create_initial_state` with the injected input value -/
def initSt (env : Env) (input : Option Val) : EState := { vars := env.defaults, data := input.getD .none }

/-- extra positional / keyword parameters appended to the converted parameters; the flag marks the result volatile -/
def applyExtra (extra : Extra) (given : List PVal) : List PVal × List (Str × Val) × Bool :=
  match extra with
  | .none => (given, [], false)
  | .list vs => if vs.isEmpty then (given, [], false) else (given ++ vs.map .raw, [], true)
  | .dict kv => if kv.isEmpty then (given, [], false) else (given, kv, true)

/-- the error state of a failed action -/
def failSt (st : EState) (act : Action) (attrs : List (Str × Str)) (vol : Bool) (pos : Option Nat) (q : Option Str) : EState :=
  { st with data := .none, isError := true, status := s "error", commands := [act.toList Gen.escapeTable], attrs := attrs,
            volatile := st.volatile || vol, errPos := pos, errQuery := q }

/-- the state after a successful action -/
def doneSt (st : EState) (act : Action) (sig : CmdSig) (xv : Bool) (v : Val) (vars : Vars) (caching : Bool) : EState :=
  { st with data := v, vars := st.vars.update vars, status := statusReady, commands := [act.toList Gen.escapeTable],
            attrs := mergeAttrs st.attrs sig.attrs, caching := caching && st.caching,
            volatile := st.volatile || xv || cmdVolatile sig.attrs }

/-- the call-log line of an instrumented command (library commands are not instrumented) -/
def callOf (st : EState) (sig : CmdSig) (args : List Val) : List Str :=
  if isLibraryCommand sig.name then [] else [callText sig.ns sig.name (if sig.first then .none else st.data) args]

/-- the outcome of a sub-evaluating command from the outcome of its sub-evaluation -/
def subOutcome (st : EState) (act : Action) (raw : Str) (sig : CmdSig) (xv : Bool) (x : Val) (o : Outcome) : Outcome :=
  match o with
  | .st sub => if sub.isError then .st (failSt st act (mergeAttrs st.attrs sig.attrs) xv sub.errPos sub.errQuery)
               else .st (doneSt st act sig xv (.list [x, sub.data]) [] true)
  | .parseError => .st (failSt st act (mergeAttrs st.attrs sig.attrs) xv (some act.pos) (some raw))
  | .raised _ _ => .unmodelled
  | .unmodelled => .unmodelled

/-! ### reference side -/

/-- conversion of the arguments and the call, reference side (own calls only) -/
def refCall (env : Env) (n : Nat) (st : EState) (act : Action) (raw : Str) (sig : CmdSig)
    (x : List PVal × List (Str × Val) × Bool) : Outcome × List Str :=
  match parseArgv sig.args x.1 x.2.1 with
  | .unmodelled => (.unmodelled, [])
  | .fail => (.st (failSt st act (mergeAttrs st.attrs sig.attrs) (x.2.2 || cmdVolatile sig.attrs) (some act.pos) (some raw)), [])
  | .ok args =>
    match cmdSem sig.ns sig.name st.data st.vars args with
    | .unmodelled => (.unmodelled, callOf st sig args)
    | .raises => (.st (failSt st act (mergeAttrs st.attrs sig.attrs) (x.2.2 || cmdVolatile sig.attrs) (some act.pos) (some raw)), callOf st sig args)
    | .value v => (.st (doneSt st act sig x.2.2 v [] true), callOf st sig args)
    | .stateVars v vars => (.st (doneSt st act sig x.2.2 v vars true), callOf st sig args)
    | .nocache v => (.st (doneSt st act sig x.2.2 v [] false), callOf st sig args)
    | .subeval y qtext => (subOutcome st act raw sig x.2.2 y (refText env n qtext).1, callOf st sig args ++ (refText env n qtext).2)

macro "fin_call" : tactic => `(tactic| (
  split
  · simp [*]
  · simp [*, failSt]
  · simp only [*]
    split <;> simp [*, failSt, doneSt, subOutcome]
    split <;> simp [*, failSt, doneSt]
    split <;> simp [*]))

theorem refAction_zero (env : Env) (st : EState) (act : Action) (raw parent : Str) (extra : Extra) :
    refAction env 0 st act raw parent extra = (.unmodelled, []) := by simp [refAction]

theorem refAction_succ (env : Env) (n : Nat) (st : EState) (act : Action) (raw parent : Str) (extra : Extra) :
    refAction env (n+1) st act raw parent extra =
      match namespacesOf st.vars with
      | none => (.unmodelled, [])
      | some nss =>
        if !(nss.getLast?.map env.reg.hasNs).getD false then (.unmodelled, []) else
        match resolve env.reg nss act.name with
        | none => (.st (failSt st act (mergeAttrs st.attrs []) false (some act.pos) (some raw)), [])
        | some sig =>
          match refParams env n act.params raw parent with
          | (.inr o, c1) => (o, c1)
          | (.inl given, c1) =>
            ((refCall env n st act raw sig (applyExtra extra given)).1,
              c1 ++ (refCall env n st act raw sig (applyExtra extra given)).2) := by
  simp only [refAction]
  cases hns : namespacesOf st.vars with
  | none => rfl
  | some nss =>
    simp only []
    by_cases hl : (!(nss.getLast?.map env.reg.hasNs).getD false) = true
    · simp only [hl, if_true]
    · simp only [hl]
      cases hr : resolve env.reg nss act.name with
      | none => rfl
      | some sig =>
        simp only []
        rcases hp : refParams env n act.params raw parent with ⟨r, c1⟩
        cases r with
        | inr o => rfl
        | inl given =>
          simp only [refCall]
          have hc : ∀ args, (if isLibraryCommand sig.name = true then c1
            else c1 ++ [callText sig.ns sig.name (if sig.first = true then Val.none else st.data) args]) = c1 ++ callOf st sig args := by
            intro args; unfold callOf; split <;> simp
          simp only [hc, Bool.false_eq_true, if_false]
          cases extra with
          | none => simp only [applyExtra]; fin_call
          | list vs =>
            simp only [applyExtra]
            cases hv : vs.isEmpty <;> simp only [Bool.false_eq_true, if_true, if_false] <;> fin_call
          | dict kv =>
            simp only [applyExtra]
            cases hv : kv.isEmpty <;> simp only [Bool.false_eq_true, if_true, if_false] <;> fin_call

/-- the value of a link argument, reference side -/
def refLink (env : Env) (n : Nat) (lq : Query) (parent : Str) : Outcome × List Str :=
  if lq.absolute || parent.isEmpty || parent == ['/'] then refQ env n lq (lq.encode Gen.escapeTable) .none none
  else
    match lq with
    | .mk [.transform h as f] _ =>
      (match parse env.dec parent with
       | none => (.unmodelled, [])
       | some pq => refText env n ((Query.mk (pq.segments ++ [.transform h as f]) pq.absolute).encode Gen.escapeTable))
    | _ => (.unmodelled, [])

theorem refParams_zero (env : Env) (ps : List Param) (raw parent : Str) :
    refParams env 0 ps raw parent = (.inr .unmodelled, []) := by simp [refParams]

theorem refParams_nil (env : Env) (n : Nat) (raw parent : Str) :
    refParams env (n+1) [] raw parent = (.inl [], []) := by simp [refParams]

theorem refParams_str (env : Env) (n : Nat) (t : Str) (pos : Nat) (ps : List Param) (raw parent : Str) :
    refParams env (n+1) (.str t pos :: ps) raw parent =
      match refParams env n ps raw parent with
      | (.inl rest, c) => (.inl (.text t pos :: rest), c)
      | other => other := by
  simp only [refParams]; rfl

theorem refParams_link (env : Env) (n : Nat) (lq : Query) (pos : Nat) (ps : List Param) (raw parent : Str) :
    refParams env (n+1) (.link lq pos :: ps) raw parent =
      match refLink env n lq parent with
      | (.st v, c1) =>
        if v.isError then (.inr (.raised (some pos) (some raw)), c1)
        else
          (match refParams env n ps raw parent with
           | (.inl rest, c2) => (.inl (.expanded v.data pos :: rest), c1 ++ c2)
           | (.inr o2, c2) => (.inr o2, c1 ++ c2))
      | (.raised a b, c1) => (.inr (.raised a b), c1)
      | (.parseError, c1) => (.inr .parseError, c1)
      | (.unmodelled, c1) => (.inr .unmodelled, c1) := by
  simp only [refParams, refLink]
  generalize (if (lq.absolute || parent.isEmpty || parent == ['/']) = true then _ else _ : Outcome × List Str) = x
  rcases x with ⟨o, c1⟩
  cases o <;> rfl

theorem refText_zero (env : Env) (t : Str) : refText env 0 t = (.unmodelled, []) := by simp [refText]

theorem refText_succ (env : Env) (n : Nat) (t : Str) :
    refText env (n+1) t = match parse env.dec t with
      | none => (.parseError, [])
      | some q => refQ env n q t .none none := by
  simp only [refText]; rfl

/-- the last step of a query applied to the successful state of its predecessor, reference side (own calls only) -/
def refPost (env : Env) (n : Nat) (st : EState) (parent : Str) (r : Option Seg) (key raw : Str) (extra : Extra) :
    Outcome × List Str :=
  match r with
  | none => (.st { st with query := key }, [])
  | some (.transform _ [] (some f)) =>
    (.st { st with filename := some f, extension := some (extensionOf f), query := key }, [])
  | some (.transform _ [a] none) =>
    (match (refAction env n st a raw parent extra).1 with
     | .st st2 => (.st { st2 with query := key }, (refAction env n st a raw parent extra).2)
     | other => (other, (refAction env n st a raw parent extra).2))
  | some _ => (.unmodelled, [])

/-- what follows the evaluation of the predecessor, reference side (own calls only) -/
def refAfter (env : Env) (n : Nat) (o : Outcome) (parent : Str) (r : Option Seg) (key raw : Str) (extra : Extra) :
    Outcome × List Str :=
  match o with
  | .raised a b => (.raised a b, [])
  | .parseError => (.parseError, [])
  | .unmodelled => (.unmodelled, [])
  | .st st =>
    if st.isError then (.st { st with data := .none, query := key }, [])
    else refPost env n st parent r key raw extra

theorem refQ_zero (env : Env) (q : Query) (raw : Str) (extra : Extra) (input : Option Val) :
    refQ env 0 q raw extra input = (.unmodelled, []) := by simp [refQ]

theorem refQ_succ (env : Env) (n : Nat) (q : Query) (raw : Str) (extra : Extra) (input : Option Val) :
    refQ env (n+1) q raw extra input =
      if q.isRes then (.unmodelled, []) else
      match q.predecessor with
      | none => refAfter env n (.st (initSt env input)) [] none (q.encode Gen.escapeTable) raw extra
      | some (p, r) =>
        if p.segments.isEmpty then refAfter env n (.st (initSt env input)) [] r (q.encode Gen.escapeTable) raw extra
        else
          ((refAfter env n (refQ env n p (p.encode Gen.escapeTable) .none input).1 (p.encode Gen.escapeTable) r
              (q.encode Gen.escapeTable) raw extra).1,
            (refQ env n p (p.encode Gen.escapeTable) .none input).2 ++
            (refAfter env n (refQ env n p (p.encode Gen.escapeTable) .none input).1 (p.encode Gen.escapeTable) r
              (q.encode Gen.escapeTable) raw extra).2) := by
  simp only [refQ]
  split
  · simp [Query.isRes]
  · next hres =>
    have hr : q.isRes = false := by
      unfold Query.isRes; split
      · exact absurd rfl (hres _ _ _)
      · rfl
    simp only [hr, Bool.false_eq_true, if_false]
    cases hp : q.predecessor with
    | none => simp [refAfter, refPost, initSt]
    | some pr =>
      rcases pr with ⟨p, r⟩
      simp only []
      cases hpe : p.segments.isEmpty
      · simp only [Bool.false_eq_true, if_false]
        rcases hrec : refQ env n p (p.encode Gen.escapeTable) .none input with ⟨o, c⟩
        cases o with
        | st st =>
          simp only [refAfter]
          cases hse : st.isError
          · simp only [Bool.false_eq_true, if_false, refPost]
            split <;> simp [*] <;> (split <;> simp [*])
          · simp
        | _ => simp [refAfter]
      · simp only [if_true, refAfter, initSt, Bool.false_eq_true, if_false, refPost]
        split <;> simp [*] <;> (split <;> simp [*])

/-! ### evaluator side -/

/-- the call-log entry of an instrumented command -/
def World.logCall (w : World) (st : EState) (sig : CmdSig) (args : List Val) : World :=
  if isLibraryCommand sig.name then w else w.log (callText sig.ns sig.name (if sig.first then .none else st.data) args)

/-- final progress metadata of a sub-evaluating command -/
def subW (uc : Bool) (raw : Str) (o : Outcome) (w : World) : World :=
  match o with
  | .st sub => w.metaIf uc raw (if sub.isError then s "error" else statusReady)
  | .parseError => w.metaIf uc raw (s "error")
  | _ => w

/-- conversion of the arguments and the call, evaluator side -/
def evalCall (env : Env) (n : Nat) (w1 : World) (st : EState) (act : Action) (raw : Str) (sig : CmdSig)
    (x : List PVal × List (Str × Val) × Bool) (uc : Bool) : World × Outcome :=
  match parseArgv sig.args x.1 x.2.1 with
  | .unmodelled => (w1, .unmodelled)
  | .fail => (w1.metaIf uc raw (s "error"),
      .st (failSt st act (mergeAttrs st.attrs sig.attrs) (x.2.2 || cmdVolatile sig.attrs) (some act.pos) (some raw)))
  | .ok args =>
    match cmdSem sig.ns sig.name st.data st.vars args with
    | .unmodelled => (w1.logCall st sig args, .unmodelled)
    | .raises => ((w1.logCall st sig args).metaIf uc raw (s "error"),
        .st (failSt st act (mergeAttrs st.attrs sig.attrs) (x.2.2 || cmdVolatile sig.attrs) (some act.pos) (some raw)))
    | .value v => ((w1.logCall st sig args).metaIf uc raw statusReady, .st (doneSt st act sig x.2.2 v [] true))
    | .stateVars v vars => ((w1.logCall st sig args).metaIf uc raw statusReady, .st (doneSt st act sig x.2.2 v vars true))
    | .nocache v => ((w1.logCall st sig args).metaIf uc raw statusReady, .st (doneSt st act sig x.2.2 v [] false))
    | .subeval y qtext =>
      (subW uc raw (evalText env n (w1.logCall st sig args) qtext true).2 (evalText env n (w1.logCall st sig args) qtext true).1,
        subOutcome st act raw sig x.2.2 y (evalText env n (w1.logCall st sig args) qtext true).2)

macro "fin_ecall" : tactic => `(tactic| (
  split
  · simp [*]
  · simp [*, failSt, World.metaIf]
  · simp only [*]
    split <;> simp [*, failSt, doneSt, subOutcome, subW, World.logCall, World.metaIf]
    split <;> simp [*, failSt, doneSt, World.metaIf]
    split <;> simp [*, World.metaIf]))

theorem evalAction_zero (env : Env) (w : World) (st : EState) (act : Action) (raw parent : Str) (extra : Extra) (uc : Bool) :
    evalAction env 0 w st act raw parent extra uc = (w, .unmodelled) := by simp [evalAction]

theorem evalAction_succ (env : Env) (n : Nat) (w : World) (st : EState) (act : Action) (raw parent : Str)
    (extra : Extra) (uc : Bool) :
    evalAction env (n+1) w st act raw parent extra uc =
      match namespacesOf st.vars with
      | none => (w.metaIf uc raw (s "evaluation"), .unmodelled)
      | some nss =>
        if !(nss.getLast?.map env.reg.hasNs).getD false then (w.metaIf uc raw (s "evaluation"), .unmodelled) else
        match resolve env.reg nss act.name with
        | none => ((w.metaIf uc raw (s "evaluation")).metaIf uc raw (s "error"),
            .st (failSt st act (mergeAttrs st.attrs []) false (some act.pos) (some raw)))
        | some sig =>
          match evalParams env n (w.metaIf uc raw (s "evaluation")) act.params raw parent with
          | (w1, .inr o) => (w1, o)
          | (w1, .inl given) => evalCall env n w1 st act raw sig (applyExtra extra given) uc := by
  simp only [evalAction, World.metaIf]
  cases hns : namespacesOf st.vars with
  | none => rfl
  | some nss =>
    simp only []
    by_cases hl : (!(nss.getLast?.map env.reg.hasNs).getD false) = true
    · simp only [hl, if_true]
    · simp only [hl]
      cases hr : resolve env.reg nss act.name with
      | none => rfl
      | some sig =>
        simp only []
        rcases hp : evalParams env n (if uc = true then w.storeMeta raw (s "evaluation") else w) act.params raw parent with ⟨w1, r⟩
        cases r with
        | inr o => rfl
        | inl given =>
          simp only [evalCall, Bool.false_eq_true, if_false]
          cases extra with
          | none => simp only [applyExtra]; fin_ecall
          | list vs =>
            simp only [applyExtra]
            cases hv : vs.isEmpty <;> simp only [Bool.false_eq_true, if_true, if_false] <;> fin_ecall
          | dict kv =>
            simp only [applyExtra]
            cases hv : kv.isEmpty <;> simp only [Bool.false_eq_true, if_true, if_false] <;> fin_ecall

/-- the value of a link argument, evaluator side: a child context on the global cache -/
def evalLink (env : Env) (n : Nat) (w : World) (lq : Query) (parent : Str) : World × Outcome :=
  if lq.absolute || parent.isEmpty || parent == ['/'] then evalQ env n w lq (lq.encode Gen.escapeTable) .none none true
  else
    match lq with
    | .mk [.transform h as f] _ =>
      (match parse env.dec parent with
       | none => (w, .unmodelled)
       | some pq => evalText env n w ((Query.mk (pq.segments ++ [.transform h as f]) pq.absolute).encode Gen.escapeTable) true)
    | _ => (w, .unmodelled)

theorem evalParams_zero (env : Env) (w : World) (ps : List Param) (raw parent : Str) :
    evalParams env 0 w ps raw parent = (w, .inr .unmodelled) := by simp [evalParams]

theorem evalParams_nil (env : Env) (n : Nat) (w : World) (raw parent : Str) :
    evalParams env (n+1) w [] raw parent = (w, .inl []) := by simp [evalParams]

theorem evalParams_str (env : Env) (n : Nat) (w : World) (t : Str) (pos : Nat) (ps : List Param) (raw parent : Str) :
    evalParams env (n+1) w (.str t pos :: ps) raw parent =
      match evalParams env n w ps raw parent with
      | (w1, .inl rest) => (w1, .inl (.text t pos :: rest))
      | other => other := by
  simp only [evalParams]; rfl

theorem evalParams_link (env : Env) (n : Nat) (w : World) (lq : Query) (pos : Nat) (ps : List Param) (raw parent : Str) :
    evalParams env (n+1) w (.link lq pos :: ps) raw parent =
      match evalLink env n w lq parent with
      | (w1, .st v) =>
        if v.isError then (w1, .inr (.raised (some pos) (some raw)))
        else
          (match evalParams env n w1 ps raw parent with
           | (w2, .inl rest) => (w2, .inl (.expanded v.data pos :: rest))
           | other => other)
      | (w1, .raised a b) => (w1, .inr (.raised a b))
      | (w1, .parseError) => (w1, .inr .parseError)
      | (w1, .unmodelled) => (w1, .inr .unmodelled) := by
  simp only [evalParams, evalLink]
  generalize (if (lq.absolute || parent.isEmpty || parent == ['/']) = true then _ else _ : World × Outcome) = x
  rcases x with ⟨w1, o⟩
  cases o <;> rfl

theorem evalText_zero (env : Env) (w : World) (t : Str) (ug : Bool) : evalText env 0 w t ug = (w, .unmodelled) := by
  simp [evalText]

theorem evalText_succ (env : Env) (n : Nat) (w : World) (t : Str) (ug : Bool) :
    evalText env (n+1) w t ug = match parse env.dec t with
      | none => (w, .parseError)
      | some q => evalQ env n w q t .none none ug := by
  simp only [evalText]; rfl

/-- the admission test after the last action -/
def admitW (uc : Bool) (key : Str) (st3 : EState) (w2 : World) : World :=
  if !uc then w2
  else if st3.caching && !st3.isError && !st3.volatile then w2.store st3
  else if st3.isError then w2.storeMeta key (s "error")
  else w2.remove key

/-- the admission test after a file-name step -/
def fileW (uc : Bool) (key : Str) (st2 : EState) (w1 : World) : World :=
  if !uc then w1 else if st2.caching && !st2.volatile then w1.store st2 else w1.remove key

/-- the last step of a query applied to the successful state of its predecessor, evaluator side -/
def evalPost (env : Env) (n : Nat) (w1 : World) (st : EState) (parent : Str) (r : Option Seg) (key raw : Str)
    (extra : Extra) (uc : Bool) : World × Outcome :=
  match r with
  | none => (w1, .st { st with query := key })
  | some (.transform _ [] (some f)) =>
    (fileW uc key { st with filename := some f, extension := some (extensionOf f), query := key }
        (w1.metaIf uc raw (s "evaluation")),
      .st { st with filename := some f, extension := some (extensionOf f), query := key })
  | some (.transform _ [a] none) =>
    (match (evalAction env n w1 st a raw parent extra uc).2 with
     | .st st2 => (admitW uc key { st2 with query := key } (evalAction env n w1 st a raw parent extra uc).1,
                   .st { st2 with query := key })
     | other => ((evalAction env n w1 st a raw parent extra uc).1, other))
  | some _ => (w1, .unmodelled)

/-- what follows the evaluation of the predecessor, evaluator side -/
def evalAfter (env : Env) (n : Nat) (w1 : World) (o : Outcome) (parent : Str) (r : Option Seg) (key raw : Str)
    (extra : Extra) (uc : Bool) : World × Outcome :=
  match o with
  | .raised a b => (w1, .raised a b)
  | .parseError => (w1, .parseError)
  | .unmodelled => (w1, .unmodelled)
  | .st st =>
    if st.isError then (w1.metaIf uc raw (s "error"), .st { st with data := .none, query := key })
    else evalPost env n w1 st parent r key raw extra uc

theorem evalQ_zero (env : Env) (w : World) (q : Query) (raw : Str) (extra : Extra) (input : Option Val) (uc : Bool) :
    evalQ env 0 w q raw extra input uc = (w, .unmodelled) := by simp [evalQ]

theorem evalQ_succ (env : Env) (n : Nat) (w : World) (q : Query) (raw : Str) (extra : Extra) (input : Option Val)
    (uc : Bool) :
    evalQ env (n+1) w q raw extra input uc =
      match (if extra.isEmpty && input.isNone && uc then w.get (q.encode Gen.escapeTable) else none) with
      | some st => (w, .st st)
      | none =>
        if q.isRes then (w, .unmodelled) else
        match q.predecessor with
        | none => evalAfter env n w (.st (initSt env input)) [] none (q.encode Gen.escapeTable) raw extra uc
        | some (p, r) =>
          if p.segments.isEmpty then
            evalAfter env n w (.st (initSt env input)) [] r (q.encode Gen.escapeTable) raw extra uc
          else
            evalAfter env n
              (evalQ env n (w.metaIf uc raw (s "evaluating parent")) p (p.encode Gen.escapeTable) .none input uc).1
              (evalQ env n (w.metaIf uc raw (s "evaluating parent")) p (p.encode Gen.escapeTable) .none input uc).2
              (p.encode Gen.escapeTable) r (q.encode Gen.escapeTable) raw extra uc := by
  simp only [evalQ, World.metaIf]
  generalize (if (extra.isEmpty && input.isNone && uc) = true then w.get (q.encode Gen.escapeTable) else none) = hit
  cases hit with
  | some st => rfl
  | none =>
    simp only []
    split
    · simp [Query.isRes]
    · next hres =>
      have hr : q.isRes = false := by
        unfold Query.isRes; split
        · exact absurd rfl (hres _ _ _)
        · rfl
      simp only [hr, Bool.false_eq_true, if_false]
      cases hp : q.predecessor with
      | none => simp [evalAfter, evalPost, initSt]
      | some pr =>
        rcases pr with ⟨p, r⟩
        simp only []
        cases hpe : p.segments.isEmpty
        · simp only [Bool.false_eq_true, if_false]
          rcases hrec : evalQ env n (if uc = true then w.storeMeta raw (s "evaluating parent") else w) p (p.encode Gen.escapeTable) .none input uc with ⟨w1, o⟩
          cases o with
          | st st =>
            simp only [evalAfter]
            cases hse : st.isError
            · simp only [Bool.false_eq_true, if_false, evalPost]
              split <;> simp [*, fileW, admitW, World.metaIf] <;> (split <;> simp [*])
            · simp [World.metaIf]
          | _ => simp [evalAfter]
        · simp only [if_true, evalAfter, initSt, Bool.false_eq_true, if_false, evalPost]
          split <;> simp [*, fileW, admitW, World.metaIf] <;> (split <;> simp [*])

/-! ### the predecessor stage, uniformly -/

/-- the last step of the query (`none`: no step, the query is its predecessor with another key) -/
def Query.preRem (q : Query) : Option Seg :=
  match q.predecessor with
  | some (_, r) => r
  | none => none

/-- the predecessor that is evaluated (`none`: the evaluation starts from the initial state) -/
def Query.preQ (q : Query) : Option Query :=
  match q.predecessor with
  | some (p, _) => if p.segments.isEmpty then none else some p
  | none => none

/-- `parent_query` of the last action -/
def Query.preParent (q : Query) : Str :=
  match q.preQ with
  | some p => p.encode Gen.escapeTable
  | none => []

def refPre (env : Env) (m : Nat) (q : Query) (input : Option Val) : Outcome × List Str :=
  match q.preQ with
  | none => (.st (initSt env input), [])
  | some p => refQ env m p (p.encode Gen.escapeTable) .none input

def evalPre (env : Env) (n : Nat) (w : World) (q : Query) (raw : Str) (input : Option Val) (uc : Bool) : World × Outcome :=
  match q.preQ with
  | none => (w, .st (initSt env input))
  | some p => evalQ env n (w.metaIf uc raw (s "evaluating parent")) p (p.encode Gen.escapeTable) .none input uc

theorem refQ_succ' (env : Env) (n : Nat) (q : Query) (raw : Str) (extra : Extra) (input : Option Val) :
    refQ env (n+1) q raw extra input =
      if q.isRes then (.unmodelled, []) else
        ((refAfter env n (refPre env n q input).1 q.preParent q.preRem (q.encode Gen.escapeTable) raw extra).1,
          (refPre env n q input).2 ++
          (refAfter env n (refPre env n q input).1 q.preParent q.preRem (q.encode Gen.escapeTable) raw extra).2) := by
  rw [refQ_succ]
  unfold refPre Query.preParent Query.preQ Query.preRem
  split
  · rfl
  · cases hp : q.predecessor with
    | none => simp
    | some pr =>
      rcases pr with ⟨p, r⟩
      cases hpe : p.segments.isEmpty <;> simp only [hpe, Bool.false_eq_true, if_true, if_false, List.nil_append]

theorem evalQ_succ' (env : Env) (n : Nat) (w : World) (q : Query) (raw : Str) (extra : Extra) (input : Option Val)
    (uc : Bool) :
    evalQ env (n+1) w q raw extra input uc =
      match (if extra.isEmpty && input.isNone && uc then w.get (q.encode Gen.escapeTable) else none) with
      | some st => (w, .st st)
      | none =>
        if q.isRes then (w, .unmodelled) else
          evalAfter env n (evalPre env n w q raw input uc).1 (evalPre env n w q raw input uc).2 q.preParent q.preRem
            (q.encode Gen.escapeTable) raw extra uc := by
  rw [evalQ_succ]
  unfold evalPre Query.preParent Query.preQ Query.preRem
  split
  · rfl
  · split
    · rfl
    · cases hp : q.predecessor with
      | none => simp
      | some pr =>
        rcases pr with ⟨p, r⟩
        cases hpe : p.segments.isEmpty <;> simp only [hpe, Bool.false_eq_true, if_true, if_false]

theorem Query.preQ_some {q p : Query} (h : q.preQ = some p) :
    ∃ r, q.predecessor = some (p, r) ∧ p.segments.isEmpty = false := by
  unfold Query.preQ at h
  split at h
  · next p' r hp =>
    split at h
    · simp at h
    · next hpe => simp at h; subst h; exact ⟨r, hp, by simpa using hpe⟩
  · simp at h

theorem Query.preRem_some {q : Query} {r : Seg} (h : q.preRem = some r) :
    ∃ p, q.predecessor = some (p, some r) := by
  unfold Query.preRem at h
  split at h
  · next p' r' hp => subst h; exact ⟨p', hp⟩
  · simp at h

theorem Query.predecessor_not_isRes {q : Query} {x} (h : q.predecessor = some x) : q.isRes = false := by
  unfold Query.isRes
  split
  · simp [Query.predecessor] at h
  · rfl

end Liquer
