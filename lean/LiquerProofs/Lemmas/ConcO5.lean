/-
C12, the invariant of the concurrency model (Conc.lean): the shared cache is `Sound`, and every thread has performed a prefix
of its own operations (`get` / `store` / `remove`) and has received good answers for the `get`s it performed (`ThreadOK`).
One step of any thread preserves it, and so does every metadata-only write of the environment (any key, any status, at any
time: the cache stays `Sound`, so whatever the environment does between two steps of a thread, the answers the thread receives
later are good); hence every schedule of thread steps and environment writes does.
`ExtPrefix` (more answers only extend the trace; proved in ConcO4.lean) is a hypothesis of the step lemmas here.
-/
import LiquerProofs.Lemmas.ConcO3

namespace Liquer

/-- more answers only extend the trace of an evaluation -/
def ExtPrefix (env : Env) : Prop :=
  ∀ n A B q raw, (evalQO env n { answers := A } q raw .none none true).1.trace <+:
    (evalQO env n { answers := A ++ B } q raw .none none true).1.trace

/-- the trace of the thread's evaluation against the answers received so far -/
def Thread.trace (env : Env) (t : Thread) : List COp := (t.run env).1.trace

/-- the thread's own operations (everything but the progress-metadata writes) against the answers received so far -/
def Thread.own (env : Env) (t : Thread) : List COp := ownOps (t.trace env)

/-- what is known about a thread at every moment -/
structure ThreadOK (env : Env) (C : Query → Prop) (t : Thread) : Prop where
  inC : C t.q
  /-- the thread has performed a prefix of its own (`get` / `store` / `remove`) operations -/
  done_le : t.done ≤ (t.own env).length
  /-- the answers received are those of the `get`s performed -/
  cnt : (gets ((t.own env).take t.done)).length = t.answers.length
  /-- … and each is good for the key it was asked for -/
  good : GoodPairs env (t.trace env) t.answers
  /-- a result is the outcome of a run that did not starve -/
  res : ∀ o, t.result = some o → (t.run env).1.starved = false ∧ o = (t.run env).2

theorem Thread.run_wfo (env : Env) (t : Thread) : WFO t.answers (t.run env).1 :=
  ((frameO env _).q _ _ _ _ _ _).2.1 _ (WFO.init _)

/-- all operations of a thread with good answers are harmless -/
theorem ThreadOK.storesGood {env : Env} {C : Query → Prop} {T : Str → Prop} (hC : Closed env C T)
    (hcanon : ∀ q, C q → CanonOK env q) {t : Thread} (ok : ThreadOK env C t) : StoresGood env (t.trace env) :=
  (evalQO_refines hC hcanon _ t.answers t.q t.raw ok.inC ok.good).1

/-- a result is what the reference interpretation gives -/
theorem ThreadOK.result_sim {env : Env} {C : Query → Prop} {T : Str → Prop} (hC : Closed env C T)
    (hcanon : ∀ q, C q → CanonOK env q) {t : Thread} (ok : ThreadOK env C t) {o : Outcome} (ho : t.result = some o)
    (hne : o ≠ .unmodelled) : ∃ m, Outcome.sim o (refQ env m t.q t.raw .none none).1 := by
  obtain ⟨_, rfl⟩ := ok.res o ho
  exact (evalQO_refines hC hcanon _ t.answers t.q t.raw ok.inC ok.good).2 hne

theorem ThreadOK.fresh {env : Env} {C : Query → Prop} {t : Thread} (hq : C t.q) (ha : t.answers = []) (hd : t.done = 0)
    (hr : t.result = none) : ThreadOK env C t where
  inC := hq
  done_le := by rw [hd]; exact Nat.zero_le _
  cnt := by rw [hd, ha]; simp
  good := by rw [ha]; exact GoodPairs.nil_answers _ _
  res := fun o ho => by rw [hr] at ho; simp at ho

/-! ### list facts -/

theorem gets_eq_nil_of_meta {l : List COp} (h : ∀ op ∈ l, op.isMeta = true) : gets l = [] := by
  unfold gets
  rw [List.filterMap_eq_nil_iff]
  intro op hop
  have := h op hop
  cases op <;> simp_all [COp.isMeta, COp.key?]

theorem take_succ_of_getElem? {α : Type} {l : List α} {n : Nat} {a : α} (h : l[n]? = some a) :
    l.take (n+1) = l.take n ++ [a] := by
  rw [List.take_add_one, h]; rfl

/-! ### own operations -/

theorem ownOps_append (a b : List COp) : ownOps (a ++ b) = ownOps a ++ ownOps b := by
  simp [ownOps]

/-- the `get`s of a trace are among its own operations -/
theorem gets_ownOps (tr : List COp) : gets (ownOps tr) = gets tr := by
  induction tr with
  | nil => rfl
  | cons op tr ih =>
    have h1 : gets (op :: tr) = gets [op] ++ gets tr := by rw [← gets_append]; rfl
    cases op with
    | storeMeta k x =>
      have : ownOps (.storeMeta k x :: tr) = ownOps tr := by simp [ownOps, COp.isMeta]
      rw [this, ih, h1]; simp
    | get k =>
      have : ownOps (.get k :: tr) = .get k :: ownOps tr := by simp [ownOps, COp.isMeta]
      rw [this, h1, ← ih]; rfl
    | store st =>
      have : ownOps (.store st :: tr) = .store st :: ownOps tr := by simp [ownOps, COp.isMeta]
      rw [this, h1, ← ih]; rfl
    | remove k =>
      have : ownOps (.remove k :: tr) = .remove k :: ownOps tr := by simp [ownOps, COp.isMeta]
      rw [this, h1, ← ih]; rfl

theorem mem_of_mem_ownOps {tr : List COp} {op : COp} (h : op ∈ ownOps tr) : op ∈ tr :=
  (List.mem_filter.1 h).1

theorem not_meta_of_mem_ownOps {tr : List COp} {op : COp} (h : op ∈ ownOps tr) : op.isMeta = false := by
  have := (List.mem_filter.1 h).2
  simpa using this

/-! ### one step of a thread -/

theorem stepThread_ok {env : Env} {C : Query → Prop} {T : Str → Prop} (hC : Closed env C T)
    (hcanon : ∀ q, C q → CanonOK env q) (hext : ExtPrefix env) {shared : World} {t : Thread} (hS : Sound env shared)
    (ok : ThreadOK env C t) :
    Sound env (stepThread env shared t).1 ∧ ThreadOK env C (stepThread env shared t).2 := by
  unfold stepThread
  split
  · exact ⟨hS, ok⟩
  · next hfin =>
    have hres : t.result = none := by
      cases h : t.result with
      | none => rfl
      | some o => simp [Thread.finished, h] at hfin
    have hW := t.run_wfo env
    have hle := ok.done_le
    have hcnt := ok.cnt
    have hgood := ok.good
    have hSG := ok.storesGood hC hcanon
    unfold Thread.own Thread.trace at hle hcnt
    unfold Thread.trace at hgood hSG
    rcases hrun : t.run env with ⟨ow, out⟩
    rw [hrun] at hW hle hcnt hgood hSG
    simp only at hW hle hcnt hgood hSG ⊢
    cases hop : (ownOps ow.trace)[t.done]? with
    | none =>
      simp only
      refine ⟨hS, ?_⟩
      have hge : (ownOps ow.trace).length ≤ t.done := by simpa using hop
      have hall : (ownOps ow.trace).take t.done = ownOps ow.trace := List.take_of_length_le hge
      rw [hall, gets_ownOps] at hcnt
      have hns : ow.starved = false := by
        cases h : ow.starved
        · rfl
        · have := hW.1 h; omega
      exact {
        inC := ok.inC
        done_le := ok.done_le
        cnt := ok.cnt
        good := ok.good
        res := fun o ho => by
          have : o = out := by simpa using ho.symm
          subst this
          show (t.run env).1.starved = false ∧ o = (t.run env).2
          rw [hrun]; exact ⟨hns, rfl⟩ }
    | some op =>
      simp only
      have hlt : t.done < (ownOps ow.trace).length := by
        rcases List.getElem?_eq_some_iff.1 hop with ⟨h, _⟩; exact h
      have hmemO : op ∈ ownOps ow.trace := List.mem_of_getElem? hop
      have hmem : op ∈ ow.trace := mem_of_mem_ownOps hmemO
      have htake := take_succ_of_getElem? hop
      cases op with
      | get k =>
        simp only [applyOp_get]
        -- the thread receives the answer of the shared cache
        have hgk : (gets ((ownOps ow.trace).take (t.done + 1))).length = t.answers.length + 1 := by
          rw [htake, gets_append]; simp [hcnt]
        have hpre1 : gets ((ownOps ow.trace).take (t.done + 1)) <+: gets ow.trace := by
          rw [← gets_ownOps ow.trace]; exact gets_prefix (List.take_prefix _ _)
        have hextp := hext (evalFuel t.raw) t.answers [shared.get k] t.q t.raw
        have hrun' : evalQO env (evalFuel t.raw) { answers := t.answers } t.q t.raw .none none true = (ow, out) := hrun
        rw [hrun'] at hextp
        simp only at hextp
        refine ⟨hS, ?_⟩
        obtain ⟨c, hc⟩ := hextp
        exact {
          inC := ok.inC
          done_le := by
            show t.done + 1 ≤ (ownOps (evalQO env (evalFuel t.raw) { answers := t.answers ++ [shared.get k] } t.q t.raw .none none true).1.trace).length
            rw [← hc, ownOps_append]; simp; omega
          cnt := by
            show (gets ((ownOps (evalQO env (evalFuel t.raw) { answers := t.answers ++ [shared.get k] } t.q t.raw .none none true).1.trace).take (t.done + 1))).length = (t.answers ++ [shared.get k]).length
            rw [← hc, ownOps_append, List.take_append_of_le_length (by omega), hgk]; simp
          good := by
            show GoodPairs env (evalQO env (evalFuel t.raw) { answers := t.answers ++ [shared.get k] } t.q t.raw .none none true).1.trace (t.answers ++ [shared.get k])
            rw [← hc]
            intro i ki ai hki hai
            -- the first `|answers| + 1` keys asked are those of the old trace
            have hG : gets ((ownOps ow.trace).take (t.done + 1)) <+: gets (ow.trace ++ c) :=
              hpre1.trans (gets_prefix (List.prefix_append _ _))
            obtain ⟨c2, hc2⟩ := hG
            have hi : i < t.answers.length + 1 := by
              have := (List.getElem?_eq_some_iff.1 hai).1; simpa using this
            rw [← hc2, List.getElem?_append_left (by omega), htake, gets_append, gets_get] at hki
            by_cases hia : i < t.answers.length
            · rw [List.getElem?_append_left hia] at hai
              rw [List.getElem?_append_left (by omega)] at hki
              refine hgood i ki ai ?_ hai
              have hp0 : gets ((ownOps ow.trace).take t.done) <+: gets ow.trace := by
                rw [← gets_ownOps ow.trace]; exact gets_prefix (List.take_prefix _ _)
              obtain ⟨c3, hc3⟩ := hp0
              rw [← hc3, List.getElem?_append_left (by omega)]; exact hki
            · have hie : i = t.answers.length := by omega
              subst hie
              rw [List.getElem?_append_right (by omega)] at hki hai
              simp [hcnt] at hki hai
              subst hki; subst hai
              exact hS.get_good _
          res := fun o ho => by rw [show ({ t with answers := t.answers ++ [shared.get k], done := t.done + 1 } : Thread).result = t.result from rfl, hres] at ho; simp at ho }
      | storeMeta k x =>
        have := not_meta_of_mem_ownOps hmemO
        simp [COp.isMeta] at this
      | store st =>
        simp only [applyOp_store]
        refine ⟨hS.store st (hSG _ hmem), ?_⟩
        exact {
          inC := ok.inC
          done_le := by show t.done + 1 ≤ (ownOps (t.run env).1.trace).length; rw [hrun]; exact hlt
          cnt := by
            show (gets ((ownOps (t.run env).1.trace).take (t.done + 1))).length = t.answers.length
            rw [hrun]; simp only; rw [htake, gets_append]; simpa using hcnt
          good := ok.good
          res := ok.res }
      | remove k =>
        simp only [applyOp_remove]
        refine ⟨hS.remove k, ?_⟩
        exact {
          inC := ok.inC
          done_le := by show t.done + 1 ≤ (ownOps (t.run env).1.trace).length; rw [hrun]; exact hlt
          cnt := by
            show (gets ((ownOps (t.run env).1.trace).take (t.done + 1))).length = t.answers.length
            rw [hrun]; simp only; rw [htake, gets_append]; simpa using hcnt
          good := ok.good
          res := ok.res }

/-! ### configurations -/

/-- the invariant of the concurrency model -/
def Inv (env : Env) (C : Query → Prop) (c : Config) : Prop :=
  Sound env c.shared ∧ ∀ t ∈ c.threads, ThreadOK env C t

/-- a configuration before anything ran: a `Sound` cache and fresh threads evaluating queries of the class -/
def Fresh (env : Env) (C : Query → Prop) (c : Config) : Prop :=
  Sound env c.shared ∧ ∀ t ∈ c.threads, C t.q ∧ t.answers = [] ∧ t.done = 0 ∧ t.result = none

theorem Fresh.inv {env : Env} {C : Query → Prop} {c : Config} (h : Fresh env C c) : Inv env C c :=
  ⟨h.1, fun t ht => ThreadOK.fresh (h.2 t ht).1 (h.2 t ht).2.1 (h.2 t ht).2.2.1 (h.2 t ht).2.2.2⟩

theorem stepAt_inv {env : Env} {C : Query → Prop} {T : Str → Prop} (hC : Closed env C T)
    (hcanon : ∀ q, C q → CanonOK env q) (hext : ExtPrefix env) {c : Config} (h : Inv env C c) (i : Nat) :
    Inv env C (stepAt env c i) := by
  unfold stepAt
  split
  · exact h
  · next t ht =>
    have hmem : t ∈ c.threads := List.mem_of_getElem? ht
    have := stepThread_ok hC hcanon hext h.1 (h.2 t hmem)
    refine ⟨this.1, fun t' ht' => ?_⟩
    rcases List.mem_or_eq_of_mem_set ht' with h1 | h1
    · exact h.2 t' h1
    · rw [h1]; exact this.2

/-- an environment step — anybody writes metadata for any key with any status — keeps the invariant: a metadata write never
creates data (the shared cache stays `Sound`) and the threads are untouched -/
theorem envMeta_inv {env : Env} {C : Query → Prop} {c : Config} (h : Inv env C c) (k status : Str) :
    Inv env C (envMeta c k status) :=
  ⟨h.1.storeMeta k status, h.2⟩

/-- reachability under `StepAny`: all schedules of any length, interleaved with arbitrary metadata writes of the environment -/
inductive Reach (env : Env) : Config → Config → Prop where
  | refl (c : Config) : Reach env c c
  | tail {a b c : Config} : Reach env a b → StepAny env b c → Reach env a c

theorem Reach.inv {env : Env} {C : Query → Prop} {T : Str → Prop} (hC : Closed env C T)
    (hcanon : ∀ q, C q → CanonOK env q) (hext : ExtPrefix env) {a b : Config} (hr : Reach env a b) (h : Inv env C a) :
    Inv env C b := by
  induction hr with
  | refl => exact h
  | tail _ hs ih =>
    cases hs with
    | step i hi => exact stepAt_inv hC hcanon hext ih i
    | env k status => exact envMeta_inv ih k status

theorem runEvents_inv {env : Env} {C : Query → Prop} {T : Str → Prop} (hC : Closed env C T)
    (hcanon : ∀ q, C q → CanonOK env q) (hext : ExtPrefix env) (evs : List Ev) {c : Config} (h : Inv env C c) :
    Inv env C (runEvents env c evs) := by
  induction evs generalizing c with
  | nil => exact h
  | cons e rest ih =>
    cases e with
    | thread i => exact ih (stepAt_inv hC hcanon hext h i)
    | meta_ k status => exact ih (envMeta_inv h k status)

theorem runSchedule_inv {env : Env} {C : Query → Prop} {T : Str → Prop} (hC : Closed env C T)
    (hcanon : ∀ q, C q → CanonOK env q) (hext : ExtPrefix env) (sched : List Nat) {c : Config} (h : Inv env C c) :
    Inv env C (runSchedule env c sched) := by
  induction sched generalizing c with
  | nil => exact h
  | cons i rest ih => exact ih (stepAt_inv hC hcanon hext h i)

theorem finishAll_inv {env : Env} {C : Query → Prop} {T : Str → Prop} (hC : Closed env C T)
    (hcanon : ∀ q, C q → CanonOK env q) (hext : ExtPrefix env) (n : Nat) {c : Config} (h : Inv env C c) :
    Inv env C (finishAll env n c) := by
  induction n generalizing c with
  | zero => exact h
  | succ n ih =>
    unfold finishAll
    split
    · exact h
    · exact ih (stepAt_inv hC hcanon hext h _)

/-- a step that does nothing (index out of range) is reachable too, so schedules are reachable whatever their indices -/
theorem Reach.step {env : Env} {a b : Config} (h : Reach env a b) (i : Nat) : Reach env a (stepAt env b i) := by
  by_cases hi : i < b.threads.length
  · exact Reach.tail h (StepAny.step b i hi)
  · have : stepAt env b i = b := by
      unfold stepAt
      rw [List.getElem?_eq_none (by omega)]
    rw [this]; exact h

theorem Reach.envMeta {env : Env} {a b : Config} (h : Reach env a b) (k status : Str) :
    Reach env a (envMeta b k status) := Reach.tail h (StepAny.env b k status)

theorem Reach.runEvents {env : Env} (evs : List Ev) {a b : Config} (h : Reach env a b) :
    Reach env a (runEvents env b evs) := by
  induction evs generalizing b with
  | nil => exact h
  | cons e rest ih =>
    cases e with
    | thread i => exact ih (h.step i)
    | meta_ k status => exact ih (h.envMeta k status)

theorem Reach.trans {env : Env} {a b c : Config} (h1 : Reach env a b) (h2 : Reach env b c) : Reach env a c := by
  induction h2 with
  | refl => exact h1
  | tail _ hs ih => exact Reach.tail ih hs

theorem Reach.runSchedule {env : Env} (sched : List Nat) {a b : Config} (h : Reach env a b) :
    Reach env a (runSchedule env b sched) := by
  induction sched generalizing b with
  | nil => exact h
  | cons i rest ih => exact ih (h.step i)

theorem Reach.finishAll {env : Env} (n : Nat) {a b : Config} (h : Reach env a b) : Reach env a (finishAll env n b) := by
  induction n generalizing b with
  | zero => exact h
  | succ n ih =>
    unfold Liquer.finishAll
    split
    · exact h
    · exact ih (h.step _)

end Liquer
