/-
C10 helpers, part 2: well-formed worlds and the vocabulary of the frame argument.

  `Inv w`          — all references of the cache entries and of the defaults are allocated, the cache entries own pairwise
                     disjoint cells, disjoint from the defaults' cells;
  `Own w lo L`     — the live cells `L` (the state in hand, the argument values) lie in `[lo, next)`, no cache entry owns
                     one of them, the defaults lie below `lo`;
  `Mod L w w'`     — one stage: only cells of `L` (and new ones) were written, entries of the cache are old entries or new;
  `Stage lo w L w' L'` — a stage that starts owning `L` and ends owning `L'` (old cells of `L'` come from `L`);
  `Post lo w w'`   — cumulative: nothing below `lo` was written since the evaluation started.
-/
import LiquerProofs.Lemmas.Iso1

namespace Liquer.Iso

/-! ### heap modification with a footprint -/

/-- `h'` is `h` after writes inside `L` and allocations -/
structure HMod (L : List Addr) (h h' : Heap) : Prop where
  frame : ∀ a, a < h.next → a ∉ L → h'.cells a = h.cells a
  mono : h.next ≤ h'.next
  wf : h.WF → h'.WF

theorem HExt.toHMod {h h' : Heap} (e : HExt h h') (L : List Addr) : HMod L h h' :=
  ⟨fun a ha _ => e.frame a ha, e.mono, e.wf⟩

theorem HMod.refl (L : List Addr) (h : Heap) : HMod L h h := (HExt.refl h).toHMod L

theorem HMod.write {L : List Addr} {h : Heap} {a : Addr} (ha : a ∈ L) (lt : a < h.next) (c : Cell) :
    HMod L h (h.write a c) :=
  ⟨fun x _ hx => by have : x ≠ a := fun e => hx (e ▸ ha)
                    simp [this], Nat.le_refl _, fun w => w.write lt c⟩

theorem HMod.trans {L L' : List Addr} {h₁ h₂ h₃ : Heap} (a : HMod L h₁ h₂) (b : HMod L' h₂ h₃)
    (sub : ∀ x ∈ L', x < h₁.next → x ∈ L) : HMod L h₁ h₃ :=
  ⟨fun x hx hn => by rw [b.frame x (Nat.lt_of_lt_of_le hx a.mono) (fun hm => hn (sub x hm hx)), a.frame x hx hn],
   Nat.le_trans a.mono b.mono, fun w => b.wf (a.wf w)⟩

theorem HMod.mono_L {L L' : List Addr} {h h' : Heap} (a : HMod L h h') (sub : ∀ x ∈ L, x ∈ L') : HMod L' h h' :=
  ⟨fun x hx hn => a.frame x hx (fun hm => hn (sub x hm)), a.mono, a.wf⟩

/-! ### well-formed worlds -/

structure Inv (w : World) : Prop where
  wf : w.heap.WF
  cacheLt : ∀ e ∈ w.cache, ∀ a ∈ cellsState w.heap e.2, a < w.heap.next
  dfltLt : ∀ a ∈ cellsVars w.defaults, a < w.heap.next
  cacheSep : w.cache.Pairwise (fun e e' => Disj (cellsState w.heap e.2) (cellsState w.heap e'.2))
  cacheDflt : ∀ e ∈ w.cache, Disj (cellsState w.heap e.2) (cellsVars w.defaults)

theorem Inv.md_lt {w : World} (i : Inv w) {e : Str × HState} (he : e ∈ w.cache) : e.2.md < w.heap.next :=
  i.cacheLt e he _ (md_mem_cellsState _ _)

theorem Inv.calls {w : World} (i : Inv w) (c : List Str) : Inv { w with calls := c } :=
  ⟨i.wf, i.cacheLt, i.dfltLt, i.cacheSep, i.cacheDflt⟩

structure Own (w : World) (lo : Nat) (L : List Addr) : Prop where
  le : lo ≤ w.heap.next
  dflt : ∀ a ∈ cellsVars w.defaults, a < lo
  rng : ∀ a ∈ L, lo ≤ a ∧ a < w.heap.next
  cache : ∀ e ∈ w.cache, Disj (cellsState w.heap e.2) L

theorem Own.calls {w : World} {lo : Nat} {L : List Addr} (o : Own w lo L) (c : List Str) :
    Own { w with calls := c } lo L := ⟨o.le, o.dflt, o.rng, o.cache⟩

theorem Own.md_notin {w : World} {lo : Nat} {L : List Addr} (o : Own w lo L) {e : Str × HState} (he : e ∈ w.cache) :
    e.2.md ∉ L := fun h => o.cache e he _ (md_mem_cellsState _ _) h

theorem Own.nil {w : World} (i : Inv w) : Own w w.heap.next [] :=
  ⟨Nat.le_refl _, i.dfltLt, fun _ h => (nomatch h), fun _ _ => Disj.nil_right _⟩

theorem Own.toNil {w : World} {lo : Nat} {L : List Addr} (o : Own w lo L) : Own w lo [] :=
  ⟨o.le, o.dflt, fun _ h => (nomatch h), fun _ _ => Disj.nil_right _⟩

theorem Own.sub {w : World} {lo : Nat} {L L' : List Addr} (o : Own w lo L) (sub : ∀ a ∈ L', a ∈ L) : Own w lo L' :=
  ⟨o.le, o.dflt, fun a ha => o.rng a (sub a ha), fun e he a h1 h2 => o.cache e he a h1 (sub a h2)⟩

theorem Own.append {w : World} {lo : Nat} {L L' : List Addr} (o : Own w lo L) (o' : Own w lo L') : Own w lo (L ++ L') :=
  ⟨o.le, o.dflt, fun a ha => by rcases List.mem_append.1 ha with h | h
                                · exact o.rng a h
                                · exact o'.rng a h,
   fun e he a h1 h2 => by rcases List.mem_append.1 h2 with h | h
                          · exact o.cache e he a h1 h
                          · exact o'.cache e he a h1 h⟩

theorem Own.weaken {w : World} {lo lo' : Nat} {L : List Addr} (o : Own w lo' L) (le : lo ≤ lo')
    (d : ∀ a ∈ cellsVars w.defaults, a < lo) : Own w lo L :=
  ⟨Nat.le_trans le o.le, d, fun a ha => ⟨Nat.le_trans le (o.rng a ha).1, (o.rng a ha).2⟩, o.cache⟩

/-! ### one stage -/

structure Mod (L : List Addr) (w w' : World) : Prop where
  frame : ∀ a, a < w.heap.next → a ∉ L → w'.heap.cells a = w.heap.cells a
  mono : w.heap.next ≤ w'.heap.next
  dflt : w'.defaults = w.defaults
  on : w'.cacheOn = w.cacheOn
  cache : ∀ e ∈ w'.cache, e ∈ w.cache ∨ ∀ a ∈ cellsState w'.heap e.2, w.heap.next ≤ a

theorem Mod.refl (L : List Addr) (w : World) : Mod L w w :=
  ⟨fun _ _ _ => rfl, Nat.le_refl _, rfl, rfl, fun _ he => Or.inl he⟩

theorem Mod.calls {L : List Addr} {w w' : World} (m : Mod L w w') (c : List Str) : Mod L w { w' with calls := c } :=
  ⟨m.frame, m.mono, m.dflt, m.on, m.cache⟩

theorem Mod.calls_left {L : List Addr} {w w' : World} (c : List Str) (m : Mod L { w with calls := c } w') : Mod L w w' :=
  ⟨m.frame, m.mono, m.dflt, m.on, m.cache⟩

/-- an entry whose dictionary cell is old and outside the footprint owns the same cells afterwards -/
theorem Mod.cells_eq {L : List Addr} {w w' : World} (m : Mod L w w') {st : HState} (lt : st.md < w.heap.next)
    (n : st.md ∉ L) : cellsState w'.heap st = cellsState w.heap st :=
  cellsState_congr (m.frame _ lt n)

theorem Mod.trans {L L' : List Addr} {w w' w'' : World} (m1 : Mod L w w') (i' : Inv w')
    (hc : ∀ e ∈ w'.cache, Disj (cellsState w'.heap e.2) L') (m2 : Mod L' w' w'')
    (sub : ∀ a ∈ L', a < w.heap.next → a ∈ L) : Mod L w w'' := by
  refine ⟨fun a ha hn => ?_, Nat.le_trans m1.mono m2.mono, m2.dflt.trans m1.dflt, m2.on.trans m1.on, fun e he => ?_⟩
  · rw [m2.frame a (Nat.lt_of_lt_of_le ha m1.mono) (fun hm => hn (sub a hm ha)), m1.frame a ha hn]
  · rcases m2.cache e he with h | h
    · rcases m1.cache e h with h' | h'
      · exact Or.inl h'
      · right
        rw [m2.cells_eq (i'.md_lt h) (fun hm => hc e h _ (md_mem_cellsState _ _) hm)]
        exact h'
    · exact Or.inr (fun a ha => Nat.le_trans m1.mono (h a ha))

/-- only the heap changed, inside the footprint -/
theorem Mod.heap {L : List Addr} {w : World} {h' : Heap} (hm : HMod L w.heap h') : Mod L w { w with heap := h' } :=
  ⟨hm.frame, hm.mono, rfl, rfl, fun _ he => Or.inl he⟩

theorem Inv.heap {w : World} (i : Inv w) {L : List Addr} {h' : Heap} (hm : HMod L w.heap h')
    (hc : ∀ e ∈ w.cache, Disj (cellsState w.heap e.2) L) : Inv { w with heap := h' } := by
  have ce : ∀ e ∈ w.cache, cellsState h' e.2 = cellsState w.heap e.2 := fun e he =>
    cellsState_congr (hm.frame _ (i.md_lt he) (fun hx => hc e he _ (md_mem_cellsState _ _) hx))
  refine ⟨hm.wf i.wf, fun e he a ha => ?_, fun a ha => Nat.lt_of_lt_of_le (i.dfltLt a ha) hm.mono, ?_, fun e he => ?_⟩
  · simp only at he ha
    rw [ce e he] at ha
    exact Nat.lt_of_lt_of_le (i.cacheLt e he a ha) hm.mono
  · refine i.cacheSep.imp_of_mem (fun {e e'} he he' h => ?_)
    simp only
    rw [ce e he, ce e' he']
    exact h
  · simp only at he ⊢
    rw [ce e he]
    exact i.cacheDflt e he

/-- what is owned after a heap-only stage: old cells of the footprint and new cells -/
theorem Own.heap {w : World} {lo : Nat} {L L' : List Addr} (i : Inv w) (o : Own w lo L) {h' : Heap}
    (hm : HMod L w.heap h') (sub : ∀ a ∈ L', a ∈ L ∨ (w.heap.next ≤ a ∧ a < h'.next)) :
    Own { w with heap := h' } lo L' := by
  refine ⟨Nat.le_trans o.le hm.mono, o.dflt, fun a ha => ?_, fun e he a h1 h2 => ?_⟩
  · rcases sub a ha with h | h
    · exact ⟨(o.rng a h).1, Nat.lt_of_lt_of_le (o.rng a h).2 hm.mono⟩
    · exact ⟨Nat.le_trans o.le h.1, h.2⟩
  · simp only at he h1
    rw [cellsState_congr (hm.frame _ (i.md_lt he) (o.md_notin he))] at h1
    rcases sub a h2 with h | h
    · exact o.cache e he a h1 h
    · have := i.cacheLt e he a h1
      aomega

structure Stage (lo : Nat) (w : World) (L : List Addr) (w' : World) (L' : List Addr) : Prop where
  inv : Inv w'
  mod : Mod L w w'
  own : Own w' lo L'
  sub : ∀ a ∈ L', a < w.heap.next → a ∈ L

theorem Stage.trans {lo : Nat} {w w' w'' : World} {L L' L'' : List Addr} (s1 : Stage lo w L w' L')
    (s2 : Stage lo w' L' w'' L'') : Stage lo w L w'' L'' :=
  ⟨s2.inv, s1.mod.trans s1.inv s1.own.cache s2.mod s1.sub, s2.own,
   fun a ha hlt => s1.sub a (s2.sub a ha (Nat.lt_of_lt_of_le hlt s1.mod.mono)) hlt⟩

theorem Stage.refl {lo : Nat} {w : World} {L : List Addr} (i : Inv w) (o : Own w lo L) : Stage lo w L w L :=
  ⟨i, Mod.refl L w, o, fun _ h _ => h⟩

/-- the heap-only stage -/
theorem Stage.heap {w : World} {lo : Nat} {L L' : List Addr} (i : Inv w) (o : Own w lo L) {h' : Heap}
    (hm : HMod L w.heap h') (sub : ∀ a ∈ L', a ∈ L ∨ (w.heap.next ≤ a ∧ a < h'.next)) :
    Stage lo w L { w with heap := h' } L' :=
  ⟨i.heap hm o.cache, Mod.heap hm, Own.heap i o hm sub, fun a ha hlt => by
    rcases sub a ha with h | h
    · exact h
    · exact absurd hlt (by aomega)⟩

theorem Stage.calls {lo : Nat} {w w' : World} {L L' : List Addr} (s : Stage lo w L w' L') (c : List Str) :
    Stage lo w L { w' with calls := c } L' :=
  ⟨s.inv.calls c, s.mod.calls c, s.own.calls c, s.sub⟩

/-- what a stage leaves of something else that was owned and not touched -/
theorem Own.keep {w w' : World} {lo : Nat} {L K : List Addr} (i : Inv w) (o : Own w lo K) (m : Mod L w w')
    (hl : ∀ e ∈ w.cache, e.2.md ∉ L) : Own w' lo K := by
  refine ⟨Nat.le_trans o.le m.mono, by rw [m.dflt]; exact o.dflt,
    fun a ha => ⟨(o.rng a ha).1, Nat.lt_of_lt_of_le (o.rng a ha).2 m.mono⟩, fun e he a h1 h2 => ?_⟩
  rcases m.cache e he with h | h
  · rw [m.cells_eq (i.md_lt h) (hl e h)] at h1
    exact o.cache e h a h1 h2
  · have := h a h1
    have := (o.rng a h2).2
    aomega

/-! ### cumulative frame of an evaluation -/

structure Post (lo : Nat) (w w' : World) : Prop where
  le : lo ≤ w.heap.next
  frame : ∀ a, a < lo → w'.heap.cells a = w.heap.cells a
  mono : w.heap.next ≤ w'.heap.next
  dflt : w'.defaults = w.defaults
  on : w'.cacheOn = w.cacheOn
  cache : ∀ e ∈ w'.cache,
    (e ∈ w.cache ∧ ∀ a ∈ cellsState w.heap e.2, a < lo) ∨ ∀ a ∈ cellsState w'.heap e.2, lo ≤ a

theorem Post.refl {w : World} (i : Inv w) : Post w.heap.next w w :=
  ⟨Nat.le_refl _, fun _ _ => rfl, Nat.le_refl _, rfl, rfl, fun e he => Or.inl ⟨he, i.cacheLt e he⟩⟩

theorem Post.calls {lo : Nat} {w w' : World} (p : Post lo w w') (c : List Str) : Post lo w { w' with calls := c } :=
  ⟨p.le, p.frame, p.mono, p.dflt, p.on, p.cache⟩

theorem Post.calls_left {lo : Nat} {w w' : World} (c : List Str) (p : Post lo { w with calls := c } w') : Post lo w w' :=
  ⟨p.le, p.frame, p.mono, p.dflt, p.on, p.cache⟩

/-- an old entry that survived is unchanged -/
theorem Post.cells_eq {lo : Nat} {w w' : World} (p : Post lo w w') {st : HState} (lt : st.md < lo) :
    cellsState w'.heap st = cellsState w.heap st :=
  cellsState_congr (p.frame _ lt)

theorem Post.step {lo : Nat} {w w₁ w₂ : World} {L L' : List Addr} (p : Post lo w w₁) (i₁ : Inv w₁) (o : Own w₁ lo L)
    (s : Stage lo w₁ L w₂ L') : Post lo w w₂ := by
  have m := s.mod
  refine ⟨p.le, fun a ha => ?_, Nat.le_trans p.mono m.mono, m.dflt.trans p.dflt, m.on.trans p.on, fun e he => ?_⟩
  · rw [m.frame a (by have := p.le; have := p.mono; aomega) (fun hm => by have := (o.rng a hm).1; aomega), p.frame a ha]
  · rcases m.cache e he with h | h
    · rcases p.cache e h with h' | h'
      · exact Or.inl h'
      · right
        rw [m.cells_eq (i₁.md_lt h) (o.md_notin h)]
        exact h'
    · right
      intro a ha
      have := h a ha; have := p.le; have := p.mono
      aomega

/-- a complete sub-evaluation is a stage with empty footprint -/
theorem Post.toStage {w w' : World} {lo : Nat} {L : List Addr} (p : Post w.heap.next w w') (i' : Inv w')
    (o : Own w' w.heap.next L) (ow : Own w lo []) : Stage lo w [] w' L := by
  refine ⟨i', ⟨fun a ha _ => p.frame a ha, p.mono, p.dflt, p.on, fun e he => ?_⟩,
    o.weaken ow.le (by rw [p.dflt]; exact ow.dflt), fun a ha hlt => ?_⟩
  · rcases p.cache e he with h | h
    · exact Or.inl h.1
    · exact Or.inr h
  · have := (o.rng a ha).1
    aomega

end Liquer.Iso
