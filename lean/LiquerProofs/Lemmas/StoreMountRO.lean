/-
Lemmas about composites whose default store is a read-only view (C17 ∘ C14): `mountOps (partOps S) supp` on states
`(some (.ro s), tbl)`.
-/
import LiquerModel.StoreMountRO
import LiquerModel.StoreMem
import LiquerProofs.Lemmas.StoreMount

namespace Liquer

deriving instance DecidableEq for MemState

namespace MtRO
open Liquer Liquer.SV Liquer.MtL

variable {σ : Type}

/-! ### the part model -/

theorem part_apply_ro (S : StoreOps σ) (s : σ) (op : StoreOp) : (partOps S).apply (.ro s) op = .error .readOnly := by
  cases op <;> rfl

theorem part_apply_rw (S : StoreOps σ) (s : σ) (op : StoreOp) :
    (partOps S).apply (.rw s) op = (S.apply s op).map .rw := by
  cases op <;> rfl

/-- a mutator never changes the tag of a part -/
theorem part_apply_tag (S : StoreOps σ) (st st' : Part σ) (op : StoreOp) (h : (partOps S).apply st op = .ok st') :
    st'.isRO = st.isRO := by
  cases st with
  | ro x => rw [part_apply_ro] at h; cases h
  | rw x =>
    rw [part_apply_rw] at h
    cases hx : S.apply x op with
    | error e => rw [hx] at h; cases h
    | ok x' => rw [hx] at h; cases h; rfl

theorem prefix_part_apply_tag (S : StoreOps σ) (p : Key) (st st' : Part σ) (op : StoreOp)
    (h : (prefixOps (partOps S) p).apply st op = .ok st') : st'.isRO = st.isRO := by
  cases op with
  | store k d m =>
    simp only [StoreOps.apply, prefixOps] at h
    cases ht : Pfx.translate p k with
    | error e => rw [ht] at h; cases h
    | ok t => rw [ht] at h; exact part_apply_tag S st st' (.store t d m) h
  | storeMeta k m =>
    simp only [StoreOps.apply, prefixOps] at h
    cases ht : Pfx.translate p k with
    | error e => rw [ht] at h; cases h
    | ok t => rw [ht] at h; exact part_apply_tag S st st' (.storeMeta t m) h
  | remove k =>
    simp only [StoreOps.apply, prefixOps] at h
    cases ht : Pfx.translate p k with
    | error e => rw [ht] at h; cases h
    | ok t => rw [ht] at h; exact part_apply_tag S st st' (.remove t) h
  | removedir k r =>
    simp only [StoreOps.apply, prefixOps] at h
    cases ht : Pfx.translate p k with
    | error e => rw [ht] at h; cases h
    | ok t => rw [ht] at h; exact part_apply_tag S st st' (.removedir t r) h
  | makedir k =>
    simp only [StoreOps.apply, prefixOps] at h
    cases ht : Pfx.translate p k with
    | error e => rw [ht] at h; cases h
    | ok t => rw [ht] at h; exact part_apply_tag S st st' (.makedir t) h

/-! ### invariants of a composite state under every operation (any part model, any `is_supported`) -/

theorem foldl_inv {α β : Type} (Pr : β → Prop) (g : β → α → β) (l : List α) (b : β) (hb : Pr b)
    (hg : ∀ b a, Pr b → Pr (g b a)) : Pr (l.foldl g b) := by
  induction l generalizing b with
  | nil => exact hb
  | cons a l ih => exact ih (g b a) (hg b a hb)

/-- `Pr` is kept by every routed mutator -/
def KeptByWrites {τ : Type} (P : StoreOps τ) (supp : τ → Key → Bool) (Pr : MtState τ → Prop) : Prop :=
  ∀ (s s' : MtState τ) (op : StoreOp), Pr s →
    Mt.routedWrite P supp s (opKey op) (fun Q st => Q.apply st op) = .ok s' → Pr s'

theorem removedirX_inv {τ : Type} (P : StoreOps τ) (supp : τ → Key → Bool) (Pr : MtState τ → Prop)
    (hk : KeptByWrites P supp Pr) (n : Nat) :
    ∀ (s : MtState τ) (k : Key) (r : Bool), Pr s → Pr (Mt.removedirX P supp n s k r).1 := by
  induction n with
  | zero => intro s k r hs; exact hs
  | succ n ih =>
    intro s k r hs
    unfold Mt.removedirX
    split
    · exact hs
    · extract_lets walked
      have hwk : Pr walked.1 := by
        show Pr (if r = true then _ else _ : MtState τ × Option StoreErr).1
        split
        · split
          · exact hs
          · apply foldl_inv (fun acc : MtState τ × Option StoreErr => Pr acc.1)
            · exact hs
            · intro acc nm hacc
              split
              · exact hacc
              · split
                · exact hacc
                · exact ih acc.1 _ true hacc
                · split
                  · exact hacc
                  · rename_i s' hrm
                    exact hk acc.1 s' (.remove _) hacc hrm
        · exact hs
      clear_value walked
      split
      · exact hwk
      · split
        · exact hwk
        · split
          · exact hwk
          · rename_i s' hrm
            exact hk walked.1 s' (.removedir _ false) hwk hrm

theorem stepX_inv {τ : Type} (P : StoreOps τ) (supp : τ → Key → Bool) (Pr : MtState τ → Prop)
    (hk : KeptByWrites P supp Pr) (s : MtState τ) (op : StoreOp) (hs : Pr s) : Pr (Mt.stepX P supp s op) := by
  cases op with
  | removedir k r => exact removedirX_inv P supp Pr hk _ s k r hs
  | store k dt m =>
    show Pr ((mountOps P supp).step s _)
    unfold StoreOps.step
    split
    · rename_i s' h; exact hk s s' (.store k dt m) hs h
    · exact hs
  | storeMeta k m =>
    show Pr ((mountOps P supp).step s _)
    unfold StoreOps.step
    split
    · rename_i s' h; exact hk s s' (.storeMeta k m) hs h
    · exact hs
  | remove k =>
    show Pr ((mountOps P supp).step s _)
    unfold StoreOps.step
    split
    · rename_i s' h; exact hk s s' (.remove k) hs h
    · exact hs
  | makedir k =>
    show Pr ((mountOps P supp).step s _)
    unfold StoreOps.step
    split
    · rename_i s' h; exact hk s s' (.makedir k) hs h
    · exact hs

/-- the state `StoreOps.step` keeps is either the old one or the one `Mt.stepX` shows -/
theorem step_eq_or {τ : Type} (P : StoreOps τ) (supp : τ → Key → Bool) (s : MtState τ) (op : StoreOp) :
    (mountOps P supp).step s op = s ∨ (mountOps P supp).step s op = Mt.stepX P supp s op := by
  cases op with
  | removedir k r =>
    simp only [StoreOps.step, StoreOps.apply, mountOps, Mt.stepX, Mt.removedir]
    cases hx : Mt.removedirFull P supp s k r with
    | mk s1 e =>
      cases e with
      | none => exact Or.inr rfl
      | some e => exact Or.inl rfl
  | store k dt m => exact Or.inr rfl
  | storeMeta k m => exact Or.inr rfl
  | remove k => exact Or.inr rfl
  | makedir k => exact Or.inr rfl

theorem step_inv {τ : Type} (P : StoreOps τ) (supp : τ → Key → Bool) (Pr : MtState τ → Prop)
    (hk : KeptByWrites P supp Pr) (s : MtState τ) (op : StoreOp) (hs : Pr s) : Pr ((mountOps P supp).step s op) := by
  rcases step_eq_or P supp s op with h | h
  · rw [h]; exact hs
  · rw [h]; exact stepX_inv P supp Pr hk s op hs

theorem runX_inv {τ : Type} (P : StoreOps τ) (supp : τ → Key → Bool) (Pr : MtState τ → Prop)
    (hk : KeptByWrites P supp Pr) (s : MtState τ) (h : List StoreOp) (hs : Pr s) : Pr (Mt.runX P supp s h) := by
  unfold Mt.runX
  exact foldl_inv Pr _ h s hs (fun b a hb => stepX_inv P supp Pr hk b a hb)

theorem run_inv {τ : Type} (P : StoreOps τ) (supp : τ → Key → Bool) (Pr : MtState τ → Prop)
    (hk : KeptByWrites P supp Pr) (s : MtState τ) (h : List StoreOp) (hs : Pr s) : Pr ((mountOps P supp).run s h) := by
  unfold StoreOps.run
  exact foldl_inv Pr _ h s hs (fun b a hb => step_inv P supp Pr hk b a hb)

/-! ### the two invariants: the default component, and the shape of the table -/

theorem writeAt_fst {τ : Type} (P : StoreOps τ) (s s' : MtState τ) (r : Route) (f : StoreOps τ → τ → Except StoreErr τ)
    (hf : ∀ d d', s.1 = some d → f P d = .ok d' → d' = d) (h : Mt.writeAt P s r f = .ok s') : s'.1 = s.1 := by
  cases r with
  | dflt =>
    simp only [Mt.writeAt] at h
    cases hd : s.1 with
    | none => rw [hd] at h; cases h
    | some d =>
      simp only [hd] at h
      cases hfd : f P d with
      | error e => rw [hfd] at h; cases h
      | ok d' =>
        rw [hfd] at h
        have := hf d d' hd hfd
        subst this
        cases h
        rfl
  | part i =>
    simp only [Mt.writeAt] at h
    cases hi : s.2[i]? with
    | none => rw [hi] at h; cases h
    | some e =>
      obtain ⟨p, st⟩ := e
      rw [hi] at h
      cases hfd : f (prefixOps P p) st with
      | error e => simp only [hfd] at h; cases h
      | ok st' =>
        simp only [hfd] at h
        cases h
        rfl

/-- `tag` of every mounted part and every prefix stay when the mutator keeps the tag of the part it is applied to -/
theorem writeAt_shape {τ β : Type} (P : StoreOps τ) (tag : τ → β) (s s' : MtState τ) (r : Route)
    (f : StoreOps τ → τ → Except StoreErr τ)
    (hf : ∀ p st st', f (prefixOps P p) st = .ok st' → tag st' = tag st) (h : Mt.writeAt P s r f = .ok s') :
    s'.2.map (fun e => (e.1, tag e.2)) = s.2.map (fun e => (e.1, tag e.2)) := by
  cases r with
  | dflt =>
    simp only [Mt.writeAt] at h
    cases hd : s.1 with
    | none => rw [hd] at h; cases h
    | some d =>
      simp only [hd] at h
      cases hfd : f P d with
      | error e => rw [hfd] at h; cases h
      | ok d' => rw [hfd] at h; cases h; rfl
  | part i =>
    simp only [Mt.writeAt] at h
    cases hi : s.2[i]? with
    | none => rw [hi] at h; cases h
    | some e =>
      obtain ⟨p, st⟩ := e
      rw [hi] at h
      cases hfd : f (prefixOps P p) st with
      | error e => simp only [hfd] at h; cases h
      | ok st' =>
        simp only [hfd] at h
        cases h
        have ht := hf p st st' hfd
        apply List.ext_getElem?
        intro j
        simp only [List.getElem?_map, List.getElem?_set]
        by_cases hj : i = j
        · subst hj
          have hlt : i < s.2.length := by
            rcases Nat.lt_or_ge i s.2.length with h | h
            · exact h
            · rw [List.getElem?_eq_none h] at hi; cases hi
          have hge : s.2[i] = (p, st) := by
            rw [List.getElem?_eq_getElem hlt] at hi
            exact Option.some.inj hi
          simp [hlt, hge, ht]
        · simp [hj]

/-- the default store refuses every mutator (or answers with its own state) -/
def Frozen {τ : Type} (P : StoreOps τ) (d : τ) : Prop := ∀ op d', P.apply d op = .ok d' → d' = d

theorem frozen_ro (S : StoreOps σ) (x : σ) : Frozen (partOps S) (.ro x) := by
  intro op d' h
  rw [part_apply_ro] at h
  cases h

theorem kept_fst {τ : Type} (P : StoreOps τ) (supp : τ → Key → Bool) (d : τ) (hfz : Frozen P d) :
    KeptByWrites P supp (fun s => s.1 = some d) := by
  intro s s' op hs h
  unfold Mt.routedWrite at h
  cases hr : Mt.route supp s (opKey op) with
  | error e => rw [hr] at h; cases h
  | ok r =>
    rw [hr] at h
    simp only [Except.bind] at h
    show s'.1 = some d
    rw [← hs]
    refine writeAt_fst P s s' r _ ?_ h
    intro d0 d' hd0 hd'
    rw [hs] at hd0; cases hd0
    exact hfz op d' hd'

theorem kept_shape (S : StoreOps σ) (supp : Part σ → Key → Bool) (L : List (Key × Bool)) :
    KeptByWrites (partOps S) supp (fun s => s.2.map (fun e => (e.1, e.2.isRO)) = L) := by
  intro s s' op hs h
  unfold Mt.routedWrite at h
  cases hr : Mt.route supp s (opKey op) with
  | error e => rw [hr] at h; cases h
  | ok r =>
    rw [hr] at h
    simp only [Except.bind] at h
    show s'.2.map (fun e => (e.1, e.2.isRO)) = L
    rw [← hs]
    exact writeAt_shape (partOps S) Part.isRO s s' r _ (fun p st st' hf => prefix_part_apply_tag S p st st' op hf) h

/-! ### operations routed to the read-only default (`T`: every part supports every key) -/

theorem routedWrite_ro_default (S : StoreOps σ) (s : MtState (Part σ)) (x : σ) (hs : s.1 = some (.ro x)) (k : Key)
    (hn : NoMount s.2 k) (f : StoreOps (Part σ) → Part σ → Except StoreErr (Part σ))
    (hf : f (partOps S) (.ro x) = .error .readOnly) :
    Mt.routedWrite (partOps S) T s k f = .error .readOnly := by
  unfold Mt.routedWrite
  rw [route_default s hn, hs]
  simp [Except.bind, Mt.writeAt, hs, hf, Except.map]

theorem any_eq_false_of_nomount {τ : Type} (tbl : List (Key × τ)) (k : Key) (hn : NoMount tbl k) :
    tbl.any (fun e => e.1 == k) = false := by
  rw [List.any_eq_false]
  intro e he hek
  have : e.1 = k := by simpa using hek
  exact hn e.1 e.2 he (this ▸ List.prefix_refl _)

theorem nomount_child {τ : Type} (tbl : List (Key × τ)) (k : Key) (nm : Str) (hn : NoMount tbl k) (ha : ¬ Above tbl k) :
    NoMount tbl (k ++ [nm]) ∧ ¬ Above tbl (k ++ [nm]) := by
  constructor
  · intro p st hm hp
    rcases List.prefix_concat_iff.mp hp with e | e
    · exact ha (Or.inr ⟨p, st, hm, e ▸ List.prefix_append _ _⟩)
    · exact hn p st hm e
  · rintro (e | ⟨p, st, hm, hp⟩)
    · simp at e
    · exact ha (Or.inr ⟨p, st, hm, (List.prefix_append k [nm]).trans hp⟩)

/-- a non-recursive `removedir` of a non-root key with no mount on its path is refused, nothing is touched -/
theorem removedirX_outside_nonrec (S : StoreOps σ) (s : MtState (Part σ)) (x : σ) (hs : s.1 = some (.ro x)) (k : Key)
    (hk : k ≠ []) (hn : NoMount s.2 k) (n : Nat) :
    Mt.removedirX (partOps S) T (n + 1) s k false = (s, some .readOnly) := by
  have hke : k.isEmpty = false := by simpa using hk
  have hw := routedWrite_ro_default S s x hs k hn (fun Q st => Q.removedir st k false) rfl
  simp [Mt.removedirX, hke, any_eq_false_of_nomount s.2 k hn, hw]

/-- the errors a refused recursive `removedir` can report: the read-only error, an error of the underlying store's
own `listdir` / `is_dir`, or (`other`) the model's fuel running out -/
def RefusedWith (S : StoreOps σ) (x : σ) (e : StoreErr) : Prop :=
  e = .readOnly ∨ e = .other ∨ ∃ k', S.listdir x k' = .error e ∨ S.isDir x k' = .error e

/-- the loop invariant of a refused recursive `removedir`: nothing touched, and the error (if any) is a refusal -/
def RefAcc (S : StoreOps σ) (x : σ) (s : MtState (Part σ)) (w : MtState (Part σ) × Option StoreErr) : Prop :=
  w.1 = s ∧ ∀ e, w.2 = some e → RefusedWith S x e

/-- a recursive `removedir` of a key with no mount on, at or below its path: refused, nothing is touched -/
theorem removedirX_outside_rec (S : StoreOps σ) (x : σ) (n : Nat) :
    ∀ (s : MtState (Part σ)) (k : Key), s.1 = some (.ro x) → k ≠ [] → NoMount s.2 k → ¬ Above s.2 k →
      ∃ e, Mt.removedirX (partOps S) T n s k true = (s, some e) ∧ RefusedWith S x e := by
  induction n with
  | zero => intro s k _ _ _ _; exact ⟨.other, rfl, Or.inr (Or.inl rfl)⟩
  | succ n ih =>
    intro s k hs hk hn ha
    have hke : k.isEmpty = false := by simpa using hk
    have hw := routedWrite_ro_default S s x hs k hn (fun Q st => Q.removedir st k false) rfl
    have hany := any_eq_false_of_nomount s.2 k hn
    unfold Mt.removedirX
    rw [if_neg (by simp [hke])]
    extract_lets walked
    have hwk : RefAcc S x s walked := by
      show RefAcc S x s (if true = true then _ else _)
      rw [if_pos rfl]
      split
      · rename_i e hl
        refine ⟨rfl, ?_⟩
        intro e' he'
        cases he'
        refine Or.inr (Or.inr ⟨k, Or.inl ?_⟩)
        unfold Mt.listdirL Mt.listBase at hl
        rw [route_default s hn, hs] at hl
        simp only [Option.isSome_some, ↓reduceIte, Mt.readAt, hs] at hl
        change Except.map _ (Except.map _ (S.listdir x k)) = _ at hl
        cases hx : S.listdir x k with
        | error e0 => rw [hx] at hl; cases hl; rfl
        | ok o => rw [hx] at hl; cases hl
      · apply foldl_inv (RefAcc S x s)
        · exact ⟨rfl, fun e he => by cases he⟩
        · intro acc nm hacc
          obtain ⟨hc1, hc2⟩ := nomount_child s.2 k nm hn ha
          split
          · exact hacc
          · split
            · rename_i e hd
              refine ⟨hacc.1, ?_⟩
              intro e' he'
              cases he'
              refine Or.inr (Or.inr ⟨k ++ [nm], Or.inr ?_⟩)
              rw [hacc.1] at hd
              have := mount_isDir_default (partOps S) s (k ++ [nm]) hc2 hc1
              change Mt.isDir (partOps S) T s (k ++ [nm]) = _ at this
              rw [this, hs] at hd
              exact hd
            · rw [hacc.1]
              obtain ⟨e, he1, he2⟩ := ih s (k ++ [nm]) hs (by simp) hc1 hc2
              rw [he1]
              exact ⟨rfl, fun e' he' => by cases he'; exact he2⟩
            · have hr : Mt.remove (partOps S) T acc.1 (k ++ [nm]) = .error .readOnly := by
                rw [hacc.1]
                exact routedWrite_ro_default S s x hs (k ++ [nm]) hc1 (fun Q st => Q.remove st (k ++ [nm])) rfl
              rw [hr]
              exact ⟨hacc.1, fun e' he' => by cases he'; exact Or.inl rfl⟩
    clear_value walked
    obtain ⟨w1, w2⟩ := walked
    obtain ⟨hw1, hw2⟩ := hwk
    dsimp only at hw1 hw2 ⊢
    subst hw1
    cases w2 with
    | some e => exact ⟨e, rfl, hw2 e rfl⟩
    | none =>
      refine ⟨.readOnly, ?_, Or.inl rfl⟩
      simp only [hany, Bool.false_eq_true, ↓reduceIte, hw]

/-! ### reads routed to the default store -/

/-- `get_metadata` of a key with no mount on, at or below its path: the default store's answer with the key
overwritten; "not found" falls back to the directory test -/
theorem mount_getMeta_default {τ : Type} (P : StoreOps τ) (s : MtState τ) (k : Key) (h : ¬ Above s.2 k)
    (hn : NoMount s.2 k) (d : τ) (hd : s.1 = some d) :
    (M P).getMeta s k = match P.getMeta d k with
      | .ok m => .ok { m with key := k }
      | .error e =>
        if e = .keyNotFound ∨ e = .routeNotFound then
          match P.isDir d k with
          | .error e => .error e
          | .ok true => .ok (Mt.dirMeta k)
          | .ok false => .error .keyNotFound
        else .error e := by
  show Mt.getMeta P T s k = _
  unfold Mt.getMeta
  have hi := mount_isDir_default P s k h hn
  change Mt.isDir P T s k = _ at hi
  rw [hi, hd]
  unfold Mt.routedRead
  rw [route_default s hn, hd]
  simp only [Option.isSome_some, ↓reduceIte, Except.bind, Mt.readAt, hd]
  cases hm : P.getMeta d k with
  | ok m => rfl
  | error e =>
    cases e <;> simp <;> (cases P.isDir d k with
      | error e => rfl
      | ok b => cases b <;> rfl)

end MtRO
end Liquer
