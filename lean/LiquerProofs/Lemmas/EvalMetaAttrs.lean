/-
Lemmas for C18 (attributes): the algebra of `mergeAttrs` and persistence of capitalised attributes along any
chain of predecessors of a successful evaluation.
-/
import LiquerProofs.Lemmas.EvalMeta

namespace Liquer
open C18R

/-! ### `mergeAttrs` -/

/-- `dict[k] = v` on an association list (the loop body of `mergeAttrs`) -/
def upsertAttr (acc : List (Str × Str)) (kv : Str × Str) : List (Str × Str) :=
  if acc.any (fun x => x.1 == kv.1) then acc.map (fun x => if x.1 == kv.1 then kv else x) else acc ++ [kv]

theorem mergeAttrs_eq (inherited cmd : List (Str × Str)) :
    mergeAttrs inherited cmd =
      (cmd.filter (fun kv => kv.1 != s "volatile")).foldl upsertAttr (inherited.filter (fun kv => isUpperFirst kv.1)) := rfl

theorem upsert_keys (acc : List (Str × Str)) (kv : Str × Str) (k : Str) :
    k ∈ (upsertAttr acc kv).map (·.1) ↔ k ∈ acc.map (·.1) ∨ k = kv.1 := by
  unfold upsertAttr
  split
  · next h =>
    simp only [List.any_eq_true, beq_iff_eq] at h
    obtain ⟨x, hx, hxk⟩ := h
    simp only [List.map_map, List.mem_map, Function.comp]
    constructor
    · rintro ⟨y, hy, rfl⟩
      by_cases hyk : y.1 = kv.1
      · right; simp [hyk]
      · left; exact ⟨y, hy, by simp [hyk]⟩
    · rintro (⟨y, hy, rfl⟩ | rfl)
      · by_cases hyk : y.1 = kv.1
        · exact ⟨y, hy, by simp [hyk]⟩
        · exact ⟨y, hy, by simp [hyk]⟩
      · exact ⟨x, hx, by simp [hxk]⟩
  · simp [List.mem_append]

theorem upsert_mem (acc : List (Str × Str)) (kv x : Str × Str) (h : x ∈ upsertAttr acc kv) : x ∈ acc ∨ x = kv := by
  unfold upsertAttr at h
  split at h
  · simp only [List.mem_map] at h
    obtain ⟨y, hy, rfl⟩ := h
    by_cases hyk : y.1 = kv.1
    · right; simp [hyk]
    · left; simpa [hyk] using hy
  · simpa [List.mem_append] using h

theorem upsert_keeps (acc : List (Str × Str)) (kv x : Str × Str) (hx : x ∈ acc) (hne : x.1 ≠ kv.1) : x ∈ upsertAttr acc kv := by
  unfold upsertAttr
  split
  · exact List.mem_map.mpr ⟨x, hx, by simp [hne]⟩
  · exact List.mem_append_left _ hx

theorem foldl_upsert_keys (cmd : List (Str × Str)) : ∀ (acc : List (Str × Str)) (k : Str),
    k ∈ (cmd.foldl upsertAttr acc).map (·.1) ↔ k ∈ acc.map (·.1) ∨ k ∈ cmd.map (·.1) := by
  induction cmd with
  | nil => intro acc k; simp
  | cons kv rest ih =>
    intro acc k
    rw [List.foldl_cons, ih, upsert_keys]
    simp only [List.map_cons, List.mem_cons]
    constructor
    · rintro ((h | h) | h)
      · exact Or.inl h
      · exact Or.inr (Or.inl h)
      · exact Or.inr (Or.inr h)
    · rintro (h | h | h)
      · exact Or.inl (Or.inl h)
      · exact Or.inl (Or.inr h)
      · exact Or.inr h

theorem foldl_upsert_mem (cmd : List (Str × Str)) : ∀ (acc : List (Str × Str)) (x : Str × Str),
    x ∈ cmd.foldl upsertAttr acc → x ∈ acc ∨ x ∈ cmd := by
  induction cmd with
  | nil => intro acc x h; exact Or.inl h
  | cons kv rest ih =>
    intro acc x h
    rw [List.foldl_cons] at h
    rcases ih _ _ h with h | h
    · rcases upsert_mem _ _ _ h with h | h
      · exact Or.inl h
      · exact Or.inr (by simp [h])
    · exact Or.inr (List.mem_cons_of_mem _ h)

theorem foldl_upsert_keeps (cmd : List (Str × Str)) : ∀ (acc : List (Str × Str)) (x : Str × Str),
    x ∈ acc → (∀ kv ∈ cmd, x.1 ≠ kv.1) → x ∈ cmd.foldl upsertAttr acc := by
  induction cmd with
  | nil => intro acc x h _; exact h
  | cons kv rest ih =>
    intro acc x h hne
    rw [List.foldl_cons]
    exact ih _ _ (upsert_keeps _ _ _ h (hne kv (by simp))) (fun kv' hkv' => hne kv' (List.mem_cons_of_mem _ hkv'))

/-- the keys after an action: the capitalised inherited ones and the command's own (except `volatile`) -/
theorem mergeAttrs_keys (inherited cmd : List (Str × Str)) (k : Str) :
    k ∈ (mergeAttrs inherited cmd).map (·.1) ↔
      (k ∈ inherited.map (·.1) ∧ isUpperFirst k = true) ∨ (k ∈ cmd.map (·.1) ∧ k ≠ s "volatile") := by
  rw [mergeAttrs_eq, foldl_upsert_keys]
  simp only [List.mem_map, List.mem_filter, bne_iff_ne, ne_eq]
  constructor
  · rintro (⟨x, ⟨hx, hu⟩, rfl⟩ | ⟨x, ⟨hx, hv⟩, rfl⟩)
    · exact Or.inl ⟨⟨x, hx, rfl⟩, hu⟩
    · exact Or.inr ⟨⟨x, hx, rfl⟩, hv⟩
  · rintro (⟨⟨x, hx, rfl⟩, hu⟩ | ⟨⟨x, hx, rfl⟩, hv⟩)
    · exact Or.inl ⟨x, ⟨hx, hu⟩, rfl⟩
    · exact Or.inr ⟨x, ⟨hx, hv⟩, rfl⟩

/-- capitalised attribute keys persist through an action -/
theorem mergeAttrs_capital_persists (inherited cmd : List (Str × Str)) (k : Str) (hu : isUpperFirst k = true)
    (hk : k ∈ inherited.map (·.1)) : k ∈ (mergeAttrs inherited cmd).map (·.1) :=
  (mergeAttrs_keys inherited cmd k).mpr (Or.inl ⟨hk, hu⟩)

/-- … with their value, unless the command defines the same key -/
theorem mergeAttrs_capital_value (inherited cmd : List (Str × Str)) (kv : Str × Str) (hu : isUpperFirst kv.1 = true)
    (hk : kv ∈ inherited) (hno : kv.1 ∉ cmd.map (·.1)) : kv ∈ mergeAttrs inherited cmd := by
  rw [mergeAttrs_eq]
  refine foldl_upsert_keeps _ _ kv (List.mem_filter.mpr ⟨hk, hu⟩) (fun kv' hkv' heq => hno ?_)
  exact List.mem_map.mpr ⟨kv', (List.mem_filter.mp hkv').1, heq.symm⟩

/-- the non-capitalised attribute keys after an action are exactly the command's own (except `volatile`) -/
theorem mergeAttrs_lower_keys (inherited cmd : List (Str × Str)) (k : Str) (hl : isUpperFirst k = false) :
    k ∈ (mergeAttrs inherited cmd).map (·.1) ↔ (k ∈ cmd.map (·.1) ∧ k ≠ s "volatile") := by
  rw [mergeAttrs_keys]
  simp [hl]

/-- … and every non-capitalised attribute after an action is an attribute of the command -/
theorem mergeAttrs_lower_mem (inherited cmd : List (Str × Str)) (kv : Str × Str) (hl : isUpperFirst kv.1 = false)
    (h : kv ∈ mergeAttrs inherited cmd) : kv ∈ cmd := by
  rw [mergeAttrs_eq] at h
  rcases foldl_upsert_mem _ _ _ h with h | h
  · have := (List.mem_filter.mp h).2
    simp [hl] at this
  · exact (List.mem_filter.mp h).1

/-! ### along the chain of predecessors -/

/-- a successful result comes from a successful predecessor and its last step -/
theorem metaAfter_ok (env : Env) (n : Nat) (o : Outcome) (m0 : MetaRec) (parent : Str) (r : Option Seg) (key raw : Str)
    (extra : Extra) (e : EState) (m : MetaRec) (h : metaAfter env n o m0 parent r key raw extra = (.st e, m))
    (he : e.isError = false) :
    ∃ e0, o = .st e0 ∧ e0.isError = false ∧ metaPost env n e0 m0 parent r key raw extra = (.st e, m) := by
  unfold metaAfter at h
  cases o with
  | st st =>
    simp only at h
    split at h
    · next hse =>
      simp only [Prod.mk.injEq, Outcome.st.injEq] at h
      obtain ⟨rfl, _⟩ := h
      simp [hse] at he
    · next hse => exact ⟨st, rfl, by simpa using hse, h⟩
  | _ => simp at h

/-- the attributes after the last step: unchanged (no action), or merged with the attributes of the resolved command -/
theorem metaPost_attrs (env : Env) (n : Nat) (st : EState) (m : MetaRec) (parent : Str) (r : Option Seg) (key raw : Str)
    (extra : Extra) (e : EState) (m' : MetaRec) (h : metaPost env n st m parent r key raw extra = (.st e, m')) :
    m'.attrs = m.attrs ∨ ∃ hd a, r = some (.transform hd [a] none) ∧
      m'.attrs = mergeAttrs m.attrs (cmdAttrsOf (actionInfo env n st a raw parent extra)) := by
  rcases metaPost_cases env n st m parent r key raw extra e m' h with ⟨_, _, rfl⟩ | ⟨_, f, _, _, rfl⟩ | ⟨hd, a, e2, hr, _, _, rfl⟩
  · exact Or.inl rfl
  · exact Or.inl rfl
  · exact Or.inr ⟨hd, a, hr, rfl⟩

theorem metaPost_capital_persists (env : Env) (n : Nat) (st : EState) (m : MetaRec) (parent : Str) (r : Option Seg)
    (key raw : Str) (extra : Extra) (e : EState) (m' : MetaRec) (h : metaPost env n st m parent r key raw extra = (.st e, m'))
    (k : Str) (hu : isUpperFirst k = true) (hk : k ∈ m.attrs.map (·.1)) : k ∈ m'.attrs.map (·.1) := by
  rcases metaPost_attrs env n st m parent r key raw extra e m' h with h | ⟨_, _, _, h⟩
  · rw [h]; exact hk
  · rw [h]; exact mergeAttrs_capital_persists _ _ k hu hk

/-- one level: the successful evaluation of `q` with predecessor `p` -/
theorem metaQ_step_ok (env : Env) (n : Nat) (p q : Query) (r : Option Seg) (raw : Str) (extra : Extra) (input : Option Val)
    (hp : q.predecessor = some (p, r)) (hpe : p.segments.isEmpty = false) (e : EState) (m : MetaRec)
    (h : metaQ env (n+1) q raw extra input = (.st e, m)) (he : e.isError = false) :
    ∃ e0 m0, metaQ env n p (p.encode Gen.escapeTable) .none input = (.st e0, m0) ∧ e0.isError = false ∧
      metaPost env n e0 m0 (p.encode Gen.escapeTable) r (q.encode Gen.escapeTable) raw extra = (.st e, m) := by
  rcases metaQ_cases env n q raw extra input e m h with ⟨r', hc, _⟩ | ⟨p', r', hp', _, h⟩
  · rcases hc with ⟨hn, _⟩ | ⟨p', hp', hpe'⟩
    · rw [hp] at hn; cases hn
    · rw [hp] at hp'; cases hp'; rw [hpe] at hpe'; cases hpe'
  · rw [hp] at hp'; cases hp'
    obtain ⟨e0, ho, he0, hpost⟩ := metaAfter_ok env n _ _ _ _ _ _ _ e m h he
    exact ⟨e0, _, Prod.ext ho rfl, he0, hpost⟩

/-- capitalised attribute keys present after any earlier step of a successful evaluation are present at the end -/
theorem attrs_persist_chain (env : Env) (input : Option Val) {p q : Query} {k : Nat} (hch : Chain p q k) :
    ∀ (n : Nat) (raw : Str) (extra : Extra) (e : EState) (m : MetaRec),
      metaQ env (n+k) q raw extra input = (.st e, m) → e.isError = false →
      ∃ e0 m0, metaQ env n p (p.encode Gen.escapeTable) .none input = (.st e0, m0) ∧ e0.isError = false ∧
        ∀ key, isUpperFirst key = true → key ∈ m0.attrs.map (·.1) → key ∈ m.attrs.map (·.1) := by
  induction hch with
  | one q r hp hpe =>
    intro n raw extra e m h he
    obtain ⟨e0, m0, h0, he0, hpost⟩ := metaQ_step_ok env n p q r raw extra input hp hpe e m h he
    exact ⟨e0, m0, h0, he0, fun key hu hk => metaPost_capital_persists env n e0 m0 _ r _ raw extra e m hpost key hu hk⟩
  | step q' q r k _ hq hqe ih =>
    intro n raw extra e m h he
    obtain ⟨e1, m1, h1, he1, hpost⟩ := metaQ_step_ok env (n+k) q' q r raw extra input hq hqe e m h he
    obtain ⟨e0, m0, h0, he0, hall⟩ := ih n _ .none e1 m1 h1 he1
    exact ⟨e0, m0, h0, he0, fun key hu hk =>
      metaPost_capital_persists env (n+k) e1 m1 _ r _ raw extra e m hpost key hu (hall key hu hk)⟩

end Liquer
