/-
The "never stored" half of C05: an evaluation that runs on `NoCache` (`useCache = false`: injected input
value, `evaluate_on`) of a link-free, `sub`-free query never adds data to the global cache — no entry gains a
state, visible or hidden.  (Links and `sub` evaluate other queries through the global cache with
`useCache = true`; what they add is covered by `Sound`.)
-/
import LiquerProofs.Lemmas.EvalStep

namespace Liquer

/-- no entry gains data -/
def Keeps (w w' : World) : Prop := ∀ k s, w'.dataAt k = some s → w.dataAt k = some s

theorem Keeps.refl (w : World) : Keeps w w := fun _ _ h => h
theorem Keeps.trans {a b c : World} (h1 : Keeps a b) (h2 : Keeps b c) : Keeps a c := fun k s h => h1 k s (h2 k s h)
theorem Keeps.storeMeta (w : World) (k st : Str) : Keeps w (w.storeMeta k st) := fun _ _ h => World.dataAt_storeMeta h
theorem Keeps.log (w : World) (c : Str) : Keeps w (w.log c) := fun _ _ h => h
theorem Keeps.logCall (w : World) (st sig args) : Keeps w (w.logCall st sig args) := by
  unfold World.logCall; split
  · exact Keeps.refl w
  · exact Keeps.log w _

/-- what is retrievable afterwards was retrievable as data before -/
theorem Keeps.get {w w' : World} (h : Keeps w w') {k : Str} {s : EState} (hg : w'.get k = some s) :
    w.dataAt k = some s := h k s (World.dataAt_of_get hg)

/-! ### only `sub` sub-evaluates -/

theorem ite_eq_cases {α : Type} {c : Prop} [Decidable c] {a b v : α} (h : (if c then a else b) = v) :
    (c ∧ a = v) ∨ (¬c ∧ b = v) := by
  by_cases hc : c
  · rw [if_pos hc] at h; exact Or.inl ⟨hc, h⟩
  · rw [if_neg hc] at h; exact Or.inr ⟨hc, h⟩

theorem cmdSem_subeval_name {ns name : Str} {input : Val} {vars : Vars} {args : List Val} {x : Val} {qt : Str}
    (h : cmdSem ns name input vars args = .subeval x qt) : name = s "sub" := by
  unfold cmdSem at h
  repeat (
    rcases ite_eq_cases h with ⟨hc, h⟩ | ⟨_, h⟩
    · first
      | ((repeat' split at h) <;> cases h; done)
      | (simp only [Bool.and_eq_true, beq_iff_eq] at hc; exact hc.2))
  cases h

theorem resolve_name {reg : Registry} {nss : List Str} {name : Str} {sig : CmdSig}
    (h : resolve reg nss name = some sig) : sig.name = name := by
  unfold resolve at h
  obtain ⟨ns, _, hns⟩ := List.exists_of_findSome?_eq_some h
  split at hns
  · unfold Registry.find at hns
    have := List.find?_some hns
    simp only [Bool.and_eq_true, beq_iff_eq] at this
    exact this.2
  · simp at hns

/-! ### plain queries stay plain along the chain of predecessors -/

theorem Query.plain_pred {q p : Query} {r : Option Seg} (hq : q.plain = true) (hp : q.predecessor = some (p, r)) :
    p.plain = true ∧ ∀ h a, r = some (.transform h [a] none) → a.plain = true := by
  rcases q with ⟨segs, ab⟩
  simp only [Query.plain, Query.segments, List.all_eq_true] at hq
  simp only [Query.predecessor] at hp
  split at hp
  · next hd as f front hrev =>
    have hsegs : segs = front.reverse ++ [.transform hd as (some f)] := List.reverse_eq_cons_iff.mp hrev
    have hfront : ∀ x ∈ front.reverse, x.plain = true := fun x hx => hq x (by rw [hsegs]; simp [List.mem_reverse.mp hx])
    have hlast : (Seg.transform hd as (some f)).plain = true := hq _ (by rw [hsegs]; simp)
    split at hp
    · simp only [Option.some.injEq, Prod.mk.injEq] at hp
      obtain ⟨rfl, rfl⟩ := hp
      refine ⟨by simpa [Query.plain, Query.segments, List.all_eq_true] using hfront, ?_⟩
      intro h a he; simp at he
    · simp only [Option.some.injEq, Prod.mk.injEq] at hp
      obtain ⟨rfl, rfl⟩ := hp
      refine ⟨?_, ?_⟩
      · simp only [Query.plain, Query.segments, List.all_append, Bool.and_eq_true, List.all_eq_true]
        exact ⟨hfront, by simpa [Seg.plain] using hlast⟩
      · intro h a he; simp at he
  · next hd as front hrev =>
    have hsegs : segs = front.reverse ++ [.transform hd as none] := List.reverse_eq_cons_iff.mp hrev
    have hfront : ∀ x ∈ front.reverse, x.plain = true := fun x hx => hq x (by rw [hsegs]; simp [List.mem_reverse.mp hx])
    have hlast : (Seg.transform hd as none).plain = true := hq _ (by rw [hsegs]; simp)
    simp only [Seg.plain, List.all_eq_true] at hlast
    split at hp
    · next last init has =>
      have has' : as = init.reverse ++ [last] := List.reverse_eq_cons_iff.mp has
      have hinit : ∀ x ∈ init.reverse, x.plain = true := fun x hx => hlast x (by rw [has']; simp [List.mem_reverse.mp hx])
      have hl : last.plain = true := hlast last (by rw [has']; simp)
      split at hp
      · simp only [Option.some.injEq, Prod.mk.injEq] at hp
        obtain ⟨rfl, rfl⟩ := hp
        refine ⟨by simpa [Query.plain, Query.segments, List.all_eq_true] using hfront, ?_⟩
        intro h a he
        simp only [Option.some.injEq, Seg.transform.injEq, List.cons.injEq, and_true] at he
        rw [← he.2]; exact hl
      · simp only [Option.some.injEq, Prod.mk.injEq] at hp
        obtain ⟨rfl, rfl⟩ := hp
        refine ⟨?_, ?_⟩
        · simp only [Query.plain, Query.segments, List.all_append, Bool.and_eq_true, List.all_eq_true]
          refine ⟨hfront, ?_⟩
          intro x hx
          simp only [List.mem_singleton] at hx
          subst hx
          simpa [Seg.plain] using hinit
        · intro h a he
          simp only [Option.some.injEq, Seg.transform.injEq, List.cons.injEq, and_true] at he
          rw [← he.2]; exact hl
    · simp only [Option.some.injEq, Prod.mk.injEq] at hp
      obtain ⟨rfl, rfl⟩ := hp
      refine ⟨by simpa [Query.plain, Query.segments, List.all_eq_true] using hfront, ?_⟩
      intro h a he; simp at he
  · simp at hp

/-! ### the evaluation of a plain query on `NoCache` keeps the global cache -/

theorem evalParams_plain (env : Env) : ∀ n (w : World) (ps : List Param) (raw parent : Str),
    ps.all Param.isStr = true → (evalParams env n w ps raw parent).1 = w
  | 0, w, ps, raw, parent, _ => by rw [evalParams_zero]
  | n + 1, w, [], raw, parent, _ => by rw [evalParams_nil]
  | n + 1, w, .str t pos :: ps, raw, parent, h => by
    rw [evalParams_str]
    have ih := evalParams_plain env n w ps raw parent (by simpa [Param.isStr] using h)
    generalize evalParams env n w ps raw parent = x at ih ⊢
    rcases x with ⟨w1, r⟩
    cases r <;> exact ih
  | n + 1, w, .link lq pos :: ps, raw, parent, h => by simp [Param.isStr] at h

theorem call_keeps (env : Env) (n : Nat) (w1 : World) (st act raw sig x)
    (hns : sig.name ≠ s "sub") : Keeps w1 (evalCall env n w1 st act raw sig x).1 := by
  unfold evalCall
  split
  · exact Keeps.refl _
  · exact Keeps.storeMeta _ _ _
  · split
    · exact Keeps.logCall _ _ _ _
    · exact (Keeps.logCall _ _ _ _).trans (Keeps.storeMeta _ _ _)
    · exact (Keeps.logCall _ _ _ _).trans (Keeps.storeMeta _ _ _)
    · exact (Keeps.logCall _ _ _ _).trans (Keeps.storeMeta _ _ _)
    · exact (Keeps.logCall _ _ _ _).trans (Keeps.storeMeta _ _ _)
    · next hc => exact absurd (cmdSem_subeval_name hc) hns

theorem act_keeps (env : Env) (n : Nat) (w : World) (st : EState) (a : Action) (raw parent : Str) (extra : Extra)
    (uc : Bool) (ha : a.plain = true) : Keeps w (evalAction env n w st a raw parent extra uc).1 := by
  cases n with
  | zero => rw [evalAction_zero]; exact Keeps.refl _
  | succ n =>
    simp only [Action.plain, Bool.and_eq_true, bne_iff_ne, ne_eq] at ha
    rw [evalAction_succ]
    have h0 := Keeps.storeMeta w raw (s "evaluation")
    split
    · exact h0
    · split
      · exact h0
      · split
        · exact h0.trans (Keeps.storeMeta _ _ _)
        · next sig hr =>
          have h1 := evalParams_plain env n (w.storeMeta raw (s "evaluation")) a.params raw parent ha.2
          generalize evalParams env n (w.storeMeta raw (s "evaluation")) a.params raw parent = x at h1 ⊢
          rcases x with ⟨w1, r⟩
          simp only at h1; subst h1
          cases r with
          | inr o => exact h0
          | inl given =>
            exact h0.trans (call_keeps env n _ st a raw sig _ (by rw [resolve_name hr]; exact ha.1))

/-- C05, "never stored": with `useCache = false` the evaluation of a link-free, `sub`-free query adds no data to
the global cache, for every fuel, world, spelling, extra parameters and input value -/
theorem evalQ_plain_keeps (env : Env) : ∀ n (w : World) (q : Query) (raw : Str) (extra : Extra) (input : Option Val),
    q.plain = true → Keeps w (evalQ env n w q raw extra input false).1
  | 0, w, q, raw, extra, input, _ => by rw [evalQ_zero]; exact Keeps.refl _
  | n + 1, w, q, raw, extra, input, hq => by
    rw [evalQ_succ']
    simp only [Bool.and_false, Bool.false_eq_true, if_false]
    split
    · exact Keeps.refl _
    · have hpre : Keeps w (evalPre env n w q raw input false).1 := by
        unfold evalPre
        split
        · exact Keeps.refl _
        · next p hp =>
          obtain ⟨r, hpr, _⟩ := Query.preQ_some hp
          exact (Keeps.storeMeta _ _ _).trans
            (evalQ_plain_keeps env n _ p _ .none input (Query.plain_pred hq hpr).1)
      refine hpre.trans ?_
      unfold evalAfter
      split
      · exact Keeps.refl _
      · exact Keeps.refl _
      · exact Keeps.refl _
      · split
        · exact Keeps.storeMeta _ _ _
        · unfold evalPost
          generalize hrem : q.preRem = r
          split
          · exact Keeps.refl _
          · simp only [fileW, Bool.not_false, if_true]; exact Keeps.storeMeta _ _ _
          · next hd a =>
            obtain ⟨p0, hp0⟩ := Query.preRem_some hrem
            have ha := (Query.plain_pred hq hp0).2 hd a rfl
            have h1 := act_keeps env n (evalPre env n w q raw input false).1 ‹EState› a raw q.preParent extra false ha
            generalize evalAction env n (evalPre env n w q raw input false).1 ‹EState› a raw q.preParent extra false = y at h1 ⊢
            rcases y with ⟨w2, o2⟩
            cases o2 with
            | st st2 => simp only [admitW, Bool.not_false, if_true]; exact h1
            | _ => exact h1
          · exact Keeps.refl _

end Liquer
