/-
The "never stored" half of C05: an evaluation that runs on `NoCache` (`useCache = false`: injected input
value, `evaluate_on`) of a link-free, `sub`-free query never adds data to the global cache — no entry gains a
state, visible or hidden.  (Links and `sub` evaluate other queries through the global cache with
`useCache = true`; what they add is covered by `Sound`.)
-/
import LiquerProofs.Lemmas.EvalStep

namespace Liquer

/-- no entry gains data -/
def Keeps (w w' : World) : Prop := ∀ k s, w'.dataAt k = some s → w.dataAt k = some s

theorem Keeps.refl (w : World) : Keeps w w := fun _ _ h => h
theorem Keeps.trans {a b c : World} (h1 : Keeps a b) (h2 : Keeps b c) : Keeps a c := fun k s h => h1 k s (h2 k s h)
theorem Keeps.storeMeta (w : World) (k st : Str) : Keeps w (w.storeMeta k st) := fun _ _ h => World.dataAt_storeMeta h
theorem Keeps.log (w : World) (c : Str) : Keeps w (w.log c) := fun _ _ h => h
theorem Keeps.logCall (w : World) (st sig args) : Keeps w (w.logCall st sig args) := by
  unfold World.logCall; split
  · exact Keeps.refl w
  · exact Keeps.log w _

/-- what is retrievable afterwards was retrievable as data before -/
theorem Keeps.get {w w' : World} (h : Keeps w w') {k : Str} {s : EState} (hg : w'.get k = some s) :
    w.dataAt k = some s := h k s (World.dataAt_of_get hg)

/-! ### only `sub` sub-evaluates -/

theorem ite_eq_cases {α : Type} {c : Prop} [Decidable c] {a b v : α} (h : (if c then a else b) = v) :
    (c ∧ a = v) ∨ (¬c ∧ b = v) := by
  by_cases hc : c
  · rw [if_pos hc] at h; exact Or.inl ⟨hc, h⟩
  · rw [if_neg hc] at h; exact Or.inr ⟨hc, h⟩

theorem cmdSem_subeval_name {ns name : Str} {input : Val} {vars : Vars} {args : List Val} {x : Val} {qt : Str}
    (h : cmdSem ns name input vars args = .subeval x qt) : name = s "sub" := by
  unfold cmdSem at h
  repeat (
    rcases ite_eq_cases h with ⟨hc, h⟩ | ⟨_, h⟩
    · first
      | ((repeat' split at h) <;> cases h; done)
      | (simp only [Bool.and_eq_true, beq_iff_eq] at hc; exact hc.2))
  cases h

theorem resolve_name {reg : Registry} {nss : List Str} {name : Str} {sig : CmdSig}
    (h : resolve reg nss name = some sig) : sig.name = name := by
  unfold resolve at h
  obtain ⟨ns, _, hns⟩ := List.exists_of_findSome?_eq_some h
  split at hns
  · unfold Registry.find at hns
    have := List.find?_some hns
    simp only [Bool.and_eq_true, beq_iff_eq] at this
    exact this.2
  · simp at hns

/-! ### plain queries stay plain along the chain of predecessors -/

theorem Query.plain_pred {q p : Query} {r : Option Seg} (hq : q.plain = true) (hp : q.predecessor = some (p, r)) :
    p.plain = true ∧ ∀ h a, r = some (.transform h [a] none) → a.plain = true := by
  rcases q with ⟨segs, ab⟩
  simp only [Query.plain, Query.segments, List.all_eq_true] at hq
  simp only [Query.predecessor] at hp
  split at hp
  · next hd as f front hrev =>
    have hsegs : segs = front.reverse ++ [.transform hd as (some f)] := List.reverse_eq_cons_iff.mp hrev
    have hfront : ∀ x ∈ front.reverse, x.plain = true := fun x hx => hq x (by rw [hsegs]; simp [List.mem_reverse.mp hx])
    have hlast : (Seg.transform hd as (some f)).plain = true := hq _ (by rw [hsegs]; simp)
    split at hp
    · simp only [Option.some.injEq, Prod.mk.injEq] at hp
      obtain ⟨rfl, rfl⟩ := hp
      refine ⟨by simpa [Query.plain, Query.segments, List.all_eq_true] using hfront, ?_⟩
      intro h a he; simp at he
    · simp only [Option.some.injEq, Prod.mk.injEq] at hp
      obtain ⟨rfl, rfl⟩ := hp
      refine ⟨?_, ?_⟩
      · simp only [Query.plain, Query.segments, List.all_append, Bool.and_eq_true, List.all_eq_true]
        exact ⟨hfront, by simpa [Seg.plain] using hlast⟩
      · intro h a he; simp at he
  · next hd as front hrev =>
    have hsegs : segs = front.reverse ++ [.transform hd as none] := List.reverse_eq_cons_iff.mp hrev
    have hfront : ∀ x ∈ front.reverse, x.plain = true := fun x hx => hq x (by rw [hsegs]; simp [List.mem_reverse.mp hx])
    have hlast : (Seg.transform hd as none).plain = true := hq _ (by rw [hsegs]; simp)
    simp only [Seg.plain, List.all_eq_true] at hlast
    split at hp
    · next last init has =>
      have has' : as = init.reverse ++ [last] := List.reverse_eq_cons_iff.mp has
      have hinit : ∀ x ∈ init.reverse, x.plain = true := fun x hx => hlast x (by rw [has']; simp [List.mem_reverse.mp hx])
      have hl : last.plain = true := hlast last (by rw [has']; simp)
      split at hp
      · simp only [Option.some.injEq, Prod.mk.injEq] at hp
        obtain ⟨rfl, rfl⟩ := hp
        refine ⟨by simpa [Query.plain, Query.segments, List.all_eq_true] using hfront, ?_⟩
        intro h a he
        simp only [Option.some.injEq, Seg.transform.injEq, List.cons.injEq, and_true] at he
        rw [← he.2]; exact hl
      · simp only [Option.some.injEq, Prod.mk.injEq] at hp
        obtain ⟨rfl, rfl⟩ := hp
        refine ⟨?_, ?_⟩
        · simp only [Query.plain, Query.segments, List.all_append, Bool.and_eq_true, List.all_eq_true]
          refine ⟨hfront, ?_⟩
          intro x hx
          simp only [List.mem_singleton] at hx
          subst hx
          simpa [Seg.plain] using hinit
        · intro h a he
          simp only [Option.some.injEq, Seg.transform.injEq, List.cons.injEq, and_true] at he
          rw [← he.2]; exact hl
    · simp only [Option.some.injEq, Prod.mk.injEq] at hp
      obtain ⟨rfl, rfl⟩ := hp
      refine ⟨by simpa [Query.plain, Query.segments, List.all_eq_true] using hfront, ?_⟩
      intro h a he; simp at he
  · simp at hp

/-! ### the evaluation of a plain query on `NoCache` leaves the global cache literally unchanged -/

/-- the world with some calls appended to the log, everything else as it was -/
def World.logs (w : World) (c : List Str) : World := { w with calls := w.calls ++ c }

@[simp] theorem World.logs_nil (w : World) : w.logs [] = w := by cases w; simp [World.logs]
@[simp] theorem World.logs_logs (w : World) (a b : List Str) : (w.logs a).logs b = w.logs (a ++ b) := by
  simp [World.logs, List.append_assoc]
@[simp] theorem World.cache_logs (w : World) (c : List Str) : (w.logs c).cache = w.cache := rfl
@[simp] theorem World.calls_logs (w : World) (c : List Str) : (w.logs c).calls = w.calls ++ c := rfl
@[simp] theorem World.dataAt_logs (w : World) (c k) : (w.logs c).dataAt k = w.dataAt k := rfl
@[simp] theorem World.get_logs (w : World) (c k) : (w.logs c).get k = w.get k := rfl

theorem World.logCall_eq_logs (w : World) (st sig args) : w.logCall st sig args = w.logs (callOf st sig args) := by
  unfold World.logCall callOf; split
  · simp
  · rfl

/-- plain parameters: no world traffic, no calls, same conversion -/
theorem evalParams_plain_exact (env : Env) : ∀ n (w : World) (ps : List Param) (raw parent : Str),
    ps.all Param.isStr = true →
      evalParams env n w ps raw parent = (w, (refParams env n ps raw parent).1) ∧ (refParams env n ps raw parent).2 = []
  | 0, w, ps, raw, parent, _ => by rw [evalParams_zero, refParams_zero]; exact ⟨rfl, rfl⟩
  | n + 1, w, [], raw, parent, _ => by rw [evalParams_nil, refParams_nil]; exact ⟨rfl, rfl⟩
  | n + 1, w, .str t pos :: ps, raw, parent, h => by
    rw [evalParams_str, refParams_str]
    obtain ⟨h1, h2⟩ := evalParams_plain_exact env n w ps raw parent (by simpa [Param.isStr] using h)
    rw [h1]
    generalize refParams env n ps raw parent = x at h2 ⊢
    rcases x with ⟨r, c⟩
    simp only at h2; subst h2
    cases r <;> exact ⟨rfl, rfl⟩
  | n + 1, w, .link lq pos :: ps, raw, parent, h => by simp [Param.isStr] at h

theorem call_plain_nocache (env : Env) (n : Nat) (w1 : World) (st act raw sig x) (hns : sig.name ≠ s "sub") :
    evalCall env n w1 st act raw sig x false =
      (w1.logs (refCall env n st act raw sig x).2, (refCall env n st act raw sig x).1) := by
  unfold evalCall refCall
  split
  · simp
  · simp
  · split
    all_goals try simp [World.logCall_eq_logs]
    next hc => exact absurd (cmdSem_subeval_name hc) hns

/-- a link-free, `sub`-free action on `NoCache`: the reference outcome, the reference calls, nothing else -/
theorem act_plain_nocache (env : Env) (n : Nat) (w : World) (st : EState) (a : Action) (raw parent : Str)
    (extra : Extra) (ha : a.plain = true) :
    evalAction env n w st a raw parent extra false =
      (w.logs (refAction env n st a raw parent extra).2, (refAction env n st a raw parent extra).1) := by
  cases n with
  | zero => rw [evalAction_zero, refAction_zero]; simp
  | succ n =>
    simp only [Action.plain, Bool.and_eq_true, bne_iff_ne, ne_eq] at ha
    rw [evalAction_succ, refAction_succ]
    simp only [World.metaIf_false]
    split
    · simp
    · split
      · simp
      · split
        · simp
        · next sig hr =>
          obtain ⟨h1, h2⟩ := evalParams_plain_exact env n w a.params raw parent ha.2
          rw [h1]
          generalize refParams env n a.params raw parent = x at h2 ⊢
          rcases x with ⟨r, c⟩
          simp only at h2; subst h2
          cases r with
          | inr o => simp
          | inl g =>
            simp only [List.nil_append]
            exact call_plain_nocache env n w st a raw sig _ (by rw [resolve_name hr]; exact ha.1)

theorem after_plain_nocache (env : Env) (n : Nat) (w1 : World) (o : Outcome) (parent : Str) (r : Option Seg)
    (key raw : Str) (extra : Extra) (hr : ∀ h a, r = some (.transform h [a] none) → a.plain = true) :
    evalAfter env n w1 o parent r key raw extra false =
      (w1.logs (refAfter env n o parent r key raw extra).2, (refAfter env n o parent r key raw extra).1) := by
  unfold evalAfter refAfter
  split
  · simp
  · simp
  · simp
  · split
    · simp
    · unfold evalPost refPost
      split
      · simp
      · simp [fileW]
      · next hd a =>
        rw [act_plain_nocache env n w1 _ a raw parent extra (hr hd a rfl)]
        simp only
        cases (refAction env n ‹EState› a raw parent extra).1 <;> simp [admitW]
      · simp

/-- C05/C01, `nocache_chain_frame`: with `useCache = false` (injected input value, `evaluate_on`) the evaluation
of a link-free, `sub`-free query is exactly the reference interpretation — same outcome, same calls, same
fuel — and the global cache is literally unchanged: not even progress metadata is written. -/
theorem evalQ_plain_nocache (env : Env) : ∀ n (w : World) (q : Query) (raw : Str) (extra : Extra) (input : Option Val),
    q.plain = true →
      evalQ env n w q raw extra input false =
        (w.logs (refQ env n q raw extra input).2, (refQ env n q raw extra input).1)
  | 0, w, q, raw, extra, input, _ => by rw [evalQ_zero, refQ_zero]; simp
  | n + 1, w, q, raw, extra, input, hq => by
    rw [evalQ_succ', refQ_succ']
    simp only [Bool.and_false, Bool.false_eq_true, if_false]
    split
    · simp
    · have hpre : evalPre env n w q raw input false = (w.logs (refPre env n q input).2, (refPre env n q input).1) := by
        unfold evalPre refPre
        split
        · simp
        · next p hp =>
          obtain ⟨r, hpr, _⟩ := Query.preQ_some hp
          simp only [World.metaIf_false]
          exact evalQ_plain_nocache env n w p _ .none input (Query.plain_pred hq hpr).1
      have hrem : ∀ h a, q.preRem = some (.transform h [a] none) → a.plain = true := by
        intro h a hr
        obtain ⟨p0, hp0⟩ := Query.preRem_some hr
        exact (Query.plain_pred hq hp0).2 h a rfl
      rw [hpre]
      simp only
      rw [after_plain_nocache env n _ _ _ _ _ _ _ hrem]
      simp

/-- hence no entry gains data -/
theorem evalQ_plain_keeps (env : Env) (n : Nat) (w : World) (q : Query) (raw : Str) (extra : Extra)
    (input : Option Val) (hq : q.plain = true) : Keeps w (evalQ env n w q raw extra input false).1 := by
  rw [evalQ_plain_nocache env n w q raw extra input hq]
  exact fun k s h => h

end Liquer
