/-
One-level facts about the cache traffic of `evalQ`: a hit returns the entry and touches nothing; after a
cacheable evaluation the key is present; a failed / volatile / cache-disabled last step leaves no data under the key.
-/
import LiquerProofs.Lemmas.EvalFrame

namespace Liquer

theorem evalQ_hit (env : Env) (n : Nat) (w : World) (q : Query) (raw : Str) (extra : Extra) (input : Option Val)
    (st : EState) (h : w.get (q.encode Gen.escapeTable) = some st) (he : extra.isEmpty = true) (hi : input = none) :
    evalQ env (n+1) w q raw extra input true = (w, .st st) := by
  subst hi
  rw [evalQ_succ']
  simp [h, he]

theorem Query.hasStep_preRem {q : Query} (h : q.hasStep = true) : ∃ r, q.preRem = some r ∧ q.isRes = false := by
  unfold Query.hasStep at h
  split at h
  · next p r hp => exact ⟨r, by simp [Query.preRem, hp], Query.predecessor_not_isRes hp⟩
  · simp at h

theorem evalPre_enabled (env : Env) (n : Nat) (w : World) (q raw input uc) :
    (evalPre env n w q raw input uc).1.enabled = w.enabled := by
  unfold evalPre
  split
  · rfl
  · rw [((frame env n).q _ _ _ _ _ _).1]; simp

/-- C09, "present after": a cacheable result reached through an action or a file name is in the cache afterwards
(as returned, or with status `ready` when it was just stored) -/
theorem present_after (env : Env) (n : Nat) (w w' : World) (q : Query) (raw : Str) (st : EState)
    (hen : w.enabled = true)
    (h : evalQ env (n+1) w q raw .none none true = (w', .st st))
    (hc : st.caching = true) (he : st.isError = false) (hv : st.volatile = false) (hstep : q.hasStep = true) :
    w'.get (q.encode Gen.escapeTable) = some st ∨
      w'.get (q.encode Gen.escapeTable) = some { st with status := statusReady } := by
  obtain ⟨r, hrem, hres⟩ := Query.hasStep_preRem hstep
  rw [evalQ_succ'] at h
  split at h
  · next st0 hhit =>
    simp only [Prod.mk.injEq, Outcome.st.injEq] at h
    obtain ⟨rfl, rfl⟩ := h
    left
    simpa [Extra.isEmpty] using hhit
  · simp only [hres, Bool.false_eq_true, if_false] at h
    have hen1 := evalPre_enabled env n w q raw none true
    generalize evalPre env n w q raw none true = x at h hen1
    rcases x with ⟨w1, o⟩
    simp only at h hen1
    rw [hen] at hen1
    unfold evalAfter at h
    cases o with
    | st st0 =>
      simp only at h
      rcases Bool.eq_false_or_eq_true st0.isError with hs0 | hs0
      · rw [if_pos hs0] at h
        simp only [Prod.mk.injEq, Outcome.st.injEq] at h
        obtain ⟨_, rfl⟩ := h
        simp [hs0] at he
      · rw [if_neg (by rw [hs0]; simp)] at h
        unfold evalPost at h
        rw [hrem] at h
        split at h
        · next heq => simp at heq
        · next hd f heq =>
          simp only [Prod.mk.injEq, Outcome.st.injEq] at h
          obtain ⟨rfl, rfl⟩ := h
          right
          simp only at hc hv
          simp only [fileW, Bool.not_true, Bool.false_eq_true, if_false, hc, hv, Bool.not_false, Bool.and_self, if_true]
          exact World.get_store_self _ (by simp [hen1]) _
        · next hd a heq =>
          have hen2 := ((frame env n).act w1 st0 a raw q.preParent .none true).1
          generalize evalAction env n w1 st0 a raw q.preParent .none true = y at h hen2
          rcases y with ⟨w2, o2⟩
          cases o2 with
          | st st2 =>
            simp only [Prod.mk.injEq, Outcome.st.injEq] at h
            obtain ⟨rfl, rfl⟩ := h
            right
            simp only at hc hv he hen2
            simp only [admitW, Bool.not_true, Bool.false_eq_true, if_false, hc, hv, he, Bool.not_false, Bool.and_self, if_true]
            exact World.get_store_self _ (by rw [hen2, hen1]) _
          | _ => simp at h
        · simp at h
    | _ => simp at h

/-- C09, "second run silent": immediately re-evaluating returns the cached state and changes nothing — in
particular no command is executed -/
theorem second_run_silent (env : Env) (n : Nat) (w w' : World) (q : Query) (raw : Str) (st : EState)
    (hen : w.enabled = true)
    (h : evalQ env (n+1) w q raw .none none true = (w', .st st))
    (hc : st.caching = true) (he : st.isError = false) (hv : st.volatile = false) (hstep : q.hasStep = true) :
    ∃ s, s.core = st.core ∧ w'.get (q.encode Gen.escapeTable) = some s ∧
      ∀ m raw', evalQ env (m+1) w' q raw' .none none true = (w', .st s) := by
  rcases present_after env n w w' q raw st hen h hc he hv hstep with hg | hg
  · exact ⟨st, rfl, hg, fun m raw' => evalQ_hit env m w' q raw' .none none st hg rfl rfl⟩
  · exact ⟨{ st with status := statusReady }, rfl, hg, fun m raw' => evalQ_hit env m w' q raw' .none none _ hg rfl rfl⟩

/-- C05, "not admitted": when the last step of a (non-hit) evaluation ends failed, volatile or with caching
switched off, no data is retrievable under the key afterwards.  (A failure inherited from the predecessor only
rewrites the metadata under the as-typed text; hence the side condition for error states.) -/
theorem not_admitted (env : Env) (n : Nat) (w w' : World) (q : Query) (raw : Str) (extra : Extra) (input : Option Val)
    (st : EState) (hen : w.enabled = true)
    (hmiss : extra.isEmpty = false ∨ input.isNone = false ∨ w.get (q.encode Gen.escapeTable) = none)
    (h : evalQ env (n+1) w q raw extra input true = (w', .st st))
    (hstep : q.hasStep = true)
    (hraw : st.isError = true → raw = q.encode Gen.escapeTable)
    (hbad : st.isError = true ∨ st.volatile = true ∨ st.caching = false) :
    w'.get (q.encode Gen.escapeTable) = none := by
  obtain ⟨r, hrem, hres⟩ := Query.hasStep_preRem hstep
  rw [evalQ_succ'] at h
  have hm : (if (extra.isEmpty && input.isNone && true) = true then w.get (q.encode Gen.escapeTable) else none) = none := by
    rcases hmiss with h1 | h1 | h1
    · simp [h1]
    · simp [h1]
    · simp [h1]
  rw [hm] at h
  simp only [hres, Bool.false_eq_true, if_false] at h
  have hen1 := evalPre_enabled env n w q raw input true
  generalize evalPre env n w q raw input true = x at h hen1
  rcases x with ⟨w1, o⟩
  simp only at h hen1
  rw [hen] at hen1
  unfold evalAfter at h
  cases o with
  | st st0 =>
    simp only at h
    rcases Bool.eq_false_or_eq_true st0.isError with hs0 | hs0
    · rw [if_pos hs0] at h
      simp only [Prod.mk.injEq, Outcome.st.injEq] at h
      obtain ⟨rfl, rfl⟩ := h
      rw [hraw hs0]
      exact World.get_storeMeta_self_of_ne _ hen1 _ _ (by decide)
    · rw [if_neg (by rw [hs0]; simp)] at h
      unfold evalPost at h
      rw [hrem] at h
      split at h
      · next heq => simp at heq
      · next hd f heq =>
        simp only [Prod.mk.injEq, Outcome.st.injEq] at h
        obtain ⟨rfl, rfl⟩ := h
        simp only [hs0, Bool.false_eq_true, false_or] at hbad
        have : (st0.caching && !st0.volatile) = false := by
          rcases hbad with hb | hb <;> simp [hb]
        simp only [fileW, Bool.not_true, Bool.false_eq_true, if_false, this]
        exact World.get_remove_self _ _
      · next hd a heq =>
        have hen2 := ((frame env n).act w1 st0 a raw q.preParent extra true).1
        generalize evalAction env n w1 st0 a raw q.preParent extra true = y at h hen2
        rcases y with ⟨w2, o2⟩
        cases o2 with
        | st st2 =>
          simp only [Prod.mk.injEq, Outcome.st.injEq] at h
          obtain ⟨rfl, rfl⟩ := h
          simp only at hbad hen2
          have : (st2.caching && !st2.isError && !st2.volatile) = false := by
            rcases hbad with hb | hb | hb <;> simp [hb]
          simp only [admitW, Bool.not_true, Bool.false_eq_true, if_false, this]
          split
          · exact World.get_storeMeta_self_of_ne _ (by rw [hen2, hen1]) _ _ (by decide)
          · exact World.get_remove_self _ _
        | _ => simp at h
      · simp at h
  | _ => simp at h

end Liquer

namespace Liquer

/-- C06 at the evaluator, one level: when the predecessor evaluation ends in an error state, the evaluation
returns it (data cleared, same position and query of the failure), only rewrites progress metadata, and executes
nothing — the call log is that of the predecessor evaluation -/
theorem eval_error_stops (env : Env) (n : Nat) (w w1 : World) (p q : Query) (r : Option Seg) (raw : Str)
    (extra : Extra) (input : Option Val) (uc : Bool) (e : EState)
    (hmiss : (extra.isEmpty && input.isNone && uc) = false ∨ w.get (q.encode Gen.escapeTable) = none)
    (hp : q.predecessor = some (p, r)) (hpe : p.segments.isEmpty = false)
    (h : evalQ env n (w.metaIf uc raw (s "evaluating parent")) p (p.encode Gen.escapeTable) .none input uc = (w1, .st e))
    (he : e.isError = true) :
    evalQ env (n+1) w q raw extra input uc =
      (w1.metaIf uc raw (s "error"), .st { e with data := .none, query := q.encode Gen.escapeTable }) ∧
    (w1.metaIf uc raw (s "error")).calls = w1.calls := by
  refine ⟨?_, by simp⟩
  rw [evalQ_succ]
  have hm : (if (extra.isEmpty && input.isNone && uc) = true then w.get (q.encode Gen.escapeTable) else none) = none := by
    rcases hmiss with h1 | h1
    · simp [h1]
    · simp [h1]
  rw [hm]
  simp [Query.predecessor_not_isRes hp, hp, hpe, h, evalAfter, he]

end Liquer
