/-
C09, extension of a cached prefix: after a cacheable evaluation of `p`, evaluating a one-step extension of `p`
(link-free, `sub`-free last action) hits `p` and executes exactly the reference calls of the last action.
-/
import LiquerProofs.Lemmas.EvalCache
import LiquerProofs.Lemmas.EvalPlain
import LiquerProofs.Lemmas.EvalRefine

namespace Liquer

theorem World.entry_storeMeta_other (w : World) {k k' : Str} (status : Str) (h : k' ≠ k) :
    (w.storeMeta k status).entry k' = w.entry k' := by
  cases hen : w.enabled with
  | false => unfold World.storeMeta; split <;> rw [World.put_disabled hen]
  | true => unfold World.storeMeta; split <;> (rw [World.entry_put w hen]; simp [h])

theorem World.get_storeMeta_other (w : World) {k k' : Str} (status : Str) (h : k' ≠ k) :
    (w.storeMeta k status).get k' = w.get k' := by
  unfold World.get; rw [World.entry_storeMeta_other w status h]

theorem call_plain_exact (env : Env) (n : Nat) (w1 : World) (st act raw sig x) (uc : Bool) (hns : sig.name ≠ s "sub") :
    (evalCall env n w1 st act raw sig x uc).2 = (refCall env n st act raw sig x).1 ∧
    (evalCall env n w1 st act raw sig x uc).1.calls = w1.calls ++ (refCall env n st act raw sig x).2 := by
  unfold evalCall refCall
  split
  · exact ⟨rfl, by simp⟩
  · exact ⟨rfl, by simp⟩
  · split
    · exact ⟨rfl, by simp [World.logCall, callOf]; split <;> simp⟩
    · exact ⟨rfl, by simp [World.logCall, callOf]; split <;> simp⟩
    · exact ⟨rfl, by simp [World.logCall, callOf]; split <;> simp⟩
    · exact ⟨rfl, by simp [World.logCall, callOf]; split <;> simp⟩
    · exact ⟨rfl, by simp [World.logCall, callOf]; split <;> simp⟩
    · next hc => exact absurd (cmdSem_subeval_name hc) hns

/-- a plain action behaves identically with and without a cache -/
theorem act_plain_exact (env : Env) (n : Nat) (w : World) (st : EState) (a : Action) (raw parent : Str) (extra : Extra)
    (uc : Bool) (ha : a.plain = true) :
    (evalAction env n w st a raw parent extra uc).2 = (refAction env n st a raw parent extra).1 ∧
    (evalAction env n w st a raw parent extra uc).1.calls = w.calls ++ (refAction env n st a raw parent extra).2 := by
  cases n with
  | zero => rw [evalAction_zero, refAction_zero]; exact ⟨rfl, by simp⟩
  | succ n =>
    simp only [Action.plain, Bool.and_eq_true, bne_iff_ne, ne_eq] at ha
    rw [evalAction_succ, refAction_succ]
    split
    · exact ⟨rfl, by simp⟩
    · split
      · exact ⟨rfl, by simp⟩
      · split
        · exact ⟨rfl, by simp⟩
        · next sig hr =>
          obtain ⟨h1, h2⟩ := evalParams_plain_exact env n (w.metaIf uc raw (s "evaluation")) a.params raw parent ha.2
          rw [h1]
          generalize refParams env n a.params raw parent = x at h2 ⊢
          rcases x with ⟨r, c⟩
          simp only at h2; subst h2
          cases r with
          | inr o => exact ⟨rfl, by simp⟩
          | inl g =>
            obtain ⟨g1, g2⟩ := call_plain_exact env n (w.metaIf uc raw (s "evaluation")) st a raw sig
              (applyExtra extra g) uc (by rw [resolve_name hr]; exact ha.1)
            exact ⟨g1, by simpa using g2⟩

/-- C09: the extension of a cached prefix executes the last action only -/
theorem extension_runs_last_step (env : Env) (n m : Nat) (w w' : World) (p q : Query) (h : Option Header) (a : Action)
    (raw : Str) (st : EState) (hen : w.enabled = true)
    (h1 : evalQ env (n+1) w p (p.encode Gen.escapeTable) .none none true = (w', .st st))
    (hc : st.caching = true) (he : st.isError = false) (hv : st.volatile = false) (hstep : p.hasStep = true)
    (hq : q.predecessor = some (p, some (.transform h [a] none))) (hpe : p.segments.isEmpty = false)
    (ha : a.plain = true) (hraw : raw ≠ p.encode Gen.escapeTable)
    (hmiss : w'.get (q.encode Gen.escapeTable) = none) :
    (evalQ env (m+2) w' q raw .none none true).1.calls =
      w'.calls ++ (refAction env (m+1) st a raw (p.encode Gen.escapeTable) .none).2 ∧
    Outcome.sim (evalQ env (m+2) w' q raw .none none true).2
      (match (refAction env (m+1) st a raw (p.encode Gen.escapeTable) .none).1 with
       | .st st2 => .st { st2 with query := q.encode Gen.escapeTable }
       | other => other) := by
  obtain ⟨s0, hcore, hget, _⟩ := second_run_silent env n w w' p _ st hen h1 hc he hv hstep
  have hget0 : (w'.storeMeta raw (s "evaluating parent")).get (p.encode Gen.escapeTable) = some s0 := by
    rw [World.get_storeMeta_other w' _ (Ne.symm hraw)]; exact hget
  have hhit := evalQ_hit env m (w'.storeMeta raw (s "evaluating parent")) p (p.encode Gen.escapeTable) .none none s0
    hget0 rfl rfl
  have hs0 : s0.isError = false := by rw [EState.core_isError hcore]; exact he
  rw [evalQ_succ]
  simp only [World.metaIf_true, hmiss, Extra.isEmpty, Option.isNone_none, Bool.and_self, if_true, Query.predecessor_not_isRes hq,
    Bool.false_eq_true, if_false, hq, hpe, hhit, evalAfter, hs0, evalPost]
  obtain ⟨g1, g2⟩ := act_plain_exact env (m+1) (w'.storeMeta raw (s "evaluating parent")) s0 a raw
    (p.encode Gen.escapeTable) .none true ha
  rw [refAction_core env (m+1) hcore] at g1 g2
  generalize evalAction env (m+1) (w'.storeMeta raw (s "evaluating parent")) s0 a raw (p.encode Gen.escapeTable) .none true = y at g1 g2 ⊢
  rcases y with ⟨w2, o2⟩
  simp only at g1 g2
  subst g1
  cases hr : (refAction env (m+1) st a raw (p.encode Gen.escapeTable) .none).1 with
  | st st2 => simp only [calls_admitW]; exact ⟨by simpa using g2, rfl⟩
  | raised x y => exact ⟨by simpa using g2, rfl⟩
  | parseError => exact ⟨by simpa using g2, rfl⟩
  | unmodelled => exact ⟨by simpa using g2, rfl⟩

theorem Query.preParent_of_pred {q p : Query} {r : Option Seg} (hq : q.predecessor = some (p, r))
    (hpe : p.segments.isEmpty = false) : q.preParent = p.encode Gen.escapeTable := by
  simp [Query.preParent, Query.preQ, hq, hpe]

/-- C09: the same with link arguments (and `sub`) in the new action: what is executed is a subsequence of the
reference calls of the last action (link and sub-queries may be served from the cache as well) -/
theorem extension_runs_last_step_links {env : Env} {C : Query → Prop} {T : Str → Prop} (hC : Closed env C T)
    (hcanon : ∀ q, C q → CanonOK env q) (n m : Nat) (w w' : World) (p q : Query) (h : Option Header) (a : Action)
    (raw : Str) (st : EState) (hen : w.enabled = true) (hS' : Sound env w') (hCq : C q)
    (h1 : evalQ env (n+1) w p (p.encode Gen.escapeTable) .none none true = (w', .st st))
    (hc : st.caching = true) (he : st.isError = false) (hv : st.volatile = false) (hstep : p.hasStep = true)
    (hq : q.predecessor = some (p, some (.transform h [a] none))) (hpe : p.segments.isEmpty = false)
    (hraw : raw ≠ p.encode Gen.escapeTable)
    (hmiss : w'.get (q.encode Gen.escapeTable) = none)
    (hne : (evalQ env (m+2) w' q raw .none none true).2 ≠ .unmodelled) :
    ∃ m' c', (evalQ env (m+2) w' q raw .none none true).1.calls = w'.calls ++ c' ∧
      c'.Sublist (refAction env m' st a raw (p.encode Gen.escapeTable) .none).2 := by
  obtain ⟨s0, hcore, hget, _⟩ := second_run_silent env n w w' p _ st hen h1 hc he hv hstep
  have hget0 : (w'.storeMeta raw (s "evaluating parent")).get (p.encode Gen.escapeTable) = some s0 := by
    rw [World.get_storeMeta_other w' _ (Ne.symm hraw)]; exact hget
  have hhit := evalQ_hit env m (w'.storeMeta raw (s "evaluating parent")) p (p.encode Gen.escapeTable) .none none s0
    hget0 rfl rfl
  have hs0 : s0.isError = false := by rw [EState.core_isError hcore]; exact he
  obtain ⟨hL, hSub⟩ := hC.act q p h a hCq hq
  rw [Query.preParent_of_pred hq hpe] at hL
  obtain ⟨_, hw⟩ := (refines hC hcanon (m+1)).act (w'.storeMeta raw (s "evaluating parent")) s0 a raw
    (p.encode Gen.escapeTable) .none true (hS'.storeMeta _ _) hL hSub
  rw [evalQ_succ] at hne ⊢
  simp only [World.metaIf_true, hmiss, Extra.isEmpty, Option.isNone_none, Bool.and_self, if_true, Query.predecessor_not_isRes hq,
    Bool.false_eq_true, if_false, hq, hpe, hhit, evalAfter, hs0, evalPost] at hne ⊢
  generalize evalAction env (m+1) (w'.storeMeta raw (s "evaluating parent")) s0 a raw (p.encode Gen.escapeTable) .none true = y at hw hne ⊢
  rcases y with ⟨w2, o2⟩
  have hne2 : o2 ≠ .unmodelled := by
    intro hu; subst hu; simp at hne
  obtain ⟨m', c', g1, g2, _⟩ := hw hne2
  simp only [refAction_core env m' hcore, World.calls_storeMeta] at g1 g2
  refine ⟨m', c', ?_, g2⟩
  cases o2 with
  | st st2 => simp only [calls_admitW]; exact g1
  | _ => exact g1

end Liquer
