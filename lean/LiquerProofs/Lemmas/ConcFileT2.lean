/-
C12, file-operation granularity, directory tree (2): the invariant of concurrently running `FileStore` writers of ONE path `p`
(what `StoreCache.store` / `StoreCache.store_metadata` issue on a `FileStore`).

Threads: a *store* writer (`preS p ++ coreS p n1 n2 X M`: `mkdir` of the directories above, unlink the metadata file, `mkdir` of the
hidden folder, write-close-rename the data through its own temporary, write-close-rename the ready metadata through its own
temporary) or a *progress* writer (`preM p ++ coreM p n M`: directories, write-close-rename metadata that does not say `ready`).
All store writers write the same data bytes `X`.  Unlike `FileCache.store`, `FileStore.store` does NOT unlink the old data file:
the old data stays until the first `rename` replaces it — by then the old metadata has been unlinked (each writer unlinks before
it publishes its data), so old metadata never meets new data.

* local part (`LocalST`, `LocalMT`): what the thread's own temporaries hold at each position of its core;
* global part (`GT tt dd`), with two monotone ghost flags: `tt` = "somebody has already touched the metadata file" (executed its
  `unlink` or published by `rename`), `dd` = "somebody has already published the data file":
  - `¬ tt`: node and metadata file of `p` are those of the initial tree;
  - `tt`: the metadata file is absent, or holds a progress record, or holds the ready record of a store writer **and** `dd`;
  - `dd`: the node at `p` is a file holding the complete bytes `X`.
-/
import LiquerProofs.Lemmas.ConcFileT1

namespace Liquer
namespace Crash

structure GT (p : Key) (X : Data) (t0 : Tree) (PS PN : Data → Prop) (tt dd : Prop) (t : Tree) : Prop where
  same : ¬ tt → AL.get t (.node p) = AL.get t0 (.node p) ∧ AL.get t (.mfile p) = AL.get t0 (.mfile p)
  st : tt → AL.get t (.mfile p) = none ∨ (∃ b, AL.get t (.mfile p) = some (.file b) ∧ PN b) ∨
    (∃ b, AL.get t (.mfile p) = some (.file b) ∧ PS b ∧ dd)
  dat : dd → AL.get t (.node p) = some (.file X)

theorem GT.flags {p X t0 PS PN} {tt dd tt' dd' : Prop} {t : Tree} (h : GT p X t0 PS PN tt dd t) (h1 : tt ↔ tt') (h2 : dd ↔ dd') :
    GT p X t0 PS PN tt' dd' t := by
  rw [← propext h1, ← propext h2]; exact h

/-- a step that touches neither the node nor the metadata file of `p` keeps the global part -/
theorem GT.frame {p X t0 PS PN} {tt dd : Prop} {t : Tree} (h : GT p X t0 PS PN tt dd t) (s : Step SName)
    (hn : SName.node p ∉ s.names) (hm : SName.mfile p ∉ s.names) : GT p X t0 PS PN tt dd (execT t s) := by
  refine ⟨fun ht => ?_, fun ht => ?_, fun hdd => ?_⟩
  · rw [get_execT_untouched t s _ hn, get_execT_untouched t s _ hm]; exact h.same ht
  · rw [get_execT_untouched t s _ hm]; exact h.st ht
  · rw [get_execT_untouched t s _ hn]; exact h.dat hdd

/-- positions of `coreS`: 0 unlink, 1 mkdir, 2 create, 3 write, 4 close, 5 rename (data), 6 create, 7 write, 8 close, 9 rename -/
def LocalST (n1 n2 : Key) (X M : Data) (q : Nat) (t : Tree) : Prop :=
  (q = 3 → AL.get t (.tmp n1) = some (.file [])) ∧ ((q = 4 ∨ q = 5) → AL.get t (.tmp n1) = some (.file X)) ∧
  (q = 7 → AL.get t (.tmp n2) = some (.file [])) ∧ ((q = 8 ∨ q = 9) → AL.get t (.tmp n2) = some (.file M))

def LocalMT (n : Key) (M : Data) (q : Nat) (t : Tree) : Prop :=
  (q = 1 → AL.get t (.tmp n) = some (.file [])) ∧ ((q = 2 ∨ q = 3) → AL.get t (.tmp n) = some (.file M))

theorem LocalST_frame {n1 n2 X M q t} (s : Step SName) (h1 : SName.tmp n1 ∉ s.names) (h2 : SName.tmp n2 ∉ s.names)
    (h : LocalST n1 n2 X M q t) : LocalST n1 n2 X M q (execT t s) := by
  unfold LocalST
  rw [get_execT_untouched t s _ h1, get_execT_untouched t s _ h2]; exact h

theorem LocalMT_frame {n M q t} (s : Step SName) (h1 : SName.tmp n ∉ s.names) (h : LocalMT n M q t) : LocalMT n M q (execT t s) := by
  unfold LocalMT
  rw [get_execT_untouched t s _ h1]; exact h

theorem LocalST_zero (n1 n2 : Key) (X M : Data) (t : Tree) : LocalST n1 n2 X M 0 t := by simp [LocalST]

theorem LocalMT_zero (n : Key) (M : Data) (t : Tree) : LocalMT n M 0 t := by simp [LocalMT]

/-- **one core step of a store writer** standing at position `q` of its core -/
theorem storeStepT {p : Key} {X : Data} {t0 : Tree} {PS PN : Data → Prop} (n1 n2 : Key) (M : Data) (hM : PS M)
    (q : Nat) (s : Step SName) (hs : (coreS p n1 n2 X M)[q]? = some s) (t : Tree) (tt dd : Prop)
    (hL : LocalST n1 n2 X M q t) (hG : GT p X t0 PS PN tt dd t) (ht : 1 ≤ q → tt) (hdd : 6 ≤ q → dd) :
    LocalST n1 n2 X M (q + 1) (execT t s) ∧ GT p X t0 PS PN True (dd ∨ 5 ≤ q) (execT t s) := by
  obtain ⟨l3, l45, l7, l89⟩ := hL
  -- the metadata part of the global invariant when the step leaves the metadata file alone and `tt` already holds
  have keepSt : ∀ (t' : Tree), AL.get t' (.mfile p) = AL.get t (.mfile p) → tt →
      (AL.get t' (.mfile p) = none ∨ (∃ b, AL.get t' (.mfile p) = some (.file b) ∧ PN b) ∨
        (∃ b, AL.get t' (.mfile p) = some (.file b) ∧ PS b ∧ (dd ∨ 5 ≤ q))) := by
    intro t' h' ht'
    rw [h']
    rcases hG.st ht' with h | h | ⟨b, hb, hp, hd⟩
    · exact Or.inl h
    · exact Or.inr (Or.inl h)
    · exact Or.inr (Or.inr ⟨b, hb, hp, Or.inl hd⟩)
  -- the data part when the step leaves the node alone and is not the publishing one
  have keepDat : ∀ (t' : Tree), AL.get t' (.node p) = AL.get t (.node p) → q ≠ 5 → (dd ∨ 5 ≤ q) →
      AL.get t' (.node p) = some (.file X) := by
    intro t' h' hq hd
    rw [h']
    rcases hd with hd | hd
    · exact hG.dat hd
    · exact hG.dat (hdd (by omega))
  obtain _ | _ | _ | _ | _ | _ | _ | _ | _ | _ | q := q
  · -- unlink the metadata file
    simp [coreS, writeFileTN] at hs; subst hs
    exact ⟨by simp [LocalST], fun h => absurd trivial h, fun _ => Or.inl (by simp [execT, AL.get_erase]),
      keepDat _ (by simp [execT, AL.get_erase]) (by omega)⟩
  · -- mkdir of the hidden folder
    simp [coreS, writeFileTN] at hs; subst hs
    have hu : ∀ nm : SName, nm ≠ .metaDir (parentKey p) → AL.get (execT t (.mkdir (.metaDir (parentKey p)))) nm = AL.get t nm :=
      fun nm hne => get_execT_untouched t _ nm (by simpa [Step.names] using hne)
    exact ⟨by simp [LocalST], fun h => absurd trivial h, fun _ => keepSt _ (hu _ (by simp)) (ht (by omega)),
      keepDat _ (hu _ (by simp)) (by omega)⟩
  · -- create the data temporary
    simp [coreS, writeFileTN] at hs; subst hs
    exact ⟨by simp [LocalST, execT, AL.get_set], fun h => absurd trivial h,
      fun _ => keepSt _ (by simp [execT, AL.get_set]) (ht (by omega)), keepDat _ (by simp [execT, AL.get_set]) (by omega)⟩
  · -- write the data
    simp [coreS, writeFileTN] at hs; subst hs
    have h3 := l3 rfl
    exact ⟨by simp [LocalST, execT, h3, AL.get_set], fun h => absurd trivial h,
      fun _ => keepSt _ (by simp [execT, h3, AL.get_set]) (ht (by omega)), keepDat _ (by simp [execT, h3, AL.get_set]) (by omega)⟩
  · -- close
    simp [coreS, writeFileTN] at hs; subst hs
    have h4 := l45 (Or.inl rfl)
    exact ⟨by simp [LocalST, execT, h4], fun h => absurd trivial h, fun _ => keepSt _ rfl (ht (by omega)), keepDat _ rfl (by omega)⟩
  · -- publish the data file
    simp [coreS, writeFileTN] at hs; subst hs
    have h5 := l45 (Or.inr rfl)
    exact ⟨by simp [LocalST], fun h => absurd trivial h,
      fun _ => keepSt _ (by simp [execT, h5, AL.get_set, AL.get_erase]) (ht (by omega)),
      fun _ => by simp [execT, h5, AL.get_set]⟩
  · -- create the metadata temporary
    simp [coreS, writeFileTN] at hs; subst hs
    exact ⟨by simp [LocalST, execT, AL.get_set], fun h => absurd trivial h,
      fun _ => keepSt _ (by simp [execT, AL.get_set]) (ht (by omega)), keepDat _ (by simp [execT, AL.get_set]) (by omega)⟩
  · -- write the metadata
    simp [coreS, writeFileTN] at hs; subst hs
    have h7 := l7 rfl
    exact ⟨by simp [LocalST, execT, h7, AL.get_set], fun h => absurd trivial h,
      fun _ => keepSt _ (by simp [execT, h7, AL.get_set]) (ht (by omega)), keepDat _ (by simp [execT, h7, AL.get_set]) (by omega)⟩
  · -- close
    simp [coreS, writeFileTN] at hs; subst hs
    have h8 := l89 (Or.inl rfl)
    exact ⟨by simp [LocalST, execT, h8], fun h => absurd trivial h, fun _ => keepSt _ rfl (ht (by omega)), keepDat _ rfl (by omega)⟩
  · -- publish the metadata file: the data file has been published before (`6 ≤ 9`)
    simp [coreS, writeFileTN] at hs; subst hs
    have h9 := l89 (Or.inr rfl)
    exact ⟨by simp [LocalST], fun h => absurd trivial h,
      fun _ => Or.inr (Or.inr ⟨M, by simp [execT, h9, AL.get_set], hM, Or.inl (hdd (by omega))⟩),
      keepDat _ (by simp [execT, h9, AL.get_set, AL.get_erase]) (by omega)⟩
  · simp [coreS, writeFileTN] at hs

/-- **one core step of a progress writer** standing at position `q` of its core -/
theorem metaStepT {p : Key} {X : Data} {t0 : Tree} {PS PN : Data → Prop} (n : Key) (M : Data) (hM : PN M)
    (q : Nat) (s : Step SName) (hs : (coreM p n M)[q]? = some s) (t : Tree) (tt dd : Prop)
    (hL : LocalMT n M q t) (hG : GT p X t0 PS PN tt dd t) :
    LocalMT n M (q + 1) (execT t s) ∧ GT p X t0 PS PN (tt ∨ 3 ≤ q) dd (execT t s) := by
  obtain ⟨l1, l23⟩ := hL
  obtain _ | _ | _ | _ | q := q
  · simp [coreM, writeFileTN] at hs; subst hs
    exact ⟨by simp [LocalMT, execT, AL.get_set],
      (hG.frame _ (by simp [Step.names]) (by simp [Step.names])).flags (by simp) Iff.rfl⟩
  · simp [coreM, writeFileTN] at hs; subst hs
    have h1 := l1 rfl
    exact ⟨by simp [LocalMT, execT, h1, AL.get_set],
      (hG.frame _ (by simp [Step.names]) (by simp [Step.names])).flags (by simp) Iff.rfl⟩
  · simp [coreM, writeFileTN] at hs; subst hs
    have h2 := l23 (Or.inl rfl)
    exact ⟨by simp [LocalMT, execT, h2],
      (hG.frame _ (by simp [Step.names]) (by simp [Step.names])).flags (by simp) Iff.rfl⟩
  · simp [coreM, writeFileTN] at hs; subst hs
    have h3 := l23 (Or.inr rfl)
    refine ⟨by simp [LocalMT], fun h => absurd (Or.inr (by omega)) h,
      fun _ => Or.inr (Or.inl ⟨M, by simp [execT, h3, AL.get_set], hM⟩), fun hd => ?_⟩
    simpa [execT, h3, AL.get_set, AL.get_erase] using hG.dat hd
  · simp [coreM, writeFileTN] at hs

/-! ### what the reader sees -/

theorem scOf_no_meta (deM : Data → Option CMeta) (deD : Str → Data → Option (Option Str)) (x : Option TNode) :
    scOf deM deD (x, none) = none := by
  cases x with
  | none => rfl
  | some y => cases y <;> rfl

theorem scOf_not_ready (deM : Data → Option CMeta) (deD : Str → Data → Option (Option Str)) (x : Option TNode) (b : Data)
    (h : ∀ m, deM b = some m → m.status ≠ ready) : scOf deM deD (x, some (.file b)) = none := by
  cases x with
  | none => rfl
  | some y =>
    cases y with
    | dir => rfl
    | file d =>
      simp only [scOf]
      cases hm : deM b with
      | none => rfl
      | some m => simp [h m hm]

theorem GT.read {p : Key} {X MA MB : Data} {t0 t : Tree} {PN : Data → Prop} {tt dd : Prop}
    (hG : GT p X t0 (fun b => b = MA ∨ b = MB) PN tt dd t)
    (deM : Data → Option CMeta) (deD : Str → Data → Option (Option Str)) (mA mB : CMeta) (v : Option Str)
    (hMA : deM MA = some mA) (hAr : mA.status = ready) (hAv : deD mA.typeId X = some v)
    (hMB : deM MB = some mB) (hBr : mB.status = ready) (hBv : deD mB.typeId X = some v)
    (hPN : ∀ b, PN b → ∀ m, deM b = some m → m.status ≠ ready) :
    readSC deM deD t p = readSC deM deD t0 p ∨ readSC deM deD t p = none ∨
    readSC deM deD t p = some { metadata := mA, data := v } ∨ readSC deM deD t p = some { metadata := mB, data := v } := by
  by_cases ht : tt
  · right
    rcases hG.st ht with h | ⟨b, hb, hp⟩ | ⟨b, hb, hp, hdd⟩
    · left; rw [readSC_eq, pairT, h]; exact scOf_no_meta ..
    · left; rw [readSC_eq, pairT, hb]; exact scOf_not_ready _ _ _ _ (hPN b hp)
    · right
      have hd := hG.dat hdd
      rcases hp with hp | hp
      · left; subst hp; rw [readSC_eq, pairT, hb, hd]; simp [scOf, hMA, hAr, hAv]
      · right; subst hp; rw [readSC_eq, pairT, hb, hd]; simp [scOf, hMB, hBr, hBv]
  · left
    obtain ⟨h1, h2⟩ := hG.same ht
    rw [readSC_eq, readSC_eq, pairT, pairT, h1, h2]

/-! ### two store writers and (possibly) one progress writer -/

/-- `i`, `j`, `k` are positions in the full lists (`L` = number of directories above `p`) -/
def Inv3T (p : Key) (X : Data) (t0 : Tree) (PN : Data → Prop) (a1 a2 b1 b2 tp : Key) (MA MB MP : Data)
    (i j k : Nat) (t : Tree) : Prop :=
  LocalST a1 a2 X MA (i - (preS p).length) t ∧ LocalST b1 b2 X MB (j - (preS p).length) t ∧
  LocalMT tp MP (k - (preM p).length) t ∧
  GT p X t0 (fun b => b = MA ∨ b = MB) PN
    ((preS p).length + 1 ≤ i ∨ (preS p).length + 1 ≤ j ∨ (preM p).length + 4 ≤ k)
    ((preS p).length + 6 ≤ i ∨ (preS p).length + 6 ≤ j) t

theorem Inv3T.init (p : Key) (X : Data) (t0 : Tree) (PN : Data → Prop) (a1 a2 b1 b2 tp : Key) (MA MB MP : Data) :
    Inv3T p X t0 PN a1 a2 b1 b2 tp MA MB MP 0 0 0 t0 := by
  refine ⟨by simp [LocalST_zero], by simp [LocalST_zero], by simp [LocalMT_zero], fun _ => ⟨rfl, rfl⟩, fun h => ?_, fun h => ?_⟩ <;> omega

/-- the `mkdir` of a directory above `p` (or of the hidden folder) changes nothing the invariant talks about -/
theorem Inv3T.mkdir_frame {p X t0 PN a1 a2 b1 b2 tp MA MB MP} {i j k i' j' k' : Nat} {t : Tree}
    (h : Inv3T p X t0 PN a1 a2 b1 b2 tp MA MB MP i j k t) (nm : SName) (hnode : nm ≠ .node p) (hmf : nm ≠ .mfile p)
    (htmp : ∀ a, nm ≠ .tmp a)
    (hi : i - (preS p).length = i' - (preS p).length) (hj : j - (preS p).length = j' - (preS p).length)
    (hk : k - (preM p).length = k' - (preM p).length)
    (hi1 : (preS p).length + 1 ≤ i ↔ (preS p).length + 1 ≤ i') (hj1 : (preS p).length + 1 ≤ j ↔ (preS p).length + 1 ≤ j')
    (hk1 : (preM p).length + 4 ≤ k ↔ (preM p).length + 4 ≤ k')
    (hi6 : (preS p).length + 6 ≤ i ↔ (preS p).length + 6 ≤ i') (hj6 : (preS p).length + 6 ≤ j ↔ (preS p).length + 6 ≤ j') :
    Inv3T p X t0 PN a1 a2 b1 b2 tp MA MB MP i' j' k' (execT t (.mkdir nm)) := by
  obtain ⟨hA, hB, hP, hG⟩ := h
  have hn : ∀ a, SName.tmp a ∉ (Step.mkdir nm).names := by
    intro a hm; simp only [Step.names, List.mem_singleton] at hm; exact htmp a hm.symm
  refine ⟨?_, ?_, ?_, ?_⟩
  · rw [← hi]; exact LocalST_frame _ (hn _) (hn _) hA
  · rw [← hj]; exact LocalST_frame _ (hn _) (hn _) hB
  · rw [← hk]; exact LocalMT_frame _ (hn _) hP
  · refine (hG.frame _ ?_ ?_).flags ?_ ?_
    · simp only [Step.names, List.mem_singleton]; exact fun e => hnode e.symm
    · simp only [Step.names, List.mem_singleton]; exact fun e => hmf e.symm
    · rw [hi1, hj1, hk1]
    · rw [hi6, hj6]

theorem ancestor_node_ne {p a : Key} (ha : a ∈ ancestors p) : SName.node a ≠ SName.node p := by
  intro e
  rw [SName.node.inj e] at ha
  exact not_mem_ancestors_self p ha

/-- every prefix of every three-way interleaving satisfies the invariant at some positions; `lb` is the step list of the second
store writer or empty, `lp` the step list of the progress writer or empty -/
theorem inv3T_prefix (p : Key) (X : Data) (t0 : Tree) (PN : Data → Prop) (a1 a2 b1 b2 tp : Key) (MA MB MP : Data)
    (hdist : [a1, a2, b1, b2, tp].Nodup)
    (lb : List (Step SName)) (hlb : ∀ (j : Nat) (s : Step SName), lb[j]? = some s → (preS p ++ coreS p b1 b2 X MB)[j]? = some s)
    (lp : List (Step SName)) (hMP : lp ≠ [] → PN MP)
    (hlp : ∀ (k : Nat) (s : Step SName), lp[k]? = some s → (preM p ++ coreM p tp MP)[k]? = some s)
    (l : List (Step SName)) (hl : Interleave3 (preS p ++ coreS p a1 a2 X MA) lb lp l) (n : Nat) :
    ∃ i j k, Inv3T p X t0 PN a1 a2 b1 b2 tp MA MB MP i j k ((l.take n).foldl execT t0) := by
  simp only [List.nodup_cons, List.mem_cons, List.not_mem_nil, or_false, not_or, List.nodup_nil, and_true, not_false_eq_true] at hdist
  obtain ⟨⟨h1, h2, h3, h4⟩, ⟨h5, h6, h7⟩, ⟨h8, h9⟩, h10⟩ := hdist
  have hLM : (preM p).length = (preS p).length + 1 := by simp [preM]
  refine prefix_inv3 execT (preS p ++ coreS p a1 a2 X MA) lb lp
    (Inv3T p X t0 PN a1 a2 b1 b2 tp MA MB MP) ?_ ?_ ?_ l 0 0 0 t0 (by simpa using hl) (Inv3T.init ..) n
  · intro i j k t s hs hI
    rcases getElem?_append_cases _ _ _ _ hs with ⟨hi, hs'⟩ | ⟨hi, hs'⟩
    · obtain ⟨a, ha, rfl⟩ := preS_mem (List.mem_of_getElem? hs')
      refine hI.mkdir_frame _ (ancestor_node_ne ha) (by simp) (by simp) ?_ rfl rfl ?_ Iff.rfl Iff.rfl ?_ Iff.rfl
      · omega
      · constructor <;> intro h <;> omega
      · constructor <;> intro h <;> omega
    · obtain ⟨hA, hB, hP, hG⟩ := hI
      have hnames := coreS_names (List.mem_of_getElem? hs')
      obtain ⟨hA', hG'⟩ := storeStepT a1 a2 MA (Or.inl rfl) _ s hs' t _ _ hA hG (fun h => Or.inl (by omega)) (fun h => Or.inl (by omega))
      have hq : i + 1 - (preS p).length = i - (preS p).length + 1 := by omega
      refine ⟨by rw [hq]; exact hA', LocalST_frame s ?_ ?_ hB, LocalMT_frame s ?_ hP, hG'.flags ?_ ?_⟩
      · intro hm; rcases hnames _ hm with h | h | h | h | h <;> simp_all
      · intro hm; rcases hnames _ hm with h | h | h | h | h <;> simp_all
      · intro hm; rcases hnames _ hm with h | h | h | h | h <;> simp_all
      · constructor
        · intro _; exact Or.inl (by omega)
        · intro _; trivial
      · constructor <;> intro h <;> omega
  · intro i j k t s hs0 hI
    have hs := hlb j s hs0
    rcases getElem?_append_cases _ _ _ _ hs with ⟨hj, hs'⟩ | ⟨hj, hs'⟩
    · obtain ⟨a, ha, rfl⟩ := preS_mem (List.mem_of_getElem? hs')
      refine hI.mkdir_frame _ (ancestor_node_ne ha) (by simp) (by simp) rfl ?_ rfl Iff.rfl ?_ Iff.rfl Iff.rfl ?_
      · omega
      · constructor <;> intro h <;> omega
      · constructor <;> intro h <;> omega
    · obtain ⟨hA, hB, hP, hG⟩ := hI
      have hnames := coreS_names (List.mem_of_getElem? hs')
      obtain ⟨hB', hG'⟩ := storeStepT b1 b2 MB (Or.inr rfl) _ s hs' t _ _ hB hG (fun h => Or.inr (Or.inl (by omega)))
        (fun h => Or.inr (by omega))
      have hq : j + 1 - (preS p).length = j - (preS p).length + 1 := by omega
      refine ⟨LocalST_frame s ?_ ?_ hA, by rw [hq]; exact hB', LocalMT_frame s ?_ hP, hG'.flags ?_ ?_⟩
      · intro hm; rcases hnames _ hm with h | h | h | h | h <;> simp_all
      · intro hm; rcases hnames _ hm with h | h | h | h | h <;> simp_all
      · intro hm; rcases hnames _ hm with h | h | h | h | h <;> simp_all
      · constructor
        · intro _; exact Or.inr (Or.inl (by omega))
        · intro _; trivial
      · constructor <;> intro h <;> omega
  · intro i j k t s hs0 hI
    have hs := hlp k s hs0
    rcases getElem?_append_cases _ _ _ _ hs with ⟨hk, hs'⟩ | ⟨hk, hs'⟩
    · have hfr : ∀ nm : SName, s = .mkdir nm → nm ≠ .node p → nm ≠ .mfile p → (∀ a, nm ≠ .tmp a) →
          Inv3T p X t0 PN a1 a2 b1 b2 tp MA MB MP i j (k + 1) (execT t s) := by
        intro nm e hn1 hn2 hn3
        subst e
        refine hI.mkdir_frame _ hn1 hn2 hn3 rfl rfl ?_ Iff.rfl Iff.rfl ?_ Iff.rfl Iff.rfl
        · omega
        · constructor <;> intro h <;> omega
      rcases preM_mem (List.mem_of_getElem? hs') with ⟨a, ha, e⟩ | e
      · exact hfr _ e (ancestor_node_ne ha) (by simp) (by simp)
      · exact hfr _ e (by simp) (by simp) (by simp)
    · obtain ⟨hA, hB, hP, hG⟩ := hI
      have hnames := coreM_names (List.mem_of_getElem? hs')
      obtain ⟨hP', hG'⟩ := metaStepT tp MP (hMP (by intro h; simp [h] at hs0)) _ s hs' t _ _ hP hG
      have hq : k + 1 - (preM p).length = k - (preM p).length + 1 := by omega
      refine ⟨LocalST_frame s ?_ ?_ hA, LocalST_frame s ?_ ?_ hB, by rw [hq]; exact hP', hG'.flags ?_ Iff.rfl⟩
      · intro hm; rcases hnames _ hm with h | h <;> simp_all
      · intro hm; rcases hnames _ hm with h | h <;> simp_all
      · intro hm; rcases hnames _ hm with h | h <;> simp_all
      · intro hm; rcases hnames _ hm with h | h <;> simp_all
      · constructor <;> intro h <;> omega

end Crash
end Liquer
