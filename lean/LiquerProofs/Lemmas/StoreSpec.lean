/-
Helper lemmas about the specification file system `FS` of `LiquerModel/StoreCore.lean`:
`get` after `set` / `erase` / `filter` / `mkdirs`, ancestors as proper non-root prefixes, the tree
invariant as a proposition, and what every operation does to `get`.
-/
import LiquerModel.StoreCore

namespace Liquer

/-! ### `get` algebra -/

theorem FS.get_nil (k : Key) : FS.get [] k = none := rfl

theorem FS.get_cons (k' : Key) (n : Node) (fs : FS) (k : Key) :
    FS.get ((k', n) :: fs) k = if k' = k then some n else FS.get fs k := by
  unfold FS.get
  by_cases h : k' = k
  · simp [h]
  · simp [h]

theorem FS.get_filter_key (P : Key → Bool) (fs : FS) (k : Key) :
    FS.get (fs.filter (fun kv => P kv.1)) k = if P k then FS.get fs k else none := by
  induction fs with
  | nil => simp [FS.get_nil]
  | cons kv fs ih =>
    obtain ⟨k', n⟩ := kv
    by_cases hp : P k' = true
    · rw [List.filter_cons_of_pos (by simpa using hp), FS.get_cons, FS.get_cons, ih]
      by_cases hk : k' = k
      · subst hk; simp [hp]
      · simp [hk]
    · rw [List.filter_cons_of_neg (by simpa using hp), ih, FS.get_cons]
      by_cases hk : k' = k
      · subst hk; simp [hp]
      · simp [hk]

theorem FS.get_erase (fs : FS) (k k' : Key) :
    (fs.erase k).get k' = if k' = k then none else fs.get k' := by
  have := FS.get_filter_key (fun q => q != k) fs k'
  unfold FS.erase
  rw [this]
  by_cases h : k' = k <;> simp [h]

theorem FS.get_set (fs : FS) (k : Key) (n : Node) (k' : Key) :
    (fs.set k n).get k' = if k = k' then some n else fs.get k' := by
  unfold FS.set
  rw [FS.get_cons, FS.get_erase]
  by_cases h : k = k'
  · simp [h]
  · have : ¬ k' = k := fun e => h e.symm
    simp [h, this]

theorem FS.get_mkdirs (ks : List Key) (fs : FS) (k : Key) :
    (fs.mkdirs ks).get k = if k ∈ ks ∧ fs.get k = none then some .dir else fs.get k := by
  unfold FS.mkdirs
  induction ks generalizing fs with
  | nil => simp
  | cons a ks ih =>
    rw [List.foldl_cons, ih]
    by_cases ha : (fs.get a).isSome = true
    · simp only [ha, ↓reduceIte]
      by_cases hk : k = a
      · subst hk
        have : fs.get k ≠ none := by intro e; simp [e] at ha
        simp [this]
      · simp [hk]
    · have hnone : fs.get a = none := by simpa using ha
      have hf : (fs.get a).isSome = false := by simp [hnone]
      simp only [hf, Bool.false_eq_true, ↓reduceIte]
      rw [FS.get_set]
      by_cases hk : a = k
      · subst hk; simp [hnone]
      · have hk' : ¬ k = a := fun e => hk e.symm
        simp [hk, hk']

theorem FS.mem_keys_iff (fs : FS) (k : Key) : k ∈ fs.map (·.1) ↔ (fs.get k).isSome = true := by
  induction fs with
  | nil => simp [FS.get_nil]
  | cons kv fs ih =>
    obtain ⟨k', n⟩ := kv
    rw [List.map_cons, List.mem_cons, FS.get_cons, ih]
    by_cases h : k' = k
    · subst h; simp
    · have : ¬ k = k' := fun e => h e.symm
      simp [h, this]

theorem FS.mem_of_get {fs : FS} {k : Key} {n : Node} (h : fs.get k = some n) : (k, n) ∈ fs := by
  induction fs with
  | nil => simp [FS.get_nil] at h
  | cons kv fs ih =>
    obtain ⟨k', n'⟩ := kv
    rw [FS.get_cons] at h
    by_cases hk : k' = k
    · subst hk; simp at h; subst h; simp
    · simp [hk] at h; exact List.mem_cons_of_mem _ (ih h)

/-- with unique keys, membership is `get` -/
theorem FS.get_of_mem {fs : FS} (hn : (fs.map (·.1)).Nodup) {k : Key} {n : Node} (h : (k, n) ∈ fs) :
    fs.get k = some n := by
  induction fs with
  | nil => simp at h
  | cons kv fs ih =>
    obtain ⟨k', n'⟩ := kv
    rw [List.map_cons, List.nodup_cons] at hn
    rw [FS.get_cons]
    rcases List.mem_cons.mp h with e | e
    · cases e; simp
    · have : k' ≠ k := by
        intro e'; subst e'
        exact hn.1 (List.mem_map.mpr ⟨(k', n), e, rfl⟩)
      simp [this, ih hn.2 e]

/-! ### ancestors = proper non-root prefixes -/

theorem mem_ancestors (a k : Key) : a ∈ ancestors k ↔ a ≠ [] ∧ a <+: k ∧ a ≠ k := by
  unfold ancestors
  simp only [List.mem_filterMap, List.mem_range]
  constructor
  · rintro ⟨i, hi, h⟩
    by_cases h0 : i = 0
    · simp [h0] at h
    · simp [h0] at h
      subst h
      refine ⟨?_, List.take_prefix _ _, ?_⟩
      · intro e
        have := congrArg List.length e
        rw [List.length_take, List.length_nil] at this
        omega
      · intro e
        have := congrArg List.length e
        rw [List.length_take] at this
        omega
  · rintro ⟨hne, hp, hk⟩
    refine ⟨a.length, ?_, ?_⟩
    · have h1 := hp.length_le
      rcases Nat.lt_or_ge a.length k.length with h | h
      · exact h
      · exact absurd (hp.eq_of_length_le h) hk
    · have : a.length ≠ 0 := by
        intro e; exact hne (List.eq_nil_of_length_eq_zero e)
      simp [this]
      exact (List.prefix_iff_eq_take.mp hp).symm

theorem ancestors_ne_self {a k : Key} (h : a ∈ ancestors k) : a ≠ k := ((mem_ancestors a k).mp h).2.2
theorem ancestors_prefix {a k : Key} (h : a ∈ ancestors k) : a <+: k := ((mem_ancestors a k).mp h).2.1
theorem ancestors_ne_nil {a k : Key} (h : a ∈ ancestors k) : a ≠ [] := ((mem_ancestors a k).mp h).1

theorem ancestors_trans {a b k : Key} (h1 : a ∈ ancestors b) (h2 : b ∈ ancestors k) : a ∈ ancestors k := by
  rw [mem_ancestors] at *
  refine ⟨h1.1, h1.2.1.trans h2.2.1, ?_⟩
  intro e
  subst e
  have l1 := h1.2.1.length_le
  have l2 := h2.2.1.length_le
  exact h1.2.2 (h1.2.1.eq_of_length_le l2)

/-- the parent of a key of length ≥ 2 is an ancestor -/
theorem parent_mem_ancestors {k : Key} (h : 2 ≤ k.length) : parentKey k ∈ ancestors k := by
  rw [mem_ancestors]
  unfold parentKey
  refine ⟨?_, List.dropLast_prefix k, ?_⟩
  · intro e
    have := congrArg List.length e
    simp at this
    omega
  · intro e
    have := congrArg List.length e
    simp at this
    omega

theorem key_eq_parent_name {k : Key} (h : k ≠ []) : k = parentKey k ++ [keyName k] := by
  unfold parentKey keyName
  rw [List.getLast?_eq_some_getLast h]
  exact (List.dropLast_concat_getLast h).symm

/-! ### the tree invariant as a proposition -/

structure FS.Tree (fs : FS) : Prop where
  nodup : (fs.map (·.1)).Nodup
  nonroot : ∀ k, (fs.get k).isSome = true → k ≠ []
  anc : ∀ k, (fs.get k).isSome = true → ∀ a ∈ ancestors k, fs.get a = some .dir

end Liquer

namespace Liquer

/-! ### `eraseDups` and `Nodup` -/

theorem eraseDups_length_aux {α : Type} [BEq α] [LawfulBEq α] (n : Nat) :
    ∀ l : List α, l.length ≤ n → (l.eraseDups.length ≤ l.length ∧ (l.eraseDups.length = l.length ↔ l.Nodup)) := by
  induction n with
  | zero =>
    intro l hl
    have : l = [] := List.eq_nil_of_length_eq_zero (by omega)
    subst this
    simp
  | succ n ih =>
    intro l hl
    cases l with
    | nil => simp
    | cons a as =>
      rw [List.eraseDups_cons]
      have hfl : (as.filter fun b => !b == a).length ≤ as.length := List.length_filter_le _ _
      have hl' : as.length ≤ n := by simpa using hl
      obtain ⟨h1, h2⟩ := ih (as.filter fun b => !b == a) (by omega)
      refine ⟨by simp only [List.length_cons]; omega, ?_⟩
      rw [List.nodup_cons]
      simp only [List.length_cons]
      constructor
      · intro h
        have hfe : (as.filter fun b => !b == a).length = as.length := by omega
        have hall : as.filter (fun b => !b == a) = as := by
          exact List.filter_eq_self.mpr (List.length_filter_eq_length_iff.mp hfe)
        have hna : a ∉ as := by
          intro hm
          have := List.filter_eq_self.mp hall a hm
          simp at this
        refine ⟨hna, ?_⟩
        rw [hall] at h2 h
        exact h2.mp (by omega)
      · rintro ⟨hna, hnd⟩
        have hall : as.filter (fun b => !b == a) = as := by
          apply List.filter_eq_self.mpr
          intro b hb
          have : b ≠ a := fun e => hna (e ▸ hb)
          simp [this]
        rw [hall] at h2 ⊢
        have := h2.mpr hnd
        omega

theorem eraseDups_length_eq_iff_nodup {α : Type} [BEq α] [LawfulBEq α] (l : List α) :
    l.eraseDups.length = l.length ↔ l.Nodup :=
  (eraseDups_length_aux l.length l (Nat.le_refl _)).2

theorem nodup_eraseDups {α : Type} [BEq α] [LawfulBEq α] (n : Nat) :
    ∀ l : List α, l.length ≤ n → l.eraseDups.Nodup := by
  induction n with
  | zero =>
    intro l hl
    have : l = [] := List.eq_nil_of_length_eq_zero (by omega)
    subst this; simp
  | succ n ih =>
    intro l hl
    cases l with
    | nil => simp
    | cons a as =>
      rw [List.eraseDups_cons, List.nodup_cons]
      have hfl : (as.filter fun b => !b == a).length ≤ as.length := List.length_filter_le _ _
      have hl' : as.length ≤ n := by simpa using hl
      refine ⟨?_, ih _ (by omega)⟩
      rw [List.mem_eraseDups]
      simp

theorem nodup_eraseDups' {α : Type} [BEq α] [LawfulBEq α] (l : List α) : l.eraseDups.Nodup :=
  nodup_eraseDups l.length l (Nat.le_refl _)

/-! ### key lists of derived file systems -/

theorem FS.keys_filter (p : Key × Node → Bool) (fs : FS) : ((fs.filter p).map (·.1)).Sublist (fs.map (·.1)) :=
  (List.filter_sublist).map _

theorem FS.nodup_filter {fs : FS} (p : Key × Node → Bool) (h : (fs.map (·.1)).Nodup) : ((fs.filter p).map (·.1)).Nodup :=
  (FS.keys_filter p fs).nodup h

theorem FS.nodup_set {fs : FS} (k : Key) (n : Node) (h : (fs.map (·.1)).Nodup) : ((fs.set k n).map (·.1)).Nodup := by
  unfold FS.set
  rw [List.map_cons, List.nodup_cons]
  refine ⟨?_, FS.nodup_filter _ h⟩
  rw [FS.mem_keys_iff, FS.get_erase]
  simp

theorem FS.nodup_mkdirs {fs : FS} (ks : List Key) (h : (fs.map (·.1)).Nodup) : ((fs.mkdirs ks).map (·.1)).Nodup := by
  unfold FS.mkdirs
  induction ks generalizing fs with
  | nil => simpa
  | cons a ks ih =>
    rw [List.foldl_cons]
    apply ih
    split
    · exact h
    · exact FS.nodup_set _ _ h

/-! ### `tree` (Bool) is `Tree` (Prop) -/

theorem FS.tree_iff (fs : FS) : fs.tree = true ↔ FS.Tree fs := by
  unfold FS.tree
  rw [Bool.and_eq_true, beq_iff_eq]
  have hlen : (fs.map (·.1)).length = fs.length := List.length_map _
  rw [← hlen, eraseDups_length_eq_iff_nodup]
  constructor
  · rintro ⟨hall, hnd⟩
    rw [List.all_eq_true] at hall
    have key : ∀ k, (fs.get k).isSome = true → (k, (fs.get k).get!) ∈ fs := by
      intro k hk
      obtain ⟨n, hn⟩ := Option.isSome_iff_exists.mp hk
      rw [hn]; exact FS.mem_of_get hn
    refine ⟨hnd, ?_, ?_⟩
    · intro k hk
      have := hall _ (key k hk)
      simp only [Bool.and_eq_true, Bool.not_eq_true', List.isEmpty_eq_false_iff] at this
      exact this.1
    · intro k hk a ha
      have := hall _ (key k hk)
      simp only [Bool.and_eq_true, List.all_eq_true, beq_iff_eq] at this
      exact this.2 a ha
  · rintro ⟨hnd, hroot, hanc⟩
    refine ⟨?_, hnd⟩
    rw [List.all_eq_true]
    rintro ⟨k, n⟩ hmem
    have hg : fs.get k = some n := FS.get_of_mem hnd hmem
    have hs : (fs.get k).isSome = true := by simp [hg]
    simp only [Bool.and_eq_true, Bool.not_eq_true', List.isEmpty_eq_false_iff, List.all_eq_true, beq_iff_eq]
    exact ⟨hroot k hs, hanc k hs⟩

theorem FS.tree_nil : FS.Tree [] := ⟨by simp, by simp [FS.get_nil], by simp [FS.get_nil]⟩

end Liquer

namespace Liquer

/-! ### the tree invariant under the building blocks -/

theorem FS.Tree.set {fs : FS} (ht : FS.Tree fs) {k : Key} {n : Node} (hk : k ≠ [])
    (hanc : ∀ a ∈ ancestors k, fs.get a = some .dir)
    (hleaf : n ≠ .dir → ∀ q, (fs.get q).isSome = true → k ∉ ancestors q) : FS.Tree (fs.set k n) := by
  refine ⟨FS.nodup_set _ _ ht.nodup, ?_, ?_⟩
  · intro q hq
    rw [FS.get_set] at hq
    by_cases h : k = q
    · subst h; exact hk
    · simp only [h, ↓reduceIte] at hq; exact ht.nonroot q hq
  · intro q hq a ha
    rw [FS.get_set] at hq ⊢
    by_cases h : k = q
    · subst h
      have : k ≠ a := fun e => ancestors_ne_self ha e.symm
      simp only [this, ↓reduceIte]
      exact hanc a ha
    · simp only [h, ↓reduceIte] at hq
      by_cases h2 : k = a
      · subst h2
        simp only [↓reduceIte]
        by_cases hn : n = .dir
        · rw [hn]
        · exact absurd ha (hleaf hn q hq)
      · simp only [h2, ↓reduceIte]
        exact ht.anc q hq a ha

theorem FS.Tree.mkdirs {fs : FS} (ht : FS.Tree fs) {ks : List Key} (hne : ∀ a ∈ ks, a ≠ [])
    (hcl : ∀ a ∈ ks, ∀ b ∈ ancestors a, b ∈ ks)
    (hnf : ∀ a ∈ ks, fs.get a = none ∨ fs.get a = some .dir) : FS.Tree (fs.mkdirs ks) := by
  refine ⟨FS.nodup_mkdirs _ ht.nodup, ?_, ?_⟩
  · intro q hq
    rw [FS.get_mkdirs] at hq
    by_cases h : q ∈ ks ∧ fs.get q = none
    · exact hne q h.1
    · simp only [h, ↓reduceIte] at hq; exact ht.nonroot q hq
  · intro q hq a ha
    rw [FS.get_mkdirs] at hq ⊢
    by_cases h : q ∈ ks ∧ fs.get q = none
    · have hak : a ∈ ks := hcl q h.1 a ha
      rcases hnf a hak with e | e
      · simp [hak, e]
      · simp [e]
    · simp only [h, ↓reduceIte] at hq
      have := ht.anc q hq a ha
      simp [this]

theorem FS.Tree.filter {fs : FS} (ht : FS.Tree fs) (P : Key → Bool)
    (hP : ∀ q, P q = true → (fs.get q).isSome = true → ∀ a ∈ ancestors q, P a = true) :
    FS.Tree (fs.filter (fun kv => P kv.1)) := by
  refine ⟨FS.nodup_filter _ ht.nodup, ?_, ?_⟩
  · intro q hq
    rw [FS.get_filter_key] at hq
    by_cases h : P q = true
    · simp only [h, ↓reduceIte] at hq; exact ht.nonroot q hq
    · simp [h] at hq
  · intro q hq a ha
    rw [FS.get_filter_key] at hq ⊢
    by_cases h : P q = true
    · simp only [h, ↓reduceIte] at hq
      simp only [hP q h hq a ha, ↓reduceIte]
      exact ht.anc q hq a ha
    · simp [h] at hq

/-- a key below `k` has a child of `k` on its way -/
theorem child_on_way {k q : Key} (h : k ∈ ancestors q) :
    ∃ c, (c = q ∨ c ∈ ancestors q) ∧ c ≠ [] ∧ c.dropLast = k := by
  obtain ⟨hne, hp, hkq⟩ := (mem_ancestors k q).mp h
  obtain ⟨t, rfl⟩ := hp
  cases t with
  | nil => simp at hkq
  | cons x t =>
    refine ⟨k ++ [x], ?_, by simp, by simp⟩
    cases t with
    | nil => left; rfl
    | cons y t =>
      right
      rw [mem_ancestors]
      refine ⟨by simp, ⟨y :: t, by simp⟩, ?_⟩
      intro e
      have := congrArg List.length e
      simp at this

theorem FS.children_isEmpty_iff (fs : FS) (k : Key) :
    (fs.children k).isEmpty = true ↔ ∀ q, (fs.get q).isSome = true → q ≠ [] → q.dropLast ≠ k := by
  unfold FS.children
  rw [List.isEmpty_iff, List.map_eq_nil_iff, List.filter_eq_nil_iff]
  constructor
  · intro h q hq hne hd
    obtain ⟨n, hn⟩ := Option.isSome_iff_exists.mp hq
    have := h (q, n) (FS.mem_of_get hn)
    simp [hne, hd] at this
  · rintro h ⟨q, n⟩ hmem
    have hs : (fs.get q).isSome = true := (FS.mem_keys_iff fs q).mp (List.mem_map.mpr ⟨(q, n), hmem, rfl⟩)
    by_cases hne : q = []
    · simp [hne]
    · have := h q hs hne
      simp [hne, this]

/-! ### every well-formed operation keeps the tree -/

theorem notFile_cases {o : Option Node} (h : (match o with | some (.file ..) => false | _ => true) = true) :
    o = none ∨ o = some .dir := by
  cases o with
  | none => left; rfl
  | some n => cases n with
    | file d m => simp at h
    | dir => right; rfl

theorem isFile_cases {o : Option Node} (h : (match o with | some (.file ..) => true | _ => false) = true) :
    ∃ d m, o = some (.file d m) := by
  cases o with
  | none => simp at h
  | some n => cases n with
    | file d m => exact ⟨d, m, rfl⟩
    | dir => simp at h

theorem spec_tree_store {fs : FS} (ht : FS.Tree fs) {k : Key} (d : Data) (m : UMeta)
    (hwf : wfOp fs (.store k d m) = true) :
    FS.Tree ((fs.mkdirs (ancestors k)).set k (.file d { m with size := some d.length, md5 := some d })) := by
  simp only [wfOp, Bool.and_eq_true, Bool.not_eq_true', List.isEmpty_eq_false_iff, List.all_eq_true] at hwf
  obtain ⟨⟨hk, hnd⟩, hanc⟩ := hwf
  have hnf : ∀ a ∈ ancestors k, fs.get a = none ∨ fs.get a = some .dir := fun a ha => notFile_cases (hanc a ha)
  have ht1 : FS.Tree (fs.mkdirs (ancestors k)) :=
    ht.mkdirs (fun a ha => ancestors_ne_nil ha) (fun a ha b hb => ancestors_trans hb ha) hnf
  have hkd : fs.get k ≠ some .dir := by
    intro e
    simp [FS.isDirB, e] at hnd
  apply ht1.set hk
  · intro a ha
    rw [FS.get_mkdirs]
    rcases hnf a ha with e | e
    · simp [ha, e]
    · simp [e]
  · intro _ q hq hkq
    have := ht1.anc q hq k hkq
    rw [FS.get_mkdirs] at this
    have hnk : k ∉ ancestors k := fun h => ancestors_ne_self h rfl
    simp only [hnk, false_and, ↓reduceIte] at this
    exact hkd this

theorem spec_tree_setFile {fs : FS} (ht : FS.Tree fs) {k : Key} {d0 : Data} {m0 : UMeta} (n : Node)
    (hk : fs.get k = some (.file d0 m0)) : FS.Tree (fs.set k n) := by
  have hs : (fs.get k).isSome = true := by simp [hk]
  apply ht.set (ht.nonroot k hs) (ht.anc k hs)
  intro _ q hq hkq
  have := ht.anc q hq k hkq
  rw [hk] at this
  cases this

theorem spec_tree_eraseLeaf {fs : FS} (ht : FS.Tree fs) {k : Key}
    (hleaf : ∀ q, (fs.get q).isSome = true → k ∉ ancestors q) : FS.Tree (fs.erase k) := by
  unfold FS.erase
  apply ht.filter (fun q => q != k)
  intro q _ hq a ha
  simp only [bne_iff_ne, ne_eq]
  intro e
  subst e
  exact hleaf q hq ha

theorem spec_tree_removeRec {fs : FS} (ht : FS.Tree fs) (k : Key) :
    FS.Tree (fs.filter (fun kv => !(k.isPrefixOf kv.1))) := by
  apply ht.filter (fun q => !(k.isPrefixOf q))
  intro q hq _ a ha
  simp only [Bool.not_eq_true', List.isPrefixOf_iff_prefix, ← Bool.not_eq_true] at hq ⊢
  intro hka
  exact hq (hka.trans (ancestors_prefix ha))

theorem spec_tree_step {fs : FS} (ht : FS.Tree fs) (op : StoreOp) (hwf : wfOp fs op = true) :
    FS.Tree (specOps.step fs op) := by
  cases op with
  | store k d m =>
    simp only [StoreOps.step, StoreOps.apply, specOps]
    exact spec_tree_store ht d m hwf
  | storeMeta k m =>
    simp only [wfOp] at hwf
    obtain ⟨d0, m0, hk⟩ := isFile_cases hwf
    simp only [StoreOps.step, StoreOps.apply, specOps, hk]
    exact spec_tree_setFile ht _ hk
  | remove k =>
    simp only [wfOp] at hwf
    obtain ⟨d0, m0, hk⟩ := isFile_cases hwf
    simp only [StoreOps.step, StoreOps.apply, specOps]
    apply spec_tree_eraseLeaf ht
    intro q hq hkq
    have := ht.anc q hq k hkq
    rw [hk] at this
    cases this
  | removedir k r =>
    simp only [wfOp, Bool.and_eq_true, Bool.not_eq_true', List.isEmpty_eq_false_iff, beq_iff_eq, Bool.or_eq_true] at hwf
    obtain ⟨⟨hk, hd⟩, hr⟩ := hwf
    have hke : k.isEmpty = false := by simpa using hk
    simp only [StoreOps.step, StoreOps.apply, specOps, hke, Bool.false_eq_true, ↓reduceIte]
    cases r with
    | true =>
      simp only [↓reduceIte]
      exact spec_tree_removeRec ht k
    | false =>
      have hc : (fs.children k).isEmpty = true := by simpa using hr
      simp only [Bool.false_eq_true, ↓reduceIte, hc]
      apply spec_tree_eraseLeaf ht
      intro q hq hkq
      obtain ⟨c, hc1, hc2, hc3⟩ := child_on_way hkq
      have hcs : (fs.get c).isSome = true := by
        rcases hc1 with e | e
        · rw [e]; exact hq
        · simp [ht.anc q hq c e]
      exact (FS.children_isEmpty_iff fs k).mp hc c hcs hc2 hc3
  | makedir k =>
    simp only [wfOp, Bool.and_eq_true, Bool.not_eq_true', List.isEmpty_eq_false_iff, List.all_eq_true] at hwf
    obtain ⟨hk, hall⟩ := hwf
    have hke : k.isEmpty = false := by simpa using hk
    simp only [StoreOps.step, StoreOps.apply, specOps, hke, Bool.false_eq_true, ↓reduceIte]
    apply ht.mkdirs
    · intro a ha
      rcases List.mem_append.mp ha with h | h
      · exact ancestors_ne_nil h
      · simp at h; subst h; exact hk
    · intro a ha b hb
      rcases List.mem_append.mp ha with h | h
      · exact List.mem_append_left _ (ancestors_trans hb h)
      · simp at h; subst h; exact List.mem_append_left _ hb
    · intro a ha
      exact notFile_cases (hall a ha)

theorem spec_tree_run {fs : FS} (ht : FS.Tree fs) (h : List StoreOp) (hwf : wfHist fs h = true) :
    FS.Tree (specOps.run fs h) := by
  induction h generalizing fs with
  | nil => exact ht
  | cons op rest ih =>
    simp only [wfHist, Bool.and_eq_true] at hwf
    simp only [StoreOps.run, List.foldl_cons]
    exact ih (spec_tree_step ht op hwf.1) hwf.2

end Liquer

namespace Liquer

/-! ### frame: an operation on `k` only rewrites bindings of prefixes and extensions of `k` -/

def StoreOp.key : StoreOp → Key
  | .store k _ _ => k
  | .storeMeta k _ => k
  | .remove k => k
  | .removedir k _ => k
  | .makedir k => k

theorem FS.filter_erase (P : Key → Bool) (fs : FS) (k : Key) (hP : P k = false) :
    (fs.erase k).filter (fun kv => P kv.1) = fs.filter (fun kv => P kv.1) := by
  unfold FS.erase
  rw [List.filter_filter]
  apply List.filter_congr
  rintro ⟨q, n⟩ _
  by_cases h : q = k
  · subst h; simp [hP]
  · simp [h]

theorem FS.filter_set (P : Key → Bool) (fs : FS) (k : Key) (n : Node) (hP : P k = false) :
    (fs.set k n).filter (fun kv => P kv.1) = fs.filter (fun kv => P kv.1) := by
  unfold FS.set
  rw [List.filter_cons_of_neg (by simp [hP])]
  exact FS.filter_erase P fs k hP

theorem FS.filter_mkdirs (P : Key → Bool) (fs : FS) (ks : List Key) (hP : ∀ a ∈ ks, P a = false) :
    (fs.mkdirs ks).filter (fun kv => P kv.1) = fs.filter (fun kv => P kv.1) := by
  unfold FS.mkdirs
  induction ks generalizing fs with
  | nil => rfl
  | cons a ks ih =>
    rw [List.foldl_cons, ih _ (fun b hb => hP b (List.mem_cons_of_mem _ hb))]
    split
    · rfl
    · exact FS.filter_set P fs a .dir (hP a List.mem_cons_self)

theorem spec_frame_filter (fs : FS) (op : StoreOp) (P : Key → Bool)
    (hP : ∀ q, (q <+: op.key ∨ op.key <+: q) → P q = false) :
    (specOps.step fs op).filter (fun kv => P kv.1) = fs.filter (fun kv => P kv.1) := by
  have hself : P op.key = false := hP _ (Or.inl (List.prefix_refl _))
  have hanc : ∀ a ∈ ancestors op.key, P a = false := fun a ha => hP a (Or.inl (ancestors_prefix ha))
  cases op with
  | store k d m =>
    simp only [StoreOp.key] at hself hanc
    simp only [StoreOps.step, StoreOps.apply, specOps]
    rw [FS.filter_set P _ k _ hself, FS.filter_mkdirs P _ _ hanc]
  | storeMeta k m =>
    simp only [StoreOp.key] at hself hanc
    cases hg : fs.get k with
    | none => simp only [StoreOps.step, StoreOps.apply, specOps, hg]
    | some n =>
      cases n with
      | dir => simp only [StoreOps.step, StoreOps.apply, specOps, hg]
      | file d0 m0 =>
        simp only [StoreOps.step, StoreOps.apply, specOps, hg]
        exact FS.filter_set P _ k _ hself
  | remove k =>
    simp only [StoreOp.key] at hself hanc
    simp only [StoreOps.step, StoreOps.apply, specOps]
    exact FS.filter_erase P _ k hself
  | removedir k r =>
    simp only [StoreOp.key] at hself hanc hP
    by_cases hk : k.isEmpty = true
    · simp only [StoreOps.step, StoreOps.apply, specOps, hk, ↓reduceIte]
    · cases r with
      | true =>
        simp only [StoreOps.step, StoreOps.apply, specOps, hk, Bool.false_eq_true, ↓reduceIte]
        rw [List.filter_filter]
        apply List.filter_congr
        rintro ⟨q, n⟩ _
        by_cases h : k <+: q
        · have := hP q (Or.inr h)
          simp [this]
        · have : k.isPrefixOf q = false := by
            rw [← Bool.not_eq_true, List.isPrefixOf_iff_prefix]; exact h
          simp [this]
      | false =>
        by_cases hc : (fs.children k).isEmpty = true
        · simp only [StoreOps.step, StoreOps.apply, specOps, hk, hc, ↓reduceIte, Bool.false_eq_true]
          exact FS.filter_erase P _ k hself
        · simp only [StoreOps.step, StoreOps.apply, specOps, hk, hc, ↓reduceIte, Bool.false_eq_true]
  | makedir k =>
    simp only [StoreOp.key] at hself hanc
    simp only [StoreOps.step, StoreOps.apply, specOps]
    apply FS.filter_mkdirs
    intro a ha
    rcases List.mem_append.mp ha with h | h
    · exact hanc a h
    · split at h
      · simp at h
      · simp at h; subst h; exact hself

theorem FS.get_eq_head_filter (fs : FS) (k : Key) :
    fs.get k = ((fs.filter (fun kv => kv.1 == k)).head?).map (·.2) := by
  unfold FS.get
  rw [List.head?_filter]

theorem prefix_dropLast_of_ne {k q : Key} (h : k <+: q) (hne : k ≠ q) : k <+: q.dropLast := by
  obtain ⟨t, rfl⟩ := h
  have ht : t ≠ [] := by intro e; subst e; simp at hne
  rw [List.dropLast_append_of_ne_nil ht]
  exact List.prefix_append _ _

theorem spec_frame_get (fs : FS) (op : StoreOp) (k' : Key) (h : ¬ (k' <+: op.key ∨ op.key <+: k')) :
    (specOps.step fs op).get k' = fs.get k' := by
  rw [FS.get_eq_head_filter, FS.get_eq_head_filter, spec_frame_filter fs op (fun q => q == k')]
  intro q hq
  simp only [beq_eq_false_iff_ne, ne_eq]
  intro e
  subst e
  exact h hq

theorem spec_frame_children (fs : FS) (op : StoreOp) (k' : Key) (h : ¬ (k' <+: op.key ∨ op.key <+: k')) :
    (specOps.step fs op).children k' = fs.children k' := by
  unfold FS.children
  rw [spec_frame_filter fs op (fun q => !q.isEmpty && q.dropLast == k')]
  intro q hq
  rw [Bool.and_eq_false_iff]
  by_cases hd : q.dropLast = k'
  · subst hd
    exfalso
    apply h
    rcases hq with hq | hq
    · exact Or.inl ((List.dropLast_prefix q).trans hq)
    · by_cases e : op.key = q
      · left; rw [e]; exact List.dropLast_prefix q
      · right; exact prefix_dropLast_of_ne hq e
  · right; simpa using hd

/-- what `specOps` shows of a key is a function of its binding and of the names below it -/
def specObsOf (k : Key) (g : Option Node) (ch : List Str) : KeyObs :=
  { contains := .ok (k.isEmpty || g.isSome),
    isDir := .ok (k.isEmpty || g == some .dir),
    bytes := (match g with
      | some (.file d _) => .ok d
      | _ => .error .keyNotFound),
    metadata := (match g with
      | some (.file _ m) => .ok { key := k, name := keyName k, isDir := false, size := m.size, md5 := m.md5, user := m.user }
      | some .dir => .ok { key := k, name := keyName k, isDir := true, size := none, md5 := none, user := [] }
      | none => if k.isEmpty then .ok { key := k, name := [], isDir := true, size := none, md5 := none, user := [] }
                else .error .keyNotFound),
    listdir := if (k.isEmpty || g == some .dir) then .ok (some ch) else .ok none }

theorem specOps_obs_eq (fs : FS) (k : Key) : specOps.obs fs k = specObsOf k (fs.get k) (fs.children k) := rfl

theorem spec_frame_obs (fs : FS) (op : StoreOp) (k' : Key) (h : ¬ (k' <+: op.key ∨ op.key <+: k')) :
    specOps.obs (specOps.step fs op) k' = specOps.obs fs k' := by
  have hg := spec_frame_get fs op k' h
  have hc := spec_frame_children fs op k' h
  rw [specOps_obs_eq, specOps_obs_eq, hg, hc]

end Liquer

namespace Liquer

/-! ### exactly-once listing in every tree state -/

theorem count_map_of_inj {α β : Type} [BEq α] [LawfulBEq α] [BEq β] [LawfulBEq β] (f : α → β) (a : α) (l : List α)
    (h : ∀ x ∈ l, f x = f a → x = a) : (l.map f).count (f a) = l.count a := by
  induction l with
  | nil => rfl
  | cons x l ih =>
    rw [List.map_cons, List.count_cons, List.count_cons, ih (fun y hy => h y (List.mem_cons_of_mem _ hy))]
    by_cases hx : x = a
    · subst hx; simp
    · have : f x ≠ f a := fun e => hx (h x List.mem_cons_self e)
      simp [hx, this]

theorem FS.children_eq (fs : FS) (k : Key) :
    fs.children k = ((fs.map (·.1)).filter (fun q => !q.isEmpty && q.dropLast == k)).map keyName := by
  unfold FS.children
  rw [List.filter_map, List.map_map]
  rfl

/-- every present key occurs exactly once in `keys()` and its name exactly once in the listing of its parent,
which is a directory -/
theorem spec_listed_once {fs : FS} (ht : FS.Tree fs) {q : Key} (hq : (fs.get q).isSome = true) :
    (fs.map (·.1)).count q = 1 ∧ fs.isDirB (parentKey q) = true ∧ (fs.children (parentKey q)).count (keyName q) = 1 := by
  have hne : q ≠ [] := ht.nonroot q hq
  have hc : (fs.map (·.1)).count q = 1 := by
    rw [ht.nodup.count]
    simp [(FS.mem_keys_iff fs q).mpr hq]
  refine ⟨hc, ?_, ?_⟩
  · unfold FS.isDirB
    by_cases h2 : 2 ≤ q.length
    · rw [ht.anc q hq _ (parent_mem_ancestors h2)]; simp
    · have : parentKey q = [] := by
        unfold parentKey
        apply List.eq_nil_of_length_eq_zero
        rw [List.length_dropLast]; omega
      simp [this]
  · rw [FS.children_eq, count_map_of_inj keyName q]
    · rw [List.count_filter (by simp [hne, parentKey]), hc]
    · intro x hx hxq
      simp only [List.mem_filter, Bool.and_eq_true, Bool.not_eq_true', List.isEmpty_eq_false_iff, beq_iff_eq] at hx
      rw [key_eq_parent_name hx.2.1, key_eq_parent_name hne]
      unfold parentKey
      rw [hx.2.2, hxq]
      rfl

end Liquer

namespace Liquer

/-- in a tree nothing lies below a directory without children -/
theorem FS.Tree.no_descendants {fs : FS} (ht : FS.Tree fs) {k q : Key} (hc : (fs.children k).isEmpty = true)
    (hkq : k ∈ ancestors q) : fs.get q = none := by
  cases hq : fs.get q with
  | none => rfl
  | some n =>
    exfalso
    have hs : (fs.get q).isSome = true := by simp [hq]
    obtain ⟨c, hc1, hc2, hc3⟩ := child_on_way hkq
    have hcs : (fs.get c).isSome = true := by
      rcases hc1 with e | e
      · rw [e]; exact hs
      · simp [ht.anc q hs c e]
    exact (FS.children_isEmpty_iff fs k).mp hc c hcs hc2 hc3

end Liquer
