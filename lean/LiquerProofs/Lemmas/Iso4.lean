/-
C10 helpers, part 4: one evaluation step cut into named stages (`lookup`, `initRes`, `predEval`, `prep`, `finish`, `admitTo`),
the unfolding equations of `evalChain` / `evalArgs` in terms of them, and the `Stage` specification of every stage.
-/
import LiquerProofs.Lemmas.Iso3

namespace Liquer.Iso

def lookup (w : World) (key : Str) : World × Option HState := if w.cacheOn then w.get key else (w, none)

def initRes (w : World) : World × Res := ((initialState w).1, .st (initialState w).2)

def prep (w1 : World) (pred : HState) : World × HState :=
  if (w1.heap.metaAt pred.md).volatile then (w1, pred)
  else ({ w1 with heap := (cloneState w1.heap pred).1 }, (cloneState w1.heap pred).2)

def admitTo (w5 : World) (key : Str) (st : HState) (ok : Bool) : World :=
  if ok then w5.store key st else w5.remove key

def finish (key : Str) (pvol : Bool) (ctx : List (Str × HV)) (w3 : World) (old : HState) (name : Str) (args : List HV) :
    World × Res :=
  let w3 := { w3 with calls := w3.calls ++ [callText name (absHV w3.heap old.data) (args.map (absHV w3.heap))] }
  match cmdH w3.heap old ctx (String.ofList name) args with
  | .fail => (w3, .fail)
  | .ok h4 data vol caching =>
    let m := h4.metaAt old.md
    let m' := { m with query := key, status := statusReady, isError := false, volatile := pvol || vol,
                       caching := m.caching && caching }
    let st : HState := { data := data, md := old.md }
    (admitTo { w3 with heap := h4.write old.md (.md m') } key st (m'.caching && !m'.volatile), .st st)


theorem evalChain_hit {n : Nat} {w w' : World} {absolute : Bool} {acts : List Act} {st : HState}
    (h : lookup w (keyOf absolute acts) = (w', some st)) : evalChain (n + 1) w absolute acts = (w', .st st) := by
  rw [evalChain]; simp only [lookup] at h; simp only [h]

theorem evalChain_nil {n : Nat} {w w' : World} {absolute : Bool} {acts : List Act}
    (h : lookup w (keyOf absolute acts) = (w', none)) (hl : acts.getLast? = none) :
    evalChain (n + 1) w absolute acts = initRes w' := by
  rw [evalChain]; simp only [lookup] at h; simp only [h, hl]; rfl

/-- the predecessor evaluation of a non-empty chain -/
def predEval (n : Nat) (w : World) (absolute : Bool) (acts : List Act) : World × Res :=
  if acts.dropLast.isEmpty then initRes w else evalChain n w absolute acts.dropLast

theorem evalChain_predFail {n : Nat} {w w' w1 : World} {absolute : Bool} {acts : List Act} {act : Act}
    (h : lookup w (keyOf absolute acts) = (w', none)) (hl : acts.getLast? = some act)
    (hp : predEval n w' absolute acts = (w1, .fail)) :
    evalChain (n + 1) w absolute acts = (w1, .fail) := by
  rw [evalChain]; simp only [lookup] at h; simp only [h, hl]
  simp only [predEval, initRes] at hp
  simp only [hp]

theorem evalChain_argsFail {n : Nat} {w w' w1 w3 : World} {absolute : Bool} {acts : List Act} {act : Act} {pred : HState}
    (h : lookup w (keyOf absolute acts) = (w', none)) (hl : acts.getLast? = some act)
    (hp : predEval n w' absolute acts = (w1, .st pred))
    (ha : evalArgs n (prep w1 pred).1 act.args = (w3, none)) :
    evalChain (n + 1) w absolute acts = (w3, .fail) := by
  rw [evalChain]; simp only [lookup] at h; simp only [h, hl]
  simp only [predEval, initRes] at hp
  simp only [hp]
  simp only [prep] at ha
  split at ha <;> simp_all

theorem evalChain_finish {n : Nat} {w w' w1 w3 : World} {absolute : Bool} {acts : List Act} {act : Act} {pred : HState}
    {args : List HV}
    (h : lookup w (keyOf absolute acts) = (w', none)) (hl : acts.getLast? = some act)
    (hp : predEval n w' absolute acts = (w1, .st pred))
    (ha : evalArgs n (prep w1 pred).1 act.args = (w3, some args)) :
    evalChain (n + 1) w absolute acts =
      finish (keyOf absolute acts) (w1.heap.metaAt pred.md).volatile (w1.heap.metaAt pred.md).vars w3 (prep w1 pred).2
        act.name args := by
  rw [evalChain]; simp only [lookup] at h; simp only [h, hl]
  simp only [predEval, initRes] at hp
  simp only [hp]
  simp only [prep] at ha ⊢
  split at ha
  · rename_i hv
    simp only [hv, ↓reduceIte] at ha ⊢
    simp only [ha, finish, admitTo]
    generalize cmdH _ _ _ _ _ = c; cases c <;> rfl
  · rename_i hv
    simp only [hv] at ha ⊢
    simp only [Bool.false_eq_true, ↓reduceIte] at ha ⊢ 
    simp only [ha, finish, admitTo]
    generalize cmdH _ _ _ _ _ = c; cases c <;> rfl

theorem evalArgs_zero (w : World) (args : List Arg) : evalArgs 0 w args = (w, none) := by
  rw [evalArgs]

theorem evalArgs_nil (n : Nat) (w : World) : evalArgs (n + 1) w [] = (w, some []) := by
  rw [evalArgs]

theorem evalArgs_text {n : Nat} {w w1 : World} {t : Str} {rest : List Arg} {r : Option (List HV)}
    (h : evalArgs n w rest = (w1, r)) :
    evalArgs (n + 1) w (.text t :: rest) = (w1, r.map (fun vs => .imm (.str t) :: vs)) := by
  rw [evalArgs]; simp only [h]; cases r <;> rfl

theorem evalArgs_linkFail {n : Nat} {w w1 : World} {q : List Act} {rest : List Arg}
    (h : evalChain n w true q = (w1, .fail)) : evalArgs (n + 1) w (.link q :: rest) = (w1, none) := by
  rw [evalArgs]; simp only [h]

theorem evalArgs_link {n : Nat} {w w1 w2 : World} {q : List Act} {rest : List Arg} {v : HState} {r : Option (List HV)}
    (h : evalChain n w true q = (w1, .st v)) (h2 : evalArgs n w1 rest = (w2, r)) :
    evalArgs (n + 1) w (.link q :: rest) = (w2, r.map (fun vs => v.data :: vs)) := by
  rw [evalArgs]; simp only [h, h2]; cases r <;> rfl

/-! ### what is owned with a result -/

def resCells (h : Heap) : Res → List Addr
  | .st s => cellsState h s
  | .fail => []

def argCells : Option (List HV) → List Addr
  | some vs => vs.flatMap cellsHV
  | none => []

def optCells (h : Heap) : Option HState → List Addr
  | some s => cellsState h s
  | none => []

theorem Stage.sub_right {lo : Nat} {w w' : World} {L L' L'' : List Addr} (s : Stage lo w L w' L')
    (sub : ∀ a ∈ L'', a ∈ L') : Stage lo w L w' L'' :=
  ⟨s.inv, s.mod, s.own.sub sub, fun a ha hlt => s.sub a (sub a ha) hlt⟩

/-! ### cache look-up -/

theorem entry_mem {w : World} {k : Str} {e : HState} (h : w.entry k = some e) : (k, e) ∈ w.cache := by
  unfold World.entry at h
  rw [Option.map_eq_some_iff] at h
  obtain ⟨x, hx, rfl⟩ := h
  have h1 := List.mem_of_find?_eq_some hx
  have h2 : x.1 = k := by simpa using List.find?_some hx
  rw [← h2]; exact h1

theorem get_cases (w : World) (k : Str) :
    w.get k = (w, none) ∨ ∃ e, w.entry k = some e ∧ (w.heap.metaAt e.md).status = statusReady ∧
      w.get k = ({ w with heap := (cloneState w.heap e).1 }, some (cloneState w.heap e).2) := by
  unfold World.get
  split
  · exact Or.inl rfl
  · rename_i e he
    by_cases hs : (w.heap.metaAt e.md).status = statusReady
    · right; exact ⟨e, he, hs, by simp [hs]⟩
    · left; simp [hs]

theorem lookup_none {w w' : World} {k : Str} (h : lookup w k = (w', none)) : w' = w := by
  unfold lookup at h
  split at h
  · rcases get_cases w k with hg | ⟨e, _, _, hg⟩
    · rw [hg] at h; exact (Prod.mk.inj h).1.symm
    · rw [hg] at h; cases (Prod.mk.inj h).2
  · exact (Prod.mk.inj h).1.symm

theorem lookup_some {w w' : World} {k : Str} {st : HState} (h : lookup w k = (w', some st)) :
    ∃ e, w.cacheOn = true ∧ w.entry k = some e ∧ (w.heap.metaAt e.md).status = statusReady ∧
      w' = { w with heap := (cloneState w.heap e).1 } ∧ st = (cloneState w.heap e).2 := by
  unfold lookup at h
  split at h
  · rename_i hon
    rcases get_cases w k with hg | ⟨e, he, hs, hg⟩
    · rw [hg] at h; cases (Prod.mk.inj h).2
    · rw [hg] at h
      obtain ⟨h1, h2⟩ := Prod.mk.inj h
      exact ⟨e, hon, he, hs, h1.symm, (Option.some.inj h2).symm⟩
  · cases (Prod.mk.inj h).2

/-- cloning something is a stage that owns the clone in addition -/
theorem Stage.clone {w : World} {lo : Nat} {L : List Addr} (i : Inv w) (o : Own w lo L) (e : HState) :
    Stage lo w L { w with heap := (cloneState w.heap e).1 }
      (L ++ cellsState (cloneState w.heap e).1 (cloneState w.heap e).2) :=
  Stage.heap i o ((cloneState_ext _ _).toHMod L) (fun a ha => by
    rcases List.mem_append.1 ha with h | h
    · exact Or.inl h
    · exact Or.inr (cloneState_cells _ _ a h))

theorem lookup_stage {w w' : World} {k : Str} {r : Option HState} {lo : Nat} {L : List Addr}
    (h : lookup w k = (w', r)) (i : Inv w) (o : Own w lo L) :
    Stage lo w L w' (L ++ optCells w'.heap r) := by
  cases r with
  | none =>
    have := lookup_none h
    subst this
    simpa [optCells] using Stage.refl i o
  | some st =>
    obtain ⟨e, -, -, -, rfl, rfl⟩ := lookup_some h
    exact Stage.clone i o e

/-! ### the initial state -/

theorem initialState_eq (w : World) :
    initialState w =
      ({ w with heap := ((copyVars w.heap w.defaults).1.alloc (.md { vars := (copyVars w.heap w.defaults).2 })).1 },
       { data := .imm .none, md := (copyVars w.heap w.defaults).1.next }) := rfl

theorem initialState_world (w : World) : (initialState w).1 = { w with heap := (initialState w).1.heap } := rfl

theorem initialState_ext (w : World) : HExt w.heap (initialState w).1.heap := by
  rw [initialState_eq]
  exact (copyVars_ext _ _).trans (HExt.alloc _ _)

theorem initialState_metaAt (w : World) :
    (initialState w).1.heap.metaAt (initialState w).2.md = { vars := (copyVars w.heap w.defaults).2 } := by
  rw [initialState_eq]; simp

theorem initialState_cellsState (w : World) :
    cellsState (initialState w).1.heap (initialState w).2 =
      (copyVars w.heap w.defaults).1.next :: cellsVars (copyVars w.heap w.defaults).2 := by
  simp only [cellsState, cellsMeta, initialState_metaAt]
  rfl

theorem initialState_cells (w : World) :
    ∀ a ∈ cellsState (initialState w).1.heap (initialState w).2, w.heap.next ≤ a ∧ a < (initialState w).1.heap.next := by
  intro a ha
  rw [initialState_cellsState] at ha
  have e := (copyVars_ext w.defaults w.heap).mono
  have hn : (initialState w).1.heap.next = (copyVars w.heap w.defaults).1.next + 1 := rfl
  rw [hn]
  rcases List.mem_cons.1 ha with h | h
  · aomega
  · have := copyVars_cells _ _ a h; aomega

theorem initialState_nodup (w : World) : (cellsState (initialState w).1.heap (initialState w).2).Nodup := by
  rw [initialState_cellsState, List.nodup_cons]
  refine ⟨fun h => ?_, copyVars_nodup _ _⟩
  have := copyVars_cells _ _ _ h
  aomega

theorem initialState_abs (w : World) (lt : ∀ a ∈ cellsVars w.defaults, a < w.heap.next) :
    absState (initialState w).1.heap (initialState w).2 =
      { data := .none, query := [], status := [], isError := false, volatile := false, caching := true,
        vars := absVars w.heap w.defaults } := by
  have hv : absVars (initialState w).1.heap (copyVars w.heap w.defaults).2 = absVars w.heap w.defaults := by
    rw [← copyVars_abs _ _ lt]
    refine absVars_congr (fun a ha => ?_)
    have := copyVars_cells _ _ a ha
    rw [initialState_eq]
    have hne : a ≠ (copyVars w.heap w.defaults).1.next := by aomega
    simp [hne]
  simp only [absState, initialState_metaAt, hv]
  rfl

theorem initRes_stage {w : World} {lo : Nat} {L : List Addr} (i : Inv w) (o : Own w lo L) :
    Stage lo w L (initRes w).1 (L ++ resCells (initRes w).1.heap (initRes w).2) := by
  simp only [initRes, resCells]
  rw [initialState_world]
  exact Stage.heap i o ((initialState_ext w).toHMod L) (fun a ha => by
    rcases List.mem_append.1 ha with h | h
    · exact Or.inl h
    · exact Or.inr (initialState_cells w a h))

/-! ### the input state of the command -/

/-- the predecessor state stays owned (the context's variables are its objects), the input state of the command is owned -/
theorem prep_stage {w : World} {lo : Nat} {pred : HState} (i : Inv w) (o : Own w lo (cellsState w.heap pred)) :
    Stage lo w (cellsState w.heap pred) (prep w pred).1
      (cellsState w.heap pred ++ cellsState (prep w pred).1.heap (prep w pred).2) := by
  unfold prep
  split
  · exact (Stage.refl i o).sub_right (fun a ha => by simpa using ha)
  · exact Stage.clone i o pred

theorem prep_nodup {w : World} {pred : HState} (hv : (w.heap.metaAt pred.md).volatile = false) :
    (cellsState (prep w pred).1.heap (prep w pred).2).Nodup := by
  simp only [prep, hv]
  exact cloneState_nodup _ _

/-! ### admission to the cache -/

theorem Stage.filter {w : World} {lo : Nat} {L : List Addr} (i : Inv w) (o : Own w lo L) (p : Str × HState → Bool) :
    Stage lo w L { w with cache := w.cache.filter p } L := by
  have sub : ∀ e ∈ w.cache.filter p, e ∈ w.cache := fun e he => (List.mem_filter.1 he).1
  exact ⟨⟨i.wf, fun e he => i.cacheLt e (sub e he), i.dfltLt, i.cacheSep.sublist List.filter_sublist,
      fun e he => i.cacheDflt e (sub e he)⟩,
    ⟨fun _ _ _ => rfl, Nat.le_refl _, rfl, rfl, fun e he => Or.inl (sub e he)⟩,
    ⟨o.le, o.dflt, o.rng, fun e he => o.cache e (sub e he)⟩, fun _ h _ => h⟩

/-- the cache keeps a clone of `st` under `k` -/
theorem Stage.cloneEntry {w : World} {lo : Nat} {L : List Addr} (i : Inv w) (o : Own w lo L) (k : Str) (st : HState) :
    Stage lo w L { w with heap := (cloneState w.heap st).1, cache := (k, (cloneState w.heap st).2) :: w.cache } L := by
  have s1 := Stage.clone i o st
  have fresh := cloneState_cells w.heap st
  refine ⟨⟨s1.inv.wf, fun e hm a ha => ?_, s1.inv.dfltLt, ?_, fun e hm a h1 h2 => ?_⟩,
    ⟨s1.mod.frame, s1.mod.mono, rfl, rfl, fun e hm => ?_⟩,
    ⟨s1.own.le, s1.own.dflt, fun a ha => s1.own.rng a (List.mem_append.2 (Or.inl ha)), fun e hm a h1 h2 => ?_⟩,
    fun _ h _ => h⟩
  · rcases List.mem_cons.1 hm with rfl | hm
    · exact (fresh a ha).2
    · exact s1.inv.cacheLt e hm a ha
  · refine List.pairwise_cons.2 ⟨fun e hm a h1 h2 => ?_, s1.inv.cacheSep⟩
    exact s1.own.cache e hm a h2 (List.mem_append.2 (Or.inr h1))
  · rcases List.mem_cons.1 hm with rfl | hm
    · have := (fresh a h1).1; have := i.dfltLt a h2; aomega
    · exact s1.inv.cacheDflt e hm a h1 h2
  · rcases List.mem_cons.1 hm with rfl | hm
    · exact Or.inr (fun a ha => (fresh a ha).1)
    · exact Or.inl hm
  · rcases List.mem_cons.1 hm with rfl | hm
    · have := (fresh a h1).1; have := (o.rng a h2).2; aomega
    · exact s1.own.cache e hm a h1 (List.mem_append.2 (Or.inl h2))

theorem cellsState_write_md {h : Heap} {st : HState} {m : MetaRec} (hv : m.vars = (h.metaAt st.md).vars) :
    cellsState (h.write st.md (.md m)) st = cellsState h st := by
  simp [cellsState, cellsMeta, hv]

theorem store_stage {w : World} {lo : Nat} {k : Str} {st : HState} (i : Inv w) (o : Own w lo (cellsState w.heap st)) :
    Stage lo w (cellsState w.heap st) (w.store k st) (cellsState w.heap st) ∧
      cellsState (w.store k st).heap st = cellsState w.heap st := by
  unfold World.store
  split
  · exact ⟨Stage.refl i o, rfl⟩
  · have mdin := md_mem_cellsState w.heap st
    let m' : MetaRec := { w.heap.metaAt st.md with status := statusReady }
    have hc : cellsState (w.heap.write st.md (.md m')) st = cellsState w.heap st := cellsState_write_md rfl
    have s0 : Stage lo w (cellsState w.heap st) { w with heap := w.heap.write st.md (.md m') } (cellsState w.heap st) :=
      Stage.heap i o (HMod.write mdin (o.rng _ mdin).2 _) (fun a ha => Or.inl ha)
    have s1 := Stage.filter s0.inv s0.own (fun e => e.1 != k)
    have s2 := Stage.cloneEntry s1.inv s1.own k st
    refine ⟨(s0.trans s1).trans s2, ?_⟩
    have lt : st.md < (w.heap.write st.md (.md m')).next := (o.rng _ mdin).2
    exact (cellsState_congr ((cloneState_ext _ st).frame _ lt)).trans hc

theorem admit_stage {w : World} {lo : Nat} {k : Str} {st : HState} {ok : Bool} (i : Inv w)
    (o : Own w lo (cellsState w.heap st)) :
    Stage lo w (cellsState w.heap st) (admitTo w k st ok) (cellsState w.heap st) ∧
      cellsState (admitTo w k st ok).heap st = cellsState w.heap st := by
  unfold admitTo
  split
  · exact store_stage i o
  · exact ⟨Stage.filter i o _, rfl⟩

/-! ### the command and what follows it -/

theorem finish_stage {key : Str} {pvol : Bool} {ctx : List (Str × HV)} {w3 : World} {old : HState} {name : Str}
    {args : List HV} {lo : Nat} (i : Inv w3) (o : Own w3 lo (cmdFoot w3.heap old ctx args)) :
    Stage lo w3 (cmdFoot w3.heap old ctx args) (finish key pvol ctx w3 old name args).1
      (resCells (finish key pvol ctx w3 old name args).1.heap (finish key pvol ctx w3 old name args).2) := by
  unfold finish
  simp only
  split
  · exact ((Stage.refl i o).calls _).sub_right (fun a ha => by simp [resCells] at ha)
  · rename_i h4 data vol caching hc
    simp only [resCells]
    obtain ⟨hm, hcells⟩ := cmdH_frame hc (fun a ha => (o.rng a ha).2)
    have s4 : Stage lo w3 (cmdFoot w3.heap old ctx args) _ (cellsState h4 ⟨data, old.md⟩) :=
      (Stage.heap i o hm hcells).calls (w3.calls ++ [callText name (absHV w3.heap old.data) (args.map (absHV w3.heap))])
    let m' : MetaRec :=
      { h4.metaAt old.md with
        query := key, status := statusReady, isError := false, volatile := pvol || vol,
        caching := (h4.metaAt old.md).caching && caching }
    have hc5 : cellsState (h4.write old.md (.md m')) ⟨data, old.md⟩ = cellsState h4 ⟨data, old.md⟩ :=
      cellsState_write_md (st := ⟨data, old.md⟩) rfl
    have mdin := md_mem_cellsState h4 ⟨data, old.md⟩
    have s5 := Stage.heap (L' := cellsState h4 ⟨data, old.md⟩) s4.inv s4.own
      (HMod.write mdin (s4.own.rng _ mdin).2 (.md m')) (fun a ha => Or.inl ha)
    have o5 := s5.own
    rw [← hc5] at o5
    obtain ⟨s6, hc6⟩ := admit_stage (k := key) (st := ⟨data, old.md⟩) (ok := m'.caching && !m'.volatile) s5.inv o5
    rw [hc6]
    rw [hc5] at s6 ⊢
    exact (s4.trans s5).trans s6

end Liquer.Iso
