/-
State-level containment for the `FileStore` model: whatever an operation of `fileOps root` does to the
POSIX tree, every path that is not strictly below the root directory keeps its node — provided the root
and its ancestors exist as directories (`rootReady`), which the operations preserve.
-/
import LiquerProofs.Lemmas.StoreFile
import LiquerProofs.Lemmas.StoreSpec
import LiquerProofs.Lemmas.StoreMem

namespace Liquer

/-! ### `PFS.get` after `set` / `erase` -/

theorem PFS.get_eq_alGet (fs : PFS) (q : Path) : PFS.get fs q = if q.isEmpty then some .dir else alGet fs q := rfl

theorem PFS.get_erase_ne (fs : PFS) (p q : Path) (h : p ≠ q) : (fs.erase p).get q = fs.get q := by
  rw [PFS.get_eq_alGet, PFS.get_eq_alGet]
  by_cases hq : q.isEmpty = true
  · simp [hq]
  · simp only [hq, Bool.false_eq_true, ↓reduceIte]
    show alGet (alErase fs p) q = alGet fs q
    rw [alGet_erase]
    have : ¬ q = p := fun e => h e.symm
    simp [this]

theorem PFS.get_set_ne (fs : PFS) (p : Path) (n : PNode) (q : Path) (h : p ≠ q) : (fs.set p n).get q = fs.get q := by
  rw [PFS.get_eq_alGet, PFS.get_eq_alGet]
  by_cases hq : q.isEmpty = true
  · simp [hq]
  · simp only [hq, Bool.false_eq_true, ↓reduceIte]
    show alGet (alSet fs p n) q = alGet fs q
    rw [alGet_set]
    simp [h]

/-! ### the frame relation -/

/-- `p` lies strictly below `root` -/
def strictlyBelow (root p : Path) : Prop := root <+: p ∧ p ≠ root

/-- every path that is not strictly below the root keeps its node -/
def Frame (root : Path) (fs fs' : PFS) : Prop := ∀ p, ¬ strictlyBelow root p → fs'.get p = fs.get p

/-- the root directory and all its ancestors exist as directories -/
def rootReady (root : Path) (fs : PFS) : Prop := ∀ a, a <+: root → fs.get a = some .dir

theorem Frame.refl (root : Path) (fs : PFS) : Frame root fs fs := fun _ _ => rfl

theorem Frame.trans {root : Path} {a b c : PFS} (h1 : Frame root a b) (h2 : Frame root b c) : Frame root a c :=
  fun p hp => (h2 p hp).trans (h1 p hp)

theorem Frame.ready {root : Path} {fs fs' : PFS} (h : Frame root fs fs') (hr : rootReady root fs) : rootReady root fs' := by
  intro a ha
  rw [h a]
  · exact hr a ha
  · rintro ⟨h1, h2⟩
    exact h2 (ha.eq_of_length_le h1.length_le)

/-- what the property is about: a path outside the root is never changed -/
theorem Frame.outside {root : Path} {fs fs' : PFS} (h : Frame root fs fs') (p : Path) (hp : within root p = false) :
    fs'.get p = fs.get p := by
  apply h
  rintro ⟨h1, _⟩
  unfold within at hp
  rw [← Bool.not_eq_true, List.isPrefixOf_iff_prefix] at hp
  exact hp h1

theorem frame_set {root : Path} (fs : PFS) {p : Path} (n : PNode) (hp : strictlyBelow root p) : Frame root fs (fs.set p n) := by
  intro q hq
  apply PFS.get_set_ne
  intro e; subst e; exact hq hp

theorem frame_erase {root : Path} (fs : PFS) {p : Path} (hp : strictlyBelow root p) : Frame root fs (fs.erase p) := by
  intro q hq
  apply PFS.get_erase_ne
  intro e; subst e; exact hq hp

/-! ### the POSIX primitives -/

theorem frame_mkdirP_list {root : Path} (as : List Path) (p : Path) (hcmp : root <+: p ∨ p <+: root)
    (has : ∀ a ∈ as, a <+: p) :
    ∀ (fs fs' : PFS), rootReady root fs →
      as.foldlM (fun f a => match PFS.get f a with
        | none => (.ok (f.set a .dir) : Except StoreErr PFS)
        | some .dir => .ok f
        | some _ => .error .other) fs = .ok fs' → Frame root fs fs' := by
  induction as with
  | nil =>
    intro fs fs' _ h
    simp only [List.foldlM_nil, pure, Except.pure] at h
    cases h; exact Frame.refl _ _
  | cons a as ih =>
    intro fs fs' hr h
    rw [List.foldlM_cons] at h
    have hap : a <+: p := has a List.mem_cons_self
    cases hg : PFS.get fs a with
    | none =>
      simp only [hg, bind, Except.bind] at h
      -- an absent prefix of `p` cannot be a prefix of the root, so it lies strictly below it
      have hsb : strictlyBelow root a := by
        have hnot : ¬ a <+: root := fun hx => by rw [hr a hx] at hg; cases hg
        have hra : root <+: a := by
          rcases hcmp with h1 | h1
          · rcases List.prefix_or_prefix_of_prefix hap h1 with h2 | h2
            · exact absurd h2 hnot
            · exact h2
          · exact absurd (hap.trans h1) hnot
        exact ⟨hra, fun e => hnot (e ▸ List.prefix_refl _)⟩
      have hf := frame_set (root := root) fs .dir hsb
      exact hf.trans (ih (fun b hb => has b (List.mem_cons_of_mem _ hb)) _ _ (hf.ready hr) h)
    | some n =>
      cases n with
      | dir =>
        simp only [hg, bind, Except.bind] at h
        exact ih (fun b hb => has b (List.mem_cons_of_mem _ hb)) _ _ hr h
      | dfile d => simp [hg, bind, Except.bind] at h
      | mfile m => simp [hg, bind, Except.bind] at h

theorem frame_mkdirP {root : Path} {fs fs' : PFS} {p : Path} (hr : rootReady root fs) (hcmp : root <+: p ∨ p <+: root)
    (h : fs.mkdirP p = .ok fs') : Frame root fs fs' := by
  unfold PFS.mkdirP at h
  refine frame_mkdirP_list _ p hcmp ?_ fs fs' hr h
  intro a ha
  rcases List.mem_append.mp ha with h1 | h1
  · exact ancestors_prefix h1
  · split at h1
    · simp at h1
    · simp at h1; rw [h1]; exact List.prefix_refl _

theorem frame_write {root : Path} {fs fs' : PFS} {p : Path} {n : PNode} (hr : rootReady root fs) (hp : root <+: p)
    (h : fs.write p n = .ok fs') : Frame root fs fs' := by
  unfold PFS.write at h
  by_cases e : p = root
  · subst e
    rw [hr p (List.prefix_refl _)] at h
    simp at h
  · have hsb : strictlyBelow root p := ⟨hp, e⟩
    split at h
    · cases h
    · split at h
      · cases h; exact frame_set fs n hsb
      · cases h

theorem frame_unlinkMissingOk {root : Path} {fs fs' : PFS} {p : Path} (hr : rootReady root fs) (hp : root <+: p)
    (h : fs.unlinkMissingOk p = .ok fs') : Frame root fs fs' := by
  unfold PFS.unlinkMissingOk PFS.unlink at h
  by_cases e : p = root
  · subst e
    rw [hr p (List.prefix_refl _)] at h
    simp at h
  · have hsb : strictlyBelow root p := ⟨hp, e⟩
    cases hg : PFS.get fs p with
    | none =>
      by_cases hw : fs.fileOnWay p = true
      · simp [hg, hw] at h
      · simp only [hg, hw, Bool.false_eq_true, ↓reduceIte] at h
        cases h; exact Frame.refl _ _
    | some n =>
      cases n with
      | dir => simp [hg] at h
      | dfile d => simp only [hg] at h; cases h; exact frame_erase fs hsb
      | mfile m => simp only [hg] at h; cases h; exact frame_erase fs hsb

theorem frame_rmdir {root : Path} {fs fs' : PFS} {p : Path} (hp : strictlyBelow root p)
    (h : fs.rmdir p = .ok fs') : Frame root fs fs' := by
  unfold PFS.rmdir at h
  split at h
  · cases h
  · split at h
    · split at h
      · cases h; exact frame_erase fs hp
      · cases h
    · cases h

end Liquer

namespace Liquer

/-! ### the paths the operations use -/

theorem Except.bind_ok {ε α β : Type} {x : Except ε α} {f : α → Except ε β} {b : β} (h : (x >>= f) = .ok b) :
    ∃ a, x = .ok a ∧ f a = .ok b := by
  cases x with
  | error e => simp [bind, Except.bind] at h
  | ok a => exact ⟨a, rfl, by simpa [bind, Except.bind] using h⟩

theorem File.path_eq {root : Path} {k : Key} {p : Path} (h : File.path root k = .ok p) : p = root ++ compsParts k := by
  unfold File.path at h
  by_cases hok : compsOK k = true
  · obtain ⟨ha, hd⟩ := (compsOK_iff k).mp hok
    simp only [hok, Bool.not_true, Bool.false_eq_true, ↓reduceIte] at h
    split at h
    · rename_i hk
      have : k = [] := by simpa using hk
      subst this
      cases h; simp [compsParts]
    · split at h
      · cases h
      · cases h
        unfold pathOfC lexBase
        simp only [ha, Bool.false_eq_true, ↓reduceIte]
        exact osResolve_plain _ _ hd
  · simp [hok] at h

theorem File.metaPath_eq {root : Path} {k : Key} {mp : Path} (h : File.metaPath root k = .ok mp) :
    compsParts k ≠ [] ∧ ∃ nm, mp = root ++ ((compsParts k).dropLast ++ [metaDirName, nm]) := by
  unfold File.metaPath at h
  by_cases hok : compsMetaOK k = true
  · simp only [hok, Bool.not_true, Bool.false_eq_true, ↓reduceIte] at h
    unfold compsMetaOK at hok
    rw [Bool.and_eq_true] at hok
    obtain ⟨ha, hd⟩ := (compsOK_iff k).mp hok.1
    have hne : compsParts k ≠ [] := by intro e; rw [e] at hok; simp at hok
    split at h
    · cases h
    · cases h
      refine ⟨hne, (compsParts k).getLast hne ++ jsonExt, ?_⟩
      unfold metaPathOfC lexBase
      simp only [ha, Bool.false_eq_true, ↓reduceIte]
      rw [List.getLast?_eq_some_getLast hne]
      simp only
      apply osResolve_plain
      intro hm
      rcases List.mem_append.mp hm with h1 | h1
      · exact hd (List.dropLast_subset _ h1)
      · simp only [List.mem_cons, List.not_mem_nil, or_false] at h1
        rcases h1 with h1 | h1
        · exact absurd h1 (by decide)
        · exact jsonExt_ne_dotdot _ h1.symm
  · simp [hok] at h

theorem strictlyBelow_append (root : Path) {t : List Str} (ht : t ≠ []) : strictlyBelow root (root ++ t) := by
  refine ⟨List.prefix_append _ _, ?_⟩
  intro e
  have := congrArg List.length e
  simp at this
  exact ht this

/-! ### the operations -/

theorem frame_storeMeta {root : Path} {fs fs' : PFS} {k : Key} {m : UMeta} (hr : rootReady root fs)
    (h : File.storeMeta root fs k m = .ok fs') : Frame root fs fs' := by
  unfold File.storeMeta at h
  obtain ⟨mp, hmp, h⟩ := Except.bind_ok h
  obtain ⟨fs1, h1, h⟩ := Except.bind_ok h
  obtain ⟨_, nm, rfl⟩ := File.metaPath_eq hmp
  have f1 : Frame root fs fs1 := by
    apply frame_mkdirP hr _ h1
    left
    rw [← List.append_assoc, List.dropLast_append_of_ne_nil (by simp), List.append_assoc]
    exact List.prefix_append _ _
  exact f1.trans (frame_write (f1.ready hr) (List.prefix_append _ _) h)

theorem frame_store {root : Path} {fs fs' : PFS} {k : Key} {d : Data} {m : UMeta} (hr : rootReady root fs)
    (h : File.store root fs k d m = .ok fs') : Frame root fs fs' := by
  unfold File.store at h
  obtain ⟨p, hp, h⟩ := Except.bind_ok h
  obtain ⟨_, _, h⟩ := Except.bind_ok h
  obtain ⟨fs1, h1, h⟩ := Except.bind_ok h
  obtain ⟨fs2, h2, h⟩ := Except.bind_ok h
  have hpe := File.path_eq hp
  have f1 : Frame root fs fs1 := by
    apply frame_mkdirP hr _ h1
    by_cases e : compsParts k = []
    · right; rw [e, List.append_nil]; exact List.dropLast_prefix _
    · left; rw [List.dropLast_append_of_ne_nil e]; exact List.prefix_append _ _
  have f2 : Frame root fs1 fs2 := frame_write (f1.ready hr) (hpe ▸ List.prefix_append _ _) h2
  exact (f1.trans f2).trans (frame_storeMeta ((f1.trans f2).ready hr) h)

theorem frame_remove {root : Path} {fs fs' : PFS} {k : Key} (hr : rootReady root fs)
    (h : File.remove root fs k = .ok fs') : Frame root fs fs' := by
  unfold File.remove at h
  obtain ⟨p, hp, h⟩ := Except.bind_ok h
  obtain ⟨fs1, h1, h⟩ := Except.bind_ok h
  obtain ⟨mp, hmp, h⟩ := Except.bind_ok h
  have hpe := File.path_eq hp
  obtain ⟨_, nm, rfl⟩ := File.metaPath_eq hmp
  have f1 : Frame root fs fs1 := frame_unlinkMissingOk hr (hpe ▸ List.prefix_append _ _) h1
  exact f1.trans (frame_unlinkMissingOk (f1.ready hr) (List.prefix_append _ _) h)

theorem frame_makedir {root : Path} {fs fs' : PFS} {k : Key} (hr : rootReady root fs)
    (h : File.makedir root fs k = .ok fs') : Frame root fs fs' := by
  unfold File.makedir at h
  obtain ⟨p, hp, h⟩ := Except.bind_ok h
  obtain ⟨fs1, h1, h⟩ := Except.bind_ok h
  have hpe := File.path_eq hp
  have hrp : root <+: p := hpe ▸ List.prefix_append _ _
  have f1 : Frame root fs fs1 := frame_mkdirP hr (Or.inl hrp) h1
  exact f1.trans (frame_mkdirP (f1.ready hr) (Or.inl (hrp.trans (List.prefix_append _ _))) h)

theorem frame_foldlM {root : Path} {α : Type} (step : PFS → α → Except StoreErr PFS)
    (hstep : ∀ st a st', rootReady root st → step st a = .ok st' → Frame root st st') :
    ∀ (l : List α) (fs fs' : PFS), rootReady root fs → l.foldlM step fs = .ok fs' → Frame root fs fs' := by
  intro l
  induction l with
  | nil =>
    intro fs fs' _ h
    simp only [List.foldlM_nil, pure, Except.pure] at h
    cases h; exact Frame.refl _ _
  | cons a l ih =>
    intro fs fs' hr h
    rw [List.foldlM_cons] at h
    obtain ⟨st, h1, h⟩ := Except.bind_ok h
    have f1 := hstep fs a st hr h1
    exact f1.trans (ih st fs' (f1.ready hr) h)

theorem frame_removedirFuel {root : Path} (n : Nat) :
    ∀ (fs fs' : PFS) (k : Key) (r : Bool), rootReady root fs → File.removedirFuel root n fs k r = .ok fs' → Frame root fs fs' := by
  induction n with
  | zero => intro fs fs' k r _ h; simp [File.removedirFuel] at h
  | succ n ih =>
    intro fs fs' k r hr h
    unfold File.removedirFuel at h
    by_cases hk : k.isEmpty = true
    · simp only [hk, ↓reduceIte] at h
      cases h; exact Frame.refl _ _
    · simp only [hk, Bool.false_eq_true, ↓reduceIte] at h
      obtain ⟨fs1, h1, h⟩ := Except.bind_ok h
      have f1 : Frame root fs fs1 := by
        cases r with
        | false =>
          simp only [Bool.false_eq_true, ↓reduceIte, pure, Except.pure] at h1
          cases h1; exact Frame.refl _ _
        | true =>
          simp only [↓reduceIte] at h1
          obtain ⟨l, hl, h1⟩ := Except.bind_ok h1
          cases l with
          | none => simp at h1
          | some names =>
            simp only at h1
            refine frame_foldlM _ ?_ names fs fs1 hr h1
            intro st nm st' hst hs
            obtain ⟨b, hb, hs⟩ := Except.bind_ok hs
            cases b with
            | true => simp only [↓reduceIte] at hs; exact ih st st' _ true hst hs
            | false => simp only [Bool.false_eq_true, ↓reduceIte] at hs; exact frame_remove hst hs
      obtain ⟨mp, hmp, h⟩ := Except.bind_ok h
      obtain ⟨fs2, h2, h⟩ := Except.bind_ok h
      obtain ⟨p, hp, h⟩ := Except.bind_ok h
      obtain ⟨fs3, h3, h⟩ := Except.bind_ok h
      have hpe := File.path_eq hp
      obtain ⟨hne, nm, hmpe⟩ := File.metaPath_eq hmp
      have hps : strictlyBelow root p := hpe ▸ strictlyBelow_append root hne
      have f2 : Frame root fs1 fs2 := frame_unlinkMissingOk (f1.ready hr) (hmpe ▸ List.prefix_append _ _) h2
      have f3 : Frame root fs2 fs3 := by
        split at h3
        · apply frame_rmdir _ h3
          rw [hpe, List.append_assoc]
          exact strictlyBelow_append root (by simp)
        · simp only [pure, Except.pure] at h3
          cases h3; exact Frame.refl _ _
      exact ((f1.trans f2).trans f3).trans (frame_rmdir hps h)

/-- **state-level containment**: a successful operation of the `FileStore` model changes no path outside the
store's root directory (nor the root directory node itself) -/
theorem frame_apply {root : Path} {fs fs' : PFS} (op : StoreOp) (hr : rootReady root fs)
    (h : (fileOps root).apply fs op = .ok fs') : Frame root fs fs' := by
  cases op with
  | store k d m => exact frame_store hr h
  | storeMeta k m => exact frame_storeMeta hr h
  | remove k => exact frame_remove hr h
  | removedir k r => exact frame_removedirFuel _ fs fs' k r hr h
  | makedir k => exact frame_makedir hr h

theorem frame_step {root : Path} (fs : PFS) (op : StoreOp) (hr : rootReady root fs) :
    Frame root fs ((fileOps root).step fs op) := by
  unfold StoreOps.step
  cases h : (fileOps root).apply fs op with
  | ok fs' => exact frame_apply op hr h
  | error e => exact Frame.refl _ _

theorem frame_run {root : Path} (fs : PFS) (hist : List StoreOp) (hr : rootReady root fs) :
    Frame root fs ((fileOps root).run fs hist) := by
  induction hist generalizing fs with
  | nil => exact Frame.refl _ _
  | cons op rest ih =>
    simp only [StoreOps.run, List.foldl_cons]
    have f1 := frame_step fs op hr
    exact f1.trans (ih _ (f1.ready hr))

end Liquer
