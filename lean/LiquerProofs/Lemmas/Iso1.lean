/-
C10 helpers, part 1: heap basics and the copying functions of LiquerModel/Iso.lean.

`HExt h h'`: `h'` is `h` plus allocations (no cell below `h.next` changed).  Copies (`copyHV`, `copyVars`, `copyMeta`,
`cloneState`) only allocate, their cells are fresh and pairwise distinct, and they preserve the abstraction.
-/
import LiquerModel.Iso

namespace Liquer.Iso

/-- `omega` after unfolding the abbreviation `Addr` (it does not see through it) -/
macro "aomega" : tactic => `(tactic| ((try unfold Addr at *); omega))

/-- addresses at or above the allocation pointer are unused -/
def Heap.WF (h : Heap) : Prop := ∀ a, h.next ≤ a → h.cells a = none

/-- two address lists have no common element -/
def Disj (l₁ l₂ : List Addr) : Prop := ∀ a, a ∈ l₁ → a ∈ l₂ → False

theorem Disj.symm {l₁ l₂ : List Addr} (h : Disj l₁ l₂) : Disj l₂ l₁ := fun a h2 h1 => h a h1 h2

theorem Disj.nil_left (l : List Addr) : Disj [] l := fun _ h _ => by cases h
theorem Disj.nil_right (l : List Addr) : Disj l [] := fun _ _ h => by cases h

/-! ### read / write / alloc -/

@[simp] theorem Heap.write_cells (h : Heap) (a : Addr) (c : Cell) (x : Addr) :
    (h.write a c).cells x = if x = a then some c else h.cells x := rfl
@[simp] theorem Heap.write_next (h : Heap) (a : Addr) (c : Cell) : (h.write a c).next = h.next := rfl
@[simp] theorem Heap.alloc_cells (h : Heap) (c : Cell) (x : Addr) :
    (h.alloc c).1.cells x = if x = h.next then some c else h.cells x := rfl
@[simp] theorem Heap.alloc_next (h : Heap) (c : Cell) : (h.alloc c).1.next = h.next + 1 := rfl
@[simp] theorem Heap.alloc_addr (h : Heap) (c : Cell) : (h.alloc c).2 = h.next := rfl

theorem Heap.valAt_eq (h : Heap) (a : Addr) :
    h.valAt a = match h.cells a with | some (.val v) => v | _ => .none := rfl
theorem Heap.metaAt_eq (h : Heap) (a : Addr) :
    h.metaAt a = match h.cells a with | some (.md m) => m | _ => {} := rfl

theorem Heap.valAt_congr {h h' : Heap} {a : Addr} (e : h'.cells a = h.cells a) : h'.valAt a = h.valAt a := by
  simp [Heap.valAt_eq, e]
theorem Heap.metaAt_congr {h h' : Heap} {a : Addr} (e : h'.cells a = h.cells a) : h'.metaAt a = h.metaAt a := by
  simp [Heap.metaAt_eq, e]

@[simp] theorem Heap.valAt_write_same (h : Heap) (a : Addr) (v : Val) : (h.write a (.val v)).valAt a = v := by
  simp [Heap.valAt_eq]
@[simp] theorem Heap.metaAt_write_same (h : Heap) (a : Addr) (m : MetaRec) : (h.write a (.md m)).metaAt a = m := by
  simp [Heap.metaAt_eq]
theorem Heap.valAt_write_ne (h : Heap) {a b : Addr} (c : Cell) (n : b ≠ a) : (h.write a c).valAt b = h.valAt b := by
  simp [Heap.valAt_eq, n]
theorem Heap.metaAt_write_ne (h : Heap) {a b : Addr} (c : Cell) (n : b ≠ a) : (h.write a c).metaAt b = h.metaAt b := by
  simp [Heap.metaAt_eq, n]
@[simp] theorem Heap.valAt_write_md (h : Heap) (a : Addr) (m : MetaRec) : (h.write a (.md m)).valAt a = .none := by
  simp [Heap.valAt_eq]
@[simp] theorem Heap.metaAt_write_val (h : Heap) (a : Addr) (v : Val) : (h.write a (.val v)).metaAt a = {} := by
  simp [Heap.metaAt_eq]

@[simp] theorem Heap.valAt_alloc_same (h : Heap) (v : Val) : (h.alloc (.val v)).1.valAt h.next = v := by
  simp [Heap.valAt_eq]
@[simp] theorem Heap.metaAt_alloc_same (h : Heap) (m : MetaRec) : (h.alloc (.md m)).1.metaAt h.next = m := by
  simp [Heap.metaAt_eq]

theorem Heap.WF.write {h : Heap} (w : h.WF) {a : Addr} (lt : a < h.next) (c : Cell) : (h.write a c).WF := by
  intro x hx
  have : x ≠ a := by simp at hx; aomega
  simp [this, w x hx]

theorem Heap.WF.alloc {h : Heap} (w : h.WF) (c : Cell) : (h.alloc c).1.WF := by
  intro x hx
  simp at hx
  have : x ≠ h.next := by aomega
  simp [this, w x (by aomega)]

/-! ### extension by allocation -/

/-- `h'` is `h` plus allocations: no cell that existed in `h` changed -/
structure HExt (h h' : Heap) : Prop where
  frame : ∀ a, a < h.next → h'.cells a = h.cells a
  mono : h.next ≤ h'.next
  wf : h.WF → h'.WF

theorem HExt.refl (h : Heap) : HExt h h := ⟨fun _ _ => rfl, Nat.le_refl _, id⟩

theorem HExt.trans {h₁ h₂ h₃ : Heap} (a : HExt h₁ h₂) (b : HExt h₂ h₃) : HExt h₁ h₃ :=
  ⟨fun x hx => by rw [b.frame x (Nat.lt_of_lt_of_le hx a.mono), a.frame x hx], Nat.le_trans a.mono b.mono,
   fun w => b.wf (a.wf w)⟩

theorem HExt.alloc (h : Heap) (c : Cell) : HExt h (h.alloc c).1 :=
  ⟨fun a ha => by have : a ≠ h.next := by aomega
                  simp [this], by simp, fun w => w.alloc c⟩

theorem HExt.valAt {h h' : Heap} (e : HExt h h') {a : Addr} (lt : a < h.next) : h'.valAt a = h.valAt a :=
  Heap.valAt_congr (e.frame a lt)
theorem HExt.metaAt {h h' : Heap} (e : HExt h h') {a : Addr} (lt : a < h.next) : h'.metaAt a = h.metaAt a :=
  Heap.metaAt_congr (e.frame a lt)

/-! ### regions and abstraction depend only on the cells they mention -/

@[simp] theorem cellsVars_nil : cellsVars [] = [] := rfl
@[simp] theorem cellsVars_cons (k : Str) (v : HV) (vs : List (Str × HV)) :
    cellsVars ((k, v) :: vs) = cellsHV v ++ cellsVars vs := by simp [cellsVars]
theorem cellsVars_append (a b : List (Str × HV)) : cellsVars (a ++ b) = cellsVars a ++ cellsVars b := by
  simp [cellsVars]

theorem mem_cellsVars {vs : List (Str × HV)} {a : Addr} : a ∈ cellsVars vs ↔ ∃ k, (k, HV.ref a) ∈ vs := by
  induction vs with
  | nil => simp
  | cons kv vs ih =>
    obtain ⟨k, v⟩ := kv
    cases v with
    | imm v => simp [cellsHV, ih]
    | ref b =>
      simp only [cellsVars_cons, cellsHV, List.mem_append, ih, List.mem_cons, Prod.mk.injEq, HV.ref.injEq]
      constructor
      · rintro ((h | h) | ⟨k', h⟩)
        · exact ⟨k, Or.inl ⟨rfl, h⟩⟩
        · cases h
        · exact ⟨k', Or.inr h⟩
      · rintro ⟨k', (⟨_, h⟩ | h)⟩
        · exact Or.inl (Or.inl h)
        · exact Or.inr ⟨k', h⟩

theorem mem_cellsState {h : Heap} {st : HState} {a : Addr} :
    a ∈ cellsState h st ↔ a ∈ cellsHV st.data ∨ a = st.md ∨ a ∈ cellsVars (h.metaAt st.md).vars := by
  simp [cellsState, cellsMeta]

theorem md_mem_cellsState (h : Heap) (st : HState) : st.md ∈ cellsState h st := by simp [mem_cellsState]

theorem cellsState_congr {h h' : Heap} {st : HState} (e : h'.cells st.md = h.cells st.md) :
    cellsState h' st = cellsState h st := by
  simp [cellsState, cellsMeta, Heap.metaAt_congr e]

theorem absHV_congr {h h' : Heap} {v : HV} (e : ∀ a ∈ cellsHV v, h'.cells a = h.cells a) : absHV h' v = absHV h v := by
  cases v with
  | imm v => rfl
  | ref a => exact Heap.valAt_congr (e a (by simp [cellsHV]))

theorem absVars_congr {h h' : Heap} {vs : List (Str × HV)} (e : ∀ a ∈ cellsVars vs, h'.cells a = h.cells a) :
    absVars h' vs = absVars h vs := by
  induction vs with
  | nil => rfl
  | cons kv vs ih =>
    obtain ⟨k, v⟩ := kv
    simp only [cellsVars_cons, List.mem_append] at e
    simp only [absVars, List.map_cons, List.cons.injEq, Prod.mk.injEq, true_and]
    exact ⟨absHV_congr (fun a ha => e a (Or.inl ha)), ih (fun a ha => e a (Or.inr ha))⟩

theorem absState_congr {h h' : Heap} {st : HState} (e : ∀ a ∈ cellsState h st, h'.cells a = h.cells a) :
    absState h' st = absState h st := by
  have emd : h'.metaAt st.md = h.metaAt st.md := Heap.metaAt_congr (e _ (md_mem_cellsState h st))
  have ed : absHV h' st.data = absHV h st.data := absHV_congr (fun a ha => e a (by simp [mem_cellsState, ha]))
  have ev : absVars h' (h.metaAt st.md).vars = absVars h (h.metaAt st.md).vars :=
    absVars_congr (fun a ha => e a (by simp [mem_cellsState, ha]))
  simp [absState, emd, ed, ev]

@[simp] theorem absVars_nil (h : Heap) : absVars h [] = [] := rfl
@[simp] theorem absVars_cons (h : Heap) (k : Str) (v : HV) (vs : List (Str × HV)) :
    absVars h ((k, v) :: vs) = (k, absHV h v) :: absVars h vs := rfl
theorem absVars_append (h : Heap) (a b : List (Str × HV)) : absVars h (a ++ b) = absVars h a ++ absVars h b := by
  simp [absVars]

/-! ### the copying functions -/

theorem copyHV_ext (h : Heap) (v : HV) : HExt h (copyHV h v).1 := by
  cases v with
  | imm v => exact HExt.refl h
  | ref a => exact HExt.alloc h _

theorem copyHV_cells (h : Heap) (v : HV) : ∀ a ∈ cellsHV (copyHV h v).2, h.next ≤ a ∧ a < (copyHV h v).1.next := by
  cases v with
  | imm v => simp [copyHV, cellsHV]
  | ref a => simp [copyHV, cellsHV]

theorem copyHV_abs (h : Heap) (v : HV) : absHV (copyHV h v).1 (copyHV h v).2 = absHV h v := by
  cases v with
  | imm v => rfl
  | ref a => simp [copyHV, absHV]

theorem copyVars_cons (h : Heap) (k : Str) (v : HV) (rest : List (Str × HV)) :
    copyVars h ((k, v) :: rest) =
      ((copyVars (copyHV h v).1 rest).1, (k, (copyHV h v).2) :: (copyVars (copyHV h v).1 rest).2) := rfl

theorem copyVars_ext (vs : List (Str × HV)) : ∀ h, HExt h (copyVars h vs).1 := by
  induction vs with
  | nil => exact fun h => HExt.refl h
  | cons kv vs ih =>
    obtain ⟨k, v⟩ := kv
    intro h
    rw [copyVars_cons]
    exact (copyHV_ext h v).trans (ih _)

theorem copyVars_cells (vs : List (Str × HV)) :
    ∀ h, ∀ a ∈ cellsVars (copyVars h vs).2, h.next ≤ a ∧ a < (copyVars h vs).1.next := by
  induction vs with
  | nil => intro h a ha; simp [copyVars] at ha
  | cons kv vs ih =>
    obtain ⟨k, v⟩ := kv
    intro h a ha
    rw [copyVars_cons] at ha ⊢
    simp only [cellsVars_cons, List.mem_append] at ha
    have e1 := (copyHV_ext h v).mono
    have e2 := (copyVars_ext vs (copyHV h v).1).mono
    rcases ha with ha | ha
    · have := copyHV_cells h v a ha
      exact ⟨this.1, by simp only; aomega⟩
    · have := ih _ a ha
      exact ⟨by aomega, this.2⟩

theorem copyVars_nodup (vs : List (Str × HV)) : ∀ h, (cellsVars (copyVars h vs).2).Nodup := by
  induction vs with
  | nil => intro h; simp [copyVars]
  | cons kv vs ih =>
    obtain ⟨k, v⟩ := kv
    intro h
    rw [copyVars_cons]
    simp only [cellsVars_cons, List.nodup_append]
    refine ⟨?_, ih _, ?_⟩
    · cases v <;> simp [copyHV, cellsHV]
    · intro a ha b hb
      have h1 := copyHV_cells h v a ha
      have h2 := copyVars_cells vs _ b hb
      aomega

theorem copyVars_keys (vs : List (Str × HV)) : ∀ h, (copyVars h vs).2.map Prod.fst = vs.map Prod.fst := by
  induction vs with
  | nil => intro h; rfl
  | cons kv vs ih =>
    obtain ⟨k, v⟩ := kv
    intro h
    rw [copyVars_cons]
    simp [ih]

theorem copyVars_abs (vs : List (Str × HV)) :
    ∀ h, (∀ a ∈ cellsVars vs, a < h.next) → absVars (copyVars h vs).1 (copyVars h vs).2 = absVars h vs := by
  induction vs with
  | nil => intro h _; rfl
  | cons kv vs ih =>
    obtain ⟨k, v⟩ := kv
    intro h hlt
    simp only [cellsVars_cons, List.mem_append] at hlt
    rw [copyVars_cons]
    have e1 := copyHV_ext h v
    have e2 := copyVars_ext vs (copyHV h v).1
    simp only [absVars_cons, List.cons.injEq, Prod.mk.injEq, true_and]
    constructor
    · rw [← copyHV_abs h v]
      exact absHV_congr (fun a ha => e2.frame a (copyHV_cells h v a ha).2)
    · rw [ih _ (fun a ha => Nat.lt_of_lt_of_le (hlt a (Or.inr ha)) e1.mono)]
      exact absVars_congr (fun a ha => e1.frame a (hlt a (Or.inr ha)))

/-- the metadata record of the copy -/
theorem copyMeta_eq (h : Heap) (a : Addr) :
    copyMeta h a = ((copyVars h (h.metaAt a).vars).1.alloc (.md { h.metaAt a with vars := (copyVars h (h.metaAt a).vars).2 })) :=
  rfl

theorem copyMeta_ext (h : Heap) (a : Addr) : HExt h (copyMeta h a).1 := by
  rw [copyMeta_eq]
  exact (copyVars_ext _ h).trans (HExt.alloc _ _)

theorem copyMeta_addr (h : Heap) (a : Addr) : (copyMeta h a).2 = (copyVars h (h.metaAt a).vars).1.next := rfl

theorem copyMeta_next (h : Heap) (a : Addr) : (copyMeta h a).1.next = (copyVars h (h.metaAt a).vars).1.next + 1 := rfl

theorem copyMeta_metaAt (h : Heap) (a : Addr) :
    (copyMeta h a).1.metaAt (copyMeta h a).2 = { h.metaAt a with vars := (copyVars h (h.metaAt a).vars).2 } := by
  rw [copyMeta_eq]
  simp

theorem copyMeta_cells (h : Heap) (a : Addr) :
    ∀ x ∈ cellsMeta (copyMeta h a).1 (copyMeta h a).2, h.next ≤ x ∧ x < (copyMeta h a).1.next := by
  intro x hx
  simp only [cellsMeta, copyMeta_metaAt, List.mem_cons] at hx
  have e := (copyVars_ext (h.metaAt a).vars h).mono
  rw [copyMeta_next]
  rcases hx with hx | hx
  · rw [copyMeta_addr] at hx; aomega
  · have := copyVars_cells _ h x hx; aomega

theorem copyMeta_nodup (h : Heap) (a : Addr) : (cellsMeta (copyMeta h a).1 (copyMeta h a).2).Nodup := by
  simp only [cellsMeta, copyMeta_metaAt, List.nodup_cons]
  refine ⟨fun hx => ?_, copyVars_nodup _ h⟩
  have := copyVars_cells _ h _ hx
  rw [copyMeta_addr] at this
  aomega

/-! ### `State.clone()` -/

theorem cloneState_eq (h : Heap) (st : HState) :
    cloneState h st = ((copyHV (copyMeta h st.md).1 st.data).1,
      { data := (copyHV (copyMeta h st.md).1 st.data).2, md := (copyMeta h st.md).2 }) := rfl

theorem cloneState_ext (h : Heap) (st : HState) : HExt h (cloneState h st).1 := by
  rw [cloneState_eq]
  exact (copyMeta_ext h st.md).trans (copyHV_ext _ _)

theorem cloneState_cellsState (h : Heap) (st : HState) :
    cellsState (cloneState h st).1 (cloneState h st).2 =
      cellsHV (copyHV (copyMeta h st.md).1 st.data).2 ++ cellsMeta (copyMeta h st.md).1 (copyMeta h st.md).2 := by
  rw [cloneState_eq]
  simp only [cellsState, cellsMeta]
  have := (copyHV_ext (copyMeta h st.md).1 st.data).metaAt (a := (copyMeta h st.md).2)
    (by rw [copyMeta_addr, copyMeta_next]; aomega)
  rw [this]

theorem cloneState_cells (h : Heap) (st : HState) :
    ∀ x ∈ cellsState (cloneState h st).1 (cloneState h st).2, h.next ≤ x ∧ x < (cloneState h st).1.next := by
  intro x hx
  rw [cloneState_cellsState, List.mem_append] at hx
  have e1 := (copyMeta_ext h st.md).mono
  have e2 := (copyHV_ext (copyMeta h st.md).1 st.data).mono
  have : (cloneState h st).1.next = (copyHV (copyMeta h st.md).1 st.data).1.next := rfl
  rw [this]
  rcases hx with hx | hx
  · have := copyHV_cells _ _ x hx; aomega
  · have := copyMeta_cells h st.md x hx; aomega

theorem cloneState_nodup (h : Heap) (st : HState) : (cellsState (cloneState h st).1 (cloneState h st).2).Nodup := by
  rw [cloneState_cellsState, List.nodup_append]
  refine ⟨?_, copyMeta_nodup h st.md, ?_⟩
  · cases st.data <;> simp [copyHV, cellsHV]
  · intro a ha b hb
    have h1 := copyHV_cells _ _ a ha
    have h2 := copyMeta_cells h st.md b hb
    aomega

/-- the metadata record of the clone: the original's, with the copied variable dictionary -/
theorem cloneState_metaAt (h : Heap) (st : HState) :
    (cloneState h st).1.metaAt (cloneState h st).2.md =
      { h.metaAt st.md with vars := (copyVars h (h.metaAt st.md).vars).2 } := by
  rw [cloneState_eq]
  simp only
  rw [(copyHV_ext (copyMeta h st.md).1 st.data).metaAt (by rw [copyMeta_addr, copyMeta_next]; aomega)]
  exact copyMeta_metaAt h st.md

theorem cloneState_abs (h : Heap) (st : HState) (lt : ∀ a ∈ cellsState h st, a < h.next) :
    absState (cloneState h st).1 (cloneState h st).2 = absState h st := by
  have hm := cloneState_metaAt h st
  have e1 := copyMeta_ext h st.md
  have e2 := copyHV_ext (copyMeta h st.md).1 st.data
  have hd : absHV (cloneState h st).1 (cloneState h st).2.data = absHV h st.data := by
    rw [cloneState_eq]
    simp only
    rw [copyHV_abs]
    exact absHV_congr (fun a ha => e1.frame a (lt a (by simp [mem_cellsState, ha])))
  have hv : absVars (cloneState h st).1 (copyVars h (h.metaAt st.md).vars).2 = absVars h (h.metaAt st.md).vars := by
    rw [← copyVars_abs _ h (fun a ha => lt a (by simp [mem_cellsState, ha]))]
    refine absVars_congr (fun a ha => ?_)
    have hc := copyVars_cells _ h a ha
    rw [cloneState_eq]
    simp only
    rw [e2.frame a (by rw [copyMeta_next]; aomega)]
    rw [copyMeta_eq]
    have : a ≠ (copyVars h (h.metaAt st.md).vars).1.next := by aomega
    simp [this]
  simp [absState, hm, hd, hv]

end Liquer.Iso
