/-
C02 helper lemmas, part 6 (S2/S3): resource paths and resource segments; the follow conditions of
segments.
-/
import LiquerProofs.Lemmas.ParseList

namespace Liquer
open PS

variable {dec : List UInt8 → List Char}

/-! ### joined texts -/

/-- `/a/b/c` -/
def slashed (ns : List Str) : Str := ns.flatMap (fun x => '/' :: x)

theorem joinStr_cons (w : Str) (ws : List Str) : joinStr ['/'] (w :: ws) = w ++ slashed ws := by
  induction ws generalizing w with
  | nil => simp [joinStr, slashed]
  | cons v vs ih => simp only [joinStr, ih v]; simp [slashed]

theorem slashed_cons (w : Str) (ws : List Str) : slashed (w :: ws) = '/' :: (w ++ slashed ws) := by
  simp [slashed]

/-! ### follow conditions of segments -/

/-- the text begins with a segment header -/
def HeaderStart (r : Str) : Prop := (∃ t, r = '-' :: t) ∧ ∀ p, notSegStart ⟨r, p⟩ = false

/-- what follows a segment: the end of the query (if the segment may be the last one), or `/` and the
next segment, which has a header unless a header-less segment may follow -/
def Follow (mayPlain mayEnd : Bool) (rest : Str) : Prop :=
  (mayEnd = true ∧ qStop rest = true) ∨ ∃ r', rest = '/' :: r' ∧ (mayPlain = true ∨ HeaderStart r')

theorem Follow.dpStop {a b : Bool} {rest : Str} (h : Follow a b rest) : dpStop rest = true := by
  rcases h with ⟨_, h⟩ | ⟨r', rfl, _⟩
  · exact dpStop_of_qStop h
  · exact dpStop_slash _

theorem HeaderStart.stopAt_rn {r : Str} (h : HeaderStart r) : stopAt Inst.rnR1 r = true := by
  obtain ⟨⟨t, rfl⟩, _⟩ := h
  simp [stopAt, Inst.resourceName_first]

/-! ### resource paths -/

theorem lit_slash_qStop {rest : Str} {p : Nat} (hws : NoWs rest) (h : qStop rest = true) :
    lit ['/'] ⟨rest, p⟩ = none := by
  rcases qStop_cases h with rfl | ⟨t, rfl⟩
  · exact lit_nil_input (by simp)
  · exact lit_ne_head hws (by decide)

theorem resNamesMore_spec :
    ∀ (ns : List Str), ns.all (fullMatch Gen.resourceNameRe) = true →
      ∀ (rest : Str) (b : Bool), Follow false b rest → ∀ (p n : Nat), NoWs (slashed ns ++ rest) →
      ns.length ≤ n →
      ∃ p', parseResNamesMore n ⟨slashed ns ++ rest, p⟩ = (ns, ⟨rest, p'⟩) := by
  intro ns
  induction ns with
  | nil =>
    intro _ rest b hf p n hws _
    simp only [slashed, List.flatMap_nil, List.nil_append] at hws ⊢
    refine ⟨p, ?_⟩
    cases n with
    | zero => rfl
    | succ n =>
      rcases hf with ⟨_, hq⟩ | ⟨r', rfl, hr⟩
      · simp [parseResNamesMore, lit_slash_qStop hws hq]
      · rcases hr with hr | hr
        · cases hr
        · have : PS.re Gen.resourceNameRe ⟨r', p + 1⟩ = none := by
            rw [Inst.resourceName_shape]; exact re_fail_first hws.tail hr.stopAt_rn
          simp [parseResNamesMore, lit_cons hws, this]
  | cons x ns ih =>
    intro hall rest b hf p n hws hn
    simp only [List.all_cons, Bool.and_eq_true] at hall
    rw [slashed_cons] at hws ⊢
    simp only [List.cons_append, List.append_assoc] at hws ⊢
    cases n with
    | zero => simp at hn
    | succ n =>
      have hstop : dpStop (slashed ns ++ rest) = true := by
        cases ns with
        | nil => simpa [slashed] using hf.dpStop
        | cons y ys => simp [slashed_cons, dpStop]
      have hre := re_resourceName (p := p + 1) hall.1 hstop hws.tail
      obtain ⟨p', hp'⟩ := ih hall.2 rest b hf (p + 1 + x.length) n hws.tail.right
        (by simp only [List.length_cons] at hn; omega)
      refine ⟨p', ?_⟩
      simp only [parseResNamesMore, lit_cons hws, hre, hp']

theorem resPath_spec (x : Str) (ns : List Str)
    (hall : (x :: ns).all (fullMatch Gen.resourceNameRe) = true)
    (rest : Str) (b : Bool) (hf : Follow false b rest) (p : Nat)
    (hws : NoWs (joinStr ['/'] (x :: ns) ++ rest)) :
    ∃ p', parseResPath ⟨joinStr ['/'] (x :: ns) ++ rest, p⟩ = some (x :: ns, ⟨rest, p'⟩) := by
  simp only [List.all_cons, Bool.and_eq_true] at hall
  rw [joinStr_cons, List.append_assoc] at hws ⊢
  have hstop : dpStop (slashed ns ++ rest) = true := by
    cases ns with
    | nil => simpa [slashed] using hf.dpStop
    | cons y ys => simp [slashed_cons, dpStop]
  have hre := re_resourceName (p := p) hall.1 hstop hws
  have hlen : ns.length ≤ (slashed ns ++ rest).length := by
    have : ∀ l : List Str, l.length ≤ (slashed l).length := by
      intro l
      induction l with
      | nil => simp
      | cons y ys ih => rw [slashed_cons]; simp only [List.length_cons, List.length_append]; omega
    have := this ns
    simp only [List.length_append]; omega
  obtain ⟨p', hp'⟩ := resNamesMore_spec ns hall.2 rest b hf (p + x.length) _ hws.right hlen
  refine ⟨p', ?_⟩
  simp only [parseResPath, hre, hp']

/-- a resource path does not start with a dash -/
theorem parseResPath_dash {t : Str} {p : Nat} (hws : NoWs ('-' :: t)) :
    parseResPath ⟨'-' :: t, p⟩ = none := by
  have : PS.re Gen.resourceNameRe ⟨'-' :: t, p⟩ = none := by
    rw [Inst.resourceName_shape]
    exact re_fail_first hws (by simp [stopAt, Inst.resourceName_first])
  simp only [parseResPath, this]


/-! ### resource segments -/

/-- the part of a resource segment behind its header -/
def resTail (ns : List Str) : Str :=
  match ns with
  | [] => []
  | x :: ns => '/' :: joinStr ['/'] (x :: ns)

theorem fullMatch_resourceName_ne_nil {x : Str} (h : fullMatch Gen.resourceNameRe x = true) : x ≠ [] := by
  rw [Inst.resourceName_shape] at h
  obtain ⟨c, t, rfl, _⟩ := fullMatch_first h
  simp

theorem encode_resHeaded_eq (name : Str) (lvl : Nat) (ps : List Param) (ns : List Str) (hl : 1 ≤ lvl)
    (hns : ns.all (fullMatch Gen.resourceNameRe) = true) :
    (Seg.resource (some (.mk name lvl ps true)) ns).encode T =
      List.replicate lvl '-' ++ ('R' :: name ++ (encodeDashParams T ps ++ resTail ns)) := by
  rw [Seg.encode_resHeaded]
  have hh : (Header.mk name lvl ps true).encode T =
      List.replicate lvl '-' ++ ('R' :: name ++ encodeDashParams T ps) := by simp [Header.encode]
  have hne : ((Header.mk name lvl ps true).encode T).isEmpty = false := by
    rw [hh]
    cases lvl with
    | zero => omega
    | succ k => simp [List.replicate_succ]
  cases ns with
  | nil => simp [joinStr, resTail, hh]
  | cons x ns =>
    simp only [List.all_cons, Bool.and_eq_true] at hns
    have hx := fullMatch_resourceName_ne_nil hns.1
    have : (joinStr ['/'] (x :: ns)).isEmpty = false := by
      rw [joinStr_cons]
      cases x with
      | nil => exact absurd rfl hx
      | cons c t => rfl
    rw [this, hne]
    simp [resTail, hh]

/-- S3: a resource segment -/
theorem resSeg_spec (hd : DecOK dec) {d : Nat} (ih : LinkIH dec d) (name : Str) (lvl : Nat)
    (ps : List Param) (res : Bool) (ns : List Str)
    (hdep : (Seg.resource (some (.mk name lvl ps res)) ns).depth ≤ d)
    (hwf : wfSeg (.resource (some (.mk name lvl ps res)) ns) = true)
    (rest : Str) (b : Bool) (hf : Follow false b rest) (p n : Nat)
    (hws : NoWs ((Seg.resource (some (.mk name lvl ps res)) ns).encode T ++ rest))
    (hn : 8 * ((Seg.resource (some (.mk name lvl ps res)) ns).encode T).length + 6 ≤ n) :
    ∃ s' p', parseResSegWithHeader dec n ⟨(Seg.resource (some (.mk name lvl ps res)) ns).encode T ++ rest, p⟩ =
        some (s', ⟨rest, p'⟩) ∧ s'.erase = (Seg.resource (some (.mk name lvl ps res)) ns).erase := by
  simp only [wfSeg, Bool.and_eq_true, decide_eq_true_eq] at hwf
  obtain ⟨⟨⟨⟨⟨hres, hl⟩, hname⟩, hps⟩, hrp⟩, hns⟩ := hwf
  subst hres
  simp only [Seg.depth, Header.depth] at hdep
  rw [encode_resHeaded_eq name lvl ps ns hl hns] at hws hn ⊢
  simp only [List.append_assoc, List.cons_append] at hws ⊢
  simp only [List.length_append, List.length_cons, List.length_replicate] at hn
  cases n with
  | zero => omega
  | succ n =>
    have hstop2 : dpStop (resTail ns ++ rest) = true := by
      cases ns with
      | nil => simpa [resTail] using hf.dpStop
      | cons x xs => simp [resTail, dpStop]
    have hid := parseResIdent_ok (p := p) hl (resIdTail_of_nameOK hname)
      (pieceStop_dashParams ps hstop2) (by simpa using hws)
    simp only [List.cons_append] at hid
    obtain ⟨ps', p2, hps', hpe⟩ := dashParams_spec hd ih true ps hdep hps (fun _ => hrp)
      (resTail ns ++ rest) hstop2 (p + (List.replicate lvl '-' ++ 'R' :: name).length) n
      hws.right.tail.right (by omega)
    cases ns with
    | nil =>
      simp only [resTail, List.nil_append] at hps' hws hid ⊢
      refine ⟨.resource (some (.mk name lvl ps' true)) [], p2, ?_, by simp [Seg.erase, Header.erase, hpe]⟩
      rcases hf with ⟨_, hq⟩ | ⟨r', rfl, hr⟩
      · simp only [parseResSegWithHeader, hid, hps', lit_slash_qStop hws.right.tail.right.right hq]
      · rcases hr with hr | hr
        · cases hr
        · obtain ⟨⟨t, rfl⟩, _⟩ := hr
          have hw := hws.right.tail.right.right
          simp only [parseResSegWithHeader, hid, hps', lit_cons hw, parseResPath_dash hw.tail]
    | cons x xs =>
      simp only [resTail, List.cons_append] at hps' hws hid ⊢
      have hw := hws.right.tail.right.right
      obtain ⟨p3, hp3⟩ := resPath_spec x xs hns rest b hf (p2 + 1) hw.tail
      refine ⟨.resource (some (.mk name lvl ps' true)) (x :: xs), p3, ?_,
        by simp [Seg.erase, Header.erase, hpe]⟩
      simp only [parseResSegWithHeader, hid, hps', lit_cons hw, hp3]

end Liquer
