/-
C10 helpers, part 11: every result of an evaluation agrees with the value-level meaning of its chain, and the cache stays
sound — by induction on the fuel, mutually for `evalChain` / `evalArgs`, on top of the frame (`eval_frame`).
-/
import LiquerProofs.Lemmas.Iso10

namespace Liquer.Iso

variable {d : List (Str × Val)} {P : List Act → Prop}

theorem predRef_mono {n m : Nat} {acts : List Act} {r : RState} (h : predRef d n acts = some r) (le : n ≤ m) :
    predRef d m acts = some r := by
  unfold predRef at h ⊢
  split
  · rename_i he; simpa [he] using h
  · rename_i he; simp only [he] at h; exact refChain_mono h le

theorem lookup_cache {w w' : World} {k : Str} {r : Option HState} (h : lookup w k = (w', r)) : w'.cache = w.cache := by
  cases r with
  | none => rw [lookup_none h]
  | some st => obtain ⟨e, -, -, -, rfl, -⟩ := lookup_some h; rfl

theorem prep_cache (w : World) (pred : HState) : (prep w pred).1.cache = w.cache := by
  unfold prep; split <;> rfl

theorem initialState_agrees {w : World} (sw : SoundW d P w) (i : Inv w) :
    Agrees (initialState w).1.heap (initialState w).2 { vars := d } := by
  have ha := initialState_abs w i.dfltLt
  have hm := initialState_metaAt w
  refine ⟨?_, ?_, by rw [hm], by rw [hm], by rw [hm]; simp only; rw [copyVars_keys]; exact sw.dkeys⟩
  · have := congrArg AbsState.data ha
    simpa [absState] using this
  · have := congrArg AbsState.vars ha
    simp only [absState] at this
    rw [this]; exact sw.dflt

theorem prep_agrees {w : World} {pred : HState} {rp : RState} (ag : Agrees w.heap pred rp)
    (lt : ∀ x ∈ cellsState w.heap pred, x < w.heap.next) (nd : rp.volatile = true → (cellsState w.heap pred).Nodup) :
    Agrees (prep w pred).1.heap (prep w pred).2 rp ∧ (cellsState (prep w pred).1.heap (prep w pred).2).Nodup := by
  unfold prep
  split
  · rename_i hv
    exact ⟨ag, nd (by rw [← ag.volatile]; exact hv)⟩
  · exact ⟨ag.clone lt, cloneState_nodup _ _⟩

/-- preparing the input state writes no existing cell -/
theorem prep_frame (w : World) (pred : HState) : ∀ a, a < w.heap.next → (prep w pred).1.heap.cells a = w.heap.cells a := by
  intro a ha
  unfold prep
  split
  · rfl
  · exact (cloneState_ext w.heap pred).frame a ha

/-- the input state of a command after a non-volatile predecessor is made of new cells -/
theorem prep_fresh {w : World} {pred : HState} (hv : (w.heap.metaAt pred.md).volatile = false) :
    ∀ a ∈ cellsState (prep w pred).1.heap (prep w pred).2, w.heap.next ≤ a := by
  intro a ha
  simp only [prep, hv] at ha
  exact (cloneState_cells w.heap pred a ha).1

/-- what a result must satisfy -/
def ResOK (d : List (Str × Val)) (h : Heap) (acts : List Act) : Res → Prop
  | .fail => True
  | .st st => ∃ m r, refChain d m acts = some r ∧ Agrees h st r ∧ (r.volatile = true → (cellsState h st).Nodup)

def ArgsOK (d : List (Str × Val)) (h : Heap) (args : List Arg) : Option (List HV) → Prop
  | none => True
  | some vs => ∃ m, refArgs d m args = some (vs.map (absHV h))

theorem eval_sound (hC : Closed P) (hK : KeyOK d P) (hS : Safe d P) (n : Nat) :
    (∀ w absolute acts, Inv w → SoundW d P w → P acts → ∀ w' r, evalChain n w absolute acts = (w', r) →
      SoundW d P w' ∧ ResOK d w'.heap acts r) ∧
    (∀ w args, Inv w → SoundW d P w → (∀ q, Arg.link q ∈ args → P q) → ∀ w' r, evalArgs n w args = (w', r) →
      SoundW d P w' ∧ ArgsOK d w'.heap args r) := by
  induction n with
  | zero =>
    refine ⟨fun w absolute acts i sw hP w' r h => ?_, fun w args i sw hP w' r h => ?_⟩
    · rw [evalChain] at h
      obtain ⟨rfl, rfl⟩ := Prod.mk.inj h
      exact ⟨sw, trivial⟩
    · rw [evalArgs_zero] at h
      obtain ⟨rfl, rfl⟩ := Prod.mk.inj h
      exact ⟨sw, trivial⟩
  | succ n ih =>
    obtain ⟨ihC, ihA⟩ := ih
    obtain ⟨frC, frA⟩ := eval_frame n
    refine ⟨fun w absolute acts i sw hP w' r h => ?_, fun w args i sw hP w' r h => ?_⟩
    · -- evalChain
      rcases hL : lookup w (keyOf absolute acts) with ⟨wL, rL⟩
      have sL := lookup_stage hL i (Own.nil i)
      have gL : Good w wL ([] ++ optCells wL.heap rL) := (Good.refl i).step sL
      have swL : SoundW d P wL := sw.stage i (Own.nil i) sL (fun e he => by rw [lookup_cache hL] at he; exact he)
      cases rL with
      | some st =>
        rw [evalChain_hit hL] at h
        obtain ⟨rfl, rfl⟩ := Prod.mk.inj h
        refine ⟨swL, ?_⟩
        obtain ⟨e, -, he, -, rfl, rfl⟩ := lookup_some hL
        have hmem := entry_mem he
        obtain ⟨abs', acts', m, r, hP', hkey, href, hag, -, -, -⟩ := sw.entries _ hmem
        refine ⟨m, r, ?_, hag.clone (i.cacheLt _ hmem), fun _ => cloneState_nodup _ _⟩
        rw [← hK abs' absolute acts' acts hP' hP hkey m]; exact href
      | none =>
        have gL : Good w wL [] := gL
        cases hl : acts.getLast? with
        | none =>
          rw [evalChain_nil hL hl] at h
          have s0 := initRes_stage gL.inv gL.own
          have sw0 := swL.stage gL.inv gL.own s0 (fun e he => he)
          rw [h] at sw0
          refine ⟨sw0, ?_⟩
          have ag := initialState_agrees swL gL.inv
          have hr : r = .st (initialState wL).2 := (congrArg Prod.snd h).symm
          have hw : w' = (initialState wL).1 := (congrArg Prod.fst h).symm
          subst hr hw
          exact ⟨1, _, refChain_nil hl, ag, fun _ => initialState_nodup _⟩
        | some act =>
          rcases hp : predEval n wL absolute acts with ⟨w1, pre⟩
          have g1 : Good w w1 ([] ++ resCells w1.heap pre) := by
            unfold predEval at hp
            split at hp
            · have := gL.step (initRes_stage gL.inv gL.own)
              rw [hp] at this
              exact this
            · exact gL.sub (frC wL absolute _ gL.inv w1 pre hp)
          have sp : SoundW d P w1 ∧ ∀ pred, pre = .st pred → ∃ m rp, predRef d m acts = some rp ∧
              Agrees w1.heap pred rp ∧ (rp.volatile = true → (cellsState w1.heap pred).Nodup) := by
            unfold predEval at hp
            split at hp
            · rename_i hemp
              have s0 := initRes_stage gL.inv gL.own
              have sw0 := swL.stage gL.inv gL.own s0 (fun e he => he)
              rw [hp] at sw0
              refine ⟨sw0, fun pred hpre => ?_⟩
              have ag := initialState_agrees swL gL.inv
              have hr : pre = .st (initialState wL).2 := (congrArg Prod.snd hp).symm
              have hw : w1 = (initialState wL).1 := (congrArg Prod.fst hp).symm
              subst hw
              rw [hr] at hpre
              obtain rfl : (initialState wL).2 = pred := by simpa using hpre
              exact ⟨0, _, by simp [predRef, hemp], ag, fun _ => initialState_nodup _⟩
            · rename_i hemp
              have hemp' : acts.dropLast.isEmpty = false := by simpa using hemp
              obtain ⟨sw1, ok⟩ := ihC wL absolute _ gL.inv swL (hC.pre acts hP hemp') w1 pre hp
              refine ⟨sw1, fun pred hpre => ?_⟩
              rw [hpre] at ok
              obtain ⟨m, rp, h1, h2, h3⟩ := ok
              exact ⟨m, rp, by simp [predRef, hemp', h1], h2, h3⟩
          obtain ⟨sw1, okp⟩ := sp
          cases pre with
          | fail =>
            rw [evalChain_predFail hL hl hp] at h
            obtain ⟨rfl, rfl⟩ := Prod.mk.inj h
            exact ⟨sw1, trivial⟩
          | st pred =>
            obtain ⟨m1, rp, hpr, agp, ndp⟩ := okp pred rfl
            have g1 : Good w w1 (cellsState w1.heap pred) := g1
            have s2 := prep_stage g1.inv g1.own
            have g2 := g1.step s2
            have sw2 := sw1.stage g1.inv g1.own s2 (fun e he => by rw [prep_cache] at he; exact he)
            obtain ⟨ag2, nd2⟩ := prep_agrees agp (fun x hx => (g1.own.rng x hx).2) ndp
            rcases ha : evalArgs n (prep w1 pred).1 act.args with ⟨w3, ra⟩
            have gA := frA _ act.args g2.inv w3 ra ha
            have g3 := g2.sub gA
            obtain ⟨sw3, oka⟩ := ihA _ act.args g2.inv sw2 (fun q hq => hC.link acts act q hP hl hq) w3 ra ha
            cases ra with
            | none =>
              rw [evalChain_argsFail hL hl hp ha] at h
              obtain ⟨rfl, rfl⟩ := Prod.mk.inj h
              exact ⟨sw3, trivial⟩
            | some args =>
              rw [evalChain_finish hL hl hp ha] at h
              obtain ⟨m2, hra⟩ := oka
              have hce := gA.cells_eq
                (g2.own.rng _ (List.mem_append.2 (Or.inr (md_mem_cellsState _ (prep w1 pred).2)))).2
              have g3' : Good w w3 (cmdFoot w3.heap (prep w1 pred).2 (w1.heap.metaAt pred.md).vars args) :=
                g3.sub_right (fun a ha => by
                  rcases mem_cmdFoot.1 ha with h1 | ⟨v, hv, h1⟩ | h1
                  · rw [hce] at h1
                    exact List.mem_append.2 (Or.inl (List.mem_append.2 (Or.inr h1)))
                  · exact List.mem_append.2 (Or.inr (by simp only [argCells, List.mem_flatMap]; exact ⟨v, hv, h1⟩))
                  · exact List.mem_append.2 (Or.inl (List.mem_append.2 (Or.inl (by simp [mem_cellsState, h1])))))
              have oldlt : ∀ x ∈ cellsState (prep w1 pred).1.heap (prep w1 pred).2, x < (prep w1 pred).1.heap.next :=
                fun x hx => (g2.own.rng x (List.mem_append.2 (Or.inr hx))).2
              have ag3 : Agrees w3.heap (prep w1 pred).2 rp :=
                ag2.congr (fun x hx => gA.post.frame x (oldlt x hx))
              have nd3 : (cellsState w3.heap (prep w1 pred).2).Nodup := by rw [hce]; exact nd2
              have dj : ∀ a ∈ cellsState w3.heap (prep w1 pred).2, ∀ v ∈ args, a ∉ cellsHV v := by
                intro a ha v hv hx
                rw [hce] at ha
                have h1 := oldlt a ha
                have h2 := (gA.own.rng a (by simp only [argCells, List.mem_flatMap]; exact ⟨v, hv, hx⟩)).1
                aomega
              -- the context's variables: the objects of the predecessor, unchanged since it was returned
              have ctxlt : ∀ x ∈ cellsVars (w1.heap.metaAt pred.md).vars, x < w1.heap.next :=
                fun x hx => (g1.own.rng x (by simp [mem_cellsState, hx])).2
              have hctx : absVars w3.heap (w1.heap.metaAt pred.md).vars = rp.vars := by
                rw [← agp.vars]
                refine absVars_congr (fun x hx => ?_)
                rw [gA.post.frame x (Nat.lt_of_lt_of_le (ctxlt x hx) s2.mod.mono), prep_frame w1 pred x (ctxlt x hx)]
              have cj : rp.volatile = false → ∀ a ∈ cellsVars (w1.heap.metaAt pred.md).vars,
                  a ∉ cellsState w3.heap (prep w1 pred).2 := by
                intro hnv a ha hx
                rw [hce] at hx
                have h1 := ctxlt a ha
                have h2 := prep_fresh (agp.volatile.trans hnv) a hx
                aomega
              have fs := finish_sound (key := keyOf absolute acts) (pvol := (w1.heap.metaAt pred.md).volatile)
                (name := act.name) sw3 g3'.inv g3'.own ag3 agp.volatile nd3 dj hctx cj
                (fun r' hr' => ⟨absolute, acts, max m1 m2 + 1, hP, rfl, by
                  rw [refChain_succ hl, predRef_mono hpr (Nat.le_max_left m1 m2), Option.bind_some,
                    refArgs_mono hra (Nat.le_max_right m1 m2), Option.bind_some]
                  exact hr'⟩)
                (fun e => hS acts act hP hl e m1 rp hpr)
              rw [h] at fs
              refine ⟨fs.1, ?_⟩
              cases r with
              | fail => trivial
              | st st =>
                obtain ⟨r', hr', ag', nd'⟩ := fs.2 st rfl
                refine ⟨max m1 m2 + 1, r', ?_, ag', nd'⟩
                rw [refChain_succ hl, predRef_mono hpr (Nat.le_max_left m1 m2), Option.bind_some,
                  refArgs_mono hra (Nat.le_max_right m1 m2), Option.bind_some]
                exact hr'
    · -- evalArgs
      cases args with
      | nil =>
        rw [evalArgs_nil] at h
        obtain ⟨rfl, rfl⟩ := Prod.mk.inj h
        exact ⟨sw, 1, by rw [refArgs_nil]; rfl⟩
      | cons arg rest =>
        cases arg with
        | text t =>
          rcases hr : evalArgs n w rest with ⟨w1, r1⟩
          obtain ⟨sw1, ok⟩ := ihA w rest i sw (fun q hq => hP q (List.mem_cons_of_mem _ hq)) w1 r1 hr
          rw [evalArgs_text hr] at h
          obtain ⟨rfl, rfl⟩ := Prod.mk.inj h
          refine ⟨sw1, ?_⟩
          cases r1 with
          | none => trivial
          | some vs =>
            obtain ⟨m, hm⟩ := ok
            exact ⟨m + 1, by rw [refArgs_text, hm]; rfl⟩
        | link q =>
          rcases hq : evalChain n w true q with ⟨w1, rq⟩
          have g1 := frC w true q i w1 rq hq
          obtain ⟨sw1, ok1⟩ := ihC w true q i sw (hP q (by simp)) w1 rq hq
          cases rq with
          | fail =>
            rw [evalArgs_linkFail hq] at h
            obtain ⟨rfl, rfl⟩ := Prod.mk.inj h
            exact ⟨sw1, trivial⟩
          | st v =>
            rcases hr : evalArgs n w1 rest with ⟨w2, r2⟩
            have g2 := frA w1 rest g1.inv w2 r2 hr
            obtain ⟨sw2, ok2⟩ := ihA w1 rest g1.inv sw1 (fun q hq => hP q (List.mem_cons_of_mem _ hq)) w2 r2 hr
            rw [evalArgs_link hq hr] at h
            obtain ⟨rfl, rfl⟩ := Prod.mk.inj h
            refine ⟨sw2, ?_⟩
            cases r2 with
            | none => trivial
            | some vs =>
              obtain ⟨m1, r, href, ag, -⟩ := ok1
              obtain ⟨m2, hm2⟩ := ok2
              have hd : absHV w2.heap v.data = r.data := by
                rw [← ag.data]
                exact absHV_congr (fun x hx => g2.post.frame x
                  (g1.own.rng x (by simp [resCells, mem_cellsState, hx])).2)
              refine ⟨max m1 m2 + 1, ?_⟩
              rw [refArgs_link, refChain_mono href (Nat.le_max_left m1 m2), Option.bind_some,
                refArgs_mono hm2 (Nat.le_max_right m1 m2)]
              simp [hd]

end Liquer.Iso
