/-
C12, file-operation granularity (2): the invariant of concurrently running `FileCache` writers of ONE key.

Threads: any writer of the key is a *store* writer (`stepsS`: unlink metadata file, unlink data file, write-close-rename the data
through its own temporary, write-close-rename the ready metadata through its own temporary) or a *progress* writer (`stepsM`:
write-close-rename metadata that does not say `ready`).  All store writers write the same data bytes `X`.

* local part (`LocalS`, `LocalM`): what the thread's own temporaries hold at each of its positions — stable under the steps of every
  thread that uses other temporaries (`LocalS_frame`, `LocalM_frame`);
* global part (`G t dd`), with two monotone ghost flags: `t` = "somebody has already touched the metadata file" (executed its
  `unlink` or published by `rename`), `dd` = "somebody has already published the data file":
  - `¬ t`: the files of the key are those of the initial directory;
  - `t`: the metadata file is absent, or holds a progress record, or holds the ready record of a store writer **and** `dd`;
  - `dd`: the data file is absent or holds the complete bytes `X`.
  One step of a store writer at position `p` (`storeStep`) or of a progress writer (`metaStep`) preserves it.
-/
import LiquerProofs.Lemmas.ConcFile1

namespace Liquer
namespace Crash

/-- the step list of a store writer, over the file names and payloads -/
def stepsS (hk e : Str) (n1 n2 : Nat) (X M : Data) : List (Step FName) :=
  [.unlink (.state hk), .unlink (.data hk e)] ++ writeFileN (.tmp n1) (.data hk e) X ++ writeFileN (.tmp n2) (.state hk) M

def stepsM (hk : Str) (n : Nat) (M : Data) : List (Step FName) := writeFileN (.tmp n) (.state hk) M

theorem storeStepsN_eq_stepsS (c : FileCfg) (n1 n2 : Nat) (st : CState) :
    storeStepsN c (.tmp n1) (.tmp n2) st = stepsS (c.h st.metadata.query) (c.ext st.metadata.typeId) n1 n2
      (c.enc (c.serD st.metadata.typeId st.data)) (c.enc (c.serM { st.metadata with status := ready })) := rfl

theorem storeMetaStepsN_eq_stepsM (c : FileCfg) (n : Nat) (m : CMeta) :
    storeMetaStepsN c (.tmp n) m = stepsM (c.h m.query) n (c.enc (c.serM m)) := rfl

def SameKey (hk : Str) (d d0 : CDir) : Prop :=
  AL.get d (.state hk) = AL.get d0 (.state hk) ∧ ∀ e, AL.get d (.data hk e) = AL.get d0 (.data hk e)

structure G (hk e : Str) (X : Data) (d0 : CDir) (PS PN : Data → Prop) (t dd : Prop) (d : CDir) : Prop where
  same : ¬ t → SameKey hk d d0
  st : t → AL.get d (.state hk) = none ∨ (∃ b, AL.get d (.state hk) = some b ∧ PN b) ∨
    (∃ b, AL.get d (.state hk) = some b ∧ PS b ∧ dd)
  dat : dd → AL.get d (.data hk e) = none ∨ AL.get d (.data hk e) = some X

theorem G.flags {hk e X d0 PS PN} {t dd t' dd' : Prop} {d : CDir} (h : G hk e X d0 PS PN t dd d) (h1 : t ↔ t') (h2 : dd ↔ dd') :
    G hk e X d0 PS PN t' dd' d := by
  rw [← propext h1, ← propext h2]; exact h

/-- a step that touches neither the metadata file nor any data file of the key keeps the global part -/
theorem G.frame {hk e X d0 PS PN} {t dd : Prop} {d : CDir} (h : G hk e X d0 PS PN t dd d) (s : Step FName)
    (hs : FName.state hk ∉ s.names) (hd : ∀ e', FName.data hk e' ∉ s.names) : G hk e X d0 PS PN t dd (execC d s) := by
  refine ⟨fun ht => ?_, fun ht => ?_, fun hdd => ?_⟩
  · obtain ⟨h1, h2⟩ := h.same ht
    exact ⟨by rw [get_execC_untouched d s _ hs, h1], fun e' => by rw [get_execC_untouched d s _ (hd e'), h2]⟩
  · rw [get_execC_untouched d s _ hs]; exact h.st ht
  · rw [get_execC_untouched d s _ (hd e)]; exact h.dat hdd

def LocalS (n1 n2 : Nat) (X M : Data) (p : Nat) (d : CDir) : Prop :=
  (p = 3 → AL.get d (.tmp n1) = some []) ∧ ((p = 4 ∨ p = 5) → AL.get d (.tmp n1) = some X) ∧
  (p = 7 → AL.get d (.tmp n2) = some []) ∧ ((p = 8 ∨ p = 9) → AL.get d (.tmp n2) = some M)

def LocalM (n : Nat) (M : Data) (p : Nat) (d : CDir) : Prop :=
  (p = 1 → AL.get d (.tmp n) = some []) ∧ ((p = 2 ∨ p = 3) → AL.get d (.tmp n) = some M)

theorem LocalS_frame {n1 n2 X M p d} (s : Step FName) (h1 : FName.tmp n1 ∉ s.names) (h2 : FName.tmp n2 ∉ s.names)
    (h : LocalS n1 n2 X M p d) : LocalS n1 n2 X M p (execC d s) := by
  unfold LocalS
  rw [get_execC_untouched d s _ h1, get_execC_untouched d s _ h2]; exact h

theorem LocalM_frame {n M p d} (s : Step FName) (h1 : FName.tmp n ∉ s.names) (h : LocalM n M p d) : LocalM n M p (execC d s) := by
  unfold LocalM
  rw [get_execC_untouched d s _ h1]; exact h

theorem stepsS_names {hk e n1 n2 X M} {s : Step FName} (hs : s ∈ stepsS hk e n1 n2 X M) :
    ∀ n ∈ s.names, n = .state hk ∨ n = .data hk e ∨ n = .tmp n1 ∨ n = .tmp n2 := by
  intro n hn
  simp only [stepsS, writeFileN, List.cons_append, List.nil_append, List.mem_cons, List.not_mem_nil, or_false] at hs
  rcases hs with rfl | rfl | rfl | rfl | rfl | rfl | rfl | rfl | rfl | rfl <;>
    simp only [Step.names, List.mem_cons, List.not_mem_nil, or_false] at hn <;> (try rcases hn with rfl | rfl) <;>
    (try subst hn) <;> simp

theorem stepsM_names {hk n M} {s : Step FName} (hs : s ∈ stepsM hk n M) : ∀ nm ∈ s.names, nm = .state hk ∨ nm = .tmp n := by
  intro nm hn
  simp only [stepsM, writeFileN, List.mem_cons, List.not_mem_nil, or_false] at hs
  rcases hs with rfl | rfl | rfl | rfl <;>
    simp only [Step.names, List.mem_cons, List.not_mem_nil, or_false] at hn <;> (try rcases hn with rfl | rfl) <;>
    (try subst hn) <;> simp

/-- **one step of a store writer** standing at position `p` -/
theorem storeStep {hk e : Str} {X : Data} {d0 : CDir} {PS PN : Data → Prop} (n1 n2 : Nat) (M : Data) (h12 : n1 ≠ n2) (hM : PS M)
    (p : Nat) (s : Step FName) (hs : (stepsS hk e n1 n2 X M)[p]? = some s) (d : CDir) (t dd : Prop)
    (hL : LocalS n1 n2 X M p d) (hG : G hk e X d0 PS PN t dd d) (ht : 1 ≤ p → t) (hdd : 6 ≤ p → dd) :
    LocalS n1 n2 X M (p + 1) (execC d s) ∧ G hk e X d0 PS PN True (dd ∨ 5 ≤ p) (execC d s) := by
  have h21 : n2 ≠ n1 := fun h => h12 h.symm
  obtain ⟨l3, l45, l7, l89⟩ := hL
  -- the metadata part of the global invariant when the step leaves the metadata file alone and `t` already holds
  have keepSt : ∀ (d' : CDir), AL.get d' (.state hk) = AL.get d (.state hk) → t →
      (AL.get d' (.state hk) = none ∨ (∃ b, AL.get d' (.state hk) = some b ∧ PN b) ∨
        (∃ b, AL.get d' (.state hk) = some b ∧ PS b ∧ (dd ∨ 5 ≤ p))) := by
    intro d' h' ht'
    rw [h']
    rcases hG.st ht' with h | h | ⟨b, hb, hp, hd⟩
    · exact Or.inl h
    · exact Or.inr (Or.inl h)
    · exact Or.inr (Or.inr ⟨b, hb, hp, Or.inl hd⟩)
  obtain _ | _ | _ | _ | _ | _ | _ | _ | _ | _ | p := p
  · -- unlink the metadata file
    simp [stepsS, writeFileN] at hs; subst hs
    refine ⟨by simp [LocalS], fun _ => ?_, fun _ => Or.inl (by simp [execC, AL.get_erase]), fun hd => ?_⟩
    · exact absurd trivial ‹¬ True›
    · have hd' : dd := by rcases hd with h | h; exact h; omega
      simpa [execC, AL.get_erase] using hG.dat hd'
  · -- unlink the data file
    simp [stepsS, writeFileN] at hs; subst hs
    refine ⟨by simp [LocalS], fun h => absurd trivial h, fun _ => keepSt _ (by simp [execC, AL.get_erase]) (ht (by omega)),
      fun _ => Or.inl (by simp [execC, AL.get_erase])⟩
  · -- create the data temporary
    simp [stepsS, writeFileN] at hs; subst hs
    refine ⟨by simp [LocalS, execC, AL.get_set], fun h => absurd trivial h,
      fun _ => keepSt _ (by simp [execC, AL.get_set]) (ht (by omega)), fun hd => ?_⟩
    have hd' : dd := by rcases hd with h | h; exact h; omega
    simpa [execC, AL.get_set] using hG.dat hd'
  · -- write the data
    simp [stepsS, writeFileN] at hs; subst hs
    have h3 := l3 rfl
    refine ⟨by simp [LocalS, execC, h3, AL.get_set], fun h => absurd trivial h,
      fun _ => keepSt _ (by simp [execC, h3, AL.get_set]) (ht (by omega)), fun hd => ?_⟩
    have hd' : dd := by rcases hd with h | h; exact h; omega
    simpa [execC, h3, AL.get_set] using hG.dat hd'
  · -- close
    simp [stepsS, writeFileN] at hs; subst hs
    have h4 := l45 (Or.inl rfl)
    refine ⟨by simp [LocalS, execC, h4], fun h => absurd trivial h, fun _ => keepSt _ rfl (ht (by omega)), fun hd => ?_⟩
    have hd' : dd := by rcases hd with h | h; exact h; omega
    exact hG.dat hd'
  · -- publish the data file
    simp [stepsS, writeFileN] at hs; subst hs
    have h5 := l45 (Or.inr rfl)
    refine ⟨by simp [LocalS], fun h => absurd trivial h,
      fun _ => keepSt _ (by simp [execC, h5, AL.get_set, AL.get_erase]) (ht (by omega)),
      fun _ => Or.inr (by simp [execC, h5, AL.get_set])⟩
  · -- create the metadata temporary
    simp [stepsS, writeFileN] at hs; subst hs
    refine ⟨by simp [LocalS, execC, AL.get_set], fun h => absurd trivial h,
      fun _ => keepSt _ (by simp [execC, AL.get_set]) (ht (by omega)), fun _ => ?_⟩
    simpa [execC, AL.get_set] using hG.dat (hdd (by omega))
  · -- write the metadata
    simp [stepsS, writeFileN] at hs; subst hs
    have h7 := l7 rfl
    refine ⟨by simp [LocalS, execC, h7, AL.get_set], fun h => absurd trivial h,
      fun _ => keepSt _ (by simp [execC, h7, AL.get_set]) (ht (by omega)), fun _ => ?_⟩
    simpa [execC, h7, AL.get_set] using hG.dat (hdd (by omega))
  · -- close
    simp [stepsS, writeFileN] at hs; subst hs
    have h8 := l89 (Or.inl rfl)
    refine ⟨by simp [LocalS, execC, h8], fun h => absurd trivial h, fun _ => keepSt _ rfl (ht (by omega)), fun _ => ?_⟩
    exact hG.dat (hdd (by omega))
  · -- publish the metadata file: the data file has been published before (`6 ≤ 9`)
    simp [stepsS, writeFileN] at hs; subst hs
    have h9 := l89 (Or.inr rfl)
    refine ⟨by simp [LocalS], fun h => absurd trivial h,
      fun _ => Or.inr (Or.inr ⟨M, by simp [execC, h9, AL.get_set], hM, Or.inl (hdd (by omega))⟩), fun _ => ?_⟩
    simpa [execC, h9, AL.get_set, AL.get_erase] using hG.dat (hdd (by omega))
  · simp [stepsS, writeFileN] at hs

/-- **one step of a progress writer** standing at position `p` -/
theorem metaStep {hk e : Str} {X : Data} {d0 : CDir} {PS PN : Data → Prop} (n : Nat) (M : Data) (hM : PN M)
    (p : Nat) (s : Step FName) (hs : (stepsM hk n M)[p]? = some s) (d : CDir) (t dd : Prop)
    (hL : LocalM n M p d) (hG : G hk e X d0 PS PN t dd d) :
    LocalM n M (p + 1) (execC d s) ∧ G hk e X d0 PS PN (t ∨ 3 ≤ p) dd (execC d s) := by
  obtain ⟨l1, l23⟩ := hL
  have hmem : s ∈ stepsM hk n M := List.mem_of_getElem? hs
  obtain _ | _ | _ | _ | p := p
  · simp [stepsM, writeFileN] at hs; subst hs
    exact ⟨by simp [LocalM, execC, AL.get_set],
      (hG.frame _ (by simp [Step.names]) (by simp [Step.names])).flags (by simp) Iff.rfl⟩
  · simp [stepsM, writeFileN] at hs; subst hs
    have h1 := l1 rfl
    exact ⟨by simp [LocalM, execC, h1, AL.get_set],
      (hG.frame _ (by simp [Step.names]) (by simp [Step.names])).flags (by simp) Iff.rfl⟩
  · simp [stepsM, writeFileN] at hs; subst hs
    have h2 := l23 (Or.inl rfl)
    exact ⟨by simp [LocalM, execC, h2],
      (hG.frame _ (by simp [Step.names]) (by simp [Step.names])).flags (by simp) Iff.rfl⟩
  · simp [stepsM, writeFileN] at hs; subst hs
    have h3 := l23 (Or.inr rfl)
    refine ⟨by simp [LocalM], fun h => absurd (Or.inr (by omega)) h,
      fun _ => Or.inr (Or.inl ⟨M, by simp [execC, h3, AL.get_set], hM⟩), fun hd => ?_⟩
    simpa [execC, h3, AL.get_set, AL.get_erase] using hG.dat hd
  · simp [stepsM, writeFileN] at hs

/-! ### what the reader sees -/

theorem G.read {c : FileCfg} {k tid : Str} {X MA MB : Data} {d0 d : CDir} {PN : Data → Prop} {t dd : Prop}
    (hG : G (c.h k) (c.ext tid) X d0 (fun b => b = MA ∨ b = MB) PN t dd d)
    (mA mB : CMeta) (v : Option Str)
    (hMA : (c.dec MA).bind c.deM = some mA) (hAr : mA.status = ready) (hAt : mA.typeId = tid)
    (hMB : (c.dec MB).bind c.deM = some mB) (hBr : mB.status = ready) (hBt : mB.typeId = tid)
    (hX : (c.dec X).bind (c.deD tid) = some v)
    (hPN : ∀ b, PN b → ∀ m, (c.dec b).bind c.deM = some m → m.status ≠ ready) :
    FileC.get c d k = FileC.get c d0 k ∨ FileC.get c d k = none ∨
    FileC.get c d k = some { metadata := mA, data := v } ∨ FileC.get c d k = some { metadata := mB, data := v } := by
  by_cases ht : t
  · right
    rcases hG.st ht with h | ⟨b, hb, hp⟩ | ⟨b, hb, hp, hdd⟩
    · left; simp [FileC.get, FileC.loadMeta, h]
    · left
      simp only [FileC.get, FileC.loadMeta, hb]
      cases hm : (c.dec b).bind c.deM with
      | none => rfl
      | some m =>
        have := hPN b hp m hm
        simp [this]
    · have key : ∀ (Mx : Data) (mx : CMeta), b = Mx → (c.dec Mx).bind c.deM = some mx → mx.status = ready → mx.typeId = tid →
          FileC.get c d k = none ∨ FileC.get c d k = some { metadata := mx, data := v } := by
        intro Mx mx hbx hdec hr hty
        subst hbx
        simp only [FileC.get, FileC.loadMeta, hb, hdec, hr, hty]
        rcases hG.dat hdd with h | h
        · left; simp [h]
        · right; simp [h, hX]
      rcases hp with hp | hp
      · rcases key MA mA hp hMA hAr hAt with h | h
        · exact Or.inl h
        · exact Or.inr (Or.inl h)
      · rcases key MB mB hp hMB hBr hBt with h | h
        · exact Or.inl h
        · exact Or.inr (Or.inr h)
  · left
    obtain ⟨h1, h2⟩ := hG.same ht
    exact get_congr c d d0 k h1 h2

/-! ### two store writers and (possibly) one progress writer -/

def Inv3 (hk e : Str) (X : Data) (d0 : CDir) (PN : Data → Prop) (a1 a2 b1 b2 tp : Nat) (MA MB MP : Data)
    (i j p : Nat) (d : CDir) : Prop :=
  LocalS a1 a2 X MA i d ∧ LocalS b1 b2 X MB j d ∧ LocalM tp MP p d ∧
  G hk e X d0 (fun b => b = MA ∨ b = MB) PN (1 ≤ i ∨ 1 ≤ j ∨ 4 ≤ p) (6 ≤ i ∨ 6 ≤ j) d

theorem Inv3.init (hk e : Str) (X : Data) (d0 : CDir) (PN : Data → Prop) (a1 a2 b1 b2 tp : Nat) (MA MB MP : Data) :
    Inv3 hk e X d0 PN a1 a2 b1 b2 tp MA MB MP 0 0 0 d0 := by
  refine ⟨by simp [LocalS], by simp [LocalS], by simp [LocalM], fun _ => ⟨rfl, fun _ => rfl⟩, fun h => ?_, fun h => ?_⟩ <;> omega

/-- every prefix of every three-way interleaving satisfies the invariant at some positions; `lp` is the step list of the progress
writer or a prefix of it (e.g. empty: no progress writer), likewise `lb` for the second store writer -/
theorem inv3_prefix (hk e : Str) (X : Data) (d0 : CDir) (PN : Data → Prop) (a1 a2 b1 b2 tp : Nat) (MA MB MP : Data)
    (hdist : [a1, a2, b1, b2, tp].Nodup)
    (lb : List (Step FName)) (hlb : ∀ (j : Nat) (s : Step FName), lb[j]? = some s → (stepsS hk e b1 b2 X MB)[j]? = some s)
    (lp : List (Step FName)) (hMP : lp ≠ [] → PN MP) (hlp : ∀ (p : Nat) (s : Step FName), lp[p]? = some s → (stepsM hk tp MP)[p]? = some s)
    (l : List (Step FName)) (hl : Interleave3 (stepsS hk e a1 a2 X MA) lb lp l) (n : Nat) :
    ∃ i j p, Inv3 hk e X d0 PN a1 a2 b1 b2 tp MA MB MP i j p ((l.take n).foldl execC d0) := by
  simp only [List.nodup_cons, List.mem_cons, List.not_mem_nil, or_false, not_or, List.nodup_nil, and_true, not_false_eq_true] at hdist
  obtain ⟨⟨h1, h2, h3, h4⟩, ⟨h5, h6, h7⟩, ⟨h8, h9⟩, h10⟩ := hdist
  refine prefix_inv3 execC (stepsS hk e a1 a2 X MA) lb lp
    (Inv3 hk e X d0 PN a1 a2 b1 b2 tp MA MB MP) ?_ ?_ ?_ l 0 0 0 d0 (by simpa using hl) (Inv3.init ..) n
  · intro i j p d s hs ⟨hA, hB, hP, hG⟩
    have hnames := stepsS_names (List.mem_of_getElem? hs)
    obtain ⟨hA', hG'⟩ := storeStep a1 a2 MA h1 (Or.inl rfl) i s hs d _ _ hA hG (fun h => Or.inl h) (fun h => Or.inl h)
    refine ⟨hA', LocalS_frame s ?_ ?_ hB, LocalM_frame s ?_ hP, hG'.flags ?_ ?_⟩
    · intro hm; rcases hnames _ hm with h | h | h | h <;> simp_all
    · intro hm; rcases hnames _ hm with h | h | h | h <;> simp_all
    · intro hm; rcases hnames _ hm with h | h | h | h <;> simp_all
    · simp
    · constructor <;> intro h <;> omega
  · intro i j p d s hs0 ⟨hA, hB, hP, hG⟩
    have hs := hlb j s hs0
    have hnames := stepsS_names (List.mem_of_getElem? hs)
    obtain ⟨hB', hG'⟩ := storeStep b1 b2 MB h8 (Or.inr rfl) j s hs d _ _ hB hG (fun h => Or.inr (Or.inl h)) (fun h => Or.inr h)
    refine ⟨LocalS_frame s ?_ ?_ hA, hB', LocalM_frame s ?_ hP, hG'.flags ?_ ?_⟩
    · intro hm; rcases hnames _ hm with h | h | h | h <;> simp_all
    · intro hm; rcases hnames _ hm with h | h | h | h <;> simp_all
    · intro hm; rcases hnames _ hm with h | h | h | h <;> simp_all
    · simp
    · constructor <;> intro h <;> omega
  · intro i j p d s hs ⟨hA, hB, hP, hG⟩
    have hs' := hlp p s hs
    have hnames := stepsM_names (List.mem_of_getElem? hs')
    obtain ⟨hP', hG'⟩ := metaStep tp MP (hMP (by intro h; simp [h] at hs)) p s hs' d _ _ hP hG
    refine ⟨LocalS_frame s ?_ ?_ hA, LocalS_frame s ?_ ?_ hB, hP', hG'.flags ?_ Iff.rfl⟩
    · intro hm; rcases hnames _ hm with h | h <;> simp_all
    · intro hm; rcases hnames _ hm with h | h <;> simp_all
    · intro hm; rcases hnames _ hm with h | h <;> simp_all
    · intro hm; rcases hnames _ hm with h | h <;> simp_all
    · constructor <;> intro h <;> omega

end Crash
end Liquer
