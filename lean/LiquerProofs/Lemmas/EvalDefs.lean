/-
Definitions for the evaluator properties (C01, C04, C05, C06, C09): similarity of outcomes, the
cache invariant `Sound`, the canonical-text hypothesis `CanonOK`, closure of a class of queries,
histories.  No proofs of substance here.
-/
import LiquerModel.Ref

namespace Liquer

/-! ### states up to `status` -/

/-- a state with its (progress) `status` forgotten: the cache rewrites it to `ready` on `store` -/
def EState.core (st : EState) : EState := { st with status := [] }

/-- outcomes are similar when equal, except that two states need only agree up to `status` -/
def Outcome.sim : Outcome → Outcome → Prop
  | .st a, .st b => a.core = b.core
  | .st _, _ => False
  | .raised a b, o => o = .raised a b
  | .parseError, o => o = .parseError
  | .unmodelled, o => o = .unmodelled

/-- a successful state -/
def Outcome.good : Outcome → Prop
  | .st a => a.isError = false
  | _ => False

/-! ### the world: data component of an entry (visible through `get` or hidden behind a progress status) -/

/-- the state kept in the entry of `k`, whatever the status of the entry says.  `get k = some s`
implies `dataAt k = some s`; the converse needs status `ready`.  `store_metadata` of a cache that keeps
data can make hidden data visible again, so the invariant has to speak about `dataAt`. -/
def World.dataAt (w : World) (k : Str) : Option EState := (w.entry k).bind (·.st)

/-- `NoCache`-like world: nothing retrievable -/
def World.NoData (w : World) : Prop := ∀ k, w.dataAt k = none

/-! ### the invariant -/

/-- every data-bearing cache entry (visible or hidden) is, up to `status`, the reference interpretation of
its key text, and that reference value is successful, non-volatile and has caching enabled -/
def Sound (env : Env) (w : World) : Prop :=
  ∀ k st, w.dataAt k = some st →
    ∃ fuel st' c, refText env fuel k = (.st st', c) ∧ st'.isError = false ∧ st'.volatile = false ∧
      st'.caching = true ∧ st.core = st'.core

/-! ### "the query means what its canonical text means" (C02's print-parse round trip, a hypothesis here) -/

/-- used at cache hits: what the canonical text of `q` means (when successful) is what `q` means -/
def CanonHit (env : Env) (q : Query) : Prop :=
  ∀ fuel st c, refText env fuel (q.encode Gen.escapeTable) = (.st st, c) → st.isError = false →
    ∃ fuel' st' c', refQ env fuel' q (q.encode Gen.escapeTable) .none none = (.st st', c') ∧ st.core = st'.core

/-- used at `store`: what `q` means (when successful) is what its canonical text means -/
def CanonStore (env : Env) (q : Query) : Prop :=
  ∀ fuel st c, refQ env fuel q (q.encode Gen.escapeTable) .none none = (.st st, c) → st.isError = false →
    ∃ fuel' st' c', refText env fuel' (q.encode Gen.escapeTable) = (.st st', c') ∧ st.core = st'.core

def CanonOK (env : Env) (q : Query) : Prop := CanonHit env q ∧ CanonStore env q

/-- the same-fuel form: for every fuel the two outcomes are similar as soon as one of them is successful -/
def CanonSame (env : Env) (q : Query) : Prop :=
  ∀ fuel,
    ((refText env (fuel + 1) (q.encode Gen.escapeTable)).1.good ∨
      (refQ env fuel q (q.encode Gen.escapeTable) .none none).1.good) →
    Outcome.sim (refText env (fuel + 1) (q.encode Gen.escapeTable)).1
      (refQ env fuel q (q.encode Gen.escapeTable) .none none).1

/-! ### syntactic classes -/

/-- a query that is a single resource segment (not evaluated by this model) -/
def Query.isRes : Query → Bool
  | .mk [.resource _ _] _ => true
  | _ => false

/-- the last step is an action or a file name -/
def Query.hasStep (q : Query) : Bool :=
  match q.predecessor with
  | some (_, some _) => true
  | _ => false

def Param.isStr : Param → Bool
  | .str _ _ => true
  | .link _ _ => false

/-- an action without link arguments that is not the sub-evaluating command -/
def Action.plain (a : Action) : Bool := a.name != s "sub" && a.params.all Param.isStr

def Seg.plain : Seg → Bool
  | .transform _ as _ => as.all Action.plain
  | .resource _ _ => true

/-- link-free and `sub`-free: the evaluation never leaves the chain of predecessors -/
def Query.plain (q : Query) : Bool := q.segments.all Seg.plain

/-- `q` is `p` followed by `k ≥ 1` further steps -/
inductive Chain : Query → Query → Nat → Prop where
  | one (p q : Query) (r : Option Seg) : q.predecessor = some (p, r) → p.segments.isEmpty = false → Chain p q 1
  | step (p q' q : Query) (r : Option Seg) (k : Nat) : Chain p q' k → q.predecessor = some (q', r) →
      q'.segments.isEmpty = false → Chain p q (k + 1)

/-! ### histories -/

inductive HistOp where
  | eval (q : Query) (raw : Str)                         -- `evaluate(text)` with `parse text = q`
  | text (t : Str)                                       -- `evaluate(text)`, parsing included
  | evalOn (q : Query) (raw : Str) (v : Option Val)      -- `evaluate_on(v, q)`: `NoCache` for the chain of predecessors
  | evalExtra (q : Query) (raw : Str) (e : Extra)        -- `evaluate(q, extra_parameters=e)`
  | remove (k : Str)
  | clean

def HistOp.query? : HistOp → Option Query
  | .eval q _ => some q
  | .evalOn q _ _ => some q
  | .evalExtra q _ _ => some q
  | _ => none

def stepHist (env : Env) (fuel : Nat) (w : World) : HistOp → World
  | .eval q raw => (evalQ env fuel w q raw .none none true).1
  | .text t => (evalText env fuel w t true).1
  | .evalOn q raw v => (evalQ env fuel w q raw .none v false).1
  | .evalExtra q raw e => (evalQ env fuel w q raw e none true).1
  | .remove k => w.remove k
  | .clean => { w with cache := [] }

def runHist (env : Env) (fuel : Nat) (w : World) (h : List HistOp) : World := h.foldl (stepHist env fuel) w

end Liquer
