/-
C16, directory store (`FileStore`, and `StoreCache` on it): what every crash point of `store`,
`store_metadata`, `remove` leaves in the two files a read of the key looks at.
-/
import LiquerProofs.Lemmas.CrashGen

namespace Liquer
namespace Crash

variable {ν φ : Type}

theorem crashAt_append_lt (exec : φ → Step ν → φ) (n cut : Nat) (l1 l2 : List (Step ν)) (fs : φ) (h : n < l1.length) :
    crashAt exec n cut (l1 ++ l2) fs = crashAt exec n cut l1 fs := by
  induction l1 generalizing n fs with
  | nil => simp at h
  | cons s rest ih =>
    cases n with
    | zero => cases s <;> simp [crashAt]
    | succ n =>
      rw [List.cons_append, crashAt_succ_cons, crashAt_succ_cons]
      exact ih n _ (by simpa using h)

theorem crashAt_append_ge (exec : φ → Step ν → φ) (n cut : Nat) (l1 l2 : List (Step ν)) (fs : φ) (h : l1.length ≤ n) :
    crashAt exec n cut (l1 ++ l2) fs = crashAt exec (n - l1.length) cut l2 (l1.foldl exec fs) := by
  induction l1 generalizing n fs with
  | nil => simp
  | cons s rest ih =>
    cases n with
    | zero => simp at h
    | succ n =>
      rw [List.cons_append, crashAt_succ_cons, ih n _ (by simpa using h)]
      simp

theorem foldl_inv (exec : φ → Step ν → φ) (I : φ → Prop) (steps : List (Step ν))
    (hstep : ∀ s ∈ steps, ∀ fs, I fs → I (exec fs s)) (fs : φ) (h : I fs) : I (steps.foldl exec fs) := by
  induction steps generalizing fs with
  | nil => exact h
  | cons s rest ih =>
    exact ih (fun s' hs' => hstep s' (List.mem_cons_of_mem _ hs')) _ (hstep s (List.mem_cons_self ..) fs h)

/-! ### single steps -/

theorem get_execT_untouched (t : Tree) (s : Step SName) (n : SName) (h : n ∉ s.names) : AL.get (execT t s) n = AL.get t n := by
  cases s with
  | close p => rfl
  | mkdir p =>
    have : (n == p) = false := by simpa [Step.names] using h
    simp only [execT]
    cases AL.get t p <;> simp [AL.get_set, this]
  | create p =>
    have : (n == p) = false := by simpa [Step.names] using h
    simp [execT, AL.get_set, this]
  | unlink p =>
    have : (n == p) = false := by simpa [Step.names] using h
    simp [execT, AL.get_erase, this]
  | append p b =>
    have : (n == p) = false := by simpa [Step.names] using h
    simp only [execT]
    cases AL.get t p with
    | none => rfl
    | some x => cases x <;> simp [AL.get_set, this]
  | rename a b =>
    have h1 : (n == a) = false := by simp [Step.names] at h; simpa using h.1
    have h2 : (n == b) = false := by simp [Step.names] at h; simpa using h.2
    simp only [execT]
    cases AL.get t a <;> simp [AL.get_set, AL.get_erase, h1, h2]

theorem get_crashAtT_untouched (steps : List (Step SName)) (nm : SName) (h : ∀ s ∈ steps, nm ∉ s.names)
    (n cut : Nat) (t : Tree) : AL.get (crashAt execT n cut steps t) nm = AL.get t nm := by
  refine crashAt_inv execT (fun t' => AL.get t' nm = AL.get t nm) steps ?_ ?_ n cut t rfl
  · intro s hs fs hI
    rw [get_execT_untouched fs s nm (h s hs)]; exact hI
  · intro p b hm cut fs hI
    rw [get_execT_untouched fs _ nm (by simpa [Step.names] using h _ hm)]; exact hI

theorem mkdirsT_mem (t : Tree) (ns : List SName) (s : Step SName) (h : s ∈ mkdirsT t ns) : ∃ n ∈ ns, s = .mkdir n := by
  simp only [mkdirsT, List.mem_map, List.mem_filter] at h
  obtain ⟨n, ⟨hn, _⟩, rfl⟩ := h
  exact ⟨n, hn, rfl⟩

theorem not_mem_ancestors_self (k : Key) : k ∉ ancestors k := by
  intro h
  simp only [ancestors, List.mem_filterMap, List.mem_range] at h
  obtain ⟨i, hi, h2⟩ := h
  split at h2
  · cases h2
  · simp only [Option.some.injEq] at h2
    have := congrArg List.length h2
    simp at this; omega

/-- the writing of one file through a temporary file, seen from two names that are not the temporary one -/
theorem get_writeFileT_final (t : Tree) (dk : Key) (target : SName) (b : Data) (nm : SName) (ht : target ≠ .tmp dk) (hn : nm ≠ .tmp dk) :
    AL.get ((writeFileT dk target b).foldl execT t) nm = if nm == target then some (.file b) else AL.get t nm := by
  have h1 : (nm == SName.tmp dk) = false := by simpa using hn
  have h2 : (SName.tmp dk == target) = false := by simpa using fun e => ht e.symm
  simp only [writeFileT, List.foldl_cons, List.foldl_nil, execT, AL.get_set, BEq.rfl, ↓reduceIte, List.nil_append,
    AL.get_erase, h1]
  split <;> simp_all

/-- before its last step, the writing of one file touches the temporary file only -/
theorem writeFileT_before_last (I : Tree → Prop) (dk : Key) (target : SName) (b : Data)
    (hI : ∀ s : Step SName, s.names = [.tmp dk] → ∀ fs, I fs → I (execT fs s))
    (n cut : Nat) (t : Tree) (hn : n < (writeFileT dk target b).length) (h : I t) :
    I (crashAt execT n cut (writeFileT dk target b) t) := by
  have hsplit : writeFileT dk target b = [.create (.tmp dk), .append (.tmp dk) b, .close (.tmp dk)] ++ [.rename (.tmp dk) target] := rfl
  rw [hsplit]
  refine crashAt_before_last execT I _ _ rfl ?_ ?_ n cut t (by simp [writeFileT] at hn; simp; omega) h
  · intro s hs fs hfs
    simp only [List.mem_cons, List.not_mem_nil, or_false] at hs
    rcases hs with rfl | rfl | rfl <;> exact hI _ rfl fs hfs
  · intro p b' hm cut fs hfs
    simp only [List.mem_cons, List.not_mem_nil, or_false] at hm
    rcases hm with hm | hm | hm <;> try cases hm
    exact hI _ rfl fs hfs

/-! ### the two files of a key -/

/-- the pair (node at the key, metadata file of the key) -/
def pairT (t : Tree) (k : Key) : Option TNode × Option TNode := (AL.get t (.node k), AL.get t (.mfile k))

/-- steps that mention neither the node nor the metadata file of `k` leave the pair alone -/
theorem pairT_untouched (t : Tree) (k : Key) (s : Step SName) (h1 : SName.node k ∉ s.names) (h2 : SName.mfile k ∉ s.names) :
    pairT (execT t s) k = pairT t k := by
  simp [pairT, get_execT_untouched _ _ _ h1, get_execT_untouched _ _ _ h2]

theorem pairT_tmp (t : Tree) (k dk : Key) (s : Step SName) (h : s.names = [.tmp dk]) : pairT (execT t s) k = pairT t k :=
  pairT_untouched t k s (by simp [h]) (by simp [h])

theorem pairT_mkdirs (t0 t : Tree) (k : Key) (ns : List SName) (h1 : SName.node k ∉ ns) (h2 : SName.mfile k ∉ ns)
    (s : Step SName) (hs : s ∈ mkdirsT t0 ns) : pairT (execT t s) k = pairT t k := by
  obtain ⟨n, hn, rfl⟩ := mkdirsT_mem t0 ns s hs
  apply pairT_untouched <;> simp only [Step.names, List.mem_singleton] <;> intro e <;> subst e
  · exact h1 hn
  · exact h2 hn

theorem node_not_parentNodes (k : Key) : SName.node k ∉ parentNodes k := by
  simp only [parentNodes, List.mem_map, SName.node.injEq, exists_eq_right]
  exact not_mem_ancestors_self k

theorem mfile_not_parentNodes (k k' : Key) : SName.mfile k ∉ parentNodes k' := by
  simp [parentNodes]

/-! ### `FileStore.store` -/

/-- **every crash point of `FileStore.store`** leaves the key's two files in one of four states: both as
before; data as before and no metadata; new data and no metadata; new data and new metadata.
(Old metadata is never paired with new data, new metadata never with old data.) -/
theorem store_pair (t : Tree) (k : Key) (b mb : Data) (n cut : Nat) :
    let p := pairT (crashAt execT n cut (storeStepsT t k b mb) t) k
    p = pairT t k ∨ p = ((pairT t k).1, none) ∨ p = (some (.file b), none) ∨ p = (some (.file b), some (.file mb)) := by
  intro p
  -- phases
  let P1 := mkdirsT t (parentNodes k) ++ unlinkIfPresent t (.mfile k)
  let P2 := mkdirsT t [.metaDir (parentKey k)] ++ writeFileT (parentKey k) (.node k) b
  let P3 := writeFileT (parentKey k) (.mfile k) mb
  have hsteps : storeStepsT t k b mb = P1 ++ (P2 ++ P3) := by simp [storeStepsT, P1, P2, P3, List.append_assoc]
  -- invariants
  let K : Tree → Prop := fun t' => pairT t' k = pairT t k ∨ pairT t' k = ((pairT t k).1, none)
  let K2 : Tree → Prop := fun t' => pairT t' k = ((pairT t k).1, none)
  let I2 : Tree → Prop := fun t' => pairT t' k = (some (.file b), none)
  have hP1 : ∀ s ∈ P1, ∀ fs, K fs → K (execT fs s) := by
    intro s hs fs hK
    simp only [P1, List.mem_append] at hs
    rcases hs with hs | hs
    · have := pairT_mkdirs t fs k _ (node_not_parentNodes k) (mfile_not_parentNodes k k) s hs
      simp only [K, this]; exact hK
    · simp only [unlinkIfPresent] at hs
      split at hs
      · simp only [List.mem_cons, List.not_mem_nil, or_false] at hs; subst hs
        right
        rcases hK with hK | hK <;> simp [pairT, execT, AL.get_erase] at hK ⊢ <;> simp [hK]
      · simp at hs
  have hP1end : K2 (P1.foldl execT t) := by
    simp only [P1, List.foldl_append]
    have h1 : pairT ((mkdirsT t (parentNodes k)).foldl execT t) k = pairT t k :=
      foldl_inv execT (fun t' => pairT t' k = pairT t k) _
        (fun s hs fs hI => (pairT_mkdirs t fs k _ (node_not_parentNodes k) (mfile_not_parentNodes k k) s hs).trans hI) t rfl
    simp only [unlinkIfPresent]
    split
    · simp [K2, pairT, execT, AL.get_erase] at h1 ⊢; simp [h1]
    · rename_i hnone
      simp only [List.foldl_nil, K2, h1]
      simp only [Option.not_isSome_iff_eq_none] at hnone
      simp [pairT, hnone]
  have hK2step : ∀ s : Step SName, SName.node k ∉ s.names → SName.mfile k ∉ s.names → ∀ fs, K2 fs → K2 (execT fs s) := by
    intro s h1 h2 fs hI; simp only [K2, pairT_untouched fs k s h1 h2]; exact hI
  have hI2step : ∀ s : Step SName, SName.node k ∉ s.names → SName.mfile k ∉ s.names → ∀ fs, I2 fs → I2 (execT fs s) := by
    intro s h1 h2 fs hI; simp only [I2, pairT_untouched fs k s h1 h2]; exact hI
  rw [show p = pairT (crashAt execT n cut (storeStepsT t k b mb) t) k from rfl, hsteps]
  by_cases h1 : n < P1.length
  · rw [crashAt_append_lt _ _ _ _ _ _ h1]
    have := crashAt_inv execT K P1 hP1 (fun p' b' hm cut' fs hI => by
      have hn := hP1 _ hm
      simp only [P1, List.mem_append] at hm
      rcases hm with hm | hm
      · obtain ⟨_, _, h⟩ := mkdirsT_mem _ _ _ hm; cases h
      · simp only [unlinkIfPresent] at hm; split at hm <;> simp at hm) n cut t (Or.inl rfl)
    rcases this with h | h
    · exact Or.inl h
    · exact Or.inr (Or.inl h)
  · rw [crashAt_append_ge _ _ _ _ _ _ (Nat.le_of_not_lt h1)]
    generalize n - P1.length = n1
    generalize hP1end' : P1.foldl execT t = t1 at hP1end
    by_cases h2 : n1 < P2.length
    · rw [crashAt_append_lt _ _ _ _ _ _ h2]
      right; left
      -- inside P2, before the rename that publishes the data
      simp only [P2] at h2 ⊢
      by_cases h3 : n1 < (mkdirsT t [.metaDir (parentKey k)]).length
      · rw [crashAt_append_lt _ _ _ _ _ _ h3]
        exact crashAt_inv execT K2 _ (fun s hs fs hI => by
            obtain ⟨n', hn', rfl⟩ := mkdirsT_mem _ _ _ hs
            simp only [List.mem_singleton] at hn'; subst hn'
            exact hK2step _ (by simp [Step.names]) (by simp [Step.names]) fs hI)
          (fun p' b' hm => by obtain ⟨_, _, h⟩ := mkdirsT_mem _ _ _ hm; cases h) n1 cut t1 hP1end
      · rw [crashAt_append_ge _ _ _ _ _ _ (Nat.le_of_not_lt h3)]
        apply writeFileT_before_last K2
        · intro s hs fs hI; exact hK2step s (by simp [hs]) (by simp [hs]) fs hI
        · simp only [List.length_append] at h2; omega
        · exact foldl_inv execT K2 _ (fun s hs fs hI => by
            obtain ⟨n', hn', rfl⟩ := mkdirsT_mem _ _ _ hs
            simp only [List.mem_singleton] at hn'; subst hn'
            exact hK2step _ (by simp [Step.names]) (by simp [Step.names]) fs hI) t1 hP1end
    · rw [crashAt_append_ge _ _ _ _ _ _ (Nat.le_of_not_lt h2)]
      generalize n1 - P2.length = n2
      have hP2end : I2 (P2.foldl execT t1) := by
        simp only [P2, List.foldl_append]
        have hm : K2 ((mkdirsT t [.metaDir (parentKey k)]).foldl execT t1) :=
          foldl_inv execT K2 _ (fun s hs fs hI => by
            obtain ⟨n', hn', rfl⟩ := mkdirsT_mem _ _ _ hs
            simp only [List.mem_singleton] at hn'; subst hn'
            exact hK2step _ (by simp [Step.names]) (by simp [Step.names]) fs hI) t1 hP1end
        simp only [I2, pairT, K2] at hm ⊢
        rw [get_writeFileT_final _ _ _ _ _ (by simp) (by simp), get_writeFileT_final _ _ _ _ _ (by simp) (by simp)]
        simp only [Prod.mk.injEq] at hm
        simp [hm.2]
      generalize P2.foldl execT t1 = t2 at hP2end
      by_cases h3 : n2 < P3.length
      · right; right; left
        apply writeFileT_before_last I2
        · intro s hs fs hI; exact hI2step s (by simp [hs]) (by simp [hs]) fs hI
        · exact h3
        · exact hP2end
      · right; right; right
        rw [crashAt_ge _ _ _ _ _ (Nat.le_of_not_lt h3)]
        simp only [I2, pairT, P3, Prod.mk.injEq] at hP2end ⊢
        rw [get_writeFileT_final _ _ _ _ _ (by simp) (by simp), get_writeFileT_final _ _ _ _ _ (by simp) (by simp)]
        simp [hP2end.1]

/-! ### `FileStore.store_metadata` -/

/-- every crash point of `FileStore.store_metadata` leaves the data alone and the metadata old or new -/
theorem storeMeta_pair (t : Tree) (k : Key) (mb : Data) (n cut : Nat) :
    let p := pairT (crashAt execT n cut (storeMetaStepsT t k mb) t) k
    p = pairT t k ∨ p = ((pairT t k).1, some (.file mb)) := by
  intro p
  let I : Tree → Prop := fun t' => pairT t' k = pairT t k
  have hmk : ∀ s ∈ mkdirsT t (parentNodes k ++ [.metaDir (parentKey k)]), ∀ fs, I fs → I (execT fs s) := by
    intro s hs fs hI
    have := pairT_mkdirs t fs k _ (by simp [parentNodes]; exact not_mem_ancestors_self k) (by simp [parentNodes]) s hs
    simp only [I, this]; exact hI
  rw [show p = pairT (crashAt execT n cut (storeMetaStepsT t k mb) t) k from rfl, storeMetaStepsT]
  by_cases h1 : n < (mkdirsT t (parentNodes k ++ [.metaDir (parentKey k)])).length
  · left
    rw [crashAt_append_lt _ _ _ _ _ _ h1]
    exact crashAt_inv execT I _ hmk (fun p' b' hm => by obtain ⟨_, _, h⟩ := mkdirsT_mem _ _ _ hm; cases h) n cut t rfl
  · rw [crashAt_append_ge _ _ _ _ _ _ (Nat.le_of_not_lt h1)]
    have hend : I ((mkdirsT t (parentNodes k ++ [.metaDir (parentKey k)])).foldl execT t) := foldl_inv execT I _ hmk t rfl
    generalize (mkdirsT t (parentNodes k ++ [.metaDir (parentKey k)])).foldl execT t = t1 at hend
    generalize n - (mkdirsT t (parentNodes k ++ [.metaDir (parentKey k)])).length = n1
    by_cases h2 : n1 < (writeFileT (parentKey k) (.mfile k) mb).length
    · left
      apply writeFileT_before_last I
      · intro s hs fs hI; simp only [I, pairT_tmp fs k _ s hs]; exact hI
      · exact h2
      · exact hend
    · right
      rw [crashAt_ge _ _ _ _ _ (Nat.le_of_not_lt h2)]
      simp only [I, pairT, Prod.mk.injEq] at hend ⊢
      rw [get_writeFileT_final _ _ _ _ _ (by simp) (by simp), get_writeFileT_final _ _ _ _ _ (by simp) (by simp)]
      simp [hend.1]

/-! ### `FileStore.remove` -/

/-- every crash point of `FileStore.remove`: both files as before, the data gone, or both gone -/
theorem remove_pair (t : Tree) (k : Key) (n cut : Nat) :
    let p := pairT (crashAt execT n cut (removeStepsT t k) t) k
    p = pairT t k ∨ p = (none, (pairT t k).2) ∨ p = (none, none) := by
  intro p
  rw [show p = pairT (crashAt execT n cut (removeStepsT t k) t) k from rfl]
  simp only [removeStepsT, unlinkIfPresent]
  cases h1 : AL.get t (.node k) <;> cases h2 : AL.get t (.mfile k) <;>
    simp only [Option.isSome_none, Option.isSome_some, Bool.false_eq_true, ↓reduceIte, List.append_nil, List.nil_append, List.cons_append]
  · left; simp [crashAt_nil]
  · rcases n with _ | n
    · left; simp [crashAt]
    · right; right; simp [crashAt, pairT, execT, AL.get_erase, h1]
  · rcases n with _ | n
    · left; simp [crashAt]
    · right; left; simp [crashAt, pairT, execT, AL.get_erase, h2]
  · rcases n with _ | _ | n
    · left; simp [crashAt]
    · right; left; simp [crashAt, pairT, execT, AL.get_erase, h2]
    · right; right; simp [crashAt, pairT, execT, AL.get_erase]

/-! ### frame -/

/-- the names the three protocols of key `k` mention -/
def ofKeyT (k : Key) (n : SName) : Bool :=
  match n with
  | .node a => a == k || (ancestors k).contains a
  | .mfile a => a == k
  | .metaDir _ => true
  | .tmp _ => true

theorem writeFileT_names (k dk : Key) (target : SName) (b : Data) (ht : ofKeyT k target = true) :
    ∀ s ∈ writeFileT dk target b, ∀ n ∈ s.names, ofKeyT k n = true := by
  intro s hs n hn
  simp only [writeFileT, List.mem_cons, List.not_mem_nil, or_false] at hs
  rcases hs with rfl | rfl | rfl | rfl <;> simp [Step.names] at hn
  · subst hn; rfl
  · subst hn; rfl
  · subst hn; rfl
  · rcases hn with rfl | rfl
    · rfl
    · exact ht

theorem mkdirsT_names (t : Tree) (k : Key) (ns : List SName) (h : ∀ n ∈ ns, ofKeyT k n = true) :
    ∀ s ∈ mkdirsT t ns, ∀ n ∈ s.names, ofKeyT k n = true := by
  intro s hs n hn
  obtain ⟨m, hm, rfl⟩ := mkdirsT_mem t ns s hs
  simp [Step.names] at hn; subst hn; exact h _ hm

theorem unlinkIfPresent_names (t : Tree) (k : Key) (m : SName) (h : ofKeyT k m = true) :
    ∀ s ∈ unlinkIfPresent t m, ∀ n ∈ s.names, ofKeyT k n = true := by
  intro s hs n hn
  simp only [unlinkIfPresent] at hs
  split at hs
  · simp only [List.mem_cons, List.not_mem_nil, or_false] at hs; subst hs
    simp [Step.names] at hn; subst hn; exact h
  · simp at hs

theorem parentNodes_ofKey (k : Key) : ∀ n ∈ parentNodes k, ofKeyT k n = true := by
  intro n hn
  simp only [parentNodes, List.mem_map] at hn
  obtain ⟨a, ha, rfl⟩ := hn
  simp [ofKeyT, ha]

theorem storeStepsT_names (t : Tree) (k : Key) (b mb : Data) : ∀ s ∈ storeStepsT t k b mb, ∀ n ∈ s.names, ofKeyT k n = true := by
  intro s hs
  simp only [storeStepsT, List.mem_append] at hs
  rcases hs with (((hs | hs) | hs) | hs) | hs
  · exact mkdirsT_names t k _ (parentNodes_ofKey k) s hs
  · exact unlinkIfPresent_names t k _ (by simp [ofKeyT]) s hs
  · exact mkdirsT_names t k _ (by simp [ofKeyT]) s hs
  · exact writeFileT_names k _ _ _ (by simp [ofKeyT]) s hs
  · exact writeFileT_names k _ _ _ (by simp [ofKeyT]) s hs

theorem storeMetaStepsT_names (t : Tree) (k : Key) (mb : Data) : ∀ s ∈ storeMetaStepsT t k mb, ∀ n ∈ s.names, ofKeyT k n = true := by
  intro s hs
  simp only [storeMetaStepsT, List.mem_append] at hs
  rcases hs with hs | hs
  · refine mkdirsT_names t k _ ?_ s hs
    intro n hn
    simp only [List.mem_append, List.mem_singleton] at hn
    rcases hn with hn | rfl
    · exact parentNodes_ofKey k n hn
    · rfl
  · exact writeFileT_names k _ _ _ (by simp [ofKeyT]) s hs

theorem removeStepsT_names (t : Tree) (k : Key) : ∀ s ∈ removeStepsT t k, ∀ n ∈ s.names, ofKeyT k n = true := by
  intro s hs
  simp only [removeStepsT, List.mem_append] at hs
  rcases hs with hs | hs
  · exact unlinkIfPresent_names t k _ (by simp [ofKeyT]) s hs
  · exact unlinkIfPresent_names t k _ (by simp [ofKeyT]) s hs

/-- **frame**: a key that is neither `k` nor one of the directories above `k` keeps both its files at every crash point -/
theorem frame_pair (steps : List (Step SName)) (k k' : Key) (hne : k' ≠ k) (hanc : k' ∉ ancestors k)
    (hnames : ∀ s ∈ steps, ∀ n ∈ s.names, ofKeyT k n = true) (n cut : Nat) (t : Tree) :
    pairT (crashAt execT n cut steps t) k' = pairT t k' := by
  have h1 : ofKeyT k (.node k') = false := by simp [ofKeyT, hne, hanc]
  have h2 : ofKeyT k (.mfile k') = false := by simp [ofKeyT, hne]
  simp only [pairT]
  rw [get_crashAtT_untouched steps _ (fun s hs hm => by have := hnames s hs _ hm; rw [h1] at this; cases this),
      get_crashAtT_untouched steps _ (fun s hs hm => by have := hnames s hs _ hm; rw [h2] at this; cases this)]

/-! ### reads are functions of the pair -/

def bytesOf : Option TNode × Option TNode → Option Data
  | (some (.file d), _) => some d
  | _ => none

def metaOf : Option TNode × Option TNode → Option Data
  | (some .dir, _) => none
  | (_, some (.file d)) => some d
  | _ => none

def scOf (deM : Data → Option CMeta) (deD : Str → Data → Option (Option Str)) : Option TNode × Option TNode → Option CState
  | (some (.file d), some (.file mb)) =>
    match deM mb with
    | some m => if m.status != ready then none else
      match deD m.typeId d with
      | some v => some { metadata := m, data := v }
      | none => none
    | none => none
  | _ => none

theorem readBytesT_eq (t : Tree) (k : Key) : readBytesT t k = bytesOf (pairT t k) := by
  simp only [readBytesT, pairT, bytesOf]
  cases AL.get t (.node k) with
  | none => rfl
  | some x => cases x <;> rfl

theorem readMetaT_eq (t : Tree) (k : Key) : readMetaT t k = metaOf (pairT t k) := by
  simp only [readMetaT, pairT, metaOf]
  cases AL.get t (.node k) with
  | none => cases AL.get t (.mfile k) with
    | none => rfl
    | some y => cases y <;> rfl
  | some x =>
    cases x with
    | dir => rfl
    | file d => cases AL.get t (.mfile k) with
      | none => rfl
      | some y => cases y <;> rfl

theorem readSC_eq (deM : Data → Option CMeta) (deD : Str → Data → Option (Option Str)) (t : Tree) (k : Key) :
    readSC deM deD t k = scOf deM deD (pairT t k) := by
  simp only [readSC, pairT, scOf]
  cases AL.get t (.node k) with
  | none => rfl
  | some x =>
    cases x with
    | dir => rfl
    | file d => cases AL.get t (.mfile k) with
      | none => rfl
      | some y => cases y <;> rfl

end Crash
end Liquer
