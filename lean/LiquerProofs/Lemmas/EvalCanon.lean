/-
The bridge between C02 (print-parse round trip) and the evaluator properties (C01, C04, C05, C06, C09, C12):
*position-irrelevance of the reference interpretation on successful runs*.

Source positions (`pos` of actions and parameters) enter the reference interpretation only through error
reports (`errPos`, `.raised pos …`) and through the `pos` field of converted parameters, which argument
conversion ignores.  Hence two queries that are equal up to positions (`q'.erase = q.erase`) have *equal*
reference results (outcome and call log) as soon as the result of one of them is successful (`PosAt`,
`pos_irrelevant`).  With C02's `print_parse` (the canonical text of a `wfTop` query parses back to the query up to
positions) this gives `CanonSame env q` for every `wfTop` query: `canonSame_of_wf`.
-/
import LiquerProofs.Lemmas.ParseTop
import LiquerProofs.Lemmas.EvalCor

namespace Liquer.Canon

/-! ### `erase` as `map`, projections -/

theorem eraseSegs_eq_map : ∀ ss : List Seg, eraseSegs ss = ss.map Seg.erase
  | [] => rfl
  | s :: ss => by simp [eraseSegs, eraseSegs_eq_map ss]

theorem eraseActions_eq_map : ∀ as : List Action, eraseActions as = as.map Action.erase
  | [] => rfl
  | a :: as => by simp [eraseActions, eraseActions_eq_map as]

theorem eraseParams_eq_map : ∀ ps : List Param, eraseParams ps = ps.map Param.erase
  | [] => rfl
  | p :: ps => by simp [eraseParams, eraseParams_eq_map ps]

theorem erase_segments (q : Query) : q.erase.segments = q.segments.map Seg.erase := by
  cases q; simp [Query.erase, Query.segments, eraseSegs_eq_map]

theorem erase_absolute (q : Query) : q.erase.absolute = q.absolute := by
  cases q; rfl

theorem erase_name (a : Action) : a.erase.name = a.name := by cases a; rfl

theorem erase_params (a : Action) : a.erase.params = eraseParams a.params := by cases a; rfl

theorem toList_erase (a : Action) : a.erase.toList Gen.escapeTable = a.toList Gen.escapeTable := by
  cases a with
  | mk n ps pos =>
    simp only [Action.erase, Action.toList, List.cons.injEq, true_and]
    induction ps with
    | nil => rfl
    | cons p ps ih =>
      simp only [eraseParams, List.map_cons, List.cons.injEq]
      refine ⟨?_, ih⟩
      cases p with
      | str t pos => rfl
      | link lq pos => simp [Param.erase, Query.encode_erase]

theorem isRes_erase (q : Query) : q.erase.isRes = q.isRes := by
  match q with
  | .mk [] _ => rfl
  | .mk [.resource _ _] _ => rfl
  | .mk [.transform _ _ _] _ => rfl
  | .mk (_ :: _ :: _) _ => simp [Query.erase, eraseSegs, Query.isRes]

theorem erase_transform (h : Option Header) (as : List Action) (f : Option Str) :
    (Seg.transform h as f).erase = .transform (h.map Header.erase) (as.map Action.erase) f := by
  cases h <;> simp [Seg.erase, eraseActions_eq_map]

theorem erase_resource (h : Option Header) (ns : List Str) :
    (Seg.resource h ns).erase = .resource (h.map Header.erase) ns := by
  cases h <;> simp [Seg.erase]

theorem erase_mk (segs : List Seg) (a : Bool) : (Query.mk segs a).erase = .mk (segs.map Seg.erase) a := by
  simp [Query.erase, eraseSegs_eq_map]

/-- `predecessor` commutes with `erase` -/
theorem predecessor_erase (q : Query) :
    q.erase.predecessor = q.predecessor.map (fun pr => (pr.1.erase, pr.2.map Seg.erase)) := by
  cases q with
  | mk segs a =>
    rw [erase_mk]
    simp only [Query.predecessor, ← List.map_reverse]
    cases segs.reverse with
    | nil => rfl
    | cons sg front =>
      cases sg with
      | resource h ns => rfl
      | transform h as f =>
        rw [List.map_cons, erase_transform]
        cases f with
        | some f =>
          cases as with
          | nil => simp [erase_mk, erase_transform]
          | cons x xs => simp [erase_mk, erase_transform]
        | none =>
          simp only [← List.map_reverse]
          cases as.reverse with
          | nil => simp [erase_mk]
          | cons last init =>
            cases init with
            | nil => simp [erase_mk, erase_transform]
            | cons y ys => simp [erase_mk, erase_transform]

theorem preRem_erase (q : Query) : q.erase.preRem = q.preRem.map Seg.erase := by
  unfold Query.preRem
  rw [predecessor_erase]
  cases q.predecessor with
  | none => rfl
  | some pr => rfl

theorem preQ_erase (q : Query) : q.erase.preQ = q.preQ.map Query.erase := by
  unfold Query.preQ
  rw [predecessor_erase]
  cases q.predecessor with
  | none => rfl
  | some pr =>
    simp only [Option.map_some, erase_segments, List.isEmpty_map]
    split <;> rfl

theorem preParent_erase (q : Query) : q.erase.preParent = q.preParent := by
  unfold Query.preParent
  rw [preQ_erase]
  cases q.preQ with
  | none => rfl
  | some p => simp [Query.encode_erase]

/-! ### argument conversion ignores the positions of the converted parameters -/

/-- a converted parameter with its position forgotten -/
def unpos : PVal → PVal
  | .text s _ => .text s 0
  | .expanded v _ => .expanded v 0
  | .raw v => .raw v

def Conv.map {α β : Type} (f : α → β) : Conv α → Conv β
  | .ok a => .ok (f a)
  | .fail => .fail
  | .unmodelled => .unmodelled

theorem convertOne_unpos (ty : ArgTy) (a : PVal) : convertOne ty (unpos a) = convertOne ty a := by
  cases ty <;> cases a <;> rfl

theorem convertRest_unpos : ∀ as : List PVal, convertRest (as.map unpos) = convertRest as
  | [] => rfl
  | a :: as => by
    simp only [List.map_cons, convertRest, convertRest_unpos as]
    cases a <;> rfl

theorem fillGo_unpos (kw : List (Str × Val)) : ∀ (as : List ArgSig) (acc : List PVal),
    fillArgs.go kw as (acc.map unpos) = Conv.map (List.map unpos) (fillArgs.go kw as acc)
  | [], acc => rfl
  | a :: as, acc => by
    simp only [fillArgs.go]
    split
    · next v _ =>
      have := fillGo_unpos kw as (acc ++ [.raw v])
      simpa [unpos] using this
    · split
      · split
        · next d _ =>
          have := fillGo_unpos kw as (acc ++ [.raw d])
          simpa [unpos] using this
        · rfl
      · exact fillGo_unpos kw as acc

theorem parseSeq_unpos : ∀ (sig : List ArgSig) (args : List PVal),
    parseSeq sig (args.map unpos) = Conv.map (fun r => (r.1, r.2.map unpos)) (parseSeq sig args)
  | [], args => rfl
  | a :: as, args => by
    simp only [parseSeq]
    split
    · rw [convertRest_unpos]
      cases convertRest args <;> rfl
    · split
      · exact parseSeq_unpos as args
      · cases args with
        | nil => rfl
        | cons x xs =>
          simp only [List.map_cons, convertOne_unpos]
          cases convertOne a.ty x with
          | ok v =>
            simp only [parseSeq_unpos as xs]
            cases parseSeq as xs with
            | ok r => rfl
            | fail => rfl
            | unmodelled => rfl
          | fail => rfl
          | unmodelled => rfl

theorem parseArgv_unpos (sig : List ArgSig) (given : List PVal) (kw : List (Str × Val)) :
    parseArgv sig (given.map unpos) kw = parseArgv sig given kw := by
  simp only [parseArgv, fillArgs, List.length_map, fillGo_unpos]
  cases fillArgs.go kw (List.drop given.length sig) given with
  | fail => rfl
  | unmodelled => rfl
  | ok args =>
    simp only [Conv.map, parseSeq_unpos]
    cases parseSeq sig args with
    | fail => rfl
    | unmodelled => rfl
    | ok r =>
      rcases r with ⟨vs, rest⟩
      cases rest <;> rfl

theorem parseArgv_congr (sig : List ArgSig) {g g' : List PVal} (kw : List (Str × Val))
    (h : g'.map unpos = g.map unpos) : parseArgv sig g' kw = parseArgv sig g kw := by
  rw [← parseArgv_unpos sig g', h, parseArgv_unpos]

theorem applyExtra_unpos (extra : Extra) {g g' : List PVal} (h : g'.map unpos = g.map unpos) :
    (applyExtra extra g').1.map unpos = (applyExtra extra g).1.map unpos ∧
      (applyExtra extra g').2 = (applyExtra extra g).2 := by
  cases extra with
  | none => exact ⟨h, rfl⟩
  | list vs =>
    simp only [applyExtra]
    split
    · exact ⟨h, rfl⟩
    · simp [h]
  | dict kv =>
    simp only [applyExtra]
    split
    · exact ⟨h, rfl⟩
    · exact ⟨h, rfl⟩

/-! ### position-irrelevance of the reference interpretation on successful runs -/

/-- the three statements at one fuel level: queries (actions, parameter lists) that are equal up to positions
have equal reference results — outcome *and* call log — as soon as the result of one of them is successful
(for parameter lists: converted; the converted parameters are then equal up to positions) -/
def PosAt (env : Env) (n : Nat) : Prop :=
  (∀ q q' raw extra input, q'.erase = q.erase → (refQ env n q raw extra input).1.good →
      refQ env n q' raw extra input = refQ env n q raw extra input) ∧
  (∀ st a a' raw parent extra, a'.erase = a.erase → (refAction env n st a raw parent extra).1.good →
      refAction env n st a' raw parent extra = refAction env n st a raw parent extra) ∧
  (∀ ps ps' raw parent g, eraseParams ps' = eraseParams ps → (refParams env n ps raw parent).1 = .inl g →
      ∃ g', refParams env n ps' raw parent = (.inl g', (refParams env n ps raw parent).2) ∧
        g'.map unpos = g.map unpos)

theorem encode_of_erase {q q' : Query} (h : q'.erase = q.erase) :
    q'.encode Gen.escapeTable = q.encode Gen.escapeTable := by
  rw [← Query.encode_erase _ q', h, Query.encode_erase]

theorem toList_of_erase {a a' : Action} (h : a'.erase = a.erase) :
    a'.toList Gen.escapeTable = a.toList Gen.escapeTable := by
  rw [← toList_erase a', h, toList_erase]

theorem refCall_pos (env : Env) (n : Nat) (st : EState) {a a' : Action} (raw : Str) (sig : CmdSig)
    {x x' : List PVal × List (Str × Val) × Bool} (ha : a'.erase = a.erase)
    (hx1 : x'.1.map unpos = x.1.map unpos) (hx2 : x'.2 = x.2)
    (hg : (refCall env n st a raw sig x).1.good) :
    refCall env n st a' raw sig x' = refCall env n st a raw sig x := by
  have hd : ∀ xv v vars c, doneSt st a' sig xv v vars c = doneSt st a sig xv v vars c := by
    intro xv v vars c; simp [doneSt, toList_of_erase ha]
  rcases x with ⟨g, kw, xv⟩
  rcases x' with ⟨g', kw', xv'⟩
  simp only [Prod.mk.injEq] at hx1 hx2
  obtain ⟨rfl, rfl⟩ := hx2
  unfold refCall at hg ⊢
  simp only [parseArgv_congr sig.args kw' hx1]
  split
  · rfl
  · next hpa => simp [hpa, Outcome.good, failSt] at hg
  · next args hpa =>
    simp only [hpa] at hg
    split
    · rfl
    · next hc => simp [hc, Outcome.good, failSt] at hg
    · simp only [hd]
    · simp only [hd]
    · simp only [hd]
    · next y qtext hc =>
      simp only [hc] at hg
      cases ho : (refText env n qtext).1 with
      | st sub =>
        rw [ho] at hg
        cases hs : sub.isError
        · simp [subOutcome, hs, hd]
        · simp [subOutcome, hs, Outcome.good, failSt] at hg
      | parseError => rw [ho] at hg; simp [subOutcome, Outcome.good, failSt] at hg
      | raised _ _ => rfl
      | unmodelled => rfl

theorem refLink_pos {env : Env} {n : Nat} (ih : PosAt env n) {lq lq' : Query} (parent : Str)
    (h : lq'.erase = lq.erase) (hg : (refLink env n lq parent).1.good) :
    refLink env n lq' parent = refLink env n lq parent := by
  have habs : lq'.absolute = lq.absolute := by rw [← erase_absolute lq', h, erase_absolute]
  unfold refLink at hg ⊢
  rw [habs, encode_of_erase h]
  split
  · next hc => simp only [hc, if_true] at hg; exact ih.1 _ _ _ _ _ h hg
  · rcases lq with ⟨segs, ab⟩
    rcases lq' with ⟨segs', ab'⟩
    simp only [erase_mk, Query.mk.injEq] at h
    obtain ⟨hsegs, -⟩ := h
    match segs, segs', hsegs with
    | [], [], _ => rfl
    | [], _ :: _, hs => simp at hs
    | _ :: _, [], hs => simp at hs
    | [_], _ :: _ :: _, hs => simp at hs
    | _ :: _ :: _, [_], hs => simp at hs
    | _ :: _ :: _, _ :: _ :: _, _ => simp
    | [.resource _ _], [.resource _ _], _ => rfl
    | [.resource _ _], [.transform _ _ _], hs => simp [erase_transform, erase_resource] at hs
    | [.transform _ _ _], [.resource _ _], hs => simp [erase_transform, erase_resource] at hs
    | [.transform h1 as f], [.transform h1' as' f'], hs =>
      simp only [List.map_cons, List.map_nil, List.cons.injEq, and_true] at hs
      simp only []
      cases parse env.dec parent with
      | none => rfl
      | some pq =>
        simp only []
        have : (Query.mk (pq.segments ++ [.transform h1' as' f']) pq.absolute).encode Gen.escapeTable =
            (Query.mk (pq.segments ++ [.transform h1 as f]) pq.absolute).encode Gen.escapeTable := by
          apply encode_of_erase
          simp only [erase_mk, List.map_append, List.map_cons, List.map_nil, hs]
        rw [this]

theorem refPre_pos {env : Env} {n : Nat} (ih : PosAt env n) {q q' : Query} (input : Option Val)
    (h : q'.erase = q.erase) (hg : (refPre env n q input).1.good) :
    refPre env n q' input = refPre env n q input := by
  have hp : q'.preQ.map Query.erase = q.preQ.map Query.erase := by rw [← preQ_erase, ← preQ_erase, h]
  unfold refPre at hg ⊢
  cases hq : q.preQ with
  | none =>
    rw [hq] at hp
    cases hq' : q'.preQ with
    | none => rfl
    | some p' => rw [hq'] at hp; simp at hp
  | some p =>
    rw [hq] at hp hg
    cases hq' : q'.preQ with
    | none => rw [hq'] at hp; simp at hp
    | some p' =>
      rw [hq'] at hp
      simp only [Option.map_some, Option.some.injEq] at hp
      simp only [encode_of_erase hp]
      exact ih.1 _ _ _ _ _ hp hg

theorem refPost_pos {env : Env} {n : Nat} (ih : PosAt env n) (st : EState) (parent : Str) {r r' : Option Seg}
    (key raw : Str) (extra : Extra) (h : r'.map Seg.erase = r.map Seg.erase)
    (hg : (refPost env n st parent r key raw extra).1.good) :
    refPost env n st parent r' key raw extra = refPost env n st parent r key raw extra := by
  match r, r', h with
  | none, none, _ => rfl
  | none, some _, h => simp at h
  | some _, none, h => simp at h
  | some (.resource _ _), some (.resource _ _), _ => rfl
  | some (.resource _ _), some (.transform _ _ _), h => simp [erase_transform, erase_resource] at h
  | some (.transform _ _ _), some (.resource _ _), h => simp [erase_transform, erase_resource] at h
  | some (.transform h1 as f), some (.transform h1' as' f'), h =>
    simp only [Option.map_some, erase_transform, Option.some.injEq, Seg.transform.injEq] at h
    obtain ⟨-, has, rfl⟩ := h
    match as, as', has with
    | [], [], _ => cases f' <;> rfl
    | [], _ :: _, hs => simp at hs
    | _ :: _, [], hs => simp at hs
    | [_], _ :: _ :: _, hs => simp at hs
    | _ :: _ :: _, [_], hs => simp at hs
    | _ :: _ :: _, _ :: _ :: _, _ => cases f' <;> rfl
    | [a], [a'], hs =>
      simp only [List.map_cons, List.map_nil, List.cons.injEq, and_true] at hs
      cases f' with
      | some f => rfl
      | none =>
        simp only [refPost] at hg ⊢
        have hga : (refAction env n st a raw parent extra).1.good := by
          cases ho : (refAction env n st a raw parent extra).1 with
          | st st2 => rw [ho] at hg; exact hg
          | _ => rw [ho] at hg; simp [Outcome.good] at hg
        rw [ih.2.1 _ _ _ _ _ _ hs hga]

theorem refAfter_pos {env : Env} {n : Nat} (ih : PosAt env n) (o : Outcome) (parent : Str) {r r' : Option Seg}
    (key raw : Str) (extra : Extra) (h : r'.map Seg.erase = r.map Seg.erase)
    (hg : (refAfter env n o parent r key raw extra).1.good) :
    refAfter env n o parent r' key raw extra = refAfter env n o parent r key raw extra := by
  unfold refAfter at hg ⊢
  split
  · rfl
  · rfl
  · rfl
  · split
    · rfl
    · next hne => simp only [hne] at hg; exact refPost_pos ih _ _ _ _ _ h hg

theorem refAfter_good {env : Env} {n : Nat} {o : Outcome} {parent : Str} {r : Option Seg} {key raw : Str}
    {extra : Extra} (hg : (refAfter env n o parent r key raw extra).1.good) : o.good := by
  unfold refAfter at hg
  split at hg
  · simp [Outcome.good] at hg
  · simp [Outcome.good] at hg
  · simp [Outcome.good] at hg
  · next st =>
    cases hs : st.isError
    · exact hs
    · simp [hs, Outcome.good] at hg

theorem pos_zero (env : Env) : PosAt env 0 := by
  refine ⟨?_, ?_, ?_⟩
  · intro q q' raw extra input _ hg; simp [refQ_zero, Outcome.good] at hg
  · intro st a a' raw parent extra _ hg; simp [refAction_zero, Outcome.good] at hg
  · intro ps ps' raw parent g _ hg; simp [refParams_zero] at hg

theorem pos_succ_Q {env : Env} {n : Nat} (ih : PosAt env n) (q q' : Query) (raw : Str) (extra : Extra)
    (input : Option Val) (h : q'.erase = q.erase) (hg : (refQ env (n+1) q raw extra input).1.good) :
    refQ env (n+1) q' raw extra input = refQ env (n+1) q raw extra input := by
  have hres : q'.isRes = q.isRes := by rw [← isRes_erase q', h, isRes_erase]
  have hpar : q'.preParent = q.preParent := by rw [← preParent_erase q', h, preParent_erase]
  have hrem : q'.preRem.map Seg.erase = q.preRem.map Seg.erase := by rw [← preRem_erase, ← preRem_erase, h]
  rw [refQ_succ'] at hg ⊢
  rw [refQ_succ', hres, hpar, encode_of_erase h]
  cases hr : q.isRes
  · simp only [hr, Bool.false_eq_true, if_false] at hg ⊢
    rw [refPre_pos ih input h (refAfter_good hg), refAfter_pos ih _ _ _ _ _ hrem hg]
  · simp

theorem pos_succ_A {env : Env} {n : Nat} (ih : PosAt env n) (st : EState) (a a' : Action) (raw parent : Str)
    (extra : Extra) (h : a'.erase = a.erase) (hg : (refAction env (n+1) st a raw parent extra).1.good) :
    refAction env (n+1) st a' raw parent extra = refAction env (n+1) st a raw parent extra := by
  have hname : a'.name = a.name := by rw [← erase_name a', h, erase_name]
  have hps : eraseParams a'.params = eraseParams a.params := by rw [← erase_params, ← erase_params, h]
  rw [refAction_succ] at hg ⊢
  rw [refAction_succ, hname]
  split
  · rfl
  · next nss hns =>
    simp only [hns] at hg
    split
    · rfl
    · next hl =>
      simp only [hl, Bool.false_eq_true, if_false] at hg
      split
      · next hr => simp [hr, Outcome.good, failSt] at hg
      · next sig hr =>
        simp only [hr] at hg
        rcases hp : refParams env n a.params raw parent with ⟨r, c1⟩
        rw [hp] at hg
        cases r with
        | inr o =>
          simp only at hg
          obtain ⟨e, rfl, _⟩ := Outcome.good_st hg
          exact absurd (by rw [hp]) (refParams_inr_not_st env n a.params raw parent e)
        | inl g =>
          obtain ⟨g', h1, h2⟩ := ih.2.2 a.params a'.params raw parent g hps (by rw [hp])
          rw [hp] at h1
          rw [h1]
          simp only at hg ⊢
          obtain ⟨hx1, hx2⟩ := applyExtra_unpos extra h2
          rw [refCall_pos env n st raw sig h hx1 hx2 hg]

theorem pos_succ_P {env : Env} {n : Nat} (ih : PosAt env n) (ps ps' : List Param) (raw parent : Str)
    (g : List PVal) (h : eraseParams ps' = eraseParams ps) (hg : (refParams env (n+1) ps raw parent).1 = .inl g) :
    ∃ g', refParams env (n+1) ps' raw parent = (.inl g', (refParams env (n+1) ps raw parent).2) ∧
      g'.map unpos = g.map unpos := by
  match ps, ps', h with
  | [], [], _ =>
    simp only [refParams_nil, Sum.inl.injEq] at hg ⊢
    exact ⟨[], rfl, by rw [← hg]⟩
  | [], _ :: _, h => simp [eraseParams] at h
  | _ :: _, [], h => simp [eraseParams] at h
  | .str _ _ :: _, .link _ _ :: _, h => simp [eraseParams, Param.erase] at h
  | .link _ _ :: _, .str _ _ :: _, h => simp [eraseParams, Param.erase] at h
  | .str t pos :: ps, .str t' pos' :: ps', h =>
    simp only [eraseParams, Param.erase, List.cons.injEq, Param.str.injEq, and_true] at h
    obtain ⟨rfl, hps⟩ := h
    rw [refParams_str] at hg ⊢
    rw [refParams_str]
    rcases hp : refParams env n ps raw parent with ⟨r, c⟩
    rw [hp] at hg
    cases r with
    | inr o => simp at hg
    | inl rest =>
      obtain ⟨rest', h1, h2⟩ := ih.2.2 ps ps' raw parent rest hps (by rw [hp])
      rw [hp] at h1
      rw [h1]
      simp only [Sum.inl.injEq] at hg
      subst hg
      exact ⟨.text t' pos' :: rest', rfl, by simp [unpos, h2]⟩
  | .link lq pos :: ps, .link lq' pos' :: ps', h =>
    simp only [eraseParams, Param.erase, List.cons.injEq, Param.link.injEq, and_true] at h
    obtain ⟨hlq, hps⟩ := h
    rw [refParams_link] at hg ⊢
    rw [refParams_link]
    rcases hl : refLink env n lq parent with ⟨o, c1⟩
    rw [hl] at hg
    cases o with
    | st v =>
      simp only at hg
      cases hv : v.isError
      · simp only [hv, Bool.false_eq_true, if_false] at hg
        rw [refLink_pos ih parent hlq (by rw [hl]; exact hv), hl]
        simp only [hv, Bool.false_eq_true, if_false]
        rcases hp : refParams env n ps raw parent with ⟨r, c⟩
        rw [hp] at hg
        cases r with
        | inr o => simp at hg
        | inl rest =>
          obtain ⟨rest', h1, h2⟩ := ih.2.2 ps ps' raw parent rest hps (by rw [hp])
          rw [hp] at h1
          rw [h1]
          simp only [Sum.inl.injEq] at hg
          subst hg
          exact ⟨.expanded v.data pos' :: rest', rfl, by simp [unpos, h2]⟩
      · simp [hv] at hg
    | _ => simp at hg

/-- **position-irrelevance**: at every fuel, results of the reference interpretation on queries / actions /
parameter lists equal up to source positions coincide as soon as one of them is successful -/
theorem pos_irrelevant (env : Env) : ∀ n, PosAt env n
  | 0 => pos_zero env
  | n + 1 => ⟨pos_succ_Q (pos_irrelevant env n), pos_succ_A (pos_irrelevant env n), pos_succ_P (pos_irrelevant env n)⟩

/-- the query-level statement, symmetric in the premise: equal up to positions and one of the two results
successful ⇒ same outcome and same call log -/
theorem refQ_erase_eq (env : Env) (n : Nat) {q q' : Query} (raw : Str) (extra : Extra) (input : Option Val)
    (h : q'.erase = q.erase)
    (hg : (refQ env n q' raw extra input).1.good ∨ (refQ env n q raw extra input).1.good) :
    refQ env n q' raw extra input = refQ env n q raw extra input := by
  rcases hg with hg | hg
  · exact ((pos_irrelevant env n).1 _ _ _ _ _ h.symm hg).symm
  · exact (pos_irrelevant env n).1 _ _ _ _ _ h hg

/-- the same for query texts whose parsed queries are equal up to positions (for instance a text and its
canonical form when the round trip holds) -/
theorem refQ_erase_sim (env : Env) (n : Nat) {q q' : Query} (raw : Str) (extra : Extra) (input : Option Val)
    (h : q'.erase = q.erase)
    (hg : (refQ env n q' raw extra input).1.good ∨ (refQ env n q raw extra input).1.good) :
    Outcome.sim (refQ env n q' raw extra input).1 (refQ env n q raw extra input).1 ∧
      (refQ env n q' raw extra input).2 = (refQ env n q raw extra input).2 := by
  rw [refQ_erase_eq env n raw extra input h hg]
  exact ⟨Outcome.sim_refl _, rfl⟩

/-! ### the bridge -/

theorem refText_of_parse (env : Env) (n : Nat) (t : Str) (q : Query) (h : parse env.dec t = some q) :
    refText env (n + 1) t = refQ env n q t .none none := by
  rw [refText_succ, h]

/-- for a well-formed query, fuel by fuel: as soon as the reference interpretation of the canonical text or of
the query itself is successful, the two coincide — same outcome, same call log.  (The canonical text parses
back to the query up to positions: C02, `print_parse_main`; positions are irrelevant on successful runs.) -/
theorem canon_eq_of_wf (env : Env) (hd : DecOK env.dec) (q : Query) (hwf : wfTop Gen.escapeTable q = true)
    (fuel : Nat)
    (hg : (refText env (fuel + 1) (q.encode Gen.escapeTable)).1.good ∨
      (refQ env fuel q (q.encode Gen.escapeTable) .none none).1.good) :
    refText env (fuel + 1) (q.encode Gen.escapeTable) = refQ env fuel q (q.encode Gen.escapeTable) .none none := by
  obtain ⟨q', hparse, herase⟩ : ∃ q', parse env.dec (q.encode Gen.escapeTable) = some q' ∧ q'.erase = q.erase :=
    print_parse_main hd q hwf
  rw [refText_of_parse env fuel _ q' hparse] at hg ⊢
  exact refQ_erase_eq env fuel _ _ _ herase hg

/-- **every well-formed query means what its canonical text means**, at every fuel -/
theorem canonSame_of_wf (env : Env) (hd : DecOK env.dec) (q : Query) (hwf : wfTop Gen.escapeTable q = true) :
    CanonSame env q := by
  intro fuel hg
  rw [canon_eq_of_wf env hd q hwf fuel hg]
  exact Outcome.sim_refl _

end Liquer.Canon
