/-
C10 helpers, part 10: soundness of the cache and of the stages of an evaluation step with respect to the value-level meaning.

`EntryOK d P h e`: the cache entry `e` is ready and agrees with the value-level meaning (under defaults `d`) of a chain of
the class `P` whose key it carries; that meaning is non-volatile and cacheable.  `SoundW d P w`: every entry is `EntryOK`,
the configured defaults abstract to `d` and have distinct names.
-/
import LiquerProofs.Lemmas.Iso9

namespace Liquer.Iso

/-- the class of chains is closed under predecessors and link arguments -/
structure Closed (P : List Act → Prop) : Prop where
  pre : ∀ acts, P acts → acts.dropLast.isEmpty = false → P acts.dropLast
  link : ∀ acts act q, P acts → acts.getLast? = some act → Arg.link q ∈ act.args → P q

/-- cache keys determine the meaning (what C02/C03 establish for the canonical text of real queries) -/
def KeyOK (d : List (Str × Val)) (P : List Act → Prop) : Prop :=
  ∀ a b acts acts', P acts → P acts' → keyOf a acts = keyOf b acts' → ∀ m, refChain d m acts = refChain d m acts'

/-- `getvar` and `cvapp` are never applied to a volatile state (a volatile state is not cloned before a command: the
variable's object that `getvar` hands out as data would be mutated by later steps of the same chain; the context's variable
that `cvapp` appends to is the variable of the very state the command returns) -/
def Safe (d : List (Str × Val)) (P : List Act → Prop) : Prop :=
  ∀ acts act, P acts → acts.getLast? = some act →
    (String.ofList act.name = "getvar" ∨ String.ofList act.name = "cvapp") →
    ∀ m r, predRef d m acts = some r → r.volatile = false

def EntryOK (d : List (Str × Val)) (P : List Act → Prop) (h : Heap) (e : Str × HState) : Prop :=
  ∃ absolute acts m r, P acts ∧ keyOf absolute acts = e.1 ∧ refChain d m acts = some r ∧ Agrees h e.2 r ∧
    r.volatile = false ∧ r.caching = true ∧ (h.metaAt e.2.md).status = statusReady

theorem EntryOK.congr {d : List (Str × Val)} {P : List Act → Prop} {h h' : Heap} {e : Str × HState} (ok : EntryOK d P h e)
    (eq : ∀ x ∈ cellsState h e.2, h'.cells x = h.cells x) : EntryOK d P h' e := by
  obtain ⟨absolute, acts, m, r, h1, h2, h3, h4, h5, h6, h7⟩ := ok
  exact ⟨absolute, acts, m, r, h1, h2, h3, h4.congr eq, h5, h6,
    by rw [Heap.metaAt_congr (eq _ (md_mem_cellsState _ _))]; exact h7⟩

structure SoundW (d : List (Str × Val)) (P : List Act → Prop) (w : World) : Prop where
  entries : ∀ e ∈ w.cache, EntryOK d P w.heap e
  dflt : absVars w.heap w.defaults = d
  dkeys : (w.defaults.map Prod.fst).Nodup

section
variable {d : List (Str × Val)} {P : List Act → Prop}

theorem SoundW.calls {w : World} (s : SoundW d P w) (c : List Str) : SoundW d P { w with calls := c } :=
  ⟨s.entries, s.dflt, s.dkeys⟩

/-- a stage that touches only owned cells keeps the cache sound, if its new entries are sound -/
theorem SoundW.mod {w w' : World} {lo : Nat} {L : List Addr} (s : SoundW d P w) (i : Inv w) (o : Own w lo L)
    (m : Mod L w w') (hc : ∀ e ∈ w'.cache, e ∈ w.cache ∨ EntryOK d P w'.heap e) : SoundW d P w' := by
  refine ⟨fun e he => ?_, ?_, by rw [m.dflt]; exact s.dkeys⟩
  · rcases hc e he with h | h
    · exact (s.entries e h).congr (fun x hx => m.frame x (i.cacheLt e h x hx) (fun hL => o.cache e h x hx hL))
    · exact h
  · rw [m.dflt, ← s.dflt]
    exact absVars_congr (fun x hx => m.frame x (i.dfltLt x hx) (fun hL => by
      have := o.dflt x hx; have := (o.rng x hL).1; aomega))

theorem SoundW.stage {w w' : World} {lo : Nat} {L L' : List Addr} (s : SoundW d P w) (i : Inv w) (o : Own w lo L)
    (st : Stage lo w L w' L') (hc : ∀ e ∈ w'.cache, e ∈ w.cache) : SoundW d P w' :=
  s.mod i o st.mod (fun e he => Or.inl (hc e he))

/-- the dictionary cell of a state is not one of its value cells -/
def st_md_free (h : Heap) (st : HState) : Prop := st.md ∉ cellsHV st.data ∧ st.md ∉ cellsVars (h.metaAt st.md).vars

/-! ### agreement through copies and dictionary writes -/

theorem Agrees.clone {h : Heap} {st : HState} {r : RState} (a : Agrees h st r) (lt : ∀ x ∈ cellsState h st, x < h.next) :
    Agrees (cloneState h st).1 (cloneState h st).2 r := by
  have ha := cloneState_abs h st lt
  have hm := cloneState_metaAt h st
  refine ⟨?_, ?_, by rw [hm]; exact a.volatile, by rw [hm]; exact a.caching, ?_⟩
  · have := congrArg AbsState.data ha
    simp only [absState] at this
    rw [this]; exact a.data
  · have := congrArg AbsState.vars ha
    simp only [absState] at this
    rw [this]; exact a.vars
  · rw [hm]
    simp only
    rw [copyVars_keys]; exact a.keys

/-- rewriting the dictionary cell with the same variables -/
theorem Agrees.write_md {h : Heap} {st : HState} {r r' : RState} {m : MetaRec} (a : Agrees h st r)
    (nd : st.md ∉ cellsHV st.data ∧ st.md ∉ cellsVars (h.metaAt st.md).vars) (hv : m.vars = (h.metaAt st.md).vars)
    (e1 : r'.data = r.data) (e2 : r'.vars = r.vars) (e3 : m.volatile = r'.volatile) (e4 : m.caching = r'.caching) :
    Agrees (h.write st.md (.md m)) st r' := by
  refine ⟨?_, ?_, by simp [e3], by simp [e4], by simp [hv, a.keys]⟩
  · rw [absHV_write_notin nd.1, e1]; exact a.data
  · rw [Heap.metaAt_write_same, hv, absVars_write_notin nd.2, e2]; exact a.vars

/-! ### admission -/

theorem store_sound {w : World} {lo : Nat} {k : Str} {st : HState} {r : RState} (sw : SoundW d P w) (i : Inv w)
    (o : Own w lo (cellsState w.heap st)) (ag : Agrees w.heap st r)
    (nd : st.md ∉ cellsHV st.data ∧ st.md ∉ cellsVars (w.heap.metaAt st.md).vars)
    (hk : ∃ absolute acts m, P acts ∧ keyOf absolute acts = k ∧ refChain d m acts = some r)
    (hvol : r.volatile = false) (hcch : r.caching = true) :
    SoundW d P (w.store k st) ∧ Agrees (w.store k st).heap st r := by
  unfold World.store
  split
  · exact ⟨sw, ag⟩
  · have mdin := md_mem_cellsState w.heap st
    let m' : MetaRec := { w.heap.metaAt st.md with status := statusReady }
    have hc : cellsState (w.heap.write st.md (.md m')) st = cellsState w.heap st := cellsState_write_md rfl
    have ag0 : Agrees (w.heap.write st.md (.md m')) st r := ag.write_md nd rfl rfl rfl ag.volatile ag.caching
    have s0 : Stage lo w (cellsState w.heap st) { w with heap := w.heap.write st.md (.md m') } (cellsState w.heap st) :=
      Stage.heap i o (HMod.write mdin (o.rng _ mdin).2 _) (fun a ha => Or.inl ha)
    have sw0 := sw.stage i o s0 (fun e he => he)
    have s1 := Stage.filter s0.inv s0.own (fun e => e.1 != k)
    have sw1 := sw0.stage s0.inv s0.own s1 (fun e he => (List.mem_filter.1 he).1)
    have s2 := Stage.cloneEntry s1.inv s1.own k st
    have lt0 : ∀ x ∈ cellsState (w.heap.write st.md (.md m')) st, x < (w.heap.write st.md (.md m')).next := by
      intro x hx; rw [hc] at hx; exact (o.rng x hx).2
    refine ⟨sw1.mod s1.inv s1.own s2.mod (fun e he => ?_), ag0.congr (fun x hx => (cloneState_ext _ st).frame x (lt0 x hx))⟩
    rcases List.mem_cons.1 he with rfl | he
    · right
      obtain ⟨absolute, acts, m, h1, h2, h3⟩ := hk
      refine ⟨absolute, acts, m, r, h1, h2, h3, ag0.clone lt0, hvol, hcch, ?_⟩
      show ((cloneState (w.heap.write st.md (.md m')) st).1.metaAt (cloneState (w.heap.write st.md (.md m')) st).2.md).status
        = statusReady
      rw [cloneState_metaAt]
      simp [m']
    · exact Or.inl he

theorem admit_sound {w : World} {lo : Nat} {k : Str} {st : HState} {r : RState} {ok : Bool} (sw : SoundW d P w) (i : Inv w)
    (o : Own w lo (cellsState w.heap st)) (ag : Agrees w.heap st r)
    (nd : st.md ∉ cellsHV st.data ∧ st.md ∉ cellsVars (w.heap.metaAt st.md).vars)
    (hk : ∃ absolute acts m, P acts ∧ keyOf absolute acts = k ∧ refChain d m acts = some r)
    (hok : ok = true → r.volatile = false ∧ r.caching = true) :
    SoundW d P (admitTo w k st ok) ∧ Agrees (admitTo w k st ok).heap st r := by
  unfold admitTo
  split
  · rename_i h
    exact store_sound sw i o ag nd hk (hok h).1 (hok h).2
  · exact ⟨sw.stage i o (Stage.filter i o _) (fun e he => (List.mem_filter.1 he).1), ag⟩

/-! ### the command and what follows it -/

theorem finish_sound {key : Str} {pvol : Bool} {ctx : List (Str × HV)} {w3 : World} {old : HState} {name : Str}
    {args : List HV} {lo : Nat}
    {rp : RState} (sw : SoundW d P w3) (i : Inv w3) (o : Own w3 lo (cmdFoot w3.heap old ctx args))
    (ag : Agrees w3.heap old rp) (hpv : pvol = rp.volatile) (nd : (cellsState w3.heap old).Nodup)
    (dj : ∀ a ∈ cellsState w3.heap old, ∀ v ∈ args, a ∉ cellsHV v)
    (hctx : absVars w3.heap ctx = rp.vars)
    (cj : rp.volatile = false → ∀ a ∈ cellsVars ctx, a ∉ cellsState w3.heap old)
    (hk : ∀ r', cmdV rp (String.ofList name) (args.map (absHV w3.heap)) = some r' →
      ∃ absolute acts m, P acts ∧ keyOf absolute acts = key ∧ refChain d m acts = some r')
    (hsafe : String.ofList name = "getvar" ∨ String.ofList name = "cvapp" → rp.volatile = false) :
    SoundW d P (finish key pvol ctx w3 old name args).1 ∧
      ∀ st, (finish key pvol ctx w3 old name args).2 = .st st →
        ∃ r', cmdV rp (String.ofList name) (args.map (absHV w3.heap)) = some r' ∧
          Agrees (finish key pvol ctx w3 old name args).1.heap st r' ∧
          (r'.volatile = true → (cellsState (finish key pvol ctx w3 old name args).1.heap st).Nodup) := by
  unfold finish
  simp only
  split
  · exact ⟨sw.calls _, fun st h => nomatch h⟩
  · rename_i h4 data vol caching hc
    obtain ⟨hm, hcells⟩ := cmdH_frame hc (fun a ha => (o.rng a ha).2)
    obtain ⟨r', hr', sim⟩ := cmdH_sim hc (fun a ha => (o.rng a ha).2) nd dj ag.data ag.vars ag.keys
      hctx (fun e => cj (hsafe (Or.inr e)))
    have s4 : Stage lo w3 (cmdFoot w3.heap old ctx args) _ (cellsState h4 ⟨data, old.md⟩) :=
      (Stage.heap i o hm hcells).calls (w3.calls ++ [callText name (absHV w3.heap old.data) (args.map (absHV w3.heap))])
    have sw4 := sw.stage i o s4 (fun e he => he)
    let m' : MetaRec :=
      { h4.metaAt old.md with
        query := key, status := statusReady, isError := false, volatile := pvol || vol,
        caching := (h4.metaAt old.md).caching && caching }
    have hc5 : cellsState (h4.write old.md (.md m')) ⟨data, old.md⟩ = cellsState h4 ⟨data, old.md⟩ :=
      cellsState_write_md (st := ⟨data, old.md⟩) rfl
    have mdin := md_mem_cellsState h4 ⟨data, old.md⟩
    have s5 := Stage.heap (L' := cellsState h4 ⟨data, old.md⟩) s4.inv s4.own
      (HMod.write mdin (s4.own.rng _ mdin).2 (.md m')) (fun a ha => Or.inl ha)
    have sw5 := sw4.stage s4.inv s4.own s5 (fun e he => he)
    have o5 := s5.own
    rw [← hc5] at o5
    -- the state after the command agrees with the value-level result
    have ag4 : Agrees h4 ⟨data, old.md⟩ { r' with volatile := (h4.metaAt old.md).volatile, caching := (h4.metaAt old.md).caching } :=
      ⟨sim.hdata, sim.hvars, rfl, rfl, sim.keys⟩
    have ag5 : Agrees (h4.write old.md (.md m')) ⟨data, old.md⟩ r' :=
      ag4.write_md (st := ⟨data, old.md⟩) sim.mdfree rfl rfl rfl (by simp [m', sim.hvol, hpv])
        (by simp [m', sim.hcach, sim.mcach, ag.caching])
    have nd5 : st_md_free (h4.write old.md (.md m')) ⟨data, old.md⟩ := by
      refine ⟨sim.mdfree.1, ?_⟩
      show old.md ∉ cellsVars ((h4.write old.md (.md m')).metaAt old.md).vars
      rw [Heap.metaAt_write_same]; exact sim.mdfree.2
    obtain ⟨sw6, ag6⟩ := admit_sound (k := key) (ok := m'.caching && !m'.volatile) sw5 s5.inv o5 ag5 nd5 (hk r' hr')
      (fun hok => by
        simp only [Bool.and_eq_true, Bool.not_eq_eq_eq_not, Bool.not_true] at hok
        exact ⟨by rw [← ag5.volatile]; simpa [m'] using hok.2, by rw [← ag5.caching]; simpa [m'] using hok.1⟩)
    refine ⟨sw6, fun st hst => ?_⟩
    obtain rfl : (⟨data, old.md⟩ : HState) = st := by simpa using hst
    refine ⟨r', hr', ag6, fun hvt => ?_⟩
    have hne : String.ofList name ≠ "getvar" := fun e => by
      have h1 := hsafe (Or.inl e)
      have h2 := cmdV_volatile hr' (by rw [e]; decide)
      rw [h1, hvt] at h2
      cases h2
    have nd4 := sim.nodup hne
    rw [(admit_stage (k := key) (ok := m'.caching && !m'.volatile) s5.inv o5).2, hc5]
    exact nd4

end

end Liquer.Iso
