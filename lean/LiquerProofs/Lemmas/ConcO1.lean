/-
One-step equations for the oracle evaluator of EvalO.lean, cut into the same named stages as the evaluator of Eval.lean
(`evalCallO`, `evalLinkO`, `evalPostO`, `evalAfterO`, `evalPreO`; compare Lemmas/EvalStep.lean).  Nothing here changes the model.
-/
import LiquerModel.EvalO
import LiquerProofs.Lemmas.EvalStep

namespace Liquer

/-! ### oracle-world pieces -/

def OW.metaIf (w : OW) (uc : Bool) (k st : Str) : OW := if uc then w.storeMeta k st else w

@[simp] theorem OW.metaIf_true (w : OW) (k st : Str) : w.metaIf true k st = w.storeMeta k st := rfl
@[simp] theorem OW.metaIf_false (w : OW) (k st : Str) : w.metaIf false k st = w := rfl

/-- the look-up at the head of `evaluate`: only plain evaluations on the cache ask -/
def OW.askIf (w : OW) (c : Bool) (k : Str) : OW × Option EState := if c then w.ask k else (w, none)

def OW.logCall (w : OW) (st : EState) (sig : CmdSig) (args : List Val) : OW :=
  if isLibraryCommand sig.name then w else w.log (callText sig.ns sig.name (if sig.first then .none else st.data) args)

def subWO (uc : Bool) (raw : Str) (o : Outcome) (w : OW) : OW :=
  match o with
  | .st sub => w.metaIf uc raw (if sub.isError then s "error" else statusReady)
  | .parseError => w.metaIf uc raw (s "error")
  | _ => w

def evalCallO (env : Env) (n : Nat) (w1 : OW) (st : EState) (act : Action) (raw : Str) (sig : CmdSig)
    (x : List PVal × List (Str × Val) × Bool) (uc : Bool) : OW × Outcome :=
  match parseArgv sig.args x.1 x.2.1 with
  | .unmodelled => (w1, .unmodelled)
  | .fail => (w1.metaIf uc raw (s "error"),
      .st (failSt st act (mergeAttrs st.attrs sig.attrs) (x.2.2 || cmdVolatile sig.attrs) (some act.pos) (some raw)))
  | .ok args =>
    match cmdSem sig.ns sig.name st.data st.vars args with
    | .unmodelled => (w1.logCall st sig args, .unmodelled)
    | .raises => ((w1.logCall st sig args).metaIf uc raw (s "error"),
        .st (failSt st act (mergeAttrs st.attrs sig.attrs) (x.2.2 || cmdVolatile sig.attrs) (some act.pos) (some raw)))
    | .value v => ((w1.logCall st sig args).metaIf uc raw statusReady, .st (doneSt st act sig x.2.2 v [] true))
    | .stateVars v vars => ((w1.logCall st sig args).metaIf uc raw statusReady, .st (doneSt st act sig x.2.2 v vars true))
    | .nocache v => ((w1.logCall st sig args).metaIf uc raw statusReady, .st (doneSt st act sig x.2.2 v [] false))
    | .subeval y qtext =>
      (subWO uc raw (evalTextO env n (w1.logCall st sig args) qtext true).2 (evalTextO env n (w1.logCall st sig args) qtext true).1,
        subOutcome st act raw sig x.2.2 y (evalTextO env n (w1.logCall st sig args) qtext true).2)

macro "fin_ecallO" : tactic => `(tactic| (
  split
  · simp [*]
  · simp [*, failSt, OW.metaIf]
  · simp only [*]
    split <;> simp [*, failSt, doneSt, subOutcome, subWO, OW.logCall, OW.metaIf]
    split <;> simp [*, failSt, doneSt, OW.metaIf]
    split <;> simp [*, OW.metaIf]))

theorem evalActionO_zero (env : Env) (w : OW) (st : EState) (act : Action) (raw parent : Str) (extra : Extra) (uc : Bool) :
    evalActionO env 0 w st act raw parent extra uc = (w, .unmodelled) := by simp [evalActionO]

theorem evalActionO_succ (env : Env) (n : Nat) (w : OW) (st : EState) (act : Action) (raw parent : Str)
    (extra : Extra) (uc : Bool) :
    evalActionO env (n+1) w st act raw parent extra uc =
      match namespacesOf st.vars with
      | none => (w.metaIf uc raw (s "evaluation"), .unmodelled)
      | some nss =>
        if !(nss.getLast?.map env.reg.hasNs).getD false then (w.metaIf uc raw (s "evaluation"), .unmodelled) else
        match resolve env.reg nss act.name with
        | none => ((w.metaIf uc raw (s "evaluation")).metaIf uc raw (s "error"),
            .st (failSt st act (mergeAttrs st.attrs []) false (some act.pos) (some raw)))
        | some sig =>
          match evalParamsO env n (w.metaIf uc raw (s "evaluation")) act.params raw parent with
          | (w1, .inr o) => (w1, o)
          | (w1, .inl given) => evalCallO env n w1 st act raw sig (applyExtra extra given) uc := by
  simp only [evalActionO, OW.metaIf]
  cases hns : namespacesOf st.vars with
  | none => rfl
  | some nss =>
    simp only []
    by_cases hl : (!(nss.getLast?.map env.reg.hasNs).getD false) = true
    · simp only [hl, if_true]
    · simp only [hl]
      cases hr : resolve env.reg nss act.name with
      | none => rfl
      | some sig =>
        simp only []
        rcases hp : evalParamsO env n (if uc = true then w.storeMeta raw (s "evaluation") else w) act.params raw parent with ⟨w1, r⟩
        cases r with
        | inr o => rfl
        | inl given =>
          simp only [evalCallO, Bool.false_eq_true, if_false]
          cases extra with
          | none => simp only [applyExtra]; fin_ecallO
          | list vs =>
            simp only [applyExtra]
            cases hv : vs.isEmpty <;> simp only [Bool.false_eq_true, if_true, if_false] <;> fin_ecallO
          | dict kv =>
            simp only [applyExtra]
            cases hv : kv.isEmpty <;> simp only [Bool.false_eq_true, if_true, if_false] <;> fin_ecallO

/-- the value of a link argument: a child context on the global cache -/
def evalLinkO (env : Env) (n : Nat) (w : OW) (lq : Query) (parent : Str) : OW × Outcome :=
  if lq.absolute || parent.isEmpty || parent == ['/'] then evalQO env n w lq (lq.encode Gen.escapeTable) .none none true
  else
    match lq with
    | .mk [.transform h as f] _ =>
      (match parse env.dec parent with
       | none => (w, .unmodelled)
       | some pq => evalTextO env n w ((Query.mk (pq.segments ++ [.transform h as f]) pq.absolute).encode Gen.escapeTable) true)
    | _ => (w, .unmodelled)

theorem evalParamsO_zero (env : Env) (w : OW) (ps : List Param) (raw parent : Str) :
    evalParamsO env 0 w ps raw parent = (w, .inr .unmodelled) := by simp [evalParamsO]

theorem evalParamsO_nil (env : Env) (n : Nat) (w : OW) (raw parent : Str) :
    evalParamsO env (n+1) w [] raw parent = (w, .inl []) := by simp [evalParamsO]

theorem evalParamsO_str (env : Env) (n : Nat) (w : OW) (t : Str) (pos : Nat) (ps : List Param) (raw parent : Str) :
    evalParamsO env (n+1) w (.str t pos :: ps) raw parent =
      match evalParamsO env n w ps raw parent with
      | (w1, .inl rest) => (w1, .inl (.text t pos :: rest))
      | other => other := by
  simp only [evalParamsO]; rfl

theorem evalParamsO_link (env : Env) (n : Nat) (w : OW) (lq : Query) (pos : Nat) (ps : List Param) (raw parent : Str) :
    evalParamsO env (n+1) w (.link lq pos :: ps) raw parent =
      match evalLinkO env n w lq parent with
      | (w1, .st v) =>
        if v.isError then (w1, .inr (.raised (some pos) (some raw)))
        else
          (match evalParamsO env n w1 ps raw parent with
           | (w2, .inl rest) => (w2, .inl (.expanded v.data pos :: rest))
           | other => other)
      | (w1, .raised a b) => (w1, .inr (.raised a b))
      | (w1, .parseError) => (w1, .inr .parseError)
      | (w1, .unmodelled) => (w1, .inr .unmodelled) := by
  simp only [evalParamsO, evalLinkO]
  generalize (if (lq.absolute || parent.isEmpty || parent == ['/']) = true then _ else _ : OW × Outcome) = x
  rcases x with ⟨w1, o⟩
  cases o <;> rfl

theorem evalTextO_zero (env : Env) (w : OW) (t : Str) (ug : Bool) : evalTextO env 0 w t ug = (w, .unmodelled) := by
  simp [evalTextO]

theorem evalTextO_succ (env : Env) (n : Nat) (w : OW) (t : Str) (ug : Bool) :
    evalTextO env (n+1) w t ug = match parse env.dec t with
      | none => (w, .parseError)
      | some q => evalQO env n w q t .none none ug := by
  simp only [evalTextO]; rfl

/-- the admission test after the last action -/
def admitWO (uc : Bool) (key : Str) (st3 : EState) (w2 : OW) : OW :=
  if !uc then w2
  else if st3.caching && !st3.isError && !st3.volatile then w2.store st3
  else if st3.isError then w2.storeMeta key (s "error")
  else w2.remove key

/-- the admission test after a file-name step -/
def fileWO (uc : Bool) (key : Str) (st2 : EState) (w1 : OW) : OW :=
  if !uc then w1 else if st2.caching && !st2.volatile then w1.store st2 else w1.remove key

def evalPostO (env : Env) (n : Nat) (w1 : OW) (st : EState) (parent : Str) (r : Option Seg) (key raw : Str)
    (extra : Extra) (uc : Bool) : OW × Outcome :=
  match r with
  | none => (w1, .st { st with query := key })
  | some (.transform _ [] (some f)) =>
    (fileWO uc key { st with filename := some f, extension := some (extensionOf f), query := key }
        (w1.metaIf uc raw (s "evaluation")),
      .st { st with filename := some f, extension := some (extensionOf f), query := key })
  | some (.transform _ [a] none) =>
    (match (evalActionO env n w1 st a raw parent extra uc).2 with
     | .st st2 => (admitWO uc key { st2 with query := key } (evalActionO env n w1 st a raw parent extra uc).1,
                   .st { st2 with query := key })
     | other => ((evalActionO env n w1 st a raw parent extra uc).1, other))
  | some _ => (w1, .unmodelled)

def evalAfterO (env : Env) (n : Nat) (w1 : OW) (o : Outcome) (parent : Str) (r : Option Seg) (key raw : Str)
    (extra : Extra) (uc : Bool) : OW × Outcome :=
  match o with
  | .raised a b => (w1, .raised a b)
  | .parseError => (w1, .parseError)
  | .unmodelled => (w1, .unmodelled)
  | .st st =>
    if st.isError then (w1.metaIf uc raw (s "error"), .st { st with data := .none, query := key })
    else evalPostO env n w1 st parent r key raw extra uc

theorem evalQO_zero (env : Env) (w : OW) (q : Query) (raw : Str) (extra : Extra) (input : Option Val) (uc : Bool) :
    evalQO env 0 w q raw extra input uc = (w, .unmodelled) := by simp [evalQO]

theorem evalQO_succ (env : Env) (n : Nat) (w : OW) (q : Query) (raw : Str) (extra : Extra) (input : Option Val)
    (uc : Bool) :
    evalQO env (n+1) w q raw extra input uc =
      let a := w.askIf (extra.isEmpty && input.isNone && uc) (q.encode Gen.escapeTable)
      if a.1.starved then (a.1, .unmodelled) else
      match a.2 with
      | some st => (a.1, .st st)
      | none =>
        if q.isRes then (a.1, .unmodelled) else
        match q.predecessor with
        | none => evalAfterO env n a.1 (.st (initSt env input)) [] none (q.encode Gen.escapeTable) raw extra uc
        | some (p, r) =>
          if p.segments.isEmpty then
            evalAfterO env n a.1 (.st (initSt env input)) [] r (q.encode Gen.escapeTable) raw extra uc
          else
            evalAfterO env n
              (evalQO env n (a.1.metaIf uc raw (s "evaluating parent")) p (p.encode Gen.escapeTable) .none input uc).1
              (evalQO env n (a.1.metaIf uc raw (s "evaluating parent")) p (p.encode Gen.escapeTable) .none input uc).2
              (p.encode Gen.escapeTable) r (q.encode Gen.escapeTable) raw extra uc := by
  rw [evalQO]
  dsimp only [OW.askIf]
  generalize (if (extra.isEmpty && input.isNone && uc) = true then w.ask (q.encode Gen.escapeTable) else (w, none)) = a
  rcases a with ⟨w', hit⟩
  simp only [OW.metaIf]
  cases hs : w'.starved
  · simp only [Bool.false_eq_true, if_false]
    cases hit with
    | some st => rfl
    | none =>
      simp only []
      split
      · simp [Query.isRes]
      · next hres =>
        have hr : q.isRes = false := by
          unfold Query.isRes; split
          · exact absurd rfl (hres _ _ _)
          · rfl
        simp only [hr, Bool.false_eq_true, if_false]
        cases hp : q.predecessor with
        | none => simp [evalAfterO, evalPostO, initSt]
        | some pr =>
          rcases pr with ⟨p, r⟩
          simp only []
          cases hpe : p.segments.isEmpty
          · simp only [Bool.false_eq_true, if_false]
            rcases hrec : evalQO env n (if uc = true then w'.storeMeta raw (s "evaluating parent") else w') p (p.encode Gen.escapeTable) .none input uc with ⟨w1, o⟩
            cases o with
            | st st =>
              simp only [evalAfterO]
              cases hse : st.isError
              · simp only [Bool.false_eq_true, if_false, evalPostO]
                split <;> simp [*, fileWO, admitWO, OW.metaIf] <;> (split <;> simp [*])
              · simp [OW.metaIf]
            | _ => simp [evalAfterO]
          · simp only [if_true, evalAfterO, initSt, Bool.false_eq_true, if_false, evalPostO]
            split <;> simp [*, fileWO, admitWO, OW.metaIf] <;> (split <;> simp [*])
  · simp

def evalPreO (env : Env) (n : Nat) (w : OW) (q : Query) (raw : Str) (input : Option Val) (uc : Bool) : OW × Outcome :=
  match q.preQ with
  | none => (w, .st (initSt env input))
  | some p => evalQO env n (w.metaIf uc raw (s "evaluating parent")) p (p.encode Gen.escapeTable) .none input uc

/-- what follows the look-up when it is a miss -/
def evalMissO (env : Env) (n : Nat) (w : OW) (q : Query) (raw : Str) (extra : Extra) (input : Option Val) (uc : Bool) :
    OW × Outcome :=
  if q.isRes then (w, .unmodelled) else
    evalAfterO env n (evalPreO env n w q raw input uc).1 (evalPreO env n w q raw input uc).2 q.preParent q.preRem
      (q.encode Gen.escapeTable) raw extra uc

theorem evalQO_succ' (env : Env) (n : Nat) (w : OW) (q : Query) (raw : Str) (extra : Extra) (input : Option Val)
    (uc : Bool) :
    evalQO env (n+1) w q raw extra input uc =
      if (w.askIf (extra.isEmpty && input.isNone && uc) (q.encode Gen.escapeTable)).1.starved then
        ((w.askIf (extra.isEmpty && input.isNone && uc) (q.encode Gen.escapeTable)).1, .unmodelled)
      else
      match (w.askIf (extra.isEmpty && input.isNone && uc) (q.encode Gen.escapeTable)).2 with
      | some st => ((w.askIf (extra.isEmpty && input.isNone && uc) (q.encode Gen.escapeTable)).1, .st st)
      | none =>
        evalMissO env n (w.askIf (extra.isEmpty && input.isNone && uc) (q.encode Gen.escapeTable)).1 q raw extra input uc := by
  rw [evalQO_succ]
  simp only []
  generalize w.askIf (extra.isEmpty && input.isNone && uc) (q.encode Gen.escapeTable) = a
  unfold evalMissO evalPreO Query.preParent Query.preQ Query.preRem
  split
  · rfl
  · split
    · rfl
    · split
      · rfl
      · cases hp : q.predecessor with
        | none => simp
        | some pr =>
          rcases pr with ⟨p, r⟩
          cases hpe : p.segments.isEmpty <;> simp only [hpe, Bool.false_eq_true, if_true, if_false]

end Liquer
