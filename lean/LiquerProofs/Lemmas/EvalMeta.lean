/-
Lemmas for C18: one-step equations of `metaQ`, agreement of its outcome with the reference interpretation, and the
invariant `Describes st m` ("the metadata record `m` describes the evaluator state `st`") which every step of
`metaQ` preserves.
-/
import LiquerModel.EvalMeta
import LiquerProofs.Lemmas.EvalMetaRef

namespace Liquer
open C18R

/-! ### one-step equations -/

theorem Query.isResource_eq (q : Query) : q.isResource = q.isRes := by
  unfold Query.isResource Query.isRes
  split
  · rfl
  · next h =>
    split
    · next hd nm ab => exact absurd rfl (h hd nm ab)
    · rfl

theorem metaQ_zero (env : Env) (q : Query) (raw : Str) (extra : Extra) (input : Option Val) :
    metaQ env 0 q raw extra input = (.unmodelled, {}) := rfl

theorem metaQ_succ (env : Env) (n : Nat) (q : Query) (raw : Str) (extra : Extra) (input : Option Val) :
    metaQ env (n+1) q raw extra input =
      if q.isResource then (.unmodelled, {}) else
      match q.predecessor with
      | none => metaAfter env n (.st (initSt env input)) (initMeta input) [] none (q.encode Gen.escapeTable) raw extra
      | some (p, r) =>
        if p.segments.isEmpty then
          metaAfter env n (.st (initSt env input)) (initMeta input) [] r (q.encode Gen.escapeTable) raw extra
        else
          metaAfter env n (metaQ env n p (p.encode Gen.escapeTable) .none input).1
            (metaQ env n p (p.encode Gen.escapeTable) .none input).2 (p.encode Gen.escapeTable) r
            (q.encode Gen.escapeTable) raw extra := by
  simp only [metaQ, initSt]
  rfl

/-! ### the outcome component is the reference interpretation's -/

theorem metaAction_fst (env : Env) (n : Nat) (st : EState) (m : MetaRec) (a : Action) (raw parent : Str) (extra : Extra) :
    (metaAction env n st m a raw parent extra).1 = (refAction env n st a raw parent extra).1 := by
  unfold metaAction
  split <;> simp [*]

theorem metaPost_fst (env : Env) (n : Nat) (st : EState) (m : MetaRec) (parent : Str) (r : Option Seg) (key raw : Str)
    (extra : Extra) :
    (metaPost env n st m parent r key raw extra).1 = (refPost env n st parent r key raw extra).1 := by
  unfold metaPost refPost
  cases r with
  | none => rfl
  | some seg =>
    cases seg with
    | resource h ns => rfl
    | transform h as f =>
      cases as with
      | nil => cases f <;> rfl
      | cons a rest =>
        cases rest with
        | cons _ _ => rfl
        | nil =>
          cases f with
          | some _ => rfl
          | none =>
            simp only []
            rw [← metaAction_fst env n st m a raw parent extra]
            rcases metaAction env n st m a raw parent extra with ⟨o, m2⟩
            cases o <;> rfl

theorem metaAfter_fst (env : Env) (n : Nat) (o : Outcome) (m : MetaRec) (parent : Str) (r : Option Seg) (key raw : Str)
    (extra : Extra) :
    (metaAfter env n o m parent r key raw extra).1 = (refAfter env n o parent r key raw extra).1 := by
  unfold metaAfter refAfter
  cases o with
  | st st =>
    simp only
    split
    · rfl
    · exact metaPost_fst env n st m parent r key raw extra
  | _ => rfl

theorem metaQ_fst (env : Env) : ∀ (n : Nat) (q : Query) (raw : Str) (extra : Extra) (input : Option Val),
    (metaQ env n q raw extra input).1 = (refQ env n q raw extra input).1
  | 0, q, raw, extra, input => by rw [metaQ_zero, refQ_zero]
  | n + 1, q, raw, extra, input => by
    rw [metaQ_succ, refQ_succ, Query.isResource_eq]
    cases q.isRes with
    | true => rfl
    | false =>
      simp only [Bool.false_eq_true, if_false]
      cases q.predecessor with
      | none => exact metaAfter_fst ..
      | some pr =>
        rcases pr with ⟨p, r⟩
        simp only
        cases p.segments.isEmpty with
        | true => simp only [if_true]; exact metaAfter_fst ..
        | false => simp only [Bool.false_eq_true, if_false]; rw [metaAfter_fst, metaQ_fst env n]

/-! ### the generated tables -/

theorem statuses_distinct : Gen.metaStatusReady ≠ Gen.metaStatusError := by decide

/-! ### what `refAction` leaves in the state it returns -/

theorem actionInfo_unresolved (env : Env) (n : Nat) (st : EState) (a : Action) (raw parent : Str) (extra : Extra)
    (nss : List Str) (hns : namespacesOf st.vars = some nss) (hr : resolve env.reg nss a.name = none) :
    (actionInfo env (n+1) st a raw parent extra).sig = none := by
  simp [actionInfo, hns, hr]

theorem actionInfo_resolved (env : Env) (n : Nat) (st : EState) (a : Action) (raw parent : Str) (extra : Extra)
    (nss : List Str) (sig : CmdSig) (hns : namespacesOf st.vars = some nss) (hr : resolve env.reg nss a.name = some sig) :
    (actionInfo env (n+1) st a raw parent extra).sig = some sig ∧
      (actionInfo env (n+1) st a raw parent extra).argQ = linkQueries a.params := by
  simp [actionInfo, hns, hr]

/-- attributes of the command the action resolved to (none: unknown command) -/
def cmdAttrsOf (info : ActionInfo) : List (Str × Str) := (info.sig.map (·.attrs)).getD []

/-- the fields of the state returned by the call of a resolved command -/
theorem refCall_shape (env : Env) (n : Nat) (st : EState) (act : Action) (raw : Str) (sig : CmdSig) (x)
    (e : EState) (h : (refCall env n st act raw sig x).1 = .st e) :
    e.commands = [act.toList Gen.escapeTable] ∧ e.filename = st.filename ∧ e.extension = st.extension ∧
      e.attrs = mergeAttrs st.attrs sig.attrs ∧ e.query = st.query := by
  unfold refCall at h
  split at h
  · simp at h
  · simp only [Outcome.st.injEq] at h; subst h; simp [failSt]
  · split at h
    · simp at h
    · simp only [Outcome.st.injEq] at h; subst h; simp [failSt]
    · simp only [Outcome.st.injEq] at h; subst h; simp [doneSt]
    · simp only [Outcome.st.injEq] at h; subst h; simp [doneSt]
    · simp only [Outcome.st.injEq] at h; subst h; simp [doneSt]
    · simp only at h
      unfold subOutcome at h
      split at h
      · split at h
        · simp only [Outcome.st.injEq] at h; subst h; simp [failSt]
        · simp only [Outcome.st.injEq] at h; subst h; simp [doneSt]
      · simp only [Outcome.st.injEq] at h; subst h; simp [failSt]
      · simp at h
      · simp at h

/-- the fields of the state an action returns: only this command is recorded, file name and extension are inherited,
capitalised attributes are kept and the command's own put on top -/
theorem refAction_shape (env : Env) (n : Nat) (st : EState) (a : Action) (raw parent : Str) (extra : Extra)
    (e : EState) (h : (refAction env n st a raw parent extra).1 = .st e) :
    e.commands = [a.toList Gen.escapeTable] ∧ e.filename = st.filename ∧ e.extension = st.extension ∧
      e.attrs = mergeAttrs st.attrs (cmdAttrsOf (actionInfo env n st a raw parent extra)) ∧ e.query = st.query := by
  cases n with
  | zero => simp [refAction_zero] at h
  | succ n =>
    rw [refAction_succ] at h
    split at h
    · simp at h
    · next nss hns =>
      split at h
      · simp at h
      · split at h
        · next hr =>
          simp only [Outcome.st.injEq] at h; subst h
          simp [failSt, cmdAttrsOf, actionInfo_unresolved env n st a raw parent extra nss hns hr]
        · next sig hr =>
          have hni := refParams_inr_not_st env n a.params raw parent e
          have hsig := (actionInfo_resolved env n st a raw parent extra nss sig hns hr).1
          generalize refParams env n a.params raw parent = x at h hni
          rcases x with ⟨r, c1⟩
          cases r with
          | inr o => simp only at h; subst h; simp at hni
          | inl g =>
            have := refCall_shape env n st a raw sig _ e h
            simpa [cmdAttrsOf, hsig] using this

/-! ### the invariant -/

/-- the metadata record describes the state -/
structure Describes (st : EState) (m : MetaRec) : Prop where
  isError : m.isError = st.isError
  query : m.query = st.query
  typeId : m.typeId = typeIdOf st.data
  dataKind : m.dataKind = dataKindOf st.data
  filename : m.filename = st.filename
  extension : m.extension = st.extension
  attrs : m.attrs = st.attrs
  lastCommand : m.lastCommand = st.commands.getLast?.getD []
  errNoData : st.isError = true → st.data = .none
  status : m.status = if m.lastName.isSome then some (if m.isError then Gen.metaStatusError else Gen.metaStatusReady) else none
  noAction : m.lastName = none → m.isError = false
  fileMime : ∀ f, m.filename = some f → m.extension = some (extensionOf f) ∧ m.mimetype = some (mimeOfExt (extensionOf f))
  noFileMime : m.filename = none →
    m.extension = none ∧ m.mimetype = (if m.lastName.isSome then some Gen.metaDefaultMimetype else none)

theorem describes_init (env : Env) (input : Option Val) : Describes (initSt env input) (initMeta input) := by
  constructor <;> simp [initSt, initMeta]

theorem describes_requery {st : EState} {m : MetaRec} (h : Describes st m) (key : Str) :
    Describes { st with query := key } { m with query := key } := by
  obtain ⟨h1, h2, h3, h4, h5, h6, h7, h8, h9, h10, h11, h12, h13⟩ := h
  constructor <;> first | assumption | rfl

theorem describes_propagate {st : EState} {m : MetaRec} (h : Describes st m) (key : Str) :
    Describes { st with data := .none, query := key } (m.propagate key) := by
  obtain ⟨h1, h2, h3, h4, h5, h6, h7, h8, h9, h10, h11, h12, h13⟩ := h
  constructor <;> first | assumption | rfl | (intro _; rfl)

theorem describes_filename {st : EState} {m : MetaRec} (h : Describes st m) (key f : Str) :
    Describes { st with filename := some f, extension := some (extensionOf f), query := key } (m.withFilename key f) := by
  obtain ⟨h1, h2, h3, h4, h5, h6, h7, h8, h9, h10, h11, h12, h13⟩ := h
  constructor
  all_goals first
    | assumption
    | rfl
    | (intro g hg; simp only [MetaRec.withFilename, Option.some.injEq] at hg; subst hg; exact ⟨rfl, rfl⟩)
    | (intro hg; simp [MetaRec.withFilename] at hg)

theorem stateMimetype_of {st : EState} {m : MetaRec} (h : Describes st m) :
    (∀ f, m.filename = some f → m.stateMimetype = mimeOfExt (extensionOf f)) ∧
      (m.filename = none → m.stateMimetype = Gen.metaDefaultMimetype) := by
  constructor
  · intro f hf
    have := (h.fileMime f hf).2
    simp [MetaRec.stateMimetype, this]
  · intro hf
    obtain ⟨he, hm⟩ := h.noFileMime hf
    unfold MetaRec.stateMimetype
    rw [hm, he]
    split <;> simp_all

theorem describes_action (env : Env) (n : Nat) {st : EState} {m : MetaRec} (h : Describes st m) (hst : st.isError = false)
    (a : Action) (raw parent : Str) (extra : Extra) (e : EState)
    (he : (refAction env n st a raw parent extra).1 = .st e) :
    Describes e (actionMeta m a parent (actionInfo env n st a raw parent extra) e) := by
  obtain ⟨hc, hf, hx, ha, _⟩ := refAction_shape env n st a raw parent extra e he
  have hmime := stateMimetype_of h
  constructor
  · rfl
  · rfl
  · rfl
  · rfl
  · simp [actionMeta, hf, h.filename]
  · simp [actionMeta, hx, h.extension]
  · simp [actionMeta, ha, h.attrs, cmdAttrsOf]
  · simp [actionMeta, hc]
  · exact refAction_error_no_data env n st a raw parent extra e hst he
  · rfl
  · intro hn; simp [actionMeta] at hn
  · intro f hf'
    simp only [actionMeta] at hf' ⊢
    exact ⟨(h.fileMime f hf').1, by rw [hmime.1 f hf']⟩
  · intro hf'
    simp only [actionMeta] at hf' ⊢
    exact ⟨(h.noFileMime hf').1, by simp [hmime.2 hf']⟩

/-- inversion of `metaAction`: a returned state is `refAction`'s, the metadata is `actionMeta` -/
theorem metaAction_st (env : Env) (n : Nat) (st : EState) (m : MetaRec) (a : Action) (raw parent : Str) (extra : Extra)
    (e : EState) (m2 : MetaRec) (h : metaAction env n st m a raw parent extra = (.st e, m2)) :
    (refAction env n st a raw parent extra).1 = .st e ∧
      m2 = actionMeta m a parent (actionInfo env n st a raw parent extra) e := by
  unfold metaAction at h
  generalize (refAction env n st a raw parent extra).1 = o at h
  cases o with
  | st s2 =>
    simp only [Prod.mk.injEq, Outcome.st.injEq] at h
    obtain ⟨rfl, rfl⟩ := h
    exact ⟨rfl, rfl⟩
  | _ => simp at h

/-- case analysis of the last step -/
theorem metaPost_cases (env : Env) (n : Nat) (st : EState) (m : MetaRec) (parent : Str) (r : Option Seg) (key raw : Str)
    (extra : Extra) (e : EState) (m' : MetaRec) (he : metaPost env n st m parent r key raw extra = (.st e, m')) :
    (r = none ∧ e = { st with query := key } ∧ m' = { m with query := key }) ∨
    (∃ h f, r = some (.transform h [] (some f)) ∧
      e = { st with filename := some f, extension := some (extensionOf f), query := key } ∧ m' = m.withFilename key f) ∨
    (∃ h a e2, r = some (.transform h [a] none) ∧ (refAction env n st a raw parent extra).1 = .st e2 ∧
      e = { e2 with query := key } ∧
      m' = { actionMeta m a parent (actionInfo env n st a raw parent extra) e2 with query := key }) := by
  unfold metaPost at he
  cases r with
  | none =>
    simp only [Prod.mk.injEq, Outcome.st.injEq] at he
    exact Or.inl ⟨rfl, he.1.symm, he.2.symm⟩
  | some seg =>
    cases seg with
    | resource h ns => simp at he
    | transform h as f =>
      cases as with
      | nil =>
        cases f with
        | none => simp at he
        | some f =>
          simp only [Prod.mk.injEq, Outcome.st.injEq] at he
          exact Or.inr (Or.inl ⟨h, f, rfl, he.1.symm, he.2.symm⟩)
      | cons a rest =>
        cases rest with
        | cons _ _ => simp at he
        | nil =>
          cases f with
          | some _ => simp at he
          | none =>
            simp only [] at he
            rcases hm : metaAction env n st m a raw parent extra with ⟨o, m2⟩
            rw [hm] at he
            cases o with
            | st s2 =>
              simp only [Prod.mk.injEq, Outcome.st.injEq] at he
              obtain ⟨hr, rfl⟩ := metaAction_st env n st m a raw parent extra s2 m2 hm
              exact Or.inr (Or.inr ⟨h, a, s2, rfl, hr, he.1.symm, he.2.symm⟩)
            | _ => simp at he

theorem metaPost_describes (env : Env) (n : Nat) {st : EState} {m : MetaRec} (h : Describes st m) (hst : st.isError = false)
    (parent : Str) (r : Option Seg) (key raw : Str) (extra : Extra) (e : EState) (m' : MetaRec)
    (he : metaPost env n st m parent r key raw extra = (.st e, m')) : Describes e m' := by
  rcases metaPost_cases env n st m parent r key raw extra e m' he with ⟨_, rfl, rfl⟩ | ⟨_, f, _, rfl, rfl⟩ | ⟨_, a, e2, _, hr, rfl, rfl⟩
  · exact describes_requery h key
  · exact describes_filename h key f
  · exact describes_requery (describes_action env n h hst a raw parent extra e2 hr) key

theorem metaAfter_describes (env : Env) (n : Nat) {o : Outcome} {m : MetaRec} (h : ∀ st, o = .st st → Describes st m)
    (parent : Str) (r : Option Seg) (key raw : Str) (extra : Extra) (e : EState) (m' : MetaRec)
    (he : metaAfter env n o m parent r key raw extra = (.st e, m')) : Describes e m' := by
  unfold metaAfter at he
  cases o with
  | st st =>
    simp only at he
    split at he
    · simp only [Prod.mk.injEq, Outcome.st.injEq] at he
      obtain ⟨rfl, rfl⟩ := he
      exact describes_propagate (h st rfl) key
    · next hse =>
      exact metaPost_describes env n (h st rfl) (by simpa using hse) parent r key raw extra e m' he
  | _ => simp at he

/-- case analysis of one level of `metaQ` -/
theorem metaQ_cases (env : Env) (n : Nat) (q : Query) (raw : Str) (extra : Extra) (input : Option Val) (e : EState) (m : MetaRec)
    (h : metaQ env (n+1) q raw extra input = (.st e, m)) :
    (∃ r, (q.predecessor = none ∧ r = none ∨ ∃ p, q.predecessor = some (p, r) ∧ p.segments.isEmpty = true) ∧
      metaAfter env n (.st (initSt env input)) (initMeta input) [] r (q.encode Gen.escapeTable) raw extra = (.st e, m)) ∨
    (∃ p r, q.predecessor = some (p, r) ∧ p.segments.isEmpty = false ∧
      metaAfter env n (metaQ env n p (p.encode Gen.escapeTable) .none input).1
        (metaQ env n p (p.encode Gen.escapeTable) .none input).2 (p.encode Gen.escapeTable) r
        (q.encode Gen.escapeTable) raw extra = (.st e, m)) := by
  rw [metaQ_succ] at h
  cases hres : q.isResource with
  | true => simp [hres] at h
  | false =>
    simp only [hres, Bool.false_eq_true, if_false] at h
    cases hp : q.predecessor with
    | none => rw [hp] at h; exact Or.inl ⟨none, Or.inl ⟨rfl, rfl⟩, h⟩
    | some pr =>
      rcases pr with ⟨p, r⟩
      rw [hp] at h
      simp only at h
      cases hpe : p.segments.isEmpty with
      | true => simp only [hpe, if_true] at h; exact Or.inl ⟨r, Or.inr ⟨p, rfl, hpe⟩, h⟩
      | false => simp only [hpe, Bool.false_eq_true, if_false] at h; exact Or.inr ⟨p, r, rfl, hpe, h⟩

/-- every state `metaQ` returns is described by the metadata it returns with it -/
theorem metaQ_describes (env : Env) : ∀ (n : Nat) (q : Query) (raw : Str) (extra : Extra) (input : Option Val) (e : EState)
    (m : MetaRec), metaQ env n q raw extra input = (.st e, m) → Describes e m
  | 0, q, raw, extra, input, e, m, h => by simp [metaQ_zero] at h
  | n + 1, q, raw, extra, input, e, m, h => by
    rcases metaQ_cases env n q raw extra input e m h with ⟨r, _, h⟩ | ⟨p, r, _, _, h⟩
    · exact metaAfter_describes env n (fun st hst => by cases hst; exact describes_init env input) _ _ _ _ _ e m h
    · refine metaAfter_describes env n (fun st hst => ?_) _ _ _ _ _ e m h
      exact metaQ_describes env n p _ .none input st _ (Prod.ext hst rfl)

/-! ### the query text -/

theorem metaPost_query (env : Env) (n : Nat) (st : EState) (m : MetaRec) (parent : Str) (r : Option Seg) (key raw : Str)
    (extra : Extra) (e : EState) (m' : MetaRec) (he : metaPost env n st m parent r key raw extra = (.st e, m')) :
    m'.query = key ∧ e.query = key := by
  rcases metaPost_cases env n st m parent r key raw extra e m' he with ⟨_, rfl, rfl⟩ | ⟨_, f, _, rfl, rfl⟩ | ⟨_, a, e2, _, hr, rfl, rfl⟩ <;>
    exact ⟨rfl, rfl⟩

theorem metaAfter_query (env : Env) (n : Nat) (o : Outcome) (m : MetaRec) (parent : Str) (r : Option Seg) (key raw : Str)
    (extra : Extra) (e : EState) (m' : MetaRec) (he : metaAfter env n o m parent r key raw extra = (.st e, m')) :
    m'.query = key ∧ e.query = key := by
  unfold metaAfter at he
  cases o with
  | st st =>
    simp only at he
    split at he
    · simp only [Prod.mk.injEq, Outcome.st.injEq] at he; obtain ⟨rfl, rfl⟩ := he; exact ⟨rfl, rfl⟩
    · exact metaPost_query env n st m parent r key raw extra e m' he
  | _ => simp at he

theorem metaQ_query (env : Env) (n : Nat) (q : Query) (raw : Str) (extra : Extra) (input : Option Val) (e : EState) (m : MetaRec)
    (h : metaQ env n q raw extra input = (.st e, m)) : m.query = q.encode Gen.escapeTable := by
  cases n with
  | zero => simp [metaQ_zero] at h
  | succ n =>
    rcases metaQ_cases env n q raw extra input e m h with ⟨r, _, h⟩ | ⟨p, r, _, _, h⟩
    · exact (metaAfter_query _ _ _ _ _ _ _ _ _ _ _ h).1
    · exact (metaAfter_query _ _ _ _ _ _ _ _ _ _ _ h).1

end Liquer
