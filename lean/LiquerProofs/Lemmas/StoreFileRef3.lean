/-
The simulation between the `FileStore` model and the reference store, part 3: recursive `removedir` (fuel
induction), `keys()` (depth-first walk, fuel induction), every well-formed operation, whole histories, and the
agreement of all observations.
-/
import LiquerProofs.Lemmas.StoreFileRef2

namespace Liquer

variable {root : Path} {s : PFS} {fs : FS}

/-! ### the equations of the two fuel recursions -/

/-- the loop body of the recursive `removedir` -/
def File.childStep (root : Path) (n : Nat) (k : Key) (st : PFS) (nm : Str) : Except StoreErr PFS := do
  let c := k ++ [nm]
  if (← File.isDir root st c) then File.removedirFuel root n st c true else File.remove root st c

theorem File.removedirFuel_nonrec (root : Path) (n : Nat) (s : PFS) {k : Key} (hke : k.isEmpty = false) :
    File.removedirFuel root (n + 1) s k false = File.removedirTail root s k := by
  unfold File.removedirFuel File.removedirTail
  simp only [hke, Bool.false_eq_true, ↓reduceIte, bind, Except.bind, pure, Except.pure]

theorem File.removedirFuel_rec (root : Path) (n : Nat) (s : PFS) {k : Key} (hke : k.isEmpty = false) {names : List Str}
    (hl : File.listdir root s k = .ok (some names)) :
    File.removedirFuel root (n + 1) s k true =
      (names.foldlM (File.childStep root n k) s) >>= fun s1 => File.removedirTail root s1 k := by
  unfold File.removedirFuel File.removedirTail
  simp only [hke, Bool.false_eq_true, ↓reduceIte, bind, Except.bind, hl]
  rfl

/-- the loop body of `keys()` -/
def File.keysStep (root : Path) (n : Nat) (s : PFS) (parent : Key) (acc : List Key) (nm : Str) : Except StoreErr (List Key) := do
  let key := parent ++ [nm]
  let sub ← File.keysFuel root n s key
  pure (acc ++ key :: sub)

theorem File.keysFuel_none (root : Path) (n : Nat) (s : PFS) {parent : Key} (hl : File.listdir root s parent = .ok none) :
    File.keysFuel root (n + 1) s parent = .ok [] := by
  unfold File.keysFuel
  simp only [bind, Except.bind, hl, pure, Except.pure]

theorem File.keysFuel_some (root : Path) (n : Nat) (s : PFS) {parent : Key} {names : List Str}
    (hl : File.listdir root s parent = .ok (some names)) :
    File.keysFuel root (n + 1) s parent = names.foldlM (File.keysStep root n s parent) [] := by
  unfold File.keysFuel
  simp only [bind, Except.bind, hl]
  rfl

end Liquer

namespace Liquer

variable {root : Path} {s : PFS} {fs : FS}

/-! ### `SimF` and `PlainFS` only look at bindings -/

theorem Just.congr {fs fs' : FS} {t : List Str} {x : PNode} (h : Just fs t x) (e : ∀ q, fs'.get q = fs.get q) : Just fs' t x :=
  h.mono (fun q n hq => by rw [e]; exact hq)

theorem SimF.congr {fs' : FS} (h : SimF root s fs) (e : ∀ q, fs'.get q = fs.get q) : SimF root s fs' :=
  ⟨h.nd, h.ready, fun k hk => h.cdir k (by rw [← e]; exact hk), fun k d m hk => h.cfile k d m (by rw [← e]; exact hk),
   fun t x ht hs => (h.sound t x ht hs).congr e⟩

theorem plainFS_filter (hp : PlainFS fs) (P : Key → Bool) : PlainFS (fs.filter (fun kv => P kv.1)) := by
  intro q hq
  rw [FS.get_filter_key] at hq
  by_cases c : P q = true
  · simp only [c, ↓reduceIte] at hq; exact hp q hq
  · simp [c] at hq

theorem plainFS_removeSubs (hp : PlainFS fs) (k : Key) (cs : List Str) : PlainFS (removeSubs fs k cs) :=
  plainFS_filter hp (fun q => !(underAny k cs q))

/-! ### the recursive `removedir` -/

/-- the statement proved by induction on the fuel -/
def RemovedirRecF (root : Path) (n : Nat) : Prop :=
  ∀ (s : PFS) (fs : FS) (k : Key), SimF root s fs → PlainFS fs → FS.Tree fs → k ≠ [] → fs.get k = some .dir → subSize fs k < n →
    ∃ s', File.removedirFuel root n s k true = .ok s' ∧ SimF root s' (fs.filter (fun kv => !(k.isPrefixOf kv.1)))

theorem fold_children_F (n : Nat) (IH : RemovedirRecF root n) (fs0 : FS) (k : Key) (hp0 : PlainFS fs0) (ht0 : FS.Tree fs0)
    (hd : fs0.get k = some .dir) (hsub : subSize fs0 k < n + 1) :
    ∀ (rest done : List Str), (done ++ rest).Nodup → (∀ c ∈ done ++ rest, c ∈ fs0.children k) →
      ∀ st, SimF root st (removeSubs fs0 k done) →
      ∃ st', rest.foldlM (File.childStep root n k) st = .ok st' ∧ SimF root st' (removeSubs fs0 k (done ++ rest)) := by
  intro rest
  induction rest with
  | nil =>
    intro done _ _ st hst
    exact ⟨st, rfl, by simpa using hst⟩
  | cons nm rest ih =>
    intro done hnd hmem st hst
    have hnm : nm ∈ fs0.children k := hmem nm (by simp)
    have hpres : (fs0.get (k ++ [nm])).isSome = true := (mem_children_iff fs0 k nm).mp hnm
    have hplain : PlainKey (k ++ [nm]) := hp0 _ hpres
    have hnotdone : nm ∉ done := by
      intro h
      have := (List.nodup_append.mp hnd).2.2 nm h nm (by simp)
      exact this rfl
    have hcur_tree := removeSubs_tree ht0 k done
    have hcur_plain := plainFS_removeSubs hp0 k done
    have hund : underAny k done (k ++ [nm]) = false := by
      rw [← Bool.not_eq_true, underAny_iff]
      rintro ⟨c', hc', hp⟩
      exact hnotdone (child_prefix_child hp ▸ hc')
    have hcur_get : (removeSubs fs0 k done).get (k ++ [nm]) = fs0.get (k ++ [nm]) := by
      rw [removeSubs_get, hund]; simp
    have hassoc : done ++ nm :: rest = (done ++ [nm]) ++ rest := by simp
    rw [List.foldlM_cons]
    unfold File.childStep
    simp only [hst.isDir hplain, bind, Except.bind]
    by_cases hdir : (removeSubs fs0 k done).isDirB (k ++ [nm]) = true
    · -- a sub-directory: recursive call with the remaining fuel
      simp only [hdir, ↓reduceIte]
      have hcd : (removeSubs fs0 k done).get (k ++ [nm]) = some .dir := by
        simpa [FS.isDirB] using hdir
      have hlt : subSize (removeSubs fs0 k done) (k ++ [nm]) < n := by
        have : subSize (removeSubs fs0 k done) (k ++ [nm]) < subSize fs0 k := by
          unfold subSize removeSubs
          rw [List.filter_filter]
          apply length_filter_lt_of_imp fs0 _ _ _ (k, .dir) (FS.mem_of_get hd)
          · simp
          · have : (k ++ [nm]).isPrefixOf k = false := by
              rw [← Bool.not_eq_true, List.isPrefixOf_iff_prefix]; exact child_not_prefix_parent k nm
            simp [this]
          · intro x _ hx
            simp only [Bool.and_eq_true, List.isPrefixOf_iff_prefix] at hx ⊢
            exact (List.prefix_append k [nm]).trans hx.1
        omega
      obtain ⟨st1, hrun, hsim1⟩ := IH st (removeSubs fs0 k done) (k ++ [nm]) hst hcur_plain hcur_tree (by simp) hcd hlt
      rw [hrun]
      simp only
      have hsim1' : SimF root st1 (removeSubs fs0 k (done ++ [nm])) := by
        apply hsim1.congr
        intro q
        rw [get_removeRec, removeSubs_get, removeSubs_get, underAny_append]
        by_cases h1 : (k ++ [nm]) <+: q
        · have : (k ++ [nm]).isPrefixOf q = true := List.isPrefixOf_iff_prefix.mpr h1
          simp [h1, this]
        · have : (k ++ [nm]).isPrefixOf q = false := by rw [← Bool.not_eq_true, List.isPrefixOf_iff_prefix]; exact h1
          simp [h1, this]
      rw [hassoc]
      exact ih (done ++ [nm]) (by rw [← hassoc]; exact hnd) (by rw [← hassoc]; exact hmem) st1 hsim1'
    · -- a file: `remove`
      simp only [hdir, Bool.false_eq_true, ↓reduceIte]
      have hnd' : (removeSubs fs0 k done).get (k ++ [nm]) ≠ some .dir := by
        intro e; apply hdir; simp [FS.isDirB, e]
      obtain ⟨d0, m0, hfile⟩ : ∃ d0 m0, (removeSubs fs0 k done).get (k ++ [nm]) = some (.file d0 m0) := by
        rw [hcur_get] at hnd' ⊢
        cases hg : fs0.get (k ++ [nm]) with
        | none => simp [hg] at hpres
        | some x =>
          cases x with
          | dir => exact absurd hg hnd'
          | file d0 m0 => exact ⟨d0, m0, rfl⟩
      obtain ⟨st1, hrun, hsim1⟩ := simF_remove hst hcur_plain hcur_tree hfile
      rw [hrun]
      simp only
      have hsim1' : SimF root st1 (removeSubs fs0 k (done ++ [nm])) := by
        apply hsim1.congr
        intro q
        rw [FS.get_erase, removeSubs_get, removeSubs_get, underAny_append]
        by_cases h1 : (k ++ [nm]) <+: q
        · have hp : (k ++ [nm]).isPrefixOf q = true := List.isPrefixOf_iff_prefix.mpr h1
          simp only [hp, Bool.or_true, ↓reduceIte]
          by_cases e : q = k ++ [nm]
          · simp [e]
          · simp only [e, ↓reduceIte]
            -- a bound key strictly below the file would need the file to be a directory
            have hanc : (k ++ [nm]) ∈ ancestors q := (mem_ancestors _ _).mpr ⟨by simp, h1, fun e' => e e'.symm⟩
            have hq : (removeSubs fs0 k done).get q = none := by
              cases hg : (removeSubs fs0 k done).get q with
              | none => rfl
              | some x =>
                exfalso
                exact hnd' (hcur_tree.anc q (by simp [hg]) _ hanc)
            rw [removeSubs_get] at hq
            exact hq.symm
        · have hp : (k ++ [nm]).isPrefixOf q = false := by rw [← Bool.not_eq_true, List.isPrefixOf_iff_prefix]; exact h1
          have e : q ≠ k ++ [nm] := fun e => h1 (e ▸ List.prefix_refl _)
          simp [hp, e]
      rw [hassoc]
      exact ih (done ++ [nm]) (by rw [← hassoc]; exact hnd) (by rw [← hassoc]; exact hmem) _ hsim1'

theorem removedirRecF_all (root : Path) (n : Nat) : RemovedirRecF root n := by
  induction n with
  | zero => intro s fs k _ _ _ _ _ h; omega
  | succ n IH =>
    intro s fs k hsim hp ht hk hd hsub
    have hke : k.isEmpty = false := by simpa using hk
    have hdir : fs.isDirB k = true := by simp [FS.isDirB, hd]
    have hkp : PlainKey k := hp.of_get hd
    rcases hsim.listdir hp ht hkp with ⟨hf, _⟩ | ⟨_, names, hl, hperm⟩
    · rw [hdir] at hf; cases hf
    · have hnd : names.Nodup := (hperm.nodup_iff).mpr (children_nodup ht k)
      obtain ⟨st, hfold, hst⟩ := fold_children_F n IH fs k hp ht hd hsub names [] (by simpa using hnd)
        (fun c hc => hperm.mem_iff.mp (by simpa using hc)) s (by
          apply hsim.congr; intro q; rw [removeSubs_get]; simp [underAny])
      simp only [List.nil_append] at hst
      -- the directory itself
      have htree := removeSubs_tree ht k names
      have hplain := plainFS_removeSubs hp k names
      have hkd : (removeSubs fs k names).get k = some .dir := by
        rw [removeSubs_get]
        have : underAny k names k = false := by
          rw [← Bool.not_eq_true, underAny_iff]
          rintro ⟨c, _, hp⟩
          exact child_not_prefix_parent k c hp
        simp [this, hd]
      have hempty : ((removeSubs fs k names).children k).isEmpty = true := by
        rw [FS.children_isEmpty_iff]
        intro q hq hqne hqk
        have hq' := hq
        rw [removeSubs_get] at hq'
        have hqe : k ++ [keyName q] = q := by
          have := key_eq_parent_name hqne
          unfold parentKey at this
          rw [hqk] at this
          exact this.symm
        by_cases hu : underAny k names q = true
        · simp [hu] at hq'
        · simp only [hu, Bool.false_eq_true, ↓reduceIte] at hq'
          apply hu
          rw [underAny_iff]
          refine ⟨keyName q, hperm.mem_iff.mpr ((mem_children_iff fs k _).mpr (by rw [hqe]; exact hq')), ?_⟩
          rw [hqe]
          exact List.prefix_refl _
      obtain ⟨s', htail, hsim'⟩ := simF_removedirTail hst hplain htree hk hkd hempty
      refine ⟨s', ?_, ?_⟩
      · rw [File.removedirFuel_rec root n s hke hl, hfold]
        exact htail
      · apply hsim'.congr
        intro q
        rw [get_removeRec, FS.get_erase, removeSubs_get]
        by_cases e : q = k
        · subst e; simp
        · simp only [e, ↓reduceIte]
          by_cases hu : underAny k names q = true
          · obtain ⟨c, _, hp⟩ := (underAny_iff k names q).mp hu
            have : k <+: q := (List.prefix_append k [c]).trans hp
            simp [hu, this]
          · simp only [hu, Bool.false_eq_true, ↓reduceIte]
            by_cases hkq : k <+: q
            · simp only [hkq, ↓reduceIte]
              cases hg : fs.get q with
              | none => rfl
              | some x =>
                exfalso
                have hanc : k ∈ ancestors q := (mem_ancestors k q).mpr ⟨hk, hkq, fun e' => e e'.symm⟩
                obtain ⟨c, hc1, hc2, hc3⟩ := child_on_way hanc
                have hs : (fs.get q).isSome = true := by simp [hg]
                have hcs : (fs.get c).isSome = true := by
                  rcases hc1 with e1 | e1
                  · rw [e1]; exact hs
                  · simp [ht.anc q hs c e1]
                have hce : k ++ [keyName c] = c := by
                  have := key_eq_parent_name hc2
                  unfold parentKey at this
                  rw [hc3] at this
                  exact this.symm
                apply hu
                rw [underAny_iff]
                refine ⟨keyName c, hperm.mem_iff.mpr ((mem_children_iff fs k _).mpr (by rw [hce]; exact hcs)), ?_⟩
                rw [hce]
                rcases hc1 with e1 | e1
                · rw [e1]; exact List.prefix_refl _
                · exact ancestors_prefix e1
            · simp [hkq]

end Liquer

namespace Liquer

variable {root : Path} {s : PFS} {fs : FS}

/-! ### the fuel of the model suffices -/

theorem length_le_of_nodup_subset {α : Type} [DecidableEq α] :
    ∀ (l1 l2 : List α), l1.Nodup → (∀ x ∈ l1, x ∈ l2) → l1.length ≤ l2.length := by
  intro l1
  induction l1 with
  | nil => intro l2 _ _; simp
  | cons a l1 ih =>
    intro l2 hnd hsub
    rw [List.nodup_cons] at hnd
    have ha : a ∈ l2 := hsub a List.mem_cons_self
    have := ih (l2.erase a) hnd.2 (by
      intro x hx
      have hne : x ≠ a := fun e => hnd.1 (e ▸ hx)
      exact (List.mem_erase_of_ne hne).mpr (hsub x (List.mem_cons_of_mem _ hx)))
    rw [List.length_erase_of_mem ha] at this
    have hpos : 0 < l2.length := List.length_pos_of_mem ha
    simp only [List.length_cons]
    omega

/-- every binding of the specification state has its own node in the POSIX tree -/
theorem SimF.length_le (h : SimF root s fs) (ht : FS.Tree fs) : fs.length ≤ s.length := by
  have h1 : ((fs.map (·.1)).map (fun k => root ++ k)).Nodup := by
    have := ht.nodup
    unfold List.Nodup at this ⊢
    rw [List.pairwise_map]
    exact this.imp (fun hab e => hab ((root_append_inj root).mp e))
  have h2 := length_le_of_nodup_subset _ (s.map (·.1)) h1 (by
    intro p hp
    simp only [List.mem_map] at hp
    obtain ⟨k, ⟨⟨k', n⟩, hmem, rfl⟩, rfl⟩ := hp
    have hg : fs.get k' = some n := FS.get_of_mem ht.nodup hmem
    have hk0 : k' ≠ [] := ht.nonroot k' (by simp [hg])
    have hs : (s.get (root ++ k')).isSome = true := by
      cases n with
      | dir => simp [h.cdir k' hg]
      | file d m => simp [(h.cfile k' d m hg).1]
    rw [PFS.get_of_ne_nil _ (by simp [hk0])] at hs
    exact (al_mem_keys_iff s _).mpr hs)
  simpa using h2

theorem simF_removedir_rec (h : SimF root s fs) (hp : PlainFS fs) (ht : FS.Tree fs) {k : Key} (hk : k ≠ [])
    (hd : fs.get k = some .dir) :
    ∃ s', File.removedir root s k true = .ok s' ∧ SimF root s' (fs.filter (fun kv => !(k.isPrefixOf kv.1))) := by
  unfold File.removedir
  apply removedirRecF_all root _ s fs k h hp ht hk hd
  have := h.length_le ht
  have := subSize_le fs k
  omega

theorem simF_removedir_nonrec (h : SimF root s fs) (hp : PlainFS fs) (ht : FS.Tree fs) {k : Key} (hk : k ≠ [])
    (hd : fs.get k = some .dir) (hc : (fs.children k).isEmpty = true) :
    ∃ s', File.removedir root s k false = .ok s' ∧ SimF root s' (fs.erase k) := by
  unfold File.removedir
  rw [File.removedirFuel_nonrec root _ s (by simpa using hk)]
  exact simF_removedirTail h hp ht hk hd hc

/-! ### every well-formed operation, whole histories -/

theorem simF_step (h : SimF root s fs) (hp : PlainFS fs) (ht : FS.Tree fs) (op : StoreOp) (hk : PlainKey op.key)
    (hwf : wfOp fs op = true) :
    ∃ s', (fileOps root).apply s op = .ok s' ∧ SimF root s' (specOps.step fs op) := by
  cases op with
  | store k d m => exact simF_store h hp ht hk d m hwf
  | storeMeta k m =>
    simp only [wfOp] at hwf
    obtain ⟨d0, m0, hg⟩ := isFile_cases hwf
    obtain ⟨s', h1, h2⟩ := simF_storeMeta h hp ht m hg
    refine ⟨s', h1, ?_⟩
    simpa only [StoreOps.step, StoreOps.apply, specOps, hg] using h2
  | remove k =>
    simp only [wfOp] at hwf
    obtain ⟨d0, m0, hg⟩ := isFile_cases hwf
    obtain ⟨s', h1, h2⟩ := simF_remove h hp ht hg
    refine ⟨s', h1, ?_⟩
    simpa only [StoreOps.step, StoreOps.apply, specOps] using h2
  | removedir k r =>
    simp only [wfOp, Bool.and_eq_true, Bool.not_eq_true', List.isEmpty_eq_false_iff, beq_iff_eq, Bool.or_eq_true] at hwf
    obtain ⟨⟨hk0, hd⟩, hr⟩ := hwf
    have hke : k.isEmpty = false := by simpa using hk0
    cases r with
    | true =>
      obtain ⟨s', h1, h2⟩ := simF_removedir_rec h hp ht hk0 hd
      refine ⟨s', h1, ?_⟩
      simpa only [StoreOps.step, StoreOps.apply, specOps, hke, Bool.false_eq_true, ↓reduceIte] using h2
    | false =>
      have hc : (fs.children k).isEmpty = true := by simpa using hr
      obtain ⟨s', h1, h2⟩ := simF_removedir_nonrec h hp ht hk0 hd hc
      refine ⟨s', h1, ?_⟩
      simpa only [StoreOps.step, StoreOps.apply, specOps, hke, Bool.false_eq_true, ↓reduceIte, hc] using h2
  | makedir k => exact simF_makedir h hp ht hk hwf

theorem plain_step (hp : PlainFS fs) (op : StoreOp) (hk : PlainKey op.key) : PlainFS (specOps.step fs op) := by
  intro q hq c hc
  rcases step_get_isSome fs op q hq with h | h
  · exact hp q h c hc
  · exact hk c (h.subset hc)

theorem plain_run (hp : PlainFS fs) (hist : List StoreOp) (hk : ∀ op ∈ hist, PlainKey op.key) :
    PlainFS (specOps.run fs hist) := by
  induction hist generalizing fs with
  | nil => exact hp
  | cons op rest ih =>
    simp only [StoreOps.run, List.foldl_cons]
    exact ih (plain_step hp op (hk op List.mem_cons_self)) (fun o ho => hk o (List.mem_cons_of_mem _ ho))

theorem simF_run (h : SimF root s fs) (hp : PlainFS fs) (ht : FS.Tree fs) (hist : List StoreOp)
    (hk : ∀ op ∈ hist, PlainKey op.key) (hwf : wfHist fs hist = true) :
    SimF root ((fileOps root).run s hist) (specOps.run fs hist) := by
  induction hist generalizing s fs with
  | nil => exact h
  | cons op rest ih =>
    simp only [wfHist, Bool.and_eq_true] at hwf
    obtain ⟨s', h1, h2⟩ := simF_step h hp ht op (hk op List.mem_cons_self) hwf.1
    simp only [StoreOps.run, List.foldl_cons]
    have : (fileOps root).step s op = s' := by simp only [StoreOps.step, h1]
    rw [this]
    exact ih h2 (plain_step hp op (hk op List.mem_cons_self)) (spec_tree_step ht op hwf.1)
      (fun o ho => hk o (List.mem_cons_of_mem _ ho)) hwf.2

/-- on a well-formed history of plain keys no operation of the `FileStore` model fails -/
theorem file_step_ok (h : SimF root s fs) (hp : PlainFS fs) (ht : FS.Tree fs) (op : StoreOp) (hk : PlainKey op.key)
    (hwf : wfOp fs op = true) : ∃ s', (fileOps root).apply s op = .ok s' := by
  obtain ⟨s', h1, _⟩ := simF_step h hp ht op hk hwf
  exact ⟨s', h1⟩

end Liquer

namespace Liquer

variable {root : Path} {s : PFS} {fs : FS}

/-! ### `keys()`: the depth-first walk lists every bound key exactly once -/

theorem below_lt (fs : FS) (parent : Key) (nm : Str) (hpres : (fs.get (parent ++ [nm])).isSome = true) :
    (fs.below (parent ++ [nm])).length < (fs.below parent).length := by
  obtain ⟨n, hn⟩ := Option.isSome_iff_exists.mp hpres
  unfold FS.below
  apply length_filter_lt_of_imp fs _ _ _ (parent ++ [nm], n) (FS.mem_of_get hn)
  · have : parent.isPrefixOf (parent ++ [nm]) = true := List.isPrefixOf_iff_prefix.mpr (List.prefix_append _ _)
    simp [this]
  · simp
  · intro x _ hx
    simp only [Bool.and_eq_true, List.isPrefixOf_iff_prefix, bne_iff_ne, ne_eq] at hx ⊢
    refine ⟨(List.prefix_append parent [nm]).trans hx.1, ?_⟩
    intro e
    have := hx.1.length_le
    rw [e] at this
    simp at this
    omega

theorem ite_iff_congr {p q : Prop} [Decidable p] [Decidable q] (h : p ↔ q) (a b : Nat) :
    (if p then a else b) = if q then a else b := by
  by_cases hp : p
  · rw [if_pos hp, if_pos (h.mp hp)]
  · rw [if_neg hp, if_neg (fun hq => hp (h.mpr hq))]

/-- the statement proved by induction on the fuel -/
def KeysRecF (root : Path) (s : PFS) (fs : FS) (n : Nat) : Prop :=
  ∀ parent, PlainKey parent → (parent = [] ∨ (fs.get parent).isSome = true) → (fs.below parent).length < n →
    ∃ ks, File.keysFuel root n s parent = .ok ks ∧
      ∀ q, ks.count q = if (parent <+: q ∧ q ≠ parent ∧ (fs.get q).isSome = true) then 1 else 0

theorem underAny_cons (k : Key) (c : Str) (cs : List Str) (q : Key) :
    underAny k (c :: cs) q = ((k ++ [c]).isPrefixOf q || underAny k cs q) := by
  simp [underAny]

theorem keys_fold (hp : PlainFS fs) (n : Nat) (IH : KeysRecF root s fs n) (parent : Key)
    (hb : (fs.below parent).length < n + 1) :
    ∀ rest : List Str, rest.Nodup → (∀ c ∈ rest, (fs.get (parent ++ [c])).isSome = true) → ∀ acc : List Key,
      ∃ ks, rest.foldlM (File.keysStep root n s parent) acc = .ok ks ∧
        ∀ q, ks.count q = acc.count q + (if (underAny parent rest q = true ∧ (fs.get q).isSome = true) then 1 else 0) := by
  intro rest
  induction rest with
  | nil =>
    intro _ _ acc
    exact ⟨acc, rfl, fun q => by simp [underAny]⟩
  | cons nm rest ih =>
    intro hnd hpres acc
    rw [List.nodup_cons] at hnd
    have hkey : (fs.get (parent ++ [nm])).isSome = true := hpres nm List.mem_cons_self
    obtain ⟨sub, hsubrun, hsub⟩ := IH (parent ++ [nm]) (hp _ hkey) (Or.inr hkey) (by
      have := below_lt fs parent nm hkey
      omega)
    obtain ⟨ks, hrun, hks⟩ := ih hnd.2 (fun c hc => hpres c (List.mem_cons_of_mem _ hc)) (acc ++ (parent ++ [nm]) :: sub)
    refine ⟨ks, ?_, ?_⟩
    · rw [List.foldlM_cons]
      unfold File.keysStep
      simp only [hsubrun, bind, Except.bind, pure, Except.pure]
      exact hrun
    · intro q
      rw [hks q, List.count_append, List.count_cons, hsub q, underAny_cons]
      by_cases h1 : (parent ++ [nm]) <+: q
      · have hp1 : (parent ++ [nm]).isPrefixOf q = true := List.isPrefixOf_iff_prefix.mpr h1
        have hnr : underAny parent rest q = false := by
          rw [← Bool.not_eq_true, underAny_iff]
          rintro ⟨c, hc, hcq⟩
          rcases List.prefix_or_prefix_of_prefix h1 hcq with x | x
          · exact hnd.1 (child_prefix_child x ▸ hc)
          · exact hnd.1 ((child_prefix_child x).symm ▸ hc)
        by_cases e : q = parent ++ [nm]
        · subst e
          simp [hp1, hnr, hkey]
        · have e' : ¬ (parent ++ [nm]) = q := fun x => e x.symm
          by_cases hq : (fs.get q).isSome = true
          · simp [hp1, hnr, h1, e, e', hq]
          · simp [hq, e']
      · have hp1 : (parent ++ [nm]).isPrefixOf q = false := by
          rw [← Bool.not_eq_true, List.isPrefixOf_iff_prefix]; exact h1
        have e' : ¬ (parent ++ [nm]) = q := fun x => h1 (x ▸ List.prefix_refl _)
        simp [hp1, h1, e']

theorem keysRecF_all (h : SimF root s fs) (hp : PlainFS fs) (ht : FS.Tree fs) (n : Nat) : KeysRecF root s fs n := by
  induction n with
  | zero => intro parent _ _ hb; omega
  | succ n IH =>
    intro parent hpar hpp hb
    rcases h.listdir hp ht hpar with ⟨hf, hl⟩ | ⟨_, names, hl, hperm⟩
    · refine ⟨[], File.keysFuel_none root n s hl, ?_⟩
      intro q
      have : ¬ (parent <+: q ∧ q ≠ parent ∧ (fs.get q).isSome = true) := by
        rintro ⟨h1, h2, h3⟩
        have hne : parent ≠ [] := by
          intro e; subst e; simp [FS.isDirB] at hf
        have hanc : parent ∈ ancestors q := (mem_ancestors _ _).mpr ⟨hne, h1, fun e => h2 e.symm⟩
        have := ht.anc q h3 parent hanc
        simp [FS.isDirB, this] at hf
      simp [this]
    · have hnd : names.Nodup := (hperm.nodup_iff).mpr (children_nodup ht parent)
      obtain ⟨ks, hrun, hks⟩ := keys_fold hp n IH parent hb names hnd
        (fun c hc => (mem_children_iff fs parent c).mp (hperm.mem_iff.mp hc)) []
      refine ⟨ks, by rw [File.keysFuel_some root n s hl]; exact hrun, ?_⟩
      intro q
      rw [hks q, List.count_nil, Nat.zero_add]
      apply ite_iff_congr
      constructor
      · rintro ⟨hu, hq⟩
        obtain ⟨c, _, hc⟩ := (underAny_iff parent names q).mp hu
        refine ⟨(List.prefix_append parent [c]).trans hc, ?_, hq⟩
        intro e
        subst e
        exact child_not_prefix_parent q c hc
      · rintro ⟨h1, h2, hq⟩
        refine ⟨?_, hq⟩
        obtain ⟨t, rfl⟩ := h1
        cases t with
        | nil => simp at h2
        | cons c t =>
          rw [underAny_iff]
          have hcs : (fs.get (parent ++ [c])).isSome = true := by
            cases t with
            | nil => exact hq
            | cons y t =>
              have : (parent ++ [c]) ∈ ancestors (parent ++ c :: y :: t) := by
                rw [mem_ancestors]
                refine ⟨by simp, ⟨y :: t, by simp⟩, ?_⟩
                intro e
                have := congrArg List.length e
                simp at this
              simp [ht.anc _ hq _ this]
          exact ⟨c, hperm.mem_iff.mpr ((mem_children_iff fs parent c).mpr hcs), ⟨t, by simp⟩⟩

theorem SimF.keys_perm (h : SimF root s fs) (hp : PlainFS fs) (ht : FS.Tree fs) :
    ∃ ks, File.keys root s = .ok ks ∧ ks.Perm (fs.map (·.1)) := by
  unfold File.keys
  obtain ⟨ks, hrun, hks⟩ := keysRecF_all h hp ht (s.length + 1) [] PlainKey.nil (Or.inl rfl) (by
    have h1 : (fs.below []).length ≤ fs.length := List.length_filter_le _ _
    have h2 := h.length_le ht
    omega)
  refine ⟨ks, hrun, ?_⟩
  rw [List.perm_iff_count]
  intro q
  rw [hks q, ht.nodup.count]
  apply ite_iff_congr
  rw [FS.mem_keys_iff]
  constructor
  · exact fun x => x.2.2
  · intro hq
    exact ⟨List.nil_prefix, ht.nonroot q hq, hq⟩

end Liquer

namespace Liquer

variable {root : Path} {s : PFS} {fs : FS}

/-! ### all observations of a plain key -/

theorem SimF.obs (h : SimF root s fs) (hp : PlainFS fs) (ht : FS.Tree fs) {k : Key} (hk : PlainKey k) :
    ((fileOps root).obs s k).contains = (specOps.obs fs k).contains ∧
    ((fileOps root).obs s k).isDir = (specOps.obs fs k).isDir ∧
    ((∃ d, ((fileOps root).obs s k).bytes = .ok d ∧ (specOps.obs fs k).bytes = .ok d) ∨
     (∃ e e', ((fileOps root).obs s k).bytes = .error e ∧ (specOps.obs fs k).bytes = .error e')) ∧
    ((fileOps root).obs s k).metadata = (specOps.obs fs k).metadata ∧
    listingEquiv ((fileOps root).obs s k).listdir (specOps.obs fs k).listdir := by
  refine ⟨?_, ?_, ?_, ?_, ?_⟩
  · simp only [StoreOps.obs, fileOps, h.contains hk]; rfl
  · simp only [StoreOps.obs, fileOps, h.isDir hk]; rfl
  · simp only [StoreOps.obs, fileOps]; exact h.getBytes ht hk
  · simp only [StoreOps.obs, fileOps]; exact h.getMeta hp ht hk
  · simp only [StoreOps.obs, fileOps, specOps]
    rcases h.listdir hp ht hk with ⟨h1, h2⟩ | ⟨h1, l, h2, h3⟩
    · rw [h1, h2]; simp [listingEquiv]
    · rw [h1, h2]; simpa [listingEquiv] using h3

end Liquer
