/-
Helper lemmas for C08, part 2: the recipe layer over the `MemoryStore` model `memOps` — reads after writes of the
sub-store, what `create_status` leaves alone, and the two ways `make` ends (`finish`).
-/
import LiquerProofs.Lemmas.Recipes
import LiquerProofs.Lemmas.StoreMem

namespace Liquer.Rcp
open Liquer

/-! ### `MemoryStore`: the entry of a key after writes at this or another key -/

theorem mem_store_data (s : MemState) (k' : Key) (d : Data) (m : UMeta) (k : Key) :
    alGet (Mem.store s k' d m).data k = if k' = k then some d else alGet s.data k := by
  simp [Mem.store, Mem.makedir, alGet_set]

theorem mem_store_meta (s : MemState) (k' : Key) (d : Data) (m : UMeta) (k : Key) :
    alGet (Mem.store s k' d m).metadata k =
      if k' = k then some { m with size := some d.length, md5 := some d } else alGet s.metadata k := by
  simp [Mem.store, Mem.makedir, alGet_set]

theorem mem_storeMeta_data (s : MemState) (k' : Key) (m : UMeta) (k : Key) :
    alGet (Mem.storeMeta s k' m).data k = alGet s.data k := rfl

theorem mem_storeMeta_meta (s : MemState) (k' : Key) (m : UMeta) (k : Key) :
    alGet (Mem.storeMeta s k' m).metadata k = if k' = k then some m else alGet s.metadata k := by
  simp [Mem.storeMeta, alGet_set]

theorem mem_store_dirs (s : MemState) (k' : Key) (d : Data) (m : UMeta) (q : Key) :
    q ∈ (Mem.store s k' d m).directories ↔ q ∈ s.directories ∨ q ∈ ancestors (parentKey k') ∨ (parentKey k' ≠ [] ∧ q = parentKey k') := by
  simp only [Mem.store, Mem.makedir, mem_foldl_setAdd, List.mem_append]
  by_cases h : parentKey k' = []
  · simp [h]
  · simp [h]

theorem keyName_append_singleton (x : Key) (n : Str) : keyName (x ++ [n]) = n := by
  simp [keyName]

theorem statusKey_ne {k : Key} (h : keyName k ≠ statusFile) (d : Bool) (k' : Key) : statusKeyOf d k' ≠ k := by
  intro e
  apply h
  rw [← e]
  unfold statusKeyOf
  exact keyName_append_singleton _ _

/-! ### `create_status` over a `MemoryStore` -/

theorem isDir_mem (cfg : Cfg) (st : RState MemState) (k : Key) :
    isDir memOps cfg st k = .ok (Mem.isDir st.sub k || recipeDir cfg.recipes k) := by
  unfold isDir
  have h : memOps.isDir st.sub k = .ok (Mem.isDir st.sub k) := rfl
  rw [h]
  cases Mem.isDir st.sub k <;> rfl

theorem createStatus_mem (cfg : Cfg) (st : RState MemState) (k : Key) (h : keyName k ≠ statusFile) :
    createStatus memOps cfg st k =
      { st with sub := Mem.store st.sub (statusKeyOf (Mem.isDir st.sub k || recipeDir cfg.recipes k) k) [] statusMeta } := by
  unfold createStatus
  rw [if_neg h, isDir_mem]
  rfl

theorem createStatus_data (cfg : Cfg) (st : RState MemState) (k' k : Key) (h : keyName k ≠ statusFile) :
    alGet (createStatus memOps cfg st k').sub.data k = alGet st.sub.data k := by
  by_cases h' : keyName k' = statusFile
  · simp [createStatus, h']
  · rw [createStatus_mem cfg st k' h']
    simp only
    rw [mem_store_data, if_neg (statusKey_ne h _ _)]

theorem createStatus_meta (cfg : Cfg) (st : RState MemState) (k' k : Key) (h : keyName k ≠ statusFile) :
    alGet (createStatus memOps cfg st k').sub.metadata k = alGet st.sub.metadata k := by
  by_cases h' : keyName k' = statusFile
  · simp [createStatus, h']
  · rw [createStatus_mem cfg st k' h']
    simp only
    rw [mem_store_meta, if_neg (statusKey_ne h _ _)]

/-! ### reads of the recipe layer over a `MemoryStore` -/

theorem getMeta_mem_entry (cfg : Cfg) (st : RState MemState) (k : Key) (um : UMeta)
    (h : alGet st.sub.metadata k = some um) :
    getMeta memOps cfg st k = .ok { isDir := Mem.isDir st.sub k, rm := decRM um.user } := by
  unfold getMeta
  show (match Mem.getMeta st.sub k with | .ok mo => _ | .error e => _) = _
  simp [Mem.getMeta, h, obsOf]

theorem mem_contains_of_data (s : MemState) (k : Key) (d : Data) (h : alGet s.data k = some d) : Mem.contains s k = true := by
  simp [Mem.contains, h]

theorem mem_contains_of_meta (s : MemState) (k : Key) (m : UMeta) (h : alGet s.metadata k = some m) : Mem.contains s k = true := by
  simp [Mem.contains, h]

theorem mem_absent {s : MemState} {k : Key} (h : Mem.contains s k = false) :
    k ≠ [] ∧ k ∉ s.directories ∧ alGet s.data k = none ∧ alGet s.metadata k = none := by
  simp only [Mem.contains, Bool.or_eq_false_iff] at h
  obtain ⟨⟨⟨h1, h2⟩, h3⟩, h4⟩ := h
  refine ⟨?_, ?_, ?_, ?_⟩
  · intro e; simp [e] at h1
  · simpa using h2
  · simpa using h3
  · simpa using h4

/-- a read of a key whose data the `MemoryStore` has: served, nothing changes -/
theorem getBytesF_mem_data (cfg : Cfg) (E : Env) (n : Nat) (st : RState MemState) (k : Key) (d : Data)
    (h : alGet st.sub.data k = some d) : getBytesF memOps cfg E (n + 1) st k = (st, .ok d) := by
  rw [getBytesF_present memOps cfg E n st k (by show Except.ok (Mem.contains st.sub k) = _; rw [mem_contains_of_data _ _ _ h])]
  show (st, Mem.getBytes st.sub k) = _
  simp [Mem.getBytes, h]

/-- a read of a key of which the `MemoryStore` has metadata only (a failed recipe): fails, nothing is evaluated again -/
theorem getBytesF_mem_metaonly (cfg : Cfg) (E : Env) (n : Nat) (st : RState MemState) (k : Key) (m : UMeta)
    (hm : alGet st.sub.metadata k = some m) (hd : alGet st.sub.data k = none) :
    getBytesF memOps cfg E (n + 1) st k = (st, .error .keyNotFound) := by
  rw [getBytesF_present memOps cfg E n st k (by show Except.ok (Mem.contains st.sub k) = _; rw [mem_contains_of_meta _ _ _ hm])]
  show (st, Mem.getBytes st.sub k) = _
  simp [Mem.getBytes, hd]

/-! ### how `make` ends -/

/-- the metadata `make` leaves for a successfully evaluated recipe -/
def readyMeta (r : Recipe) : RMeta :=
  { status := .ready, title := r.title.or (some []), descr := r.descr.or (some []), hasRecipe := true,
    depName := some r.name, depVersion := some r.version }

theorem mergeMeta_ready (r : Recipe) : mergeMeta r false (evMeta .ready) = readyMeta r := by
  simp [mergeMeta, evMeta, readyMeta]

theorem finish_ok_mem (cfg : Cfg) (st : RState MemState) (k : Key) (r : Recipe) (d : Data) (hsf : keyName k ≠ statusFile) :
    (finish memOps cfg st k r (.ok d)).2 = none ∧
    alGet (finish memOps cfg st k r (.ok d)).1.sub.data k = some d ∧
    alGet (finish memOps cfg st k r (.ok d)).1.sub.metadata k =
      some { user := encRM (readyMeta r), size := some d.length, md5 := some d } := by
  have hw : writeBack memOps cfg st k (.ok d) =
      (createStatus memOps cfg (createStatus memOps cfg { st with sub := Mem.store st.sub k d { user := encRM (evMeta .ready) } } k) k, false) := rfl
  unfold finish
  rw [hw]
  simp only
  generalize hs2 : createStatus memOps cfg (createStatus memOps cfg { st with sub := Mem.store st.sub k d { user := encRM (evMeta .ready) } } k) k = st2
  have hd2 : alGet st2.sub.data k = some d := by
    rw [← hs2, createStatus_data _ _ _ _ hsf, createStatus_data _ _ _ _ hsf]
    simp [mem_store_data]
  have hm2 : alGet st2.sub.metadata k = some { user := encRM (evMeta .ready), size := some d.length, md5 := some d } := by
    rw [← hs2, createStatus_meta _ _ _ _ hsf, createStatus_meta _ _ _ _ hsf]
    simp [mem_store_meta]
  have hg : memOps.getMeta st2.sub k = .ok { key := k, name := keyName k, isDir := Mem.isDir st2.sub k, size := some d.length, md5 := some d, user := encRM (evMeta .ready) } := by
    show Mem.getMeta st2.sub k = _
    simp [Mem.getMeta, hm2]
  unfold finishTail
  rw [hg]
  simp only
  have hsm : ∀ u, memOps.storeMeta st2.sub k u = .ok (Mem.storeMeta st2.sub k u) := fun _ => rfl
  rw [hsm]
  simp only
  refine ⟨trivial, ?_, ?_⟩
  · rw [createStatus_data _ _ _ _ hsf, createStatus_data _ _ _ _ hsf]
    simp only
    rw [mem_storeMeta_data, hd2]
  · rw [createStatus_meta _ _ _ _ hsf, createStatus_meta _ _ _ _ hsf]
    simp only
    rw [mem_storeMeta_meta, if_pos rfl, decRM_encRM, mergeMeta_ready]

/-- the metadata `make` leaves for a recipe whose evaluation ended in an error state -/
def failedMeta (r : Recipe) (bare : Bool) : RMeta :=
  { status := .error, title := r.title.or (if bare then none else some []), descr := r.descr.or (if bare then none else some []),
    hasRecipe := true, depName := some r.name, depVersion := some r.version }

theorem mergeMeta_failed (cfg : Cfg) (k : Key) (r : Recipe) (bare : Bool) (hl : cfg.lookup k = some r) :
    mergeMeta r false (declaredMeta cfg k (if bare then evMetaBare else evMeta .error)) = failedMeta r bare := by
  cases bare <;> cases ht : r.title <;> cases hd : r.descr <;>
    simp [mergeMeta, declaredMeta, hl, evMeta, evMetaBare, failedMeta, ht, hd]

theorem finish_failed_mem (cfg : Cfg) (st : RState MemState) (k : Key) (r : Recipe) (bare : Bool)
    (hl : cfg.lookup k = some r) (hsf : keyName k ≠ statusFile) :
    (finish memOps cfg st k r (.failed bare)).2 = none ∧
    alGet (finish memOps cfg st k r (.failed bare)).1.sub.data k = alGet st.sub.data k ∧
    alGet (finish memOps cfg st k r (.failed bare)).1.sub.metadata k =
      some { user := encRM (failedMeta r bare), size := none, md5 := none } := by
  generalize hum : ({ user := encRM (declaredMeta cfg k (if bare then evMetaBare else evMeta .error)), size := none, md5 := none } : UMeta) = um
  have hw : writeBack memOps cfg st k (.failed bare) = (createStatus memOps cfg { st with sub := Mem.storeMeta st.sub k um } k, false) := by
    rw [← hum]; rfl
  unfold finish
  rw [hw]
  simp only
  generalize hs2 : createStatus memOps cfg { st with sub := Mem.storeMeta st.sub k um } k = st2
  have hd2 : alGet st2.sub.data k = alGet st.sub.data k := by
    rw [← hs2, createStatus_data _ _ _ _ hsf]
    rfl
  have hm2 : alGet st2.sub.metadata k = some um := by
    rw [← hs2, createStatus_meta _ _ _ _ hsf]
    simp [mem_storeMeta_meta]
  have hg : memOps.getMeta st2.sub k = .ok { key := k, name := keyName k, isDir := Mem.isDir st2.sub k, size := none, md5 := none, user := encRM (declaredMeta cfg k (if bare then evMetaBare else evMeta .error)) } := by
    show Mem.getMeta st2.sub k = _
    simp [Mem.getMeta, hm2, ← hum]
  unfold finishTail
  rw [hg]
  simp only
  have hsm : ∀ u, memOps.storeMeta st2.sub k u = .ok (Mem.storeMeta st2.sub k u) := fun _ => rfl
  rw [hsm]
  simp only
  refine ⟨trivial, ?_, ?_⟩
  · rw [createStatus_data _ _ _ _ hsf, createStatus_data _ _ _ _ hsf]
    simp only
    rw [mem_storeMeta_data, hd2]
  · rw [createStatus_meta _ _ _ _ hsf, createStatus_meta _ _ _ _ hsf]
    simp only
    rw [mem_storeMeta_meta, if_pos rfl, decRM_encRM, mergeMeta_failed cfg k r bare hl]

/-- entering `make`: a read of a declared key the `MemoryStore` does not contain -/
theorem getBytesF_mem_absent (cfg : Cfg) (E : Env) (n : Nat) (st : RState MemState) (k : Key) (r : Recipe)
    (hl : cfg.lookup k = some r) (habs : Mem.contains st.sub k = false) :
    getBytesF memOps cfg E (n + 1) st k =
      afterMake memOps k (finish memOps cfg (evalPhase memOps cfg E (getBytesF memOps cfg E n) st r k).1 k r
        (evalPhase memOps cfg E (getBytesF memOps cfg E n) st r k).2) := by
  have hc : memOps.contains st.sub k = .ok false := by show Except.ok (Mem.contains st.sub k) = _; rw [habs]
  simp [getBytesF, hc, makeWith, hl]

/-! ### `remove` -/

theorem remove_mem (cfg : Cfg) (st : RState MemState) (k : Key) :
    remove memOps cfg st k = .ok (createStatus memOps cfg { st with sub := Mem.remove st.sub k } k) := rfl

theorem not_mem_ancestors_parent (k : Key) (hk : k ≠ []) : k ∉ ancestors (parentKey k) ∧ k ≠ parentKey k := by
  have hlen : (parentKey k).length < k.length := by
    simp only [parentKey, List.length_dropLast]
    have : 0 < k.length := List.length_pos_iff.mpr hk
    omega
  constructor
  · intro h
    have := (ancestors_prefix h).length_le
    omega
  · intro e
    rw [← e] at hlen
    omega

theorem remove_mem_absent (cfg : Cfg) (st : RState MemState) (k : Key) (hk : k ≠ []) (hsf : keyName k ≠ statusFile)
    (hnd : recipeDir cfg.recipes k = false) :
    Mem.contains (createStatus memOps cfg { st with sub := Mem.remove st.sub k } k).sub k = false := by
  have hdir : Mem.isDir (Mem.remove st.sub k) k = false := by
    simp [Mem.isDir, Mem.remove, hk]
  rw [createStatus_mem cfg _ k hsf]
  simp only [hdir, hnd, Bool.or_self]
  have h1 : alGet (Mem.store (Mem.remove st.sub k) (statusKeyOf false k) [] statusMeta).data k = none := by
    rw [mem_store_data, if_neg (statusKey_ne hsf _ _)]
    simp [Mem.remove, alGet_erase]
  have h2 : alGet (Mem.store (Mem.remove st.sub k) (statusKeyOf false k) [] statusMeta).metadata k = none := by
    rw [mem_store_meta, if_neg (statusKey_ne hsf _ _)]
    simp [Mem.remove, alGet_erase]
  have h3 : k ∉ (Mem.store (Mem.remove st.sub k) (statusKeyOf false k) [] statusMeta).directories := by
    rw [mem_store_dirs]
    have hp : parentKey (statusKeyOf false k) = parentKey k := by
      simp [statusKeyOf, parentKey]
    rw [hp]
    obtain ⟨a1, a2⟩ := not_mem_ancestors_parent k hk
    intro h
    rcases h with h | h | h
    · simp [Mem.remove] at h
    · exact a1 h
    · exact a2 h.2
  simp only [Mem.contains, h1, h2, Option.isSome_none, Bool.or_false, Bool.or_eq_false_iff]
  refine ⟨?_, by simpa using h3⟩
  cases k with
  | nil => exact absurd rfl hk
  | cons a b => rfl

end Liquer.Rcp
