/-
Definitions used in the statements of the C03 safety theorems (kept apart so that
`Inst/EscapeTable.lean` can decide `sepCovered` for the regenerated table without the proofs).
-/
import LiquerModel.Token

namespace Liquer

/-- characters that may occur in an encoded token: unreserved URL characters other than `-`,
and `%` (which only occurs as the head of a `%XX` escape, see `encodeToken_blocks`). In particular
not the command separator `/`, the parameter separator `-` or a space. -/
def tokSafe (c : Char) : Bool :=
  ('A' ≤ c && c ≤ 'Z') || ('a' ≤ c && c ≤ 'z') || ('0' ≤ c && c ≤ '9') ||
  c == '_' || c == '.' || c == '~' || c == '%'

/-- the separators `/`, `-` and the space are themselves patterns of the table (so they get
escaped), and no code of the table reintroduces one of them. -/
def sepCovered (tbl : EscTable) : Bool :=
  ['/', '-', ' '].all fun a =>
    tbl.any (fun q => q.1 == [a]) && tbl.all (fun q => !q.2.contains a)

end Liquer
