/-
Lemmas about `overlayOps` (C15).
Part 1: no operation writes the fall-back component — for arbitrary part models.
Part 2: with specification parts, reads and writes against the shadow/mask view.
-/
import LiquerModel.StoreOverlay
import LiquerProofs.Lemmas.StoreView

namespace Liquer.OvL
open Liquer Liquer.SV

/-! ## Part 1: the fall-back is never written -/

section frame
variable {σu σl : Type} (U : StoreOps σu) (L : StoreOps σl)

theorem foldlM_inv {α β : Type} (P : β → Prop) (f : β → α → Except StoreErr β)
    (hf : ∀ b a b', P b → f b a = .ok b' → P b') :
    ∀ (l : List α) (b b' : β), P b → l.foldlM f b = .ok b' → P b' := by
  intro l
  induction l with
  | nil => intro b b' hb h; simp [List.foldlM, pure, Except.pure] at h; subst h; exact hb
  | cons a l ih =>
    intro b b' hb h
    simp only [List.foldlM, bind, Except.bind] at h
    cases hfa : f b a with
    | error e => simp [hfa] at h
    | ok b1 =>
      simp only [hfa] at h
      exact ih b1 b' (hf b a b1 hb hfa) h

theorem store_lower (s s' : OvState σu σl) (k : Key) (d : Data) (m : UMeta) (h : Ov.store U L s k d m = .ok s') :
    s'.2.1 = s.2.1 := by
  unfold Ov.store at h
  split at h
  · cases h
  · cases h; rfl

theorem storeMeta_lower (s s' : OvState σu σl) (k : Key) (m : UMeta) (h : Ov.storeMeta U L s k m = .ok s') :
    s'.2.1 = s.2.1 := by
  unfold Ov.storeMeta at h
  split at h
  · cases h
  · split at h
    · cases h
    · cases h; rfl

theorem remove_lower (s s' : OvState σu σl) (k : Key) (h : Ov.remove U L s k = .ok s') : s'.2.1 = s.2.1 := by
  unfold Ov.remove at h
  split at h
  · cases h; rfl
  · split at h
    · cases h
    · split at h
      · cases h
      · split at h
        · cases h
        · cases h; rfl

theorem makedir_lower (s s' : OvState σu σl) (k : Key) (h : Ov.makedir U L s k = .ok s') : s'.2.1 = s.2.1 := by
  unfold Ov.makedir at h
  split at h
  · cases h
  · cases h; rfl

theorem dropEmptyDir_lower (s s' : OvState σu σl) (k : Key) (h : Ov.dropEmptyDir U L s k = .ok s') :
    s'.2.1 = s.2.1 := by
  unfold Ov.dropEmptyDir at h
  split at h
  · cases h
  · cases h; rfl
  · split at h
    · cases h
    · split at h
      · cases h; rfl
      · split at h
        · cases h
        · split at h
          · cases h
          · split at h
            · cases h
            · cases h; rfl

theorem removedirFuel_lower (n : Nat) : ∀ (s s' : OvState σu σl) (k : Key) (r : Bool),
    Ov.removedirFuel U L n s k r = .ok s' → s'.2.1 = s.2.1 := by
  induction n with
  | zero => intro s s' k r h; simp [Ov.removedirFuel] at h
  | succ n ih =>
    intro s s' k r h
    simp only [Ov.removedirFuel] at h
    split at h
    · cases h
    · rename_i s1 hw
      have h1 : s1.2.1 = s.2.1 := by
        split at hw
        · split at hw
          · cases hw
          · rename_i names _
            refine foldlM_inv (fun st : OvState σu σl => st.2.1 = s.2.1) _ ?_ names s s1 rfl hw
            intro b a b' hb hf
            unfold Ov.rmChild at hf
            split at hf
            · cases hf
            · rw [ih _ _ _ _ hf]; exact hb
            · rw [remove_lower U L _ _ _ hf]; exact hb
        · cases hw; rfl
      rw [dropEmptyDir_lower U L _ _ _ h]; exact h1

/-- every successful operation leaves the fall-back component as it was -/
theorem apply_lower (s s' : OvState σu σl) (op : StoreOp) (h : (overlayOps U L).apply s op = .ok s') :
    s'.2.1 = s.2.1 := by
  cases op with
  | store k d m => exact store_lower U L s s' k d m h
  | storeMeta k m => exact storeMeta_lower U L s s' k m h
  | remove k => exact remove_lower U L s s' k h
  | removedir k r => exact removedirFuel_lower U L _ s s' k r h
  | makedir k => exact makedir_lower U L s s' k h

theorem step_lower (s : OvState σu σl) (op : StoreOp) : ((overlayOps U L).step s op).2.1 = s.2.1 := by
  unfold StoreOps.step
  cases h : (overlayOps U L).apply s op with
  | error e => rfl
  | ok s' => exact apply_lower U L s s' op h

theorem run_lower (h : List StoreOp) : ∀ s : OvState σu σl, ((overlayOps U L).run s h).2.1 = s.2.1 := by
  induction h with
  | nil => intro s; rfl
  | cons op rest ih =>
    intro s
    unfold StoreOps.run
    rw [List.foldl_cons]
    have := ih ((overlayOps U L).step s op)
    unfold StoreOps.run at this
    rw [this, step_lower]

end frame

/-! ## Part 2: specification parts — the shadow/mask view -/

abbrev S := OvState FS FS

/-- the overlay's content: masked by the tomb-stones, the upper part shadows the lower part -/
def view (s : S) : Look := fun k =>
  if s.2.2.contains k then none else
  match s.1.get k with
  | some n => some n
  | none => s.2.1.get k

/-- invariant of every state reachable by a well-formed history from `(∅, tree, ∅)` -/
structure Inv (s : S) : Prop where
  up : TreeP s.1
  low : TreeP s.2.1
  rem : ∀ k, k ∈ s.2.2 → s.1.get k = none
  noroot : [] ∉ s.2.2
  tree : TreeF (view s)

theorem view_of_mem {s : S} {k : Key} (h : k ∈ s.2.2) : view s k = none := by
  unfold view
  have : s.2.2.contains k = true := by simpa using h
  simp only [this, ↓reduceIte]

theorem view_of_not_mem {s : S} {k : Key} (h : k ∉ s.2.2) :
    view s k = match s.1.get k with | some n => some n | none => s.2.1.get k := by
  unfold view
  have : s.2.2.contains k = false := by simpa using h
  simp only [this, Bool.false_eq_true, ↓reduceIte]

theorem view_root {s : S} (hi : Inv s) : view s [] = none := hi.tree.root_none

theorem view_of_upper {s : S} (hi : Inv s) {k : Key} {n : Node} (h : s.1.get k = some n) : view s k = some n := by
  have hk : k ∉ s.2.2 := by
    intro hm
    rw [hi.rem k hm] at h; cases h
  rw [view_of_not_mem hk, h]

theorem not_mem_of_view {s : S} {k : Key} {n : Node} (h : view s k = some n) : k ∉ s.2.2 := by
  intro hm
  rw [view_of_mem hm] at h; cases h

theorem ov_contains {s : S} (hi : Inv s) (k : Key) :
    Ov.contains specOps specOps s k = .ok (rdContains (view s) k) := by
  unfold Ov.contains rdContains
  by_cases hm : k ∈ s.2.2
  · have hc : s.2.2.contains k = true := by simpa using hm
    have hk : k.isEmpty = false := by
      have : k ≠ [] := fun e => hi.noroot (e ▸ hm)
      simpa using this
    simp only [hc, ↓reduceIte, view_of_mem hm, hk]
    rfl
  · have hc : s.2.2.contains k = false := by simpa using hm
    simp only [hc, Bool.false_eq_true, ↓reduceIte, spec_contains, rdContains, view_of_not_mem hm]
    by_cases hk : k = []
    · subst hk; simp
    · have hke : k.isEmpty = false := by simpa using hk
      cases hu : s.1.get k with
      | some n => simp [hke]
      | none => simp [hke]

theorem ov_isDir {s : S} (hi : Inv s) (k : Key) :
    Ov.isDir specOps specOps s k = .ok (rdIsDir (view s) k) := by
  unfold Ov.isDir rdIsDir
  by_cases hm : k ∈ s.2.2
  · have hc : s.2.2.contains k = true := by simpa using hm
    have hk : k.isEmpty = false := by
      have : k ≠ [] := fun e => hi.noroot (e ▸ hm)
      simpa using this
    simp only [hc, ↓reduceIte, view_of_mem hm, hk]
    rfl
  · have hc : s.2.2.contains k = false := by simpa using hm
    simp only [hc, Bool.false_eq_true, ↓reduceIte, spec_contains, spec_isDir, rdContains, rdIsDir, view_of_not_mem hm]
    by_cases hk : k = []
    · subst hk; simp
    · have hke : k.isEmpty = false := by simpa using hk
      cases hu : s.1.get k with
      | some n => simp [hke]
      | none => simp [hke]

theorem ov_getBytes {s : S} (hi : Inv s) (k : Key) :
    Ov.getBytes specOps specOps s k = rdBytes (view s) k := by
  unfold Ov.getBytes rdBytes
  by_cases hm : k ∈ s.2.2
  · have hc : s.2.2.contains k = true := by simpa using hm
    simp only [hc, ↓reduceIte, view_of_mem hm]
  · have hc : s.2.2.contains k = false := by simpa using hm
    simp only [hc, Bool.false_eq_true, ↓reduceIte, spec_contains, spec_getBytes, rdContains, rdBytes, view_of_not_mem hm]
    by_cases hk : k = []
    · subst hk
      have h1 : s.1.get [] = none := hi.up.root_none
      have h2 : s.2.1.get [] = none := hi.low.root_none
      simp [h1, h2]
    · have hke : k.isEmpty = false := by simpa using hk
      cases hu : s.1.get k with
      | some n => simp [hke]
      | none => simp [hke]

theorem ov_getMeta {s : S} (hi : Inv s) (k : Key) :
    Ov.getMeta specOps specOps s k = (if k ∈ s.2.2 then .error .keyNotFound else rdMeta (view s) k) := by
  unfold Ov.getMeta
  by_cases hm : k ∈ s.2.2
  · have hc : s.2.2.contains k = true := by simpa using hm
    simp only [hc, ↓reduceIte, hm]
  · have hc : s.2.2.contains k = false := by simpa using hm
    simp only [hc, Bool.false_eq_true, ↓reduceIte, spec_contains, spec_getMeta, rdContains, rdMeta, view_of_not_mem hm, hm]
    by_cases hk : k = []
    · subst hk
      have h1 : s.1.get [] = none := hi.up.root_none
      have h2 : s.2.1.get [] = none := hi.low.root_none
      simp [h1, h2]
    · have hke : k.isEmpty = false := by simpa using hk
      cases hu : s.1.get k with
      | some n => simp [hke]
      | none => simp [hke]

theorem ov_getMeta' {s : S} (hi : Inv s) (k : Key) :
    Ov.getMeta specOps specOps s k = rdMeta (view s) k := by
  rw [ov_getMeta hi]
  by_cases hm : k ∈ s.2.2
  · have hk : k.isEmpty = false := by
      have : k ≠ [] := fun e => hi.noroot (e ▸ hm)
      simpa using this
    simp only [hm, ↓reduceIte, rdMeta, view_of_mem hm, hk, Bool.false_eq_true]
  · simp only [hm, ↓reduceIte]

theorem nodup_eraseDups {α : Type} [BEq α] [LawfulBEq α] (l : List α) : l.eraseDups.Nodup := by
  generalize hn : l.length = n
  induction n using Nat.strongRecOn generalizing l with
  | _ n ih =>
    cases l with
    | nil => simp
    | cons a as =>
      rw [List.eraseDups_cons]
      refine List.nodup_cons.mpr ⟨?_, ?_⟩
      · intro h
        have := List.mem_eraseDups.mp h
        simp at this
      · refine ih _ ?_ _ rfl
        subst hn
        exact Nat.lt_succ_of_le (List.length_filter_le _ _)

theorem nodup_union_filter {α : Type} [BEq α] [LawfulBEq α] (a b : List α) (ha : a.Nodup) (hb : b.Nodup) :
    (a ++ b.filter (fun x => !a.contains x)).Nodup := by
  refine List.nodup_append.mpr ⟨ha, List.Pairwise.filter _ hb, ?_⟩
  intro x hx y hy e
  subst e
  simp at hy
  exact hy.2 hx

theorem mem_listing (fs : FS) (ht : TreeP fs) (k : Key) (nm : Str) :
    nm ∈ ((if rdIsDir fs.get k then some (fs.children k) else none).getD []).eraseDups ↔
      (fs.get (k ++ [nm])).isSome = true := by
  rw [List.mem_eraseDups]
  by_cases hd : rdIsDir fs.get k = true
  · simp only [hd, ↓reduceIte, Option.getD_some]
    exact mem_children fs k nm
  · simp only [hd, Bool.false_eq_true, ↓reduceIte, Option.getD_none, List.not_mem_nil, false_iff]
    intro h
    cases hg : fs.get (k ++ [nm]) with
    | none => simp [hg] at h
    | some n =>
      apply hd
      unfold rdIsDir
      by_cases hk : k = []
      · simp [hk]
      · have := TreeF.parent_dir ht hk hg
        simp [this]

/-- the listing of `k` is exactly the set of names whose key is present in the view -/
theorem ov_listdir {s : S} (hi : Inv s) (k : Key) :
    ∃ l, Ov.listdirL specOps specOps s k = .ok l ∧ l.Nodup ∧ ∀ nm, nm ∈ l ↔ (view s (k ++ [nm])).isSome = true := by
  unfold Ov.listdirL
  simp only [spec_listdir]
  refine ⟨_, rfl, ?_, ?_⟩
  · exact List.Pairwise.filter _ (nodup_union_filter _ _ (nodup_eraseDups _) (nodup_eraseDups _))
  · intro nm
    simp only [List.mem_filter, List.mem_append, Bool.not_eq_true', mem_listing _ hi.up, mem_listing _ hi.low]
    by_cases hm : (k ++ [nm]) ∈ s.2.2
    · simp [hm, view_of_mem hm]
    · have hc : s.2.2.contains (k ++ [nm]) = false := by simpa using hm
      rw [view_of_not_mem hm]
      simp only [hc, and_true]
      cases hu : s.1.get (k ++ [nm]) with
      | some n => simp
      | none =>
        simp only [Option.isSome_none, Bool.false_eq_true, false_or]
        constructor
        · exact fun h => h.1
        · intro h
          refine ⟨h, ?_⟩
          cases hcx : (List.contains ((if rdIsDir (FS.get s.1) k = true then some (FS.children s.1 k) else none).getD []).eraseDups nm) with
          | false => rfl
          | true =>
            have : nm ∈ ((if rdIsDir (FS.get s.1) k = true then some (FS.children s.1 k) else none).getD []).eraseDups := by
              simpa using hcx
            rw [mem_listing _ hi.up, hu] at this
            cases this

/-- `keys()` lists exactly the keys present in the view, once each -/
theorem ov_keys {s : S} (hi : Inv s) :
    ∃ l, Ov.keys specOps specOps s = .ok l ∧ l.Nodup ∧ ∀ k, k ∈ l ↔ (view s k).isSome = true := by
  unfold Ov.keys
  simp only [spec_keys]
  refine ⟨_, rfl, List.Pairwise.filter _ (nodup_eraseDups _), ?_⟩
  intro k
  simp only [List.mem_filter, List.mem_eraseDups, List.mem_append, mem_keys, Bool.not_eq_true']
  by_cases hm : k ∈ s.2.2
  · simp [hm, view_of_mem hm]
  · have hc : s.2.2.contains k = false := by simpa using hm
    rw [view_of_not_mem hm]
    simp only [hc, and_true]
    cases hu : s.1.get k with
    | some n => simp
    | none => simp

/-! ### writes -/

theorem mem_restore {r : List Key} {k x : Key} : x ∈ Ov.restore r k ↔ x ∈ r ∧ (x = [] ∨ ¬ x <+: k) := by
  unfold Ov.restore
  simp only [List.mem_filter, Bool.or_eq_true, List.isEmpty_iff, Bool.not_eq_true']
  constructor
  · rintro ⟨h1, h2⟩
    refine ⟨h1, ?_⟩
    rcases h2 with h2 | h2
    · exact Or.inl h2
    · right
      intro hp
      rw [List.isPrefixOf_iff_prefix.mpr hp] at h2
      cases h2
  · rintro ⟨h1, h2⟩
    refine ⟨h1, ?_⟩
    rcases h2 with h2 | h2
    · exact Or.inl h2
    · right
      cases h : x.isPrefixOf k with
      | false => rfl
      | true => exact absurd (List.isPrefixOf_iff_prefix.mp h) h2

/-- the state after a write that created directories `ks` (non-root prefixes of `k`) in the upper part and
forgot the tomb-stones at and above `k`, seen through the view -/
theorem view_mkdirs {s : S} (hi : Inv s) (k : Key) (ks : List Key) (u1 : FS)
    (hks : ∀ x, x ∈ ks → x ≠ [] ∧ x <+: k) (hu : u1.get = mkdirsF s.1.get ks)
    (hnf : ∀ x, x ∈ ks → ∀ d m, view s x ≠ some (.file d m))
    (x : Key) (hx : x ∈ ks ∨ ¬ (x ≠ [] ∧ x <+: k)) :
    view (u1, s.2.1, Ov.restore s.2.2 k) x = mkdirsF (view s) ks x := by
  rcases hx with hx | hx
  · have hxp := hks x hx
    have hnm : x ∉ Ov.restore s.2.2 k := by
      intro h
      rcases (mem_restore.mp h).2 with e | e
      · exact hxp.1 e
      · exact e hxp.2
    rw [view_of_not_mem hnm]
    simp only [hu]
    unfold mkdirsF
    cases hux : s.1.get x with
    | some n =>
      rw [view_of_upper hi hux]
      simp
    | none =>
      simp only [hx, and_self, ↓reduceIte]
      cases hv : view s x with
      | none => simp
      | some n =>
        cases n with
        | dir => simp
        | file d m => exact absurd hv (hnf x hx d m)
  · have hxk : x ∉ ks := fun h => hx (hks x h)
    have hmem : x ∈ Ov.restore s.2.2 k ↔ x ∈ s.2.2 := by
      rw [mem_restore]
      constructor
      · exact fun h => h.1
      · intro h
        refine ⟨h, ?_⟩
        by_cases e : x = []
        · exact Or.inl e
        · exact Or.inr (fun hp => hx ⟨e, hp⟩)
    have hux : u1.get x = s.1.get x := by
      rw [hu]; unfold mkdirsF; simp [hxk]
    have hm : mkdirsF (view s) ks x = view s x := by
      unfold mkdirsF; simp [hxk]
    rw [hm]
    by_cases hr : x ∈ s.2.2
    · rw [view_of_mem (hmem.mpr hr), view_of_mem hr]
    · rw [view_of_not_mem (fun h => hr (hmem.mp h)), view_of_not_mem hr]
      simp only [hux]

theorem restore_rem {s : S} (hi : Inv s) (k : Key) (u1 : FS)
    (hu : ∀ x, ¬ (x ≠ [] ∧ x <+: k) → u1.get x = s.1.get x) :
    ∀ x, x ∈ Ov.restore s.2.2 k → u1.get x = none := by
  intro x hx
  obtain ⟨h1, h2⟩ := mem_restore.mp hx
  have : ¬ (x ≠ [] ∧ x <+: k) := by
    rintro ⟨a, b⟩
    rcases h2 with e | e
    · exact a e
    · exact e b
  rw [hu x this]
  exact hi.rem x h1

theorem restore_noroot {s : S} (hi : Inv s) (k : Key) : [] ∉ Ov.restore s.2.2 k :=
  fun h => hi.noroot (mem_restore.mp h).1

/-- upper-level well-formedness follows from view-level well-formedness: what the upper part holds is visible -/
theorem upper_not_file {s : S} (hi : Inv s) {a : Key} (h : ∀ d m, view s a ≠ some (.file d m)) :
    ∀ d m, s.1.get a ≠ some (.file d m) :=
  fun d m e => h d m (view_of_upper hi e)

theorem view_storeF {s : S} (hi : Inv s) (k : Key) (n : Node) (u' : FS) (hk : k ≠ [])
    (hf : ∀ a, Anc a k → ∀ d m, view s a ≠ some (.file d m)) (h2 : u'.get = storeF s.1.get k n) :
    view (u', s.2.1, Ov.restore s.2.2 k) = storeF (view s) k n := by
  funext x
  by_cases hxk : x = k
  · subst hxk
    have hnm : x ∉ Ov.restore s.2.2 x := by
      intro h
      rcases (mem_restore.mp h).2 with e | e
      · exact hk e
      · exact e (List.prefix_refl _)
    rw [view_of_not_mem hnm]
    simp [h2, storeF, setF]
  · have hu1 : (s.1.mkdirs (ancestors k)).get = mkdirsF s.1.get (ancestors k) := by
      funext y; rw [get_mkdirs]; rfl
    have hx : x ∈ ancestors k ∨ ¬ (x ≠ [] ∧ x <+: k) := by
      by_cases hp : x ≠ [] ∧ x <+: k
      · exact Or.inl ((mem_ancestors x k).mpr ⟨hp.1, hp.2, hxk⟩)
      · exact Or.inr hp
    have := view_mkdirs hi k (ancestors k) (s.1.mkdirs (ancestors k))
      (fun y hy => by have := (mem_ancestors y k).mp hy; exact ⟨this.1, this.2.1⟩) hu1
      (fun y hy d' m' => hf y ((anc_iff y k).mpr hy) d' m') x hx
    have hsame : view (u', s.2.1, Ov.restore s.2.2 k) x = view (s.1.mkdirs (ancestors k), s.2.1, Ov.restore s.2.2 k) x := by
      have hg : u'.get x = (s.1.mkdirs (ancestors k)).get x := by
        rw [h2, hu1]; simp [storeF, setF, hxk]
      unfold view
      simp only [hg]
    rw [hsame, this]
    simp [storeF, setF, hxk]

theorem storeF_inv {s : S} (hi : Inv s) (k : Key) (n : Node) (u' : FS) (hk : k ≠ [])
    (hf : ∀ a, Anc a k → ∀ d m, view s a ≠ some (.file d m)) (h2 : u'.get = storeF s.1.get k n)
    (htu : TreeF (storeF s.1.get k n)) (htv : TreeF (storeF (view s) k n)) :
    Inv (u', s.2.1, Ov.restore s.2.2 k) := by
  refine ⟨?_, hi.low, ?_, restore_noroot hi k, ?_⟩
  · show TreeF u'.get
    rw [h2]; exact htu
  · refine restore_rem hi k u' ?_
    intro x hx
    have hxk : x ≠ k := fun e => hx ⟨e ▸ hk, e ▸ List.prefix_refl _⟩
    have hxa : x ∉ ancestors k := fun h => by
      have := (mem_ancestors x k).mp h
      exact hx ⟨this.1, this.2.1⟩
    rw [h2]; simp [storeF, setF, mkdirsF, hxk, hxa]
  · rw [view_storeF hi k n u' hk hf h2]
    exact htv

theorem ov_store {s : S} (hi : Inv s) (k : Key) (d : Data) (m : UMeta) (hw : WfF (view s) (.store k d m)) :
    ∃ s', Ov.store specOps specOps s k d m = .ok s' ∧ view s' = stepF (view s) (.store k d m) ∧ Inv s' := by
  obtain ⟨hk, hkd, hf⟩ := hw
  obtain ⟨u', h1, h2⟩ := spec_store_get s.1 k d m
  refine ⟨(u', s.2.1, Ov.restore s.2.2 k), ?_, view_storeF hi k _ u' hk hf h2, storeF_inv hi k _ u' hk hf h2 ?_ ?_⟩
  · unfold Ov.store; rw [h1]
  · have hwu : WfF s.1.get (.store k d m) := by
      refine ⟨hk, ?_, ?_⟩
      · intro e; exact hkd (view_of_upper hi e)
      · intro a ha; exact upper_not_file hi (hf a ha)
    exact treeF_step hi.up (.store k d m) hwu
  · exact treeF_step hi.tree (.store k d m) ⟨hk, hkd, hf⟩

/-- on a tree, storing at a present key creates no directories -/
theorem storeF_of_present {g : Look} (hg : TreeF g) {k : Key} {n0 : Node} (hk : g k = some n0) (n : Node) :
    storeF g k n = setF g k n := by
  funext x
  unfold storeF setF mkdirsF
  by_cases hxk : x = k
  · simp [hxk]
  · simp only [hxk, ↓reduceIte]
    by_cases hx : x ∈ ancestors k
    · have := (hg k n0 hk).2 x ((anc_iff x k).mpr hx)
      simp [this]
    · simp [hx]

theorem setF_setF (g : Look) (k : Key) (n n' : Node) : setF (setF g k n) k n' = setF g k n' := by
  funext x; unfold setF; by_cases h : x = k <;> simp [h]

theorem setF_storeF (g : Look) (k : Key) (n n' : Node) : setF (storeF g k n) k n' = storeF g k n' := by
  unfold storeF; exact setF_setF _ k n n'

theorem ov_storeMeta {s : S} (hi : Inv s) (k : Key) (m : UMeta) (hw : WfF (view s) (.storeMeta k m)) :
    ∃ s', Ov.storeMeta specOps specOps s k m = .ok s' ∧ view s' = stepF (view s) (.storeMeta k m) ∧ Inv s' := by
  obtain ⟨d, m0, hvk⟩ := hw
  have hm : k ∉ s.2.2 := not_mem_of_view hvk
  have hk : k ≠ [] := (hi.tree k _ hvk).1
  have hke : k.isEmpty = false := by simpa using hk
  have hf : ∀ a, Anc a k → ∀ d m, view s a ≠ some (.file d m) := by
    intro a ha d' m' e
    have := (hi.tree k _ hvk).2 a ha
    rw [e] at this; cases this
  -- the upper part after the (possible) copy-up and the metadata update
  have hex : ∃ u', Ov.storeMeta specOps specOps s k m = .ok (u', s.2.1, Ov.restore s.2.2 k) ∧
      u'.get = storeF s.1.get k (.file d m) ∧ TreeF (storeF s.1.get k (.file d m)) := by
    cases huk : s.1.get k with
    | some n =>
      have hn := view_of_upper hi huk
      rw [hvk] at hn
      cases hn
      obtain ⟨u', h1, h2⟩ := spec_storeMeta_get s.1 k m d m0 huk
      refine ⟨u', ?_, ?_, ?_⟩
      · unfold Ov.storeMeta Ov.copyUp
        simp only [spec_contains, rdContains, hke, huk, Option.isSome_some, Bool.or_true, h1]
      · rw [h2, storeF_of_present hi.up huk]
      · rw [storeF_of_present hi.up huk]
        exact treeF_setFile hi.up k d d m0 m huk
    | none =>
      have hlk : s.2.1.get k = some (.file d m0) := by
        have := hvk
        rw [view_of_not_mem hm, huk] at this
        exact this
      obtain ⟨u1, h1, h2⟩ := spec_store_get s.1 k d { user := m0.user, size := m0.size, md5 := m0.md5 }
      have hu1k : u1.get k = some (.file d { user := m0.user, size := some d.length, md5 := some d }) := by
        rw [h2]; simp [storeF, setF]
      obtain ⟨u', h3, h4⟩ := spec_storeMeta_get u1 k m d _ hu1k
      have hwu : WfF s.1.get (.store k d m) := by
        refine ⟨hk, ?_, ?_⟩
        · rw [huk]; simp
        · intro a ha; exact upper_not_file hi (hf a ha)
      refine ⟨u', ?_, ?_, ?_⟩
      · unfold Ov.storeMeta Ov.copyUp
        simp only [spec_contains, rdContains, hke, huk, hlk, Option.isSome_none, Option.isSome_some, Bool.or_false,
          Bool.or_true, spec_getBytes, rdBytes, spec_getMeta, rdMeta, h1, h3]
      · rw [h4, h2, setF_storeF]
      · exact treeF_store hi.up k _ hk (by rw [huk]; simp) (fun a ha => upper_not_file hi (hf a ha))
  obtain ⟨u', h1, h2, h3⟩ := hex
  have hstep : stepF (view s) (.storeMeta k m) = storeF (view s) k (.file d m) := by
    simp only [stepF, hvk]
    rw [storeF_of_present hi.tree hvk]
  refine ⟨_, h1, ?_, ?_⟩
  · rw [hstep]; exact view_storeF hi k _ u' hk hf h2
  · refine storeF_inv hi k _ u' hk hf h2 h3 ?_
    rw [storeF_of_present hi.tree hvk]
    exact treeF_setFile hi.tree k d d m0 m hvk

theorem ov_makedir {s : S} (hi : Inv s) (k : Key) (hw : WfF (view s) (.makedir k)) :
    ∃ s', Ov.makedir specOps specOps s k = .ok s' ∧ view s' = stepF (view s) (.makedir k) ∧ Inv s' := by
  obtain ⟨hk, hkf, hf⟩ := hw
  obtain ⟨u', h1, h2⟩ := spec_makedir_get s.1 k hk
  have hks : ∀ x, x ∈ ancestors k ++ [k] → x ≠ [] ∧ x <+: k := by
    intro x hx
    rcases List.mem_append.mp hx with h | h
    · have := (mem_ancestors x k).mp h; exact ⟨this.1, this.2.1⟩
    · have : x = k := by simpa using h
      subst this; exact ⟨hk, List.prefix_refl _⟩
  have hnf : ∀ x, x ∈ ancestors k ++ [k] → ∀ d m, view s x ≠ some (.file d m) := by
    intro x hx d m
    rcases List.mem_append.mp hx with h | h
    · exact hf x ((anc_iff x k).mpr h) d m
    · have : x = k := by simpa using h
      subst this; exact hkf d m
  have hv : view (u', s.2.1, Ov.restore s.2.2 k) = stepF (view s) (.makedir k) := by
    show _ = mkdirsF (view s) (ancestors k ++ [k])
    funext x
    refine view_mkdirs hi k (ancestors k ++ [k]) u' hks h2 hnf x ?_
    by_cases hp : x ≠ [] ∧ x <+: k
    · left
      by_cases e : x = k
      · simp [e]
      · exact List.mem_append_left _ ((mem_ancestors x k).mpr ⟨hp.1, hp.2, e⟩)
    · exact Or.inr hp
  refine ⟨(u', s.2.1, Ov.restore s.2.2 k), ?_, hv, ?_⟩
  · unfold Ov.makedir; rw [h1]
  · have hwu : WfF s.1.get (.makedir k) :=
      ⟨hk, upper_not_file hi hkf, fun a ha => upper_not_file hi (hf a ha)⟩
    refine ⟨?_, hi.low, ?_, restore_noroot hi k, ?_⟩
    · show TreeF u'.get
      rw [h2]
      exact treeF_step hi.up (.makedir k) hwu
    · refine restore_rem hi k u' ?_
      intro x hx
      have hxm : x ∉ ancestors k ++ [k] := fun h => hx (hks x h)
      rw [h2]; simp only [mkdirsF, hxm, false_and, ↓reduceIte]
    · rw [hv]
      exact treeF_step hi.tree (.makedir k) ⟨hk, hkf, hf⟩

theorem mem_addKey {r : List Key} {k x : Key} : x ∈ Ov.addKey r k ↔ x = k ∨ x ∈ r := by
  unfold Ov.addKey
  by_cases h : r.contains k = true
  · have hm : k ∈ r := by simpa using h
    simp only [h, ↓reduceIte]
    constructor
    · exact Or.inr
    · rintro (e | e)
      · exact e ▸ hm
      · exact e
  · simp only [h, Bool.false_eq_true, ↓reduceIte, List.mem_cons]

theorem remove_eq {s : S} {k : Key} (hk : k ≠ []) (hm : k ∉ s.2.2) :
    Ov.remove specOps specOps s k =
      .ok (if (s.1.get k).isSome then s.1.erase k else s.1, s.2.1,
           if (s.2.1.get k).isSome then Ov.addKey s.2.2 k else s.2.2) := by
  have hc : s.2.2.contains k = false := by simpa using hm
  have hke : k.isEmpty = false := by simpa using hk
  unfold Ov.remove
  simp only [hc, Bool.false_eq_true, ↓reduceIte, spec_contains, rdContains, hke, Bool.false_or]
  cases hu : (s.1.get k).isSome <;> simp [specOps]

/-- erasing one key that is visible: tomb-stone it if the lower part has it, drop it from the upper part -/
theorem view_erase {s : S} (hi : Inv s) (k : Key) (hm : k ∉ s.2.2) (u' : FS)
    (hu : u'.get = eraseF s.1.get k) :
    view (u', s.2.1, if (s.2.1.get k).isSome then Ov.addKey s.2.2 k else s.2.2) = eraseF (view s) k := by
  funext x
  unfold eraseF
  by_cases hxk : x = k
  · subst hxk
    simp only [↓reduceIte]
    cases hl : s.2.1.get x with
    | some n =>
      simp only [Option.isSome_some, ↓reduceIte]
      exact view_of_mem (mem_addKey.mpr (Or.inl rfl))
    | none =>
      simp only [Option.isSome_none, Bool.false_eq_true, ↓reduceIte]
      have hm' : x ∉ (u', s.2.1, s.2.2).2.2 := hm
      rw [view_of_not_mem hm']
      simp [hu, eraseF, hl]
  · rw [if_neg hxk]
    have hmem : x ∈ (if (s.2.1.get k).isSome then Ov.addKey s.2.2 k else s.2.2) ↔ x ∈ s.2.2 := by
      split
      · rw [mem_addKey]; simp [hxk]
      · rfl
    have hux : u'.get x = s.1.get x := by rw [hu]; simp [eraseF, hxk]
    by_cases hr : x ∈ s.2.2
    · rw [view_of_mem (hmem.mpr hr), view_of_mem hr]
    · rw [view_of_not_mem (fun h => hr (hmem.mp h)), view_of_not_mem hr]
      simp only [hux]

theorem erase_inv {s : S} (hi : Inv s) (k : Key) (hk : k ≠ []) (hm : k ∉ s.2.2) (u' : FS)
    (hu : u'.get = eraseF s.1.get k) (ht : TreeF (eraseF s.1.get k)) (hvt : TreeF (eraseF (view s) k)) :
    Inv (u', s.2.1, if (s.2.1.get k).isSome then Ov.addKey s.2.2 k else s.2.2) := by
  refine ⟨?_, hi.low, ?_, ?_, ?_⟩
  · show TreeF u'.get
    rw [hu]; exact ht
  · intro x hx
    have hx' : x = k ∨ x ∈ s.2.2 := by
      revert hx
      split
      · exact mem_addKey.mp
      · exact Or.inr
    show u'.get x = none
    rw [hu]
    unfold eraseF
    rcases hx' with e | e
    · simp [e]
    · by_cases hxk : x = k
      · simp [hxk]
      · simp [hxk, hi.rem x e]
  · intro h
    have : ([] : Key) = k ∨ [] ∈ s.2.2 := by
      revert h
      split
      · exact mem_addKey.mp
      · exact Or.inr
    rcases this with e | e
    · exact hk e.symm
    · exact hi.noroot e
  · rw [view_erase hi k hm u' hu]
    exact hvt

theorem erase_upper_get (u : FS) (k : Key) :
    (if (u.get k).isSome then u.erase k else u).get = eraseF u.get k := by
  funext x
  unfold eraseF
  cases h : u.get k with
  | some n =>
    simp only [Option.isSome_some, ↓reduceIte]
    rw [get_erase]
  | none =>
    simp only [Option.isSome_none, Bool.false_eq_true, ↓reduceIte]
    by_cases hxk : x = k
    · simp [hxk, h]
    · simp [hxk]

theorem ov_remove {s : S} (hi : Inv s) (k : Key) (hw : WfF (view s) (.remove k)) :
    ∃ s', Ov.remove specOps specOps s k = .ok s' ∧ view s' = stepF (view s) (.remove k) ∧ Inv s' := by
  obtain ⟨d, m0, hvk⟩ := hw
  have hm : k ∉ s.2.2 := not_mem_of_view hvk
  have hk : k ≠ [] := (hi.tree k _ hvk).1
  have hu := erase_upper_get s.1 k
  refine ⟨_, remove_eq hk hm, view_erase hi k hm _ hu, erase_inv hi k hk hm _ hu ?_ ?_⟩
  · -- the upper part stays a tree: it holds k as a file or not at all
    cases huk : s.1.get k with
    | none =>
      have : eraseF s.1.get k = s.1.get := by
        funext x; unfold eraseF; by_cases e : x = k <;> simp [e, huk]
      rw [this]; exact hi.up
    | some n =>
      have := view_of_upper hi huk
      rw [hvk] at this
      cases this
      exact treeF_step hi.up (.remove k) ⟨d, m0, huk⟩
  · exact treeF_step hi.tree (.remove k) ⟨d, m0, hvk⟩

/-! ### removedir -/

/-- the tail of `removedir` on a visible, empty directory -/
theorem dropEmptyDir_eq {s : S} (hi : Inv s) (k : Key) (hk : k ≠ []) (hd : view s k = some .dir)
    (hc : ∀ nm, view s (k ++ [nm]) = none) :
    Ov.dropEmptyDir specOps specOps s k =
      .ok (if (s.1.get k).isSome then s.1.erase k else s.1, s.2.1,
           if (s.2.1.get k).isSome then Ov.addKey s.2.2 k else s.2.2) := by
  have hke : k.isEmpty = false := by simpa using hk
  obtain ⟨l, hl, _, hmem⟩ := ov_listdir hi k
  have hl0 : l = [] := by
    cases l with
    | nil => rfl
    | cons nm rest =>
      have := (hmem nm).mp List.mem_cons_self
      rw [hc nm] at this; cases this
  subst hl0
  have huc : (s.1.children k).isEmpty = true := by
    rw [children_isEmpty]
    intro nm
    cases h : s.1.get (k ++ [nm]) with
    | none => rfl
    | some n =>
      have := view_of_upper hi h
      rw [hc nm] at this; cases this
  have huc' : s.1.children k = [] := List.isEmpty_iff.mp huc
  unfold Ov.dropEmptyDir
  rw [ov_contains hi k, hl]
  simp only [rdContains, hke, hd, Option.isSome_some, Bool.false_or, List.isEmpty_nil, Bool.not_true,
    Bool.false_eq_true, ↓reduceIte, spec_contains]
  cases hu : (s.1.get k).isSome <;> simp [specOps, hk, huc']

theorem ov_dropEmptyDir {s : S} (hi : Inv s) (k : Key) (hk : k ≠ []) (hd : view s k = some .dir)
    (hc : ∀ nm, view s (k ++ [nm]) = none) :
    ∃ s', Ov.dropEmptyDir specOps specOps s k = .ok s' ∧ view s' = rmTreeF (view s) k ∧ Inv s' := by
  have hm : k ∉ s.2.2 := not_mem_of_view hd
  have hu := erase_upper_get s.1 k
  have hvb : ∀ x, k <+: x → x ≠ k → view s x = none := TreeF.no_children_below hi.tree hc
  have hub : ∀ x, k <+: x → x ≠ k → s.1.get x = none := by
    intro x hp hne
    cases h : s.1.get x with
    | none => rfl
    | some n =>
      have := view_of_upper hi h
      rw [hvb x hp hne] at this; cases this
  refine ⟨_, dropEmptyDir_eq hi k hk hd hc, ?_, erase_inv hi k hk hm _ hu ?_ ?_⟩
  · rw [view_erase hi k hm _ hu, eraseF_eq_rmTreeF k hvb]
  · rw [eraseF_eq_rmTreeF k hub]; exact treeF_rmTree hi.up k
  · rw [eraseF_eq_rmTreeF k hvb]; exact treeF_rmTree hi.tree k

theorem child_prefix_iff (k : Key) (a b : Str) : (k ++ [a]) <+: (k ++ [b]) ↔ a = b := by
  constructor
  · intro h
    have := h.eq_of_length (by simp)
    simpa using this
  · rintro rfl; exact List.prefix_refl _

/-- what the loop of a recursive `removedir` leaves: the sub-trees of the listed children are gone -/
def cutF (g : Look) (k : Key) (names : List Str) : Look :=
  fun x => if ∃ nm, nm ∈ names ∧ (k ++ [nm]) <+: x then none else g x

theorem rm_fold (n : Nat) (k : Key)
    (ih : ∀ (s : S) (c : Key), Inv s → c ≠ [] → view s c = some .dir →
      (∀ x, (view s x).isSome = true → c <+: x → x.length < c.length + n) →
      ∃ s', Ov.removedirFuel specOps specOps n s c true = .ok s' ∧ view s' = rmTreeF (view s) c ∧ Inv s') :
    ∀ (todo : List Str) (st : S), Inv st → todo.Nodup →
      (∀ nm, nm ∈ todo → (view st (k ++ [nm])).isSome = true) →
      (∀ x, (view st x).isSome = true → k <+: x → x.length < k.length + (n + 1)) →
      ∃ st', todo.foldlM (Ov.rmChild specOps specOps (fun st c => Ov.removedirFuel specOps specOps n st c true) k) st = .ok st' ∧
        view st' = cutF (view st) k todo ∧ Inv st' := by
  intro todo
  induction todo with
  | nil =>
    intro st hi _ _ _
    refine ⟨st, rfl, ?_, hi⟩
    funext x; simp [cutF]
  | cons nm rest ihl =>
    intro st hi hnd hpres hb
    have hc0 : k ++ [nm] ≠ [] := by simp
    have hsome := hpres nm List.mem_cons_self
    -- one child
    have hone : ∃ st1, Ov.rmChild specOps specOps (fun st c => Ov.removedirFuel specOps specOps n st c true) k st nm = .ok st1 ∧
        view st1 = rmTreeF (view st) (k ++ [nm]) ∧ Inv st1 := by
      unfold Ov.rmChild
      rw [ov_isDir hi]
      have hce : (k ++ [nm]).isEmpty = false := by simp
      cases hv : view st (k ++ [nm]) with
      | none => rw [hv] at hsome; cases hsome
      | some node =>
        cases node with
        | dir =>
          simp only [rdIsDir, hce, hv, Bool.false_or, beq_self_eq_true]
          refine ih st (k ++ [nm]) hi hc0 hv ?_
          intro x hx hp
          have := hb x hx ((List.prefix_append k [nm]).trans hp)
          simp only [List.length_append, List.length_cons, List.length_nil]
          omega
        | file d m =>
          have hnd' : (some (Node.file d m) == some Node.dir) = false := by simp
          simp only [rdIsDir, hce, hv, Bool.false_or, hnd']
          obtain ⟨st1, h1, h2, h3⟩ := ov_remove hi (k ++ [nm]) ⟨d, m, hv⟩
          refine ⟨st1, h1, ?_, h3⟩
          rw [h2]
          exact eraseF_eq_rmTreeF _ (fun x hp hne => hi.tree.below_file hv hp hne)
    obtain ⟨st1, h1, h2, h3⟩ := hone
    have hnd2 := List.nodup_cons.mp hnd
    have hA : ∀ nm', nm' ∈ rest → (view st1 (k ++ [nm'])).isSome = true := by
      intro nm' hnm'
      rw [h2]
      unfold rmTreeF
      have : ¬ (k ++ [nm]) <+: (k ++ [nm']) := by
        rw [child_prefix_iff]
        intro e; exact hnd2.1 (e ▸ hnm')
      rw [if_neg this]
      exact hpres nm' (List.mem_cons_of_mem _ hnm')
    have hB : ∀ x, (view st1 x).isSome = true → k <+: x → x.length < k.length + (n + 1) := by
      intro x hx hp
      refine hb x ?_ hp
      rw [h2] at hx
      unfold rmTreeF at hx
      split at hx
      · cases hx
      · exact hx
    obtain ⟨st', h4, h5, h6⟩ := ihl st1 h3 hnd2.2 hA hB
    · refine ⟨st', ?_, ?_, h6⟩
      · simp only [List.foldlM, bind, Except.bind, h1]
        exact h4
      · rw [h5, h2]
        funext x
        unfold cutF rmTreeF
        by_cases hx : ∃ nm', nm' ∈ rest ∧ (k ++ [nm']) <+: x
        · have : ∃ nm', nm' ∈ nm :: rest ∧ (k ++ [nm']) <+: x := by
            obtain ⟨a, ha, hp⟩ := hx
            exact ⟨a, List.mem_cons_of_mem _ ha, hp⟩
          simp [hx, this]
        · by_cases hp : (k ++ [nm]) <+: x
          · have : ∃ nm', nm' ∈ nm :: rest ∧ (k ++ [nm']) <+: x := ⟨nm, List.mem_cons_self, hp⟩
            simp [hx, hp, this]
          · have : ¬ ∃ nm', nm' ∈ nm :: rest ∧ (k ++ [nm']) <+: x := by
              rintro ⟨a, ha, hpa⟩
              rcases List.mem_cons.mp ha with e | e
              · exact hp (e ▸ hpa)
              · exact hx ⟨a, e, hpa⟩
            simp [hx, hp, this]

theorem rm_rec (n : Nat) : ∀ (s : S) (k : Key), Inv s → k ≠ [] → view s k = some .dir →
    (∀ x, (view s x).isSome = true → k <+: x → x.length < k.length + n) →
    ∃ s', Ov.removedirFuel specOps specOps n s k true = .ok s' ∧ view s' = rmTreeF (view s) k ∧ Inv s' := by
  induction n with
  | zero =>
    intro s k _ _ hd hb
    have := hb k (by rw [hd]; rfl) (List.prefix_refl _)
    omega
  | succ n ih =>
    intro s k hi hk hd hb
    obtain ⟨names, hl, hnd, hmem⟩ := ov_listdir hi k
    obtain ⟨s1, h1, h2, h3⟩ := rm_fold n k ih names s hi hnd (fun nm h => (hmem nm).mp h) hb
    -- after the loop nothing is left below k
    have hcut : ∀ x, k <+: x → x ≠ k → view s1 x = none := by
      intro x hp hne
      rw [h2]
      unfold cutF
      obtain ⟨t, rfl⟩ := hp
      cases t with
      | nil => simp at hne
      | cons nm rest =>
        by_cases hx : ∃ nm', nm' ∈ names ∧ (k ++ [nm']) <+: (k ++ nm :: rest)
        · rw [if_pos hx]
        · rw [if_neg hx]
          cases hv : view s (k ++ nm :: rest) with
          | none => rfl
          | some node =>
            exfalso
            apply hx
            refine ⟨nm, (hmem nm).mpr ?_, ⟨rest, by simp⟩⟩
            by_cases hr : rest = []
            · subst hr; rw [hv]; rfl
            · have hanc : Anc (k ++ [nm]) (k ++ nm :: rest) := by
                refine ⟨by simp, ⟨rest, by simp⟩, ?_⟩
                intro e
                cases rest with
                | nil => exact hr rfl
                | cons r rs => simp at e
              rw [(hi.tree _ node hv).2 _ hanc]; rfl
    have hk1 : view s1 k = some .dir := by
      rw [h2]
      unfold cutF
      have : ¬ ∃ nm, nm ∈ names ∧ (k ++ [nm]) <+: k := by
        rintro ⟨nm, _, hp⟩
        have := hp.length_le
        simp at this
        omega
      rw [if_neg this, hd]
    obtain ⟨s', h4, h5, h6⟩ := ov_dropEmptyDir h3 k hk hk1 (fun nm => hcut _ (List.prefix_append _ _) (by
      intro e
      have := congrArg List.length e
      simp at this))
    refine ⟨s', ?_, ?_, h6⟩
    · simp only [Ov.removedirFuel, ↓reduceIte, hl, h1]
      exact h4
    · rw [h5]
      funext x
      unfold rmTreeF
      by_cases hp : k <+: x
      · simp [hp]
      · simp only [hp, ↓reduceIte]
        rw [h2]
        unfold cutF
        have : ¬ ∃ nm, nm ∈ names ∧ (k ++ [nm]) <+: x := by
          rintro ⟨nm, _, hpn⟩
          exact hp ((List.prefix_append k [nm]).trans hpn)
        rw [if_neg this]

theorem le_foldl_max (l : List Nat) (a : Nat) : a ≤ l.foldl max a ∧ ∀ x, x ∈ l → x ≤ l.foldl max a := by
  induction l generalizing a with
  | nil => simp
  | cons y l ih =>
    rw [List.foldl_cons]
    obtain ⟨h1, h2⟩ := ih (max a y)
    refine ⟨Nat.le_trans (Nat.le_max_left a y) h1, ?_⟩
    intro x hx
    rcases List.mem_cons.mp hx with e | e
    · subst e; exact Nat.le_trans (Nat.le_max_right a x) h1
    · exact h2 x e

theorem depth_bound {s : S} (x : Key) (hx : (view s x).isSome = true) :
    x.length ≤ Ov.depthBound specOps specOps s := by
  unfold Ov.depthBound
  simp only [spec_keys]
  refine (le_foldl_max _ 0).2 x.length ?_
  refine List.mem_map.mpr ⟨x, ?_, rfl⟩
  rw [List.mem_append, mem_keys, mem_keys]
  unfold view at hx
  split at hx
  · cases hx
  · cases hu : s.1.get x with
    | some n => simp
    | none => rw [hu] at hx; exact Or.inr hx

theorem ov_removedir {s : S} (hi : Inv s) (k : Key) (r : Bool) (hw : WfF (view s) (.removedir k r)) :
    ∃ s', Ov.removedir specOps specOps s k r = .ok s' ∧ view s' = stepF (view s) (.removedir k r) ∧ Inv s' := by
  obtain ⟨hk, hd, hc⟩ := hw
  by_cases hr : r = true
  · subst hr
    unfold Ov.removedir
    refine rm_rec _ s k hi hk hd ?_
    intro x hx _
    have := depth_bound x hx
    omega
  · have hr' : r = false := by simpa using hr
    subst hr'
    have hc' : ∀ nm, view s (k ++ [nm]) = none := by
      rcases hc with h | h
      · cases h
      · exact h
    obtain ⟨s', h1, h2, h3⟩ := ov_dropEmptyDir hi k hk hd hc'
    refine ⟨s', ?_, h2, h3⟩
    unfold Ov.removedir
    simp only [Ov.removedirFuel, Bool.false_eq_true, ↓reduceIte]
    exact h1

/-- **every well-formed operation of the overlay is the specification's operation on the view** -/
theorem ov_apply {s : S} (hi : Inv s) (op : StoreOp) (hw : WfF (view s) op) :
    ∃ s', (overlayOps specOps specOps).apply s op = .ok s' ∧ view s' = stepF (view s) op ∧ Inv s' := by
  cases op with
  | store k d m => exact ov_store hi k d m hw
  | storeMeta k m => exact ov_storeMeta hi k m hw
  | remove k => exact ov_remove hi k hw
  | removedir k r => exact ov_removedir hi k r hw
  | makedir k => exact ov_makedir hi k hw

theorem ov_step {s : S} (hi : Inv s) (op : StoreOp) (hw : WfF (view s) op) :
    view ((overlayOps specOps specOps).step s op) = stepF (view s) op ∧ Inv ((overlayOps specOps specOps).step s op) := by
  obtain ⟨s', h1, h2, h3⟩ := ov_apply hi op hw
  unfold StoreOps.step
  rw [h1]
  exact ⟨h2, h3⟩

/-- the initial state of an overlay over a tree -/
theorem inv_init (l : FS) (hl : TreeP l) : Inv (([] : FS), l, ([] : List Key)) := by
  refine ⟨treeP_nil, hl, ?_, ?_, ?_⟩
  · intro k hk; cases hk
  · intro h; cases h
  · have : view (([] : FS), l, ([] : List Key)) = l.get := by
      funext x; unfold view; simp [get_nil]
    rw [this]; exact hl

end Liquer.OvL
