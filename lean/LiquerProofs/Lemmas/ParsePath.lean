/-
C02 helper lemmas, part 7 (S2/S3): action paths (`action_path_nonempty`): a sequence of actions
separated by `/`, ending in an action or a file name.
-/
import LiquerProofs.Lemmas.ParseRes

namespace Liquer
open PS

variable {dec : List UInt8 → List Char}

/-! ### the text of an action path -/

/-- `a/b/c/` -/
def slashActs : List Action → Str
  | [] => []
  | a :: as => a.encode T ++ '/' :: slashActs as

theorem encodeActions_append (tbl : EscTable) (as bs : List Action) :
    encodeActions tbl (as ++ bs) = encodeActions tbl as ++ encodeActions tbl bs := by
  induction as with
  | nil => rfl
  | cons a as ih => simp [encodeActions, ih]

theorem eraseActions_append (as bs : List Action) :
    eraseActions (as ++ bs) = eraseActions as ++ eraseActions bs := by
  induction as with
  | nil => rfl
  | cons a as ih => simp [eraseActions, ih]

theorem slashed_append (l m : List Str) : slashed (l ++ m) = slashed l ++ slashed m := by
  simp [slashed]

theorem joinStr_snoc (as : List Action) (x : Str) :
    joinStr ['/'] (encodeActions T as ++ [x]) = slashActs as ++ x := by
  induction as with
  | nil => simp [encodeActions, joinStr, slashActs]
  | cons a as ih =>
    simp only [encodeActions, List.cons_append, joinStr_cons, slashActs, List.append_assoc]
    congr 1
    cases h : encodeActions T as ++ [x] with
    | nil => simp at h
    | cons y ys =>
      rw [h, joinStr_cons] at ih
      rw [slashed_cons, ih]

theorem action_enc_head {a : Action} (h : wfAction a = true) :
    ∃ c t, a.encode T = c :: t ∧ inRanges Inst.idR1 c = true := by
  obtain ⟨name, ps, pos⟩ := a
  simp only [wfAction, Bool.and_eq_true] at h
  have h1 := h.1
  rw [Inst.identifier_shape] at h1
  obtain ⟨c, t, rfl, hc⟩ := fullMatch_first h1
  exact ⟨c, t ++ encodeDashParams T ps, by simp [Action.encode], hc⟩

theorem idR1_no_dash : inRanges Inst.idR1 '-' = false := by
  have := Inst.identifier_stops
  rw [Inst.identifier_shape] at this
  simp only [Inst.delims, Inst.excl, List.all_cons, List.all_nil, Bool.and_true, Bool.and_eq_true,
    Bool.not_eq_true'] at this
  exact this.1.1

theorem action_noDash {a : Action} (h : wfAction a = true) (x : Str) :
    stopAt [(45, 45)] (a.encode T ++ x) = true := by
  obtain ⟨c, t, he, hc⟩ := action_enc_head h
  rw [he]
  exact stopAt_dash_of idR1_no_dash hc

theorem bodyText_last (as : List Action) (c : Action) :
    bodyText T (as ++ [c]) none = slashActs as ++ c.encode T := by
  simp only [bodyText, encodeActions_append, encodeActions]
  exact joinStr_snoc as (c.encode T)

theorem bodyText_file (as : List Action) (hwf : wfActions as = true) (fn : Str) :
    bodyText T as (some fn) = slashActs as ++ fn := by
  rw [← joinStr_snoc]
  simp only [bodyText]
  cases as with
  | nil => simp [encodeActions, joinStr]
  | cons a as =>
    simp only [wfActions, Bool.and_eq_true] at hwf
    obtain ⟨c, t, he, _⟩ := action_enc_head hwf.1
    have : (joinStr ['/'] (encodeActions T (a :: as))).isEmpty = false := by
      simp [encodeActions, joinStr_cons, he]
    rw [this]
    simp [encodeActions, joinStr_cons, slashed]

/-! ### file names and actions are not confused -/

theorem inRanges_dot {c : Char} (h : inRanges [(46, 46)] c = true) : c = '.' := by
  simp only [inRanges, List.any_cons, List.any_nil, Bool.or_false, Bool.and_eq_true,
    decide_eq_true_eq] at h
  exact (char_eq_iff _ _).mpr (by have : '.'.toNat = 46 := rfl; omega)

theorem filename_split {f : Str} (h : fullMatch Gen.filenameRe f = true) :
    ∃ a b, f = a ++ '.' :: b ∧ ∀ c ∈ a, inRanges Inst.fnR1 c = true := by
  rw [fullMatch_iff, Inst.filename_shape, matchRe_cons] at h
  have hspec := takeClass_spec Inst.fnR1 f none
  simp only [Nat.not_lt_zero, ↓reduceIte] at h
  cases hr : (takeClass Inst.fnR1 none f).2 with
  | nil =>
    rw [hr, matchRe_cons] at h
    simp [takeClass_nil] at h
  | cons c r =>
    rw [hr, matchRe_cons, takeClass_cons_one] at h
    cases hc : inRanges [(46, 46)] c with
    | false => simp [hc] at h
    | true =>
      refine ⟨(takeClass Inst.fnR1 none f).1, r, ?_, hspec.2.1⟩
      rw [← inRanges_dot hc, ← hr]
      exact hspec.1

theorem subRanges_sound {a b : List (Nat × Nat)} (h : Inst.subRanges a b = true) {c : Char}
    (hc : inRanges a c = true) : inRanges b c = true := by
  simp only [inRanges, List.any_eq_true, Bool.and_eq_true, decide_eq_true_eq] at hc ⊢
  obtain ⟨x, hx, h1, h2⟩ := hc
  have := List.all_eq_true.mp h x hx
  simp only [List.any_eq_true, Bool.and_eq_true, decide_eq_true_eq] at this
  obtain ⟨y, hy, h3, h4⟩ := this
  exact ⟨y, hy, by omega, by omega⟩

theorem fnR1_excl {c : Char} (hc : c = '-' ∨ c = '.' ∨ c = '/' ∨ c = '~') : inRanges Inst.fnR1 c = false := by
  have := Inst.filename_first
  simp only [List.all_cons, List.all_nil, Bool.and_true, Bool.and_eq_true, Bool.not_eq_true'] at this
  rcases hc with rfl | rfl | rfl | rfl
  · exact this.1
  · exact this.2.1
  · exact this.2.2.1
  · exact this.2.2.2

theorem identifier_no_dot {it : ReItem} (h : it ∈ Gen.identifierRe) : inRanges it.ranges '.' = false :=
  excl_item Inst.identifier_no_dot h

/-- on a file name, `action_request` fails or stops in front of the dot -/
theorem parseAction_filename {f : Str} (hf : fullMatch Gen.filenameRe f = true) (rest : Str)
    (hws : NoWs (f ++ rest)) (m p : Nat) :
    parseAction dec m ⟨f ++ rest, p⟩ = none ∨
      ∃ a t p', parseAction dec m ⟨f ++ rest, p⟩ = some (a, ⟨'.' :: t, p'⟩) ∧ NoWs ('.' :: t) := by
  cases m with
  | zero => left; simp [parseAction]
  | succ m =>
    obtain ⟨a, b, rfl, ha⟩ := filename_split hf
    have hid1 : inRanges Inst.idR1 '.' = false := by
      have := identifier_no_dot (it := ⟨Inst.idR1, 1, some 1⟩) (by rw [Inst.identifier_shape]; simp)
      exact this
    have hid2 : inRanges Inst.idR2 '.' = false := by
      have := identifier_no_dot (it := ⟨Inst.idR2, 0, none⟩) (by rw [Inst.identifier_shape]; simp)
      exact this
    cases a with
    | nil =>
      left
      have : PS.re Gen.identifierRe ⟨[] ++ '.' :: b ++ rest, p⟩ = none := by
        rw [Inst.identifier_shape]
        exact re_fail_first hws (by simp [stopAt, hid1])
      simp only [parseAction, skipWs_noWs hws, this]
    | cons x a =>
      cases hx : inRanges Inst.idR1 x with
      | false =>
        left
        have : PS.re Gen.identifierRe ⟨x :: a ++ '.' :: b ++ rest, p⟩ = none := by
          rw [Inst.identifier_shape]
          exact re_fail_first hws (by simp [stopAt, hx])
        simp only [parseAction, skipWs_noWs hws, this]
      | true =>
        right
        have ha' : ∀ c ∈ a, inRanges Inst.idR2 c = true :=
          fun c hc => subRanges_sound Inst.filename_in_identifier (ha c (List.mem_cons_of_mem _ hc))
        have e : x :: a ++ '.' :: b ++ rest = x :: (a ++ ('.' :: (b ++ rest))) := by simp
        rw [e] at hws ⊢
        have htc : takeClass Inst.idR2 none (a ++ ('.' :: (b ++ rest))) = (a, '.' :: (b ++ rest)) :=
          takeClass_run _ _ a none ha' (by simp) (Or.inr (by simp [stopAt, hid2]))
        have hre : PS.re Gen.identifierRe ⟨x :: (a ++ ('.' :: (b ++ rest))), p⟩ =
            some (x :: a, ⟨'.' :: (b ++ rest), p + (x :: a).length⟩) := by
          rw [re_noWs hws, Inst.identifier_shape]
          simp [matchRe_cons, matchRe_nil, takeClass_cons_one, hx, htc]
        have hw2 : NoWs ('.' :: (b ++ rest)) := hws.tail.right
        have hdp : parseDashParams dec false m ⟨'.' :: (b ++ rest), p + (x :: a).length⟩ =
            ([], ⟨'.' :: (b ++ rest), p + (x :: a).length⟩) := by
          cases m with
          | zero => simp [parseDashParams]
          | succ m => simp [parseDashParams, lit_ne_head hw2 (by decide : '-' ≠ '.')]
        refine ⟨.mk (x :: a) [] p, b ++ rest, p + (x :: a).length, ?_, hw2⟩
        simp only [parseAction, skipWs_noWs hws, hre, hdp]


/-! ### the loop `ZeroOrMore(action_request + "/" + ~header)` -/

/-- the loop stops in front of a file name -/
theorem actionsSlash_block_file {f : Str} (hf : fullMatch Gen.filenameRe f = true) (rest : Str)
    (hws : NoWs (f ++ rest)) (m p : Nat) :
    parseActionsSlash dec m ⟨f ++ rest, p⟩ = ([], ⟨f ++ rest, p⟩) := by
  cases m with
  | zero => simp [parseActionsSlash]
  | succ m =>
    rcases parseAction_filename (dec := dec) hf rest hws m p with h | ⟨a, t, p', h, hw⟩
    · simp only [parseActionsSlash, h]
    · simp only [parseActionsSlash, h, lit_ne_head hw (by decide : '/' ≠ '.')]

/-- the loop stops in front of the last action of a segment -/
theorem actionsSlash_block_action (hd : DecOK dec) {d : Nat} (ih : LinkIH dec d) (c : Action)
    (hdep : c.depth ≤ d) (hwf : wfAction c = true) (rest : Str) (b : Bool) (hf : Follow false b rest)
    (hws : NoWs (c.encode T ++ rest)) (m p : Nat) (hm : 8 * (c.encode T).length + 4 ≤ m) :
    parseActionsSlash dec m ⟨c.encode T ++ rest, p⟩ = ([], ⟨c.encode T ++ rest, p⟩) := by
  cases m with
  | zero => omega
  | succ m =>
    obtain ⟨c', p', hc, _⟩ := action_spec hd ih c hdep hwf rest hf.dpStop p m hws (by omega)
    rcases hf with ⟨_, hq⟩ | ⟨r', rfl, hr⟩
    · simp only [parseActionsSlash, hc, lit_slash_qStop hws.right hq]
    · rcases hr with hr | hr
      · cases hr
      · simp [parseActionsSlash, hc, lit_cons hws.right, hr.2 (p' + 1)]

theorem actionsSlash_spec (hd : DecOK dec) {d : Nat} (ih : LinkIH dec d) :
    ∀ (as : List Action), depthActions as ≤ d → wfActions as = true →
      ∀ (tail : Str) (L : Nat), stopAt [(45, 45)] tail = true →
      (∀ m p, 8 * L + 4 ≤ m → parseActionsSlash dec m ⟨tail, p⟩ = ([], ⟨tail, p⟩)) →
      ∀ (p n : Nat), NoWs (slashActs as ++ tail) → 8 * ((slashActs as).length + L) + 4 ≤ n →
      ∃ as' p', parseActionsSlash dec n ⟨slashActs as ++ tail, p⟩ = (as', ⟨tail, p'⟩) ∧
        eraseActions as' = eraseActions as := by
  intro as
  induction as with
  | nil =>
    intro _ _ tail L _ hblock p n _ hn
    simp only [slashActs, List.length_nil, Nat.zero_add, List.nil_append] at hn ⊢
    exact ⟨[], p, hblock n p hn, rfl⟩
  | cons a as iha =>
    intro hdep hwf tail L htail hblock p n hws hn
    simp only [depthActions, Nat.max_le] at hdep
    simp only [wfActions, Bool.and_eq_true] at hwf
    simp only [slashActs, List.append_assoc, List.cons_append, List.length_append, List.length_cons] at hws hn ⊢
    cases n with
    | zero => omega
    | succ n =>
      obtain ⟨a', p1, ha, hae⟩ := action_spec hd ih a hdep.1 hwf.1 ('/' :: (slashActs as ++ tail))
        (dpStop_slash _) p n hws (by omega)
      have hw2 := hws.right
      have hnd : stopAt [(45, 45)] (slashActs as ++ tail) = true := by
        cases as with
        | nil => simpa [slashActs] using htail
        | cons b bs =>
          simp only [wfActions, Bool.and_eq_true] at hwf
          simp only [slashActs, List.append_assoc]
          exact action_noDash hwf.2.1 _
      obtain ⟨as', p2, has, hase⟩ := iha hdep.2 hwf.2 tail L htail hblock (p1 + 1) n hw2.tail (by omega)
      refine ⟨a' :: as', p2, ?_, by simp [eraseActions, hae, hase]⟩
      simp [parseActionsSlash, ha, lit_cons hw2, notSegStart_of_noDash hw2.tail hnd, has]

/-! ### an action is not a file name -/

theorem takeClass_noDot (rs : List (Nat × Nat)) (X : Str) (hX : stopAt rs X = true)
    (hX' : X.head? ≠ some '.') :
    ∀ (u : Str), '.' ∉ u → (takeClass rs none (u ++ X)).2.head? ≠ some '.' := by
  intro u
  induction u with
  | nil =>
    intro _
    have := takeClass_run rs X [] none (by simp) (by simp) (Or.inr hX)
    simp only [List.nil_append] at this ⊢
    rw [this]; exact hX'
  | cons x u ih =>
    intro hu
    simp only [List.cons_append, takeClass_cons_none]
    split
    · exact ih (fun h => hu (List.mem_cons_of_mem _ h))
    · simp only [List.head?_cons, ne_eq, Option.some.injEq]
      intro h; exact hu (h ▸ List.mem_cons_self)

theorem re_filename_action {c : Action} (hwf : wfAction c = true) {rest : Str} (hs : dpStop rest = true)
    {p : Nat} (hws : NoWs (c.encode T ++ rest)) :
    PS.re Gen.filenameRe ⟨c.encode T ++ rest, p⟩ = none := by
  obtain ⟨name, ps, pos⟩ := c
  simp only [wfAction, Bool.and_eq_true] at hwf
  have e : (Action.mk name ps pos).encode T ++ rest = name ++ (encodeDashParams T ps ++ rest) := by
    simp [Action.encode]
  rw [e] at hws ⊢
  have hnd : '.' ∉ name := by
    intro hm
    obtain ⟨it, hit, hin⟩ := fullMatch_mem hwf.1 '.' hm
    rw [identifier_no_dot hit] at hin; cases hin
  have hX := pieceStop_head (pieceStop_dashParams ps hs)
  have hX1 : stopAt Inst.fnR1 (encodeDashParams T ps ++ rest) = true := by
    rcases hX with h | ⟨c, t, h, hc⟩
    · rw [h]; rfl
    · rw [h]
      simp only [Inst.delims, List.mem_cons, List.not_mem_nil, or_false] at hc
      simp only [stopAt, Bool.not_eq_true']
      rcases hc with rfl | rfl | rfl
      · exact fnR1_excl (Or.inl rfl)
      · exact fnR1_excl (Or.inr (Or.inr (Or.inl rfl)))
      · exact fnR1_excl (Or.inr (Or.inr (Or.inr rfl)))
  have hX2 : (encodeDashParams T ps ++ rest).head? ≠ some '.' := by
    rcases hX with h | ⟨c, t, h, hc⟩
    · rw [h]; simp
    · rw [h]
      simp only [Inst.delims, List.mem_cons, List.not_mem_nil, or_false] at hc
      rcases hc with rfl | rfl | rfl <;> simp
  have hr := takeClass_noDot Inst.fnR1 _ hX1 hX2 name hnd
  rw [re_noWs hws, Inst.filename_shape, matchRe_cons]
  simp only [Nat.not_lt_zero, ↓reduceIte]
  rw [matchRe_fail_first (by simp)]
  cases h : (takeClass Inst.fnR1 none (name ++ (encodeDashParams T ps ++ rest))).2 with
  | nil => rfl
  | cons x t =>
    rw [h] at hr
    simp only [List.head?_cons, ne_eq, Option.some.injEq] at hr
    simp only [stopAt, Bool.not_eq_true']
    cases hx : inRanges [(46, 46)] x with
    | false => rfl
    | true => exact absurd (inRanges_dot hx) hr

/-! ### `action_path_nonempty` -/

theorem depthActions_append (as bs : List Action) :
    depthActions (as ++ bs) = max (depthActions as) (depthActions bs) := by
  induction as with
  | nil => simp [depthActions]
  | cons a as ih => simp [depthActions, ih, Nat.max_assoc]

theorem wfActions_append (as bs : List Action) :
    wfActions (as ++ bs) = (wfActions as && wfActions bs) := by
  induction as with
  | nil => simp [wfActions]
  | cons a as ih => simp [wfActions, ih, Bool.and_assoc]

theorem filename_noDash {f : Str} (hf : fullMatch Gen.filenameRe f = true) (x : Str) :
    stopAt [(45, 45)] (f ++ x) = true := by
  obtain ⟨a, b, rfl, ha⟩ := filename_split hf
  cases a with
  | nil => simp [stopAt]; decide
  | cons c a =>
    exact stopAt_dash_of (fnR1_excl (Or.inl rfl)) (ha c List.mem_cons_self)

/-- S2/S3: the action path of a transform segment -/
theorem actionPath_spec (hd : DecOK dec) {d : Nat} (ih : LinkIH dec d) (as : List Action)
    (f : Option Str) (hdep : depthActions as ≤ d) (hwfa : wfActions as = true)
    (hne : as ≠ [] ∨ f.isSome = true) (hwff : ∀ x, f = some x → fullMatch Gen.filenameRe x = true)
    (rest : Str) (b : Bool) (hf : Follow f.isSome b rest) (p n : Nat)
    (hws : NoWs (bodyText T as f ++ rest)) (hn : 8 * (bodyText T as f).length + 5 ≤ n) :
    ∃ as' p', parseActionPath dec n ⟨bodyText T as f ++ rest, p⟩ = some ((as', f), ⟨rest, p'⟩) ∧
      eraseActions as' = eraseActions as := by
  cases n with
  | zero => omega
  | succ n =>
    cases f with
    | some fn =>
      have hfn := hwff fn rfl
      rw [bodyText_file as hwfa fn] at hws hn ⊢
      rw [List.append_assoc] at hws ⊢
      simp only [List.length_append] at hn
      obtain ⟨as', p1, has, hase⟩ := actionsSlash_spec hd ih as hdep hwfa (fn ++ rest) 0
        (filename_noDash hfn rest) (fun m p _ => actionsSlash_block_file hfn rest hws.right m p)
        p n hws (by omega)
      have hre := re_filename (p := p1) hfn hf.dpStop hws.right
      exact ⟨as', p1 + fn.length, by simp only [parseActionPath, has, hre], hase⟩
    | none =>
      have hne' : as ≠ [] := by simpa using hne
      obtain ⟨as0, c, rfl⟩ : ∃ as0 c, as = as0 ++ [c] :=
        ⟨as.dropLast, as.getLast hne', (List.dropLast_concat_getLast hne').symm⟩
      rw [depthActions_append] at hdep
      simp only [depthActions, Nat.max_le, Nat.zero_le, and_true] at hdep
      rw [wfActions_append] at hwfa
      simp only [wfActions, Bool.and_true, Bool.and_eq_true] at hwfa
      rw [bodyText_last] at hws hn ⊢
      rw [List.append_assoc] at hws ⊢
      simp only [List.length_append] at hn
      simp only [Option.isSome_none] at hf
      obtain ⟨as', p1, has, hase⟩ := actionsSlash_spec hd ih as0 hdep.1 hwfa.1 (c.encode T ++ rest)
        (c.encode T).length (action_noDash hwfa.2 rest)
        (fun m p hm => actionsSlash_block_action hd ih c hdep.2 hwfa.2 rest b hf hws.right m p hm)
        p n hws (by omega)
      have hre := re_filename_action (p := p1) hwfa.2 hf.dpStop hws.right
      obtain ⟨c', p2, hc, hce⟩ := action_spec hd ih c hdep.2 hwfa.2 rest hf.dpStop p1 n hws.right (by omega)
      refine ⟨as' ++ [c'], p2, by simp only [parseActionPath, has, hre, hc], ?_⟩
      simp [eraseActions_append, eraseActions, hase, hce]

/-- an action path does not start with a dash -/
theorem actionPath_fail_dash {t : Str} (hws : NoWs ('-' :: t)) (n p : Nat) :
    parseActionPath dec n ⟨'-' :: t, p⟩ = none := by
  have hid : PS.re Gen.identifierRe ⟨'-' :: t, p⟩ = none := by
    rw [Inst.identifier_shape]
    exact re_fail_first hws (by simp [stopAt, idR1_no_dash])
  have hact : ∀ m, parseAction dec m ⟨'-' :: t, p⟩ = none := by
    intro m
    cases m with
    | zero => simp [parseAction]
    | succ m => simp only [parseAction, skipWs_noWs hws, hid]
  have hfn : PS.re Gen.filenameRe ⟨'-' :: t, p⟩ = none := by
    rw [re_noWs hws, Inst.filename_shape, matchRe_cons]
    simp only [Nat.not_lt_zero, ↓reduceIte, takeClass_cons_none, fnR1_excl (Or.inl rfl)]
    rw [matchRe_fail_first (by simp) (by simp [stopAt]; decide)]
  cases n with
  | zero => simp [parseActionPath]
  | succ n =>
    have hsl : parseActionsSlash dec n ⟨'-' :: t, p⟩ = ([], ⟨'-' :: t, p⟩) := by
      cases n with
      | zero => simp [parseActionsSlash]
      | succ n => simp only [parseActionsSlash, hact]
    simp only [parseActionPath, hsl, hfn, hact]

end Liquer
