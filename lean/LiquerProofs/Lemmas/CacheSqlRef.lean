/-
`SQLCache` / `SQLStringCache` (as fixed, `delete_before_insert = True`, `store_metadata_enabled = True`)
refine the given specification `kvOps` (a metadata-only write replaces the row: the data is dropped).
-/
import LiquerProofs.Lemmas.CacheKV
import LiquerModel.CacheSql

namespace Liquer

structure SqlOK (c : SqlCfg) : Prop where
  dbi : c.deleteBeforeInsert = true
  metaOn : c.metaEnabled = true
  dec_enc : ∀ b, c.dec (c.enc b) = some b
  deM_serM : ∀ m, c.deM (c.serM m) = some m
  deD_serD : ∀ t v, c.deD t (c.serD t v) = some v

def rowOf (c : SqlCfg) (k : Str) (e : CMeta × Option Str) : SqlRow :=
  { query := k, metadata := c.serM e.1, data := e.2.map (fun v => c.enc (c.serD e.1.typeId (some v))) }

structure RS (c : SqlCfg) (s : SqlState) (kv : KV) : Prop where
  rowOK : ∀ k, SqlC.fetchone s k = (kv.get k).map (rowOf c k)
  keysOK : (s.rows.map (·.query)).Perm (kv.map (·.1))
  memoOK : s.memo = none ∨ s.memo = some (s.rows.map (·.query))

theorem find_filter_query (rows : List SqlRow) (q k : Str) :
    (rows.filter (fun x => x.query != q)).find? (fun r => r.query == k) =
      if k == q then none else rows.find? (fun r => r.query == k) := by
  induction rows with
  | nil => simp
  | cons r rows ih =>
    rw [List.filter_cons]
    by_cases h1 : r.query = q
    · have : (r.query != q) = false := by simp [h1]
      simp only [this, Bool.false_eq_true, ↓reduceIte, ih, List.find?_cons]
      by_cases h2 : k = q
      · simp [h2]
      · have : (r.query == k) = false := by simpa [h1] using fun e => h2 e.symm
        simp [h2, this]
    · have : (r.query != q) = true := by simp [h1]
      simp only [this, ↓reduceIte, List.find?_cons, ih]
      by_cases h2 : k = q
      · subst h2
        have : (r.query == k) = false := by simpa using h1
        simp [this]
      · simp [h2]

theorem KV.isSome_get (kv : KV) (k : Str) : (kv.get k).isSome = (kv.map (·.1)).contains k := by
  induction kv with
  | nil => rfl
  | cons e kv ih =>
    have hg : KV.get (e :: kv) k = if e.1 == k then some e.2 else KV.get kv k := by
      simp only [KV.get, List.find?_cons]
      cases e.1 == k <;> rfl
    rw [hg, List.map_cons, List.contains_cons]
    by_cases h : e.1 = k
    · subst h; simp
    · have h1 : (e.1 == k) = false := by simpa using h
      have h2 : (k == e.1) = false := by simpa using fun x => h x.symm
      simp only [h1, h2, Bool.false_or]
      exact ih

theorem map_query_filter (rows : List SqlRow) (q : Str) :
    (rows.filter (fun x => x.query != q)).map (·.query) = (rows.map (·.query)).filter (· != q) := by
  rw [List.filter_map]; rfl

theorem RS_insert (c : SqlCfg) (ok : SqlOK c) (s : SqlState) (kv : KV) (R : RS c s kv) (q : Str) (e : CMeta × Option Str) :
    RS c (SqlC.insert c s (rowOf c q e)) (kv.set q e.1 e.2) := by
  refine ⟨?_, ?_, Or.inl rfl⟩
  · intro k
    simp only [SqlC.insert, ok.dbi, ↓reduceIte, SqlC.fetchone, List.find?_append, KV.get_set]
    have hq : (rowOf c q e).query = q := rfl
    rw [hq, find_filter_query]
    by_cases h : k = q
    · subst h; simp [rowOf]
    · have h1 : (k == q) = false := by simpa using h
      have h2 : (q == k) = false := by simpa using fun x => h x.symm
      have := R.rowOK k
      simp only [SqlC.fetchone] at this
      simp [h1, h2, this, rowOf]
  · simp only [SqlC.insert, ok.dbi, ↓reduceIte, List.map_append, List.map_cons, List.map_nil]
    have hq : (rowOf c q e).query = q := rfl
    rw [hq, KV.set_eq, AL.keys_set, map_query_filter]
    refine List.Perm.trans (List.perm_append_singleton q _) ?_
    exact List.Perm.cons _ (R.keysOK.filter _)

theorem sql_sim (c : SqlCfg) (ok : SqlOK c) : CSim (sqlCOps c) (kvOpsC kvCfgDrop) (RS c) (fun _ op => op.hasData = true) := by
  intro s kv op R hdata
  have hkeys : ∀ s', s'.rows = s.rows → (s'.memo = none ∨ s'.memo = some (s'.rows.map (·.query))) →
      (SqlC.availableKeys s').2 = s.rows.map (·.query) ∧ (SqlC.availableKeys s').1.rows = s.rows ∧
      ((SqlC.availableKeys s').1.memo = some (s.rows.map (·.query))) := by
    intro s' hr hm
    simp only [SqlC.availableKeys]
    rcases hm with hm | hm <;> simp [hm, hr]
  cases op with
  | get k =>
    refine ⟨R, outEq_of_eq ?_⟩
    simp only [CacheOps.step, sqlCOps, kvOpsC, kvOps, SqlC.get, R.rowOK k]
    cases h : kv.get k with
    | none => rfl
    | some e =>
      obtain ⟨m, d⟩ := e
      cases d with
      | none => by_cases hr : m.status = ready <;> simp [rowOf, ok.deM_serM, hr]
      | some d => by_cases hr : m.status = ready <;> simp [rowOf, ok.deM_serM, hr, ok.dec_enc, ok.deD_serD]
  | getMeta k =>
    refine ⟨R, outEq_of_eq ?_⟩
    simp only [CacheOps.step, sqlCOps, kvOpsC, kvOps, R.rowOK k]
    cases h : kv.get k with
    | none => rfl
    | some e => simp [rowOf, ok.deM_serM]
  | contains k =>
    obtain ⟨h1, h2, h3⟩ := hkeys s rfl R.memoOK
    refine ⟨⟨?_, ?_, ?_⟩, outEq_of_eq ?_⟩
    · intro k'; simp only [CacheOps.step, sqlCOps, SqlC.fetchone, h2]; exact R.rowOK k'
    · simp only [CacheOps.step, sqlCOps, h2]; exact R.keysOK
    · right; simp only [CacheOps.step, sqlCOps, h2, h3]
    · simp only [CacheOps.step, sqlCOps, kvOpsC, kvOps, h1, KV.isSome_get, CacheOut.bool.injEq]
      rw [Bool.eq_iff_iff]
      simp only [List.contains_iff_mem]
      exact R.keysOK.mem_iff
  | keys =>
    obtain ⟨h1, h2, h3⟩ := hkeys s rfl R.memoOK
    refine ⟨⟨?_, ?_, ?_⟩, ?_⟩
    · intro k'; simp only [CacheOps.step, sqlCOps, SqlC.fetchone, h2]; exact R.rowOK k'
    · simp only [CacheOps.step, sqlCOps, h2]; exact R.keysOK
    · right; simp only [CacheOps.step, sqlCOps, h2, h3]
    · simp only [CacheOps.step, sqlCOps, kvOpsC, kvOps, h1, outEq]; exact R.keysOK
  | clean =>
    refine ⟨⟨?_, ?_, ?_⟩, outEq_refl _⟩ <;> simp [CacheOps.step, sqlCOps, kvOpsC, kvOps, SqlC.fetchone, KV.get]
  | remove k =>
    refine ⟨⟨?_, ?_, Or.inl rfl⟩, outEq_refl _⟩
    · intro k'
      simp only [CacheOps.step, sqlCOps, kvOpsC, kvOps, SqlC.fetchone, find_filter_query, KV.get_erase]
      by_cases h : k' = k
      · simp [h]
      · have h1 : (k' == k) = false := by simpa using h
        have := R.rowOK k'
        simp only [SqlC.fetchone] at this
        simp [h1, this]
    · simp only [CacheOps.step, sqlCOps, kvOpsC, kvOps, KV.erase_eq, AL.keys_erase]
      rw [map_query_filter]
      exact R.keysOK.filter _
  | storeMeta m =>
    have hkv : (kvOpsC kvCfgDrop).step kv (.storeMeta m) = (kv.set m.query m none, .bool true) := by
      simp only [CacheOps.step, kvOpsC, kvCfgDrop]
      cases kv.get m.query with
      | none => rfl
      | some e => rfl
    rw [hkv]
    simp only [CacheOps.step, sqlCOps, ok.metaOn, ↓reduceIte]
    exact ⟨RS_insert c ok s kv R m.query (m, none), outEq_refl _⟩
  | store st =>
    by_cases he : st.metadata.isError
    · refine ⟨?_, outEq_of_eq ?_⟩ <;> simp [CacheOps.step, sqlCOps, kvOpsC, kvOps, he, R]
    · have he : st.metadata.isError = false := by simpa using he
      obtain ⟨d, hd⟩ : ∃ d, st.data = some d := by
        have : st.data.isSome = true := by simpa [CacheOp.hasData] using hdata
        exact Option.isSome_iff_exists.1 this
      have hkv : (kvOpsC kvCfgDrop).step kv (.store st) = (kv.set st.metadata.query { st.metadata with status := ready } (some d), .res .true) := by
        simp [CacheOps.step, kvOpsC, kvOps, he, hd]
      have hstep : (sqlCOps c).step s (.store st) =
          (SqlC.insert c s (rowOf c st.metadata.query ({ st.metadata with status := ready }, some d)), .res .true) := by
        simp [CacheOps.step, sqlCOps, he, rowOf, hd]
      rw [hkv, hstep]
      exact ⟨RS_insert c ok s kv R _ _, outEq_refl _⟩

theorem RS_init (c : SqlCfg) : RS c {} [] := ⟨by simp [SqlC.fetchone, KV.get], by simp, Or.inl rfl⟩

end Liquer
