/-
Association-list lemmas (`AL`) used by every cache proof.
-/
import LiquerModel.CacheMem
namespace Liquer
namespace AL
variable {κ : Type} [BEq κ] [LawfulBEq κ] {β : Type}

theorem find_and (l : List (κ × β)) (p : κ → Bool) (k : κ) :
    l.find? (fun a => p a.1 && a.1 == k) = if p k then l.find? (fun a => a.1 == k) else none := by
  induction l with
  | nil => simp
  | cons e l ih =>
    rw [List.find?_cons, List.find?_cons]
    by_cases hk : e.1 = k
    · subst hk
      by_cases hp : p e.1 <;> simp [hp, ih]
    · have : (e.1 == k) = false := by simpa using hk
      simp [this, ih]

theorem get_filter (l : List (κ × β)) (p : κ → Bool) (k : κ) :
    get (l.filter (fun e => p e.1)) k = if p k then get l k else none := by
  unfold get
  rw [List.find?_filter]
  have : (fun a : κ × β => decide (p a.1 = true ∧ (a.1 == k) = true)) = fun a => p a.1 && a.1 == k := by
    funext a; simp [Bool.decide_and]
  rw [this, find_and]
  split <;> rfl

theorem get_erase (l : List (κ × β)) (k k' : κ) : get (erase l k) k' = if k' == k then none else get l k' := by
  unfold erase
  rw [get_filter l (fun x => x != k) k']
  by_cases h : k' = k <;> simp [h]

theorem get_set (l : List (κ × β)) (k k' : κ) (v : β) : get (set l k v) k' = if k' == k then some v else get l k' := by
  by_cases h : k' = k
  · subst h; simp [set, get]
  · have h2 : (k == k') = false := by simp; exact fun e => h e.symm
    have h3 : (k' == k) = false := by simpa using h
    have := get_erase l k k'
    unfold get at this ⊢
    unfold set
    rw [List.find?_cons]
    simp only [h2, h3] at this ⊢
    exact this

omit [LawfulBEq κ] in
theorem keys_erase (l : List (κ × β)) (k : κ) : (erase l k).map (·.1) = (l.map (·.1)).filter (· != k) := by
  unfold erase
  rw [List.filter_map]
  rfl

omit [LawfulBEq κ] in
theorem keys_set (l : List (κ × β)) (k : κ) (v : β) : (set l k v).map (·.1) = k :: (l.map (·.1)).filter (· != k) := by
  simp [set, keys_erase]

end AL
end Liquer
