/-
The path schemes of `StoreCache.to_path`: both are injective on *all* key strings (the store sees
`key.split("/")`, which determines the string); the flat scheme is also prefix-free.
-/
import LiquerProofs.Lemmas.CacheStoreRef

namespace Liquer
namespace StoreC

def joinSlash : List Str → Str
  | [] => []
  | [w] => w
  | w :: v :: ws => w ++ '/' :: joinSlash (v :: ws)

theorem joinSlash_splitSlash (s : Str) : joinSlash (splitSlash s) = s := by
  induction s with
  | nil => rfl
  | cons c cs ih =>
    simp only [splitSlash]
    cases h : splitSlash cs with
    | nil => exact absurd h (splitSlash_ne_nil cs)
    | cons w ws =>
      rw [h] at ih
      by_cases hc : c = '/'
      · subst hc; simp [joinSlash, ih]
      · simp only [hc, ↓reduceIte]
        cases ws with
        | nil => simp only [joinSlash] at ih ⊢; rw [ih]
        | cons v vs => simp only [joinSlash] at ih ⊢; rw [← ih]; rfl

theorem splitSlash_injective (a b : Str) (h : splitSlash a = splitSlash b) : a = b := by
  rw [← joinSlash_splitSlash a, ← joinSlash_splitSlash b, h]

theorem splitSlash_length (s : Str) : (splitSlash s).length = s.count '/' + 1 := by
  induction s with
  | nil => rfl
  | cons c cs ih =>
    simp only [splitSlash]
    cases h : splitSlash cs with
    | nil => exact absurd h (splitSlash_ne_nil cs)
    | cons w ws =>
      rw [h] at ih
      by_cases hc : c = '/'
      · subst hc; simp at ih ⊢; omega
      ·         simp [hc] at ih ⊢; omega

theorem stripSlash_of_head (s : Str) (c0 : Char) (r : Str) (h : s = c0 :: r) (hc : c0 ≠ '/') : stripSlash s = s := by
  subst h
  unfold stripSlash
  split
  · rename_i heq; simp only [List.cons.injEq] at heq; exact absurd heq.1 hc
  · rfl

/-- the nested scheme never maps two key strings to the same path (cache path not starting with `/`) -/
theorem toPath_nested_injective (c : StoreCCfg) (hf : c.flat = false) (c0 : Char) (r : Str) (hp : c.path = c0 :: r) (hc : c0 ≠ '/')
    (a b : Str) (h : toPath c a = toPath c b) : a = b := by
  have h' := splitSlash_injective _ _ h
  simp only [pathStr, hf, Bool.false_eq_true, ↓reduceIte] at h'
  rw [stripSlash_of_head _ c0 _ (by rw [hp]; rfl) hc, stripSlash_of_head _ c0 _ (by rw [hp]; rfl) hc] at h'
  simp only [List.append_assoc] at h'
  have h2 := List.append_cancel_left h'
  simp only [List.cons_append, List.nil_append, List.cons.injEq, true_and] at h2
  exact List.append_cancel_right h2

/-- the flat scheme is injective when the digest is -/
theorem toPath_flat_injective (c : StoreCCfg) (hf : c.flat = true) (c0 : Char) (r : Str) (hp : c.path = c0 :: r) (hc : c0 ≠ '/')
    (hinj : ∀ a b, c.h a = c.h b → a = b) (a b : Str) (h : toPath c a = toPath c b) : a = b := by
  have h' := splitSlash_injective _ _ h
  simp only [pathStr, hf, ↓reduceIte] at h'
  rw [stripSlash_of_head _ c0 _ (by rw [hp]; rfl) hc, stripSlash_of_head _ c0 _ (by rw [hp]; rfl) hc] at h'
  simp only [List.append_assoc] at h'
  have h2 := List.append_cancel_left (List.append_cancel_left h')
  exact hinj _ _ (List.append_cancel_right h2)

theorem not_mem_ancestors_of_length (p q : Key) (h : q.length ≤ p.length) : p ∉ ancestors q := by
  intro hm
  simp only [ancestors, List.mem_filterMap, List.mem_range] at hm
  obtain ⟨i, hi, h2⟩ := hm
  split at h2
  · cases h2
  · simp only [Option.some.injEq] at h2
    have := congrArg List.length h2
    simp at this; omega

/-- the flat scheme is prefix-free when the digest contains no `/`: all paths have the same length -/
theorem toPath_flat_prefixFree (c : StoreCCfg) (hf : c.flat = true) (c0 : Char) (r : Str) (hp : c.path = c0 :: r) (hc : c0 ≠ '/')
    (hslash : ∀ k, '/' ∉ c.h k) (a b : Str) : toPath c a ∉ ancestors (toPath c b) := by
  apply not_mem_ancestors_of_length
  have hlen : ∀ k, (toPath c k).length = (c.path ++ "/0state_".toList ++ ".data".toList).count '/' + 1 := by
    intro k
    simp only [toPath, splitSlash_length, pathStr, hf, ↓reduceIte, Nat.add_right_cancel_iff]
    have h0 : (c.h k).count '/' = 0 := List.count_eq_zero.2 (hslash k)
    rw [stripSlash_of_head _ c0 (r ++ "/0state_".toList ++ c.h k ++ ".data".toList) (by rw [hp]; simp) hc]
    generalize "/0state_".toList = A
    generalize ".data".toList = B
    simp [List.count_append, h0]
  rw [hlen a, hlen b]
  exact Nat.le_refl _

end StoreC
end Liquer
