/-
`StoreCache` over the reference store `specOps` refines the key-value specification on **all** operations —
also `keys()` and `clean()` — for every history, provided the path scheme is injective and prefix-free on the
keys in use (`PathsOK`) **and the cache path does not start with `/`** (`to_path` strips one leading slash,
`keys()` / `clean()` compare store keys with the unstripped `path + "/"`: with such a path `keys()` is empty
and `clean()` removes nothing — `Props/C13.lean`, `storec_unnormalised_false`).

The relation `RSt2` adds to `RSt`: the store holds no two bindings of one key, every *file* of the store is
the entry of a key in use (directories are unconstrained: `keys()` skips them, `clean()` may leave them), the
specification holds no two bindings of one key and files every entry under the `query` of its own metadata.
-/
import LiquerProofs.Lemmas.CachePaths

namespace Liquer

namespace AL
variable {κ : Type} {β : Type}

/-- no two bindings for one key -/
def ND (l : List (κ × β)) : Prop := l.Pairwise (fun a b => a.1 ≠ b.1)

theorem ND.filter {l : List (κ × β)} (h : ND l) (q : κ × β → Bool) : ND (l.filter q) := List.Pairwise.filter q h

variable [BEq κ] [LawfulBEq κ]

omit [LawfulBEq κ] in
theorem ND.erase {l : List (κ × β)} (h : ND l) (k : κ) : ND (erase l k) := h.filter _

theorem ND.set {l : List (κ × β)} (h : ND l) (k : κ) (v : β) : ND (set l k v) := by
  unfold AL.set
  refine List.Pairwise.cons ?_ (h.erase k)
  intro e he
  simp only [AL.erase, List.mem_filter, bne_iff_ne, ne_eq] at he
  exact fun e' => he.2 e'.symm

theorem ND.get_of_mem {l : List (κ × β)} (h : ND l) (e : κ × β) (he : e ∈ l) : get l e.1 = some e.2 := by
  induction l with
  | nil => cases he
  | cons a l ih =>
    rw [ND, List.pairwise_cons] at h
    unfold get
    rw [List.find?_cons]
    rcases List.mem_cons.1 he with rfl | he'
    · simp
    · have hne : (a.1 == e.1) = false := by simpa using h.1 e he'
      rw [hne]
      exact ih h.2 he'

theorem mem_of_get {l : List (κ × β)} {k : κ} {v : β} (h : get l k = some v) : (k, v) ∈ l := by
  unfold get at h
  cases hf : l.find? (fun e => e.1 == k) with
  | none => simp [hf] at h
  | some e =>
    have h1 := List.find?_some hf
    have h2 := List.mem_of_find?_eq_some hf
    simp only [hf, Option.map_some, Option.some.injEq] at h
    have : e = (k, v) := by
      obtain ⟨a, b⟩ := e
      simp only [beq_iff_eq] at h1
      simp only at h
      rw [h1, h]
    rw [← this]; exact h2

theorem get_isSome_of_mem_keys {l : List (κ × β)} {k : κ} (h : k ∈ l.map (·.1)) : ∃ v, get l k = some v := by
  obtain ⟨e, he, rfl⟩ := List.mem_map.1 h
  unfold get
  cases hf : l.find? (fun x => x.1 == e.1) with
  | none =>
    have := List.find?_eq_none.1 hf e he
    simp at this
  | some x => exact ⟨x.2, rfl⟩

theorem mem_keys_of_get {l : List (κ × β)} {k : κ} {v : β} (h : get l k = some v) : k ∈ l.map (·.1) :=
  List.mem_map.2 ⟨(k, v), mem_of_get h, rfl⟩

end AL

theorem FS.erase_of_get_none (fs : FS) (k : Key) (h : fs.get k = none) : fs.erase k = fs := by
  unfold FS.erase
  rw [List.filter_eq_self]
  intro e he
  unfold FS.get at h
  simp only [Option.map_eq_none_iff] at h
  have := List.find?_eq_none.1 h e he
  simpa using this

/-- `mkdirs` only adds directories -/
theorem FS.get_mkdirs (fs : FS) (ks : List Key) (k : Key) (n : Node) (h : (fs.mkdirs ks).get k = some n) :
    fs.get k = some n ∨ n = .dir := by
  unfold FS.mkdirs at h
  induction ks generalizing fs with
  | nil => exact .inl h
  | cons a ks ih =>
    simp only [List.foldl_cons] at h
    rcases ih _ h with h1 | h1
    · split at h1
      · exact .inl h1
      · rw [FS.set_eq_AL, FS.get_eq_AL, AL.get_set] at h1
        split at h1
        · right; simpa using h1.symm
        · exact .inl h1
    · exact .inr h1

/-- a store obtained from another by dropping bindings (by key) -/
def FS.IsSub (s' s : FS) : Prop := ∃ q : Key → Bool, s' = s.filter (fun e => q e.1)

theorem FS.IsSub.refl (s : FS) : FS.IsSub s s := ⟨fun _ => true, (List.filter_eq_self.2 (fun _ _ => rfl)).symm⟩

theorem FS.IsSub.trans {a b c : FS} (h1 : FS.IsSub a b) (h2 : FS.IsSub b c) : FS.IsSub a c := by
  obtain ⟨q1, rfl⟩ := h1
  obtain ⟨q2, rfl⟩ := h2
  exact ⟨fun k => q2 k && q1 k, by rw [List.filter_filter]; congr 1; funext e; rw [Bool.and_comm]⟩

theorem FS.IsSub.erase (s : FS) (k : Key) : FS.IsSub (s.erase k) s := ⟨fun x => x != k, rfl⟩

theorem FS.IsSub.get {s' s : FS} (h : FS.IsSub s' s) {p : Key} {n : Node} (hg : s'.get p = some n) : s.get p = some n := by
  obtain ⟨q, rfl⟩ := h
  rw [FS.get_eq_AL, AL.get_filter s q p] at hg
  split at hg
  · exact hg
  · cases hg

theorem FS.IsSub.foldl {α : Type} (f : FS → α → FS) (hf : ∀ st a, FS.IsSub (f st a) st) (l : List α) :
    ∀ st, FS.IsSub (l.foldl f st) st := by
  induction l with
  | nil => exact fun st => FS.IsSub.refl st
  | cons a l ih => exact fun st => (ih (f st a)).trans (hf st a)

namespace StoreC

theorem intercalate_eq_joinSlash (l : List Str) : List.intercalate ['/'] l = joinSlash l := by
  induction l with
  | nil => rfl
  | cons w ws ih =>
    cases ws with
    | nil => simp [List.intercalate, joinSlash]
    | cons v vs =>
      simp only [joinSlash, ← ih]
      simp [List.intercalate]

theorem strStartsWith_splitSlash (s pre : Str) : strStartsWith (splitSlash s) pre = pre.isPrefixOf s := by
  unfold strStartsWith
  rw [intercalate_eq_joinSlash, joinSlash_splitSlash]

/-- the string handed to the store when the cache path does not start with `/` -/
theorem pathStr_noslash (c : StoreCCfg) (hpath : ∀ r, c.path ≠ '/' :: r) (k : Str) :
    ∃ rest, rest ≠ [] ∧ pathStr c k = (if c.path.isEmpty then rest else c.path ++ '/' :: rest) := by
  have h1 : "/0state_".toList = '/' :: "0state_".toList := by decide
  have h2 : "/0state_.data".toList = '/' :: "0state_.data".toList := by decide
  have h3 : "0state_".toList = '0' :: "state_".toList := by decide
  cases hp : c.path with
  | nil =>
    cases hf : c.flat with
    | true =>
      refine ⟨"0state_".toList ++ c.h k ++ ".data".toList, by rw [h3]; simp, ?_⟩
      simp [pathStr, hp, hf, h1, stripSlash]
    | false =>
      refine ⟨k ++ "/0state_.data".toList, by rw [h2]; simp, ?_⟩
      simp [pathStr, hp, hf, stripSlash]
  | cons c0 r =>
    have hc : c0 ≠ '/' := fun e => hpath r (by rw [hp, e])
    cases hf : c.flat with
    | true =>
      refine ⟨"0state_".toList ++ c.h k ++ ".data".toList, by rw [h3]; simp, ?_⟩
      simp only [pathStr, hf, ↓reduceIte, hp, List.cons_append]
      rw [stripSlash_of_head _ c0 _ rfl hc]
      simp [h1]
    | false =>
      refine ⟨k ++ "/0state_.data".toList, by rw [h2]; simp, ?_⟩
      simp only [pathStr, hf, hp, Bool.false_eq_true, ↓reduceIte, List.cons_append]
      rw [stripSlash_of_head _ c0 _ rfl hc]
      simp

theorem pref_keys (c : StoreCCfg) (hpath : ∀ r, c.path ≠ '/' :: r) (k : Str) :
    (c.path.isEmpty || strStartsWith (toPath c k) (c.path ++ ['/'])) = true := by
  obtain ⟨rest, _, hs⟩ := pathStr_noslash c hpath k
  cases he : c.path.isEmpty with
  | true => rfl
  | false =>
    rw [he] at hs
    simp only [Bool.false_eq_true, ↓reduceIte] at hs
    rw [Bool.false_or, toPath, strStartsWith_splitSlash, hs, List.isPrefixOf_iff_prefix]
    exact ⟨rest, by simp⟩

theorem pref_clean (c : StoreCCfg) (hpath : ∀ r, c.path ≠ '/' :: r) (k : Str) :
    strStartsWith (toPath c k) (if c.path.isEmpty then [] else c.path ++ ['/']) = true := by
  cases he : c.path.isEmpty with
  | true => simp [strStartsWith]
  | false =>
    have := pref_keys c hpath k
    rw [he, Bool.false_or] at this
    simpa using this

/-- no entry path is the cache directory or one of the directories above it -/
theorem toPath_not_init (c : StoreCCfg) (hpath : ∀ r, c.path ≠ '/' :: r) (k : Str) :
    toPath c k ∉ ancestors (splitSlash c.path) ++ [splitSlash c.path] := by
  obtain ⟨rest, hne, hs⟩ := pathStr_noslash c hpath k
  cases he : c.path.isEmpty with
  | true =>
    have hp : c.path = [] := List.isEmpty_iff.1 he
    rw [he] at hs
    simp only [↓reduceIte] at hs
    have h0 : ancestors (splitSlash ([] : Str)) ++ [splitSlash []] = [[[]]] := by decide
    rw [hp, h0, List.mem_singleton, toPath, hs]
    intro h
    exact hne (splitSlash_injective rest [] h)
  | false =>
    rw [he] at hs
    simp only [Bool.false_eq_true, ↓reduceIte] at hs
    have hlen : (splitSlash c.path).length < (toPath c k).length := by
      rw [toPath, hs, splitSlash_length, splitSlash_length, List.count_append, List.count_cons_self]
      omega
    intro hm
    rcases List.mem_append.1 hm with h | h
    · exact not_mem_ancestors_of_length _ _ (Nat.le_of_lt hlen) h
    · rw [List.mem_singleton] at h
      rw [h] at hlen
      exact Nat.lt_irrefl _ hlen

end StoreC


namespace StoreC

/-- the first phase of `clean` leaves no file behind, if every file is below the cache path -/
theorem clean1_nofile (pre : Str) (l : List Key) : ∀ (st : FS)
    (_ : ∀ p d um, st.get p = some (.file d um) → p.isEmpty = false ∧ strStartsWith p pre = true),
    ∀ p ∈ l, ∀ d um, (l.foldl (fun st key =>
      if !(okB true (specOps.isDir st key)) && strStartsWith key pre then okB st (specOps.remove st key) else st) st).get p
        ≠ some (.file d um) := by
  induction l with
  | nil => intro _ _ p hp; cases hp
  | cons a l ih =>
    intro st hst p hp d um hg
    simp only [List.foldl_cons] at hg
    have hsub : FS.IsSub (if !(okB true (specOps.isDir st a)) && strStartsWith a pre then okB st (specOps.remove st a) else st) st := by
      split
      · exact FS.IsSub.erase st a
      · exact FS.IsSub.refl st
    have hst' : ∀ p d um, (if !(okB true (specOps.isDir st a)) && strStartsWith a pre then okB st (specOps.remove st a) else st).get p
        = some (.file d um) → p.isEmpty = false ∧ strStartsWith p pre = true := fun p d um h => hst p d um (hsub.get h)
    rcases List.mem_cons.1 hp with rfl | hp'
    · have h1 := (FS.IsSub.foldl _ (fun st key => by
        split
        · exact FS.IsSub.erase st key
        · exact FS.IsSub.refl st) l _).get hg
      have h2 := hsub.get h1
      obtain ⟨hne, hpre⟩ := hst p d um h2
      have hcond : (!(okB true (specOps.isDir st p)) && strStartsWith p pre) = true := by
        simp [okB, specOps, FS.isDirB, hne, h2, hpre]
      rw [hcond] at h1
      simp only [↓reduceIte, okB, specOps] at h1
      rw [FS.erase_eq_AL, FS.get_eq_AL, AL.get_erase] at h1
      simp at h1
    · exact ih _ hst' p hp' d um hg

theorem clean_spec (c : StoreCCfg) (fs : FS)
    (hfiles : ∀ p d um, fs.get p = some (.file d um) →
      p.isEmpty = false ∧ strStartsWith p (if c.path.isEmpty then [] else c.path ++ ['/']) = true) :
    FS.IsSub (clean c specOps fs) fs ∧ ∀ p d um, (clean c specOps fs).get p ≠ some (.file d um) := by
  simp only [clean]
  generalize hpre : (if c.path.isEmpty then [] else c.path ++ ['/']) = pre at hfiles ⊢
  generalize hs1 : (okB [] (specOps.keys fs)).foldl (fun st key =>
      if !(okB true (specOps.isDir st key)) && strStartsWith key pre then okB st (specOps.remove st key) else st) fs = s1
  have h1 : FS.IsSub s1 fs := by
    rw [← hs1]
    exact FS.IsSub.foldl _ (fun st key => by
      split
      · exact FS.IsSub.erase st key
      · exact FS.IsSub.refl st) _ _
  have h1f : ∀ p d um, s1.get p ≠ some (.file d um) := by
    intro p d um hg
    have hm : p ∈ okB [] (specOps.keys fs) := AL.mem_keys_of_get (h1.get hg)
    rw [← hs1] at hg
    exact clean1_nofile pre _ fs hfiles p hm d um hg
  have h2 : ∀ st : FS, FS.IsSub
      ((List.range ((okB [] (specOps.keys s1)).foldl (fun m k => max m (depth k)) 0 + 1)).reverse.foldl (fun st d =>
        ((okB [] (specOps.keys s1)).filter (fun k => depth k == d)).foldl (fun st key =>
          if okB false (specOps.isDir st key) && strStartsWith key pre then okB st (specOps.removedir st key false) else st) st) st) st := by
    intro st
    refine FS.IsSub.foldl _ (fun st d => FS.IsSub.foldl _ (fun st key => ?_) _ _) _ _
    split
    · simp only [specOps, Bool.false_eq_true, ↓reduceIte]
      split
      · exact FS.IsSub.refl st
      · split
        · exact FS.IsSub.erase st key
        · exact FS.IsSub.refl st
    · exact FS.IsSub.refl st
  exact ⟨(h2 s1).trans h1, fun p d um hg => h1f p d um ((h2 s1).get hg)⟩

end StoreC


/-! ### the extended relation -/

structure RSt2 (c : StoreCCfg) (U : Str → Prop) (fs : FS) (kv : KV) : Prop where
  base : RSt c U fs kv
  /-- the store holds at most one binding per key -/
  nd : AL.ND fs
  /-- every file of the store is the entry of a key in use (directories are not constrained) -/
  files : ∀ p d um, fs.get p = some (.file d um) → ∃ k, U k ∧ p = StoreC.toPath c k
  kvnd : AL.ND kv
  /-- entries are filed under the query of their own metadata, and only keys in use are filed -/
  query : ∀ k m d, kv.get k = some (m, d) → m.query = k ∧ U k

/-- all operations; the point operations address keys in use -/
def okSt2 (U : Str → Prop) (kv : KV) (op : CacheOp) : Prop :=
  op.hasData = true ∧ op.typeStable kv = true ∧ ∀ k, op.key? = some k → U k

/-- what the store shows at the path of a key in use -/
theorem RSt.look {c : StoreCCfg} {U : Str → Prop} {fs : FS} {kv : KV} (R : RSt c U fs kv) (k : Str) (hk : U k) :
    (kv.get k = none ∧ fs.get (StoreC.toPath c k) = none) ∨
    ∃ m d um, kv.get k = some (m, some d) ∧ fs.get (StoreC.toPath c k) = some (.file (c.serD m.typeId (some d)) um) ∧ um.user = c.encM m := by
  have h1 := R.fileOK k hk
  have h2 := R.noDir k hk
  cases hg : kv.get k with
  | none =>
    left
    rw [hg] at h1
    cases hf : fs.get (StoreC.toPath c k) with
    | none => exact ⟨rfl, rfl⟩
    | some n =>
      cases n with
      | dir => exact absurd hf h2
      | file d um => simp [hf, StoreC.fileView] at h1
  | some e =>
    right
    obtain ⟨m, d⟩ := e
    obtain ⟨d', rfl⟩ := Option.isSome_iff_exists.1 (R.hasData k m d hg)
    rw [hg] at h1
    cases hf : fs.get (StoreC.toPath c k) with
    | none => simp [hf] at h1
    | some n =>
      cases n with
      | dir => exact absurd hf h2
      | file d um =>
        simp only [hf, Option.bind_some, StoreC.fileView, Option.map_some, Option.some.injEq, Prod.mk.injEq] at h1
        exact ⟨m, d', um, rfl, by rw [h1.1], h1.2⟩

/-- what `keys()` makes of one store key -/
def StoreC.keyOf (c : StoreCCfg) (fs : FS) (key : Key) : Option Str :=
  if (c.path.isEmpty || StoreC.strStartsWith key (c.path ++ ['/'])) && !(StoreC.okB true (specOps.isDir fs key)) then
    match specOps.getMeta fs key with
    | .ok mo => (c.decM mo.user).map (·.query)
    | .error _ => none
  else none

theorem StoreC.keys_eq (c : StoreCCfg) (fs : FS) : StoreC.keys c specOps fs = (fs.map (·.1)).filterMap (StoreC.keyOf c fs) := rfl

/-- the path of a filed key is listed as that key -/
theorem RSt2.keyOf_entry {c : StoreCCfg} {U : Str → Prop} {fs : FS} {kv : KV} (ok : CodecS c) (hpath : ∀ r, c.path ≠ '/' :: r)
    (R : RSt2 c U fs kv) (k : Str) (m : CMeta) (d : Option Str) (hg : kv.get k = some (m, d)) :
    StoreC.keyOf c fs (StoreC.toPath c k) = some k ∧ ∃ n, fs.get (StoreC.toPath c k) = some n := by
  obtain ⟨hq, hU⟩ := R.query k m d hg
  rcases R.base.look k hU with ⟨h1, _⟩ | ⟨m', d', um, h1, h2, h3⟩
  · rw [hg] at h1; cases h1
  · rw [hg] at h1
    simp only [Option.some.injEq, Prod.mk.injEq] at h1
    obtain ⟨rfl, _⟩ := h1
    refine ⟨?_, _, h2⟩
    have hne : (StoreC.toPath c k).isEmpty = false := by
      cases h : StoreC.toPath c k with
      | nil => exact absurd h (StoreC.toPath_ne_nil c k)
      | cons a b => rfl
    simp only [StoreC.keyOf, StoreC.pref_keys c hpath k, Bool.true_and, specOps, StoreC.okB, FS.isDirB, hne, Bool.false_or, h2]
    simp [h3, ok.decM_encM, hq]

theorem RSt2.keyOf_mem {c : StoreCCfg} {U : Str → Prop} {fs : FS} {kv : KV} (ok : CodecS c) (hpath : ∀ r, c.path ≠ '/' :: r)
    (R : RSt2 c U fs kv) (e : Key × Node) (he : e ∈ fs) (q : Str) (hq : StoreC.keyOf c fs e.1 = some q) :
    e.1 = StoreC.toPath c q ∧ q ∈ kv.map (·.1) := by
  have hget : fs.get e.1 = some e.2 := R.nd.get_of_mem e he
  obtain ⟨p, n⟩ := e
  cases n with
  | dir =>
    simp only at hget
    simp [StoreC.keyOf, specOps, StoreC.okB, FS.isDirB, hget] at hq
  | file d um =>
    simp only at hget hq ⊢
    obtain ⟨k, hU, rfl⟩ := R.files p d um hget
    rcases R.base.look k hU with ⟨_, h2⟩ | ⟨m', d', um', h1, _, _⟩
    · rw [h2] at hget; cases hget
    · have := (R.keyOf_entry ok hpath k m' (some d') h1).1
      rw [this] at hq
      simp only [Option.some.injEq] at hq
      subst hq
      exact ⟨rfl, AL.mem_keys_of_get (l := kv) h1⟩

/-- **`keys()`** lists exactly the keys of the specification -/
theorem RSt2.keys_perm {c : StoreCCfg} {U : Str → Prop} {fs : FS} {kv : KV} (ok : CodecS c) (hpath : ∀ r, c.path ≠ '/' :: r)
    (R : RSt2 c U fs kv) : (StoreC.keys c specOps fs).Perm (kv.map (·.1)) := by
  rw [StoreC.keys_eq, List.filterMap_map]
  refine (List.perm_ext_iff_of_nodup ?_ ?_).2 ?_
  · refine (List.Pairwise.and_mem.1 R.nd).filterMap _ ?_
    rintro a a' ⟨ha, ha', hne⟩ b hb b' hb' rfl
    exact hne (((R.keyOf_mem ok hpath a ha b hb).1).trans ((R.keyOf_mem ok hpath a' ha' b hb').1).symm)
  · exact List.pairwise_map.2 R.kvnd
  · intro q
    constructor
    · intro hm
      obtain ⟨e, he, hq⟩ := List.mem_filterMap.1 hm
      exact (R.keyOf_mem ok hpath e he q hq).2
    · intro hm
      obtain ⟨v, hv⟩ := AL.get_isSome_of_mem_keys (l := kv) hm
      obtain ⟨h1, n, h2⟩ := R.keyOf_entry ok hpath q v.1 v.2 hv
      exact List.mem_filterMap.2 ⟨(StoreC.toPath c q, n), AL.mem_of_get (l := fs) h2, h1⟩


theorem FS.ND_mkdirs (fs : FS) (ks : List Key) (h : AL.ND fs) : AL.ND (fs.mkdirs ks) := by
  unfold FS.mkdirs
  induction ks generalizing fs with
  | nil => exact h
  | cons a ks ih =>
    simp only [List.foldl_cons]
    apply ih
    split
    · exact h
    · exact h.set a .dir

/-- **all operations**: `StoreCache` over the reference store simulates the key-value specification, cache path without a
leading `/` -/
theorem storec_sim2 (c : StoreCCfg) (U : Str → Prop) (ok : CodecS c) (paths : PathsOK c U) (hpath : ∀ r, c.path ≠ '/' :: r) :
    CSim (storeCOps c specOps) (kvOpsC kvCfgStore) (RSt2 c U) (okSt2 U) := by
  intro fs kv op R ⟨hdata, hstable, hU⟩
  have hbase : ∀ k, op.key? = some k →
      RSt c U ((storeCOps c specOps).step fs op).1 ((kvOpsC kvCfgStore).step kv op).1 ∧
      outEq ((storeCOps c specOps).step fs op).2 ((kvOpsC kvCfgStore).step kv op).2 :=
    fun k hk => storec_sim c U ok paths fs kv op R.base ⟨hdata, hstable, k, hk, hU k hk⟩
  cases op with
  | keys => exact ⟨R, R.keys_perm ok hpath⟩
  | clean =>
    refine ⟨?_, outEq_refl _⟩
    have hfiles : ∀ p d um, fs.get p = some (.file d um) →
        p.isEmpty = false ∧ StoreC.strStartsWith p (if c.path.isEmpty then [] else c.path ++ ['/']) = true := by
      intro p d um hg
      obtain ⟨k, _, rfl⟩ := R.files p d um hg
      refine ⟨?_, StoreC.pref_clean c hpath k⟩
      cases h : StoreC.toPath c k with
      | nil => exact absurd h (StoreC.toPath_ne_nil c k)
      | cons a b => rfl
    obtain ⟨hsub, hnof⟩ := StoreC.clean_spec c fs hfiles
    show RSt2 c U (StoreC.clean c specOps fs) []
    have hview : ∀ p, ((StoreC.clean c specOps fs).get p).bind StoreC.fileView = none := by
      intro p
      cases hg : (StoreC.clean c specOps fs).get p with
      | none => rfl
      | some n =>
        cases n with
        | dir => rfl
        | file d um => exact absurd hg (hnof p d um)
    refine ⟨⟨fun k _ => by rw [hview]; rfl, fun k hk hg => R.base.noDir k hk (hsub.get hg), fun k m d h => by simp [KV.get] at h⟩, ?_, ?_, ?_, ?_⟩
    · obtain ⟨q, hq⟩ := hsub
      rw [hq]
      exact R.nd.filter _
    · exact fun p d um hg => absurd hg (hnof p d um)
    · exact List.Pairwise.nil
    · intro k m d h; simp [KV.get] at h
  | get k => exact ⟨R, (hbase k rfl).2⟩
  | getMeta k => exact ⟨R, (hbase k rfl).2⟩
  | contains k => exact ⟨R, (hbase k rfl).2⟩
  | remove k =>
    obtain ⟨hb, ho⟩ := hbase k rfl
    refine ⟨⟨hb, ?_, ?_, ?_, ?_⟩, ho⟩ <;> simp only [CacheOps.step, storeCOps, kvOpsC, kvOps, specOps]
    · exact R.nd.erase _
    · intro p d um hg
      rw [FS.erase_eq_AL, FS.get_eq_AL, AL.get_erase] at hg
      split at hg
      · cases hg
      · exact R.files p d um hg
    · exact R.kvnd.erase k
    · intro k' m d hg
      rw [KV.get_erase] at hg
      split at hg
      · cases hg
      · exact R.query k' m d hg
  | storeMeta m =>
    obtain ⟨hb, ho⟩ := hbase m.query rfl
    refine ⟨⟨hb, ?_, ?_, ?_, ?_⟩, ho⟩ <;> simp only [CacheOps.step, storeCOps, kvOpsC, kvCfgStore, specOps]
    all_goals
      rcases R.base.look m.query (hU _ rfl) with ⟨h1, h2⟩ | ⟨m0, d, um, h1, h2, h3⟩ <;> simp only [h1, h2]
    · exact R.nd
    · exact R.nd.set _ _
    · exact R.files
    · intro p d' um' hg
      rw [FS.set_eq_AL, FS.get_eq_AL, AL.get_set] at hg
      split at hg
      · rename_i hp
        exact ⟨m.query, hU _ rfl, by simpa using hp⟩
      · exact R.files p d' um' hg
    · exact R.kvnd
    · exact R.kvnd.set _ _
    · exact R.query
    · intro k' m' d' hg
      rw [KV.get_set] at hg
      split at hg
      · rename_i hk
        simp only [Option.some.injEq, Prod.mk.injEq] at hg
        have hk : k' = m.query := by simpa using hk
        rw [← hg.1, hk]
        exact ⟨rfl, hU _ rfl⟩
      · exact R.query k' m' d' hg
  | store st =>
    obtain ⟨hb, ho⟩ := hbase st.metadata.query rfl
    by_cases he : st.metadata.isError
    · refine ⟨?_, ho⟩
      have h1 : ((storeCOps c specOps).step fs (.store st)).1 = fs := by simp [CacheOps.step, storeCOps, he]
      have h2 : ((kvOpsC kvCfgStore).step kv (.store st)).1 = kv := by simp [CacheOps.step, kvOpsC, kvOps, he]
      rw [h1, h2]; exact R
    · have he : st.metadata.isError = false := by simpa using he
      have h1 : ((storeCOps c specOps).step fs (.store st)).1 =
          (fs.mkdirs (ancestors (StoreC.toPath c st.metadata.query))).set (StoreC.toPath c st.metadata.query)
            (.file (c.serD st.metadata.typeId st.data)
              { user := c.encM { st.metadata with status := ready }, size := some (c.serD st.metadata.typeId st.data).length,
                md5 := some (c.serD st.metadata.typeId st.data) }) := by
        simp [CacheOps.step, storeCOps, he, specOps]
      have h2 : ((kvOpsC kvCfgStore).step kv (.store st)).1 = kv.set st.metadata.query { st.metadata with status := ready } st.data := by
        simp [CacheOps.step, kvOpsC, kvOps, he]
      refine ⟨⟨hb, ?_, ?_, ?_, ?_⟩, ho⟩
      · rw [h1]; exact (FS.ND_mkdirs _ _ R.nd).set _ _
      · rw [h1]
        intro p d' um' hg
        rw [FS.set_eq_AL, FS.get_eq_AL, AL.get_set] at hg
        split at hg
        · rename_i hp
          exact ⟨st.metadata.query, hU _ rfl, by simpa using hp⟩
        · rcases FS.get_mkdirs _ _ _ _ hg with h | h
          · exact R.files p d' um' h
          · cases h
      · rw [h2]; exact R.kvnd.set _ _
      · rw [h2]
        intro k' m' d' hg
        rw [KV.get_set] at hg
        split at hg
        · rename_i hk
          simp only [Option.some.injEq, Prod.mk.injEq] at hg
          have hk : k' = st.metadata.query := by simpa using hk
          rw [← hg.1, hk]
          exact ⟨rfl, hU _ rfl⟩
        · exact R.query k' m' d' hg

/-- the state `StoreCache.__init__` leaves on the empty store is related to the empty specification -/
theorem RSt2_init (c : StoreCCfg) (U : Str → Prop) (hpath : ∀ r, c.path ≠ '/' :: r) : RSt2 c U (storeCInit c specOps []) [] := by
  have hP : (StoreC.splitSlash c.path).isEmpty = false := by
    cases h : StoreC.splitSlash c.path with
    | nil => exact absurd h (StoreC.splitSlash_ne_nil _)
    | cons a b => rfl
  have hinit : storeCInit c specOps [] =
      FS.mkdirs [] (ancestors (StoreC.splitSlash c.path) ++ [StoreC.splitSlash c.path]) := by
    simp [storeCInit, specOps, StoreC.okB, FS.isDirB, hP, FS.get, StoreC.splitSlash_ne_nil]
  rw [hinit]
  have hdir : ∀ p n, (FS.mkdirs [] (ancestors (StoreC.splitSlash c.path) ++ [StoreC.splitSlash c.path])).get p = some n → n = .dir := by
    intro p n hg
    rcases FS.get_mkdirs _ _ _ _ hg with h | h
    · simp [FS.get] at h
    · exact h
  refine ⟨⟨?_, ?_, fun k m d h => by simp [KV.get] at h⟩, FS.ND_mkdirs _ _ List.Pairwise.nil, ?_, List.Pairwise.nil,
    fun k m d h => by simp [KV.get] at h⟩
  · intro k _
    cases hg : (FS.mkdirs [] (ancestors (StoreC.splitSlash c.path) ++ [StoreC.splitSlash c.path])).get (StoreC.toPath c k) with
    | none => rfl
    | some n => rw [hdir _ _ hg]; rfl
  · intro k _
    rw [FS.get_mkdirs_of_notMem _ _ _ (StoreC.toPath_not_init c hpath k)]
    simp [FS.get]
  · intro p d um hg
    cases hdir _ _ hg

/-- every history, all eight operations -/
theorem storec_run2 (c : StoreCCfg) (U : Str → Prop) (ok : CodecS c) (paths : PathsOK c U) (hpath : ∀ r, c.path ≠ '/' :: r)
    (h : List CacheOp) (hok : HistOK (kvOpsC kvCfgStore) (okSt2 U) [] h) :
    outsEq ((storeCOps c specOps).run (storeCInit c specOps []) h).2 ((kvOpsC kvCfgStore).run [] h).2 :=
  ((storec_sim2 c U ok paths hpath).run h _ [] (RSt2_init c U hpath) hok).2

end Liquer
