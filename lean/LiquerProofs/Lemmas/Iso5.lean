/-
C10 helpers, part 5: the frame of an evaluation, by induction on the fuel, mutually for `evalChain` / `evalArgs`.

`Good w w' L`: started in the well-formed world `w`, the evaluation reached the well-formed world `w'`, wrote no cell that
existed in `w`, every new cache entry lies above `w.heap.next`, and it owns the cells `L` — all of them new, none of them
owned by a cache entry.
-/
import LiquerProofs.Lemmas.Iso4

namespace Liquer.Iso

structure Good (w w' : World) (L : List Addr) : Prop where
  inv : Inv w'
  post : Post w.heap.next w w'
  own : Own w' w.heap.next L

theorem Good.refl {w : World} (i : Inv w) : Good w w [] := ⟨i, Post.refl i, Own.nil i⟩

theorem Good.step {w w₁ w₂ : World} {L L' : List Addr} (g : Good w w₁ L) (s : Stage w.heap.next w₁ L w₂ L') :
    Good w w₂ L' := ⟨s.inv, g.post.step g.inv g.own s, s.own⟩

theorem Good.sub_right {w w' : World} {L L' : List Addr} (g : Good w w' L) (sub : ∀ a ∈ L', a ∈ L) : Good w w' L' :=
  ⟨g.inv, g.post, g.own.sub sub⟩

/-- a complete sub-evaluation started later: what was owned stays owned -/
theorem Good.sub {w w₁ w₂ : World} {L L₂ : List Addr} (g : Good w w₁ L) (g₂ : Good w₁ w₂ L₂) : Good w w₂ (L ++ L₂) := by
  have s : Stage w.heap.next w₁ [] w₂ L₂ := g₂.post.toStage g₂.inv g₂.own g.own.toNil
  refine ⟨g₂.inv, g.post.step g.inv g.own.toNil s, (Own.keep g.inv g.own s.mod (fun _ _ h => nomatch h)).append s.own⟩

theorem Good.cells_eq {w₁ w₂ : World} {L : List Addr} (g : Good w₁ w₂ L) {st : HState} (lt : st.md < w₁.heap.next) :
    cellsState w₂.heap st = cellsState w₁.heap st := g.post.cells_eq lt

theorem argCells_map_imm (r : Option (List HV)) (v : Val) : argCells (r.map (fun vs => .imm v :: vs)) = argCells r := by
  cases r <;> simp [argCells, cellsHV]

theorem mem_argCells_map {r : Option (List HV)} {d : HV} {a : Addr} (h : a ∈ argCells (r.map (fun vs => d :: vs))) :
    a ∈ cellsHV d ∨ a ∈ argCells r := by
  cases r with
  | none => simp [argCells] at h
  | some vs => simpa [argCells] using h

theorem eval_frame (n : Nat) :
    (∀ w absolute acts, Inv w → ∀ w' r, evalChain n w absolute acts = (w', r) → Good w w' (resCells w'.heap r)) ∧
    (∀ w args, Inv w → ∀ w' r, evalArgs n w args = (w', r) → Good w w' (argCells r)) := by
  induction n with
  | zero =>
    refine ⟨fun w absolute acts i w' r h => ?_, fun w args i w' r h => ?_⟩
    · rw [evalChain] at h
      obtain ⟨rfl, rfl⟩ := Prod.mk.inj h
      exact Good.refl i
    · rw [evalArgs_zero] at h
      obtain ⟨rfl, rfl⟩ := Prod.mk.inj h
      exact Good.refl i
  | succ n ih =>
    obtain ⟨ihC, ihA⟩ := ih
    refine ⟨fun w absolute acts i w' r h => ?_, fun w args i w' r h => ?_⟩
    · -- evalChain
      rcases hL : lookup w (keyOf absolute acts) with ⟨wL, rL⟩
      have gL : Good w wL ([] ++ optCells wL.heap rL) := (Good.refl i).step (lookup_stage hL i (Own.nil i))
      cases rL with
      | some st =>
        rw [evalChain_hit hL] at h
        obtain ⟨rfl, rfl⟩ := Prod.mk.inj h
        exact gL
      | none =>
        have gL : Good w wL [] := gL
        cases hl : acts.getLast? with
        | none =>
          rw [evalChain_nil hL hl] at h
          have := gL.step (initRes_stage gL.inv gL.own)
          rw [h] at this
          exact this
        | some act =>
          rcases hp : predEval n wL absolute acts with ⟨w1, pre⟩
          have g1 : Good w w1 ([] ++ resCells w1.heap pre) := by
            unfold predEval at hp
            split at hp
            · have := gL.step (initRes_stage gL.inv gL.own)
              rw [hp] at this
              exact this
            · exact gL.sub (ihC wL absolute _ gL.inv w1 pre hp)
          cases pre with
          | fail =>
            rw [evalChain_predFail hL hl hp] at h
            obtain ⟨rfl, rfl⟩ := Prod.mk.inj h
            exact g1
          | st pred =>
            have g1 : Good w w1 (cellsState w1.heap pred) := g1
            have g2 := g1.step (prep_stage g1.inv g1.own)
            rcases ha : evalArgs n (prep w1 pred).1 act.args with ⟨w3, ra⟩
            have gA := ihA _ act.args g2.inv w3 ra ha
            have g3 := g2.sub gA
            cases ra with
            | none =>
              rw [evalChain_argsFail hL hl hp ha] at h
              obtain ⟨rfl, rfl⟩ := Prod.mk.inj h
              exact g3.sub_right (fun a ha => nomatch ha)
            | some args =>
              rw [evalChain_finish hL hl hp ha] at h
              have hce := gA.cells_eq
                (g2.own.rng _ (List.mem_append.2 (Or.inr (md_mem_cellsState _ (prep w1 pred).2)))).2
              have g3' : Good w w3 (cmdFoot w3.heap (prep w1 pred).2 (w1.heap.metaAt pred.md).vars args) :=
                g3.sub_right (fun a ha => by
                  rcases mem_cmdFoot.1 ha with h1 | ⟨v, hv, h1⟩ | h1
                  · rw [hce] at h1
                    exact List.mem_append.2 (Or.inl (List.mem_append.2 (Or.inr h1)))
                  · exact List.mem_append.2 (Or.inr (by simp only [argCells, List.mem_flatMap]; exact ⟨v, hv, h1⟩))
                  · exact List.mem_append.2 (Or.inl (List.mem_append.2 (Or.inl (by simp [mem_cellsState, h1])))))
              have := g3'.step (finish_stage (key := keyOf absolute acts) (pvol := (w1.heap.metaAt pred.md).volatile)
                (name := act.name) g3'.inv g3'.own)
              rw [h] at this
              exact this
    · -- evalArgs
      cases args with
      | nil =>
        rw [evalArgs_nil] at h
        obtain ⟨rfl, rfl⟩ := Prod.mk.inj h
        exact Good.refl i
      | cons arg rest =>
        cases arg with
        | text t =>
          rcases hr : evalArgs n w rest with ⟨w1, r1⟩
          have g := ihA w rest i w1 r1 hr
          rw [evalArgs_text hr] at h
          obtain ⟨rfl, rfl⟩ := Prod.mk.inj h
          rw [argCells_map_imm]
          exact g
        | link q =>
          rcases hq : evalChain n w true q with ⟨w1, rq⟩
          have g1 := ihC w true q i w1 rq hq
          cases rq with
          | fail =>
            rw [evalArgs_linkFail hq] at h
            obtain ⟨rfl, rfl⟩ := Prod.mk.inj h
            exact g1
          | st v =>
            rcases hr : evalArgs n w1 rest with ⟨w2, r2⟩
            have g2 := g1.sub (ihA w1 rest g1.inv w2 r2 hr)
            rw [evalArgs_link hq hr] at h
            obtain ⟨rfl, rfl⟩ := Prod.mk.inj h
            refine g2.sub_right (fun a ha => ?_)
            rcases mem_argCells_map ha with h1 | h1
            · exact List.mem_append.2 (Or.inl (by simp [resCells, mem_cellsState, h1]))
            · exact List.mem_append.2 (Or.inr h1)

end Liquer.Iso
